import Yaql.Drv.Util
import Yaql.Drv.C17
/-! Line-protocol driver: one JSON request per line on stdin, one JSON reply
per line on stdout.  `{"p": "<property id>", ...}` selects the handler. -/
open Lean Yaql.Drv

def dispatch (req : Json) : Json :=
  match jstr req "p" with
  | "C17" => Yaql.Drv.C17.handle req
  | "ping" => jo [("pong", jb true)]
  | p => jerr ("unknown handler " ++ p)

partial def loop (hin hout : IO.FS.Stream) : IO Unit := do
  let line ← hin.getLine
  if line.isEmpty then return ()
  let l := line.trimAscii.toString
  if l.isEmpty then loop hin hout else
  let out := match Json.parse l with
    | .ok j => dispatch j
    | .error e => jerr ("json: " ++ e)
  hout.putStrLn out.compress
  hout.flush
  loop hin hout

def main : IO Unit := do loop (← IO.getStdin) (← IO.getStdout)
