import Yaql.Model.EvalStore
/-!
# What the store-passing evaluator writes (`Model/EvalStore.lean`)

For ALL expressions, stores, start contexts and fuel:

* `log_disciplined`: the log an evaluation appends is *disciplined* (`okLog`): the contexts it allocates get
  the next free IDs, and every write (`c[name] = v`, `register_function`) targets the context allocated
  **last** - a context is written only by the call that created it, before anything else is allocated,
  i.e. before a child of it exists or anybody else can hold it; the closure a `def` registers captured the
  context it is registered in.
* `writes_fresh`: hence every write targets a context allocated during this evaluation (ID >= the size of
  the store at its start); `store_follows_log`: the store afterwards is the store before with the log
  replayed on it (the log is complete: nothing is written that is not logged).
* `store_prefix_unchanged` (= `frame` for the mutable representation): every cell that existed before is
  identical afterwards - data, functions, parent - also when the evaluation ends in an exception; the
  store only grows (`store_extends`).
* `statement_only_dollar`: `Statement.evaluate` changes the cells that existed before exactly as
  `context['$'] = data` alone does.

The proofs go through one compositional predicate, `Sat m`: "from every state, `m` appends a disciplined
log segment and its store is the replay of that segment", closed under `bind`; `Open X m` is the same for
a computation that starts while context `X` is still the last one allocated (it may go on writing `X`).
-/
namespace Yaql.Props.EvalStore
open Yaql Yaql.Value Yaql.Eval Yaql.EvalStore

/-! ## logs: replay, discipline -/

def apply1 (cs : List Cell) : Entry → List Cell
  | .alloc _ p => cs ++ [{ parent := some p }]
  | .set c n v => modifyCell cs c fun cell => { cell with data := Context.aset n v cell.data }
  | .reg c f b d => modifyCell cs c fun cell => { cell with funs := Context.aset f (b, d) cell.funs }

def replay (cs : List Cell) : List Entry → List Cell
  | [] => cs
  | en :: r => replay (apply1 cs en) r

def allocs : List Entry → Nat
  | [] => 0
  | .alloc _ _ :: r => allocs r + 1
  | _ :: r => allocs r

/-- the context an entry writes (`none`: it only allocates) -/
def target : Entry → Option Nat
  | .alloc _ _ => none
  | .set c _ _ => some c
  | .reg c _ _ _ => some c

/-- the discipline: `n` = next free ID, `cur` = the context allocated last (still unshared) -/
def okLog : Nat → Option Nat → List Entry → Bool
  | _, _, [] => true
  | n, _, .alloc id _ :: r => id == n && okLog (n + 1) (some id) r
  | n, cur, .set c _ _ :: r => cur == some c && okLog n cur r
  | n, cur, .reg c _ _ cap :: r => cur == some c && cap == c && okLog n cur r

theorem modifyCell_length (cs : List Cell) (c : Nat) (f : Cell → Cell) : (modifyCell cs c f).length = cs.length := by
  unfold modifyCell; split <;> simp

theorem apply1_length (cs : List Cell) (en : Entry) : (apply1 cs en).length = cs.length + allocs [en] := by
  cases en <;> simp [apply1, allocs, modifyCell_length]

theorem allocs_append (a b : List Entry) : allocs (a ++ b) = allocs a + allocs b := by
  induction a with
  | nil => simp [allocs]
  | cons en r ih => cases en <;> simp [allocs, ih] <;> omega

theorem replay_length : ∀ (d : List Entry) (cs : List Cell), (replay cs d).length = cs.length + allocs d
  | [], cs => by simp [replay, allocs]
  | en :: r, cs => by
      simp only [replay]
      rw [replay_length r, apply1_length]
      cases en <;> simp [allocs] <;> omega

theorem replay_append : ∀ (a b : List Entry) (cs : List Cell), replay cs (a ++ b) = replay (replay cs a) b
  | [], _, _ => rfl
  | en :: r, b, cs => by simp only [List.cons_append, replay]; exact replay_append r b _

theorem okLog_weaken : ∀ (d : List Entry) (n : Nat) (cur : Option Nat), okLog n none d = true → okLog n cur d = true
  | [], _, _, _ => rfl
  | .alloc id p :: r, n, cur, h => by simpa [okLog] using h
  | .set c x v :: r, n, cur, h => by simp [okLog] at h
  | .reg c f b d :: r, n, cur, h => by simp [okLog] at h

theorem okLog_append : ∀ (a b : List Entry) (n : Nat) (cur : Option Nat), okLog n cur a = true →
    okLog (n + allocs a) none b = true → okLog n cur (a ++ b) = true
  | [], b, n, cur, _, hb => by simpa [allocs] using okLog_weaken b n cur (by simpa [allocs] using hb)
  | .alloc id p :: r, b, n, cur, ha, hb => by
      simp only [okLog, Bool.and_eq_true] at ha
      simp only [List.cons_append, okLog, Bool.and_eq_true]
      exact ⟨ha.1, okLog_append r b (n + 1) (some id) ha.2 (by simpa [allocs, Nat.add_assoc, Nat.add_comm 1] using hb)⟩
  | .set c x v :: r, b, n, cur, ha, hb => by
      simp only [okLog, Bool.and_eq_true] at ha
      simp only [List.cons_append, okLog, Bool.and_eq_true]
      exact ⟨ha.1, okLog_append r b n cur ha.2 (by simpa [allocs] using hb)⟩
  | .reg c f bd d :: r, b, n, cur, ha, hb => by
      simp only [okLog, Bool.and_eq_true] at ha
      simp only [List.cons_append, okLog, Bool.and_eq_true]
      exact ⟨ha.1, okLog_append r b n cur ha.2 (by simpa [allocs] using hb)⟩

/-- a disciplined log writes fresh contexts only -/
theorem okLog_fresh (n0 : Nat) : ∀ (d : List Entry) (n : Nat) (cur : Option Nat), n0 ≤ n →
    (∀ c, cur = some c → n0 ≤ c) → okLog n cur d = true → ∀ en ∈ d, ∀ c, target en = some c → n0 ≤ c
  | [], _, _, _, _, _, en, hm, _, _ => by cases hm
  | .alloc id p :: r, n, cur, hn, _, h, en, hm, c, ht => by
      simp only [okLog, Bool.and_eq_true, beq_iff_eq] at h
      rcases List.mem_cons.mp hm with rfl | hm
      · cases ht
      · exact okLog_fresh n0 r (n + 1) (some id) (by omega) (fun c hc => by cases hc; omega) h.2 en hm c ht
  | .set c' x v :: r, n, cur, hn, hc, h, en, hm, c, ht => by
      simp only [okLog, Bool.and_eq_true, beq_iff_eq] at h
      rcases List.mem_cons.mp hm with rfl | hm
      · simp only [target, Option.some.injEq] at ht; subst ht; exact hc _ h.1
      · exact okLog_fresh n0 r n cur hn hc h.2 en hm c ht
  | .reg c' f b d :: r, n, cur, hn, hc, h, en, hm, c, ht => by
      simp only [okLog, Bool.and_eq_true, beq_iff_eq] at h
      rcases List.mem_cons.mp hm with rfl | hm
      · simp only [target, Option.some.injEq] at ht; subst ht; exact hc _ h.1.1
      · exact okLog_fresh n0 r n cur hn hc h.2 en hm c ht

theorem modifyCell_get_ne (cs : List Cell) (c i : Nat) (f : Cell → Cell) (h : i ≠ c) :
    (modifyCell cs c f)[i]? = cs[i]? := by
  unfold modifyCell; split
  · simp [Ne.symm h]
  · rfl

/-- replaying entries that write only IDs >= `n0` leaves the cells below `n0` alone -/
theorem replay_frame (n0 : Nat) : ∀ (d : List Entry) (cs : List Cell), n0 ≤ cs.length →
    (∀ en ∈ d, ∀ c, target en = some c → n0 ≤ c) → ∀ i < n0, (replay cs d)[i]? = cs[i]?
  | [], _, _, _, _, _ => rfl
  | en :: r, cs, hl, h, i, hi => by
      simp only [replay]
      rw [replay_frame n0 r (apply1 cs en) (by rw [apply1_length]; omega)
        (fun en' hm => h en' (List.mem_cons_of_mem _ hm)) i hi]
      cases en with
      | alloc id p => simp only [apply1]; rw [List.getElem?_append_left (by omega)]
      | set c x v =>
          have := h _ (List.mem_cons_self ..) c rfl
          exact modifyCell_get_ne _ _ _ _ (by omega)
      | reg c f b d =>
          have := h _ (List.mem_cons_self ..) c rfl
          exact modifyCell_get_ne _ _ _ _ (by omega)

/-! ## the compositional predicates -/

/-- `s'` is `s` after the log segment `d` -/
def Seg (s s' : St) (d : List Entry) : Prop := s'.log = s.log ++ d ∧ s'.cells = replay s.cells d

/-- from every state `m` appends a disciplined segment (no context open at its start) -/
def Sat (m : M α) : Prop := ∀ s, ∃ d, Seg s (m s).2 d ∧ okLog s.cells.length none d = true

/-- ... started while `X` is the context allocated last -/
def Open (X : Nat) (m : M α) : Prop := ∀ s, ∃ d, Seg s (m s).2 d ∧ okLog s.cells.length (some X) d = true

/-- `m` only writes context `X` (closures it registers there captured `X`) -/
def Writes (X : Nat) (m : M α) : Prop := ∀ s, ∃ d, Seg s (m s).2 d ∧ allocs d = 0 ∧ ∀ n, okLog n (some X) d = true

theorem Seg.refl (s : St) : Seg s s [] := ⟨by simp, rfl⟩

theorem Seg.trans {s s1 s2 : St} {d1 d2 : List Entry} (h1 : Seg s s1 d1) (h2 : Seg s1 s2 d2) : Seg s s2 (d1 ++ d2) :=
  ⟨by rw [h2.1, h1.1, List.append_assoc], by rw [h2.2, h1.2, replay_append]⟩

theorem bind_run (m : M α) (f : α → M β) (s : St) :
    (m >>= f) s = match m s with | (.ok a, s') => f a s' | (.error e, s') => (.error e, s') := rfl

theorem Sat.pure (a : α) : Sat (pure a : M α) := fun s => ⟨[], Seg.refl s, rfl⟩
theorem Sat.fail (e : Err) : Sat (fail e : M α) := fun s => ⟨[], Seg.refl s, rfl⟩
theorem Sat.liftR (x : R α) : Sat (liftR x) := fun s => ⟨[], Seg.refl s, rfl⟩
theorem Sat.readVarS (c : Nat) (x : Name) : Sat (readVarS c x) := fun s => by
  refine ⟨[], ?_, rfl⟩
  unfold EvalStore.readVarS
  split
  · exact Seg.refl s
  · split <;> exact Seg.refl s
theorem Sat.getFunS (c : Nat) (f : Name) : Sat (getFunS c f) := fun s => ⟨[], Seg.refl s, rfl⟩

theorem Sat.open {m : M α} (h : Sat m) (X : Nat) : Open X m := fun s => by
  obtain ⟨d, hs, hd⟩ := h s
  exact ⟨d, hs, okLog_weaken d _ _ hd⟩

theorem Sat.bind {m : M α} {f : α → M β} (hm : Sat m) (hf : ∀ a, Sat (f a)) : Sat (m >>= f) := fun s => by
  obtain ⟨d1, hs1, hd1⟩ := hm s
  rw [bind_run]
  cases hr : m s with
  | mk r s1 =>
    rw [hr] at hs1
    cases r with
    | error e => exact ⟨d1, hs1, hd1⟩
    | ok a =>
      obtain ⟨d2, hs2, hd2⟩ := hf a s1
      refine ⟨d1 ++ d2, hs1.trans hs2, okLog_append d1 d2 _ _ hd1 ?_⟩
      have : s1.cells.length = s.cells.length + allocs d1 := by rw [hs1.2, replay_length]
      rw [← this]; exact hd2

theorem Open.bind {X : Nat} {m : M α} {f : α → M β} (hm : Open X m) (hf : ∀ a, Sat (f a)) : Open X (m >>= f) := fun s => by
  obtain ⟨d1, hs1, hd1⟩ := hm s
  rw [bind_run]
  cases hr : m s with
  | mk r s1 =>
    rw [hr] at hs1
    cases r with
    | error e => exact ⟨d1, hs1, hd1⟩
    | ok a =>
      obtain ⟨d2, hs2, hd2⟩ := hf a s1
      refine ⟨d1 ++ d2, hs1.trans hs2, okLog_append d1 d2 _ _ hd1 ?_⟩
      have : s1.cells.length = s.cells.length + allocs d1 := by rw [hs1.2, replay_length]
      rw [← this]; exact hd2

theorem okLog_writes_append : ∀ (a b : List Entry) (n : Nat) (X : Nat), allocs a = 0 → (∀ n, okLog n (some X) a = true) →
    okLog n (some X) b = true → okLog n (some X) (a ++ b) = true
  | [], _, _, _, _, _, hb => hb
  | .alloc id p :: r, _, _, _, h0, _, _ => by simp [allocs] at h0
  | .set c x v :: r, b, n, X, h0, ha, hb => by
      have h := ha n
      simp only [okLog, Bool.and_eq_true] at h
      simp only [List.cons_append, okLog, Bool.and_eq_true]
      exact ⟨h.1, okLog_writes_append r b n X (by simpa [allocs] using h0)
        (fun n => by have := ha n; simp only [okLog, Bool.and_eq_true] at this; exact this.2) hb⟩
  | .reg c f bd d :: r, b, n, X, h0, ha, hb => by
      have h := ha n
      simp only [okLog, Bool.and_eq_true] at h
      simp only [List.cons_append, okLog, Bool.and_eq_true]
      exact ⟨h.1, okLog_writes_append r b n X (by simpa [allocs] using h0)
        (fun n => by have := ha n; simp only [okLog, Bool.and_eq_true] at this; exact this.2) hb⟩

/-- while `X` is open: write it, then go on with `X` still open -/
theorem Open.write_bind {X : Nat} {m : M α} {f : α → M β} (hm : Writes X m) (hf : ∀ a, Open X (f a)) :
    Open X (m >>= f) := fun s => by
  obtain ⟨d1, hs1, h0, hd1⟩ := hm s
  rw [bind_run]
  cases hr : m s with
  | mk r s1 =>
    rw [hr] at hs1
    cases r with
    | error e => exact ⟨d1, hs1, hd1 _⟩
    | ok a =>
      obtain ⟨d2, hs2, hd2⟩ := hf a s1
      refine ⟨d1 ++ d2, hs1.trans hs2, okLog_writes_append d1 d2 _ _ h0 hd1 ?_⟩
      have : s1.cells.length = s.cells.length := by rw [hs1.2, replay_length, h0]; rfl
      rw [← this]; exact hd2

theorem Writes.open {X : Nat} {m : M α} (hm : Writes X m) : Open X m := fun s => by
  obtain ⟨d, hs, _, hd⟩ := hm s
  exact ⟨d, hs, hd _⟩

/-- `create_child_context`, then whatever may be done while the new context is the last one -/
theorem Sat.child_bind {p : Nat} {f : Nat → M β} (hf : ∀ X, Open X (f X)) : Sat (childCtx p >>= f) := fun s => by
  rw [bind_run]
  simp only [childCtx]
  obtain ⟨d2, hs2, hd2⟩ := hf s.cells.length
    { cells := s.cells ++ [{ parent := some p }], log := s.log ++ [.alloc s.cells.length p] }
  refine ⟨.alloc s.cells.length p :: d2, ⟨?_, ?_⟩, ?_⟩
  · rw [hs2.1]; simp
  · rw [hs2.2]; rfl
  · simp only [okLog, beq_self_eq_true, Bool.true_and]
    simpa using hd2

theorem Sat.childCtx (p : Nat) : Sat (childCtx p) := fun s =>
  ⟨[.alloc s.cells.length p], ⟨rfl, rfl⟩, by simp [okLog]⟩

theorem Writes.setVar (X : Nat) (x : Name) (v : Value) : Writes X (setVar X x v) := fun s =>
  ⟨[.set X (Context.normName x) v], ⟨rfl, rfl⟩, rfl, fun n => by simp [okLog]⟩

theorem Writes.regFun (X : Nat) (f : Name) (b : Expr) : Writes X (regFun X f b X) := fun s =>
  ⟨[.reg X f b X], ⟨rfl, rfl⟩, rfl, fun n => by simp [okLog]⟩

theorem Writes.pure (X : Nat) (a : α) : Writes X (pure a : M α) := fun s =>
  ⟨[], Seg.refl s, rfl, fun _ => rfl⟩

theorem Writes.bind {X : Nat} {m : M α} {f : α → M β} (hm : Writes X m) (hf : ∀ a, Writes X (f a)) :
    Writes X (m >>= f) := fun s => by
  obtain ⟨d1, hs1, h0, hd1⟩ := hm s
  rw [bind_run]
  cases hr : m s with
  | mk r s1 =>
    rw [hr] at hs1
    cases r with
    | error e => exact ⟨d1, hs1, h0, hd1⟩
    | ok a =>
      obtain ⟨d2, hs2, h02, hd2⟩ := hf a s1
      exact ⟨d1 ++ d2, hs1.trans hs2, by rw [allocs_append, h0, h02],
        fun n => okLog_writes_append d1 d2 n X h0 hd1 (hd2 n)⟩

theorem Writes.publishPos (X : Nat) : ∀ (vs : VL) (i : Nat), Writes X (publishPos X i vs)
  | [], _ => Writes.pure X ()
  | v :: vs, i => by
      unfold EvalStore.publishPos
      exact Writes.bind (Writes.setVar X _ v) (fun _ => Writes.publishPos X vs (i + 1))

theorem Writes.publishNamed (X : Nat) : ∀ (kvs : List (Name × Value)), Writes X (publishNamed X kvs)
  | [] => Writes.pure X ()
  | (k, v) :: r => by
      unfold EvalStore.publishNamed
      exact Writes.bind (Writes.setVar X k v) (fun _ => Writes.publishNamed X r)

theorem Sat.captureS {m : M α} (h : Sat m) : Sat (captureS m) := fun s => by
  obtain ⟨d, hs, hd⟩ := h s
  refine ⟨d, ?_, hd⟩
  unfold EvalStore.captureS
  cases hr : m s with
  | mk r s1 =>
    rw [hr] at hs
    cases r with
    | ok a => exact hs
    | error e => cases e <;> exact hs


/-! ## every part of the evaluator is disciplined -/

section Discipline

-- from here on the monad's primitives are opaque: the rules above are all that is used about them (and a rule
-- that does not apply fails at once instead of unfolding the evaluator)
attribute [local irreducible] M.pure M.bind EvalStore.fail EvalStore.liftR EvalStore.childCtx EvalStore.setVar
  EvalStore.regFun EvalStore.readVarS EvalStore.getFunS EvalStore.captureS

/-- one proof step: the rule for the computation at the head of the goal -/
macro "sat_step" : tactic => `(tactic| first
  | exact Sat.pure _
  | exact Sat.fail _
  | exact Sat.liftR _
  | exact Sat.childCtx _
  | exact Sat.readVarS _ _
  | exact Sat.getFunS _ _
  | assumption
  | apply_assumption -exfalso
  | (apply Sat.child_bind; intro _)
  | (apply Open.write_bind (Writes.setVar _ _ _); intro _)
  | (apply Open.write_bind (Writes.publishPos _ _ _); intro _)
  | (apply Open.write_bind (Writes.publishNamed _ _); intro _)
  | (apply Open.write_bind (Writes.regFun _ _ _); intro _)
  | apply Sat.captureS
  | (refine Sat.bind ?_ (fun _ => ?_))
  | split
  | apply Sat.open)

macro "sat_tac" : tactic => `(tactic| repeat' sat_step)

theorem Sat.callPure (C : Nat) (x : R α) : Sat (callPure C x) := by
  unfold EvalStore.callPure; sat_tac

theorem Sat.mapLS {f : Value → M Value} (hf : ∀ x, Sat (f x)) : ∀ (xs : VL) (e : Option Err), Sat (mapLS f xs e)
  | [], e => Sat.pure _
  | x :: xs, e => by
      have ih := Sat.mapLS hf xs e
      unfold EvalStore.mapLS; sat_tac

theorem Sat.filterLS {f : Value → M Bool} (hf : ∀ x, Sat (f x)) : ∀ (xs : VL) (e : Option Err), Sat (filterLS f xs e)
  | [], e => Sat.pure _
  | x :: xs, e => by
      have ih := Sat.filterLS hf xs e
      unfold EvalStore.filterLS; sat_tac

theorem Sat.flatMapLS {f : Value → M (VL × Option Err)} (hf : ∀ x, Sat (f x)) :
    ∀ (xs : VL) (e : Option Err), Sat (flatMapLS f xs e)
  | [], e => Sat.pure _
  | x :: xs, e => by
      have ih := Sat.flatMapLS hf xs e
      unfold EvalStore.flatMapLS; sat_tac

theorem Sat.takeWhileLS {f : Value → M Bool} (hf : ∀ x, Sat (f x)) : ∀ (xs : VL) (e : Option Err), Sat (takeWhileLS f xs e)
  | [], e => Sat.pure _
  | x :: xs, e => by
      have ih := Sat.takeWhileLS hf xs e
      unfold EvalStore.takeWhileLS; sat_tac

theorem Sat.dropWhileLS {f : Value → M Bool} (hf : ∀ x, Sat (f x)) : ∀ (xs : VL) (e : Option Err), Sat (dropWhileLS f xs e)
  | [], e => Sat.pure _
  | x :: xs, e => by
      have ih := Sat.dropWhileLS hf xs e
      unfold EvalStore.dropWhileLS; sat_tac

theorem Sat.findLS {f : Value → M Bool} (hf : ∀ x, Sat (f x)) : ∀ (xs : VL) (e : Option Err) (i : Nat), Sat (findLS f i xs e)
  | [], none, _ => Sat.pure _
  | [], some e, _ => Sat.fail _
  | x :: xs, e, i => by
      have ih := Sat.findLS hf xs e (i + 1)
      unfold EvalStore.findLS; sat_tac

theorem Sat.foldLS {f : Value → Value → M Value} (hf : ∀ a x, Sat (f a x)) :
    ∀ (xs : VL) (e : Option Err) (acc : Value), Sat (foldLS f acc xs e)
  | [], none, _ => Sat.pure _
  | [], some e, _ => Sat.fail _
  | x :: xs, e, acc => by
      have ih := fun a => Sat.foldLS hf xs e a
      unfold EvalStore.foldLS; sat_tac

theorem Sat.toDictLS {kf vf : Value → M Value} (hk : ∀ x, Sat (kf x)) (hv : ∀ x, Sat (vf x)) :
    ∀ (xs : VL) (e : Option Err) (acc : KV), Sat (toDictLS kf vf acc xs e)
  | [], none, _ => Sat.pure _
  | [], some e, _ => Sat.fail _
  | x :: xs, e, acc => by
      have ih := fun a => Sat.toDictLS hk hv xs e a
      unfold EvalStore.toDictLS; sat_tac

theorem Sat.keysLS {f : Value → M Value} (hf : ∀ x, Sat (f x)) : ∀ (xs : VL), Sat (keysLS f xs)
  | [] => Sat.pure _
  | x :: xs => by
      have ih := Sat.keysLS hf xs
      unfold EvalStore.keysLS; sat_tac

/-- the induction hypothesis on the knot -/
def SatEv (ev : EvS) : Prop := ∀ C e, Sat (ev C e)

theorem Sat.evalListS {ev : EvS} (hev : SatEv ev) (C : Nat) : ∀ es, Sat (evalListS ev C es)
  | [] => Sat.pure _
  | e :: es => by
      have ih := Sat.evalListS hev C es
      have := hev C e
      unfold EvalStore.evalListS; sat_tac

theorem Sat.evalObjsS {ev : EvS} (hev : SatEv ev) (C : Nat) : ∀ es, Sat (evalObjsS ev C es)
  | [] => Sat.pure _
  | e :: es => by
      have ih := Sat.evalObjsS hev C es
      have := hev C e
      unfold EvalStore.evalObjsS; sat_tac

theorem Sat.evalPairsS {ev : EvS} (hev : SatEv ev) (C : Nat) : ∀ ps, Sat (evalPairsS ev C ps)
  | [] => Sat.pure _
  | (k, v) :: r => by
      have ih := Sat.evalPairsS hev C r
      have := hev C k
      have := hev C v
      unfold EvalStore.evalPairsS; sat_tac

theorem Sat.applyLamS {ev : EvS} (hev : SatEv ev) (D : Nat) (b : Expr) (args : VL) : Sat (applyLamS ev D b args) := by
  have := fun c => hev c b
  unfold EvalStore.applyLamS; sat_tac

theorem Sat.lamVS {ev : EvS} (hev : SatEv ev) (D : Nat) (b : Expr) (args : VL) : Sat (lamVS ev D b args) := by
  have := Sat.applyLamS hev D b args
  unfold EvalStore.lamVS; sat_tac

theorem Sat.lamBS {ev : EvS} (hev : SatEv ev) (D : Nat) (b : Expr) (args : VL) : Sat (lamBS ev D b args) := by
  have := Sat.applyLamS hev D b args
  unfold EvalStore.lamBS; sat_tac

theorem Sat.lamManyS {ev : EvS} (hev : SatEv ev) (D : Nat) (b : Expr) (x : Value) : Sat (lamManyS ev D b x) := by
  have := Sat.applyLamS hev D b [x]
  unfold EvalStore.lamManyS; sat_tac

theorem Sat.plusS (F : Nat) (a b : Value) : Sat (plusS F a b) := by
  have := fun C => Sat.callPure C (binopV .add a b)
  unfold EvalStore.plusS; sat_tac



/-- `sat_step` plus the rules for the evaluator's own parts (the hypothesis on the knot is found by `assumption`) -/
macro "ev_step" : tactic => `(tactic| first
  | exact Sat.pure _
  | exact Sat.fail _
  | exact Sat.liftR _
  | exact Sat.childCtx _
  | exact Sat.readVarS _ _
  | exact Sat.getFunS _ _
  | exact Sat.callPure _ _
  | exact Sat.plusS _ _ _
  | assumption
  | (apply Sat.lamVS; assumption)
  | (apply Sat.lamBS; assumption)
  | (apply Sat.lamManyS; assumption)
  | (apply Sat.evalListS; assumption)
  | (apply Sat.evalObjsS; assumption)
  | (apply Sat.evalPairsS; assumption)
  | (apply Sat.mapLS; intro _)
  | (apply Sat.filterLS; intro _)
  | (apply Sat.flatMapLS; intro _)
  | (apply Sat.takeWhileLS; intro _)
  | (apply Sat.dropWhileLS; intro _)
  | (apply Sat.findLS; intro _)
  | (apply Sat.foldLS; intro _ _)
  | (apply Sat.toDictLS <;> intro _)
  | (apply Sat.keysLS; intro _)
  | (apply Sat.child_bind; intro _)
  | (apply Open.write_bind (Writes.setVar _ _ _); intro _)
  | (apply Open.write_bind (Writes.publishPos _ _ _); intro _)
  | (apply Open.write_bind (Writes.publishNamed _ _); intro _)
  | (apply Open.write_bind (Writes.regFun _ _ _); intro _)
  | apply Sat.captureS
  | (refine Sat.bind ?_ (fun _ => ?_))
  | split
  | apply Sat.open
  | apply_assumption -exfalso
  | dsimp only)

macro "ev_tac" : tactic => `(tactic| repeat' ev_step)

theorem Sat.callMethodS {ev : EvS} (hev : SatEv ev) (Ca : Nat) (bad : Err) (r : ObjS) (f : Fn) (args : List Expr) :
    Sat (callMethodS ev Ca bad r f args) := by
  have hev' : ∀ C e, Sat (ev C e) := hev
  unfold EvalStore.callMethodS
  split <;> ev_tac


theorem Sat.callFnS {ev : EvS} (hev : SatEv ev) (C : Nat) (f : Fn) (args : List Expr) (kw : List (Expr × Expr)) :
    Sat (callFnS ev C f args kw) := by
  have hev' : ∀ C e, Sat (ev C e) := hev
  have hm := fun Ca bad r f args => Sat.callMethodS hev Ca bad r f args
  unfold EvalStore.callFnS
  split <;> ev_tac

theorem Sat.memberNoneS (K : Nat) : Sat (memberNoneS K) := by
  unfold EvalStore.memberNoneS
  ev_tac

mutual
theorem Sat.memberVS (name : Name) : ∀ (x : Value) (K : Nat), Sat (memberVS K name x)
  | .dict d, K => by rw [EvalStore.memberVS]; ev_tac
  | .tuple l, K => by
    have ih := fun K => Sat.memberVSL name l K
    rw [EvalStore.memberVS]; ev_tac
  | .list l, K => by
    have ih := fun K => Sat.memberVSL name l K
    rw [EvalStore.memberVS]; ev_tac
  | .iter l, K => by
    have ih := fun K => Sat.memberVSL name l K
    rw [EvalStore.memberVS]; ev_tac
  | .set _, K => by rw [EvalStore.memberVS]; ev_tac
  | .null, K => by rw [EvalStore.memberVS]; exact Sat.memberNoneS K
  | .bool _, K => by rw [EvalStore.memberVS]; exact Sat.memberNoneS K
  | .int _, K => by rw [EvalStore.memberVS]; exact Sat.memberNoneS K
  | .flt _, K => by rw [EvalStore.memberVS]; exact Sat.memberNoneS K
  | .str _, K => by rw [EvalStore.memberVS]; exact Sat.memberNoneS K
  | .host _, K => by rw [EvalStore.memberVS]; exact Sat.memberNoneS K
theorem Sat.memberVSL (name : Name) : ∀ (l : VL) (K : Nat), Sat (memberVSL K name l)
  | [], K => by rw [EvalStore.memberVSL]; ev_tac
  | x :: xs, K => by
    have ih := Sat.memberVSL name xs K
    have ihx := Sat.memberVS name x K
    rw [EvalStore.memberVSL]; ev_tac
end

theorem Sat.memberOfS (C : Nat) (r : ObjS) (name : Name) : Sat (memberOfS C r name) := by
  have := fun K x => Sat.memberVS name x K
  unfold EvalStore.memberOfS
  split <;> ev_tac

theorem Sat.stepS {ev : EvS} (hev : SatEv ev) : SatEv (stepS ev) := by
  intro C e
  have hev' : ∀ C e, Sat (ev C e) := hev
  have hm := fun Ca bad r f args => Sat.callMethodS hev Ca bad r f args
  have hf := fun C f args kw => Sat.callFnS hev C f args kw
  have hmem := Sat.memberOfS
  unfold EvalStore.stepS
  split <;> ev_tac

/-- every evaluation, every fuel -/
theorem Sat.evalS : ∀ n, SatEv (evalS n)
  | 0 => fun _ _ => Sat.fail _
  | n + 1 => Sat.stepS (Sat.evalS n)

theorem Sat.iterCalls (F : Nat) : ∀ n, Sat (iterCalls F n)
  | 0 => Sat.pure _
  | n + 1 => by
      have ih := Sat.iterCalls F n
      unfold EvalStore.iterCalls; ev_tac

theorem Sat.finaliseS (F : Nat) (o : ObjS) : Sat (finaliseS F o) := by
  have := Sat.iterCalls
  unfold EvalStore.finaliseS
  split <;> ev_tac

theorem Sat.callS (fuel C : Nat) (e : Expr) : Sat (callS fuel C e) := by
  have := Sat.evalS fuel C e
  have := Sat.finaliseS
  unfold EvalStore.callS; ev_tac

/-- `Statement.evaluate` on a context that is still the last one allocated (the host just made it) -/
theorem Open.evaluateS (fuel X : Nat) (doc : Value) (e : Expr) : Open X (evaluateS fuel X doc e) := by
  have := Sat.callS fuel X e
  unfold EvalStore.evaluateS; ev_tac

theorem Sat.hostEvalS (fuel shared : Nat) (doc : Value) (e : Expr) : Sat (hostEvalS fuel shared doc e) := by
  unfold EvalStore.hostEvalS
  exact Sat.child_bind (fun X => Open.evaluateS fuel X doc e)


end Discipline

/-! ## what follows from the discipline -/

theorem Sat.fresh {m : M α} (h : Sat m) (s : St) :
    ∃ d, (m s).2.log = s.log ++ d ∧ ∀ en ∈ d, ∀ c, target en = some c → s.cells.length ≤ c := by
  obtain ⟨d, hs, hd⟩ := h s
  exact ⟨d, hs.1, okLog_fresh s.cells.length d _ none (Nat.le_refl _) (fun _ hc => by cases hc) hd⟩

theorem Sat.frame {m : M α} (h : Sat m) (s : St) : ∀ i < s.cells.length, (m s).2.cells[i]? = s.cells[i]? := by
  obtain ⟨d, hs, hd⟩ := h s
  intro i hi
  rw [hs.2]
  exact replay_frame s.cells.length d s.cells (Nat.le_refl _)
    (okLog_fresh s.cells.length d _ none (Nat.le_refl _) (fun _ hc => by cases hc) hd) i hi

theorem Sat.length_le {m : M α} (h : Sat m) (s : St) : s.cells.length ≤ (m s).2.cells.length := by
  obtain ⟨d, hs, _⟩ := h s
  rw [hs.2, replay_length]; omega

theorem Sat.extends {m : M α} (h : Sat m) (s : St) : ∃ own, (m s).2.cells = s.cells ++ own := by
  refine ⟨(m s).2.cells.drop s.cells.length, ?_⟩
  have hl := h.length_le s
  have ht : (m s).2.cells.take s.cells.length = s.cells := by
    apply List.ext_getElem?
    intro i
    by_cases hi : i < s.cells.length
    · rw [List.getElem?_take_of_lt hi]; exact h.frame s i hi
    · rw [List.getElem?_eq_none (by simp; omega), List.getElem?_eq_none (by omega)]
  conv => lhs; rw [← List.take_append_drop s.cells.length (m s).2.cells]
  rw [ht]

/-- **log_disciplined** (all fuel, contexts, expressions, stores): the log an evaluation appends allocates the
    next free IDs in order and every write in it targets the context allocated last (a closure registered
    there captured that context); the store afterwards is the store before with that segment replayed. -/
theorem log_disciplined (n C : Nat) (e : Expr) (s : St) :
    ∃ d, (evalS n C e s).2.log = s.log ++ d ∧ (evalS n C e s).2.cells = replay s.cells d ∧
      okLog s.cells.length none d = true := by
  obtain ⟨d, hs, hd⟩ := Sat.evalS n C e s
  exact ⟨d, hs.1, hs.2, hd⟩

/-- **writes_fresh**: every write made during `evalS n C e` targets a context allocated during that evaluation -/
theorem writes_fresh (n C : Nat) (e : Expr) (s : St) :
    ∃ d, (evalS n C e s).2.log = s.log ++ d ∧ ∀ en ∈ d, ∀ c, target en = some c → s.cells.length ≤ c :=
  (Sat.evalS n C e).fresh s

/-- **store_prefix_unchanged** (`frame` for the mutable representation): the cells that existed before the
    evaluation are identical afterwards - data, functions, parent - whether it returns or raises -/
theorem store_prefix_unchanged (n C : Nat) (e : Expr) (s : St) :
    ∀ i < s.cells.length, (evalS n C e s).2.cells[i]? = s.cells[i]? :=
  (Sat.evalS n C e).frame s

/-- **store_extends**: the store only grows, behind the old cells -/
theorem store_extends (n C : Nat) (e : Expr) (s : St) : ∃ own, (evalS n C e s).2.cells = s.cells ++ own :=
  (Sat.evalS n C e).extends s

theorem setVar_length (C : Nat) (x : Name) (v : Value) (s : St) : (setVar C x v s).2.cells.length = s.cells.length := by
  simp [setVar, modifyCell_length]

theorem evaluateS_eq (fuel C : Nat) (doc : Value) (e : Expr) (s : St) :
    (evaluateS fuel C doc e s).2 = (callS fuel C e (setVar C ['$'] doc s).2).2 := by
  unfold EvalStore.evaluateS
  rw [bind_run]
  rfl

/-- **statement_only_dollar**: `statement.evaluate(data, context)` leaves every cell that existed before as
    `context['$'] = data` alone leaves it: the context it was handed differs by the `$` binding only (same
    functions, same parent, every other name as before - `setVar_other`), all other cells not at all. -/
theorem statement_only_dollar (fuel C : Nat) (doc : Value) (e : Expr) (s : St) :
    ∀ i < s.cells.length, (evaluateS fuel C doc e s).2.cells[i]? = (setVar C ['$'] doc s).2.cells[i]? := by
  intro i hi
  rw [evaluateS_eq]
  exact (Sat.callS fuel C e).frame _ i (by rw [setVar_length]; exact hi)

/-- what `context['$'] = data` does to the store: cell `C` gets `$1`, nothing else changes -/
theorem setVar_other (C : Nat) (x : Name) (v : Value) (s : St) (i : Nat) (h : i ≠ C) :
    (setVar C x v s).2.cells[i]? = s.cells[i]? := by
  simp only [setVar]; exact modifyCell_get_ne _ _ _ _ h

theorem setVar_self (C : Nat) (x : Name) (v : Value) (s : St) (cell : Cell) (h : s.cells[C]? = some cell) :
    (setVar C x v s).2.cells[C]? = some { cell with data := Context.aset (Context.normName x) v cell.data } := by
  have hl : C < s.cells.length := by
    rcases Nat.lt_or_ge C s.cells.length with hl | hl
    · exact hl
    · rw [List.getElem?_eq_none hl] at h; cases h
  simp only [setVar, modifyCell, h]
  simp [hl]

/-- the host's own step (`create_child_context`, `evaluate` in the child) writes fresh cells only -/
theorem hostEval_extends (fuel shared : Nat) (doc : Value) (e : Expr) (s : St) :
    ∃ own, (hostEvalS fuel shared doc e s).2.cells = s.cells ++ own :=
  (Sat.hostEvalS fuel shared doc e).extends s

/-! ## non-vacuity: concrete programs -/

/-- (kind, context, name) of a log entry -/
def brief : Entry → Nat × Nat × Name
  | .alloc i p => (0, i, Nat.toDigits 10 p)
  | .set i n _ => (1, i, n)
  | .reg i f _ _ => (2, i, f)

/-- two cells: 0 = the host's root, 1 = its child handed to `evaluate` -/
def start : St := { cells := [{ data := [(['$', 'k'], .int 5)] }, { parent := some 0 }], log := [] }

-- `let(x => 1) -> $x` with data 7: `$1` into the given context 1; `let`'s context 2 gets `$x`; `->` runs in its own
-- context 3, `$x` is read through a child 4 of context 2; the finaliser's context 5
example : (evaluateS 6 1 (.int 7) (.arrow (.call .let_ [] [(.kw ['x'], .lit (.int 1))]) (.var ['$', 'x'])) start).1
      = .ok (.data (.int 1)) ∧
    (evaluateS 6 1 (.int 7) (.arrow (.call .let_ [] [(.kw ['x'], .lit (.int 1))]) (.var ['$', 'x'])) start).2.log.map brief
      = [(1, 1, ['$', '1']), (0, 2, ['1']), (1, 2, ['$', 'x']), (0, 3, ['1']), (0, 4, ['2']), (0, 5, ['1'])] :=
  ⟨rfl, rfl⟩

-- `def(f, $ + 1) -> f(2)`: the closure is registered in `def`'s own context 2 and captured it; the application
-- context 5 is a child of 2 and gets `$1`
example : (evalS 8 1 (.arrow (.call .def_ [.kw ['f'], .bin .add (.var ['$']) (.lit (.int 1))] [])
      (.ucall ['f'] [.lit (.int 2)] [])) start).2.log.map brief
      = [(0, 2, ['1']), (2, 2, ['f']), (0, 3, ['1']), (0, 4, ['2']), (0, 5, ['2']), (1, 5, ['$', '1']),
         (0, 6, ['5']), (0, 7, ['5'])] := rfl

-- the host's cells are untouched and the discipline holds on that log
example : ((evalS 8 1 (.arrow (.call .def_ [.kw ['f'], .bin .add (.var ['$']) (.lit (.int 1))] [])
      (.ucall ['f'] [.lit (.int 2)] [])) start).2.cells.take 2).map (·.data) = start.cells.map (·.data) := rfl

-- the discipline is not trivial: a write into the context the evaluation was started in is not a disciplined log
example : okLog 2 none [.set 1 ['$', 'x'] (.int 1)] = false := rfl
-- ... nor is a write into a context after a child of it was allocated
example : okLog 2 none [.alloc 2 1, .alloc 3 2, .set 2 ['$', '1'] (.int 1)] = false := rfl
example : okLog 2 none [.alloc 2 1, .set 2 ['$', '1'] (.int 1), .alloc 3 2] = true := rfl

end Yaql.Props.EvalStore
