import Yaql.Props.C04DispatchSite
/-!
C04 / C05 over the generated registry, part C: the methods of the fragment, first half.
Per call site `c` three kernel evaluations against `Gen/RegistryTypes.lean` (regenerated from the live
`yaql.create_context()` on every run):
* `obs_c`   the representatives the translator proposes (`repsOfCallee c`) look the same as the argument shapes they
            stand for to EVERY parameter type registered under the name, before and after evaluation;
* `inv_c`   `EvalDispatch.dispatchOf` answers every call shape of the fragment like its representative;
* `reps_c`  on the representatives, `dispatchOf` = `Resolve.resolve` on the generated overload family (live parameter
            types, class lattice, layers): same definition (python payload) or same error class, same arguments evaluated.
`Props/C04DispatchGen.lean` turns the three into the statement for every shape of the fragment (`Props/C04Dispatch.lean`:
`resolve_congr`).
-/
namespace Yaql.Props.C04DispatchGen
open Yaql Yaql.Eval Yaql.EvalDispatch Yaql.Gen.RegistryTypes

set_option maxRecDepth 1000000

theorem obs_fn_unpack : siteObs (.fn .unpack) = true := by decide +kernel
theorem inv_fn_unpack : siteInv (.fn .unpack) = true := by decide +kernel
theorem reps_fn_unpack : siteReps (.fn .unpack) = true := by decide +kernel

theorem obs_fn_select : siteObs (.fn .select) = true := by decide +kernel
theorem inv_fn_select : siteInv (.fn .select) = true := by decide +kernel
theorem reps_fn_select : siteReps (.fn .select) = true := by decide +kernel

theorem obs_fn_where : siteObs (.fn .where_) = true := by decide +kernel
theorem inv_fn_where : siteInv (.fn .where_) = true := by decide +kernel
theorem reps_fn_where : siteReps (.fn .where_) = true := by decide +kernel

theorem obs_fn_selectMany : siteObs (.fn .selectMany) = true := by decide +kernel
theorem inv_fn_selectMany : siteInv (.fn .selectMany) = true := by decide +kernel
theorem reps_fn_selectMany : siteReps (.fn .selectMany) = true := by decide +kernel

theorem obs_fn_orderBy : siteObs (.fn .orderBy) = true := by decide +kernel
theorem inv_fn_orderBy : siteInv (.fn .orderBy) = true := by decide +kernel
theorem reps_fn_orderBy : siteReps (.fn .orderBy) = true := by decide +kernel

theorem obs_fn_orderByDescending : siteObs (.fn .orderByDescending) = true := by decide +kernel
theorem inv_fn_orderByDescending : siteInv (.fn .orderByDescending) = true := by decide +kernel
theorem reps_fn_orderByDescending : siteReps (.fn .orderByDescending) = true := by decide +kernel

theorem obs_fn_takeWhile : siteObs (.fn .takeWhile) = true := by decide +kernel
theorem inv_fn_takeWhile : siteInv (.fn .takeWhile) = true := by decide +kernel
theorem reps_fn_takeWhile : siteReps (.fn .takeWhile) = true := by decide +kernel

theorem obs_fn_skipWhile : siteObs (.fn .skipWhile) = true := by decide +kernel
theorem inv_fn_skipWhile : siteInv (.fn .skipWhile) = true := by decide +kernel
theorem reps_fn_skipWhile : siteReps (.fn .skipWhile) = true := by decide +kernel

theorem obs_fn_indexWhere : siteObs (.fn .indexWhere) = true := by decide +kernel
theorem inv_fn_indexWhere : siteInv (.fn .indexWhere) = true := by decide +kernel
theorem reps_fn_indexWhere : siteReps (.fn .indexWhere) = true := by decide +kernel

theorem obs_fn_toDict : siteObs (.fn .toDict) = true := by decide +kernel
theorem inv_fn_toDict : siteInv (.fn .toDict) = true := by decide +kernel
theorem reps_fn_toDict : siteReps (.fn .toDict) = true := by decide +kernel

end Yaql.Props.C04DispatchGen
