import Yaql.Gen.SrcSeq
import Yaql.Lemmas.PyPrelude
import Yaql.Lemmas.PyLoops
/-!
Equivalence of the definitions translated from the CURRENT yaql source (`Yaql.Gen.SrcSeq`, regenerated on every
run by harness/py2lean.py) with the hand-written model - for all inputs.

Pattern of the loop proofs: a helper `*_go` about an abstract loop body `f` with its pointwise description
`hf` (written with `if` only), proved by induction on the list with the `enumerate` start index and the
accumulator generalised; the main theorem unfolds the generated definition and discharges `hf` for the
generated lambda with `py_body`.
-/
namespace Yaql.Props.SrcSeq
open Yaql Yaql.Gen Yaql.Lemmas.PyLoops

/-! ### no loop -/

theorem append_src_eq (collection args : List Value) :
    SrcSeq.append collection args = Seq.append collection args := by
  simp [SrcSeq.append, Seq.append]

theorem clampIdx_eq_seq (len : Nat) (i : Int) : Py.clampIdx len i = Seq.clampIdx len i := by
  unfold Py.clampIdx Seq.clampIdx
  split <;> first | rfl | (congr 1; omega)

theorem split_at_src_eq (collection : List Value) (index : Int) :
    SrcSeq.split_at collection index (fun (xs : List Value) => xs)
      = [(Seq.splitAt index collection).1, (Seq.splitAt index collection).2] := by
  simp only [SrcSeq.split_at, Seq.splitAt, Py.slice, Py.hiBound, Py.loBound, clampIdx_eq_seq,
    List.drop_zero, List.take_length]

theorem list_insert_src_eq (collection : List Value) (position : Int) (value : Value) :
    SrcSeq.list_insert collection position value
      = if Py.ssizeOk position then .ok (Seq.listInsert position value collection) else .error .overflowError := by
  cases h : Py.ssizeOk position <;>
    simp [SrcSeq.list_insert, Py.listInsert?, Py.listInsert, Seq.listInsert, clampIdx_eq_seq, h]

theorem enumerate_go (f : List Value → Int × Value → List Value)
    (hf : ∀ out i t, f out (i, t) = out ++ [Value.list [Value.int i, t]])
    (xs : List Value) (i : Int) (acc : List Value) :
    List.foldl f acc (Py.enumFrom i xs) = acc ++ Seq.enumerateFrom i xs := by
  induction xs generalizing i acc with
  | nil => simp [Seq.enumerateFrom]
  | cons x xs ih => simp [Seq.enumerateFrom, hf, ih]

theorem enumerate_src_eq (collection : List Value) (start : Int) :
    SrcSeq.enumerate_ collection start = Seq.enumerateFrom start collection := by
  unfold SrcSeq.enumerate_
  simp only []
  rw [enumerate_go _ (by py_body)]
  simp

/-! ### searching -/

theorem index_where_go (p : Value → Bool) (f : Unit → Int × Value → Py.Step Unit Int)
    (hf : ∀ i t, f () (i, t) = if p t then .ret i else .next ())
    (xs : List Value) (i : Nat) :
    Py.forLoop (Py.enumFrom (i : Int) xs) () f
      = if Seq.indexWhereFrom p i xs = -1 then .done () else .ret (Seq.indexWhereFrom p i xs) := by
  induction xs generalizing i with
  | nil => simp [Seq.indexWhereFrom]
  | cons x xs ih =>
    simp only [enumFrom_cons, Lemmas.PyPrelude.forLoop_cons, hf, Seq.indexWhereFrom]
    by_cases h : p x = true
    · have : ¬ ((i : Int) = -1) := by omega
      simp [h, this]
    · simp only [h]
      have := ih (i + 1)
      rw [Int.natCast_add] at this
      exact this

theorem index_where_src_eq (collection : List Value) (predicate : Value → Bool) :
    SrcSeq.index_where collection predicate = Seq.indexWhere predicate collection := by
  unfold SrcSeq.index_where Seq.indexWhere
  simp only [enumerate_eq]
  rw [show (0 : Int) = ((0 : Nat) : Int) from rfl, index_where_go predicate _ (by py_body)]
  by_cases h : Seq.indexWhereFrom predicate 0 collection = -1
  · rw [if_pos h, h]
  · rw [if_neg h]

theorem index_of_src_eq (collection : List Value) (item : Value) :
    SrcSeq.index_of collection item = Seq.indexOf item collection := by
  unfold SrcSeq.index_of Seq.indexOf Seq.indexWhere
  simp only [enumerate_eq]
  rw [show (0 : Int) = ((0 : Nat) : Int) from rfl, index_where_go (fun x => Value.pyEq x item) _ (by py_body)]
  by_cases h : Seq.indexWhereFrom (fun x => Value.pyEq x item) 0 collection = -1
  · rw [if_pos h, h]
  · rw [if_neg h]

theorem last_index_where_go (p : Value → Bool) (f : Int → Int × Value → Int)
    (hf : ∀ s i t, f s (i, t) = if p t then i else s)
    (xs : List Value) (i : Nat) (best : Int) :
    List.foldl f best (Py.enumFrom (i : Int) xs) = Seq.lastIndexWhereFrom p i best xs := by
  induction xs generalizing i best with
  | nil => simp [Seq.lastIndexWhereFrom]
  | cons x xs ih =>
    simp only [enumFrom_cons, List.foldl_cons, hf, Seq.lastIndexWhereFrom]
    have := ih (i + 1)
    rw [Int.natCast_add] at this
    exact this _

theorem last_index_where_src_eq (collection : List Value) (predicate : Value → Bool) :
    SrcSeq.last_index_where collection predicate = Seq.lastIndexWhere predicate collection := by
  unfold SrcSeq.last_index_where Seq.lastIndexWhere
  simp only [enumerate_eq]
  rw [show (0 : Int) = ((0 : Nat) : Int) from rfl, last_index_where_go predicate _ (by py_body)]

theorem last_index_of_src_eq (collection : List Value) (item : Value) :
    SrcSeq.last_index_of collection item = Seq.lastIndexOf item collection := by
  unfold SrcSeq.last_index_of Seq.lastIndexOf Seq.lastIndexWhere
  simp only [enumerate_eq]
  rw [show (0 : Int) = ((0 : Nat) : Int) from rfl,
    last_index_where_go (fun x => Value.pyEq x item) _ (by py_body)]

theorem any_go (c : Value → Bool) (f : Unit → Value → Py.Step Unit Bool)
    (hf : ∀ t, f () t = if c t then .ret true else .next ()) (xs : List Value) :
    Py.forLoop xs () f = if xs.any c then .ret true else .done () := by
  induction xs with
  | nil => simp
  | cons x xs ih =>
    rw [Lemmas.PyPrelude.forLoop_cons, hf]
    cases h : c x <;> simp [h, ih]

theorem any_src_eq (collection : List Value) (predicate : Option (Value → Bool)) :
    SrcSeq.any_ collection predicate
      = match predicate with
        | none => !collection.isEmpty
        | some p => Seq.any_ p collection := by
  unfold SrcSeq.any_
  cases predicate with
  | none =>
    simp only []
    rw [any_go (fun _ => true) _ (by py_body)]
    cases collection <;> simp
  | some p =>
    simp only []
    rw [any_go p _ (by py_body)]
    simp only [Seq.any_]
    cases List.any collection p <;> simp

/-! ### delete / replace -/

/-- the range test of delete / replace as the Python source spells it, on an `enumerate` index -/
theorem inRange_iff (pos count : Int) (i : Nat) :
    Seq.inRange pos count i = true
      ↔ ((count ≥ 0 ∧ (pos ≤ (i : Int) ∧ (i : Int) < pos + count)) ∨ (count < 0 ∧ (i : Int) ≥ pos)) := by
  unfold Seq.inRange
  split <;> simp <;> omega

theorem delete_go (pos count : Int) (f : List Value → Int × Value → List Value)
    (hf : ∀ out i t, f out (i, t)
      = if ((count ≥ 0 ∧ (pos ≤ i ∧ i < pos + count)) ∨ (count < 0 ∧ i ≥ pos)) then out else out ++ [t])
    (xs : List Value) (i : Nat) (acc : List Value) :
    List.foldl f acc (Py.enumFrom (i : Int) xs) = acc ++ Seq.deleteFrom pos count i xs := by
  induction xs generalizing i acc with
  | nil => simp [Seq.deleteFrom]
  | cons x xs ih =>
    simp only [enumFrom_cons, List.foldl_cons, hf, Seq.deleteFrom, ← inRange_iff]
    have := ih (i + 1)
    rw [Int.natCast_add] at this
    rw [Int.natCast_one] at this
    rw [this]
    split <;> simp

theorem delete_src_eq (collection : List Value) (position count : Int) :
    SrcSeq.delete collection position count = Seq.delete position count collection := by
  unfold SrcSeq.delete Seq.delete
  simp only [enumerate_eq]
  rw [show (0 : Int) = ((0 : Nat) : Int) from rfl, delete_go position count _ (by py_body)]
  simp

/-- the loop of `replace` / `replace_many` with the state `(out, yielded)` -/
theorem replace_go_oy (pos count : Int) (vals : List Value)
    (f : List Value × Bool → Int × Value → List Value × Bool)
    (hf : ∀ out y i t, f (out, y) (i, t)
      = if ((count ≥ 0 ∧ (pos ≤ i ∧ i < pos + count)) ∨ (count < 0 ∧ i ≥ pos))
        then (if y = true then (out, y) else (out ++ vals, true)) else (out ++ [t], y))
    (xs : List Value) (i : Nat) (acc : List Value) (done : Bool) :
    (List.foldl f (acc, done) (Py.enumFrom (i : Int) xs)).1 = acc ++ Seq.replaceFrom pos count vals i done xs := by
  induction xs generalizing i acc done with
  | nil => simp [Seq.replaceFrom]
  | cons x xs ih =>
    simp only [enumFrom_cons, List.foldl_cons, hf, Seq.replaceFrom, ← inRange_iff]
    have := ih (i + 1)
    rw [Int.natCast_add, Int.natCast_one] at this
    by_cases h : Seq.inRange pos count i = true
    · cases done <;> simp [h, this]
    · simp [h, this]

/-- the same loop with the state `(yielded, out)` -/
theorem replace_go_yo (pos count : Int) (vals : List Value)
    (f : Bool × List Value → Int × Value → Bool × List Value)
    (hf : ∀ y out i t, f (y, out) (i, t)
      = if ((count ≥ 0 ∧ (pos ≤ i ∧ i < pos + count)) ∨ (count < 0 ∧ i ≥ pos))
        then (if y = true then (y, out) else (true, out ++ vals)) else (y, out ++ [t]))
    (xs : List Value) (i : Nat) (acc : List Value) (done : Bool) :
    (List.foldl f (done, acc) (Py.enumFrom (i : Int) xs)).2 = acc ++ Seq.replaceFrom pos count vals i done xs := by
  induction xs generalizing i acc done with
  | nil => simp [Seq.replaceFrom]
  | cons x xs ih =>
    simp only [enumFrom_cons, List.foldl_cons, hf, Seq.replaceFrom, ← inRange_iff]
    have := ih (i + 1)
    rw [Int.natCast_add, Int.natCast_one] at this
    by_cases h : Seq.inRange pos count i = true
    · cases done <;> simp [h, this]
    · simp [h, this]

theorem replace_many_src_eq (collection : List Value) (position : Int) (values : List Value) (count : Int) :
    SrcSeq.replace_many collection position values count = Seq.replaceMany position count values collection := by
  unfold SrcSeq.replace_many Seq.replaceMany
  simp only [enumerate_eq]
  rw [show (0 : Int) = ((0 : Nat) : Int) from rfl]
  first
    | rw [replace_go_oy position count values _ (by py_body)]
    | rw [replace_go_yo position count values _ (by py_body)]
  simp

theorem replace_src_eq (collection : List Value) (position : Int) (value : Value) (count : Int) :
    SrcSeq.replace collection position value count = Seq.replace position count value collection := by
  unfold SrcSeq.replace Seq.replace Seq.replaceMany
  simp only [enumerate_eq]
  rw [show (0 : Int) = ((0 : Nat) : Int) from rfl]
  first
    | rw [replace_go_yo position count [value] _ (by py_body)]
    | rw [replace_go_oy position count [value] _ (by py_body)]
  simp

/-! ### insert -/

/-- the loop of `insert_many` / `iter_insert`: the values go in front of the element of index `pos`;
    the first component is the last index seen -/
theorem insert_go (pos : Int) (vals : List Value) (f : Int × List Value → Int × Value → Int × List Value)
    (hf : ∀ s i t, f s (i, t) = (i, (if i = pos then s.2 ++ vals else s.2) ++ [t]))
    (xs : List Value) (n : Nat) (i0 : Int) (acc : List Value) :
    List.foldl f (i0, acc) (Py.enumFrom (n : Int) xs)
      = (if xs = [] then i0 else (n : Int) + xs.length - 1,
         acc ++ (if (n : Int) ≤ pos ∧ pos < (n : Int) + xs.length
                 then xs.take (pos - n).toNat ++ vals ++ xs.drop (pos - n).toNat else xs)) := by
  induction xs generalizing n i0 acc with
  | nil =>
    simp
    omega
  | cons x xs ih =>
    simp only [enumFrom_cons, List.foldl_cons, hf]
    have := ih (n + 1)
    rw [Int.natCast_add, Int.natCast_one] at this
    rw [this]
    simp only [List.length_cons, Int.natCast_add, Int.natCast_one, reduceCtorEq, if_false]
    refine Prod.ext ?_ ?_
    · simp only []
      split <;> simp_all <;> omega
    · simp only []
      by_cases h1 : (n : Int) = pos
      · have h2 : ¬ ((n : Int) + 1 ≤ pos ∧ pos < (n : Int) + 1 + xs.length) := by omega
        have h3 : ((n : Int) ≤ pos ∧ pos < (n : Int) + (xs.length + 1)) := by omega
        have h4 : (pos - n).toNat = 0 := by omega
        rw [if_pos h1, if_neg h2, if_pos h3, h4]
        simp
      · by_cases h2 : ((n : Int) + 1 ≤ pos ∧ pos < (n : Int) + 1 + xs.length)
        · have h3 : ((n : Int) ≤ pos ∧ pos < (n : Int) + (xs.length + 1)) := by omega
          have h4 : (pos - n).toNat = (pos - (n + 1)).toNat + 1 := by omega
          rw [if_neg h1, if_pos h2, if_pos h3, h4]
          simp
        · have h3 : ¬ ((n : Int) ≤ pos ∧ pos < (n : Int) + (xs.length + 1)) := by omega
          rw [if_neg h1, if_neg h2, if_neg h3]
          simp

/-- the whole loop from index 0, starting with `i = -1` -/
theorem insert_go0 (pos : Int) (vals : List Value) (f : Int × List Value → Int × Value → Int × List Value)
    (hf : ∀ s i t, f s (i, t) = (i, (if i = pos then s.2 ++ vals else s.2) ++ [t]))
    (xs : List Value) (acc : List Value) :
    List.foldl f (-1, acc) (Py.enumFrom 0 xs)
      = ((xs.length : Int) - 1,
         acc ++ (if 0 ≤ pos ∧ pos < (xs.length : Int)
                 then xs.take pos.toNat ++ vals ++ xs.drop pos.toNat else xs)) := by
  have := insert_go pos vals f hf xs 0 (-1) acc
  simp only [Int.natCast_zero, Int.sub_zero, Int.zero_add] at this
  rw [this]
  cases xs <;> simp

/-- what `insert_many` does around its loop -/
theorem insert_many_fin (pos : Int) (vals xs : List Value) :
    (if pos > (xs.length : Int) - 1
     then ((if pos < 0 then vals else []) ++
            (if 0 ≤ pos ∧ pos < (xs.length : Int) then xs.take pos.toNat ++ vals ++ xs.drop pos.toNat else xs)) ++ vals
     else (if pos < 0 then vals else []) ++
            (if 0 ≤ pos ∧ pos < (xs.length : Int) then xs.take pos.toNat ++ vals ++ xs.drop pos.toNat else xs))
      = Seq.insertMany pos vals xs := by
  unfold Seq.insertMany
  by_cases h0 : pos < 0
  · have h1 : ¬ (pos > (xs.length : Int) - 1) := by omega
    have h2 : ¬ (0 ≤ pos ∧ pos < (xs.length : Int)) := by omega
    rw [if_neg h1, if_pos h0, if_pos h0, if_neg h2]
  · by_cases h1 : pos > (xs.length : Int) - 1
    · have h2 : ¬ (0 ≤ pos ∧ pos < (xs.length : Int)) := by omega
      have h3 : xs.length ≤ pos.toNat := by omega
      rw [if_pos h1, if_neg h0, if_neg h0, if_neg h2, List.take_of_length_le h3, List.drop_of_length_le h3]
      simp
    · have h2 : (0 ≤ pos ∧ pos < (xs.length : Int)) := by omega
      rw [if_neg h1, if_neg h0, if_neg h0, if_pos h2]
      simp

/-- what `iter_insert` does around its loop -/
theorem iter_insert_fin (pos : Int) (v : Value) (xs : List Value) :
    (if pos > (xs.length : Int) - 1
     then (if 0 ≤ pos ∧ pos < (xs.length : Int) then xs.take pos.toNat ++ [v] ++ xs.drop pos.toNat else xs) ++ [v]
     else (if 0 ≤ pos ∧ pos < (xs.length : Int) then xs.take pos.toNat ++ [v] ++ xs.drop pos.toNat else xs))
      = Seq.iterInsert pos v xs := by
  unfold Seq.iterInsert Seq.insertMany
  by_cases h0 : pos < 0
  · have h1 : ¬ (pos > (xs.length : Int) - 1) := by omega
    have h2 : ¬ (0 ≤ pos ∧ pos < (xs.length : Int)) := by omega
    rw [if_neg h1, if_pos h0, if_neg h2]
  · by_cases h1 : pos > (xs.length : Int) - 1
    · have h2 : ¬ (0 ≤ pos ∧ pos < (xs.length : Int)) := by omega
      have h3 : xs.length ≤ pos.toNat := by omega
      rw [if_pos h1, if_neg h0, if_neg h0, if_neg h2, List.take_of_length_le h3, List.drop_of_length_le h3]
      simp
    · have h2 : (0 ≤ pos ∧ pos < (xs.length : Int)) := by omega
      rw [if_neg h1, if_neg h0, if_neg h0, if_pos h2]

theorem insert_many_src_eq (collection : List Value) (position : Int) (values : List Value) :
    SrcSeq.insert_many collection position values = Seq.insertMany position values collection := by
  unfold SrcSeq.insert_many
  simp only [enumerate_eq]
  rw [insert_go0 position values _ (by py_body)]
  simpa using insert_many_fin position values collection

theorem iter_insert_src_eq (collection : List Value) (position : Int) (value : Value) :
    SrcSeq.iter_insert collection position value = Seq.iterInsert position value collection := by
  unfold SrcSeq.iter_insert
  simp only [enumerate_eq]
  rw [insert_go0 position [value] _ (by py_body)]
  simpa using iter_insert_fin position value collection

/-! ### `split_where` (a `while` loop over indices) -/

theorem slice_nat (xs : List α) (s e : Nat) (he : e ≤ xs.length) (hs : s ≤ e) :
    Py.slice xs (some (s : Int)) (some (e : Int)) = (xs.take e).drop s := by
  have h1 : Py.clampIdx xs.length (e : Int) = e := by
    unfold Py.clampIdx; split <;> omega
  have h2 : Py.clampIdx xs.length (s : Int) = s := by
    unfold Py.clampIdx; split <;> omega
  simp only [Py.slice, Py.hiBound, Py.loBound, h1, h2]

theorem index_nat (xs : List α) (e : Nat) (he : e < xs.length) :
    Py.index xs (e : Int) = .ok xs[e] := by
  have h1 : ¬ ((e : Int) < 0) := by omega
  simp [Py.index, h1, he]

theorem split_where_go (lst : List Value) (p : Value → Bool)
    (c : List (List Value) × Int × Int → Bool)
    (f : List (List Value) × Int × Int → Py.Step (List (List Value) × Int × Int) (Except Py.Err (List (List Value))))
    (hc : ∀ out s e, c (out, s, e) = decide (e < (lst.length : Int)))
    (hf : ∀ out s e v, Py.index lst e = .ok v →
      f (out, s, e) = .next (if p v = true then (out ++ [Py.slice lst (some s) (some e)], e + 1, e + 1)
                             else (out, s, e + 1)))
    (fuel : Nat) (out : List (List Value)) (s e : Nat) (hs : s ≤ e) (he : e ≤ lst.length)
    (hfuel : lst.length - e ≤ fuel) (si ei : Int) (hsi : si = (s : Int)) (hei : ei = (e : Int))
    (w : Option (Py.Loop (List (List Value) × Int × Int) (Except Py.Err (List (List Value)))))
    (hw : Py.whileLoop fuel (out, si, ei) c f = w) :
    ∃ (out' : List (List Value)) (s' : Nat),
      w = some (.done (out', (s' : Int), (lst.length : Int)))
      ∧ (if (s' : Int) ≠ (lst.length : Int) then out' ++ [Py.slice lst (some (s' : Int)) (some (lst.length : Int))]
         else out')
        = out ++ Seq.splitWhereAux p ((lst.take e).drop s) (lst.drop e) := by
  subst hw hsi hei
  induction fuel generalizing out s e with
  | zero =>
    have hel : e = lst.length := by omega
    subst hel
    refine ⟨out, s, ?_, ?_⟩
    · simp [Py.whileLoop, hc]
    · rw [slice_nat lst s lst.length (Nat.le_refl _) hs]
      simp only [List.drop_length, Seq.splitWhereAux, List.take_length]
      by_cases h : s = lst.length
      · simp [h]
      · have : (s : Int) ≠ (lst.length : Int) := by omega
        have h3 : (List.drop s lst).isEmpty = false := by
          simp; omega
        simp [this, h3]
  | succ n ih =>
    by_cases hlt : e < lst.length
    · have hc' : c (out, (s : Int), (e : Int)) = true := by simp [hc]; omega
      have hidx := index_nat lst e hlt
      have hdrop : lst.drop e = lst[e] :: lst.drop (e + 1) := by simp
      rw [Py.whileLoop, if_pos hc', hf out s e _ hidx, hdrop, Seq.splitWhereAux]
      simp only []
      by_cases hp : p lst[e] = true
      · rw [if_pos hp, if_pos hp]
        have := ih (out ++ [Py.slice lst (some (s : Int)) (some (e : Int))]) (e + 1) (e + 1)
          (Nat.le_refl _) (by omega) (by omega)
        simp only [Int.natCast_add, Int.natCast_one] at this
        obtain ⟨out', s', h1, h2⟩ := this
        refine ⟨out', s', h1, ?_⟩
        rw [h2, slice_nat lst s e (by omega) hs]
        simp
      · rw [if_neg hp, if_neg hp]
        have := ih out s (e + 1) (by omega) (by omega) (by omega)
        rw [Int.natCast_add, Int.natCast_one] at this
        obtain ⟨out', s', h1, h2⟩ := this
        refine ⟨out', s', h1, ?_⟩
        rw [h2]
        congr 2
        rw [List.take_succ_eq_append_getElem hlt, List.drop_append_of_le_length (by simp; omega)]
    · have hel : e = lst.length := by omega
      subst hel
      refine ⟨out, s, ?_, ?_⟩
      · simp [Py.whileLoop, hc]
      · rw [slice_nat lst s lst.length (Nat.le_refl _) hs]
        simp only [List.drop_length, Seq.splitWhereAux, List.take_length]
        by_cases h : s = lst.length
        · simp [h]
        · have : (s : Int) ≠ (lst.length : Int) := by omega
          have h3 : (List.drop s lst).isEmpty = false := by
            simp; omega
          simp [this, h3]

theorem split_where_src_eq (fuel : Nat) (collection : List Value) (predicate : Value → Bool)
    (hfuel : collection.length ≤ fuel) :
    SrcSeq.split_where fuel collection predicate (fun (xs : List Value) => xs)
      = .ok (Seq.splitWhere predicate collection) := by
  unfold SrcSeq.split_where Seq.splitWhere
  simp only []
  generalize hw : Py.whileLoop fuel _ _ _ = w
  obtain ⟨out', s', h1, h2⟩ := split_where_go collection predicate _ _ (by py_body)
    (by intro out s e v h; simp only [h]; py_body) fuel [] 0 0
    (Nat.le_refl _) (Nat.zero_le _) (by omega) 0 0 rfl rfl w hw
  subst h1
  by_cases hs : s' = collection.length
  · have hs' : ¬ ((s' : Int) ≠ (collection.length : Int)) := by omega
    rw [if_neg hs'] at h2
    simpa [hs] using h2
  · have hs' : (s' : Int) ≠ (collection.length : Int) := by omega
    rw [if_pos hs'] at h2
    simpa [hs', Ne.symm hs'] using h2

/-! ### dictionaries keyed by yaql values -/

theorem contains_key_src_eq (d : List (Value × Value)) (key : Value) :
    SrcSeq.contains_key d key = Seq.containsKey d key := by
  simp [SrcSeq.contains_key, Seq.containsKey]

theorem contains_value_src_eq (d : List (Value × Value)) (value : Value) :
    SrcSeq.contains_value d value = Seq.containsValue d value := by
  simp [SrcSeq.contains_value, Seq.containsValue, Py.dictValues, List.any_map, Function.comp_def]

theorem dict_indexer_with_default_src_eq (d : List (Value × Value)) (key default_ : Value) :
    SrcSeq.dict_indexer_with_default d key default_ = Seq.dictGet d key default_ := by
  simp [SrcSeq.dict_indexer_with_default, Seq.dictGet]

theorem dict_get_src_eq (d : List (Value × Value)) (key default_ : Value) :
    SrcSeq.dict_get d key default_ = Seq.dictGet d key default_ := by
  simp [SrcSeq.dict_get, Seq.dictGet]

theorem dict_indexer_src_eq (d : List (Value × Value)) (key : Value) :
    SrcSeq.dict_indexer d key = Py.ofOption (Seq.dGet d key) .keyError := by
  simp [SrcSeq.dict_indexer]

theorem dict_keys_src_eq (d : List (Value × Value)) : SrcSeq.dict_keys d = Seq.dictKeys d := by
  simp [SrcSeq.dict_keys, Seq.dictKeys, Py.dictKeys]

theorem dict_values_src_eq (d : List (Value × Value)) : SrcSeq.dict_values d = Seq.dictValues d := by
  simp [SrcSeq.dict_values, Seq.dictValues, Py.dictValues]

end Yaql.Props.SrcSeq
