import Yaql.Gen.SrcSeq
import Yaql.Lemmas.PyPrelude
/-!
Equivalence of the definitions translated from the CURRENT yaql source (`Yaql.Gen.SrcSeq`, regenerated on every
run by harness/py2lean.py) with the hand-written model - for all inputs.
-/
namespace Yaql.Props.SrcSeq
open Yaql Yaql.Gen

end Yaql.Props.SrcSeq
