import Yaql.Props.C20
/-!
C20, calendar part: the transcription of CPython's `_ymd2ord` / `_ord2ymd` in `Yaql.DateTime` is a
bijection between the valid dates of years 1..9999 and the ordinals 1..3652059, so the constructor
`datetime(y, m, d, h, mi, s, us)` builds the value whose field properties read `y m d h mi s us` back, every
existing value has valid fields that spell it, and `.date` / `.time` split a value.
-/
namespace Yaql.Props.C20Cal
open Yaql.DateTime Yaql.Props.C20

/-- `_days_in_month` by the leap flag -/
def dim (leap : Bool) (m : Int) : Int := daysInMonthCommon m + (if m = 2 ∧ leap = true then 1 else 0)

theorem daysInMonth_dim (y m : Int) : daysInMonth y m = dim (isLeap y) m := by
  unfold daysInMonth dim
  by_cases h : m = 2 ∧ isLeap y = true
  · simp [h, daysInMonthCommon]
  · simp [h]

theorem isLeap_cycles (y : Int) :
    isLeap y = (decide ((y - 1) % 4 = 3) &&
      (decide ((y - 1) % 100 / 4 ≠ 24) || decide ((y - 1) % 400 / 100 = 3))) := by
  rw [Bool.eq_iff_iff]
  simp only [isLeap, Bool.and_eq_true, Bool.or_eq_true, decide_eq_true_eq]
  omega

theorem doy_bound (leap : Bool) (m d : Int) (hm : 1 ≤ m ∧ m ≤ 12) (hd : 1 ≤ d ∧ d ≤ dim leap m) :
    0 ≤ daysBeforeMonth leap m + d - 1 ∧
    (daysBeforeMonth leap m + d - 1 ≤ 364 ∨ (daysBeforeMonth leap m + d - 1 = 365 ∧ leap = true)) := by
  have hm' : m = 1 ∨ m = 2 ∨ m = 3 ∨ m = 4 ∨ m = 5 ∨ m = 6 ∨ m = 7 ∨ m = 8 ∨ m = 9 ∨ m = 10 ∨ m = 11 ∨ m = 12 := by
    omega
  cases leap <;>
  rcases hm' with rfl | rfl | rfl | rfl | rfl | rfl | rfl | rfl | rfl | rfl | rfl | rfl <;>
  simp [dim, daysInMonthCommon] at hd <;>
  simp [daysBeforeMonth, daysBeforeMonthCommon] <;> omega

theorem dby_decomp (Y : Int) :
    Y * 365 + Y / 4 - Y / 100 + Y / 400 =
      146097 * (Y / 400) + 36524 * (Y % 400 / 100) + 1461 * (Y % 100 / 4) + 365 * (Y % 4) := by
  omega

/-- the divisions of `_ord2ymd` on a day number written in 400/100/4/1-year cycles -/
theorem ord2ymd_cycles (a b c e k : Int) (hb : 0 ≤ b ∧ b ≤ 3) (hc : 0 ≤ c ∧ c ≤ 24) (he : 0 ≤ e ∧ e ≤ 3)
    (hk : 0 ≤ k) (hk2 : k ≤ 364 ∨ (k = 365 ∧ e = 3 ∧ (c ≠ 24 ∨ b = 3))) :
    ord2ymd (146097 * a + 36524 * b + 1461 * c + 365 * e + k + 1) =
      if k = 365 then (400 * a + 100 * b + 4 * c + e + 1, 12, 31)
      else monthDay (400 * a + 100 * b + 4 * c + e + 1)
        (decide (e = 3) && (decide (c ≠ 24) || decide (b = 3))) k := by
  have h0 : 146097 * a + 36524 * b + 1461 * c + 365 * e + k + 1 - 1 =
      146097 * a + 36524 * b + 1461 * c + 365 * e + k := by omega
  have h1 : (146097 * a + 36524 * b + 1461 * c + 365 * e + k) / 146097 = a := by omega
  have h2 : (146097 * a + 36524 * b + 1461 * c + 365 * e + k) % 146097 =
      36524 * b + 1461 * c + 365 * e + k := by omega
  unfold ord2ymd
  simp only [h0, h1, h2]
  by_cases hk365 : k = 365
  · by_cases hc24 : c = 24
    · -- last day of a 400-year cycle
      have hb3 : b = 3 := by omega
      have he3 : e = 3 := by omega
      subst hk365 hc24 hb3 he3
      simp
      omega
    · have he3 : e = 3 := by omega
      subst hk365 he3
      have h3 : (36524 * b + 1461 * c + 365 * 3 + 365) / 36524 = b := by omega
      have h4 : (36524 * b + 1461 * c + 365 * 3 + 365) % 36524 = 1461 * c + 1460 := by omega
      have h5 : (1461 * c + 1460) / 1461 = c := by omega
      have h6 : (1461 * c + 1460) % 1461 = 1460 := by omega
      simp only [h3, h4, h5, h6]
      simp
      omega
  · have hk364 : k ≤ 364 := by omega
    have h3 : (36524 * b + 1461 * c + 365 * e + k) / 36524 = b := by omega
    have h4 : (36524 * b + 1461 * c + 365 * e + k) % 36524 = 1461 * c + 365 * e + k := by omega
    have h5 : (1461 * c + 365 * e + k) / 1461 = c := by omega
    have h6 : (1461 * c + 365 * e + k) % 1461 = 365 * e + k := by omega
    have h7 : (365 * e + k) / 365 = e := by omega
    have h8 : (365 * e + k) % 365 = k := by omega
    have h9 : ¬ (e = 4 ∨ b = 4) := by omega
    have h10 : a * 400 + 1 + b * 100 + c * 4 + e = 400 * a + 100 * b + 4 * c + e + 1 := by omega
    simp only [h3, h4, h5, h6, h7, h8, h9, hk365, if_false, h10]

/-- month and day from the day of the year -/
theorem monthDay_spec (year : Int) (leap : Bool) (m d : Int) (hm : 1 ≤ m ∧ m ≤ 12)
    (hd : 1 ≤ d ∧ d ≤ dim leap m) :
    monthDay year leap (daysBeforeMonth leap m + d - 1) = (year, m, d) := by
  have hm' : m = 1 ∨ m = 2 ∨ m = 3 ∨ m = 4 ∨ m = 5 ∨ m = 6 ∨ m = 7 ∨ m = 8 ∨ m = 9 ∨ m = 10 ∨ m = 11 ∨ m = 12 := by
    omega
  cases leap <;>
  rcases hm' with rfl | rfl | rfl | rfl | rfl | rfl | rfl | rfl | rfl | rfl | rfl | rfl <;>
  simp [dim, daysInMonthCommon] at hd <;>
  simp only [daysBeforeMonth, daysBeforeMonthCommon] <;>
  simp <;>
  unfold monthDay <;>
  simp only [] <;>
  generalize hq : ((_ : Int) + 50) / 32 = q <;>
  (have hq' : q = 1 ∨ q = 2 ∨ q = 3 ∨ q = 4 ∨ q = 5 ∨ q = 6 ∨ q = 7 ∨ q = 8 ∨ q = 9 ∨ q = 10 ∨ q = 11 ∨ q = 12 ∨
      q = 13 := by omega) <;>
  rcases hq' with rfl | rfl | rfl | rfl | rfl | rfl | rfl | rfl | rfl | rfl | rfl | rfl | rfl <;>
  first
    | (exfalso; omega)
    | (simp [daysBeforeMonth, daysBeforeMonthCommon, daysInMonthCommon] <;>
        first | omega | (split <;> first | (exfalso; omega) | (simp; omega) | omega))

/-- `_ord2ymd(_ymd2ord(y, m, d)) = (y, m, d)` for every date of the proleptic Gregorian calendar -/
theorem ord2ymd_ymd2ord (y m d : Int) (hm : 1 ≤ m ∧ m ≤ 12) (hd : 1 ≤ d ∧ d ≤ daysInMonth y m) :
    ord2ymd (ymd2ord y m d) = (y, m, d) := by
  rw [daysInMonth_dim] at hd
  obtain ⟨hk0, hk1⟩ := doy_bound (isLeap y) m d hm hd
  have hleap := isLeap_cycles y
  have hdec : ymd2ord y m d =
      146097 * ((y - 1) / 400) + 36524 * ((y - 1) % 400 / 100) + 1461 * ((y - 1) % 100 / 4) + 365 * ((y - 1) % 4) +
        (daysBeforeMonth (isLeap y) m + d - 1) + 1 := by
    unfold ymd2ord daysBeforeYear
    have := dby_decomp (y - 1)
    omega
  have hk2 : daysBeforeMonth (isLeap y) m + d - 1 ≤ 364 ∨
      (daysBeforeMonth (isLeap y) m + d - 1 = 365 ∧ (y - 1) % 4 = 3 ∧
        ((y - 1) % 100 / 4 ≠ 24 ∨ (y - 1) % 400 / 100 = 3)) := by
    rcases hk1 with h | ⟨h1, h2⟩
    · exact Or.inl h
    · refine Or.inr ⟨h1, ?_⟩
      rw [hleap] at h2
      simpa using h2
  rw [hdec, ord2ymd_cycles _ _ _ _ _ (by omega) (by omega) (by omega) hk0 hk2]
  have hyear : 400 * ((y - 1) / 400) + 100 * ((y - 1) % 400 / 100) + 4 * ((y - 1) % 100 / 4) + (y - 1) % 4 + 1 = y := by
    omega
  rw [hyear, ← hleap]
  by_cases h365 : daysBeforeMonth (isLeap y) m + d - 1 = 365
  · -- only December 31 of a leap year is day 365
    simp only [h365, if_true]
    have hm' : m = 1 ∨ m = 2 ∨ m = 3 ∨ m = 4 ∨ m = 5 ∨ m = 6 ∨ m = 7 ∨ m = 8 ∨ m = 9 ∨ m = 10 ∨ m = 11 ∨ m = 12 := by
      omega
    have : m = 12 ∧ d = 31 := by
      cases hl : isLeap y <;> rw [hl] at h365 hd <;>
      rcases hm' with rfl | rfl | rfl | rfl | rfl | rfl | rfl | rfl | rfl | rfl | rfl | rfl <;>
      simp [dim, daysInMonthCommon] at hd <;>
      simp [daysBeforeMonth, daysBeforeMonthCommon] at h365 <;> omega
    rw [this.1, this.2]
  · simp only [h365, if_false]
    exact monthDay_spec y (isLeap y) m d hm hd

/-- ordinals of valid dates of years 1..9999 are 1..3652059 -/
theorem ymd2ord_range (y m d : Int) (hy : 1 ≤ y ∧ y ≤ 9999) (hm : 1 ≤ m ∧ m ≤ 12)
    (hd : 1 ≤ d ∧ d ≤ daysInMonth y m) : 1 ≤ ymd2ord y m d ∧ ymd2ord y m d ≤ 3652059 := by
  rw [daysInMonth_dim] at hd
  obtain ⟨hk0, hk1⟩ := doy_bound (isLeap y) m d hm hd
  have hleap := isLeap_cycles y
  have hk2 : daysBeforeMonth (isLeap y) m + d - 1 ≤ 364 ∨
      (daysBeforeMonth (isLeap y) m + d - 1 = 365 ∧ (y - 1) % 4 = 3) := by
    rcases hk1 with h | ⟨h1, h2⟩
    · exact Or.inl h
    · refine Or.inr ⟨h1, ?_⟩
      rw [hleap] at h2
      simp at h2
      exact h2.1
  unfold ymd2ord daysBeforeYear
  generalize daysBeforeMonth (isLeap y) m = q at *
  constructor <;> omega

/-- every day-of-year offset belongs to a month: `monthDay` returns a valid month and day that spell it -/
theorem monthDay_inv (year : Int) (leap : Bool) (k : Int) (hk : 0 ≤ k)
    (hk2 : k ≤ 364 ∨ (k = 365 ∧ leap = true)) :
    ∃ m d, monthDay year leap k = (year, m, d) ∧ (1 ≤ m ∧ m ≤ 12) ∧ (1 ≤ d ∧ d ≤ dim leap m) ∧
      daysBeforeMonth leap m + d - 1 = k := by
  have key : ∀ m : Int, (1 ≤ m ∧ m ≤ 12) → (1 ≤ k - daysBeforeMonth leap m + 1 ∧ k - daysBeforeMonth leap m + 1 ≤ dim leap m) →
      ∃ m d, monthDay year leap k = (year, m, d) ∧ (1 ≤ m ∧ m ≤ 12) ∧ (1 ≤ d ∧ d ≤ dim leap m) ∧
        daysBeforeMonth leap m + d - 1 = k := by
    intro m hm hd
    refine ⟨m, k - daysBeforeMonth leap m + 1, ?_, hm, hd, by omega⟩
    have := monthDay_spec year leap m (k - daysBeforeMonth leap m + 1) hm hd
    have e : daysBeforeMonth leap m + (k - daysBeforeMonth leap m + 1) - 1 = k := by omega
    rw [e] at this
    exact this
  cases leap
  · have hr : k < 31 ∨ (31 ≤ k ∧ k < 59) ∨ (59 ≤ k ∧ k < 90) ∨ (90 ≤ k ∧ k < 120) ∨ (120 ≤ k ∧ k < 151) ∨
        (151 ≤ k ∧ k < 181) ∨ (181 ≤ k ∧ k < 212) ∨ (212 ≤ k ∧ k < 243) ∨ (243 ≤ k ∧ k < 273) ∨
        (273 ≤ k ∧ k < 304) ∨ (304 ≤ k ∧ k < 334) ∨ (334 ≤ k ∧ k < 365) := by
      simp at hk2; omega
    rcases hr with h | h | h | h | h | h | h | h | h | h | h | h
    · exact key 1 (by omega) (by simp [daysBeforeMonth, daysBeforeMonthCommon, dim, daysInMonthCommon]; omega)
    · exact key 2 (by omega) (by simp [daysBeforeMonth, daysBeforeMonthCommon, dim, daysInMonthCommon]; omega)
    · exact key 3 (by omega) (by simp [daysBeforeMonth, daysBeforeMonthCommon, dim, daysInMonthCommon]; omega)
    · exact key 4 (by omega) (by simp [daysBeforeMonth, daysBeforeMonthCommon, dim, daysInMonthCommon]; omega)
    · exact key 5 (by omega) (by simp [daysBeforeMonth, daysBeforeMonthCommon, dim, daysInMonthCommon]; omega)
    · exact key 6 (by omega) (by simp [daysBeforeMonth, daysBeforeMonthCommon, dim, daysInMonthCommon]; omega)
    · exact key 7 (by omega) (by simp [daysBeforeMonth, daysBeforeMonthCommon, dim, daysInMonthCommon]; omega)
    · exact key 8 (by omega) (by simp [daysBeforeMonth, daysBeforeMonthCommon, dim, daysInMonthCommon]; omega)
    · exact key 9 (by omega) (by simp [daysBeforeMonth, daysBeforeMonthCommon, dim, daysInMonthCommon]; omega)
    · exact key 10 (by omega) (by simp [daysBeforeMonth, daysBeforeMonthCommon, dim, daysInMonthCommon]; omega)
    · exact key 11 (by omega) (by simp [daysBeforeMonth, daysBeforeMonthCommon, dim, daysInMonthCommon]; omega)
    · exact key 12 (by omega) (by simp [daysBeforeMonth, daysBeforeMonthCommon, dim, daysInMonthCommon]; omega)
  · have hr : k < 31 ∨ (31 ≤ k ∧ k < 60) ∨ (60 ≤ k ∧ k < 91) ∨ (91 ≤ k ∧ k < 121) ∨ (121 ≤ k ∧ k < 152) ∨
        (152 ≤ k ∧ k < 182) ∨ (182 ≤ k ∧ k < 213) ∨ (213 ≤ k ∧ k < 244) ∨ (244 ≤ k ∧ k < 274) ∨
        (274 ≤ k ∧ k < 305) ∨ (305 ≤ k ∧ k < 335) ∨ (335 ≤ k ∧ k < 366) := by
      omega
    rcases hr with h | h | h | h | h | h | h | h | h | h | h | h
    · exact key 1 (by omega) (by simp [daysBeforeMonth, daysBeforeMonthCommon, dim, daysInMonthCommon]; omega)
    · exact key 2 (by omega) (by simp [daysBeforeMonth, daysBeforeMonthCommon, dim, daysInMonthCommon]; omega)
    · exact key 3 (by omega) (by simp [daysBeforeMonth, daysBeforeMonthCommon, dim, daysInMonthCommon]; omega)
    · exact key 4 (by omega) (by simp [daysBeforeMonth, daysBeforeMonthCommon, dim, daysInMonthCommon]; omega)
    · exact key 5 (by omega) (by simp [daysBeforeMonth, daysBeforeMonthCommon, dim, daysInMonthCommon]; omega)
    · exact key 6 (by omega) (by simp [daysBeforeMonth, daysBeforeMonthCommon, dim, daysInMonthCommon]; omega)
    · exact key 7 (by omega) (by simp [daysBeforeMonth, daysBeforeMonthCommon, dim, daysInMonthCommon]; omega)
    · exact key 8 (by omega) (by simp [daysBeforeMonth, daysBeforeMonthCommon, dim, daysInMonthCommon]; omega)
    · exact key 9 (by omega) (by simp [daysBeforeMonth, daysBeforeMonthCommon, dim, daysInMonthCommon]; omega)
    · exact key 10 (by omega) (by simp [daysBeforeMonth, daysBeforeMonthCommon, dim, daysInMonthCommon]; omega)
    · exact key 11 (by omega) (by simp [daysBeforeMonth, daysBeforeMonthCommon, dim, daysInMonthCommon]; omega)
    · exact key 12 (by omega) (by simp [daysBeforeMonth, daysBeforeMonthCommon, dim, daysInMonthCommon]; omega)

/-- every day number has cycle coordinates -/
theorem cycles_exist (n : Int) :
    ∃ a b c e k : Int, (0 ≤ b ∧ b ≤ 3) ∧ (0 ≤ c ∧ c ≤ 24) ∧ (0 ≤ e ∧ e ≤ 3) ∧ 0 ≤ k ∧
      (k ≤ 364 ∨ (k = 365 ∧ e = 3 ∧ (c ≠ 24 ∨ b = 3))) ∧
      n = 146097 * a + 36524 * b + 1461 * c + 365 * e + k := by
  by_cases hb : n % 146097 / 36524 = 4
  · exact ⟨n / 146097, 3, 24, 3, 365, by omega, by omega, by omega, by omega, by omega, by omega⟩
  · by_cases he : n % 146097 % 36524 % 1461 / 365 = 4
    · exact ⟨n / 146097, n % 146097 / 36524, n % 146097 % 36524 / 1461, 3, 365,
        by omega, by omega, by omega, by omega, by omega, by omega⟩
    · exact ⟨n / 146097, n % 146097 / 36524, n % 146097 % 36524 / 1461, n % 146097 % 36524 % 1461 / 365,
        n % 146097 % 36524 % 1461 % 365, by omega, by omega, by omega, by omega, by omega, by omega⟩

/-- `_ord2ymd` of an ordinal of years 1..9999 is a valid date of that range with that ordinal -/
theorem ymd2ord_ord2ymd (ord : Int) (h : 1 ≤ ord ∧ ord ≤ 3652059) :
    ∃ y m d, ord2ymd ord = (y, m, d) ∧ (1 ≤ y ∧ y ≤ 9999) ∧ (1 ≤ m ∧ m ≤ 12) ∧
      (1 ≤ d ∧ d ≤ daysInMonth y m) ∧ ymd2ord y m d = ord := by
  obtain ⟨a, b, c, e, k, hb, hc, he, hk, hk2, hn⟩ := cycles_exist (ord - 1)
  have hord : ord = 146097 * a + 36524 * b + 1461 * c + 365 * e + k + 1 := by omega
  have hy : 1 ≤ 400 * a + 100 * b + 4 * c + e + 1 ∧ 400 * a + 100 * b + 4 * c + e + 1 ≤ 9999 := by omega
  generalize hyy : 400 * a + 100 * b + 4 * c + e + 1 = y at hy
  have hleap : isLeap y = (decide (e = 3) && (decide (c ≠ 24) || decide (b = 3))) := by
    rw [isLeap_cycles]
    have h1 : (y - 1) % 4 = e := by omega
    have h2 : (y - 1) % 100 / 4 = c := by omega
    have h3 : (y - 1) % 400 / 100 = b := by omega
    rw [h1, h2, h3]
  have hdby : daysBeforeYear y = 146097 * a + 36524 * b + 1461 * c + 365 * e := by
    unfold daysBeforeYear
    have := dby_decomp (y - 1)
    omega
  rw [hord, ord2ymd_cycles a b c e k hb hc he hk hk2, hyy, ← hleap]
  by_cases h365 : k = 365
  · have hl : isLeap y = true := by
      rw [hleap]; simp; omega
    refine ⟨y, 12, 31, by simp [h365], hy, by omega, ?_, ?_⟩
    · simp [daysInMonth, daysInMonthCommon]
    · simp only [ymd2ord, hdby, hl, daysBeforeMonth, daysBeforeMonthCommon]
      simp; omega
  · have hk3 : k ≤ 364 ∨ (k = 365 ∧ isLeap y = true) := by omega
    obtain ⟨m, d, hmd, hm, hd, hkk⟩ := monthDay_inv y (isLeap y) k hk hk3
    refine ⟨y, m, d, by simp [h365, hmd], hy, hm, ?_, ?_⟩
    · rw [daysInMonth_dim]; exact hd
    · simp only [ymd2ord, hdby]; omega

/-! ## fields <-> wall clock -/

theorem valid_iff (f : Fields) : f.valid = true ↔
    (1 ≤ f.year ∧ f.year ≤ 9999) ∧ (1 ≤ f.month ∧ f.month ≤ 12) ∧ (1 ≤ f.day ∧ f.day ≤ daysInMonth f.year f.month) ∧
    (0 ≤ f.hour ∧ f.hour < 24) ∧ (0 ≤ f.minute ∧ f.minute < 60) ∧ (0 ≤ f.second ∧ f.second < 60) ∧
    (0 ≤ f.micro ∧ f.micro < 1000000) := by
  simp only [Fields.valid, Bool.and_eq_true, decide_eq_true_eq]
  constructor
  · rintro ⟨⟨⟨⟨⟨⟨⟨⟨⟨⟨⟨⟨⟨h1, h2⟩, h3⟩, h4⟩, h5⟩, h6⟩, h7⟩, h8⟩, h9⟩, h10⟩, h11⟩, h12⟩, h13⟩, h14⟩
    exact ⟨⟨h1, h2⟩, ⟨h3, h4⟩, ⟨h5, h6⟩, ⟨h7, h8⟩, ⟨h9, h10⟩, ⟨h11, h12⟩, ⟨h13, h14⟩⟩
  · rintro ⟨⟨h1, h2⟩, ⟨h3, h4⟩, ⟨h5, h6⟩, ⟨h7, h8⟩, ⟨h9, h10⟩, ⟨h11, h12⟩, ⟨h13, h14⟩⟩
    exact ⟨⟨⟨⟨⟨⟨⟨⟨⟨⟨⟨⟨⟨h1, h2⟩, h3⟩, h4⟩, h5⟩, h6⟩, h7⟩, h8⟩, h9⟩, h10⟩, h11⟩, h12⟩, h13⟩, h14⟩

/-- valid fields spell a wall clock inside year 1..9999 whose fields they are -/
theorem fields_roundtrip (f : Fields) (hv : f.valid = true) :
    fieldsOf (localOf f) = f ∧ inRange (localOf f) = true := by
  obtain ⟨hy, hm, hd, hh, hmi, hs, hus⟩ := (valid_iff f).1 hv
  have hord := ymd2ord_range f.year f.month f.day hy hm hd
  have hrt := ord2ymd_ymd2ord f.year f.month f.day hm hd
  generalize hO : ymd2ord f.year f.month f.day = O at hord hrt
  have hl : localOf f = (O - 1) * 86400000000 + (f.hour * 3600000000 + f.minute * 60000000 + f.second * 1000000 + f.micro) := by
    simp only [localOf, hO, usPerDay, usPerHour, usPerMin, usPerSec]; omega
  generalize hT : f.hour * 3600000000 + f.minute * 60000000 + f.second * 1000000 + f.micro = T at hl
  have hT0 : 0 ≤ T ∧ T < 86400000000 := by omega
  have hdiv : localOf f / 86400000000 + 1 = O := by omega
  have hmod : localOf f % 86400000000 = T := by omega
  constructor
  · unfold fieldsOf
    simp only [usPerDay, usPerHour, usPerMin, usPerSec, hdiv, hmod, hrt]
    cases f with | mk y m d h mi s us =>
    simp only at hh hmi hs hus hT ⊢
    subst hT
    congr 1 <;> omega
  · have : (0 ≤ localOf f ∧ localOf f < 315537897600000000) := by omega
    have h : inRange (localOf f) = true ↔ 0 ≤ localOf f ∧ localOf f < maxLocal := by simp [inRange]
    exact h.2 this

/-- the fields of an existing wall clock are valid and spell it -/
theorem fields_of_wall (l : Int) (hl : inRange l = true) :
    (fieldsOf l).valid = true ∧ localOf (fieldsOf l) = l ∧ (fieldsOf l).cInts = true := by
  rw [inRange_lit] at hl
  obtain ⟨y, m, d, ho, hy, hm, hd, hord⟩ := ymd2ord_ord2ymd (l / 86400000000 + 1) (by omega)
  have hf : fieldsOf l = ⟨y, m, d, l % 86400000000 / 3600000000, l % 86400000000 % 3600000000 / 60000000,
      l % 86400000000 % 60000000 / 1000000, l % 86400000000 % 1000000⟩ := by
    simp only [fieldsOf, usPerDay, usPerHour, usPerMin, usPerSec, ho]
  rw [hf]
  refine ⟨?_, ?_, ?_⟩
  · rw [valid_iff]
    exact ⟨hy, hm, hd, by dsimp only; omega, by dsimp only; omega, by dsimp only; omega, by dsimp only; omega⟩
  · simp only [localOf, hord, usPerDay, usPerHour, usPerMin, usPerSec]
    omega
  · have hd31 : d ≤ 31 := by
      have : daysInMonth y m ≤ 31 := by
        unfold daysInMonth daysInMonthCommon
        split <;> (try split) <;> (try split) <;> omega
      omega
    simp only [Fields.cInts, cInt, Bool.and_eq_true, decide_eq_true_eq]
    omega

/-! ## what this means for the yaql functions -/

/-- **constructor and field readers.** `datetime(y, m, d, h, mi, s, us, offset)` with valid fields is the value
    whose wall clock is inside year 1..9999 and whose field properties read the arguments back; an argument
    beyond a C int is an OverflowError, any other invalid field a ValueError. -/
theorem build_fields (f : Fields) (o : Int) :
    (f.cInts = true → f.valid = true →
        buildDatetime f o = .ok ⟨localOf f, some o⟩ ∧ inRange (localOf f) = true ∧ fieldsOf (localOf f) = f) ∧
    (f.cInts = false → buildDatetime f o = .error .overflowError) ∧
    (f.cInts = true → f.valid = false → buildDatetime f o = .error .valueError) ∧
    (∀ d, buildDatetime f o = .ok d →
        d.wf ∧ d.off = some o ∧ dtYear d = f.year ∧ dtMonth d = f.month ∧ dtDay d = f.day ∧ dtHour d = f.hour ∧
        dtMinute d = f.minute ∧ dtSecond d = f.second ∧ dtMicrosecond d = f.micro) := by
  refine ⟨?_, ?_, ?_, ?_⟩
  · intro hc hv
    obtain ⟨h1, h2⟩ := fields_roundtrip f hv
    exact ⟨by simp [buildDatetime, pyDatetime, hc, hv, getTz_some], h2, h1⟩
  · intro hc; simp [buildDatetime, pyDatetime, hc]
  · intro hc hv; simp [buildDatetime, pyDatetime, hc, hv]
  · intro d h
    by_cases hc : f.cInts = true
    · by_cases hv : f.valid = true
      · obtain ⟨h1, h2⟩ := fields_roundtrip f hv
        simp [buildDatetime, pyDatetime, hc, hv, getTz_some] at h
        subst h
        refine ⟨(wf_iff _).2 h2, rfl, ?_⟩
        simp [dtYear, dtMonth, dtDay, dtHour, dtMinute, dtSecond, dtMicrosecond, h1]
      · simp [buildDatetime, pyDatetime, hc, hv] at h
    · simp [buildDatetime, pyDatetime, hc] at h

/-- the date part of an existing wall clock: the constructor accepts the fields and gives midnight of that day -/
theorem date_fields (l : Int) (off : Option Int) (hl : inRange l = true) :
    pyDatetime (⟨(fieldsOf l).year, (fieldsOf l).month, (fieldsOf l).day, 0, 0, 0, 0⟩ : Fields) off = .ok ⟨l - l % 86400000000, off⟩ := by
  obtain ⟨hv, hlo, hc⟩ := fields_of_wall l hl
  obtain ⟨hy, hm, hd, hh, hmi, hs, hus⟩ := (valid_iff _).1 hv
  have hv' : Fields.valid (⟨(fieldsOf l).year, (fieldsOf l).month, (fieldsOf l).day, 0, 0, 0, 0⟩ : Fields) = true := by
    rw [valid_iff]; exact ⟨hy, hm, hd, by dsimp only; omega, by dsimp only; omega, by dsimp only; omega, by dsimp only; omega⟩
  have hc' : Fields.cInts (⟨(fieldsOf l).year, (fieldsOf l).month, (fieldsOf l).day, 0, 0, 0, 0⟩ : Fields) = true := by
    simp only [Fields.cInts, Bool.and_eq_true] at hc ⊢
    refine ⟨⟨⟨⟨⟨⟨hc.1.1.1.1.1.1, hc.1.1.1.1.1.2⟩, hc.1.1.1.1.2⟩, by decide⟩, by decide⟩, by decide⟩, by decide⟩
  have ht : (fieldsOf l).hour * 3600000000 + (fieldsOf l).minute * 60000000 + (fieldsOf l).second * 1000000 +
      (fieldsOf l).micro = l % 86400000000 := by
    simp only [fieldsOf, usPerDay, usPerHour, usPerMin, usPerSec]
    omega
  simp only [pyDatetime, hv', hc', Bool.not_true, Bool.false_eq_true, if_false]
  congr 2
  simp only [localOf, usPerDay, usPerHour, usPerMin, usPerSec] at hlo ⊢
  omega

/-- **`.date` and `.time` split a value**: `d.date` is midnight of `d`'s day at `d`'s offset, `d.time` the
    rest of the day, and `d.date + d.time = d` -/
theorem date_time_split (d : DT) (hd : d.wf) :
    ∃ d0 t, dtDate .conv d = .ok d0 ∧ dtTime .conv d = .ok t ∧
      d0.wall + t = d.wall ∧ 0 ≤ t ∧ t < 86400000000 ∧ d0.wall % 86400000000 = 0 ∧
      d0.off = (asUtc d).off ∧ dtPlusTs .conv d0 t = .ok (asUtc d) := by
  have hl := (wf_iff d).1 hd
  have hdate : ∀ c, dtDate c (asUtc d) = .ok ⟨d.wall - d.wall % 86400000000, (asUtc d).off⟩ := by
    intro c
    unfold dtDate
    rw [convert_asUtc]
    simp only [asUtc_wall]
    exact date_fields d.wall _ hl
  refine ⟨⟨d.wall - d.wall % 86400000000, (asUtc d).off⟩, d.wall % 86400000000, ?_, ?_, by dsimp only; omega, by omega, by omega,
    by dsimp only; omega, rfl, ?_⟩
  · have := hdate .conv
    unfold dtDate at this ⊢
    rw [convert_asUtc] at this
    exact this
  · unfold dtTime
    rw [convert_conv, hdate .bare]
    simp [pySubDt, asUtc_eta]
    omega
  · rw [plus_eq]
    have : d.wall - d.wall % 86400000000 + d.wall % 86400000000 = d.wall := by omega
    simp only [this, asUtc_eta, Option.getD_some]
    exact mkLocal_ok hl

/-- `replace` without arguments is the identity (on the value tagged UTC), replacing only the offset keeps
    the wall clock -/
theorem replace_keeps (d : DT) (hd : d.wf) (o : Int) :
    dtReplace .conv d none none none none none none none none = .ok (asUtc d) ∧
    dtReplace .conv d none none none none none none none (some o) = .ok ⟨d.wall, some o⟩ := by
  have hl := (wf_iff d).1 hd
  obtain ⟨hv, hlo, hc⟩ := fields_of_wall d.wall hl
  constructor <;>
    simp [dtReplace, pyReplace, convert_conv, asUtc_wall, pyDatetime, hv, hc, hlo, getTz_some, asUtc_eta]

end Yaql.Props.C20Cal
