import Yaql.Model.DateTime
/-!
C20, calendar part: the transcription of CPython's `_ymd2ord` / `_ord2ymd` in `Yaql.DateTime` is a
bijection between the valid dates of years 1..9999 and the ordinals 1..3652059, so the constructor
`datetime(y, m, d, h, mi, s, us)` builds the value whose field properties read `y m d h mi s us` back, every
existing value has valid fields that spell it, and `.date` / `.time` split a value.
-/
namespace Yaql.Props.C20Cal
open Yaql.DateTime

/-- `_days_in_month` by the leap flag -/
def dim (leap : Bool) (m : Int) : Int := daysInMonthCommon m + (if m = 2 ∧ leap = true then 1 else 0)

theorem daysInMonth_dim (y m : Int) : daysInMonth y m = dim (isLeap y) m := by
  unfold daysInMonth dim
  by_cases h : m = 2 ∧ isLeap y = true
  · simp [h, daysInMonthCommon]
  · simp [h]

theorem isLeap_cycles (y : Int) :
    isLeap y = (decide ((y - 1) % 4 = 3) &&
      (decide ((y - 1) % 100 / 4 ≠ 24) || decide ((y - 1) % 400 / 100 = 3))) := by
  rw [Bool.eq_iff_iff]
  simp only [isLeap, Bool.and_eq_true, Bool.or_eq_true, decide_eq_true_eq]
  omega

theorem doy_bound (leap : Bool) (m d : Int) (hm : 1 ≤ m ∧ m ≤ 12) (hd : 1 ≤ d ∧ d ≤ dim leap m) :
    0 ≤ daysBeforeMonth leap m + d - 1 ∧
    (daysBeforeMonth leap m + d - 1 ≤ 364 ∨ (daysBeforeMonth leap m + d - 1 = 365 ∧ leap = true)) := by
  have hm' : m = 1 ∨ m = 2 ∨ m = 3 ∨ m = 4 ∨ m = 5 ∨ m = 6 ∨ m = 7 ∨ m = 8 ∨ m = 9 ∨ m = 10 ∨ m = 11 ∨ m = 12 := by
    omega
  cases leap <;>
  rcases hm' with rfl | rfl | rfl | rfl | rfl | rfl | rfl | rfl | rfl | rfl | rfl | rfl <;>
  simp [dim, daysInMonthCommon] at hd <;>
  simp [daysBeforeMonth, daysBeforeMonthCommon] <;> omega

theorem dby_decomp (Y : Int) :
    Y * 365 + Y / 4 - Y / 100 + Y / 400 =
      146097 * (Y / 400) + 36524 * (Y % 400 / 100) + 1461 * (Y % 100 / 4) + 365 * (Y % 4) := by
  omega

/-- the divisions of `_ord2ymd` on a day number written in 400/100/4/1-year cycles -/
theorem ord2ymd_cycles (a b c e k : Int) (hb : 0 ≤ b ∧ b ≤ 3) (hc : 0 ≤ c ∧ c ≤ 24) (he : 0 ≤ e ∧ e ≤ 3)
    (hk : 0 ≤ k) (hk2 : k ≤ 364 ∨ (k = 365 ∧ e = 3 ∧ (c ≠ 24 ∨ b = 3))) :
    ord2ymd (146097 * a + 36524 * b + 1461 * c + 365 * e + k + 1) =
      if k = 365 then (400 * a + 100 * b + 4 * c + e + 1, 12, 31)
      else monthDay (400 * a + 100 * b + 4 * c + e + 1)
        (decide (e = 3) && (decide (c ≠ 24) || decide (b = 3))) k := by
  have h0 : 146097 * a + 36524 * b + 1461 * c + 365 * e + k + 1 - 1 =
      146097 * a + 36524 * b + 1461 * c + 365 * e + k := by omega
  have h1 : (146097 * a + 36524 * b + 1461 * c + 365 * e + k) / 146097 = a := by omega
  have h2 : (146097 * a + 36524 * b + 1461 * c + 365 * e + k) % 146097 =
      36524 * b + 1461 * c + 365 * e + k := by omega
  unfold ord2ymd
  simp only [h0, h1, h2]
  by_cases hk365 : k = 365
  · by_cases hc24 : c = 24
    · -- last day of a 400-year cycle
      have hb3 : b = 3 := by omega
      have he3 : e = 3 := by omega
      subst hk365 hc24 hb3 he3
      simp
      omega
    · have he3 : e = 3 := by omega
      subst hk365 he3
      have h3 : (36524 * b + 1461 * c + 365 * 3 + 365) / 36524 = b := by omega
      have h4 : (36524 * b + 1461 * c + 365 * 3 + 365) % 36524 = 1461 * c + 1460 := by omega
      have h5 : (1461 * c + 1460) / 1461 = c := by omega
      have h6 : (1461 * c + 1460) % 1461 = 1460 := by omega
      simp only [h3, h4, h5, h6]
      simp
      omega
  · have hk364 : k ≤ 364 := by omega
    have h3 : (36524 * b + 1461 * c + 365 * e + k) / 36524 = b := by omega
    have h4 : (36524 * b + 1461 * c + 365 * e + k) % 36524 = 1461 * c + 365 * e + k := by omega
    have h5 : (1461 * c + 365 * e + k) / 1461 = c := by omega
    have h6 : (1461 * c + 365 * e + k) % 1461 = 365 * e + k := by omega
    have h7 : (365 * e + k) / 365 = e := by omega
    have h8 : (365 * e + k) % 365 = k := by omega
    have h9 : ¬ (e = 4 ∨ b = 4) := by omega
    have h10 : a * 400 + 1 + b * 100 + c * 4 + e = 400 * a + 100 * b + 4 * c + e + 1 := by omega
    simp only [h3, h4, h5, h6, h7, h8, h9, hk365, if_false, h10]

/-- month and day from the day of the year -/
theorem monthDay_spec (year : Int) (leap : Bool) (m d : Int) (hm : 1 ≤ m ∧ m ≤ 12)
    (hd : 1 ≤ d ∧ d ≤ dim leap m) :
    monthDay year leap (daysBeforeMonth leap m + d - 1) = (year, m, d) := by
  have hm' : m = 1 ∨ m = 2 ∨ m = 3 ∨ m = 4 ∨ m = 5 ∨ m = 6 ∨ m = 7 ∨ m = 8 ∨ m = 9 ∨ m = 10 ∨ m = 11 ∨ m = 12 := by
    omega
  cases leap <;>
  rcases hm' with rfl | rfl | rfl | rfl | rfl | rfl | rfl | rfl | rfl | rfl | rfl | rfl <;>
  simp [dim, daysInMonthCommon] at hd <;>
  simp only [daysBeforeMonth, daysBeforeMonthCommon] <;>
  simp <;>
  unfold monthDay <;>
  simp only [] <;>
  generalize hq : ((_ : Int) + 50) / 32 = q <;>
  (have hq' : q = 1 ∨ q = 2 ∨ q = 3 ∨ q = 4 ∨ q = 5 ∨ q = 6 ∨ q = 7 ∨ q = 8 ∨ q = 9 ∨ q = 10 ∨ q = 11 ∨ q = 12 ∨
      q = 13 := by omega) <;>
  rcases hq' with rfl | rfl | rfl | rfl | rfl | rfl | rfl | rfl | rfl | rfl | rfl | rfl | rfl <;>
  first
    | (exfalso; omega)
    | (simp [daysBeforeMonth, daysBeforeMonthCommon, daysInMonthCommon] <;>
        first | omega | (split <;> first | (exfalso; omega) | (simp; omega) | omega))

/-- `_ord2ymd(_ymd2ord(y, m, d)) = (y, m, d)` for every date of the proleptic Gregorian calendar -/
theorem ord2ymd_ymd2ord (y m d : Int) (hm : 1 ≤ m ∧ m ≤ 12) (hd : 1 ≤ d ∧ d ≤ daysInMonth y m) :
    ord2ymd (ymd2ord y m d) = (y, m, d) := by
  rw [daysInMonth_dim] at hd
  obtain ⟨hk0, hk1⟩ := doy_bound (isLeap y) m d hm hd
  have hleap := isLeap_cycles y
  have hdec : ymd2ord y m d =
      146097 * ((y - 1) / 400) + 36524 * ((y - 1) % 400 / 100) + 1461 * ((y - 1) % 100 / 4) + 365 * ((y - 1) % 4) +
        (daysBeforeMonth (isLeap y) m + d - 1) + 1 := by
    unfold ymd2ord daysBeforeYear
    have := dby_decomp (y - 1)
    omega
  have hk2 : daysBeforeMonth (isLeap y) m + d - 1 ≤ 364 ∨
      (daysBeforeMonth (isLeap y) m + d - 1 = 365 ∧ (y - 1) % 4 = 3 ∧
        ((y - 1) % 100 / 4 ≠ 24 ∨ (y - 1) % 400 / 100 = 3)) := by
    rcases hk1 with h | ⟨h1, h2⟩
    · exact Or.inl h
    · refine Or.inr ⟨h1, ?_⟩
      rw [hleap] at h2
      simpa using h2
  rw [hdec, ord2ymd_cycles _ _ _ _ _ (by omega) (by omega) (by omega) hk0 hk2]
  have hyear : 400 * ((y - 1) / 400) + 100 * ((y - 1) % 400 / 100) + 4 * ((y - 1) % 100 / 4) + (y - 1) % 4 + 1 = y := by
    omega
  rw [hyear, ← hleap]
  by_cases h365 : daysBeforeMonth (isLeap y) m + d - 1 = 365
  · -- only December 31 of a leap year is day 365
    simp only [h365, if_true]
    have hm' : m = 1 ∨ m = 2 ∨ m = 3 ∨ m = 4 ∨ m = 5 ∨ m = 6 ∨ m = 7 ∨ m = 8 ∨ m = 9 ∨ m = 10 ∨ m = 11 ∨ m = 12 := by
      omega
    have : m = 12 ∧ d = 31 := by
      cases hl : isLeap y <;> rw [hl] at h365 hd <;>
      rcases hm' with rfl | rfl | rfl | rfl | rfl | rfl | rfl | rfl | rfl | rfl | rfl | rfl <;>
      simp [dim, daysInMonthCommon] at hd <;>
      simp [daysBeforeMonth, daysBeforeMonthCommon] at h365 <;> omega
    rw [this.1, this.2]
  · simp only [h365, if_false]
    exact monthDay_spec y (isLeap y) m d hm hd

/-- ordinals of valid dates of years 1..9999 are 1..3652059 -/
theorem ymd2ord_range (y m d : Int) (hy : 1 ≤ y ∧ y ≤ 9999) (hm : 1 ≤ m ∧ m ≤ 12)
    (hd : 1 ≤ d ∧ d ≤ daysInMonth y m) : 1 ≤ ymd2ord y m d ∧ ymd2ord y m d ≤ 3652059 := by
  rw [daysInMonth_dim] at hd
  obtain ⟨hk0, hk1⟩ := doy_bound (isLeap y) m d hm hd
  have hleap := isLeap_cycles y
  have hk2 : daysBeforeMonth (isLeap y) m + d - 1 ≤ 364 ∨
      (daysBeforeMonth (isLeap y) m + d - 1 = 365 ∧ (y - 1) % 4 = 3) := by
    rcases hk1 with h | ⟨h1, h2⟩
    · exact Or.inl h
    · refine Or.inr ⟨h1, ?_⟩
      rw [hleap] at h2
      simp at h2
      exact h2.1
  unfold ymd2ord daysBeforeYear
  generalize daysBeforeMonth (isLeap y) m = q at *
  constructor <;> omega

end Yaql.Props.C20Cal
