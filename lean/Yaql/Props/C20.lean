import Yaql.Model.DateTime
namespace Yaql.Props.C20
open Yaql.DateTime
end Yaql.Props.C20
