import Yaql.Model.DateTime
/-!
C20 - date/time values denote instants consistently.

All theorems are over the model `Yaql.DateTime` (offsets in microseconds, `instant d = wall - off`,
no zone = offset 0), for all wall clocks, offsets, timespans, timestamps; range hypotheses are explicit and
the out-of-range branch is an error class, never a wrapped value (`range_errors`).
The hypothesis "the datetime parameter is declared `yaqltypes.DateTime()`" appears as the class `.conv`;
`Props/C20Gen.lean` discharges it for every registered definition.  Float-valued results are the exact
rationals `(numerator, denominator)` the code hands to the platform's float division.
-/
namespace Yaql.Props.C20
open Yaql.DateTime

/-! ## helpers -/

/-- the offset of a value is a legal `utcoffset()`: strictly between -24h and 24h (always true without a zone) -/
def offOk (d : DT) : Prop :=
  match d.off with
  | none => True
  | some o => validOff o = true

theorem validOff_zero : validOff 0 = true := by decide

theorem inRange_iff (l : Int) : inRange l = true ↔ 0 ≤ l ∧ l < maxLocal := by
  simp [inRange]

theorem inRange_lit (l : Int) : inRange l = true ↔ 0 ≤ l ∧ l < 315537897600000000 := inRange_iff l

theorem mkLocal_ok {l : Int} {off : Option Int} (h : inRange l = true) : mkLocal l off = .ok ⟨l, off⟩ := by
  simp [mkLocal, h]

theorem mkLocal_err {l : Int} {off : Option Int} (h : inRange l = false) :
    mkLocal l off = .error .overflowError := by
  simp [mkLocal, h]

theorem mkLocal_eq_ok {l : Int} {off : Option Int} {e : DT} (h : mkLocal l off = .ok e) :
    inRange l = true ∧ e = ⟨l, off⟩ := by
  unfold mkLocal at h
  split at h
  · rename_i hr; cases h; exact ⟨hr, rfl⟩
  · cases h

theorem wf_iff (d : DT) : d.wf ↔ inRange d.wall = true := by
  simp [DT.wf, inRange]

theorem asUtc_eta (d : DT) : asUtc d = ⟨d.wall, some (d.off.getD 0)⟩ := by
  unfold asUtc convert; cases d with | mk w o => cases o <;> rfl

theorem asUtc_wall (d : DT) : (asUtc d).wall = d.wall := by
  unfold asUtc convert; cases d.off <;> rfl

theorem asUtc_instant (d : DT) : instant (asUtc d) = instant d := by
  simp [instant, asUtc_eta]

theorem asUtc_idem (d : DT) : asUtc (asUtc d) = asUtc d := by
  unfold asUtc convert; cases h : d.off <;> simp [h]

theorem convert_conv (d : DT) : convert .conv d = asUtc d := rfl

/-- a converting parameter sees `asUtc d`, whatever it is handed -/
theorem convert_asUtc (c : PClass) (d : DT) : convert c (asUtc d) = asUtc d := by
  cases c
  · exact asUtc_idem d
  · rfl

theorem offOk_iff (d : DT) : offOk d ↔ validOff (d.off.getD 0) = true := by
  cases d with | mk w o => cases o <;> simp [offOk, validOff_zero]

/-! ## `(d + t) - t = d`, `(d + t) - d = t`, `d2 - (d2 - d1) = d1` -/

/-- `d + t`: the wall clock moves by `t`, the zone (UTC for none) stays -/
theorem plus_eq (d : DT) (t : Int) :
    dtPlusTs .conv d t = mkLocal (d.wall + t) (some (d.off.getD 0)) := by
  simp [dtPlusTs, pyAddTd, convert_conv, asUtc_eta]

theorem minus_eq (d : DT) (t : Int) :
    dtMinusTs .conv d t = mkLocal (d.wall - t) (some (d.off.getD 0)) := by
  simp [dtMinusTs, pyAddTd, convert_conv, asUtc_eta, Int.sub_eq_add_neg]
theorem minusDt_same (a b : DT) (h : (asUtc a).off = (asUtc b).off) :
    dtMinusDt .conv .conv a b = .ok (a.wall - b.wall) := by
  cases a with | mk wa oa => cases b with | mk wb ob =>
  cases oa <;> cases ob <;> simp_all [dtMinusDt, pySubDt, convert, asUtc]

theorem add_sub_1 (d : DT) (t : Int) (hd : d.wf) (e : DT) (h : dtPlusTs .conv d t = .ok e) :
        dtMinusTs .conv e t = .ok (asUtc d) ∧ dtMinusDt .conv .conv e d = .ok t ∧
        tsPlusDt .conv t d = .ok e := by
  rw [plus_eq] at h
  obtain ⟨_, rfl⟩ := mkLocal_eq_ok h
  refine ⟨?_, ?_, ?_⟩
  · rw [minus_eq]
    have : d.wall + t - t = d.wall := by omega
    simp only [this, Option.getD_some]
    rw [mkLocal_ok ((wf_iff d).1 hd), asUtc_eta]
  · rw [minusDt_same]
    · simp; omega
    · simp [asUtc_eta]
  · show dtPlusTs .conv d t = _
    rw [plus_eq]; exact h

/-- difference of two datetimes whose offsets are legal: the difference of the instants -/
theorem minusDt_eq (a b : DT) (ha : offOk a) (hb : offOk b) :
    dtMinusDt .conv .conv a b = .ok (instant a - instant b) := by
  cases a with | mk wa oa => cases b with | mk wb ob =>
  cases oa <;> cases ob <;>
    simp only [offOk, validOff, usPerDay, Bool.and_eq_true] at ha hb <;>
    simp only [dtMinusDt, pySubDt, convert, instant, Option.getD, validOff, usPerDay] <;>
    split <;> simp_all <;> omega

theorem minusDt_sound (a b : DT) (t : Int) (h : dtMinusDt .conv .conv a b = .ok t) :
    t = instant a - instant b := by
  cases a with | mk wa oa => cases b with | mk wb ob =>
  cases oa <;> cases ob <;>
    simp only [dtMinusDt, pySubDt, convert, instant, Option.getD] at h ⊢ <;>
    split at h <;> simp_all <;> (try (split at h <;> simp_all)) <;> omega

theorem minusDt_err (a b : DT) (e : Err) (h : dtMinusDt .conv .conv a b = .error e) :
    e = .valueError ∧ ¬ (offOk a ∧ offOk b) := by
  cases a with | mk wa oa => cases b with | mk wb ob =>
  cases oa <;> cases ob <;>
    simp only [dtMinusDt, pySubDt, convert, offOk] at h ⊢ <;>
    split at h <;> simp_all [validOff_zero] <;> (try (split at h <;> simp_all))

/-! ## comparisons are those of the instants -/

theorem cmpInt_shift (op : CmpOp) (x y o : Int) : cmpInt op (x - o) (y - o) = cmpInt op x y := by
  cases op <;> simp only [cmpInt] <;> congr 1 <;> apply propext <;> omega

theorem cmpInt_shift2 (op : CmpOp) (x y o o' : Int) (h : o = o') : cmpInt op (x - o) (y - o') = cmpInt op x y := by
  subst h; exact cmpInt_shift op x y o

theorem cmp_ok (op : CmpOp) (a b : DT) (ha : offOk a) (hb : offOk b) :
    dtCmp op .conv .conv a b = .ok (cmpInt op (instant a) (instant b)) := by
  cases a with | mk wa oa => cases b with | mk wb ob =>
  cases oa <;> cases ob <;>
    simp only [offOk] at ha hb <;>
    simp only [dtCmp, pyCmp, convert, instant, Option.getD] <;>
    split <;> simp_all [cmpInt_shift2, validOff_zero]

theorem cmp_sound (op : CmpOp) (a b : DT) (r : Bool) (h : dtCmp op .conv .conv a b = .ok r) :
    r = cmpInt op (instant a) (instant b) := by
  cases a with | mk wa oa => cases b with | mk wb ob =>
  cases oa <;> cases ob <;>
    simp only [dtCmp, pyCmp, convert, instant, Option.getD] at h ⊢ <;>
    split at h <;> simp_all [cmpInt_shift2, validOff_zero] <;> (try (split at h <;> simp_all))

theorem cmp_err (op : CmpOp) (a b : DT) (e : Err) (h : dtCmp op .conv .conv a b = .error e) :
    e = .valueError ∧ ¬ (offOk a ∧ offOk b) := by
  cases a with | mk wa oa => cases b with | mk wb ob =>
  cases oa <;> cases ob <;>
    simp only [dtCmp, pyCmp, convert, offOk] at h ⊢ <;>
    split at h <;> simp_all [validOff_zero] <;> (try (split at h <;> simp_all [validOff_zero]))

theorem add_sub_2 (d1 d2 : DT) (t' : Int) (e : DT) (h1 : dtMinusDt .conv .conv d2 d1 = .ok t')
    (h2 : dtMinusTs .conv d2 t' = .ok e) :
    instant e = instant d1 ∧ e.off = (asUtc d2).off ∧ dtCmp .eq .conv .conv e d1 = .ok true := by
  have ht := minusDt_sound d2 d1 t' h1
  rw [minus_eq] at h2
  obtain ⟨_, rfl⟩ := mkLocal_eq_ok h2
  have hi : instant ⟨d2.wall - t', some (d2.off.getD 0)⟩ = instant d1 := by
    subst ht; simp only [instant, Option.getD_some]; omega
  refine ⟨hi, by simp [asUtc_eta], ?_⟩
  -- the comparison succeeds because the subtraction did: same offsets, or both legal
  cases hc : dtCmp .eq .conv .conv ⟨d2.wall - t', some (d2.off.getD 0)⟩ d1 with
  | ok r =>
      have := cmp_sound .eq _ _ r hc
      rw [hi] at this
      simp [this, cmpInt]
  | error err =>
      exfalso
      cases d1 with | mk w1 o1 => cases d2 with | mk w2 o2 =>
      cases o1 <;> cases o2 <;>
        simp only [dtMinusDt, dtCmp, pySubDt, pyCmp, convert, Option.getD] at h1 hc <;>
        split at h1 <;> split at hc <;> simp_all [validOff_zero] <;>
        (try (split at h1 <;> simp_all)) <;> (try (split at hc <;> simp_all))

/-- **C20.add_sub.** For an existing datetime `d` (with or without zone) and any timespan `t`: if `d + t`
    exists then `(d + t) - t = d` (as the value tagged UTC when `d` had no zone), `(d + t) - d = t` and
    `t + d = d + t`.  For any `d1`, `d2`: if `d2 - d1 = t'` and `d2 - t'` exists it denotes the instant of
    `d1` at the offset of `d2`, and `=` says so. -/
theorem add_sub (d d1 d2 : DT) (t : Int) (hd : d.wf) :
    (∀ e, dtPlusTs .conv d t = .ok e →
        dtMinusTs .conv e t = .ok (asUtc d) ∧ dtMinusDt .conv .conv e d = .ok t ∧
        tsPlusDt .conv t d = .ok e) ∧
    (∀ t' e, dtMinusDt .conv .conv d2 d1 = .ok t' → dtMinusTs .conv d2 t' = .ok e →
        instant e = instant d1 ∧ e.off = (asUtc d2).off ∧ dtCmp .eq .conv .conv e d1 = .ok true) :=
  ⟨fun e h => add_sub_1 d t hd e h, fun t' e h1 h2 => add_sub_2 d1 d2 t' e h1 h2⟩

/-- **C20.compare_instants.** `=`, `!=`, `<`, `<=`, `>`, `>=` on datetimes (zone or not, any two offsets)
    are the comparisons of the instants; the only failure is a ValueError for an offset that is not a
    legal `utcoffset()`. -/
theorem compare_instants (op : CmpOp) (a b : DT) :
    (offOk a → offOk b → dtCmp op .conv .conv a b = .ok (cmpInt op (instant a) (instant b))) ∧
    (∀ r, dtCmp op .conv .conv a b = .ok r → r = cmpInt op (instant a) (instant b)) ∧
    (∀ e, dtCmp op .conv .conv a b = .error e → e = .valueError ∧ ¬ (offOk a ∧ offOk b)) :=
  ⟨cmp_ok op a b, cmp_sound op a b, cmp_err op a b⟩

/-! ## `.utc` -/

/-- `.utc` of a converted value: independent of the host zone -/
theorem utc_eq (host : Int) (d : DT) :
    dtUtc .conv host d =
      if validOff (d.off.getD 0) then mkLocal (instant d) (some 0) else .error .valueError := by
  simp [dtUtc, convert_conv, asUtc_eta, pyAstimezoneUtc, instant]

/-- **C20.utc_same_instant.** -/
theorem utc_same_instant (host : Int) (d : DT) :
    (∀ u, dtUtc .conv host d = .ok u →
        instant u = instant d ∧ u.off = some 0 ∧ dtOffset .conv u = .ok 0 ∧ u.wf) ∧
    (offOk d → inRange (instant d) = true → dtUtc .conv host d = .ok ⟨instant d, some 0⟩) ∧
    (offOk d → inRange (instant d) = false → dtUtc .conv host d = .error .overflowError) ∧
    (¬ offOk d → dtUtc .conv host d = .error .valueError) := by
  rw [utc_eq, offOk_iff]
  refine ⟨?_, ?_, ?_, ?_⟩
  · intro u h
    split at h
    · obtain ⟨hr, rfl⟩ := mkLocal_eq_ok h
      refine ⟨by simp [instant], rfl, ?_, (wf_iff _).2 hr⟩
      simp [dtOffset, pyUtcoffset, convert, validOff_zero]
    · cases h
  · intro ho hr; simp [ho, mkLocal_ok hr]
  · intro ho hr; simp [ho, mkLocal_err hr]
  · intro ho; simp [ho]


/-! ## timestamps -/

theorem timeTOk_lit (u : Int) :
    timeTOk u = true ↔ -9223372036854775808 * 1000000 ≤ u ∧ u < 9223372036854775808 * 1000000 := by
  have : timeTOk u = true ↔ -9223372036854775808 * usPerSec ≤ u ∧ u < 9223372036854775808 * usPerSec := by
    simp [timeTOk]
  exact this

theorem gmtimeOk_lit (u : Int) :
    gmtimeOk u = true ↔ -67768040609740800 * 1000000 ≤ u ∧ u < 67768036191676800 * 1000000 := by
  have : gmtimeOk u = true ↔ -67768040609740800 * usPerSec ≤ u ∧ u < 67768036191676800 * usPerSec := by
    simp [gmtimeOk]
  exact this

/-- `.timestamp` = the microseconds of `.utc` since the epoch, over 10^6 -/
theorem timestamp_eq (host : Int) (d : DT) :
    dtTimestamp .conv host d =
      match dtUtc .conv host d with
      | .ok u => .ok (u.wall - epochLocal, 1000000)
      | .error e => .error e := by
  have h1 : dtUtc .bare host (convert .conv d) = dtUtc .conv host d := rfl
  unfold dtTimestamp
  rw [h1, utc_eq]
  by_cases hv : validOff (d.off.getD 0) = true
  · by_cases hr : inRange (instant d) = true
    · simp [hv, mkLocal_ok hr, pySubDt, epoch]
    · simp [hv, mkLocal_err (Bool.eq_false_iff.2 hr)]
  · simp [hv]

theorem roundHalfEven_exact (k : Int) : roundHalfEven (k * 1000000) 1000000 = k := by
  unfold roundHalfEven
  have h1 : k * 1000000 / 1000000 = k := by omega
  have h2 : k * 1000000 % 1000000 = 0 := by omega
  simp [h1, h2]

theorem secondsToUs_exact (k n : Int) :
    secondsToUs (.flt k 1000000) = k ∧ secondsToUs (.int n) = n * 1000000 := by
  constructor
  · simp [secondsToUs, usPerSec, roundHalfEven_exact]
  · simp [secondsToUs, usPerSec]

theorem getTz_some (o : Int) : getTz (some o) = some o := by
  unfold getTz; split <;> simp_all

theorem fromTimestamp_ok (s : Num) (o : Int) (d : DT) (h : datetimeFromTimestamp s o = .ok d) :
    d = ⟨epochLocal + secondsToUs s + o, some o⟩ ∧ inRange (epochLocal + secondsToUs s) = true ∧ d.wf := by
  unfold datetimeFromTimestamp at h
  simp only [getTz_some] at h
  split at h; · cases h
  split at h; · cases h
  split at h; · cases h
  obtain ⟨hr, rfl⟩ := mkLocal_eq_ok h
  rename_i hu
  refine ⟨rfl, by simpa using hu, (wf_iff _).2 hr⟩

theorem timestamp_of_datetime (host : Int) (s : Num) (o : Int) (ho : validOff o = true) (d : DT)
    (h : datetimeFromTimestamp s o = .ok d) :
    dtTimestamp .conv host d = .ok (secondsToUs s, 1000000) ∧ dtOffset .conv d = .ok o := by
  obtain ⟨rfl, hu, _⟩ := fromTimestamp_ok s o d h
  constructor
  · rw [timestamp_eq, utc_eq]
    have : instant ⟨epochLocal + secondsToUs s + o, some o⟩ = epochLocal + secondsToUs s := by
      simp [instant]
    simp only [Option.getD_some, ho, if_true, this, mkLocal_ok hu]
    congr 2; omega
  · simp only [dtOffset, pyUtcoffset, convert, ho, if_true]
    split <;> simp_all

theorem timeT_gm_ok (u : Int) (h : inRange u = true) :
    timeTOk (u - epochLocal) = true ∧ gmtimeOk (u - epochLocal) = true := by
  rw [inRange_lit] at h
  rw [timeTOk_lit, gmtimeOk_lit]
  simp only [epochLocal]
  omega

theorem offset_eq (d : DT) (o : Int) (h : dtOffset .conv d = .ok o) :
    o = d.off.getD 0 ∧ validOff o = true := by
  cases d with | mk w off =>
  cases off with
  | none =>
      simp [dtOffset, pyUtcoffset, convert, validOff_zero] at h
      subst h; simp [validOff_zero]
  | some v =>
      by_cases hv : validOff v = true
      · by_cases h0 : v = 0
        · subst h0
          simp [dtOffset, pyUtcoffset, convert, validOff_zero] at h
          subst h; simp [validOff_zero]
        · simp [dtOffset, pyUtcoffset, convert, hv, h0] at h
          subst h; simp [hv]
      · simp [dtOffset, pyUtcoffset, convert, hv] at h

theorem datetime_of_timestamp (host : Int) (d : DT) (hd : d.wf) (q : Int × Int) (o : Int)
    (h1 : dtTimestamp .conv host d = .ok q) (h2 : dtOffset .conv d = .ok o) :
    datetimeFromTimestamp (.flt q.1 q.2) o = .ok (asUtc d) := by
  obtain ⟨rfl, ho⟩ := offset_eq d o h2
  rw [timestamp_eq, utc_eq] at h1
  simp only [ho, if_true] at h1
  by_cases hr : inRange (instant d) = true
  · rw [mkLocal_ok hr] at h1
    simp only [Except.ok.injEq] at h1
    subst h1
    obtain ⟨h3, h4⟩ := timeT_gm_ok _ hr
    have hs : secondsToUs (.flt (instant d - epochLocal) 1000000) = instant d - epochLocal :=
      (secondsToUs_exact _ 0).1
    have he : epochLocal + (instant d - epochLocal) = instant d := by omega
    have hw : instant d + d.off.getD 0 = d.wall := by simp [instant]
    unfold datetimeFromTimestamp
    simp only [hs, h3, h4, he, hr, getTz_some, hw, Bool.not_true, Bool.false_eq_true, if_false]
    rw [mkLocal_ok ((wf_iff d).1 hd), asUtc_eta]
  · rw [mkLocal_err (Bool.eq_false_iff.2 hr)] at h1
    cases h1

/-- **C20.timestamp_roundtrip.** On exact rationals (the float division and the float -> microseconds
    rounding of the platform are explicit steps outside): `datetime(s, o).timestamp` is `s` rounded to
    microseconds - `s` itself when `s` is an int or `k / 10^6` - and its `.offset` is `o`;
    `datetime(d.timestamp, d.offset) = d` (tagged UTC if `d` had no zone) whenever `d.timestamp` exists. -/
theorem timestamp_roundtrip (host : Int) (s : Num) (o k n : Int) (d : DT) :
    (validOff o = true → ∀ e, datetimeFromTimestamp s o = .ok e →
        dtTimestamp .conv host e = .ok (secondsToUs s, 1000000) ∧ dtOffset .conv e = .ok o) ∧
    (secondsToUs (.flt k 1000000) = k ∧ secondsToUs (.int n) = n * 1000000) ∧
    (d.wf → ∀ q o', dtTimestamp .conv host d = .ok q → dtOffset .conv d = .ok o' →
        datetimeFromTimestamp (.flt q.1 q.2) o' = .ok (asUtc d)) :=
  ⟨fun ho e h => timestamp_of_datetime host s o ho e h, secondsToUs_exact k n,
   fun hd q o' h1 h2 => datetime_of_timestamp host d hd q o' h1 h2⟩

/-! ## a value without zone is UTC -/

theorem utc_host_indep (host host' : Int) (d : DT) :
    pyAstimezoneUtc host (asUtc d) = pyAstimezoneUtc host' (asUtc d) := by
  simp [asUtc_eta, pyAstimezoneUtc]

/-- every function whose datetime parameter is declared `yaqltypes.DateTime()` gives, on a value
    without zone, what it gives on the same wall clock tagged UTC (`asUtc d`; for an aware `d` this is `d`
    itself) - and it does not matter how the *tagged* value's parameter is declared, nor what the host
    zone is -/
theorem naive_is_utc (d e : DT) (t host host' : Int) (op : CmpOp) (c : PClass)
    (y mo dd h mi s us off : Option Int) :
    dtPlusTs .conv d t = dtPlusTs c (asUtc d) t ∧
    tsPlusDt .conv t d = tsPlusDt c t (asUtc d) ∧
    dtMinusTs .conv d t = dtMinusTs c (asUtc d) t ∧
    dtMinusDt .conv .conv d e = dtMinusDt c .conv (asUtc d) e ∧
    dtMinusDt .conv .conv e d = dtMinusDt .conv c e (asUtc d) ∧
    dtCmp op .conv .conv d e = dtCmp op c .conv (asUtc d) e ∧
    dtCmp op .conv .conv e d = dtCmp op .conv c e (asUtc d) ∧
    dtUtc .conv host d = dtUtc c host' (asUtc d) ∧
    dtTimestamp .conv host d = dtTimestamp c host' (asUtc d) ∧
    dtOffset .conv d = dtOffset c (asUtc d) ∧
    dtDate .conv d = dtDate c (asUtc d) ∧
    dtTime .conv d = dtTime c (asUtc d) ∧
    dtReplace .conv d y mo dd h mi s us off = dtReplace c (asUtc d) y mo dd h mi s us off := by
  have hc := convert_asUtc c d
  have h0 : convert .conv d = asUtc d := rfl
  refine ⟨?_, ?_, ?_, ?_, ?_, ?_, ?_, ?_, ?_, ?_, ?_, ?_, ?_⟩
  · unfold dtPlusTs; rw [hc, h0]
  · unfold tsPlusDt; rw [hc, h0]
  · unfold dtMinusTs; rw [hc, h0]
  · unfold dtMinusDt; rw [hc, h0]
  · unfold dtMinusDt; rw [hc, h0]
  · unfold dtCmp; rw [hc, h0]
  · unfold dtCmp; rw [hc, h0]
  · unfold dtUtc; rw [hc, h0]; exact utc_host_indep host host' d
  · unfold dtTimestamp dtUtc; rw [hc, h0]
    show (match pyAstimezoneUtc host (asUtc d) with | .ok u => _ | .error e => _) =
      (match pyAstimezoneUtc host' (asUtc d) with | .ok u => _ | .error e => _)
    rw [utc_host_indep host host' d]
  · unfold dtOffset; rw [hc, h0]
  · unfold dtDate; rw [hc, h0]
  · unfold dtTime; rw [hc, h0]
  · unfold dtReplace; rw [hc, h0]

/-- the field readers and `.offset` (declared with the bare type) do not depend on the zone at all:
    a value without zone, the same wall clock tagged UTC, and the same wall clock at any offset read alike -/
theorem naive_is_utc_fields (d : DT) (o : Option Int) :
    dtYear ⟨d.wall, o⟩ = dtYear d ∧ dtMonth ⟨d.wall, o⟩ = dtMonth d ∧ dtDay ⟨d.wall, o⟩ = dtDay d ∧
    dtHour ⟨d.wall, o⟩ = dtHour d ∧ dtMinute ⟨d.wall, o⟩ = dtMinute d ∧ dtSecond ⟨d.wall, o⟩ = dtSecond d ∧
    dtMicrosecond ⟨d.wall, o⟩ = dtMicrosecond d ∧ dtWeekday ⟨d.wall, o⟩ = dtWeekday d ∧
    dtYear (asUtc d) = dtYear d ∧ dtWeekday (asUtc d) = dtWeekday d ∧
    dtOffset .bare d = dtOffset .conv d ∧ dtOffset .bare d = dtOffset .bare (asUtc d) := by
  refine ⟨rfl, rfl, rfl, rfl, rfl, rfl, rfl, rfl, ?_, ?_, ?_, ?_⟩
  · simp [dtYear, asUtc_wall]
  · simp [dtWeekday, pyWeekday, asUtc_wall]
  · cases d with | mk w off => cases off <;> simp [dtOffset, pyUtcoffset, convert, validOff_zero]
  · cases d with | mk w off => cases off <;> simp [dtOffset, pyUtcoffset, convert, asUtc, validOff_zero]

/-- the hypothesis `.conv` is needed: with the bare type a value without zone is *not* read as UTC
    (never equal to an aware value, a TypeError in orderings and differences, host-local time for
    `.utc` / `.timestamp`) -/
theorem bare_is_not_utc :
    dtCmp .eq .bare .bare ⟨0, none⟩ ⟨0, some 0⟩ = .ok false ∧
    dtCmp .eq .conv .conv ⟨0, none⟩ ⟨0, some 0⟩ = .ok true ∧
    dtCmp .lt .bare .bare ⟨0, none⟩ ⟨1, some 0⟩ = .error .typeError ∧
    dtMinusDt .bare .bare ⟨0, none⟩ ⟨0, some 0⟩ = .error .typeError ∧
    dtTimestamp .bare 3600000000 ⟨epochLocal, none⟩ = .ok (-3600000000, 1000000) ∧
    dtTimestamp .conv 3600000000 ⟨epochLocal, none⟩ = .ok (0, 1000000) := by
  refine ⟨?_, ?_, ?_, ?_, ?_, ?_⟩ <;> rfl

/-! ## units -/

theorem tsMicroseconds_eq (t : Int) : tsMicroseconds t = t := by
  simp only [tsMicroseconds, usPerDay, usPerSec]; omega

/-- rationals `a.1 / a.2` and `b.1 / b.2` (positive denominators) scaled: `a * k = b` -/
def ratMulEq (a : Int × Int) (k : Int) (b : Int × Int) : Prop := a.1 * k * b.2 = b.1 * a.2

theorem tsInRange_lit (t : Int) :
    tsInRange t = true ↔ -999999999 * 86400000000 ≤ t ∧ t < 1000000000 * 86400000000 := by
  have : tsInRange t = true ↔ -999999999 * usPerDay ≤ t ∧ t < 1000000000 * usPerDay := by simp [tsInRange]
  exact this

theorem units (x : Int) :
    tsMicroseconds x = x ∧
    tsDays x = (x, 86400000000) ∧ tsHours x = (x, 3600000000) ∧ tsMinutes x = (x, 60000000) ∧
    tsSeconds x = (x, 1000000) ∧ tsMilliseconds x = (x, 1000) ∧
    ratMulEq (tsDays x) 24 (tsHours x) ∧ ratMulEq (tsHours x) 60 (tsMinutes x) ∧
    ratMulEq (tsMinutes x) 60 (tsSeconds x) ∧ ratMulEq (tsSeconds x) 1000 (tsMilliseconds x) ∧
    ratMulEq (tsMilliseconds x) 1000 (tsMicroseconds x, 1) ∧
    (tsInRange x = true → buildTimespan 0 0 0 0 0 (tsMicroseconds x) = .ok x) ∧
    (tsInRange x = true → tsOfMicros (.int (tsMicroseconds x)) = .ok x) := by
  have h := tsMicroseconds_eq x
  refine ⟨h, ?_, ?_, ?_, ?_, ?_, ?_, ?_, ?_, ?_, ?_, ?_, ?_⟩ <;>
    simp only [tsDays, tsHours, tsMinutes, tsSeconds, tsMilliseconds, ratMulEq, h, buildTimespan, tsOfMicros, mkTs]
  · omega
  · omega
  · omega
  · omega
  · omega
  · intro hr; simp [hr]
  · intro hr; simp [hr]

/-- `timespan(...)` from integer components of either sign is the exact sum, or an OverflowError -/
theorem buildTimespan_eq (d h m s ms us : Int) :
    buildTimespan d h m s ms us =
      mkTs (d * 86400000000 + h * 3600000000 + m * 60000000 + s * 1000000 + ms * 1000 + us) := rfl

/-! ## range errors: out of range is an error class, never a wrapped value -/

theorem mkTs_ok {t r : Int} (h : mkTs t = .ok r) : r = t ∧ tsInRange r = true := by
  unfold mkTs at h
  split at h
  · rename_i hr; cases h; exact ⟨rfl, hr⟩
  · cases h

theorem mkTs_err {t : Int} (h : tsInRange t = false) : mkTs t = .error .overflowError := by
  simp [mkTs, h]

/-- **C20.range_errors.**  `d + t` / `d - t` whose wall clock leaves year 1..9999: OverflowError; a result,
    when there is one, is exactly `wall + t` and exists.  `datetime(s, o)`: a result has the instant
    `epoch + s` (rounded to microseconds) within year 1..9999 and an existing wall clock; an instant outside
    is an error (ValueError, or the platform's OverflowError / OSError far outside), an instant inside whose
    wall clock at `o` is outside is an OverflowError.  Timespan arithmetic outside
    -999999999 days .. 999999999 days 23:59:59.999999 is an OverflowError, else exact. -/
theorem range_errors (d : DT) (t : Int) (s : Num) (o a b : Int) :
    (inRange (d.wall + t) = false → dtPlusTs .conv d t = .error .overflowError) ∧
    (inRange (d.wall - t) = false → dtMinusTs .conv d t = .error .overflowError) ∧
    (∀ e, dtPlusTs .conv d t = .ok e → e.wall = d.wall + t ∧ e.off = (asUtc d).off ∧ e.wf) ∧
    (∀ e, dtMinusTs .conv d t = .ok e → e.wall = d.wall - t ∧ e.off = (asUtc d).off ∧ e.wf) ∧
    (∀ e, datetimeFromTimestamp s o = .ok e →
        e.wf ∧ instant e = epochLocal + secondsToUs s ∧ inRange (instant e) = true ∧ e.off = some o) ∧
    (inRange (epochLocal + secondsToUs s) = false → ∃ err, datetimeFromTimestamp s o = .error err) ∧
    (inRange (epochLocal + secondsToUs s) = true → inRange (epochLocal + secondsToUs s + o) = false →
        datetimeFromTimestamp s o = .error .overflowError) ∧
    (tsInRange (a + b) = false → tsAdd a b = .error .overflowError) ∧
    (tsInRange (a - b) = false → tsSub a b = .error .overflowError) ∧
    (tsInRange (-a) = false → tsNeg a = .error .overflowError) ∧
    (∀ r, tsAdd a b = .ok r → r = a + b ∧ tsInRange r = true) ∧
    (∀ r, tsSub a b = .ok r → r = a - b ∧ tsInRange r = true) ∧
    (∀ r, tsNeg a = .ok r → r = -a ∧ tsInRange r = true) := by
  refine ⟨?_, ?_, ?_, ?_, ?_, ?_, ?_, mkTs_err, mkTs_err, mkTs_err, fun r h => mkTs_ok h, fun r h => mkTs_ok h,
    fun r h => mkTs_ok h⟩
  · intro h; rw [plus_eq, mkLocal_err h]
  · intro h; rw [minus_eq, mkLocal_err h]
  · intro e h
    rw [plus_eq] at h
    obtain ⟨hr, rfl⟩ := mkLocal_eq_ok h
    exact ⟨rfl, by simp [asUtc_eta], (wf_iff _).2 hr⟩
  · intro e h
    rw [minus_eq] at h
    obtain ⟨hr, rfl⟩ := mkLocal_eq_ok h
    exact ⟨rfl, by simp [asUtc_eta], (wf_iff _).2 hr⟩
  · intro e h
    obtain ⟨rfl, hu, hw⟩ := fromTimestamp_ok s o e h
    have hi : instant ⟨epochLocal + secondsToUs s + o, some o⟩ = epochLocal + secondsToUs s := by
      simp [instant]
    exact ⟨hw, hi, by rw [hi]; exact hu, rfl⟩
  · intro h
    unfold datetimeFromTimestamp
    simp only [h, getTz_some]
    split
    · exact ⟨_, rfl⟩
    · split
      · exact ⟨_, rfl⟩
      · exact ⟨_, rfl⟩
  · intro h1 h2
    obtain ⟨h3, h4⟩ := timeT_gm_ok _ h1
    have he : epochLocal + secondsToUs s - epochLocal = secondsToUs s := by omega
    rw [he] at h3 h4
    unfold datetimeFromTimestamp
    simp only [h1, h3, h4, getTz_some, Bool.not_true, Bool.false_eq_true, if_false]
    exact mkLocal_err h2

/-- timespan comparisons are those of the microsecond counts -/
theorem tsCmp_eq (op : CmpOp) (a b : Int) : tsCmp op a b = cmpInt op a b := rfl

/-- `ts * n` for an int `n` and `ts / n` for a divisor that divides: exact, or an OverflowError;
    division by zero is a ZeroDivisionError -/
theorem ts_scale (t n : Int) :
    tsMulNum t (.int n) = mkTs (t * n) ∧
    tsDivNum t (.int 0) = .error .zeroDivisionError ∧
    tsDivNum t (.flt 0 1) = .error .zeroDivisionError ∧
    tsDivTs t 0 = .error .zeroDivisionError ∧
    (n ≠ 0 → tsDivTs t n = .ok (t, n)) := by
  refine ⟨?_, rfl, rfl, ?_, ?_⟩
  · simp [tsMulNum, tsOfMicros, tsMicroseconds_eq]
  · simp [tsDivTs, tsMicroseconds_eq]
  · intro h; simp [tsDivTs, tsMicroseconds_eq, h]

/-! ## the hypotheses are satisfiable (non-vacuity) -/

/-- 1970-01-01T00:00 without zone, plus one day -/
example : dtPlusTs .conv ⟨epochLocal, none⟩ 86400000000 = .ok ⟨epochLocal + 86400000000, some 0⟩ := rfl
example : (⟨epochLocal, none⟩ : DT).wf := by simp [DT.wf, epochLocal, maxLocal]
/-- 12:00+03:00 minus 10:00+01:00 (the same instant): zero; minus a value without zone read as UTC -/
example : dtMinusDt .conv .conv ⟨43200000000, some 10800000000⟩ ⟨36000000000, some 3600000000⟩ = .ok 0 := rfl
example : dtMinusDt .conv .conv ⟨43200000000, some 10800000000⟩ ⟨32400000000, none⟩ = .ok 0 := rfl
example : dtCmp .eq .conv .conv ⟨43200000000, some 10800000000⟩ ⟨32400000000, none⟩ = .ok true := rfl
example : dtCmp .lt .conv .conv ⟨43200000000, some 10800000000⟩ ⟨43200000000, some 0⟩ = .ok true := rfl
/-- `.utc` of 1970-01-01T12:00+03:00 is 09:00 at offset zero; of 0001-01-01T00:00+03:00 an OverflowError -/
example : dtUtc .conv 0 ⟨epochLocal + 43200000000, some 10800000000⟩ = .ok ⟨epochLocal + 32400000000, some 0⟩ := rfl
example : dtUtc .conv 0 ⟨0, some 10800000000⟩ = .error .overflowError := rfl
example : dtUtc .conv 0 ⟨0, some 86400000000⟩ = .error .valueError := rfl
/-- `datetime(1000.5, timespan(hours => 3))` and back -/
example : datetimeFromTimestamp (.flt 1000500000 1000000) 10800000000 =
    .ok ⟨epochLocal + 1000500000 + 10800000000, some 10800000000⟩ := rfl
example : dtTimestamp .conv 0 ⟨epochLocal + 1000500000 + 10800000000, some 10800000000⟩ =
    .ok (1000500000, 1000000) := rfl
example : datetimeFromTimestamp (.int 253402300800) 0 = .error .valueError := rfl
example : datetimeFromTimestamp (.int (-62135596800)) (-10800000000) = .error .overflowError := rfl
example : datetimeFromTimestamp (.int 70000000000000000) 0 = .error .osError := rfl
example : datetimeFromTimestamp (.int 10000000000000000000) 0 = .error .overflowError := rfl
/-- `timespan(days => 1, hours => -2, microseconds => 3)`; the extremes -/
example : buildTimespan 1 (-2) 0 0 0 3 = .ok 79200000003 := rfl
example : buildTimespan 999999999 24 0 0 0 0 = .error .overflowError := rfl
example : buildTimespan (-999999999) 0 0 0 0 (-1) = .error .overflowError := rfl
example : tsNeg (-999999999 * 86400000000) = .ok (999999999 * 86400000000) := rfl
example : tsNeg (1000000000 * 86400000000 - 1) = .error .overflowError := rfl
/-- `ts / 2` rounds half to even: 5 us / 2 = 2 us, 7 us / 2 = 4 us -/
example : tsDivNum 5 (.int 2) = .ok 2 ∧ tsDivNum 7 (.int 2) = .ok 4 ∧ tsDivNum (-3) (.int 2) = .ok (-2) :=
  ⟨rfl, rfl, rfl⟩
/-- calendar: 2000-02-29T23:59:59.999999, the last day, weekday of 1970-01-01 (Thursday = 3) -/
example : buildDatetime ⟨2000, 2, 29, 23, 59, 59, 999999⟩ 0 = .ok ⟨63087465599999999, some 0⟩ := rfl
example : fieldsOf 63087465599999999 = ⟨2000, 2, 29, 23, 59, 59, 999999⟩ := rfl
example : buildDatetime ⟨1900, 2, 29, 0, 0, 0, 0⟩ 0 = .error .valueError := rfl
example : buildDatetime ⟨9999, 12, 31, 23, 59, 59, 999999⟩ 0 = .ok ⟨maxLocal - 1, some 0⟩ := rfl
example : buildDatetime ⟨4294967296, 1, 1, 0, 0, 0, 0⟩ 0 = .error .overflowError := rfl
example : dtWeekday epoch = 3 := rfl

end Yaql.Props.C20
