import Yaql.Gen.SrcResolve
import Yaql.Lemmas.PyPrelude
import Yaql.Lemmas.PyLoops
/-!
Equivalence of the definitions translated from the CURRENT yaql source (`Yaql.Gen.SrcResolve`, regenerated on every
run by harness/py2lean.py) with the hand-written model - for all inputs.
-/
namespace Yaql.Props.SrcResolve
open Yaql Yaql.Gen Yaql.Lemmas.PyLoops

end Yaql.Props.SrcResolve
