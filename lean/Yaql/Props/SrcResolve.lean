import Yaql.Gen.SrcResolve
import Yaql.Lemmas.PyPrelude
import Yaql.Lemmas.PyLoops
import Yaql.Lemmas.PyLoopsResolve
/-!
Equivalence of the definitions translated from the CURRENT yaql source (`Yaql.Gen.SrcResolve`, regenerated on every
run by harness/py2lean.py) with the hand-written model - for all inputs.

`_is_specialization_of(mapping1, mapping2)` walks the positional parameters of the two mappings with `zip`
and then the keyword parameters of `mapping1`, looking each keyword up BY KEY in `mapping2`
(`kwargs_mapping2[key]`, a `KeyError` when missing).  The model `Resolve.isSpecM` zips the two keyword lists
positionally.  The two agree when both mappings bind the same keyword names in the same order and the
names are pairwise distinct - which is the case in `runner.py`, where both mappings come from the kwargs of
one call.  Without keyword arguments no hypothesis is needed.
-/
namespace Yaql.Props.SrcResolve
open Yaql Yaql.Gen Yaql.Lemmas.PyLoops Yaql.Lemmas.PyLoopsResolve
open Yaql.Types Yaql.Resolve

/-- does the loop of `_is_specialization_of` leave with `return False` on these type pairs? -/
def specExit (L : Lattice) (ps : List (PTy × PTy)) : Bool :=
  ps.any fun p => isSpecializationOf L p.2 p.1

theorem specLoop_cons (L : Lattice) (p : PTy × PTy) (r : List (PTy × PTy)) (res : Bool) :
    specLoop L (p :: r) res =
      if isSpecializationOf L p.2 p.1 then false
      else if isSpecializationOf L p.1 p.2 then specLoop L r true
      else specLoop L r res := by
  cases p; rfl

/-- the model answers `false` when the source leaves with `return False` -/
theorem specLoop_of_exit (L : Lattice) (ps : List (PTy × PTy)) (res : Bool) (h : specExit L ps = true) :
    specLoop L ps res = false := by
  induction ps generalizing res with
  | nil => simp [specExit] at h
  | cons p ps ih =>
    simp only [specExit, List.any_cons, Bool.or_eq_true] at h ih
    rw [specLoop_cons]
    by_cases h1 : isSpecializationOf L p.2 p.1 = true
    · simp [h1]
    · have h3 := h.resolve_left h1
      by_cases h2 : isSpecializationOf L p.1 p.2 = true <;> simp [h1, h2, ih _ h3]

/-- the model's single loop over the concatenated pairs is the two loops of the source one after the other -/
theorem specLoop_append (L : Lattice) (xs ys : List (PTy × PTy)) (res : Bool) :
    specLoop L (xs ++ ys) res
      = if specExit L xs then false else specLoop L ys (specLoop L xs res) := by
  induction xs generalizing res with
  | nil => simp [specExit, specLoop]
  | cons p xs ih =>
    simp only [List.cons_append, specLoop_cons, specExit, List.any_cons] at ih ⊢
    by_cases h1 : isSpecializationOf L p.2 p.1 = true
    · simp [h1]
    · by_cases h3 : (xs.any fun p => isSpecializationOf L p.2 p.1) = true <;>
        by_cases h2 : isSpecializationOf L p.1 p.2 = true <;> simp [h1, h2, h3, ih]

/-- one loop of `_is_specialization_of` for an abstract body `f` that compares the pair of types `pr x` -/
theorem spec_go (L : Lattice) (f : Bool → α → Py.Step Bool (Except Py.Err Bool)) (pr : α → PTy × PTy)
    (xs : List α)
    (hf : ∀ s x, x ∈ xs → f s x =
      if isSpecializationOf L (pr x).2 (pr x).1 then .ret (.ok false)
      else .next (if isSpecializationOf L (pr x).1 (pr x).2 then true else s))
    (s : Bool) :
    Py.forLoop xs s f
      = if specExit L (xs.map pr) then .ret (.ok false) else .done (specLoop L (xs.map pr) s) := by
  induction xs generalizing s with
  | nil => simp [specExit, specLoop]
  | cons x xs ih =>
    have ih' := fun s => ih (fun s y hy => hf s y (List.mem_cons_of_mem _ hy)) s
    rw [Lemmas.PyPrelude.forLoop_cons, hf s x List.mem_cons_self]
    simp only [List.map_cons, specLoop_cons, specExit, List.any_cons] at ih' ⊢
    by_cases h1 : isSpecializationOf L (pr x).2 (pr x).1 = true
    · simp [h1]
    · by_cases h2 : isSpecializationOf L (pr x).1 (pr x).2 = true <;> simp [h1, h2, ih']

/-- `_is_specialization_of` of the source is the model's `isSpecM` whenever the two mappings bind the same
    keyword names in the same order, pairwise distinct (both come from the kwargs of one call) -/
theorem is_specialization_of_src_eq (L : Yaql.Types.Lattice)
    (mapping1 mapping2 : (List Yaql.Resolve.Param) × (List ((List Char) × Yaql.Resolve.Param)))
    (hkeys : mapping1.2.map (·.1) = mapping2.2.map (·.1)) (hnodup : (mapping1.2.map (·.1)).Nodup) :
    Yaql.Gen.SrcResolve.is_specialization_of L mapping1 mapping2
      = .ok (Yaql.Resolve.isSpecM L ⟨mapping1.1, mapping1.2⟩ ⟨mapping2.1, mapping2.2⟩) := by
  obtain ⟨pos1, kw1⟩ := mapping1
  obtain ⟨pos2, kw2⟩ := mapping2
  simp only [] at hkeys hnodup
  have hnodup2 : (kw2.map (·.1)).Nodup := hkeys ▸ hnodup
  -- the lookup `kwargs_mapping2[key]` succeeds for every key of `kwargs_mapping1`
  have hlk : ∀ x ∈ kw1, Py.dictIndex kw2 x.1 = .ok ((Py.dictGet? kw2 x.1).getD x.2) := by
    intro x hx
    obtain ⟨v, hv⟩ := dictGet?_isSome_of_keys_eq kw1 kw2 hkeys hnodup2 x hx
    simp [Py.dictIndex, hv]
  unfold SrcResolve.is_specialization_of isSpecM Mapping.typePairs
  simp only []
  rw [spec_go L _ (fun p => (p.1.ty, p.2.ty)) _ (by py_body), specLoop_append]
  by_cases h1 : specExit L ((pos1.zip pos2).map fun p => (p.1.ty, p.2.ty)) = true
  · simp only [h1, ↓reduceIte]
  · simp only [h1, Bool.false_eq_true, ↓reduceIte]
    rw [spec_go L _ (fun x => (x.2.ty, ((Py.dictGet? kw2 x.1).getD x.2).ty)) _
      (by intro s x hx; simp only [hlk x hx] <;> py_body)]
    have hz : (kw1.zip kw2).map (fun p => (p.1.2.ty, p.2.2.ty))
        = kw1.map (fun x => (x.2.ty, ((Py.dictGet? kw2 x.1).getD x.2).ty)) :=
      map_zip_of_map_eq (fun x => Py.dictGet? kw2 x.1) (fun y => some y.2)
        (fun x o => (x.2.ty, (o.getD x.2).ty)) kw1 kw2
        (map_dictGet?_of_keys_eq kw1 kw2 hkeys hnodup2)
    rw [hz]
    by_cases h2 : specExit L (kw1.map fun x => (x.2.ty, ((Py.dictGet? kw2 x.1).getD x.2).ty)) = true
    · simp only [h2, ↓reduceIte, specLoop_of_exit L _ _ h2]
    · simp only [h2, Bool.false_eq_true, ↓reduceIte]

/-- without keyword arguments in `mapping1` the second loop of the source does not run and no hypothesis is
    needed (whatever `mapping2` binds by keyword) -/
theorem is_specialization_of_src_eq_nokw (L : Yaql.Types.Lattice)
    (mapping1 mapping2 : (List Yaql.Resolve.Param) × (List ((List Char) × Yaql.Resolve.Param)))
    (hkw : mapping1.2 = []) :
    Yaql.Gen.SrcResolve.is_specialization_of L mapping1 mapping2
      = .ok (Yaql.Resolve.isSpecM L ⟨mapping1.1, mapping1.2⟩ ⟨mapping2.1, mapping2.2⟩) := by
  obtain ⟨pos1, kw1⟩ := mapping1
  obtain ⟨pos2, kw2⟩ := mapping2
  simp only [] at hkw
  subst hkw
  unfold SrcResolve.is_specialization_of isSpecM Mapping.typePairs
  simp only []
  rw [spec_go L _ (fun p => (p.1.ty, p.2.ty)) _ (by py_body)]
  by_cases h1 : specExit L ((pos1.zip pos2).map fun p => (p.1.ty, p.2.ty)) = true
  · simp [h1, specLoop_of_exit L _ _ h1]
  · simp [h1]

end Yaql.Props.SrcResolve
