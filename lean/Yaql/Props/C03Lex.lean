import Yaql.Lemmas.Lexer
/-!
C03 (lexer half) - parsing is total: what the lexer model contributes.

* `nextTok_progress`: every successful `token()` call advances and stays inside the text;
* `lexical_position_inside`: a lexical error names a non-empty piece of the text at its position
  (so the position is inside the text);
* `conversions_total`: the token actions (`int()`/`float()`, `decode_escapes`) yield a value or a
  lexical error inside the token - nothing else (the one extra outcome of the MODEL, an escape that
  denotes a lone surrogate, is not an error of the real code: Lean's `Char` cannot hold the value);
* `lexFrom_step`: `lexAll`/`lexFrom` (structural recursion over the text, no fuel) is the iteration of
  `nextTok` - which needs progress.
-/
namespace Yaql.Props.C03Lex
open Yaql.Lexer Yaql.Syntax

/-! ## the single rules -/

theorem fracPart_len (cc : CharCfg) {after d2 : List Char} (h : fracPart cc after = some d2) :
    d2.length + 1 ≤ after.length := by
  cases after with
  | nil => simp [fracPart] at h
  | cons c a2 =>
      simp only [fracPart] at h
      split at h
      · split at h
        · cases h
          have := takeWhile_length_le cc.isDigit a2
          simp only [List.length_cons]; omega
        · cases h
      · cases h

theorem matchNumber_spec (cc : CharCfg) {pw : Bool} {rest : List Char} {m : NumMatch}
    (h : matchNumber cc pw rest = some m) :
    m.int = rest.takeWhile cc.isDigit ∧ m.int ≠ [] ∧ 1 ≤ m.len ∧ m.len ≤ rest.length := by
  simp only [matchNumber] at h
  split at h
  · cases h
  · split at h
    · cases h
    · rename_i hne
      have hne' : rest.takeWhile cc.isDigit ≠ [] := by
        intro e; rw [e] at hne; exact hne rfl
      have hpos : 1 ≤ (rest.takeWhile cc.isDigit).length := by
        cases hh : rest.takeWhile cc.isDigit with
        | nil => exact absurd hh hne'
        | cons _ _ => simp
      have hlen := length_take_drop_while cc.isDigit rest
      split at h
      · rename_i d2 hf
        cases h
        have := fracPart_len cc hf
        refine ⟨rfl, hne', ?_, ?_⟩ <;> simp only [NumMatch.len] <;> omega
      · split at h
        · cases h
          refine ⟨rfl, hne', ?_, ?_⟩ <;> simp only [NumMatch.len] <;> omega
        · cases h

theorem convNumber_spec (cfg : LexCfg) (m : NumMatch) (pos : Nat) :
    (∃ t, convNumber cfg m pos = .tok t m.len ∧ t.pos = pos) ∨ convNumber cfg m pos = .err (.lexical m.int pos) := by
  simp only [convNumber]
  split
  · exact Or.inl ⟨_, rfl, rfl⟩
  · split
    · exact Or.inr rfl
    · exact Or.inl ⟨_, rfl, rfl⟩

theorem matchFunc_spec (cc : CharCfg) {pw : Bool} {rest w : List Char} (h : matchFunc cc pw rest = some w) :
    w.length + 1 ≤ rest.length := by
  cases rest with
  | nil => simp [matchFunc] at h
  | cons c r =>
      simp only [matchFunc] at h
      split at h
      · split at h
        · rename_i p t hd
          split at h
          · cases h
            have := length_take_drop_while cc.isWord (c :: r)
            rw [hd] at this
            simp only [List.length_cons] at this ⊢
            omega
          · cases h
        · cases h
      · cases h

theorem matchKeyword_spec (cc : CharCfg) {pw : Bool} {rest w : List Char} (h : matchKeyword cc pw rest = some w) :
    1 ≤ w.length ∧ w.length ≤ rest.length := by
  simp only [matchKeyword] at h
  split at h
  · cases h
  · cases rest with
    | nil => simp at h
    | cons c r =>
        simp only at h
        split at h
        · rename_i hs
          cases h
          have hw : cc.isWord c = true := by
            simp only [identStart, Bool.and_eq_true] at hs
            exact hs.2.1
          refine ⟨?_, takeWhile_length_le _ _⟩
          simp [List.takeWhile_cons, hw]
        · cases h

theorem scanStr_len {q : Char} {l c : List Char} (h : scanStr q l = some c) : c.length + 1 ≤ l.length := by
  obtain ⟨_, tail, rfl⟩ := scanStr_spec q l c h
  simp

theorem firstStrRule_spec {rules : List StrRule} {rest : List Char} {sr : StrRule}
    (h : firstStrRule rules rest = some sr) : 1 ≤ sr.pat.length ∧ sr.pat.length ≤ rest.length := by
  have := List.find?_some h
  simp only [Bool.and_eq_true, Bool.not_eq_true', List.isEmpty_eq_false_iff] at this
  obtain ⟨hne, hp⟩ := this
  have hp' : sr.pat <+: rest := List.isPrefixOf_iff_prefix.mp hp
  refine ⟨?_, hp'.length_le⟩
  cases hh : sr.pat with
  | nil => exact absurd hh hne
  | cons _ _ => simp

/-! ## `decode_escapes` -/

theorem consOk_error {c : Char} {r : Except LexErr (List Char)} {e : LexErr} (h : consOk c r = .error e) :
    r = .error e := by
  cases r with
  | ok l => simp [consOk] at h
  | error e' => simpa [consOk] using h

/-- where and what `decode_escapes` complains about: an escape text that stands in the content at the
reported offset; a surrogate report likewise lies inside -/
theorem decodeGo_error (cfg : LexCfg) (base : Nat) : ∀ (l : List Char) (skip off : Nat) (e : LexErr),
    decodeGo cfg base skip off l = .error e →
    (∃ k v, e = .lexical v (base + off + k) ∧ v.head? = some '\\' ∧ v <+: l.drop k) ∨
    (∃ k, e = .surrogate (base + off + k) ∧ k < l.length)
  | [], _, _, _, h => by simp [decodeGo] at h
  | c :: t, skip + 1, off, e, h => by
      simp only [decodeGo] at h
      rcases decodeGo_error cfg base t skip (off + 1) e h with ⟨k, v, he, hh, hp⟩ | ⟨k, he, hk⟩
      · exact Or.inl ⟨k + 1, v, by rw [he]; congr 1; omega, hh, by simpa using hp⟩
      · exact Or.inr ⟨k + 1, by rw [he]; congr 1; omega, by simp; omega⟩
  | c :: t, 0, off, e, h => by
      have shift : ∀ skip', decodeGo cfg base skip' (off + 1) t = .error e →
          (∃ k v, e = .lexical v (base + off + k) ∧ v.head? = some '\\' ∧ v <+: (c :: t).drop k) ∨
          (∃ k, e = .surrogate (base + off + k) ∧ k < (c :: t).length) := by
        intro skip' h'
        rcases decodeGo_error cfg base t skip' (off + 1) e h' with ⟨k, v, he, hh, hp⟩ | ⟨k, he, hk⟩
        · exact Or.inl ⟨k + 1, v, by rw [he]; congr 1; omega, hh, by simpa using hp⟩
        · exact Or.inr ⟨k + 1, by rw [he]; congr 1; omega, by simp; omega⟩
      simp only [decodeGo] at h
      split at h
      · rename_i hc
        subst hc
        split at h
        · exact shift _ (consOk_error h)
        · rename_i m _
          split at h
          · exact shift _ (consOk_error h)
          · cases h
            exact Or.inl ⟨0, _, rfl, rfl, by simpa using List.take_prefix _ _⟩
          · cases h
            exact Or.inr ⟨0, rfl, by simp⟩
      · exact shift _ (consOk_error h)

/-! ## the master regex at one position -/

/-- a lexical complaint about the text `l` that starts at offset `pos`: the reported position is at or
after `pos`, and the reported value is a non-empty piece of the text standing exactly there -/
def Inside (l : List Char) (pos : Nat) : LexErr → Prop
  | .lexical v p => pos ≤ p ∧ v ≠ [] ∧ v <+: l.drop (p - pos)
  | .surrogate p => pos ≤ p ∧ p - pos < l.length

theorem Inside.shift {c : Char} {r : List Char} {pos : Nat} {e : LexErr} (h : Inside r (pos + 1) e) :
    Inside (c :: r) pos e := by
  cases e with
  | lexical v p =>
      obtain ⟨h1, h2, h3⟩ := h
      refine ⟨by omega, h2, ?_⟩
      have : p - pos = (p - (pos + 1)) + 1 := by omega
      rw [this]; simpa using h3
  | surrogate p =>
      obtain ⟨h1, h2⟩ := h
      exact ⟨by omega, by simp only [List.length_cons]; omega⟩

theorem quotedTok_spec (cfg : LexCfg) {q : Char} {content tail : List Char} (pos : Nat) :
    (∃ t, quotedTok cfg content pos = .tok t (content.length + 2) ∧ t.pos = pos) ∨
    (∃ e, quotedTok cfg content pos = .err e ∧ Inside (q :: (content ++ q :: tail)) pos e) := by
  simp only [quotedTok, decodeEscapes]
  cases hd : decodeGo cfg (pos + 1) 0 0 content with
  | ok v => exact Or.inl ⟨_, rfl, rfl⟩
  | error e =>
      refine Or.inr ⟨e, rfl, ?_⟩
      rcases decodeGo_error cfg (pos + 1) content 0 0 e hd with ⟨k, v, he, hh, hp⟩ | ⟨k, he, hk⟩
      · subst he
        have hv : v ≠ [] := by intro e; subst e; simp at hh
        refine ⟨by omega, hv, ?_⟩
        have : pos + 1 + 0 + k - pos = k + 1 := by omega
        rw [this]
        simp only [List.drop_succ_cons]
        have hk : k ≤ content.length := by
          cases Nat.lt_or_ge content.length k with
          | inl hlt =>
              rw [List.drop_eq_nil_of_le (Nat.le_of_lt hlt)] at hp
              exact absurd (List.prefix_nil.mp hp) hv
          | inr hge => exact hge
        rw [List.drop_append_of_le_length hk]
        exact hp.trans (List.prefix_append _ _)
      · subst he
        exact ⟨by omega, by simp only [List.length_cons, List.length_append]; omega⟩

theorem symbolAt_spec (cfg : LexCfg) (c : Char) (r : List Char) (pos : Nat) :
    (∃ t len, symbolAt cfg c (c :: r) pos = .tok t len ∧ t.pos = pos ∧ 1 ≤ len ∧ len ≤ (c :: r).length) ∨
    symbolAt cfg c (c :: r) pos = .err (.lexical [c] pos) := by
  simp only [symbolAt]
  split
  · rename_i sr hf
    obtain ⟨h1, h2⟩ := firstStrRule_spec hf
    exact Or.inl ⟨_, _, rfl, rfl, h1, h2⟩
  · split
    · exact Or.inl ⟨_, _, rfl, rfl, Nat.le_refl _, by simp⟩
    · exact Or.inr rfl

theorem classifyKeyword_pos (cfg : LexCfg) (w : List Char) (pos : Nat) : (classifyKeyword cfg w pos).pos = pos := by
  unfold classifyKeyword
  split
  · rfl
  · split
    · rfl
    · split
      · rfl
      · split <;> rfl

/-- every outcome of the rules at a position: a token that starts there and covers at least one and at
most all of the remaining characters, or a complaint inside the remaining text -/
theorem ruleAt_spec (cfg : LexCfg) (pw : Bool) (c : Char) (r : List Char) (pos : Nat) :
    (∃ t len, ruleAt cfg pw (c :: r) pos = .tok t len ∧ t.pos = pos ∧ 1 ≤ len ∧ len ≤ (c :: r).length) ∨
    (∃ e, ruleAt cfg pw (c :: r) pos = .err e ∧ Inside (c :: r) pos e) := by
  simp only [ruleAt]
  split
  · exact Or.inl ⟨_, _, rfl, rfl, by omega, by
      have := takeWhile_length_le cfg.chars.isWord r
      simp only [List.length_cons]; omega⟩
  · split
    · rename_i m hm
      obtain ⟨h1, h2, h3, h4⟩ := matchNumber_spec cfg.chars hm
      rcases convNumber_spec cfg m pos with ⟨t, ht, hp⟩ | he
      · exact Or.inl ⟨t, _, ht, hp, h3, h4⟩
      · refine Or.inr ⟨_, he, Nat.le_refl _, h2, ?_⟩
        rw [Nat.sub_self, List.drop_zero, h1]
        exact List.takeWhile_prefix _
    · split
      · rename_i w hw
        have := matchFunc_spec cfg.chars hw
        exact Or.inl ⟨_, _, rfl, rfl, by omega, this⟩
      · split
        · rename_i w hw
          obtain ⟨h1, h2⟩ := matchKeyword_spec cfg.chars hw
          exact Or.inl ⟨_, _, rfl, classifyKeyword_pos cfg w pos, h1, h2⟩
        · split
          · rename_i content hs
            split at hs
            · obtain ⟨_, tail, ht⟩ := scanStr_spec c r content hs
              rcases quotedTok_spec cfg (q := c) (content := content) (tail := tail) pos with ⟨t, h1, h2⟩ | ⟨e, h1, h2⟩
              · exact Or.inl ⟨t, _, h1, h2, by omega, by rw [ht]; simp⟩
              · exact Or.inr ⟨e, h1, by rw [ht]; exact h2⟩
            · cases hs
          · split
            · rename_i content hs
              split at hs
              · have := scanStr_len hs
                exact Or.inl ⟨_, _, rfl, rfl, by omega, by simp only [List.length_cons]; omega⟩
              · cases hs
            · rcases symbolAt_spec cfg c r pos with h | h
              · exact Or.inl h
              · exact Or.inr ⟨_, h, Nat.le_refl _, by simp, by simp⟩

/-! ## `token()` -/

theorem scanTok_spec (cfg : LexCfg) : ∀ (l : List Char) (pw : Bool) (pos : Nat),
    scanTok cfg pw l pos = .eof ∨
    (∃ t n, scanTok cfg pw l pos = .tok t n ∧ pos ≤ t.pos ∧ t.pos < n ∧ n ≤ pos + l.length) ∨
    (∃ e, scanTok cfg pw l pos = .err e ∧ Inside l pos e)
  | [], _, _ => Or.inl rfl
  | c :: r, pw, pos => by
      simp only [scanTok]
      split
      · rcases scanTok_spec cfg r (cfg.chars.isWord c) (pos + 1) with h | ⟨t, n, h, h1, h2, h3⟩ | ⟨e, h, hi⟩
        · exact Or.inl h
        · exact Or.inr (Or.inl ⟨t, n, h, by omega, h2, by simp only [List.length_cons]; omega⟩)
        · exact Or.inr (Or.inr ⟨e, h, hi.shift⟩)
      · rcases ruleAt_spec cfg pw c r pos with ⟨t, len, h, hp, h1, h2⟩ | ⟨e, h, hi⟩
        · rw [h]
          exact Or.inr (Or.inl ⟨t, _, rfl, by omega, by omega, by omega⟩)
        · rw [h]
          exact Or.inr (Or.inr ⟨e, rfl, hi⟩)

/-- **C03Lex.nextTok_progress**: a `token()` call that returns a token has moved `lexpos` forward, not beyond
the end of the text, and the token starts at or after the old and before the new `lexpos`. -/
theorem nextTok_progress (cfg : LexCfg) (text : List Char) (pos : Nat) {t : Token} {next : Nat}
    (h : nextTok cfg text pos = .tok t next) :
    pos < next ∧ next ≤ text.length ∧ pos ≤ t.pos ∧ t.pos < next := by
  simp only [nextTok] at h
  rcases scanTok_spec cfg (text.drop pos) (prevWord cfg text pos) pos with h' | ⟨t', n, h', h1, h2, h3⟩ | ⟨e, h', _⟩
  · rw [h'] at h; cases h
  · rw [h'] at h
    cases h
    simp only [List.length_drop] at h3
    refine ⟨by omega, by omega, h1, h2⟩
  · rw [h'] at h; cases h

/-- **C03Lex.lexical_position_inside**: a lexical error raised by a `token()` call reports a position at or after
`lexpos` and inside the text, and its value is a non-empty piece of the text standing exactly at that
position (for `t_error`: the one offending character; for a numeral beyond the digit limit: the numeral,
at the token start; for an ill-formed escape: the escape text, inside its string token). -/
theorem lexical_position_inside (cfg : LexCfg) (text : List Char) (pos : Nat) {v : List Char} {p : Nat}
    (h : nextTok cfg text pos = .err (.lexical v p)) :
    pos ≤ p ∧ p < text.length ∧ v ≠ [] ∧ v <+: text.drop p := by
  simp only [nextTok] at h
  rcases scanTok_spec cfg (text.drop pos) (prevWord cfg text pos) pos with h' | ⟨t', n, h', _⟩ | ⟨e, h', hi⟩
  · rw [h'] at h; cases h
  · rw [h'] at h; cases h
  · rw [h'] at h
    cases h
    obtain ⟨h1, h2, h3⟩ := hi
    rw [List.drop_drop] at h3
    have hp : pos + (p - pos) = p := by omega
    rw [hp] at h3
    refine ⟨h1, ?_, h2, h3⟩
    cases Nat.lt_or_ge p text.length with
    | inl hlt => exact hlt
    | inr hge =>
        rw [List.drop_eq_nil_of_le hge] at h3
        exact absurd (List.prefix_nil.mp h3) h2

/-- the same for a whole text (`lexAll`): wherever the lexer stops, the complaint is inside the text -/
theorem lexGo_error_inside (cfg : LexCfg) : ∀ (l : List Char) (k : Nat) (pw : Bool) (pos : Nat) (e : LexErr),
    lexGo cfg k pw l pos = .error e → Inside l pos e
  | [], _, _, _, _, h => by simp [lexGo] at h
  | c :: r, k + 1, pw, pos, e, h => by
      simp only [lexGo] at h
      exact (lexGo_error_inside cfg r k _ _ e h).shift
  | c :: r, 0, pw, pos, e, h => by
      simp only [lexGo] at h
      split at h
      · exact (lexGo_error_inside cfg r 0 _ _ e h).shift
      · rcases ruleAt_spec cfg pw c r pos with ⟨t, len, hr, _⟩ | ⟨e', hr, hi⟩
        · rw [hr] at h
          simp only at h
          cases hg : lexGo cfg (len - 1) (cfg.chars.isWord c) r (pos + 1) with
          | ok ts => rw [hg] at h; simp [consTok] at h
          | error e'' =>
              rw [hg] at h
              simp only [consTok, Except.error.injEq] at h
              subst h
              exact (lexGo_error_inside cfg r _ _ _ _ hg).shift
        · rw [hr] at h
          simp only [Except.error.injEq] at h
          subst h
          exact hi

theorem lexAll_error_inside (cfg : LexCfg) (text : List Char) {v : List Char} {p : Nat}
    (h : lexAll cfg text = .error (.lexical v p)) :
    p < text.length ∧ v ≠ [] ∧ v <+: text.drop p := by
  obtain ⟨_, h2, h3⟩ := lexGo_error_inside cfg text 0 false 0 _ h
  simp only [Nat.sub_zero] at h3
  refine ⟨?_, h2, h3⟩
  cases Nat.lt_or_ge p text.length with
  | inl hlt => exact hlt
  | inr hge =>
      rw [List.drop_eq_nil_of_le hge] at h3
      exact absurd (List.prefix_nil.mp h3) h2

/-! ## conversions -/

/-- **C03Lex.conversions_total**: the two conversions done inside token actions have no third outcome.
(1) For every text the NUMBER rule matches: an integer (no dot, within the digit limit), a float (dot), or -
exactly when there is no dot and the digit limit is exceeded - the lexical error `(numeral, token start)`.
(2) For every content of a single- or double-quoted token: the decoded string, or a lexical error whose value is an
escape text (it starts with a backslash) standing in the content at the reported position, or - model only -
the report that an escape inside the content denotes a lone surrogate. -/
theorem conversions_total (cfg : LexCfg) :
    (∀ (m : NumMatch) (pos : Nat),
      (m.frac = none ∧ ¬ (cfg.maxDigits ≠ 0 ∧ cfg.maxDigits < m.int.length) ∧
        convNumber cfg m pos = .tok ⟨.number, .int (digitsVal cfg.chars m.int), pos⟩ m.len) ∨
      (∃ d2, m.frac = some d2 ∧
        convNumber cfg m pos =
          .tok ⟨.number, .flt (asciiDigits cfg.chars m.int ++ '.' :: asciiDigits cfg.chars d2)
            (literalFloat cfg.chars m.int d2), pos⟩ m.len) ∨
      (m.frac = none ∧ cfg.maxDigits ≠ 0 ∧ cfg.maxDigits < m.int.length ∧
        convNumber cfg m pos = .err (.lexical m.int pos))) ∧
    (∀ (content : List Char) (pos : Nat),
      (∃ v, decodeEscapes cfg content pos = .ok v) ∨
      (∃ k e, decodeEscapes cfg content pos = .error (.lexical e (pos + k)) ∧ k < content.length ∧
        e.head? = some '\\' ∧ e <+: content.drop k) ∨
      (∃ k, decodeEscapes cfg content pos = .error (.surrogate (pos + k)) ∧ k < content.length)) := by
  constructor
  · intro m pos
    cases hf : m.frac with
    | some d2 => exact Or.inr (Or.inl ⟨d2, rfl, by simp [convNumber, hf]⟩)
    | none =>
        by_cases hl : cfg.maxDigits ≠ 0 ∧ cfg.maxDigits < m.int.length
        · exact Or.inr (Or.inr ⟨rfl, hl.1, hl.2, by simp [convNumber, hf, hl.1, hl.2]⟩)
        · refine Or.inl ⟨rfl, hl, ?_⟩
          have : (cfg.maxDigits != 0 && decide (cfg.maxDigits < m.int.length)) = false := by
            simp only [Bool.and_eq_false_iff, bne_eq_false_iff_eq, decide_eq_false_iff_not]
            by_cases h0 : cfg.maxDigits = 0
            · exact Or.inl h0
            · exact Or.inr (fun h => hl ⟨h0, h⟩)
          simp [convNumber, hf, this]
  · intro content pos
    simp only [decodeEscapes]
    cases hd : decodeGo cfg pos 0 0 content with
    | ok v => exact Or.inl ⟨v, rfl⟩
    | error e =>
        rcases decodeGo_error cfg pos content 0 0 e hd with ⟨k, v, he, hh, hp⟩ | ⟨k, he, hk⟩
        · subst he
          have hv : v ≠ [] := by intro e; subst e; simp at hh
          have hk : k < content.length := by
            cases Nat.lt_or_ge k content.length with
            | inl hlt => exact hlt
            | inr hge =>
                rw [List.drop_eq_nil_of_le hge] at hp
                exact absurd (List.prefix_nil.mp hp) hv
          exact Or.inr (Or.inl ⟨k, v, by simp, hk, hh, hp⟩)
        · subst he
          exact Or.inr (Or.inr ⟨k, by simp, hk⟩)

/-! ## `lexAll` is the iteration of `token()` -/

/-- "the previous character is a word character" after `k` more characters of `l` -/
def pwAfter (cfg : LexCfg) (pw : Bool) (l : List Char) : Nat → Bool
  | 0 => pw
  | k + 1 => match l[k]? with
      | some c => cfg.chars.isWord c
      | none => false

theorem pwAfter_cons (cfg : LexCfg) (pw : Bool) (c : Char) (r : List Char) (k : Nat) :
    pwAfter cfg pw (c :: r) (k + 1) = pwAfter cfg (cfg.chars.isWord c) r k := by
  cases k with
  | zero => simp [pwAfter]
  | succ j => simp [pwAfter]

theorem lexGo_skip_drop (cfg : LexCfg) : ∀ (l : List Char) (k : Nat) (pw : Bool) (pos : Nat), k ≤ l.length →
    lexGo cfg k pw l pos = lexGo cfg 0 (pwAfter cfg pw l k) (l.drop k) (pos + k)
  | _, 0, _, _, _ => by simp [pwAfter]
  | [], k + 1, _, _, h => by simp at h
  | c :: r, k + 1, pw, pos, h => by
      simp only [lexGo, List.drop_succ_cons, pwAfter_cons]
      rw [lexGo_skip_drop cfg r k _ _ (by simpa using h)]
      congr 1
      omega

theorem prevWord_add (cfg : LexCfg) (text : List Char) (pos k : Nat) :
    prevWord cfg text (pos + k) = pwAfter cfg (prevWord cfg text pos) (text.drop pos) k := by
  cases k with
  | zero => rfl
  | succ j =>
      have : pos + (j + 1) = (pos + j) + 1 := by omega
      rw [this]
      simp only [prevWord, pwAfter, List.getElem?_drop]
      cases text[pos + j]? <;> rfl

theorem lexGo_scan (cfg : LexCfg) : ∀ (l : List Char) (pw : Bool) (pos : Nat),
    lexGo cfg 0 pw l pos =
      match scanTok cfg pw l pos with
      | .eof => .ok []
      | .tok t n => consTok t (lexGo cfg 0 (pwAfter cfg pw l (n - pos)) (l.drop (n - pos)) n)
      | .err e => .error e
  | [], _, _ => by simp [lexGo, scanTok]
  | c :: r, pw, pos => by
      simp only [lexGo, scanTok]
      split
      · rw [lexGo_scan cfg r (cfg.chars.isWord c) (pos + 1)]
        rcases scanTok_spec cfg r (cfg.chars.isWord c) (pos + 1) with h | ⟨t, n, h, h1, h2, h3⟩ | ⟨e, h, _⟩
        · rw [h]
        · rw [h]
          have : n - pos = (n - (pos + 1)) + 1 := by omega
          simp only [this, pwAfter_cons, List.drop_succ_cons]
        · rw [h]
      · rcases ruleAt_spec cfg pw c r pos with ⟨t, len, hr, _, h1, h2⟩ | ⟨e, hr, _⟩
        · rw [hr]
          simp only
          rw [lexGo_skip_drop cfg r (len - 1) _ _ (by simp only [List.length_cons] at h2; omega)]
          have e1 : pos + len - pos = (len - 1) + 1 := by omega
          have e2 : pos + 1 + (len - 1) = pos + len := by omega
          simp only [e1, e2, pwAfter_cons, List.drop_succ_cons]
        · rw [hr]

/-- **C03Lex.lexFrom_step**: the token list from a position on is: nothing at the end of the text, the
error of the next `token()` call, or its token followed by the token list from where that call stopped.
`lexFrom`/`lexAll` are defined by structural recursion over the text (Lean accepts them without fuel and
without a termination proof obligation), so this equation - whose recursive occurrence is at the strictly
larger position `next` (`nextTok_progress`) - characterises them as the iteration of `token()`. -/
theorem lexFrom_step (cfg : LexCfg) (text : List Char) (pos : Nat) :
    lexFrom cfg text pos =
      match nextTok cfg text pos with
      | .eof => .ok []
      | .tok t next => consTok t (lexFrom cfg text next)
      | .err e => .error e := by
  simp only [lexFrom, nextTok]
  rw [lexGo_scan]
  rcases scanTok_spec cfg (text.drop pos) (prevWord cfg text pos) pos with h | ⟨t, n, h, h1, h2, h3⟩ | ⟨e, h, _⟩
  · rw [h]
  · rw [h]
    simp only
    have hn : n = pos + (n - pos) := by omega
    rw [← prevWord_add, List.drop_drop, ← hn]
  · rw [h]

theorem lexAll_eq_lexFrom (cfg : LexCfg) (text : List Char) : lexAll cfg text = lexFrom cfg text 0 := rfl

/-- the number of `token()` calls is bounded by the length of the text: `next` strictly grows and never
exceeds the length (a direct consequence of progress) -/
theorem calls_bounded (cfg : LexCfg) (text : List Char) (pos : Nat) {t : Token} {next : Nat}
    (h : nextTok cfg text pos = .tok t next) : text.length - next < text.length - pos := by
  have := nextTok_progress cfg text pos h
  omega

/-! ## the hypotheses are satisfiable: concrete calls on the ASCII configuration -/

-- `a +` from offset 1: the blank is skipped, `+` is the token, `lexpos` moves from 1 to 3
example : nextTok asciiCfg ['a', ' ', '+'] 1 = .tok ⟨.op ['+'], .text ['+'], 2⟩ 3 := by decide +kernel
-- from the middle of a word nothing matches: `\b` looks behind `lexpos`
example : nextTok asciiCfg ['a', 'b'] 1 = .err (.lexical ['b'] 1) := by decide +kernel
-- an ill-formed escape: reported with its text, at its own position inside the token
example : nextTok asciiCfg ['x', ' ', '"', 'a', '\\', 'U', '0', '0', '1', '1', '0', '0', '0', '0', '"'] 1 =
    .err (.lexical ['\\', 'U', '0', '0', '1', '1', '0', '0', '0', '0'] 4) := by decide +kernel
example : nextTok asciiCfg ['a'] 1 = .eof := by decide +kernel
example : lexFrom asciiCfg ['a', ' ', '+'] 1 = .ok [⟨.op ['+'], .text ['+'], 2⟩] := by decide +kernel
-- a numeral beyond the digit limit (limit 3 here)
example : lexAll { asciiCfg with maxDigits := 3 } ['1', '2', '3', '4'] = .error (.lexical ['1', '2', '3', '4'] 0) := by
  decide +kernel

end Yaql.Props.C03Lex
