import Yaql.Props.C05
/-!
C06 - resolution does not depend on registration or iteration order.

The enumeration order of a context's overload set is the order of the list
`Layer.fns` in the model.  `LayersPerm ls ls'` says that `ls'` is `ls` with every
layer's overloads enumerated in some other order.

* `perm_invariant`: the code-shaped `resolve` (chosen overload, bound arguments, evaluation log,
  error class) is invariant under every layer-wise permutation - IN FULL, for every class graph,
  family and call.  Proof: `resolve = resolveSpec` (C05) and each stage of `resolveSpec` is a
  permutation-invariant function of the layer (`visible_perm`, `stage_perm`, `choose_perm`).
* `old_order_dependent`: the winner selection before repair d8b1afa (one left-to-right pass
  comparing each match with the current winner) was order dependent on plain class lattices.
* `old_tuple_order_dependent`: the comparison before repair 9bf7e72 (`issubclass` raising
  `TypeError` for a tuple-typed against a class-typed parameter) made the outcome - TypeError or
  Ambiguous - depend on the order even with the repaired selection.
-/
namespace Yaql.Props.C06
open Yaql.Types Yaql.Resolve Yaql.Props.C05

/-- layer-wise permutation of the overloads -/
inductive LayersPerm : List Layer → List Layer → Prop where
  | nil : LayersPerm [] []
  | cons {l l' : Layer} {r r' : List Layer} :
      l.fns.Perm l'.fns → l.exclusive = l'.exclusive → LayersPerm r r' → LayersPerm (l :: r) (l' :: r')

inductive LPerm {α : Type} : List (List α) → List (List α) → Prop where
  | nil : LPerm [] []
  | cons {a a' : List α} {r r' : List (List α)} : a.Perm a' → LPerm r r' → LPerm (a :: r) (a' :: r')

namespace LPerm

theorem flatten {α : Type} : ∀ {a b : List (List α)}, LPerm a b → a.flatten.Perm b.flatten
  | _, _, .nil => .refl _
  | _, _, .cons h t => by simpa using h.append t.flatten

theorem map {α β : Type} (f : List α → List β) (hf : ∀ x y, x.Perm y → (f x).Perm (f y)) :
    ∀ {a b : List (List α)}, LPerm a b → LPerm (a.map f) (b.map f)
  | _, _, .nil => .nil
  | _, _, .cons h t => .cons (hf _ _ h) (t.map f hf)

theorem filter_nonempty {α : Type} : ∀ {a b : List (List α)}, LPerm a b →
    LPerm (a.filter fun x => !x.isEmpty) (b.filter fun x => !x.isEmpty)
  | _, _, .nil => .nil
  | _, _, .cons (a := x) (a' := y) h t => by
      have he : x.isEmpty = y.isEmpty := h.isEmpty_eq
      simp only [List.filter_cons, he]
      cases y.isEmpty
      · exact .cons h t.filter_nonempty
      · exact t.filter_nonempty

theorem find_nonempty {α : Type} : ∀ {a b : List (List α)}, LPerm a b →
    (a.find? (fun x => !x.isEmpty) = none ∧ b.find? (fun x => !x.isEmpty) = none) ∨
    ∃ x y, a.find? (fun x => !x.isEmpty) = some x ∧ b.find? (fun x => !x.isEmpty) = some y ∧ x.Perm y
  | _, _, .nil => Or.inl ⟨rfl, rfl⟩
  | _, _, .cons (a := x) (a' := y) h t => by
      have he : x.isEmpty = y.isEmpty := h.isEmpty_eq
      simp only [List.find?_cons, he]
      cases y.isEmpty
      · exact Or.inr ⟨x, y, rfl, rfl, h⟩
      · exact t.find_nonempty

end LPerm

/-! ## stage by stage -/

theorem reach_perm : ∀ {ls ls' : List Layer}, LayersPerm ls ls' → LayersPerm (reach ls) (reach ls')
  | _, _, .nil => .nil
  | _, _, .cons (l := l) (l' := l') h he t => by
      simp only [reach, ← he]
      cases l.exclusive
      · exact .cons h he (reach_perm t)
      · exact .cons h he .nil

theorem layers_map_perm (method : Bool) : ∀ {ls ls' : List Layer}, LayersPerm ls ls' →
    LPerm (ls.map fun l => l.fns.filter (kindOk method)) (ls'.map fun l => l.fns.filter (kindOk method))
  | _, _, .nil => .nil
  | _, _, .cons h _ t => .cons (h.filter _) (layers_map_perm method t)

/-- rules 1-2 are a function of the overload SET of every layer -/
theorem visible_perm (method : Bool) {ls ls' : List Layer} (h : LayersPerm ls ls') :
    LPerm (visible method ls) (visible method ls') :=
  (layers_map_perm method (reach_perm h)).filter_nonempty

theorem beats_all_perm (L : Lattice) {ms ms' : List Match} (h : ms.Perm ms') (m : Match) :
    ms.all (beats L m) = ms'.all (beats L m) := h.all_eq

/-- rules 7-8: the winner is a function of the SET of matches -/
theorem choose_perm (L : Lattice) {ms ms' : List Match} (h : ms.Perm ms') : choose L ms = choose L ms' := by
  have hb : (best L ms).Perm (best L ms') := by
    simp only [best_eq]
    have : (fun m => ms.all (beats L m)) = (fun m => ms'.all (beats L m)) := by
      funext m; exact beats_all_perm L h m
    rw [this]
    exact h.filter _
  unfold choose
  cases hb1 : best L ms with
  | nil => rw [hb1] at hb; rw [← hb.nil_eq]
  | cons w r =>
      cases r with
      | nil =>
          rw [hb1] at hb
          rw [← List.singleton_perm.1 hb]
      | cons w2 r2 =>
          rw [hb1] at hb
          have hl := hb.length_eq
          cases hb2 : best L ms' with
          | nil => rw [hb2] at hl; all_goals (simp at hl)
          | cons x xs =>
              cases xs with
              | nil => rw [hb2] at hl; all_goals (simp at hl)
              | cons _ _ => rfl

theorem decide'_perm (L : Lattice) {a b : List (List Match)} (h : LPerm a b) : decide' L a = decide' L b := by
  unfold decide'
  rcases h.find_nonempty with ⟨h1, h2⟩ | ⟨x, y, h1, h2, hp⟩
  · rw [h1, h2]
  · rw [h1, h2]; exact choose_perm L hp

theorem headD_eq_any {α : Type} (f : α → Bool) : ∀ (l : List α), (l.any f && l.any (fun x => !f x)) = false →
    (l.map f).headD false = l.any f
  | [], _ => rfl
  | a :: r, h => by
      simp only [List.map_cons, List.headD_cons, List.any_cons] at h ⊢
      cases hf : f a
      · simp only [hf, Bool.false_or, Bool.not_false, Bool.true_or, Bool.and_true] at h ⊢
        exact h.symm
      · simp

def sigsAgree (l : List Cand) : Prop := ∀ a ∈ l, ∀ b ∈ l, a.sig = b.sig

theorem agree_iff (m0 : Cand) (rest : List Cand) :
    (rest.all fun m => decide (m.sig = m0.sig)) = true ↔ sigsAgree (m0 :: rest) := by
  simp only [List.all_eq_true, decide_eq_true_eq, sigsAgree, List.mem_cons]
  constructor
  · intro h a ha b hb
    have ea : a.sig = m0.sig := by rcases ha with rfl | ha; rfl; exact h a ha
    have eb : b.sig = m0.sig := by rcases hb with rfl | hb; rfl; exact h b hb
    rw [ea, eb]
  · intro h m hm
    exact h m (Or.inr hm) m0 (Or.inl rfl)

theorem sigsAgree_perm {l l' : List Cand} (h : l.Perm l') : sigsAgree l ↔ sigsAgree l' := by
  unfold sigsAgree
  constructor
  · intro H a ha b hb; exact H a (h.mem_iff.2 ha) b (h.mem_iff.2 hb)
  · intro H a ha b hb; exact H a (h.mem_iff.1 ha) b (h.mem_iff.1 hb)

def StageRel : Except Err (List Nat × List (List Match)) → Except Err (List Nat × List (List Match)) → Prop
  | .error e, .error e' => e = e'
  | .ok r, .ok r' => r.1 = r'.1 ∧ LPerm r.2 r'.2
  | _, _ => False

theorem mappedOf_perm (L : Lattice) (args : List Arg) (kw : KwArgs) (x y : List FDef) (h : x.Perm y) :
    (mappedOf L args kw x).Perm (mappedOf L args kw y) := h.filterMap _

theorem matchesOf_perm (L : Lattice) (args : List Arg) (kw : KwArgs) (x y : List Cand) (h : x.Perm y) :
    (matchesOf L args kw x).Perm (matchesOf L args kw y) := h.filterMap _

/-- rules 3-5: errors, the evaluation log and the per-layer match SETS are functions of the
    per-layer overload sets -/
theorem stage_perm (L : Lattice) (c : Call) {vis vis' : List (List FDef)} (h : LPerm vis vis') :
    StageRel (stage L vis c) (stage L vis' c) := by
  have hflat := h.flatten
  unfold stage
  simp only
  rw [hflat.any_eq (f := fun x => x.noKwargs), hflat.any_eq (f := fun x => !x.noKwargs)]
  cases hnk : (vis'.flatten.any fun x => x.noKwargs) && vis'.flatten.any fun x => !x.noKwargs with
  | true => simp [StageRel]
  | false =>
      simp only [Bool.false_eq_true, if_false]
      have hnk0 : (vis.flatten.any (fun x => x.noKwargs) && vis.flatten.any fun x => !x.noKwargs) = false := by
        rw [hflat.any_eq (f := fun x => x.noKwargs), hflat.any_eq (f := fun x => !x.noKwargs)]; exact hnk
      rw [headD_eq_any _ _ hnk0, headD_eq_any _ _ hnk, hflat.any_eq]
      cases translateArgs (vis'.flatten.any fun x => x.noKwargs) (callArgs c) c.kwargs with
      | error e => simp [StageRel]
      | ok r =>
          obtain ⟨args, kw⟩ := r
          simp only
          have hm : LPerm (vis.map (mappedOf L args kw)) (vis'.map (mappedOf L args kw)) :=
            h.map _ (mappedOf_perm L args kw)
          have hmf := hm.flatten
          cases hf : (vis.map (mappedOf L args kw)).flatten with
          | nil =>
              rw [hf] at hmf
              rw [← hmf.nil_eq]
              simp [StageRel]
          | cons m0 rest =>
              rw [hf] at hmf
              cases hf' : (vis'.map (mappedOf L args kw)).flatten with
              | nil => rw [hf'] at hmf; exact absurd hmf.eq_nil (by simp)
              | cons m0' rest' =>
                  rw [hf'] at hmf
                  have hag : (rest.all fun m => decide (m.sig = m0.sig)) = (rest'.all fun m => decide (m.sig = m0'.sig)) := by
                    rw [Bool.eq_iff_iff, agree_iff, agree_iff]
                    exact sigsAgree_perm hmf
                  simp only [hag]
                  cases hall : rest'.all fun m => decide (m.sig = m0'.sig) with
                  | false => simp [StageRel]
                  | true =>
                      have hs : m0.sig = m0'.sig := by
                        have := (agree_iff m0' rest').1 hall
                        exact this m0 (hmf.mem_iff.1 (by simp)) m0' (by simp)
                      simp only [Bool.not_true, Bool.false_eq_true, if_false, hs, StageRel, true_and]
                      exact hm.map _ (matchesOf_perm L _ _)

/-- **the rule-shaped resolution is invariant under every layer-wise permutation - in full** -/
theorem spec_perm_invariant (L : Lattice) (c : Call) {ls ls' : List Layer} (h : LayersPerm ls ls') :
    resolveSpec L ls' c = resolveSpec L ls c := by
  have hv := visible_perm c.receiver.isSome h
  have he : (visible c.receiver.isSome ls).flatten.isEmpty = (visible c.receiver.isSome ls').flatten.isEmpty :=
    hv.flatten.isEmpty_eq
  unfold resolveSpec
  simp only [he]
  split
  · rfl
  · have hs := stage_perm L c hv
    unfold chooseSpec
    cases h1 : stage L (visible c.receiver.isSome ls) c with
    | error e =>
        cases h2 : stage L (visible c.receiver.isSome ls') c with
        | error e' => rw [h1, h2] at hs; simp [StageRel] at hs; simp [hs]
        | ok r' => rw [h1, h2] at hs; simp [StageRel] at hs
    | ok r =>
        cases h2 : stage L (visible c.receiver.isSome ls') c with
        | error e' => rw [h1, h2] at hs; simp [StageRel] at hs
        | ok r' =>
            rw [h1, h2] at hs
            obtain ⟨hl, hp⟩ := hs
            obtain ⟨lg, mls⟩ := r
            obtain ⟨lg', mls'⟩ := r'
            simp only at hl hp ⊢
            rw [hl, decide'_perm L hp]

/-- **C06**: the chosen overload, the bound arguments, the evaluation log and the error class do
    not depend on the order in which any layer enumerates its overloads -/
theorem perm_invariant (L : Lattice) (c : Call) (ls ls' : List Layer) (h : LayersPerm ls ls') :
    resolve L ls' c = resolve L ls c := by
  rw [resolve_eq_spec L ls c, resolve_eq_spec L ls' c]
  exact spec_perm_invariant L c h

/-! ## what was order dependent before the repairs -/

/-- the winner selection before the repair: one pass, each match compared with the current winner only -/
def selectOld (L : Lattice) : Option Match → List Match → Except Err (Nat × Bound)
  | none, [] => .error .noMatching
  | some w, [] => .ok (w.cand.fd.id, w.bound)
  | none, m :: r => selectOld L (some m) r
  | some w, m :: r =>
      if moreSpecific L w.cand.mapping m.cand.mapping then selectOld L (some w) r
      else if moreSpecific L m.cand.mapping w.cand.mapping then selectOld L (some m) r
      else .error .ambiguous

namespace Ex
open Yaql.Props.C05.Ex

def mk (f : FDef) : Match :=
  { cand := { fd := f, mapping := { pos := f.params, kwd := [] } },
    bound := { pos := [], extra := [], kw := [] } }
def mA := mk (fn 0 [pos 'a' 0 (cls 4), pos 'b' 1 (cls 4)])     -- A(D, D)
def mB := mk (fn 1 [pos 'a' 0 (cls 2), pos 'b' 1 (cls 1)])     -- B(L, Base)
def mC := mk (fn 2 [pos 'a' 0 (cls 1), pos 'b' 1 (cls 3)])     -- C(Base, R)

end Ex

/-- before the repair: `A(D,D)`, `B(L,Base)`, `C(Base,R)` all compatible - `A` or `Ambiguous`
    depending on the enumeration order; the repaired selection answers `A` in every order -/
theorem old_order_dependent :
    selectOld C05.Ex.lat none [Ex.mA, Ex.mB, Ex.mC] = .ok (0, Ex.mA.bound) ∧
    selectOld C05.Ex.lat none [Ex.mB, Ex.mC, Ex.mA] = .error .ambiguous ∧
    (∀ ms, ms.Perm [Ex.mA, Ex.mB, Ex.mC] → choose C05.Ex.lat ms = .ok (0, Ex.mA.bound)) := by
  refine ⟨by decide, by decide, fun ms h => ?_⟩
  rw [choose_perm _ h]
  decide

/-! ### the comparison before 9bf7e72 -/

/-- `_is_specialization_of` over the pre-fix `is_specialization_of` (`none` = TypeError) -/
def specLoopOld (L : Lattice) : List (PTy × PTy) → Bool → Option Bool
  | [], res => some res
  | (t1, t2) :: r, res =>
      match isSpecializationOfOld L t2 t1 with
      | none => none
      | some true => some false
      | some false =>
          match isSpecializationOfOld L t1 t2 with
          | none => none
          | some true => specLoopOld L r true
          | some false => specLoopOld L r res

/-- `all(other is mapping or _is_specialization_of(mapping, other) ...)`, short-circuiting -/
def allSpecOld (L : Lattice) (m : Match) : List Match → Option Bool
  | [] => some true
  | o :: r =>
      if o.cand.fd.id == m.cand.fd.id then allSpecOld L m r
      else match specLoopOld L (m.cand.mapping.typePairs o.cand.mapping) false with
        | none => none
        | some false => some false
        | some true => allSpecOld L m r

/-- the list comprehension `winners = [...]`; `none` = a TypeError escaped -/
def winnersOld (L : Lattice) (ms : List Match) : List Match → Option (List Match)
  | [] => some []
  | m :: r =>
      match allSpecOld L m ms with
      | none => none
      | some b => match winnersOld L ms r with
          | none => none
          | some ws => some (if b then m :: ws else ws)

namespace Ex
open Yaql.Props.C05.Ex

def num : PTy := .py (.many [6, 8]) false []        -- Number(): (int, float)
def intTy : PTy := .py (.one 6) false []
/-- `X(a: Base, b: object)`, `A(a: object, b: Number)`, `B(a: object, b: Integer)` -/
def mX := mk (fn 0 [pos 'a' 0 (cls 1), pos 'b' 1 (cls 0)])
def mNum := mk (fn 1 [pos 'a' 0 (cls 0), pos 'b' 1 num])
def mInt := mk (fn 2 [pos 'a' 0 (cls 0), pos 'b' 1 intTy])

end Ex

/-- before 9bf7e72: with `X`, `A(.., Number)`, `B(.., Integer)` all type-compatible, enumeration
    order [A, B, X] let a TypeError escape while [X, B, A] found no winner (Ambiguous); the repaired
    comparison gives the same answer - no winner, Ambiguous - in every order -/
theorem old_tuple_order_dependent :
    winnersOld C05.Ex.lat [Ex.mNum, Ex.mInt, Ex.mX] [Ex.mNum, Ex.mInt, Ex.mX] = none ∧
    winnersOld C05.Ex.lat [Ex.mX, Ex.mInt, Ex.mNum] [Ex.mX, Ex.mInt, Ex.mNum] = some [] ∧
    (∀ ms, ms.Perm [Ex.mNum, Ex.mInt, Ex.mX] → choose C05.Ex.lat ms = .error .ambiguous) := by
  refine ⟨by decide, by decide, fun ms h => ?_⟩
  rw [choose_perm _ h]
  decide

/-- non-vacuity: a family with three simultaneously compatible candidates and a permutation of it -/
example : LayersPerm C05.Ex.famABC [{ fns := (C05.Ex.famABC.head!).fns.reverse, exclusive := false }] :=
  .cons (by decide) rfl .nil

example : (resolve C05.Ex.lat [{ fns := (C05.Ex.famABC.head!).fns.reverse, exclusive := false }] C05.Ex.callXX).res =
    (resolve C05.Ex.lat C05.Ex.famABC C05.Ex.callXX).res := by decide

end Yaql.Props.C06
