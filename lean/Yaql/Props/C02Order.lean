import Yaql.Model.OpTable
/-!
C02, table layer: `ply_order_iso` - the precedence tuple that the model of
`_generate_operator_funcs` computes orders the token names exactly as their dictionary keys
`(group, 'l' | 'r')` are ordered: a smaller group is a higher ply level; inside one group the `'r'`
row is one level above the `'l'` row; the row's associativity is the key's side.  Hence ply's
decision `reduceOver rule token` is a function of the two keys alone (`reduce_by_key`).
-/
namespace Yaql.Props.C02Order
open Yaql.OpTable

/-- `a` is emitted before `b`, i.e. binds tighter: smaller group, or same group and `'r'` before `'l'` -/
def tighterKey (a b : PKey) : Prop := a.1 < b.1 ∨ (a.1 = b.1 ∧ a.2 = false ∧ b.2 = true)

theorem tighterKey_irrefl (a : PKey) : ¬ tighterKey a a := by
  rintro (h | ⟨_, h1, h2⟩)
  · omega
  · rw [h1] at h2; cases h2

theorem tighterKey_asymm {a b : PKey} : tighterKey a b → ¬ tighterKey b a := by
  rintro (h | ⟨h0, h1, h2⟩) (h' | ⟨h0', h1', h2'⟩)
  · omega
  · omega
  · omega
  · rw [h1] at h2'; cases h2'

theorem tighterKey_total (a b : PKey) : tighterKey a b ∨ a = b ∨ tighterKey b a := by
  obtain ⟨g1, s1⟩ := a
  obtain ⟨g2, s2⟩ := b
  rcases Nat.lt_trichotomy g1 g2 with h | h | h
  · exact .inl (.inl h)
  · subst h
    cases s1 <;> cases s2
    · exact .inr (.inl rfl)
    · exact .inl (.inr ⟨rfl, rfl, rfl⟩)
    · exact .inr (.inr (.inr ⟨rfl, rfl, rfl⟩))
    · exact .inr (.inl rfl)
  · exact .inr (.inr (.inl h))

/-! ### the rows of the loop -/

theorem mem_rowsAt (d : PDict) (i : Nat) (x : PKey × PRow) :
    x ∈ rowsAt d i ↔ ∃ side ns, ns ≠ [] ∧ d.get? (i, side) = some ns ∧ x = ((i, side), (side, ns)) := by
  unfold rowsAt
  simp only [List.mem_append]
  constructor
  · rintro (h | h)
    · split at h
      · rename_i n ns hg
        simp at h; exact ⟨false, n :: ns, by simp, hg, h⟩
      · simp at h
    · split at h
      · rename_i n ns hg
        simp at h; exact ⟨true, n :: ns, by simp, hg, h⟩
      · simp at h
  · rintro ⟨side, ns, hne, hg, rfl⟩
    cases ns with
    | nil => exact absurd rfl hne
    | cons n ns =>
      cases side
      · left; simp [hg]
      · right; simp [hg]

theorem rowsAt_sorted (d : PDict) (i : Nat) : List.Pairwise (fun a b => tighterKey a.1 b.1) (rowsAt d i) := by
  unfold rowsAt
  rw [List.pairwise_append]
  refine ⟨?_, ?_, ?_⟩
  · split <;> simp
  · split <;> simp
  · intro a ha b hb
    split at ha <;> simp at ha
    split at hb <;> simp at hb
    subst ha hb
    exact .inr ⟨rfl, rfl, rfl⟩

/-- **the loop emits the rows tightest first** -/
theorem keyedRows_sorted (d : PDict) : List.Pairwise (fun a b => tighterKey a.1 b.1) (keyedRows d) := by
  unfold keyedRows
  rw [List.pairwise_flatMap]
  refine ⟨fun i _ => rowsAt_sorted d (i + 1), ?_⟩
  refine List.Pairwise.imp ?_ List.pairwise_lt_range
  intro i j hij x hx y hy
  obtain ⟨_, _, _, _, rfl⟩ := (mem_rowsAt d (i + 1) x).mp hx
  obtain ⟨_, _, _, _, rfl⟩ := (mem_rowsAt d (j + 1) y).mp hy
  exact .inl (by simp; omega)

theorem mem_keyedRows (d : PDict) (x : PKey × PRow) :
    x ∈ keyedRows d ↔ ∃ k ns, ns ≠ [] ∧ 1 ≤ k.1 ∧ k.1 ≤ d.length ∧ d.get? k = some ns ∧ x = (k, (k.2, ns)) := by
  unfold keyedRows
  simp only [List.mem_flatMap, List.mem_range]
  constructor
  · rintro ⟨i, hi, hx⟩
    obtain ⟨side, ns, hne, hg, rfl⟩ := (mem_rowsAt d (i + 1) x).mp hx
    exact ⟨(i + 1, side), ns, hne, by simp, by simp; omega, hg, rfl⟩
  · rintro ⟨⟨g, side⟩, ns, hne, h1, h2, hg, rfl⟩
    simp only at h1 h2
    refine ⟨g - 1, by omega, ?_⟩
    have : g - 1 + 1 = g := by omega
    rw [this]
    exact (mem_rowsAt d g _).mpr ⟨side, ns, hne, hg, rfl⟩

/-! ### ply's lookup -/

theorem lookupFrom_skip (n : Str) : ∀ (B rest : List PRow) (i : Nat), (∀ r ∈ B, n ∉ r.2) →
    lookupPrecFrom n (B ++ rest) i = lookupPrecFrom n rest (i + B.length)
  | [], rest, i, _ => by simp
  | (l, names) :: B, rest, i, h => by
    have h0 : n ∉ names := h (l, names) (List.mem_cons_self ..)
    have ih := lookupFrom_skip n B rest (i + 1) (fun r hr => h r (List.mem_cons_of_mem _ hr))
    simp only [List.cons_append, lookupPrecFrom, List.contains_iff_mem, h0, ↓reduceIte, ih, List.length_cons]
    congr 1; omega

theorem lookupFrom_hit (n : Str) (l : Bool) (names : List Str) (rest : List PRow) (i : Nat) (h : n ∈ names) :
    lookupPrecFrom n ((l, names) :: rest) i = ⟨i, l⟩ := by
  simp [lookupPrecFrom, h]

/-- a name occurs under one key only -/
def NamesDisjoint (d : PDict) : Prop :=
  ∀ k1 ns1 k2 ns2 n, d.get? k1 = some ns1 → d.get? k2 = some ns2 → n ∈ ns1 → n ∈ ns2 → k1 = k2

theorem mem_of_pget : ∀ (d : PDict) (k : PKey) (ns : List Str), d.get? k = some ns → (k, ns) ∈ d
  | [], k, ns, h => by simp [PDict.get?] at h
  | (k', v) :: rest, k, ns, h => by
    by_cases hk : k' = k
    · simp [PDict.get?, hk] at h; subst h; simp [hk]
    · simp [PDict.get?, hk] at h; exact List.mem_cons_of_mem _ (mem_of_pget rest k ns h)

/-- executable check of `NamesDisjoint` (run by `decide` on the tables dumped from the live code) -/
def namesDisjointB (d : PDict) : Bool :=
  d.all fun e1 => d.all fun e2 => e1.1 == e2.1 || e1.2.all fun n => !e2.2.contains n

theorem namesDisjoint_of_check (d : PDict) (h : namesDisjointB d = true) : NamesDisjoint d := by
  intro k1 ns1 k2 ns2 n h1 h2 hn1 hn2
  have m1 := mem_of_pget d k1 ns1 h1
  have m2 := mem_of_pget d k2 ns2 h2
  simp only [namesDisjointB, List.all_eq_true] at h
  have := h _ m1 _ m2
  simp only [Bool.or_eq_true, beq_iff_eq, List.all_eq_true, Bool.not_eq_true', List.contains_eq_mem,
    decide_eq_false_iff_not] at this
  rcases this with h | h
  · exact h
  · exact absurd hn2 (h n hn1)

/-- the ply level of a name, read off the position of its row among the emitted rows -/
theorem lookup_at (d : PDict) (hdis : NamesDisjoint d) (i : Nat) (hi : i < (keyedRows d).length)
    (k : PKey) (ns : List Str) (hk : (keyedRows d)[i] = (k, (k.2, ns))) (n : Str) (hn : n ∈ ns) :
    lookupPrec (precedenceOf d) n = ⟨(keyedRows d).length - i, k.2⟩ := by
  have hsorted := keyedRows_sorted d
  generalize hF : keyedRows d = F at *
  -- split the row list at position i
  have hsplit : F = F.take i ++ (k, (k.2, ns)) :: F.drop (i + 1) := by
    rw [← hk]; simp
  have hB : ∀ r ∈ ((F.drop (i + 1)).map (·.2)).reverse, n ∉ r.2 := by
    intro r hr hnr
    rw [List.mem_reverse, List.mem_map] at hr
    obtain ⟨y, hy, rfl⟩ := hr
    have hyF : y ∈ keyedRows d := by rw [hF]; exact List.mem_of_mem_drop hy
    obtain ⟨k', ns', _, _, _, hg', rfl⟩ := (mem_keyedRows d y).mp hyF
    have hxF : (k, (k.2, ns)) ∈ keyedRows d := by rw [hF, ← hk]; exact List.getElem_mem hi
    obtain ⟨k0, ns0, _, _, _, hg0, he⟩ := (mem_keyedRows d _).mp hxF
    injection he with he1 he2; injection he2 with _ he3; subst he1 he3
    have hkk : k = k' := hdis k ns k' ns' n hg0 hg' hn hnr
    subst hkk
    -- but the rows after position i have strictly looser keys
    rw [hsplit] at hsorted
    have := (List.pairwise_append.mp hsorted).2.1
    rw [List.pairwise_cons] at this
    exact tighterKey_irrefl k (this.1 _ hy)
  unfold lookupPrec precedenceOf
  rw [hF]
  have hrev : (((true, [nComma]) : PRow) :: F.map (·.2)).reverse =
      ((F.drop (i + 1)).map (·.2)).reverse ++ ((k.2, ns) :: (((F.take i).map (·.2)).reverse ++ [(true, [nComma])])) := by
    conv => lhs; rw [hsplit]
    simp
  rw [hrev, lookupFrom_skip n _ _ 1 hB, lookupFrom_hit n _ _ _ _ hn]
  congr 1
  simp; omega

/-- **C02.ply_order_iso.**  For two names listed under keys of the precedence dictionary (every
key within the range of the loop): the associativity ply gets for a name is the side of its key,
and one name's level is above the other's exactly when its key is emitted earlier - smaller group
number, or same group and `'r'` before `'l'`; equal keys, equal levels. -/
theorem ply_order_iso (d : PDict) (hdis : NamesDisjoint d) (k1 k2 : PKey) (ns1 ns2 : List Str) (n1 n2 : Str)
    (h1 : d.get? k1 = some ns1) (h2 : d.get? k2 = some ns2) (hn1 : n1 ∈ ns1) (hn2 : n2 ∈ ns2)
    (hb1 : 1 ≤ k1.1 ∧ k1.1 ≤ d.length) (hb2 : 1 ≤ k2.1 ∧ k2.1 ≤ d.length) :
    (lookupPrec (precedenceOf d) n1).left = k1.2 ∧ (lookupPrec (precedenceOf d) n2).left = k2.2 ∧
    (tighterKey k1 k2 ↔ (lookupPrec (precedenceOf d) n2).level < (lookupPrec (precedenceOf d) n1).level) ∧
    (k1 = k2 ↔ (lookupPrec (precedenceOf d) n1).level = (lookupPrec (precedenceOf d) n2).level) := by
  have hne1 : ns1 ≠ [] := by intro h; rw [h] at hn1; simp at hn1
  have hne2 : ns2 ≠ [] := by intro h; rw [h] at hn2; simp at hn2
  have m1 : (k1, (k1.2, ns1)) ∈ keyedRows d := (mem_keyedRows d _).mpr ⟨k1, ns1, hne1, hb1.1, hb1.2, h1, rfl⟩
  have m2 : (k2, (k2.2, ns2)) ∈ keyedRows d := (mem_keyedRows d _).mpr ⟨k2, ns2, hne2, hb2.1, hb2.2, h2, rfl⟩
  obtain ⟨i1, hi1, e1⟩ := List.getElem_of_mem m1
  obtain ⟨i2, hi2, e2⟩ := List.getElem_of_mem m2
  rw [lookup_at d hdis i1 hi1 k1 ns1 e1 n1 hn1, lookup_at d hdis i2 hi2 k2 ns2 e2 n2 hn2]
  have hsorted := (List.pairwise_iff_getElem.mp (keyedRows_sorted d))
  have hlt : ∀ a b (ha : a < (keyedRows d).length) (hb : b < (keyedRows d).length), a < b →
      tighterKey ((keyedRows d)[a]).1 ((keyedRows d)[b]).1 := fun a b ha hb hab => hsorted a b ha hb hab
  have pos : (tighterKey k1 k2 ↔ i1 < i2) ∧ (k1 = k2 ↔ i1 = i2) := by
    rcases Nat.lt_trichotomy i1 i2 with h | h | h
    · have := hlt i1 i2 hi1 hi2 h
      rw [e1, e2] at this
      exact ⟨⟨fun _ => h, fun _ => this⟩, ⟨fun he => absurd this (he ▸ tighterKey_irrefl k1), fun he => by omega⟩⟩
    · subst h
      have : k1 = k2 := by rw [e1] at e2; injection e2
      exact ⟨⟨fun ht => absurd ht (this ▸ tighterKey_irrefl k1), fun hh => by omega⟩, ⟨fun _ => rfl, fun _ => this⟩⟩
    · have := hlt i2 i1 hi2 hi1 h
      rw [e1, e2] at this
      exact ⟨⟨fun ht => absurd ht (tighterKey_asymm this), fun hh => by omega⟩,
        ⟨fun he => absurd this (he ▸ tighterKey_irrefl k1), fun he => by omega⟩⟩
  refine ⟨rfl, rfl, ?_, ?_⟩
  · rw [pos.1]; simp only; omega
  · rw [pos.2]; simp only; omega

end Yaql.Props.C02Order
