import Yaql.Model.Limits
import Yaql.Props.C10
/-!
C08 - iterator limit and memory quota bound every evaluation.
-/
namespace Yaql.Props.C08
open Yaql.Convert Yaql.Limits

/-! ## `limit_iterable`: the counting generator -/

theorem run_succ {α : Type} (lim : Limit) (src : Source α) : ∀ (k : Nat) (r : Run α),
    run lim src (k + 1) r = (run lim src k r).step lim src
  | 0, r => rfl
  | k + 1, r => by
      show run lim src (k + 1) (r.step lim src) = _
      rw [run_succ lim src k (r.step lim src)]
      rfl

/-- invariant of a consumer's view of `limit_iterable N src` -/
def Inv {α : Type} (N : Nat) (r : Run α) : Prop :=
  r.items.length ≤ N ∧ r.st.idx ≤ N + 1 ∧ (r.st.dead = false → r.st.idx = r.items.length)

theorem inv_step {α : Type} (N : Nat) (src : Source α) (r : Run α) (h : Inv N r) :
    Inv N (r.step (some N) src) := by
  obtain ⟨h1, h2, h3⟩ := h
  unfold Run.step limNext
  cases hd : r.st.dead
  · have h3' := h3 hd
    simp only [Bool.false_eq_true, if_false]
    cases hs : src r.st.idx with
    | none => exact ⟨h1, h2, by simp⟩
    | some a =>
        cases hb : blocks (some N) r.st.idx
        · simp only [blocks, decide_eq_false_iff_not] at hb
          refine ⟨?_, ?_, ?_⟩ <;> simp <;> omega
        · refine ⟨?_, ?_, ?_⟩ <;> simp <;> omega
  · simp only [if_true]
    exact ⟨h1, h2, by simp [hd]⟩

theorem inv_run {α : Type} (N : Nat) (src : Source α) : ∀ (k : Nat) (r : Run α), Inv N r → Inv N (run (some N) src k r)
  | 0, _, h => h
  | k + 1, r, h => inv_run N src k _ (inv_step N src r h)

/-- **C08.limit_pulls**: for every source - finite or endless - every limit `N >= 0` and every number
    `k` of `next()` calls a consumer makes on `limit_iterable(src, N)`: it obtains at most `N` items and
    at most `N + 1` items are pulled from the source. -/
theorem limit_pulls {α : Type} (src : Source α) (N k : Nat) :
    (run (some N) src k {}).items.length ≤ N ∧ (run (some N) src k {}).st.idx ≤ N + 1 := by
  have := inv_run N src k {} ⟨Nat.zero_le _, Nat.zero_le _, fun _ => rfl⟩
  exact ⟨this.1, this.2.1⟩

/-- the items obtained are the first items of the source, in order (the wrapper is faithful) -/
theorem limit_prefix {α : Type} (lim : Limit) (src : Source α) : ∀ (k : Nat),
    let r := run lim src k {}
    r.items.map some = (List.range r.items.length).map src ∧ (r.st.dead = false → r.st.idx = r.items.length)
  | 0 => ⟨rfl, fun _ => rfl⟩
  | k + 1 => by
      have ih := limit_prefix lim src k
      simp only at ih ⊢
      rw [run_succ]
      generalize run lim src k {} = r at ih
      obtain ⟨ih1, ih2⟩ := ih
      unfold Run.step limNext
      cases hd : r.st.dead
      · have h3 := ih2 hd
        simp only [Bool.false_eq_true, if_false]
        cases hs : src r.st.idx with
        | none => exact ⟨ih1, by simp⟩
        | some a =>
            cases hb : blocks lim r.st.idx
            · simp only [Bool.false_eq_true, if_false, List.map_append, List.length_append, List.length_cons,
                List.length_nil, List.range_succ, List.map_cons, List.map_nil]
              rw [ih1, ← h3, hs]
              exact ⟨rfl, fun _ => rfl⟩
            · exact ⟨ih1, by simp⟩
      · simp only [if_true]
        exact ⟨ih1, by simp [hd]⟩

/-- a source that never ends -/
def Endless {α : Type} (src : Source α) : Prop := ∀ i, (src i).isSome = true

theorem endless_prefix {α : Type} (src : Source α) (he : Endless src) (N : Nat) : ∀ j, j ≤ N →
    (run (some N) src j {}).st = { idx := j, dead := false } ∧ (run (some N) src j {}).raised = false
  | 0, _ => ⟨rfl, rfl⟩
  | j + 1, hj => by
      obtain ⟨h1, h2⟩ := endless_prefix src he N j (by omega)
      rw [run_succ]
      generalize run (some N) src j {} = r at h1 h2
      unfold Run.step limNext
      have := he j
      cases hs : src j with
      | none => simp [hs] at this
      | some a =>
          have hb : blocks (some N) j = false := by simp [blocks]; omega
          simp [h1, hs, hb, h2]

theorem raised_mono {α : Type} (lim : Limit) (src : Source α) (r : Run α) (h : r.raised = true) :
    (r.step lim src).raised = true := by
  unfold Run.step
  split <;> simp_all

theorem raised_run {α : Type} (lim : Limit) (src : Source α) : ∀ (k : Nat) (r : Run α), r.raised = true →
    (run lim src k r).raised = true
  | 0, _, h => h
  | k + 1, r, h => raised_run lim src k _ (raised_mono lim src r h)

theorem run_add {α : Type} (lim : Limit) (src : Source α) : ∀ (a b : Nat) (r : Run α),
    run lim src (a + b) r = run lim src b (run lim src a r)
  | 0, b, r => by simp [run]
  | a + 1, b, r => by
      rw [show a + 1 + b = (a + b) + 1 by omega]
      show run lim src (a + b) (r.step lim src) = run lim src b (run lim src a (r.step lim src))
      exact run_add lim src a b _

/-- **C08.limit_pulls** (termination clause): a consumer that keeps pulling from `limit_iterable(src, N)`
    over an endless source gets `CollectionTooLargeException` at its `N + 1`-th `next()`; so evaluations over
    endless generators end. -/
theorem limit_endless_raises {α : Type} (src : Source α) (he : Endless src) (N k : Nat) (hk : N + 1 ≤ k) :
    (run (some N) src k {}).raised = true := by
  obtain ⟨h1, _⟩ := endless_prefix src he N N (Nat.le_refl _)
  have hstep : (run (some N) src (N + 1) {}).raised = true := by
    rw [run_succ]
    generalize run (some N) src N {} = r at h1
    unfold Run.step limNext
    have := he N
    cases hs : src N with
    | none => simp [hs] at this
    | some a => simp [h1, hs, blocks]
  obtain ⟨d, rfl⟩ : ∃ d, k = (N + 1) + d := ⟨k - (N + 1), by omega⟩
  rw [run_add]
  exact raised_run _ _ _ _ hstep

/-- without a limit nothing is ever refused -/
theorem unlimited_never_raises {α : Type} (src : Source α) : ∀ (k : Nat) (r : Run α), r.raised = false →
    (run none src k r).raised = false
  | 0, _, h => h
  | k + 1, r, h => by
      apply unlimited_never_raises src k
      unfold Run.step limNext
      cases r.st.dead <;> simp [h, blocks]
      cases src r.st.idx <;> simp

example : (run (some 2) (fun i => some i) 10 {}).items = [0, 1] ∧ (run (some 2) (fun i => some i) 10 {}).st.idx = 3
    ∧ (run (some 2) (fun i => some i) 10 {}).raised = true := by decide
example : (run (some 0) (fun i => some i) 1 {}).st.idx = 1 ∧ (run (some 0) (fun i => some i) 1 {}).raised = true := by decide
example : (run (some 5) (fun i => if i < 3 then some i else none) 10 {}).items = [0, 1, 2] ∧
    (run (some 5) (fun i => if i < 3 then some i else none) 10 {}).raised = false := by decide

/-- **C08.limit_sized**: a sized collection longer than `N` is rejected on its length alone (`limitSized`
    does not even receive the elements); one within the limit is handed on as it is. -/
theorem limit_sized (N len : Nat) :
    (N < len → limitSized (some N) len = .error .tooLarge) ∧ (len ≤ N → limitSized (some N) len = .ok ()) := by
  constructor <;> intro h <;> simp [limitSized, Limit.admits] <;> omega

/-! ## the finaliser -/

mutual
theorem bounded_rename (o : Opts) (lim : Limit) : ∀ v, C10.bounded lim (C10.rename o v) = C10.bounded lim v
  | .sc _ => rfl
  | .seq k l => by
      have hl := length_renameL o l
      simp only [C10.rename, C10.bounded, hl, boundedL_rename o lim l]
  | .map _ kvs => by
      have hl := length_renameP o kvs
      simp only [C10.rename, C10.bounded, hl, boundedP_rename o lim kvs]
theorem boundedL_rename (o : Opts) (lim : Limit) : ∀ l, C10.boundedL lim (C10.renameL o l) = C10.boundedL lim l
  | [] => rfl
  | x :: xs => by simp only [C10.renameL, C10.boundedL, bounded_rename o lim x, boundedL_rename o lim xs]
theorem boundedP_rename (o : Opts) (lim : Limit) : ∀ l, C10.boundedP lim (C10.renameP o l) = C10.boundedP lim l
  | [] => rfl
  | (k, v) :: r => by
      simp only [C10.renameP, C10.boundedP, bounded_rename o lim k, bounded_rename o lim v, boundedP_rename o lim r]
theorem length_renameL (o : Opts) : ∀ l, (C10.renameL o l).length = l.length
  | [] => rfl
  | _ :: xs => by simp [C10.renameL, length_renameL o xs]
theorem length_renameP (o : Opts) : ∀ l, (C10.renameP o l).length = l.length
  | [] => rfl
  | (_, _) :: r => by simp [C10.renameP, length_renameP o r]
end

/-- **C08.finalize_bounded**: if `convert_output_data` with the `#iter` limiter `N` succeeds, no collection
    at any depth of the result has more than `N` elements (`C10.bounded (some N)`), whatever the options. -/
theorem finalize_bounded (o : Opts) (N : Nat) (v r : Py) (h : convOut o (some N) v = .ok r) :
    C10.bounded (some N) r = true := by
  obtain ⟨_, hb, rfl⟩ := (C10.convOut_spec o (some N) v r).mp h
  rw [bounded_rename]; exact hb

/-- ... and conversely an oversized collection anywhere in the value makes finalisation fail -/
theorem finalize_refuses (o : Opts) (N : Nat) (v : Py) (h : C10.bounded (some N) v = false) :
    ∀ r, convOut o (some N) v ≠ .ok r := by
  intro r hr
  have := ((C10.convOut_spec o (some N) v r).mp hr).2.1
  simp [h] at this

example : convOut {} (some 2) (.seq .list [.seq .iter [.sc .null, .sc .null, .sc .null]]) = .error .tooLarge := by rfl
example : C10.bounded (some 2) (.seq .list [.seq .iter [.sc .null, .sc .null, .sc .null]]) = false := by rfl

/-! ## `limit_memory_usage` and the repetition estimates -/

theorem limitMemory_one (Q : Int) (s : Nat) : limitMemory Q [(1, s)] = true ↔ (Q ≤ 0 ∨ (s : Int) ≤ Q) := by
  unfold limitMemory
  by_cases hq : Q ≤ 0
  · simp [hq]
  · simp only [hq, if_false, limitMemoryGo, false_or]
    by_cases h : (0 : Int) + 1 * (s : Int) > Q
    · simp <;> omega
    · simp <;> omega

theorem limitMemory_two (Q : Int) (c1 c2 : Int) (s1 s2 : Nat) (hq : 0 < Q) :
    limitMemory Q [(c1, s1), (c2, s2)] = true ↔ (c1 * s1 ≤ Q ∧ c1 * s1 + c2 * s2 ≤ Q) := by
  unfold limitMemory
  have : ¬ Q ≤ 0 := by omega
  simp only [this, if_false, limitMemoryGo, Int.zero_add]
  by_cases h1 : c1 * (s1 : Int) > Q
  · simp [h1] <;> omega
  · simp only [h1, if_false]
    by_cases h2 : c1 * (s1 : Int) + c2 * (s2 : Int) > Q
    · simp [h2] <;> omega
    · simp [h2] <;> omega

/-- **C08.repeat_estimate_safe** (sequences): whenever `list_by_int`'s check lets `left * k` through
    (`k >= 1`, quota in force), the modelled size of the result is within the quota - so a refusal always
    precedes the allocation.  Needs only that the tuple header is not larger than the list header
    (`C08Gen.sizes_ok` re-proves that for the running CPython). -/
theorem repeat_estimate_safe (c : SizeCfg) (hc : c.tupleHdr ≤ c.listHdr) (Q : Int) (hq : 0 < Q)
    (kind : SeqK) (n : Nat) (k : Int) (hk : 1 ≤ k) (h : listByIntCheck c Q kind n k = true) :
    ((c.seqSize kind (repLen n k) : Nat) : Int) ≤ Q := by
  unfold listByIntCheck at h
  rw [limitMemory_two Q _ _ _ _ hq] at h
  obtain ⟨_, h2⟩ := h
  obtain ⟨m, rfl⟩ : ∃ m : Nat, k = (m : Int) + 1 := ⟨(k - 1).toNat, by omega⟩
  have hrep : repLen n ((m : Int) + 1) = n * (m + 1) := by
    unfold repLen
    have : ¬ ((m : Int) + 1 ≤ 0) := by omega
    simp only [this, if_false]
    congr 1
  rw [hrep]
  have hH : c.tupleHdr ≤ c.seqHdr kind := by cases kind <;> simp [SizeCfg.seqHdr, hc]
  unfold SizeCfg.seqSize at h2 ⊢
  have e1 : (-((m : Int) + 1) + 1) * (c.tupleHdr : Int) = -((m : Int) * c.tupleHdr) := by
    rw [show (-((m : Int) + 1) + 1) = -(m : Int) by omega, Int.neg_mul]
  have e2 : ((m : Int) + 1) * ((c.seqHdr kind + c.ptr * n : Nat) : Int)
      = (m : Int) * c.seqHdr kind + c.seqHdr kind + ((c.ptr * (n * (m + 1)) : Nat) : Int) := by
    simp only [Int.natCast_add, Int.natCast_mul, Int.add_mul, Int.mul_add, Int.one_mul, Int.natCast_one, Int.mul_one]
    have : (c.ptr : Int) * ((n : Int) * (m : Int)) = (m : Int) * ((c.ptr : Int) * (n : Int)) := by
      rw [Int.mul_comm (m : Int), Int.mul_assoc]
    omega
  rw [e1, e2] at h2
  have hm : (m : Int) * (c.tupleHdr : Int) ≤ (m : Int) * (c.seqHdr kind : Int) :=
    Int.mul_le_mul_of_nonneg_left (by exact_mod_cast hH) (by omega)
  simp only [Int.natCast_add] at h2 ⊢
  omega

/-- for a count `<= 0` the result is the empty sequence: nothing is allocated -/
theorem repeat_nonpositive (c : SizeCfg) (kind : SeqK) (n : Nat) (k : Int) (hk : k ≤ 0) :
    c.seqSize kind (repLen n k) = c.seqHdr kind := by
  simp [repLen, hk, SizeCfg.seqSize]

/-- **C08.repeat_estimate_safe** (strings): the same for `string_by_int`; needs that `''` has the smallest
    string header. -/
theorem repeat_estimate_safe_str (c : SizeCfg)
    (hc : c.strAscii ≤ c.strLatin1 ∧ c.strAscii ≤ c.strUcs2 ∧ c.strAscii ≤ c.strUcs4) (Q : Int) (hq : 0 < Q)
    (cls : StrClass) (n : Nat) (k : Int) (hk : 1 ≤ k) (h : stringByIntCheck c Q cls n k = true) :
    ((c.strSize cls (repLen n k) : Nat) : Int) ≤ Q := by
  unfold stringByIntCheck at h
  rw [limitMemory_two Q _ _ _ _ hq] at h
  obtain ⟨_, h2⟩ := h
  obtain ⟨m, rfl⟩ : ∃ m : Nat, k = (m : Int) + 1 := ⟨(k - 1).toNat, by omega⟩
  have hrep : repLen n ((m : Int) + 1) = n * (m + 1) := by
    unfold repLen
    have : ¬ ((m : Int) + 1 ≤ 0) := by omega
    simp only [this, if_false]
    congr 1
  rw [hrep]
  have e1 : (-((m : Int) + 1) + 1) * (c.strAscii : Int) = -((m : Int) * c.strAscii) := by
    rw [show (-((m : Int) + 1) + 1) = -(m : Int) by omega, Int.neg_mul]
  rw [e1] at h2
  cases n with
  | zero =>
      simp only [SizeCfg.strSize, Nat.zero_mul, if_true] at h2 ⊢
      have : ((m : Int) + 1) * (c.strAscii : Int) = (m : Int) * c.strAscii + c.strAscii := by
        rw [Int.add_mul, Int.one_mul]
      omega
  | succ n' =>
      have hH : c.strAscii ≤ c.strHdr cls := by
        cases cls <;> simp [SizeCfg.strHdr] <;> omega
      have hne : (n' + 1) * (m + 1) ≠ 0 := Nat.mul_ne_zero (by omega) (by omega)
      simp only [SizeCfg.strSize, hne, if_false, Nat.add_one_ne_zero] at h2 ⊢
      have e2 : ((m : Int) + 1) * ((c.strHdr cls + cls.width * (n' + 1) : Nat) : Int)
          = (m : Int) * c.strHdr cls + c.strHdr cls + ((cls.width * ((n' + 1) * (m + 1)) : Nat) : Int) := by
        simp only [Int.natCast_add, Int.natCast_mul, Int.add_mul, Int.mul_add, Int.one_mul, Int.natCast_one, Int.mul_one]
        have : (cls.width : Int) * ((n' : Int) * (m : Int)) = (m : Int) * ((cls.width : Int) * (n' : Int)) := by
          rw [Int.mul_comm (m : Int), Int.mul_assoc]
        have : (cls.width : Int) * (m : Int) = (m : Int) * (cls.width : Int) := Int.mul_comm _ _
        omega
      rw [e2] at h2
      have hm : (m : Int) * (c.strAscii : Int) ≤ (m : Int) * (c.strHdr cls : Int) :=
        Int.mul_le_mul_of_nonneg_left (by exact_mod_cast hH) (by omega)
      simp only [Int.natCast_add] at h2 ⊢
      omega

/-- a frozen dict that passes an argument / result check (`limit_memory_usage(engine, (1, d))`) has a table
    within the quota: `FrozenDict.__sizeof__` counts the dict it owns (whatever the wrapper overhead is) -/
theorem frozen_dict_measured (c : SizeCfg) (Q : Int) (hq : 0 < Q) (dictSize : Nat)
    (h : limitMemory Q [(1, c.fdictSize dictSize)] = true) : (dictSize : Int) ≤ Q := by
  rcases (limitMemory_one Q _).mp h with h0 | h1
  · omega
  · unfold SizeCfg.fdictSize at h1
    simp only [Int.natCast_add] at h1
    omega

/-- `dict.set(key, value)` refuses before building when the dict, the key and the value together exceed the quota -/
theorem dict_set_checked (c : SizeCfg) (Q : Int) (hq : 0 < Q) (ds ks vs : Nat)
    (h : dictSetCheck c Q ds ks vs = true) : (ds : Int) + ks + vs ≤ Q := by
  unfold dictSetCheck limitMemory at h
  have : ¬ Q ≤ 0 := by omega
  simp only [this, if_false, limitMemoryGo, Int.zero_add, Int.one_mul] at h
  unfold SizeCfg.fdictSize at h
  simp only [Int.natCast_add] at h
  split at h
  · cases h
  · split at h
    · cases h
    · split at h
      · cases h
      · omega

/-! ## `memorize` and the argument / result checks -/

/-- `utils.memorize` never holds a remembered list above the quota: a pull that would make it larger raises -/
theorem memorize_bounded (Q : Int) (hq : 0 < Q) (listSize : Nat → Nat) (len m : Nat)
    (h : memorizeStep Q listSize len = some m) : m = len + 1 ∧ (listSize m : Int) ≤ Q := by
  unfold memorizeStep at h
  split at h
  · rename_i hl
    cases h
    rcases (limitMemory_one Q _).mp hl with h0 | h1
    · omega
    · exact ⟨rfl, h1⟩
  · cases h

mutual
/-- **C08.quota_flow** (first-order call trees, payloads abstract): when an evaluation under a memory quota
    `Q > 0` completes, every value that was bound to a parameter or returned from a call has
    `sizeof <= Q`; otherwise the evaluation ends in an error (`quota` as soon as such a value appears). -/
theorem quota_flow {V : Type} (Q : Int) (hq : 0 < Q) (size : V → Nat) (payload : Nat → List V → Except QErr V) :
    ∀ (e : Expr V) (v : V) (log : List V), evalQ Q size payload e = .ok (v, log) → ∀ x ∈ log, (size x : Int) ≤ Q
  | .lit _, v, log, h => by
      simp only [evalQ] at h
      cases h
      intro x hx; cases hx
  | .call f args, v, log, h => by
      simp only [evalQ] at h
      split at h
      · cases h
      · rename_i vs l0 ha
        have ih := quota_flow_args Q hq size payload args vs l0 ha
        split at h
        · cases h
        · rename_i r hp
          split at h
          · rename_i hl
            cases h
            intro x hx
            simp only [List.mem_append, List.mem_singleton] at hx
            rcases hx with (hx | hx) | hx
            · exact ih.1 x hx
            · exact ih.2 x hx
            · subst hx
              rcases (limitMemory_one Q _).mp hl with h0 | h1
              · omega
              · exact h1
          · cases h
theorem quota_flow_args {V : Type} (Q : Int) (hq : 0 < Q) (size : V → Nat) (payload : Nat → List V → Except QErr V) :
    ∀ (as : List (Expr V)) (vs log : List V), evalArgs Q size payload as = .ok (vs, log) →
      (∀ x ∈ log, (size x : Int) ≤ Q) ∧ (∀ x ∈ vs, (size x : Int) ≤ Q)
  | [], vs, log, h => by
      simp only [evalArgs] at h
      cases h
      refine ⟨?_, ?_⟩ <;> intro x hx <;> cases hx
  | a :: as, vs, log, h => by
      simp only [evalArgs] at h
      split at h
      · cases h
      · rename_i v l1 ha
        have ih1 := quota_flow Q hq size payload a v l1 ha
        split at h
        · rename_i hl
          split at h
          · cases h
          · rename_i vs' l2 hr
            have ih2 := quota_flow_args Q hq size payload as vs' l2 hr
            cases h
            refine ⟨fun x hx => ?_, fun x hx => ?_⟩
            · simp only [List.mem_append] at hx
              rcases hx with hx | hx
              · exact ih1 x hx
              · exact ih2.1 x hx
            · simp only [List.mem_cons] at hx
              rcases hx with hx | hx
              · subst hx
                rcases (limitMemory_one Q _).mp hl with h0 | h1
                · omega
                · exact h1
              · exact ih2.2 x hx
        · cases h
end

/-- the value an evaluation returns is itself within the quota when it comes from a call -/
theorem quota_result {V : Type} (Q : Int) (hq : 0 < Q) (size : V → Nat) (payload : Nat → List V → Except QErr V)
    (f : Nat) (args : List (Expr V)) (v : V) (log : List V)
    (h : evalQ Q size payload (.call f args) = .ok (v, log)) : (size v : Int) ≤ Q := by
  have hf := quota_flow Q hq size payload _ v log h
  apply hf
  simp only [evalQ] at h
  split at h
  · cases h
  · split at h
    · cases h
    · split at h
      · cases h; simp
      · cases h

example : evalQ (V := Nat) 10 id (fun _ vs => .ok (vs.foldl (· + ·) 0)) (.call 0 [.lit 4, .call 0 [.lit 3, .lit 3]])
    = .ok (10, [3, 3, 6, 4, 6, 10]) := by rfl
example : evalQ (V := Nat) 10 id (fun _ vs => .ok (vs.foldl (· + ·) 0)) (.call 0 [.lit 5, .call 0 [.lit 3, .lit 3]])
    = .error .quota := by rfl

end Yaql.Props.C08
