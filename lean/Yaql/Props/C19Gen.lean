import Yaql.Gen.StrTables
/-!
C19 - facts about the tables dumped from the running interpreter (`harness/gens/strtables.py`),
re-proved on every run: the classes `characters` draws from are the documented ones, the
whitespace class contains the ASCII blanks and no ASCII letter, digit or punctuation, and
`re.escape` (`escapeRegex`) leaves ASCII letters, digits and `_` alone while escaping every
regex metacharacter.
-/
namespace Yaql.Props.C19Gen
open Yaql.Gen.StrTables

def span (lo n : Nat) : List Nat := (List.range n).map (· + lo)

def isAlnum (c : Nat) : Bool := (48 ≤ c && c ≤ 57) || (65 ≤ c && c ≤ 90) || (97 ≤ c && c ≤ 122)

/-- `string.digits`, `ascii_lowercase`, `ascii_uppercase`, `octdigits` are the ASCII ranges -/
theorem ranges :
    digits = span 48 10 ∧ asciiLowercase = span 97 26 ∧ asciiUppercase = span 65 26 ∧ octdigits = span 48 8 := by
  decide +kernel

/-- the composite classes are built from the basic ones as documented -/
theorem composites :
    asciiLetters = asciiLowercase ++ asciiUppercase ∧
    hexdigits = digits ++ span 97 6 ++ span 65 6 ∧
    printable = digits ++ asciiLetters ++ punctuation ++ whitespace := by
  decide +kernel

/-- `string.punctuation`: the printable ASCII characters that are neither blank nor alphanumeric -/
theorem punctuation_is : punctuation = (span 33 94).filter (fun c => !isAlnum c) := by
  decide +kernel

/-- `string.whitespace`: space, tab, line feed, carriage return, vertical tab, form feed -/
theorem whitespace_is : whitespace = [32, 9, 10, 13, 11, 12] := by
  decide +kernel

/-- the whitespace class of `trim` / `split` / `norm` / `isEmpty` (`str.isspace`): its ASCII part is
    `string.whitespace` plus the four separator controls; no other ASCII character is blank -/
theorem space_class_ascii : spaceCodes.filter (· < 128) = [9, 10, 11, 12, 13, 28, 29, 30, 31, 32] := by
  decide +kernel

theorem whitespace_sub_spaces : whitespace.all (fun c => spaceCodes.contains c) = true := by
  decide +kernel

/-- `escapeRegex` never escapes an ASCII letter, digit or `_`, and escapes every regex
    metacharacter `. ^ $ * + ? { } [ ] \ | ( )` -/
theorem escape_set :
    reSpecial.all (fun c => !isAlnum c && c != 95 && c < 128) = true ∧
    [46, 94, 36, 42, 43, 63, 123, 125, 91, 93, 92, 124, 40, 41].all (fun c => reSpecial.contains c) = true := by
  decide +kernel

/-- the case table is keyed by strictly increasing non-ASCII code points (a lookup is unambiguous and
    ASCII characters always take the built-in ASCII rule) -/
def increasing : List Nat → Bool
  | a :: b :: r => a < b && increasing (b :: r)
  | _ => true

theorem case_table_keys :
    increasing (caseTable.map (·.1)) = true ∧ caseTable.all (fun r => 128 ≤ r.1) = true := by
  decide +kernel

end Yaql.Props.C19Gen
