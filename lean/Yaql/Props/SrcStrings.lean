import Yaql.Gen.SrcStrings
import Yaql.Lemmas.PyPrelude
/-!
Equivalence of the definitions translated from the CURRENT source of `yaql/standard_library/strings.py`
(`Yaql.Gen.SrcStrings`, regenerated on every run by harness/py2lean.py) with the hand-written model
`Yaql.Strings` the theorems of `Props/C19*.lean` are about - for all inputs.
-/
namespace Yaql.Props.SrcStrings
open Yaql Yaql.Strings Yaql.Gen

theorem substring_src_eq (string : Str) (start length : Int) :
    SrcStrings.substring string start length = Strings.substring string start length := by
  simp [SrcStrings.substring, Strings.substring, Lemmas.PyPrelude.slice_some_some, Int.add_comm]

theorem index_of_src_eq (string sub : Str) (start : Int) :
    SrcStrings.index_of string sub start = Strings.indexOf string sub start := by
  simp [SrcStrings.index_of, Strings.indexOf, PyStr.find]

theorem index_of4_src_eq (string sub : Str) (start length : Int) :
    SrcStrings.index_of4 string sub start length = Strings.indexOf4 string sub start length := by
  simp [SrcStrings.index_of4, Strings.indexOf4, PyStr.find, Int.add_comm]

theorem last_index_of_src_eq (string sub : Str) (start : Int) :
    SrcStrings.last_index_of string sub start = Strings.lastIndexOf string sub start := by
  simp [SrcStrings.last_index_of, Strings.lastIndexOf, PyStr.rfind]

theorem last_index_of4_src_eq (string sub : Str) (start length : Int) :
    SrcStrings.last_index_of4 string sub start length = Strings.lastIndexOf4 string sub start length := by
  simp [SrcStrings.last_index_of4, Strings.lastIndexOf4, PyStr.rfind, Int.add_comm]

theorem trim_src_eq (cfg : Cfg) (string : Str) (chars : Option Str) :
    SrcStrings.trim cfg string chars = Strings.trim cfg string chars := by
  simp [SrcStrings.trim, Strings.trim, PyStr.strip]

theorem trim_left_src_eq (cfg : Cfg) (string : Str) (chars : Option Str) :
    SrcStrings.trim_left cfg string chars = Strings.trimLeft cfg string chars := by
  simp [SrcStrings.trim_left, Strings.trimLeft, PyStr.lstrip]

theorem trim_right_src_eq (cfg : Cfg) (string : Str) (chars : Option Str) :
    SrcStrings.trim_right cfg string chars = Strings.trimRight cfg string chars := by
  simp [SrcStrings.trim_right, Strings.trimRight, PyStr.rstrip]

theorem norm_src_eq (cfg : Cfg) (string : Option Str) (chars : Option Str) :
    SrcStrings.norm cfg string chars = Strings.norm cfg string chars := by
  cases string <;> simp [SrcStrings.norm, Strings.norm, PyStr.strip]

theorem is_empty_src_eq (cfg : Cfg) (string : Option Str) (trim_spaces : Bool) (chars : Option Str) :
    SrcStrings.is_empty cfg string trim_spaces chars = Strings.isEmpty cfg string trim_spaces chars := by
  cases string <;> cases trim_spaces <;>
    simp [SrcStrings.is_empty, Strings.isEmpty, PyStr.strip, Lemmas.PyPrelude.decide_eq_nil]

theorem replace_src_eq (string old new : Str) (count : Int) :
    SrcStrings.replace string old new count
      = if Py.ssizeOk count then .ok (Strings.replace string old new count) else .error .overflowError := by
  simp only [SrcStrings.replace, Strings.replace, PyStr.replace]

theorem replace_with_dict_src_eq (string : Str) (replacements : List (Atom × Atom)) (count : Int) :
    SrcStrings.replace_with_dict string strOf replacements count
      = if Py.ssizeOk count || replacements.isEmpty then .ok (Strings.replaceDict string replacements count)
        else .error .overflowError := by
  unfold SrcStrings.replace_with_dict Strings.replaceDict
  by_cases h : Py.ssizeOk count = true
  · simp only [h, Bool.true_or, if_true, PyStr.replace]
    rw [Lemmas.PyPrelude.forLoop_next_eq_foldl]
  · cases replacements with
    | nil => simp [Py.forLoop]
    | cons kv rest => simp [Py.forLoop, PyStr.replace, h]

theorem join_src_eq (sequence : List Atom) (separator : Str) :
    SrcStrings.join sequence separator strOf = Strings.joinAtoms sequence separator := by
  simp [SrcStrings.join, Strings.joinAtoms, PyStr.join]

theorem join2_src_eq (separator : Str) (sequence : List Atom) :
    SrcStrings.join2 separator sequence strOf = Strings.joinAtoms sequence separator := by
  simp [SrcStrings.join2, join_src_eq]

theorem split_src_eq (cfg : Cfg) (string : Str) (separator : Option Str) (max_splits : Int) :
    SrcStrings.split cfg string separator max_splits
      = if Py.ssizeOk max_splits then PyStr.liftErr (Strings.split cfg string separator max_splits)
        else .error .overflowError := by
  simp only [SrcStrings.split, Strings.split, PyStr.split]
  cases Py.ssizeOk max_splits
  · rfl
  · rcases separator with _ | _ | ⟨c, r⟩ <;> rfl

theorem right_split_src_eq (cfg : Cfg) (string : Str) (separator : Option Str) (max_splits : Int) :
    SrcStrings.right_split cfg string separator max_splits
      = if Py.ssizeOk max_splits then PyStr.liftErr (Strings.rightSplit cfg string separator max_splits)
        else .error .overflowError := by
  simp only [SrcStrings.right_split, Strings.rightSplit, PyStr.rsplit]
  cases Py.ssizeOk max_splits
  · rfl
  · rcases separator with _ | _ | ⟨c, r⟩ <;> rfl

theorem in_src_eq (left right : Str) : SrcStrings.in_ left right = Strings.isIn left right := by
  simp [SrcStrings.in_, Strings.isIn, PyStr.contains]

theorem starts_with_src_eq (string : Str) (prefixes : List Str) :
    SrcStrings.starts_with string prefixes = Strings.startsWith string prefixes := by
  simp [SrcStrings.starts_with, Strings.startsWith, PyStr.startswith]

theorem ends_with_src_eq (string : Str) (suffixes : List Str) :
    SrcStrings.ends_with string suffixes = Strings.endsWith string suffixes := by
  simp [SrcStrings.ends_with, Strings.endsWith, PyStr.endswith]

/-- `''.join(args)` is concatenation -/
theorem join_nil_eq_flatten (args : List Str) : Strings.join [] args = args.flatten := by
  induction args with
  | nil => rfl
  | cons p r ih =>
    cases r with
    | nil => simp [Strings.join]
    | cons q r' => simp [Strings.join, ih]

theorem concat_src_eq (args : List Str) : SrcStrings.concat args = Strings.concat args := by
  simp [SrcStrings.concat, Strings.concat, PyStr.join, join_nil_eq_flatten]

theorem len_src_eq (string : Str) : SrcStrings.len_ string = Strings.len string := by
  simp [SrcStrings.len_, Strings.len]

theorem to_char_array_src_eq (string : Str) :
    SrcStrings.to_char_array string = Strings.toCharArray string := by
  simp [SrcStrings.to_char_array, Strings.toCharArray]

theorem str_src_eq (value : Atom) : SrcStrings.str_ value = Strings.strOf value := by
  rcases value with _ | b | i | s
  · simp [SrcStrings.str_, Strings.strOf, PyStr.atomIsNone]
  · cases b <;> simp [SrcStrings.str_, Strings.strOf, PyStr.atomIsNone, PyStr.atomIsTrue, PyStr.atomIsFalse]
  · simp [SrcStrings.str_, Strings.strOf, PyStr.atomIsNone, PyStr.atomIsTrue, PyStr.atomIsFalse, PyStr.pyStr]
  · simp [SrcStrings.str_, Strings.strOf, PyStr.atomIsNone, PyStr.atomIsTrue, PyStr.atomIsFalse, PyStr.pyStr]

end Yaql.Props.SrcStrings
