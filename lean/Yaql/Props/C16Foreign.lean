import Yaql.Props.C16
/-!
C16 - texts that ANOTHER literal syntax (JSON, Python) reads differently are read by yaql's own rules.

General facts (every configuration) and kernel-checked instances on the ASCII configuration with the default operator
table: `NaN` / `Infinity` / `None` / `True` are keywords that denote their own text, an exponent does not continue a
number (`1e5` is a lexical error at its first digit), neither do `_`, a radix letter or a suffix, `\/` is
no escape (the backslash stays), a JSON `😀` pair is outside the model (two surrogate code points, reported
as such), a leading `+` / `-` is an operator token of its own.
-/
namespace Yaql.Props.C16Foreign
open Yaql.Lexer Yaql.Syntax Yaql.Props.C16

/-- `/` starts no escape: `\/` is kept as two characters by the decoder, in every configuration, at every offset,
whatever follows -/
theorem slash_is_no_escape (cfg : LexCfg) (b off : Nat) (rest : List Char) :
    decodeGo cfg b 0 off ('\\' :: '/' :: rest) = consOk '\\' (consOk '/' (decodeGo cfg b 0 (off + 2) rest)) :=
  (unknown_escape_kept cfg b off).1 '/' rest (by decide)

/-- a word that is a number or constant in another syntax is, unless the table makes it an operator, the keyword
constant of its own text (instance of `C16.keywords`) -/
theorem foreign_word_is_keyword (cfg : LexCfg) {c : Char} {r : List Char} (h : IdentShaped cfg.chars c r)
    (hd : startsDunder (c :: r) = false) (hop : c :: r ∉ cfg.opWords)
    (h1 : c :: r ≠ kwTrue) (h2 : c :: r ≠ kwFalse) (h3 : c :: r ≠ kwNull) :
    lexAll cfg (c :: r) = .ok [⟨.keyword, .text (c :: r), 0⟩] :=
  (((keywords cfg h).1 hd).2 hop).2.2.2 h1 h2 h3

/-! ### instances, checked by the kernel -/

example : lexAll asciiCfg ['N', 'a', 'N'] = .ok [⟨.keyword, .text ['N', 'a', 'N'], 0⟩] := by decide +kernel
example : lexAll asciiCfg ['I', 'n', 'f', 'i', 'n', 'i', 't', 'y'] =
    .ok [⟨.keyword, .text ['I', 'n', 'f', 'i', 'n', 'i', 't', 'y'], 0⟩] := by decide +kernel
example : lexAll asciiCfg ['N', 'o', 'n', 'e'] = .ok [⟨.keyword, .text ['N', 'o', 'n', 'e'], 0⟩] := by decide +kernel
example : lexAll asciiCfg ['T', 'r', 'u', 'e'] = .ok [⟨.keyword, .text ['T', 'r', 'u', 'e'], 0⟩] := by decide +kernel
example : lexAll asciiCfg ['t', 'r', 'u', 'e'] = .ok [⟨.true_, .none, 0⟩] := by decide +kernel

/-- `1e5`, `1E5`: digits that run into a letter are no number (`\\b` behind the digits), and no other rule starts at a
digit: a lexical error at the first digit (`1.5e3`: `1` and `.` are read, the error is at `5`) -/
theorem exponent_is_no_number :
    lexAll asciiCfg ['1', 'e', '5'] = .error (.lexical ['1'] 0) ∧
    lexAll asciiCfg ['1', 'E', '5'] = .error (.lexical ['1'] 0) ∧
    lexAll asciiCfg ['1', '.', '5', 'e', '3'] = .error (.lexical ['5'] 2) := by
  decide +kernel

/-- `0x10`, `1_000`, `1L`: the same -/
theorem radix_separator_suffix_are_no_number :
    lexAll asciiCfg ['0', 'x', '1', '0'] = .error (.lexical ['0'] 0) ∧
    lexAll asciiCfg ['1', '_', '0', '0', '0'] = .error (.lexical ['1'] 0) ∧
    lexAll asciiCfg ['1', 'L'] = .error (.lexical ['1'] 0) := by
  decide +kernel

/-- `"a\/b"` keeps its backslash (JSON drops it) -/
theorem json_slash_escape_kept :
    lexAll asciiCfg ['"', 'a', '\\', '/', 'b', '"'] = .ok [strTok ['a', '\\', '/', 'b']] := by decide +kernel

/-- `-Infinity`, `+1`: the sign is an operator token, not part of a literal -/
theorem sign_is_an_operator :
    lexAll asciiCfg ['-', 'I', 'n', 'f'] = .ok [⟨.op ['-'], .text ['-'], 0⟩, ⟨.keyword, .text ['I', 'n', 'f'], 1⟩] ∧
    lexAll asciiCfg ['+', '1'] = .ok [⟨.op ['+'], .text ['+'], 0⟩, ⟨.number, .int 1, 1⟩] := by decide +kernel

end Yaql.Props.C16Foreign
