import Yaql.Model.Sched
/-!
C18 - concurrent evaluations do not interfere: the generic part.

Everything here is about an arbitrary `Sched.Machine`: any shared component, any private states,
any number of threads, any program assignment (the program is part of the private state) and ANY
schedule (a list of thread indices of any length).  The instances for yaql's stateful objects are
in `Props/C18Objs.lean`, the table of every shared write in the live code in `Props/C18Gen.lean`.
-/
namespace Yaql.Props.C18
open Yaql.Sched

variable {S P R : Type}

/-! ## plumbing -/

theorem run_cons (m : Machine S P R) (sys : Sys S P R) (j : Nat) (rest : List Nat) :
    run m sys (j :: rest) = run m (step m sys j) rest := rfl

theorem run_append (m : Machine S P R) (sys : Sys S P R) (a b : List Nat) :
    run m sys (a ++ b) = run m (run m sys a) b := by
  simp [run, List.foldl_append]

/-- a step of thread `j` leaves every other thread's record untouched -/
theorem step_other (m : Machine S P R) (sys : Sys S P R) (i j : Nat) (h : i ≠ j) :
    (step m sys j).threads[i]? = sys.threads[i]? := by
  unfold step
  cases hj : sys.threads[j]? with
  | none => rfl
  | some t => simp [List.getElem?_set_ne (Ne.symm h)]

theorem step_self (m : Machine S P R) (sys : Sys S P R) (j : Nat) (t : Thread P R)
    (ht : sys.threads[j]? = some t) :
    (step m sys j).shared = (stepThread m sys.shared t).1 ∧
    (step m sys j).threads[j]? = some (stepThread m sys.shared t).2 := by
  have hlt : j < sys.threads.length := (List.getElem?_eq_some_iff.mp ht).1
  unfold step
  simp only [ht]
  constructor <;> simp [hlt]

theorem step_none (m : Machine S P R) (sys : Sys S P R) (j : Nat) (h : sys.threads[j]? = none) :
    step m sys j = sys := by
  unfold step
  simp [h]

theorem soloIter_succ (m : Machine S P R) (n : Nat) (x : S × Thread P R) :
    soloIter m (n + 1) x = soloIter m n (stepThread m x.1 x.2) := rfl

theorem stepThread_done (m : Machine S P R) (s : S) (r : R) :
    stepThread m s (.done r) = (s, .done r) := rfl

theorem stepThread_inl (m : Machine S P R) (s s' : S) (p p' : P) (h : m.step s p = .inl (s', p')) :
    stepThread m s (.running p) = (s', .running p') := by
  simp [stepThread, h]

theorem stepThread_inr (m : Machine S P R) (s : S) (p : P) (r : R) (h : m.step s p = .inr r) :
    stepThread m s (.running p) = (s, .done r) := by
  simp [stepThread, h]

/-- once a thread has finished, further steps change nothing -/
theorem done_absorbing (m : Machine S P R) (s : S) (r : R) :
    ∀ n, soloIter m n (s, .done r) = (s, .done r)
  | 0 => rfl
  | n + 1 => by rw [soloIter_succ]; exact done_absorbing m s r n

theorem soloIter_add (m : Machine S P R) :
    ∀ (a b : Nat) (x : S × Thread P R), soloIter m (a + b) x = soloIter m b (soloIter m a x)
  | 0, b, x => by simp [soloIter]
  | a + 1, b, x => by
      have : a + 1 + b = (a + b) + 1 := by omega
      rw [this, soloIter_succ, soloIter_succ, soloIter_add m a b]

/-- a thread has at most one solo result: the machine is deterministic -/
theorem soloResult_unique (m : Machine S P R) (s : S) (t : Thread P R) (r r' : R)
    (h : SoloResult m s t r) (h' : SoloResult m s t r') : r = r' := by
  obtain ⟨n, hn⟩ := h
  obtain ⟨n', hn'⟩ := h'
  -- run both to n + n' steps: each stays at its own result
  have key : ∀ (a b : Nat) (q : R), (soloIter m a (s, t)).2 = .done q →
      (soloIter m (a + b) (s, t)).2 = .done q := by
    intro a b q hq
    rw [soloIter_add]
    generalize soloIter m a (s, t) = x at hq
    obtain ⟨s1, t1⟩ := x
    simp only at hq
    subst hq
    rw [done_absorbing]
  have h1 := key n n' r hn
  have h2 := key n' n r' hn'
  rw [Nat.add_comm n' n, h1] at h2
  exact Thread.done.inj h2

/-! ## isolation: steps that leave the shared component alone -/

/-- every step of every thread reads the shared component at most: it returns it unchanged.
    (That a step touches no OTHER thread's private state is built into `Machine.step`'s type.)
    `PInv` restricts the claim to the private states a well-formed program can be in. -/
def ReadOnly (m : Machine S P R) (PInv : P → Prop) : Prop :=
  ∀ s p s' p', PInv p → m.step s p = .inl (s', p') → s' = s ∧ PInv p'

def TInv (PInv : P → Prop) : Thread P R → Prop
  | .running p => PInv p
  | .done _ => True

theorem stepThread_readOnly (m : Machine S P R) (PInv : P → Prop) (h : ReadOnly m PInv) (s : S)
    (t : Thread P R) (ht : TInv PInv t) :
    (stepThread m s t).1 = s ∧ TInv PInv (stepThread m s t).2 := by
  cases t with
  | done r => exact ⟨rfl, trivial⟩
  | running p =>
      cases hs : m.step s p with
      | inl sp =>
          obtain ⟨s', p'⟩ := sp
          have := h s p s' p' ht hs
          rw [stepThread_inl m s s' p p' hs]
          exact ⟨this.1, this.2⟩
      | inr r =>
          rw [stepThread_inr m s p r hs]
          exact ⟨rfl, trivial⟩

theorem soloIter_readOnly (m : Machine S P R) (PInv : P → Prop) (h : ReadOnly m PInv) (s : S) :
    ∀ (n : Nat) (t : Thread P R), TInv PInv t →
      (soloIter m n (s, t)).1 = s ∧ TInv PInv (soloIter m n (s, t)).2
  | 0, t, ht => ⟨rfl, ht⟩
  | n + 1, t, ht => by
      rw [soloIter_succ]
      have h1 := stepThread_readOnly m PInv h s t ht
      have : stepThread m (s, t).1 (s, t).2 = (s, (stepThread m s t).2) := by
        apply Prod.ext
        · exact h1.1
        · rfl
      rw [this]
      exact soloIter_readOnly m PInv h s n _ h1.2

/-- solo iteration one more step at the END (needed to peel a schedule from the front) -/
theorem soloIter_succ' (m : Machine S P R) (n : Nat) (x : S × Thread P R) :
    soloIter m (n + 1) x = (fun y => stepThread m y.1 y.2) (soloIter m n x) := by
  have := soloIter_add m n 1 x
  simpa [soloIter] using this

/-- **isolation, exact form.**  If every step leaves the shared component unchanged, then for
    every number of threads, every program assignment and EVERY schedule: the shared component is
    what it was, and each thread is exactly where it is after the same number of its own steps
    run alone. -/
theorem isolation_exact (m : Machine S P R) (PInv : P → Prop) (h : ReadOnly m PInv) :
    ∀ (sched : List Nat) (sys : Sys S P R), (∀ t ∈ sys.threads, TInv PInv t) →
      (run m sys sched).shared = sys.shared ∧
      (∀ t ∈ (run m sys sched).threads, TInv PInv t) ∧
      ∀ i, (run m sys sched).threads[i]? =
        (sys.threads[i]?).map fun t => (soloIter m (sched.count i) (sys.shared, t)).2
  | [], sys, hinv => ⟨rfl, hinv, fun i => by simp [run, soloIter]⟩
  | j :: rest, sys, hinv => by
      rw [run_cons]
      cases hj : sys.threads[j]? with
      | none =>
          rw [step_none m sys j hj]
          obtain ⟨ih1, ih2, ih3⟩ := isolation_exact m PInv h rest sys hinv
          refine ⟨ih1, ih2, fun i => ?_⟩
          rw [ih3 i]
          by_cases hij : j = i
          · subst hij; simp [hj]
          · simp [List.count_cons, hij]
      | some t =>
          have htinv : TInv PInv t := hinv t (List.mem_of_getElem? hj)
          obtain ⟨hs1, hs2⟩ := step_self m sys j t hj
          obtain ⟨hro1, hro2⟩ := stepThread_readOnly m PInv h sys.shared t htinv
          have hshared : (step m sys j).shared = sys.shared := by rw [hs1, hro1]
          have hinv' : ∀ t' ∈ (step m sys j).threads, TInv PInv t' := by
            intro t' ht'
            obtain ⟨i, hi⟩ := List.getElem?_of_mem ht'
            by_cases hij : i = j
            · subst hij
              rw [hs2] at hi
              cases hi
              exact hro2
            · rw [step_other m sys i j hij] at hi
              exact hinv t' (List.mem_of_getElem? hi)
          obtain ⟨ih1, ih2, ih3⟩ := isolation_exact m PInv h rest (step m sys j) hinv'
          refine ⟨by rw [ih1, hshared], ih2, fun i => ?_⟩
          rw [ih3 i, hshared]
          by_cases hij : j = i
          · subst hij
            simp only [List.count_cons_self, hs2, hj, Option.map_some]
            rw [soloIter_succ]
            simp only
            have : stepThread m sys.shared t = (sys.shared, (stepThread m sys.shared t).2) := by
              apply Prod.ext
              · exact hro1
              · rfl
            rw [this]
          · have hne : i ≠ j := fun e => hij e.symm
            rw [step_other m sys i j hne]
            simp [List.count_cons, hij]

/-- **C18.isolation.**  If every step of every thread leaves the shared component unchanged
    (reads allowed) - and, by the type of `step`, touches only its own private state - then for
    every number of threads, every program assignment and EVERY complete schedule each thread's
    result is its solo result and the shared component is unchanged at the end. -/
theorem isolation (m : Machine S P R) (PInv : P → Prop) (h : ReadOnly m PInv)
    (sys : Sys S P R) (hinv : ∀ t ∈ sys.threads, TInv PInv t) (sched : List Nat) :
    (run m sys sched).shared = sys.shared ∧
    ∀ (i : Nat) (r : R), (run m sys sched).threads[i]? = some (Thread.done r) →
      ∃ t, sys.threads[i]? = some t ∧ SoloResult m sys.shared t r ∧
        ∀ r', SoloResult m sys.shared t r' → r' = r := by
  obtain ⟨h1, _, h3⟩ := isolation_exact m PInv h sched sys hinv
  refine ⟨h1, fun i r hi => ?_⟩
  rw [h3 i] at hi
  cases ht : sys.threads[i]? with
  | none => simp [ht] at hi
  | some t =>
      simp only [ht, Option.map_some, Option.some.injEq] at hi
      have hsolo : SoloResult m sys.shared t r := ⟨_, hi⟩
      exact ⟨t, rfl, hsolo, fun r' hr' => soloResult_unique m _ _ _ _ hr' hsolo⟩

/-! ## shared writes that respect an invariant under which solo results do not depend on the
shared component -/

/-- every step keeps the invariant of the shared component (and of the private state) -/
def Preserves (m : Machine S P R) (Inv : S → Prop) (PInv : P → Prop) : Prop :=
  ∀ s p s' p', Inv s → PInv p → m.step s p = .inl (s', p') → Inv s' ∧ PInv p'

/-- a purely SEQUENTIAL fact: whichever invariant-satisfying shared component a thread starts
    from, alone it returns the same result -/
def Oblivious (m : Machine S P R) (Inv : S → Prop) (PInv : P → Prop) : Prop :=
  ∀ s s' p r, Inv s → Inv s' → PInv p →
    SoloResult m s (.running p) r → SoloResult m s' (.running p) r

theorem stepThread_preserves (m : Machine S P R) (Inv : S → Prop) (PInv : P → Prop)
    (hp : Preserves m Inv PInv) (s : S) (t : Thread P R) (hs : Inv s) (ht : TInv PInv t) :
    Inv (stepThread m s t).1 ∧ TInv PInv (stepThread m s t).2 := by
  cases t with
  | done r => exact ⟨hs, trivial⟩
  | running p =>
      cases hst : m.step s p with
      | inl sp =>
          obtain ⟨s', p'⟩ := sp
          rw [stepThread_inl m s s' p p' hst]
          exact hp s p s' p' hs ht hst
      | inr r =>
          rw [stepThread_inr m s p r hst]
          exact ⟨hs, trivial⟩

theorem soloResult_of_step (m : Machine S P R) (s : S) (t : Thread P R) (r : R)
    (h : SoloResult m (stepThread m s t).1 (stepThread m s t).2 r) : SoloResult m s t r := by
  obtain ⟨n, hn⟩ := h
  exact ⟨n + 1, by rw [soloIter_succ]; exact hn⟩

theorem oblivious_thread (m : Machine S P R) (Inv : S → Prop) (PInv : P → Prop)
    (ho : Oblivious m Inv PInv) (s s' : S) (t : Thread P R) (r : R) (hs : Inv s) (hs' : Inv s')
    (ht : TInv PInv t) (h : SoloResult m s t r) : SoloResult m s' t r := by
  cases t with
  | running p => exact ho s s' p r hs hs' ht h
  | done q =>
      obtain ⟨n, hn⟩ := h
      rw [done_absorbing] at hn
      exact ⟨0, hn⟩

/-- **the interleaving theorem.**  If every step keeps an invariant of the shared component and,
    sequentially, a thread's result does not depend on which invariant-satisfying shared component
    it starts from, then under EVERY schedule of any number of threads: the invariant holds at the
    end, and whatever a thread would still return if left alone from the current state is what it
    returns alone from the initial state. -/
theorem interleaving (m : Machine S P R) (Inv : S → Prop) (PInv : P → Prop)
    (hp : Preserves m Inv PInv) (ho : Oblivious m Inv PInv) :
    ∀ (sched : List Nat) (sys : Sys S P R), Inv sys.shared → (∀ t ∈ sys.threads, TInv PInv t) →
      Inv (run m sys sched).shared ∧
      ∀ (i : Nat) (t' : Thread P R), (run m sys sched).threads[i]? = some t' →
        ∃ t, sys.threads[i]? = some t ∧
          ∀ r, SoloResult m (run m sys sched).shared t' r → SoloResult m sys.shared t r
  | [], sys, hs, _ => ⟨hs, fun i t' hi => ⟨t', hi, fun r hr => hr⟩⟩
  | j :: rest, sys, hs, hinv => by
      rw [run_cons]
      cases hj : sys.threads[j]? with
      | none =>
          rw [step_none m sys j hj]
          exact interleaving m Inv PInv hp ho rest sys hs hinv
      | some tj =>
          have htj : TInv PInv tj := hinv tj (List.mem_of_getElem? hj)
          obtain ⟨hs1, hs2⟩ := step_self m sys j tj hj
          obtain ⟨hpr1, hpr2⟩ := stepThread_preserves m Inv PInv hp sys.shared tj hs htj
          have hs' : Inv (step m sys j).shared := by rw [hs1]; exact hpr1
          have hinv' : ∀ t' ∈ (step m sys j).threads, TInv PInv t' := by
            intro t' ht'
            obtain ⟨i, hi⟩ := List.getElem?_of_mem ht'
            by_cases hij : i = j
            · subst hij
              rw [hs2] at hi
              cases hi
              exact hpr2
            · rw [step_other m sys i j hij] at hi
              exact hinv t' (List.mem_of_getElem? hi)
          obtain ⟨ih1, ih2⟩ := interleaving m Inv PInv hp ho rest (step m sys j) hs' hinv'
          refine ⟨ih1, fun i t' hi => ?_⟩
          obtain ⟨t1, ht1, hres⟩ := ih2 i t' hi
          by_cases hij : i = j
          · subst hij
            rw [hs2] at ht1
            cases ht1
            refine ⟨tj, hj, fun r hr => ?_⟩
            have := hres r hr
            rw [hs1] at this
            exact soloResult_of_step m sys.shared tj r this
          · rw [step_other m sys i j hij] at ht1
            refine ⟨t1, ht1, fun r hr => ?_⟩
            have h1 := hres r hr
            have ht1inv : TInv PInv t1 := hinv t1 (List.mem_of_getElem? ht1)
            exact oblivious_thread m Inv PInv ho _ _ t1 r hs' hs ht1inv h1

/-- corollary for finished threads: the result of every thread that has finished - under any
    schedule - is its solo result from the initial shared component, and no other -/
theorem interleaving_results (m : Machine S P R) (Inv : S → Prop) (PInv : P → Prop)
    (hp : Preserves m Inv PInv) (ho : Oblivious m Inv PInv) (sys : Sys S P R)
    (hs : Inv sys.shared) (hinv : ∀ t ∈ sys.threads, TInv PInv t) (sched : List Nat) :
    Inv (run m sys sched).shared ∧
    ∀ (i : Nat) (r : R), (run m sys sched).threads[i]? = some (Thread.done r) →
      ∃ t, sys.threads[i]? = some t ∧ SoloResult m sys.shared t r ∧
        ∀ r', SoloResult m sys.shared t r' → r' = r := by
  obtain ⟨h1, h2⟩ := interleaving m Inv PInv hp ho sched sys hs hinv
  refine ⟨h1, fun i r hi => ?_⟩
  obtain ⟨t, ht, hres⟩ := h2 i _ hi
  have hsolo := hres r ⟨0, rfl⟩
  exact ⟨t, ht, hsolo, fun r' hr' => soloResult_unique m _ _ _ _ hr' hsolo⟩

/-! ### a sufficient condition for `Oblivious`: a denotation and a measure -/

/-- If the private state has a denotation `den` (what the thread is going to return) that every
    step preserves and every final step returns, and a measure that every step decreases, then
    solo results do not depend on the shared component. -/
theorem oblivious_of_denotation (m : Machine S P R) (Inv : S → Prop) (PInv : P → Prop)
    (den : P → R) (μ : P → Nat)
    (hstep : ∀ s p s' p', Inv s → PInv p → m.step s p = .inl (s', p') →
      Inv s' ∧ PInv p' ∧ den p' = den p ∧ μ p' < μ p)
    (hdone : ∀ s p r, Inv s → PInv p → m.step s p = .inr r → r = den p) :
    Oblivious m Inv PInv := by
  -- (1) any solo result is the denotation
  have sound : ∀ (n : Nat) (s : S) (p : P) (r : R), Inv s → PInv p →
      (soloIter m n (s, .running p)).2 = .done r → r = den p := by
    intro n
    induction n with
    | zero => intro s p r _ _ h; simp [soloIter] at h
    | succ n ih =>
        intro s p r hs hpi h
        rw [soloIter_succ] at h
        simp only [stepThread] at h
        cases hst : m.step s p with
        | inl sp =>
            obtain ⟨s', p'⟩ := sp
            rw [hst] at h
            obtain ⟨a, b, c, _⟩ := hstep s p s' p' hs hpi hst
            rw [← c]
            exact ih s' p' r a b h
        | inr q =>
            rw [hst] at h
            simp only at h
            rw [done_absorbing] at h
            cases h
            exact hdone s p r hs hpi hst
  -- (2) from any invariant-satisfying shared component the thread terminates with its denotation
  have term : ∀ (k : Nat) (s : S) (p : P), μ p < k → Inv s → PInv p →
      ∃ n, (soloIter m n (s, .running p)).2 = .done (den p) := by
    intro k
    induction k with
    | zero => intro s p h; omega
    | succ k ih =>
        intro s p hk hs hpi
        cases hst : m.step s p with
        | inl sp =>
            obtain ⟨s', p'⟩ := sp
            obtain ⟨a, b, c, d⟩ := hstep s p s' p' hs hpi hst
            obtain ⟨n, hn⟩ := ih s' p' (by omega) a b
            refine ⟨n + 1, ?_⟩
            rw [soloIter_succ]
            simp only [stepThread, hst]
            rw [hn, c]
        | inr q =>
            refine ⟨1, ?_⟩
            rw [soloIter_succ]
            simp only [stepThread, hst, soloIter]
            rw [hdone s p q hs hpi hst]
  intro s s' p r hs hs' hpi ⟨n, hn⟩
  have hr := sound n s p r hs hpi hn
  subst hr
  exact term (μ p + 1) s' p (by omega) hs' hpi

/-! ### benign caches: shared writes confined to a memo table whose entries are a function of
their key -/

/-- a memo table as an association list; the newest entry for a key wins -/
abbrev Memo (K V : Type) := List (K × V)

/-- every entry is THE value of its key -/
def Memo.Sound {K V : Type} (f : K → V) (c : Memo K V) : Prop := ∀ kv ∈ c, kv.2 = f kv.1

/-- `c` is `c0` plus added entries, each of which is the value of its key -/
def Memo.GrownFrom {K V : Type} (f : K → V) (c0 c : Memo K V) : Prop :=
  ∃ added : Memo K V, c = added ++ c0 ∧ Memo.Sound f added

/-- the only shared writes are publications `(k, f k)` into the memo table: the rest of the shared
    component (`b0`) is never changed -/
def BenignWrites {B K V : Type} (m : Machine (B × Memo K V) P R) (f : K → V) (b0 : B)
    (PInv : P → Prop) : Prop :=
  ∀ c p s' p', Memo.Sound f c → PInv p → m.step (b0, c) p = .inl (s', p') →
    s'.1 = b0 ∧ PInv p' ∧ (s'.2 = c ∨ ∃ k, s'.2 = (k, f k) :: c)

/-- **C18.isolation_benign_cache.**  When the shared writes of all threads are confined to a memo
    table whose entries are a function of their key (idempotent publication: the completed
    `FrozenDict` hash, the `yaql.eval` expression cache and default context), and sequentially a
    thread's result does not depend on which sound table it starts from, then for every number of
    threads, every program assignment and EVERY schedule: every finished thread returned exactly
    its solo result, the rest of the shared component is unchanged, and the table has only grown
    by entries that equal what any thread would compute. -/
theorem isolation_benign_cache {B K V : Type} (m : Machine (B × Memo K V) P R) (f : K → V) (b0 : B)
    (c0 : Memo K V) (PInv : P → Prop) (hc0 : Memo.Sound f c0)
    (hw : BenignWrites m f b0 PInv)
    (ho : Oblivious m (fun s => s.1 = b0 ∧ Memo.Sound f s.2) PInv)
    (threads : List (Thread P R)) (hinv : ∀ t ∈ threads, TInv PInv t) (sched : List Nat) :
    (run m ⟨(b0, c0), threads⟩ sched).shared.1 = b0 ∧
    Memo.GrownFrom f c0 (run m ⟨(b0, c0), threads⟩ sched).shared.2 ∧
    ∀ (i : Nat) (r : R), (run m ⟨(b0, c0), threads⟩ sched).threads[i]? = some (Thread.done r) →
      ∃ t, threads[i]? = some t ∧ SoloResult m (b0, c0) t r ∧
        ∀ r', SoloResult m (b0, c0) t r' → r' = r := by
  -- the invariant carried along the schedule: base unchanged, table grown soundly from c0
  let Inv : B × Memo K V → Prop := fun s => s.1 = b0 ∧ Memo.GrownFrom f c0 s.2
  have grown_sound : ∀ c, Memo.GrownFrom f c0 c → Memo.Sound f c := by
    intro c ⟨added, hc, hadd⟩ kv hkv
    rw [hc] at hkv
    rcases List.mem_append.mp hkv with h | h
    · exact hadd kv h
    · exact hc0 kv h
  have hp : Preserves m Inv PInv := by
    intro s p s' p' hs hpi hst
    obtain ⟨b, c⟩ := s
    obtain ⟨hb, hg⟩ := hs
    simp only at hb hg
    subst hb
    obtain ⟨h1, h2, h3⟩ := hw c p s' p' (grown_sound c hg) hpi hst
    refine ⟨⟨h1, ?_⟩, h2⟩
    rcases h3 with h3 | ⟨k, h3⟩
    · show Memo.GrownFrom f c0 s'.2
      rw [h3]; exact hg
    · obtain ⟨added, hc, hadd⟩ := hg
      refine ⟨(k, f k) :: added, by rw [h3, hc]; rfl, ?_⟩
      intro kv hkv
      rcases List.mem_cons.mp hkv with h | h
      · rw [h]
      · exact hadd kv h
  have ho' : Oblivious m Inv PInv := by
    intro s s' p r hs hs' hpi h
    exact ho s s' p r ⟨hs.1, grown_sound _ hs.2⟩ ⟨hs'.1, grown_sound _ hs'.2⟩ hpi h
  have h0 : Inv (b0, c0) := ⟨rfl, [], rfl, fun _ h => absurd h List.not_mem_nil⟩
  obtain ⟨h1, h2⟩ := interleaving_results m Inv PInv hp ho' ⟨(b0, c0), threads⟩ h0 hinv sched
  exact ⟨h1.1, h1.2, h2⟩

/-! ## evaluation writes only its own contexts (to be instantiated with `Model/Eval.lean`) -/

/-- An abstract evaluator over a context store: a store is a list of cells (cell id = index, as in
    `Model/Context.lean`), `step σ e` is one dispatch / iterator step of an evaluation whose control
    state is `e`. -/
structure AbsEval (Cell E R : Type) where
  step : List Cell → E → (List Cell × E) ⊕ R

/-- **the frame hypothesis** (what `C04.frame` states for `Model/Eval.lean`): a step of an evaluation
    running over a store whose first `shared.length` cells are the prepared (pre-existing) contexts
    never writes one of them - it only rewrites and appends cells of its own, behind them. -/
def Frame {Cell E R : Type} (ev : AbsEval Cell E R) : Prop :=
  ∀ (shared own : List Cell) (e : E) (σ' : List Cell) (e' : E),
    ev.step (shared ++ own) e = .inl (σ', e') → ∃ own', σ' = shared ++ own'

/-- the `Sched` machine of an abstract evaluator: shared = the prepared cells, private = the cells
    the evaluation created plus its control state -/
def evalMachine {Cell E R : Type} (ev : AbsEval Cell E R) : Machine (List Cell) (List Cell × E) R where
  step := fun shared p =>
    match ev.step (shared ++ p.1) p.2 with
    | .inl (σ', e') => .inl (σ'.take shared.length, (σ'.drop shared.length, e'))
    | .inr r => .inr r

/-- **C18.eval_writes_private.**  Under the frame hypothesis every step of the evaluator's machine
    leaves the shared cells unchanged, and the machine loses nothing: the store the evaluator
    produced is exactly `shared ++ (the private cells afterwards)`. -/
theorem eval_writes_private {Cell E R : Type} (ev : AbsEval Cell E R) (hf : Frame ev) :
    ReadOnly (evalMachine ev) (fun _ => True) ∧
    ∀ shared own e σ' e', ev.step (shared ++ own) e = .inl (σ', e') →
      (evalMachine ev).step shared (own, e) = .inl (shared, (σ'.drop shared.length, e')) ∧
      σ' = shared ++ σ'.drop shared.length := by
  constructor
  · intro s p s' p' _ hst
    refine ⟨?_, trivial⟩
    simp only [evalMachine] at hst
    cases hev : ev.step (s ++ p.1) p.2 with
    | inl x =>
        obtain ⟨σ', e'⟩ := x
        rw [hev] at hst
        obtain ⟨own', hown⟩ := hf s p.1 p.2 σ' e' hev
        simp only [Sum.inl.injEq, Prod.mk.injEq] at hst
        rw [← hst.1, hown]
        simp
    | inr r => rw [hev] at hst; cases hst
  · intro shared own e σ' e' hev
    obtain ⟨own', hown⟩ := hf shared own e σ' e' hev
    subst hown
    simp [evalMachine, hev]

/-- **concurrent evaluations over one prepared context chain do not interfere** (consequence of
    `isolation` and `eval_writes_private`, for any evaluator satisfying the frame hypothesis). -/
theorem eval_isolated {Cell E R : Type} (ev : AbsEval Cell E R) (hf : Frame ev)
    (shared : List Cell) (threads : List (Thread (List Cell × E) R)) (sched : List Nat) :
    (run (evalMachine ev) ⟨shared, threads⟩ sched).shared = shared ∧
    ∀ (i : Nat) (r : R), (run (evalMachine ev) ⟨shared, threads⟩ sched).threads[i]? = some (Thread.done r) →
      ∃ t, threads[i]? = some t ∧ SoloResult (evalMachine ev) shared t r ∧
        ∀ r', SoloResult (evalMachine ev) shared t r' → r' = r :=
  isolation (evalMachine ev) (fun _ => True) (eval_writes_private ev hf).1 ⟨shared, threads⟩
    (fun t _ => by cases t <;> trivial) sched

/-! ### INSTANTIATION WITH `Yaql.Eval`

Done in `Props/C18Eval.lean` (it imports `Props/C04.lean`).  `Model/Eval.lean` turned out to be purely
functional - a context is an immutable chain of frames and `eval` returns a value, not a store - so there is
no cell store to instantiate `AbsEval` with.  `C18Eval` therefore makes the evaluator itself a `Sched` machine
(`refMachine`, one step = one statement in `child :: shared`), proves `refMachine_readOnly` and
`eval_model_isolated` from `isolation`, and uses `C04.frame` / `C04.frame_root` for the contexts a statement
can hand back (`eval_model_returns_framed`).  `eval_writes_private` above stays the statement for evaluators
over a mutable store (the shape of `contexts.py`), with `Frame` as its explicit hypothesis.
-/

/-- non-vacuity of the frame hypothesis: a toy evaluator that counts down, appending one cell of its
    own per step and reading cell 0 of the shared store at the end -/
def toyEval : AbsEval Nat Nat Nat where
  step := fun σ e =>
    match e with
    | 0 => .inr (σ.headD 0 + σ.length)
    | n + 1 => .inl (σ ++ [n], n)

example : Frame toyEval := by
  intro shared own e σ' e' h
  cases e with
  | zero => simp [toyEval] at h
  | succ n =>
      simp only [toyEval, Sum.inl.injEq, Prod.mk.injEq] at h
      exact ⟨own ++ [n], by rw [← h.1, List.append_assoc]⟩

example : (run (evalMachine toyEval) ⟨[7], [.running ([], 2), .running ([], 1)]⟩ [0, 1, 0, 1, 0]).threads
    = [.done 10, .done 9] := by decide

end Yaql.Props.C18
