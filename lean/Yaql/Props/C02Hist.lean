import Yaql.Model.EngineHist
/-!
C02, engine provenance crossed with factory history: **the operator table that decides the tree is the
one the factory had when `create()` made the engine** - for the engine itself and for every engine
derived from it by `copy(options)` / `engine(text, options=..)`, however the factory is edited later
and whenever the copy is made.
-/
namespace Yaql.Props.C02Hist
open Yaql.OpTable Yaql.EngineHist
open Yaql.Syntax (Token Cfg Ast PErr)

variable {Opt : Type}

/-- engines are only ever appended -/
theorem step_engines_prefix (merge : Opt → Opt → Opt) (w : World Opt) (op : HostOp Opt) :
    ∃ l, (step merge w op).engines = w.engines ++ l := by
  cases op with
  | insert a =>
      simp only [step]
      cases insertOperator w.ops a.existing a.existingBinary a.sym a.ty a.createGroup a.alias <;>
        exact ⟨[], by simp⟩
  | create o =>
      simp only [step]
      cases buildOperatorTable w.ops with
      | ok t => exact ⟨_, rfl⟩
      | error e => exact ⟨[], by simp⟩
  | copy i o =>
      simp only [step]
      cases w.engines[i]? with
      | some e => exact ⟨_, rfl⟩
      | none => exact ⟨[], by simp⟩

theorem exec_engines_prefix (merge : Opt → Opt → Opt) :
    ∀ (h : List (HostOp Opt)) (w : World Opt), ∃ l, (exec merge w h).engines = w.engines ++ l
  | [], w => ⟨[], by simp [exec]⟩
  | op :: rest, w => by
      obtain ⟨l1, h1⟩ := step_engines_prefix merge w op
      obtain ⟨l2, h2⟩ := exec_engines_prefix merge rest (step merge w op)
      refine ⟨l1 ++ l2, ?_⟩
      simp only [exec, List.foldl_cons] at h2 ⊢
      rw [h2, h1, List.append_assoc]

/-- **an existing engine is never touched**: whatever the host does afterwards - inserts, further
    `create()`s, copies - engine `i` is the same engine (same snapshot, same options) -/
theorem engine_stable (merge : Opt → Opt → Opt) (w : World Opt) (h : List (HostOp Opt)) (i : Nat)
    (e : Engine Opt) (he : w.engines[i]? = some e) : (exec merge w h).engines[i]? = some e := by
  obtain ⟨l, hl⟩ := exec_engines_prefix merge h w
  rw [hl]
  have hlt : i < w.engines.length := (List.getElem?_eq_some_iff.mp he).1
  rw [List.getElem?_append_left hlt, he]

theorem getElem?_snoc {α : Type} (l : List α) (x : α) (j : Nat) (e : α)
    (h : (l ++ [x])[j]? = some e) : l[j]? = some e ∨ (j = l.length ∧ e = x) := by
  by_cases hjl : j < l.length
  · rw [List.getElem?_append_left hjl] at h
    exact Or.inl h
  · have hge : l.length ≤ j := Nat.le_of_not_lt hjl
    rw [List.getElem?_append_right hge] at h
    cases hd : j - l.length with
    | zero =>
        rw [hd] at h
        simp only [List.getElem?_cons_zero, Option.some.injEq] at h
        exact Or.inr ⟨by omega, h.symm⟩
    | succ n => rw [hd] at h; simp at h

/-- invariant: engines whose `root` is `k` hold the operator list `S` and the delegate flag `D` -/
def RootInv (k : Nat) (S : OpList) (D : Bool) (w : World Opt) : Prop :=
  k < w.engines.length ∧ ∀ (j : Nat) (e : Engine Opt), w.engines[j]? = some e → e.root = k → e.snap = S ∧ e.delegates = D

theorem rootInv_step (merge : Opt → Opt → Opt) (k : Nat) (S : OpList) (D : Bool) (w : World Opt)
    (op : HostOp Opt) (h : RootInv k S D w) : RootInv k S D (step merge w op) := by
  obtain ⟨hk, hall⟩ := h
  cases op with
  | insert a =>
      simp only [step]
      cases insertOperator w.ops a.existing a.existingBinary a.sym a.ty a.createGroup a.alias <;>
        exact ⟨hk, hall⟩
  | create o =>
      simp only [step]
      cases buildOperatorTable w.ops with
      | error e => exact ⟨hk, hall⟩
      | ok t =>
          dsimp only
          refine ⟨by simp; omega, ?_⟩
          intro j e hj hr
          rcases getElem?_snoc _ _ j e hj with h1 | ⟨_, h2⟩
          · exact hall j e h1 hr
          · subst h2; simp only at hr; omega
  | copy i o =>
      simp only [step]
      cases hi : w.engines[i]? with
      | none => exact ⟨hk, hall⟩
      | some e0 =>
          dsimp only
          refine ⟨by simp; omega, ?_⟩
          intro j e hj hr
          rcases getElem?_snoc _ _ j e hj with h1 | ⟨_, h2⟩
          · exact hall j e h1 hr
          · subst h2; exact hall i e0 hi hr

theorem rootInv_exec (merge : Opt → Opt → Opt) (k : Nat) (S : OpList) (D : Bool) :
    ∀ (h : List (HostOp Opt)) (w : World Opt), RootInv k S D w → RootInv k S D (exec merge w h)
  | [], _, hw => hw
  | op :: rest, w, hw => by
      simp only [exec, List.foldl_cons]
      exact rootInv_exec merge k S D rest (step merge w op) (rootInv_step merge k S D w op hw)

/-- roots point at engines that exist (holds for the empty world and is kept by every host operation) -/
def RootsBelow (w : World Opt) : Prop := ∀ (j : Nat) (e : Engine Opt), w.engines[j]? = some e → e.root < w.engines.length

theorem rootsBelow_step (merge : Opt → Opt → Opt) (w : World Opt) (op : HostOp Opt)
    (h : RootsBelow w) : RootsBelow (step merge w op) := by
  unfold RootsBelow at h ⊢
  cases op with
  | insert a =>
      simp only [step]
      cases insertOperator w.ops a.existing a.existingBinary a.sym a.ty a.createGroup a.alias <;> exact h
  | create o =>
      simp only [step]
      cases buildOperatorTable w.ops with
      | error e => exact h
      | ok t =>
          dsimp only
          intro j e hj
          simp only [List.length_append, List.length_cons, List.length_nil]
          rcases getElem?_snoc _ _ j e hj with h1 | ⟨_, h2⟩
          · have := h j e h1; omega
          · subst h2; simp
  | copy i o =>
      simp only [step]
      cases hi : w.engines[i]? with
      | none => exact h
      | some e0 =>
          dsimp only
          intro j e hj
          simp only [List.length_append, List.length_cons, List.length_nil]
          rcases getElem?_snoc _ _ j e hj with h1 | ⟨_, h2⟩
          · have := h j e h1; omega
          · subst h2
            have := h i e0 hi
            simp only; omega

theorem rootsBelow_exec (merge : Opt → Opt → Opt) :
    ∀ (h : List (HostOp Opt)) (w : World Opt), RootsBelow w → RootsBelow (exec merge w h)
  | [], _, hw => hw
  | op :: rest, w, hw => by
      simp only [exec, List.foldl_cons]
      exact rootsBelow_exec merge rest (step merge w op) (rootsBelow_step merge w op hw)

/-- **snapshot at `create()`, kept by every copy.**  Let `create(o)` succeed in a world `w`.  Whatever the
    host does afterwards (`h`: any inserts into the same factory, further engines, copies made at any
    time, copies of copies), every engine that descends from the one created now holds the operator
    list and the delegate flag the factory had at that `create()`. -/
theorem snapshot_kept (merge : Opt → Opt → Opt) (w : World Opt) (o : Opt) (h : List (HostOp Opt))
    (hw : RootsBelow w) (t : Table) (hb : buildOperatorTable w.ops = .ok t)
    (j : Nat) (e : Engine Opt)
    (hj : (exec merge (step merge w (.create o)) h).engines[j]? = some e)
    (hr : e.root = w.engines.length) :
    e.snap = w.ops ∧ e.delegates = w.delegates := by
  have h0 : RootInv w.engines.length w.ops w.delegates (step merge w (.create o)) := by
    simp only [step, hb]
    refine ⟨by simp, ?_⟩
    intro j' e' hj' hr'
    rcases getElem?_snoc _ _ j' e' hj' with h1 | ⟨_, h2⟩
    · have := hw j' e' h1; omega
    · subst h2; exact ⟨rfl, rfl⟩
  exact (rootInv_exec merge _ _ _ h _ h0).2 j e hj hr

/-- **later inserts do not change the parse of an existing engine or of its copies**: every descendant of
    the engine created in `w` parses every token list by the table of `w.ops` - the result does not
    mention `h` at all. -/
theorem later_inserts_irrelevant (merge : Opt → Opt → Opt) (w : World Opt) (o : Opt)
    (h : List (HostOp Opt)) (hw : RootsBelow w) (t : Table) (hb : buildOperatorTable w.ops = .ok t)
    (j : Nat) (e : Engine Opt)
    (hj : (exec merge (step merge w (.create o)) h).engines[j]? = some e)
    (hr : e.root = w.engines.length) (toks : List Token) :
    e.parse toks = some (Yaql.Syntax.parse (Cfg.ofTable t w.delegates) toks) := by
  obtain ⟨hs, hd⟩ := snapshot_kept merge w o h hw t hb j e hj hr
  simp [Engine.parse, Engine.cfg, hs, hd, hb]

/-- a copy parses every token list like the engine it was copied from -/
theorem copy_parses_like_origin (merge : Opt → Opt → Opt) (w : World Opt) (i : Nat) (o : Opt)
    (e : Engine Opt) (he : w.engines[i]? = some e) :
    ∃ c, (step merge w (.copy i o)).engines[w.engines.length]? = some c ∧
      c.root = e.root ∧ ∀ toks, c.parse toks = e.parse toks := by
  refine ⟨{ e with options := merge e.options o }, ?_, rfl, fun _ => rfl⟩
  simp [step, he]

/-! ### non-vacuity: a real history, and the variant that regenerates at copy time -/

def minusMinus : InsertArgs :=
  ⟨some ['-'], true, ['-', '-'], .binaryLeft, false, none⟩

/-- `create()`, then `insert_operator('-', True, '--', BINARY_LEFT_ASSOCIATIVE, False)`, then a second
    `create()`, then a copy of the FIRST engine -/
def demo : List (HostOp Unit) := [.create (), .insert minusMinus, .create (), .copy 0 ()]

def w0 : World Unit := { ops := factoryOperators (some ['=', '>']), delegates := false }

/-- the copy (engine 2) holds the list of the first `create()`, not the edited one engine 1 holds -/
theorem demo_snapshots :
    ((exec (fun _ _ => ()) w0 demo).engines.map fun e => (e.root, decide (e.snap = w0.ops))) =
      [(0, true), (1, false), (0, true)] := by decide +kernel

/-- an implementation that regenerates the grammar when copying is told apart by the same history -/
theorem regenerating_copy_differs :
    ((demo.foldl (stepRegen (fun _ _ => ())) w0).engines.map fun e => (e.root, decide (e.snap = w0.ops))) =
      [(0, true), (1, false), (0, false)] := by decide +kernel

/-- hypotheses of `snapshot_kept` hold for the empty world of the standard factory -/
example : RootsBelow w0 := by
  unfold RootsBelow; intro j e hj; simp [w0] at hj
example : (match buildOperatorTable w0.ops with | .ok _ => true | .error _ => false) = true := by
  decide +kernel

end Yaql.Props.C02Hist
