import Yaql.Props.C05Hist
/-!
C06, registration order: the state of the contexts after a series of `register_function` calls - and
with it every later resolution - does not depend on the order of the calls.

`Context.register_function` adds the definition to the SET `_functions[name]` and, when called with
`exclusive=True`, the name to the SET `_exclusive_funcs`; both are modelled as duplicate-free
insertion-ordered lists (`Yaql.Context.register`).  A layer is exclusive for a name when ANY of the
registrations said so (`exclusive_any`); a later non-exclusive registration does not take the flag back.

* `register_perm_invariant` - registering a list of (context, name, definition, exclusive) requests in any
  order gives the same contexts and, cell by cell, the same variables, the same set of overloads and the
  same set of exclusive names (the lists are permutations of each other).
* `family_register_perm` - hence the family visible from any context (plain, multi, linked) is layer by layer a
  permutation with the same exclusive flags, and
* `resolve_register_perm_invariant` - every call from every context has the same outcome
  (`C06.perm_invariant`).
* `last_registration_wins_order_dependent` - the contrast: had the flag been a per-name value that every
  registration overwrites, the state would depend on the registration order.
-/
namespace Yaql.Props.C06Reg
open Yaql.Context Yaql.ResolveCtx
open Yaql.Props.C17 (layers layersO ownLayer ownLayerL cellLayer)
open Yaql.Props.C05Hist (famOf familyIn)

/-- one `ctxs[i].register_function(fd, exclusive=x)` with `fd.name = fname` -/
structure Reg where
  i : Nat
  fname : CName
  fid : Fid
  x : Bool

def Reg.op (r : Reg) : Op := .register r.i r.fname r.fid r.x

/-- the state after the registrations, made in the order of the list -/
def regAll (st : St) (rs : List Reg) : St := run st (rs.map Reg.op)

/-! ## a fold over a permuted list, up to a relation the steps respect and commute under -/

theorem foldl_perm_of_comm {σ α : Type} (R : σ → σ → Prop) (f : σ → α → σ)
    (hrefl : ∀ a, R a a) (htrans : ∀ a b c, R a b → R b c → R a c)
    (hcongr : ∀ a b x, R a b → R (f a x) (f b x))
    (hcomm : ∀ a x y, R (f (f a x) y) (f (f a y) x)) :
    ∀ {l l' : List α}, l.Perm l' → ∀ a b, R a b → R (l.foldl f a) (l'.foldl f b) := by
  have hfold : ∀ (l : List α) a b, R a b → R (l.foldl f a) (l.foldl f b) := by
    intro l
    induction l with
    | nil => intro a b h; exact h
    | cons x l ih => intro a b h; exact ih _ _ (hcongr a b x h)
  intro l l' h
  induction h with
  | nil => intro a b h; exact h
  | cons x _ ih => intro a b h; exact ih _ _ (hcongr a b x h)
  | swap x y l =>
      intro a b h
      simp only [List.foldl_cons]
      exact hfold l _ _ (htrans _ _ _ (hcomm a y x) (hcongr _ _ y (hcongr a b x h)))
  | trans _ _ ih1 ih2 => intro a b h; exact htrans _ _ _ (ih1 a a (hrefl a)) (ih2 a b h)

/-! ## set insertion -/

theorem contains_perm {α : Type} [BEq α] [LawfulBEq α] {l l' : List α} (h : l.Perm l') (x : α) :
    l.contains x = l'.contains x := by
  rw [Bool.eq_iff_iff]; simp [h.mem_iff]

theorem sinsert_perm {α : Type} [BEq α] [LawfulBEq α] {l l' : List α} (h : l.Perm l') (x : α) :
    (sinsert x l).Perm (sinsert x l') := by
  unfold sinsert
  rw [contains_perm h x]
  split
  · exact h
  · exact h.append_right _

theorem sinsert_of_mem {α : Type} [BEq α] [LawfulBEq α] {l : List α} {x : α} (h : x ∈ l) : sinsert x l = l := by
  simp [sinsert, h]

theorem sinsert_of_not_mem {α : Type} [BEq α] [LawfulBEq α] {l : List α} {x : α} (h : x ∉ l) :
    sinsert x l = l ++ [x] := by
  simp [sinsert, h]

theorem sinsert_comm {α : Type} [BEq α] [LawfulBEq α] (l : List α) (x y : α) :
    (sinsert y (sinsert x l)).Perm (sinsert x (sinsert y l)) := by
  by_cases hxy : x = y
  · subst hxy; exact .refl _
  by_cases hx : x ∈ l <;> by_cases hy : y ∈ l
  · have a : sinsert y (sinsert x l) = l := by rw [sinsert_of_mem hx, sinsert_of_mem hy]
    have b : sinsert x (sinsert y l) = l := by rw [sinsert_of_mem hy, sinsert_of_mem hx]
    rw [a, b]
  · have a : sinsert y (sinsert x l) = l ++ [y] := by rw [sinsert_of_mem hx, sinsert_of_not_mem hy]
    have b : sinsert x (sinsert y l) = l ++ [y] := by
      rw [sinsert_of_not_mem hy, sinsert_of_mem (by simp [hx])]
    rw [a, b]
  · have a : sinsert y (sinsert x l) = l ++ [x] := by
      rw [sinsert_of_not_mem hx, sinsert_of_mem (by simp [hy])]
    have b : sinsert x (sinsert y l) = l ++ [x] := by rw [sinsert_of_mem hy, sinsert_of_not_mem hx]
    rw [a, b]
  · have a : sinsert y (sinsert x l) = l ++ [x] ++ [y] := by
      rw [sinsert_of_not_mem hx, sinsert_of_not_mem (by simp [hy, Ne.symm hxy])]
    have b : sinsert x (sinsert y l) = l ++ [y] ++ [x] := by
      rw [sinsert_of_not_mem hy, sinsert_of_not_mem (by simp [hx, hxy])]
    rw [a, b, List.append_assoc, List.append_assoc]
    exact List.Perm.append_left l (List.Perm.swap _ _ _)

/-! ## cells up to the enumeration order of their sets -/

structure CellEqv (a b : Cell) : Prop where
  data : a.data = b.data
  funcs : a.funcs.Perm b.funcs
  excl : a.excl.Perm b.excl

theorem CellEqv.refl (a : Cell) : CellEqv a a := ⟨rfl, .refl _, .refl _⟩
theorem CellEqv.trans {a b c : Cell} (h1 : CellEqv a b) (h2 : CellEqv b c) : CellEqv a c :=
  ⟨h1.data.trans h2.data, h1.funcs.trans h2.funcs, h1.excl.trans h2.excl⟩

def CellsEqv (cs cs' : Cells) : Prop := cs.length = cs'.length ∧ ∀ c, CellEqv (cs.get c) (cs'.get c)

theorem CellsEqv.refl (cs : Cells) : CellsEqv cs cs := ⟨rfl, fun _ => .refl _⟩
theorem CellsEqv.trans {a b c : Cells} (h1 : CellsEqv a b) (h2 : CellsEqv b c) : CellsEqv a c :=
  ⟨h1.1.trans h2.1, fun k => (h1.2 k).trans (h2.2 k)⟩

theorem length_modify (cs : Cells) (c : Nat) (f : Cell → Cell) : (modifyCell cs c f).length = cs.length := by
  unfold modifyCell; split <;> simp

theorem get_modify (cs : Cells) (c k : Nat) (f : Cell → Cell) :
    (modifyCell cs c f).get k = if k = c ∧ c < cs.length then f (cs.get k) else cs.get k := by
  by_cases hk : k = c
  · subst hk
    by_cases hl : k < cs.length
    · simp [hl, C17.get_modify_eq cs k f hl]
    · simp [hl, modifyCell]
  · simp [hk, C17.get_modify_ne cs c k f hk]

theorem modify_congr {cs cs' : Cells} (h : CellsEqv cs cs') (c : Nat) (f : Cell → Cell)
    (hf : ∀ a b, CellEqv a b → CellEqv (f a) (f b)) : CellsEqv (modifyCell cs c f) (modifyCell cs' c f) := by
  refine ⟨by rw [length_modify, length_modify, h.1], fun k => ?_⟩
  rw [get_modify, get_modify, h.1]
  split
  · exact hf _ _ (h.2 k)
  · exact h.2 k

theorem modify_comm (cs : Cells) (c1 c2 : Nat) (f g : Cell → Cell)
    (hfg : ∀ a, CellEqv (g (f a)) (f (g a))) :
    CellsEqv (modifyCell (modifyCell cs c1 f) c2 g) (modifyCell (modifyCell cs c2 g) c1 f) := by
  refine ⟨by simp [length_modify], fun k => ?_⟩
  simp only [get_modify, length_modify]
  by_cases e1 : k = c1 <;> by_cases e2 : k = c2 <;> by_cases l1 : c1 < cs.length <;>
    by_cases l2 : c2 < cs.length <;> simp_all [CellEqv.refl]
  all_goals simp [Nat.not_lt.mpr l1, CellEqv.refl]

/-- what one registration does to the cell it reaches -/
def regCell (fname : CName) (fid : Fid) (x : Bool) (cell : Cell) : Cell :=
  { cell with funcs := sinsert (fname, fid) cell.funcs,
              excl := if x then sinsert fname cell.excl else cell.excl }

theorem register_eq (cs : Cells) (s : Shape) (fname : CName) (fid : Fid) (x : Bool) :
    register cs s fname fid x =
      match writeCell s with
      | some c => modifyCell cs c (regCell fname fid x)
      | none => cs := rfl

theorem regCell_congr (fname : CName) (fid : Fid) (x : Bool) (a b : Cell) (h : CellEqv a b) :
    CellEqv (regCell fname fid x a) (regCell fname fid x b) := by
  refine ⟨h.data, sinsert_perm h.funcs _, ?_⟩
  cases x
  · exact h.excl
  · exact sinsert_perm h.excl _

theorem regCell_comm (n1 n2 : CName) (f1 f2 : Fid) (x1 x2 : Bool) (a : Cell) :
    CellEqv (regCell n2 f2 x2 (regCell n1 f1 x1 a)) (regCell n1 f1 x1 (regCell n2 f2 x2 a)) := by
  refine ⟨rfl, sinsert_comm _ _ _, ?_⟩
  cases x1 <;> cases x2
  · exact .refl _
  · exact .refl _
  · exact .refl _
  · exact sinsert_comm _ _ _

/-- one registration on the cell table, the contexts being fixed -/
def regCells (ctxs : List Shape) (cs : Cells) (r : Reg) : Cells :=
  match ctxs[r.i]? with
  | none => cs
  | some s => register cs s r.fname r.fid r.x

theorem regCells_congr (ctxs : List Shape) (a b : Cells) (r : Reg) (h : CellsEqv a b) :
    CellsEqv (regCells ctxs a r) (regCells ctxs b r) := by
  unfold regCells
  cases ctxs[r.i]? with
  | none => exact h
  | some s =>
      simp only [register_eq]
      cases writeCell s with
      | none => exact h
      | some c => exact modify_congr h c _ (regCell_congr _ _ _)

theorem regCells_comm (ctxs : List Shape) (a : Cells) (r1 r2 : Reg) :
    CellsEqv (regCells ctxs (regCells ctxs a r1) r2) (regCells ctxs (regCells ctxs a r2) r1) := by
  unfold regCells
  cases ctxs[r1.i]? with
  | none => exact .refl _
  | some s1 =>
      cases ctxs[r2.i]? with
      | none => exact .refl _
      | some s2 =>
          simp only [register_eq]
          cases writeCell s1 with
          | none => exact .refl _
          | some c1 =>
              cases writeCell s2 with
              | none => exact .refl _
              | some c2 => exact modify_comm a c1 c2 _ _ (regCell_comm _ _ _ _ _ _)

theorem step_register (st : St) (r : Reg) :
    step st r.op = { st with cells := regCells st.ctxs st.cells r } := by
  cases h : st.ctxs[r.i]? <;> simp [step, Reg.op, regCells, St.ctx, h]

theorem regAll_eq (rs : List Reg) : ∀ st : St,
    regAll st rs = { st with cells := rs.foldl (regCells st.ctxs) st.cells } := by
  induction rs with
  | nil => intro st; rfl
  | cons r rs ih =>
      intro st
      have := ih (step st r.op)
      simp only [regAll, run, List.map_cons, List.foldl_cons] at this ⊢
      rw [this, step_register]

/-- contexts up to the enumeration order of the overload sets and exclusive-name sets -/
structure StEqv (a b : St) : Prop where
  ctxs : a.ctxs = b.ctxs
  cells : CellsEqv a.cells b.cells

/-- REGISTRATION ORDER DOES NOT MATTER: the same requests in any order leave the same contexts behind -
    cell by cell the same variables, the same set of overloads, the same set of exclusive names -/
theorem register_perm_invariant (st : St) (rs rs' : List Reg) (h : rs.Perm rs') :
    StEqv (regAll st rs) (regAll st rs') := by
  rw [regAll_eq, regAll_eq]
  exact ⟨rfl, foldl_perm_of_comm CellsEqv (regCells st.ctxs) CellsEqv.refl (fun _ _ _ => CellsEqv.trans)
    (fun a b r => regCells_congr st.ctxs a b r) (fun a x y => regCells_comm st.ctxs a x y) h _ _ (.refl _)⟩

/-! ## from cells to visible families -/

theorem cellFuncs_perm {a b : Cell} (h : CellEqv a b) (n : CName) : (cellFuncs a n).Perm (cellFuncs b n) :=
  (h.funcs.filter _).map _

theorem unionF_perm {a a' b b' : List Fid} (ha : a.Perm a') (hb : b.Perm b') :
    (unionF a b).Perm (unionF a' b') := by
  unfold unionF
  exact foldl_perm_of_comm List.Perm (fun acc x => sinsert x acc) List.Perm.refl (fun _ _ _ => List.Perm.trans)
    (fun _ _ x h => sinsert_perm h x) (fun l x y => sinsert_comm l x y) hb _ _ ha

/-- two C17 layers that hold the same overload set and flag for the name `n` -/
def LayerEqv (n : CName) (a b : C17.Layer) : Prop := (a.funcs n).Perm (b.funcs n) ∧ a.excl n = b.excl n

mutual
theorem ownLayer_eqv {cs cs' : Cells} (h : CellsEqv cs cs') (n : CName) :
    ∀ s, LayerEqv n (ownLayer cs s) (ownLayer cs' s)
  | .plain c p => by
      simp only [ownLayer, cellLayer, LayerEqv]
      exact ⟨cellFuncs_perm (h.2 c) n, contains_perm (h.2 c).excl n⟩
  | .multi ms p => by simp only [ownLayer]; exact ownLayerL_eqv h n ms
  | .linked t p => by simp only [ownLayer]; exact ownLayer_eqv h n t
theorem ownLayerL_eqv {cs cs' : Cells} (h : CellsEqv cs cs') (n : CName) :
    ∀ ms, LayerEqv n (ownLayerL cs ms) (ownLayerL cs' ms)
  | [] => ⟨.refl _, rfl⟩
  | m :: ms => by
      have h1 := ownLayer_eqv h n m
      have h2 := ownLayerL_eqv h n ms
      simp only [ownLayerL, C17.Layer.merge, LayerEqv]
      exact ⟨unionF_perm h1.1 h2.1, by rw [h1.2, h2.2]⟩
end

theorem famOf_cons (defs : Defs) (n : CName) (l : C17.Layer) (ls : List C17.Layer) :
    famOf defs n (l :: ls) = { fns := (l.funcs n).map defs, exclusive := l.excl n } :: famOf defs n ls := rfl

mutual
theorem layers_eqv (defs : Defs) {cs cs' : Cells} (h : CellsEqv cs cs') (n : CName) :
    ∀ s, C06.LayersPerm (famOf defs n (layers cs s)) (famOf defs n (layers cs' s))
  | .plain c p => by
      simp only [layers, famOf_cons]
      exact .cons ((cellFuncs_perm (h.2 c) n).map _) (contains_perm (h.2 c).excl n) (layersO_eqv defs h n p)
  | .multi ms p => by
      simp only [layers, famOf_cons]
      exact .cons ((ownLayerL_eqv h n ms).1.map _) (ownLayerL_eqv h n ms).2 (layersO_eqv defs h n p)
  | .linked t p => by
      simp only [layers, famOf_cons]
      exact .cons ((ownLayer_eqv h n t).1.map _) (ownLayer_eqv h n t).2 (layersO_eqv defs h n p)
theorem layersO_eqv (defs : Defs) {cs cs' : Cells} (h : CellsEqv cs cs') (n : CName) :
    ∀ o, C06.LayersPerm (famOf defs n (layersO cs o)) (famOf defs n (layersO cs' o))
  | none => .nil
  | some s => by simp only [layersO]; exact layers_eqv defs h n s
end

theorem familyIn_eqv (defs : Defs) {a b : St} (h : StEqv a b) (i : Nat) (name : CName) :
    C06.LayersPerm (familyIn defs a i name) (familyIn defs b i name) := by
  unfold familyIn St.ctx
  rw [h.ctxs]
  cases b.ctxs[i]? with
  | none => exact .nil
  | some s => exact layers_eqv defs h.cells _ s

/-- the family visible from any context after the registrations: per layer the same overloads up to
    order, the same exclusive flag -/
theorem family_register_perm (defs : Defs) (st : St) (rs rs' : List Reg) (h : rs.Perm rs') (i : Nat) (name : CName) :
    C06.LayersPerm (familyIn defs (regAll st rs) i name) (familyIn defs (regAll st rs') i name) :=
  familyIn_eqv defs (register_perm_invariant st rs rs' h) i name

/-- every call from every context resolves the same way whatever the registration order was -/
theorem resolve_register_perm_invariant (L : Yaql.Types.Lattice) (defs : Defs) (st : St) (rs rs' : List Reg)
    (h : rs.Perm rs') (i : Nat) (name : CName) (c : Yaql.Resolve.Call) :
    resolveIn L defs (regAll st rs') i name c = resolveIn L defs (regAll st rs) i name c := by
  rw [C05Hist.resolveIn_eq, C05Hist.resolveIn_eq]
  exact C06.perm_invariant L c _ _ (family_register_perm defs st rs rs' h i name)

/-! ## exclusive = some registration said so -/

/-- does the request reach cell `c` of a table with `len` cells -/
def Reg.hits (ctxs : List Shape) (len : Nat) (r : Reg) (c : Nat) : Bool :=
  match ctxs[r.i]? with
  | some s => writeCell s == some c && decide (c < len)
  | none => false

theorem contains_sinsert (n m : CName) (l : List CName) :
    (sinsert m l).contains n = (l.contains n || m == n) := by
  rw [Bool.eq_iff_iff]
  by_cases h : m ∈ l
  · rw [sinsert_of_mem h]
    simp only [List.contains_iff_mem, Bool.or_eq_true, beq_iff_eq]
    constructor
    · exact Or.inl
    · rintro (h' | rfl)
      · exact h'
      · exact h
  · rw [sinsert_of_not_mem h]
    simp only [List.contains_iff_mem, List.mem_append, List.mem_singleton, Bool.or_eq_true, beq_iff_eq]
    exact or_congr_right eq_comm

theorem length_regCells (ctxs : List Shape) (cs : Cells) (r : Reg) : (regCells ctxs cs r).length = cs.length := by
  unfold regCells
  cases ctxs[r.i]? with
  | none => rfl
  | some s =>
      simp only [register_eq]
      cases writeCell s with
      | none => rfl
      | some c => exact length_modify _ _ _

theorem excl_regCells (ctxs : List Shape) (cs : Cells) (r : Reg) (c : Nat) (n : CName) :
    ((regCells ctxs cs r).get c).excl.contains n =
      ((cs.get c).excl.contains n || (r.x && r.fname == n && r.hits ctxs cs.length c)) := by
  unfold regCells Reg.hits
  cases ctxs[r.i]? with
  | none => simp
  | some s =>
      simp only [register_eq]
      cases hw : writeCell s with
      | none => simp
      | some w =>
          rw [get_modify]
          by_cases hc : c = w ∧ w < cs.length
          · obtain ⟨rfl, hl⟩ := hc
            rw [if_pos ⟨rfl, hl⟩]
            cases hx : r.x
            · simp [regCell]
            · simp only [regCell, if_true]
              rw [contains_sinsert]
              simp [hl]
          · simp only [hc, if_false]
            by_cases hcw : c = w
            · subst hcw
              have : ¬ c < cs.length := fun hl => hc ⟨rfl, hl⟩
              simp [this]
            · simp [Ne.symm hcw]

/-- after the registrations a cell is exclusive for `n` iff it was before or SOME registration that reached it
    was made for the name `n` with `exclusive=True` - wherever in the order it came -/
theorem exclusive_any (ctxs : List Shape) (n : CName) (c : Nat) : ∀ (rs : List Reg) (cs : Cells),
    ((rs.foldl (regCells ctxs) cs).get c).excl.contains n =
      ((cs.get c).excl.contains n || rs.any fun r => r.x && r.fname == n && r.hits ctxs cs.length c)
  | [], cs => by simp
  | r :: rs, cs => by
      simp only [List.foldl_cons, List.any_cons]
      rw [exclusive_any ctxs n c rs, excl_regCells, length_regCells, Bool.or_assoc]

/-! ## the contrast: a flag that every registration overwrites -/

/-- `_exclusive_funcs[name] = bool(exclusive)` instead of `if exclusive: _exclusive_funcs.add(name)` -/
def regCellLastWins (fname : CName) (fid : Fid) (x : Bool) (cell : Cell) : Cell :=
  { cell with funcs := sinsert (fname, fid) cell.funcs,
              excl := if x then sinsert fname cell.excl else cell.excl.filter (· != fname) }

/-- with an overwritten flag the order of two registrations decides whether the layer is exclusive -/
theorem last_registration_wins_order_dependent :
    ((regCellLastWins ['f'] 1 false (regCellLastWins ['f'] 0 true {})).excl.contains ['f'] = false) ∧
    ((regCellLastWins ['f'] 0 true (regCellLastWins ['f'] 1 false {})).excl.contains ['f'] = true) ∧
    ((regCell ['f'] 1 false (regCell ['f'] 0 true {})).excl.contains ['f'] = true) ∧
    ((regCell ['f'] 0 true (regCell ['f'] 1 false {})).excl.contains ['f'] = true) := by decide

/-! ## non-vacuity -/
namespace Ex
open Yaql.Props.C05Hist.Ex

/-- parent layer `f(x: str)`; child layer `f(x: Base)` registered exclusively and `f(x: D)` not: the child layer
    hides the parent whichever of the two was registered last -/
def rs : List Reg := [⟨0, f, 2, false⟩, ⟨1, f, 0, true⟩, ⟨1, f, 1, false⟩]

example : rs.Perm rs.reverse := (List.reverse_perm rs).symm

example : outcome (regAll st0 rs) 2 = .ok 1 ∧ outcome (regAll st0 rs.reverse) 2 = .ok 1 ∧
    (familyIn defs (regAll st0 rs) 2 f).map (·.exclusive) = [false, true, false] ∧
    (familyIn defs (regAll st0 rs.reverse) 2 f).map (·.exclusive) = [false, true, false] := by decide

end Ex

end Yaql.Props.C06Reg
