import Yaql.Model.ConvertId
/-!
C09 - evaluation has no side effects on host data, context or statement.

Part 1 (this section): the two data converters over Python objects **with allocation identities**
(`Model/ConvertId.lean`).  Aliasing is modelled with identities carried by the container nodes of a
value, not with a heap: a converter cannot *write* to its argument in this model at all (it is a pure
function of it - the real code's lack of writes is what `C09Gen.no_param_mutation` and the dynamic
snapshot oracle check); what the theorems decide is which **objects of the argument are still
reachable from the result**, i.e. whether the host, by changing its data later, changes a value yaql
holds, and whether a caller, by changing the result, changes host data.
-/
namespace Yaql.Props.C09
open Yaql.Convert

/-! ## the identity-carrying converters are the C10 converters -/

mutual
theorem convInI_erase : ∀ (n : Nat) (x : Obj), erase (convInI n x).1 = convIn (erase x)
  | n, .sc s => by simp [convInI, erase, convIn]
  | n, .seq id k l => by
      have ih := convInIL_erase (n + 1) l
      simp only [convInI, erase, convIn]
      by_cases h : (inKind k == .iter) = true
      · have hk : inKind k = .iter := by simpa using h
        simp [erase, ih, hk]
      · simp [h, erase, ih]
  | n, .map id k kvs => by
      have ih := convInIP_erase (n + 1) kvs
      simp [convInI, erase, convIn, ih]
  | n, .lazyMap id src l => by
      have ih := convInIL_erase (n + 1) l
      simp [convInI, erase, convIn, ih, inKind]
theorem convInIL_erase : ∀ (n : Nat) (l : List Obj), eraseL (convInIL n l).1 = convInL (eraseL l)
  | n, [] => by simp [convInIL, eraseL, convInL]
  | n, x :: xs => by
      simp [convInIL, eraseL, convInL, convInI_erase n x, convInIL_erase (convInI n x).2 xs]
theorem convInIP_erase : ∀ (n : Nat) (l : List (Obj × Obj)), eraseP (convInIP n l).1 = convInP (eraseP l)
  | n, [] => by simp [convInIP, eraseP, convInP]
  | n, (k, v) :: r => by
      simp [convInIP, eraseP, convInP, convInI_erase n k, convInI_erase (convInI n k).2 v,
        convInIP_erase (convInI (convInI n k).2 v).2 r]
end

/-! ## `convert_input_data`: what the result is made of -/

mutual
/-- every object of the result was allocated by this call: its identities fill `[n, n')` -/
theorem convInI_range : ∀ (n : Nat) (x : Obj),
    n ≤ (convInI n x).2 ∧ ∀ i ∈ nodeIds (convInI n x).1, n ≤ i ∧ i < (convInI n x).2
  | n, .sc s => by simp [convInI, nodeIds]
  | n, .seq id k l => by
      obtain ⟨h1, h2⟩ := convInIL_range (n + 1) l
      simp only [convInI]
      refine ⟨by omega, ?_⟩
      intro i hi
      cases h : (inKind k == SeqKind.iter) <;>
        simp only [h, if_true, Bool.false_eq_true, if_false, nodeIds, List.mem_cons] at hi
      · rcases hi with rfl | hi
        · omega
        · have := h2 i hi; omega
      · rcases hi with rfl | hi
        · omega
        · have := h2 i hi; omega
  | n, .map id k kvs => by
      obtain ⟨h1, h2⟩ := convInIP_range (n + 1) kvs
      simp only [convInI]
      refine ⟨by omega, ?_⟩
      intro i hi
      simp only [nodeIds, List.mem_cons] at hi
      rcases hi with rfl | hi
      · omega
      · have := h2 i hi; omega
  | n, .lazyMap id src l => by
      obtain ⟨h1, h2⟩ := convInIL_range (n + 1) l
      simp only [convInI]
      refine ⟨by omega, ?_⟩
      intro i hi
      simp only [nodeIds, List.mem_cons] at hi
      rcases hi with rfl | hi
      · omega
      · have := h2 i hi; omega
theorem convInIL_range : ∀ (n : Nat) (l : List Obj),
    n ≤ (convInIL n l).2 ∧ ∀ i ∈ nodeIdsL (convInIL n l).1, n ≤ i ∧ i < (convInIL n l).2
  | n, [] => by simp [convInIL, nodeIdsL]
  | n, x :: xs => by
      obtain ⟨a1, a2⟩ := convInI_range n x
      obtain ⟨b1, b2⟩ := convInIL_range (convInI n x).2 xs
      simp only [convInIL]
      refine ⟨by omega, ?_⟩
      intro i hi
      simp only [nodeIdsL, List.mem_append] at hi
      rcases hi with hi | hi
      · have := a2 i hi; omega
      · have := b2 i hi; omega
theorem convInIP_range : ∀ (n : Nat) (l : List (Obj × Obj)),
    n ≤ (convInIP n l).2 ∧ ∀ i ∈ nodeIdsP (convInIP n l).1, n ≤ i ∧ i < (convInIP n l).2
  | n, [] => by simp [convInIP, nodeIdsP]
  | n, (k, v) :: r => by
      obtain ⟨a1, a2⟩ := convInI_range n k
      obtain ⟨b1, b2⟩ := convInI_range (convInI n k).2 v
      obtain ⟨c1, c2⟩ := convInIP_range (convInI (convInI n k).2 v).2 r
      simp only [convInIP]
      refine ⟨by omega, ?_⟩
      intro i hi
      simp only [nodeIdsP, List.mem_append] at hi
      rcases hi with (hi | hi) | hi
      · have := a2 i hi; omega
      · have := b2 i hi; omega
      · have := c2 i hi; omega
end

mutual
/-- the only references into the argument are the sources of lazily wrapped iterables -/
theorem convInI_src : ∀ (n : Nat) (x : Obj), ∀ i ∈ srcRefs (convInI n x).1, i ∈ nodeIds x
  | n, .sc s => by simp [convInI, srcRefs]
  | n, .seq id k l => by
      have ih := convInIL_src (n + 1) l
      intro i hi
      simp only [convInI] at hi
      cases h : (inKind k == SeqKind.iter) <;>
        simp only [h, if_true, Bool.false_eq_true, if_false, srcRefs, List.mem_cons] at hi
      · simp [nodeIds, ih i hi]
      · rcases hi with rfl | hi
        · simp [nodeIds]
        · simp [nodeIds, ih i hi]
  | n, .map id k kvs => by
      have ih := convInIP_src (n + 1) kvs
      intro i hi
      simp only [convInI, srcRefs] at hi
      simp [nodeIds, ih i hi]
  | n, .lazyMap id src l => by
      have ih := convInIL_src (n + 1) l
      intro i hi
      simp only [convInI, srcRefs, List.mem_cons] at hi
      rcases hi with rfl | hi
      · simp [nodeIds]
      · simp [nodeIds, ih i hi]
theorem convInIL_src : ∀ (n : Nat) (l : List Obj), ∀ i ∈ srcRefsL (convInIL n l).1, i ∈ nodeIdsL l
  | n, [] => by simp [convInIL, srcRefsL]
  | n, x :: xs => by
      intro i hi
      simp only [convInIL, srcRefsL, List.mem_append] at hi
      simp only [nodeIdsL, List.mem_append]
      rcases hi with hi | hi
      · exact Or.inl (convInI_src n x i hi)
      · exact Or.inr (convInIL_src _ xs i hi)
theorem convInIP_src : ∀ (n : Nat) (l : List (Obj × Obj)), ∀ i ∈ srcRefsP (convInIP n l).1, i ∈ nodeIdsP l
  | n, [] => by simp [convInIP, srcRefsP]
  | n, (k, v) :: r => by
      intro i hi
      simp only [convInIP, srcRefsP, List.mem_append] at hi
      simp only [nodeIdsP, List.mem_append]
      rcases hi with (hi | hi) | hi
      · exact Or.inl (Or.inl (convInI_src n k i hi))
      · exact Or.inl (Or.inr (convInI_src _ v i hi))
      · exact Or.inr (convInIP_src _ r i hi)
end

theorem inKind_eager {k : SeqKind} (h : k.isEager = true) :
    (inKind k == .iter) = false ∧ (inKind k).isFrozen = true := by
  cases k <;> simp_all [SeqKind.isEager, inKind, SeqKind.isFrozen]

mutual
/-- a document of lists / tuples / dicts / sets / scalars is converted into frozen containers only, and
    the result holds no reference to any object of the document -/
theorem convInI_frozen : ∀ (n : Nat) (x : Obj), eagerDoc x = true →
    frozen (convInI n x).1 = true ∧ srcRefs (convInI n x).1 = []
  | n, .sc s, _ => by simp [convInI, frozen, srcRefs]
  | n, .seq id k l, h => by
      simp only [eagerDoc, Bool.and_eq_true] at h
      obtain ⟨f, s⟩ := convInIL_frozen (n + 1) l h.2
      obtain ⟨k1, k2⟩ := inKind_eager h.1
      simp [convInI, k1, frozen, srcRefs, k2, f, s]
  | n, .map id k kvs, h => by
      simp only [eagerDoc] at h
      obtain ⟨f, s⟩ := convInIP_frozen (n + 1) kvs h
      simp [convInI, frozen, srcRefs, f, s]
  | n, .lazyMap id src l, h => by simp [eagerDoc] at h
theorem convInIL_frozen : ∀ (n : Nat) (l : List Obj), eagerDocL l = true →
    frozenL (convInIL n l).1 = true ∧ srcRefsL (convInIL n l).1 = []
  | n, [], _ => by simp [convInIL, frozenL, srcRefsL]
  | n, x :: xs, h => by
      simp only [eagerDocL, Bool.and_eq_true] at h
      obtain ⟨a1, a2⟩ := convInI_frozen n x h.1
      obtain ⟨b1, b2⟩ := convInIL_frozen (convInI n x).2 xs h.2
      simp [convInIL, frozenL, srcRefsL, a1, a2, b1, b2]
theorem convInIP_frozen : ∀ (n : Nat) (l : List (Obj × Obj)), eagerDocP l = true →
    frozenP (convInIP n l).1 = true ∧ srcRefsP (convInIP n l).1 = []
  | n, [], _ => by simp [convInIP, frozenP, srcRefsP]
  | n, (k, v) :: r, h => by
      simp only [eagerDocP, Bool.and_eq_true] at h
      obtain ⟨a1, a2⟩ := convInI_frozen n k h.1.1
      obtain ⟨b1, b2⟩ := convInI_frozen (convInI n k).2 v h.1.2
      obtain ⟨c1, c2⟩ := convInIP_frozen (convInI (convInI n k).2 v).2 r h.2
      simp [convInIP, frozenP, srcRefsP, a1, a2, b1, b2, c1, c2]
end

mutual
/-- opaque host objects (anything that is not a str / Sequence / Mapping / MutableSet / Iterable) are
    passed on as they are, each exactly where it was -/
theorem convInI_host : ∀ (n : Nat) (x : Obj), hostLeaves (convInI n x).1 = hostLeaves x
  | n, .sc s => by simp [convInI]
  | n, .seq id k l => by
      have ih := convInIL_host (n + 1) l
      simp only [convInI]
      by_cases h : (inKind k == .iter) = true <;> simp [h, hostLeaves, ih]
  | n, .map id k kvs => by simp [convInI, hostLeaves, convInIP_host (n + 1) kvs]
  | n, .lazyMap id src l => by simp [convInI, hostLeaves, convInIL_host (n + 1) l]
theorem convInIL_host : ∀ (n : Nat) (l : List Obj), hostLeavesL (convInIL n l).1 = hostLeavesL l
  | n, [] => by simp [convInIL]
  | n, x :: xs => by simp [convInIL, hostLeavesL, convInI_host n x, convInIL_host _ xs]
theorem convInIP_host : ∀ (n : Nat) (l : List (Obj × Obj)), hostLeavesP (convInIP n l).1 = hostLeavesP l
  | n, [] => by simp [convInIP]
  | n, (k, v) :: r => by
      simp [convInIP, hostLeavesP, convInI_host n k, convInI_host _ v, convInIP_host _ r]
end

/-- **C09.convert_input_fresh** (all documents, all depths).  For every Python object `d` and every
    allocator state `n` above the identities of `d`: the value `convert_input_data(d)` binds to `$`
    (1) has the content C10's model gives, (2) consists of objects allocated by this call only - no
    object of `d` is a node of it -, (3) refers to objects of `d` at most as the source of a lazily
    wrapped iterable, and (4) if `d` is a document of lists / tuples / dicts / sets / scalars - the
    property's quantifier - contains **no mutable object at all** (tuples, FrozenDicts, frozensets and
    scalars only) and no reference to any object of `d`.  The converter is a function of `d`: the
    document itself is not an output of it (nothing is written; see `C09Gen.no_param_mutation` for the
    real code). -/
theorem convert_input_fresh (n : Nat) (d : Obj) (hd : ∀ i ∈ nodeIds d, i < n) :
    erase (convInI n d).1 = convIn (erase d) ∧
    (∀ i ∈ nodeIds (convInI n d).1, i ∉ nodeIds d ∧ n ≤ i ∧ i < (convInI n d).2) ∧
    (∀ i ∈ srcRefs (convInI n d).1, i ∈ nodeIds d) ∧
    (eagerDoc d = true → frozen (convInI n d).1 = true ∧ srcRefs (convInI n d).1 = []) := by
  refine ⟨convInI_erase n d, ?_, convInI_src n d, convInI_frozen n d⟩
  intro i hi
  have := (convInI_range n d).2 i hi
  refine ⟨fun hmem => ?_, this⟩
  have := hd i hmem
  omega

/-- the guard of (4) is needed: a host **generator** (or frozenset, or dict view) is wrapped, not copied -
    the `$` value holds the host's object and pulling it consumes the host's generator.  Outside the
    property's quantifier (lists, dicts, sets), modelled as implemented. -/
theorem convert_input_lazy_holds_source :
    let d : Obj := .seq 0 .list [.seq 1 .iter [.sc (.int 1)]]
    srcRefs (convInI 2 d).1 = [1] ∧ frozen (convInI 2 d).1 = false := by
  decide

example : eagerDoc (.map 0 .dict [(.sc (.str ['a']), .seq 1 .list [.seq 2 .set [.sc (.int 1)], .seq 3 .tuple []])]) = true ∧
    (convInI 4 (.map 0 .dict [(.sc (.str ['a']), .seq 1 .list [.seq 2 .set [.sc (.int 1)], .seq 3 .tuple []])])).1
      = .map 4 .fdict [(.sc (.str ['a']), .seq 5 .tuple [.seq 6 .fset [.sc (.int 1)], .seq 7 .tuple []])] :=
  ⟨by decide, rfl⟩

/-! ## `convert_output_data` -/

def eraseR : Except Err (Obj × Nat) → Except Err Py
  | .ok p => .ok (erase p.1)
  | .error e => .error e
def eraseRL : Except Err (List Obj × Nat) → Except Err (List Py)
  | .ok p => .ok (eraseL p.1)
  | .error e => .error e
def eraseRP : Except Err (List (Obj × Obj) × Nat) → Except Err (List (Py × Py))
  | .ok p => .ok (eraseP p.1)
  | .error e => .error e

theorem eraseL_length : ∀ l : List Obj, (eraseL l).length = l.length
  | [] => rfl
  | _ :: xs => by simp [eraseL, eraseL_length xs]
theorem eraseP_length : ∀ l : List (Obj × Obj), (eraseP l).length = l.length
  | [] => rfl
  | (_, _) :: xs => by simp [eraseP, eraseP_length xs]

mutual
/-- forgetting identities, the finaliser with identities is C10's finaliser (same result, same error) -/
theorem convOutI_erase (o : Opts) (lim : Limit) : ∀ (n : Nat) (x : Obj),
    eraseR (convOutI o lim n x) = convOut o lim (erase x)
  | n, .sc s => by simp [convOutI, convOut, erase, eraseR]
  | n, .map id k kvs => by
      have ih := convPairsI_erase o lim (n + 1) kvs
      simp only [convOutI, convOut, erase, eraseP_length]
      rw [← ih]
      cases lim.admits kvs.length
      · simp [eraseR]
      · cases convPairsI o lim (n + 1) kvs <;> simp [eraseR, eraseRP, erase]
  | n, .seq id k l => by
      simp only [convOutI, convOut, erase, eraseL_length]
      rw [← convElemsI_erase o lim (!o.s2l) none (n + 1) l, ← convElemsI_erase o lim false none (n + 1) l,
        ← convElemsI_erase o lim false lim (n + 1) l]
      cases k.isView
      · cases k.isSetLike
        · cases k.isSeq
          · cases convElemsI o lim false lim (n + 1) l <;> simp [eraseR, eraseRL, erase]
          · cases lim.admits l.length
            · simp [eraseR]
            · cases convElemsI o lim false none (n + 1) l <;> simp [eraseR, eraseRL, erase]
        · cases lim.admits l.length
          · simp [eraseR]
          · cases convElemsI o lim (!o.s2l) none (n + 1) l <;> simp [eraseR, eraseRL, erase]
      · cases lim.admits l.length
        · simp [eraseR]
        · cases convElemsI o lim false none (n + 1) l <;> simp [eraseR, eraseRL, erase]
  | n, .lazyMap id src l => by
      simp only [convOutI, convOut, erase]
      rw [← convElemsI_erase o lim false lim (n + 1) l]
      cases convElemsI o lim false lim (n + 1) l <;>
        simp [eraseR, eraseRL, erase, SeqKind.isSetLike, SeqKind.isSeq, SeqKind.isView]
theorem convElemsI_erase (o : Opts) (lim : Limit) (nh : Bool) : ∀ (b : Option Nat) (n : Nat) (l : List Obj),
    eraseRL (convElemsI o lim nh b n l) = convElems o lim nh b (eraseL l)
  | b, n, [] => by simp [convElemsI, convElems, eraseL, eraseRL]
  | b, n, x :: xs => by
      simp only [convElemsI, convElems, eraseL]
      rw [← convOutI_erase o lim n x]
      cases b == some 0
      · simp only [Bool.false_eq_true, if_false]
        cases hx : convOutI o lim n x with
        | error e => simp [eraseR, eraseRL]
        | ok a =>
            simp only [eraseR, hashableO]
            rw [← convElemsI_erase o lim nh (b.map (· - 1)) a.2 xs]
            by_cases hh : (nh && !hashable (erase a.1)) = true
            · simp [hh, eraseRL]
            · simp only [hh]
              cases convElemsI o lim nh (b.map (· - 1)) a.2 xs <;> simp [eraseRL, eraseL]
      · simp [eraseRL]
theorem convPairsI_erase (o : Opts) (lim : Limit) : ∀ (n : Nat) (l : List (Obj × Obj)),
    eraseRP (convPairsI o lim n l) = convPairs o lim (eraseP l)
  | n, [] => by simp [convPairsI, convPairs, eraseP, eraseRP]
  | n, (k, v) :: r => by
      simp only [convPairsI, convPairs, eraseP]
      rw [← convOutI_erase o lim n v]
      cases hv : convOutI o lim n v with
      | error e => simp [eraseR, eraseRP]
      | ok a =>
          simp only [eraseR]
          rw [← convOutI_erase o lim a.2 k]
          cases hk : convOutI o lim a.2 k with
          | error e => simp [eraseR, eraseRP]
          | ok b =>
              simp only [eraseR, hashableO]
              rw [← convPairsI_erase o lim b.2 r]
              by_cases hh : (!hashable (erase b.1)) = true
              · simp [hh, eraseRP]
              · simp only [hh]
                cases convPairsI o lim b.2 r <;> simp [eraseRP, eraseP]
end

/-- "allocated by this call, nothing borrowed": identities in `[n, n')`, no lazily held source, opaque
    host leaves only from `hl` -/
def FreshRes (n : Nat) (hl ids srcs hosts : List Nat) (n' : Nat) : Prop :=
  n ≤ n' ∧ (∀ i ∈ ids, n ≤ i ∧ i < n') ∧ srcs = [] ∧ ∀ h ∈ hosts, h ∈ hl

theorem fresh_seq_node {n : Nat} {hl : List Nat} {q : List Obj × Nat} (kd : SeqKind)
    (h : FreshRes (n + 1) hl (nodeIdsL q.1) (srcRefsL q.1) (hostLeavesL q.1) q.2) :
    FreshRes n hl (nodeIds (.seq n kd q.1)) (srcRefs (.seq n kd q.1)) (hostLeaves (.seq n kd q.1)) q.2 := by
  obtain ⟨h1, h2, h3, h4⟩ := h
  refine ⟨by omega, ?_, by simpa [srcRefs] using h3, by simpa [hostLeaves] using h4⟩
  intro i hi
  simp only [nodeIds, List.mem_cons] at hi
  rcases hi with rfl | hi
  · omega
  · have := h2 i hi; omega

theorem fresh_map_node {n : Nat} {hl : List Nat} {q : List (Obj × Obj) × Nat}
    (h : FreshRes (n + 1) hl (nodeIdsP q.1) (srcRefsP q.1) (hostLeavesP q.1) q.2) :
    FreshRes n hl (nodeIds (.map n .dict q.1)) (srcRefs (.map n .dict q.1)) (hostLeaves (.map n .dict q.1)) q.2 := by
  obtain ⟨h1, h2, h3, h4⟩ := h
  refine ⟨by omega, ?_, by simpa [srcRefs] using h3, by simpa [hostLeaves] using h4⟩
  intro i hi
  simp only [nodeIds, List.mem_cons] at hi
  rcases hi with rfl | hi
  · omega
  · have := h2 i hi; omega

mutual
theorem convOutI_fresh (o : Opts) (lim : Limit) : ∀ (n : Nat) (x : Obj) (p : Obj × Nat),
    convOutI o lim n x = .ok p →
    FreshRes n (hostLeaves x) (nodeIds p.1) (srcRefs p.1) (hostLeaves p.1) p.2
  | n, .sc s, p, h => by
      simp only [convOutI, Except.ok.injEq] at h
      subst h
      exact ⟨Nat.le_refl _, by simp [nodeIds], by simp [srcRefs], fun h hh => hh⟩
  | n, .map id k kvs, p, h => by
      simp only [convOutI] at h
      split at h
      · split at h
        · rename_i q hq
          simp only [Except.ok.injEq] at h; subst h
          exact fresh_map_node (by simpa [hostLeaves] using convPairsI_fresh o lim (n + 1) kvs q hq)
        · cases h
      · cases h
  | n, .seq id k l, p, h => by
      simp only [convOutI] at h
      split at h
      · split at h
        · split at h
          · rename_i q hq
            simp only [Except.ok.injEq] at h; subst h
            exact fresh_seq_node _ (by simpa [hostLeaves] using convElemsI_fresh o lim _ _ (n + 1) l q hq)
          · cases h
        · cases h
      · split at h
        · split at h
          · split at h
            · rename_i q hq
              simp only [Except.ok.injEq] at h; subst h
              exact fresh_seq_node _ (by simpa [hostLeaves] using convElemsI_fresh o lim _ _ (n + 1) l q hq)
            · cases h
          · cases h
        · split at h
          · split at h
            · split at h
              · rename_i q hq
                simp only [Except.ok.injEq] at h; subst h
                exact fresh_seq_node _ (by simpa [hostLeaves] using convElemsI_fresh o lim _ _ (n + 1) l q hq)
              · cases h
            · cases h
          · split at h
            · rename_i q hq
              simp only [Except.ok.injEq] at h; subst h
              exact fresh_seq_node _ (by simpa [hostLeaves] using convElemsI_fresh o lim _ _ (n + 1) l q hq)
            · cases h
  | n, .lazyMap id src l, p, h => by
      simp only [convOutI] at h
      split at h
      · rename_i q hq
        simp only [Except.ok.injEq] at h; subst h
        exact fresh_seq_node _ (by simpa [hostLeaves] using convElemsI_fresh o lim _ _ (n + 1) l q hq)
      · cases h
theorem convElemsI_fresh (o : Opts) (lim : Limit) (nh : Bool) :
    ∀ (b : Option Nat) (n : Nat) (l : List Obj) (p : List Obj × Nat),
    convElemsI o lim nh b n l = .ok p →
    FreshRes n (hostLeavesL l) (nodeIdsL p.1) (srcRefsL p.1) (hostLeavesL p.1) p.2
  | b, n, [], p, h => by
      simp only [convElemsI, Except.ok.injEq] at h
      subst h
      exact ⟨Nat.le_refl _, by simp [nodeIdsL], by simp [srcRefsL], fun h hh => hh⟩
  | b, n, x :: xs, p, h => by
      simp only [convElemsI] at h
      split at h
      · cases h
      · split at h
        · cases h
        · rename_i a ha
          split at h
          · cases h
          · split at h
            · cases h
            · rename_i r hr
              simp only [Except.ok.injEq] at h; subst h
              obtain ⟨a1, a2, a3, a4⟩ := convOutI_fresh o lim n x a ha
              obtain ⟨b1, b2, b3, b4⟩ := convElemsI_fresh o lim nh _ a.2 xs r hr
              refine ⟨by omega, ?_, by simp [srcRefsL, a3, b3], ?_⟩
              · intro i hi
                simp only [nodeIdsL, List.mem_append] at hi
                rcases hi with hi | hi
                · have := a2 i hi; omega
                · have := b2 i hi; omega
              · intro h hh
                simp only [hostLeavesL, List.mem_append] at hh ⊢
                rcases hh with hh | hh
                · exact Or.inl (a4 h hh)
                · exact Or.inr (b4 h hh)
theorem convPairsI_fresh (o : Opts) (lim : Limit) :
    ∀ (n : Nat) (l : List (Obj × Obj)) (p : List (Obj × Obj) × Nat),
    convPairsI o lim n l = .ok p →
    FreshRes n (hostLeavesP l) (nodeIdsP p.1) (srcRefsP p.1) (hostLeavesP p.1) p.2
  | n, [], p, h => by
      simp only [convPairsI, Except.ok.injEq] at h
      subst h
      exact ⟨Nat.le_refl _, by simp [nodeIdsP], by simp [srcRefsP], fun h hh => hh⟩
  | n, (k, v) :: r, p, h => by
      simp only [convPairsI] at h
      split at h
      · cases h
      · rename_i a ha
        split at h
        · cases h
        · rename_i b hb
          split at h
          · cases h
          · split at h
            · cases h
            · rename_i c hc
              simp only [Except.ok.injEq] at h; subst h
              obtain ⟨a1, a2, a3, a4⟩ := convOutI_fresh o lim n v a ha
              obtain ⟨b1, b2, b3, b4⟩ := convOutI_fresh o lim a.2 k b hb
              obtain ⟨c1, c2, c3, c4⟩ := convPairsI_fresh o lim b.2 r c hc
              refine ⟨by omega, ?_, by simp [srcRefsP, a3, b3, c3], ?_⟩
              · intro i hi
                simp only [nodeIdsP, List.mem_append] at hi
                rcases hi with (hi | hi) | hi
                · have := b2 i hi; omega
                · have := a2 i hi; omega
                · have := c2 i hi; omega
              · intro h hh
                simp only [hostLeavesP, List.mem_append] at hh ⊢
                rcases hh with (hh | hh) | hh
                · exact Or.inl (Or.inl (b4 h hh))
                · exact Or.inl (Or.inr (a4 h hh))
                · exact Or.inr (c4 h hh)
end

theorem nodup_node {n : Nat} {ids : List Nat} (hn : ids.Nodup) (hr : ∀ i ∈ ids, n + 1 ≤ i) :
    (n :: ids).Nodup := by
  refine List.nodup_cons.mpr ⟨fun hm => ?_, hn⟩
  have := hr n hm
  omega

theorem nodup_append_ranges {a b : List Nat} {m : Nat} (ha : a.Nodup) (hb : b.Nodup)
    (h1 : ∀ i ∈ a, i < m) (h2 : ∀ i ∈ b, m ≤ i) : (a ++ b).Nodup := by
  refine List.nodup_append.mpr ⟨ha, hb, ?_⟩
  intro x hx y hy hxy
  have := h1 x hx
  have := h2 y hy
  omega

mutual
/-- the finalised result is a tree of pairwise distinct new objects -/
theorem convOutI_nodup (o : Opts) (lim : Limit) : ∀ (n : Nat) (x : Obj) (p : Obj × Nat),
    convOutI o lim n x = .ok p → (nodeIds p.1).Nodup
  | n, .sc s, p, h => by
      simp only [convOutI, Except.ok.injEq] at h
      subst h; simp [nodeIds]
  | n, .map id k kvs, p, h => by
      simp only [convOutI] at h
      split at h
      · split at h
        · rename_i q hq
          simp only [Except.ok.injEq] at h; subst h
          exact nodup_node (convPairsI_nodup o lim (n + 1) kvs q hq)
            (fun i hi => ((convPairsI_fresh o lim (n + 1) kvs q hq).2.1 i hi).1)
        · cases h
      · cases h
  | n, .seq id k l, p, h => by
      simp only [convOutI] at h
      split at h
      · split at h
        · split at h
          · rename_i q hq
            simp only [Except.ok.injEq] at h; subst h
            exact nodup_node (convElemsI_nodup o lim _ _ (n + 1) l q hq)
              (fun i hi => ((convElemsI_fresh o lim _ _ (n + 1) l q hq).2.1 i hi).1)
          · cases h
        · cases h
      · split at h
        · split at h
          · split at h
            · rename_i q hq
              simp only [Except.ok.injEq] at h; subst h
              exact nodup_node (convElemsI_nodup o lim _ _ (n + 1) l q hq)
                (fun i hi => ((convElemsI_fresh o lim _ _ (n + 1) l q hq).2.1 i hi).1)
            · cases h
          · cases h
        · split at h
          · split at h
            · split at h
              · rename_i q hq
                simp only [Except.ok.injEq] at h; subst h
                exact nodup_node (convElemsI_nodup o lim _ _ (n + 1) l q hq)
                  (fun i hi => ((convElemsI_fresh o lim _ _ (n + 1) l q hq).2.1 i hi).1)
              · cases h
            · cases h
          · split at h
            · rename_i q hq
              simp only [Except.ok.injEq] at h; subst h
              exact nodup_node (convElemsI_nodup o lim _ _ (n + 1) l q hq)
                (fun i hi => ((convElemsI_fresh o lim _ _ (n + 1) l q hq).2.1 i hi).1)
            · cases h
  | n, .lazyMap id src l, p, h => by
      simp only [convOutI] at h
      split at h
      · rename_i q hq
        simp only [Except.ok.injEq] at h; subst h
        exact nodup_node (convElemsI_nodup o lim _ _ (n + 1) l q hq)
          (fun i hi => ((convElemsI_fresh o lim _ _ (n + 1) l q hq).2.1 i hi).1)
      · cases h
theorem convElemsI_nodup (o : Opts) (lim : Limit) (nh : Bool) :
    ∀ (b : Option Nat) (n : Nat) (l : List Obj) (p : List Obj × Nat),
    convElemsI o lim nh b n l = .ok p → (nodeIdsL p.1).Nodup
  | b, n, [], p, h => by
      simp only [convElemsI, Except.ok.injEq] at h
      subst h; simp [nodeIdsL]
  | b, n, x :: xs, p, h => by
      simp only [convElemsI] at h
      split at h
      · cases h
      · split at h
        · cases h
        · rename_i a ha
          split at h
          · cases h
          · split at h
            · cases h
            · rename_i r hr
              simp only [Except.ok.injEq] at h; subst h
              obtain ⟨a1, a2, _, _⟩ := convOutI_fresh o lim n x a ha
              obtain ⟨b1, b2, _, _⟩ := convElemsI_fresh o lim nh _ a.2 xs r hr
              exact nodup_append_ranges (m := a.2) (convOutI_nodup o lim n x a ha)
                (convElemsI_nodup o lim nh _ a.2 xs r hr) (fun i hi => (a2 i hi).2) (fun i hi => (b2 i hi).1)
theorem convPairsI_nodup (o : Opts) (lim : Limit) :
    ∀ (n : Nat) (l : List (Obj × Obj)) (p : List (Obj × Obj) × Nat),
    convPairsI o lim n l = .ok p → (nodeIdsP p.1).Nodup
  | n, [], p, h => by
      simp only [convPairsI, Except.ok.injEq] at h
      subst h; simp [nodeIdsP]
  | n, (k, v) :: r, p, h => by
      simp only [convPairsI] at h
      split at h
      · cases h
      · rename_i a ha
        split at h
        · cases h
        · rename_i b hb
          split at h
          · cases h
          · split at h
            · cases h
            · rename_i c hc
              simp only [Except.ok.injEq] at h; subst h
              obtain ⟨a1, a2, _, _⟩ := convOutI_fresh o lim n v a ha
              obtain ⟨b1, b2, _, _⟩ := convOutI_fresh o lim a.2 k b hb
              obtain ⟨c1, c2, _, _⟩ := convPairsI_fresh o lim b.2 r c hc
              simp only [nodeIdsP]
              refine nodup_append_ranges (m := b.2) ?_ (convPairsI_nodup o lim b.2 r c hc) ?_
                (fun i hi => (c2 i hi).1)
              · refine List.nodup_append.mpr ⟨convOutI_nodup o lim a.2 k b hb, convOutI_nodup o lim n v a ha, ?_⟩
                intro x hx y hy hxy
                have := b2 x hx
                have := a2 y hy
                omega
              · intro i hi
                simp only [List.mem_append] at hi
                rcases hi with hi | hi
                · exact (b2 i hi).2
                · have := a2 i hi; omega
end

/-- **C09.convert_output_fresh** (all values, all depths, all four option combinations, every limit).
    Whenever `convert_output_data` succeeds on a value `v` - whatever `v` is made of: raw host lists and
    dicts, yaql's frozen containers, iterators, views - then every container object of the result was
    allocated by this call (identity in `[n, n')`, so none is an object of `v` or of anything that existed
    before), the objects are pairwise distinct (a tree: changing one node of the result changes no other),
    the result holds no lazily wrapped source, and its content is the one C10 proves plain.  Opaque
    non-iterable host objects (`Scalar.host`) are handed out as they are (`else: return obj`) - the only
    objects of `v` that survive, and only those. -/
theorem convert_output_fresh (o : Opts) (lim : Limit) (n : Nat) (v r : Obj) (n' : Nat)
    (h : convOutI o lim n v = .ok (r, n')) :
    n ≤ n' ∧ (∀ i ∈ nodeIds r, n ≤ i ∧ i < n') ∧ (nodeIds r).Nodup ∧ srcRefs r = [] ∧
    (∀ x ∈ hostLeaves r, x ∈ hostLeaves v) ∧ convOut o lim (erase v) = .ok (erase r) := by
  obtain ⟨h1, h2, h3, h4⟩ := convOutI_fresh o lim n v (r, n') h
  refine ⟨h1, h2, convOutI_nodup o lim n v (r, n') h, h3, h4, ?_⟩
  rw [← convOutI_erase o lim n v, h]; rfl

/-- **C09.convert_output_no_alias_with_conversion_off.**  One evaluation as the host sees it
    (`hostEval`): `$` is bound to the converted data or - `yaql.convertInputData` off - to the host's own
    object `d`; the expression is **any** function of that value (it may return it, parts of it, or new
    containers holding parts of it: raw host lists and dicts flow through); the default `#finalize`
    converts the outcome.  If output conversion is on (the default), the finalised result shares **no
    container object with the host document**, in both input modes, for every option combination:
    `convert_output_data` rebuilds every Mapping (keys and values), every Set, every tuple / list
    (elements included) and every other iterable.  The guard is exact: see `output_conversion_off_aliases`. -/
theorem convert_output_no_alias_with_conversion_off (convertInput : Bool) (o : Opts) (lim : Limit)
    (f : Obj → Nat → Obj × Nat) (hf : ∀ x m, m ≤ (f x m).2)
    (n : Nat) (d : Obj) (hd : ∀ i ∈ nodeIds d, i < n) (r : Obj) (n' : Nat)
    (h : hostEval convertInput true o lim f n d = .ok (r, n')) :
    (∀ i ∈ nodeIds r, i ∉ nodeIds d) ∧ srcRefs r = [] ∧ (nodeIds r).Nodup := by
  simp only [hostEval, finalize, if_true] at h
  obtain ⟨_, h2, h3, h4, _, _⟩ := convert_output_fresh o lim _ _ r n' h
  refine ⟨?_, h4, h3⟩
  intro i hi hmem
  have h5 := (h2 i hi).1
  have h6 := hf (bindDollar convertInput n d).1 (bindDollar convertInput n d).2
  have h7 : n ≤ (bindDollar convertInput n d).2 := by
    unfold bindDollar
    cases convertInput
    · simp
    · simpa using (convInI_range n d).1
  have := hd i hmem
  omega

/-- identities of the container objects of an outcome, and the next free identity -/
def resIds : Except Err (Obj × Nat) → Option (List Nat × Nat)
  | .ok p => some (nodeIds p.1, p.2)
  | .error _ => none

/-- with `yaql.convertInputData` **and** `yaql.convertOutputData` both off, `$` hands the host its own
    list back: the guard "output conversion on" cannot be dropped (modelled as implemented; the engine
    option says what it does) -/
theorem output_conversion_off_aliases :
    resIds (hostEval false false {} none (fun x m => (x, m)) 2 (.seq 0 .list [.map 1 .dict []]))
      = some ([0, 1], 2) := by
  decide

/-- ... whereas with input conversion on even the unfinalised `$` is a frozen copy sharing nothing -/
theorem output_conversion_off_input_on (o : Opts) (lim : Limit) (n : Nat) (d : Obj)
    (hd : ∀ i ∈ nodeIds d, i < n) (he : eagerDoc d = true) (r : Obj) (n' : Nat)
    (h : hostEval true false o lim (fun x m => (x, m)) n d = .ok (r, n')) :
    frozen r = true ∧ ∀ i ∈ nodeIds r, i ∉ nodeIds d := by
  simp only [hostEval, finalize, bindDollar, if_true, Bool.false_eq_true, if_false, Except.ok.injEq,
    Prod.mk.injEq] at h
  obtain ⟨h1, h2⟩ := h
  subst h1
  obtain ⟨_, c2, _, c4⟩ := convert_input_fresh n d hd
  exact ⟨(c4 he).1, fun i hi => (c2 i hi).1⟩

/-- non-vacuity: conversion off, `$.a` picks the host's own list out of the host's own dict, the result is
    a new list with a new (rebuilt) set inside -/
example :
    resIds (hostEval false true {} none
        (fun x m => match x with | .map _ _ ((_, v) :: _) => (v, m) | y => (y, m)) 3
        (.map 0 .dict [(.sc (.str ['a']), .seq 1 .list [.seq 2 .set [.sc (.int 1)]])]))
      = some ([3, 4], 5) := by
  decide

end Yaql.Props.C09
