import Yaql.Props.C06
/-!
C06, non-transitive specialization.

"More specific than" on parameter lists (`moreSpecific` = `_is_specialization_of`) compares position by
position; a position whose two types are unrelated classes (multiple inheritance) or where one type is
a tuple of classes is NEUTRAL.  The relation is asymmetric but NOT transitive: `A > B` and `B > C` do
not give `A > C`.  `C06.perm_invariant` does not care (the repaired selection compares ALL pairs, and
each stage is a function of the SET of matches); this file makes that explicit:

* `moreSpecific_asymm`;
* `nontransitive_triple_ambiguous`: three matches with `A > B`, `B > C` and not `A > C` have no winner -
  `Ambiguous` for every enumeration order, for every class graph;
* `Ex.specialization_not_transitive`, `Ex.nontransitive_every_order` (by `decide`, both through unrelated
  classes and through tuple types), `Ex.resolve_nontransitive_every_order` (through the whole
  code-shaped `resolve`, all six orders);
* the contrasting design `selectPruned` (a candidate that is less specific than one matched EARLIER in
  the enumeration is dropped before binding) answers `A` or `Ambiguous` depending on the order
  (`Ex.pruned_order_dependent`), although it agrees with `choose` whenever the relation is transitive on
  the matches (`Ex.pruned_agrees_on_transitive`: the one-below-two family in all orders).
-/
namespace Yaql.Props.C06NonTrans
open Yaql.Types Yaql.Resolve Yaql.Props.C05 Yaql.Props.C06

theorem zip_swap' {α β : Type} : ∀ (l1 : List α) (l2 : List β), l2.zip l1 = (l1.zip l2).map Prod.swap
  | [], l2 => by cases l2 <;> simp
  | _ :: _, [] => by simp
  | a :: l1, b :: l2 => by simp [zip_swap' l1 l2]

theorem typePairs_swap (m1 m2 : Mapping) : m2.typePairs m1 = (m1.typePairs m2).map Prod.swap := by
  simp only [Mapping.typePairs, List.map_append, List.map_map, zip_swap' m1.pos m2.pos, zip_swap' m1.kwd m2.kwd]
  rfl

/-- "more specific than" is asymmetric, for every class graph -/
theorem moreSpecific_asymm (L : Lattice) (m1 m2 : Mapping) (h : moreSpecific L m1 m2 = true) :
    moreSpecific L m2 m1 = false := by
  simp only [moreSpecific, Bool.and_eq_true, List.all_eq_true, List.any_eq_true] at h
  obtain ⟨_, p, hp, hs⟩ := h
  unfold moreSpecific
  rw [typePairs_swap m1 m2, Bool.and_eq_false_iff]
  left
  rw [List.all_eq_false]
  exact ⟨p.swap, List.mem_map.mpr ⟨p, hp, rfl⟩, by simpa using hs⟩

/-- **a non-transitive triple has no winner, in any order**: `A > B`, `B > C`, not `A > C` -
    nobody is more specific than both others, so the call is ambiguous however the layer
    enumerates the three (`choose` is what `C05.resolve_eq_spec` shows the code to compute) -/
theorem nontransitive_triple_ambiguous (L : Lattice) (a b c : Match)
    (hab : moreSpecific L a.cand.mapping b.cand.mapping = true)
    (hbc : moreSpecific L b.cand.mapping c.cand.mapping = true)
    (hac : moreSpecific L a.cand.mapping c.cand.mapping = false)
    (iab : a.cand.fd.id ≠ b.cand.fd.id) (ibc : b.cand.fd.id ≠ c.cand.fd.id) (iac : a.cand.fd.id ≠ c.cand.fd.id) :
    ∀ ms, ms.Perm [a, b, c] → choose L ms = .error .ambiguous := by
  intro ms h
  rw [choose_perm L h]
  have hba := moreSpecific_asymm L _ _ hab
  have hcb := moreSpecific_asymm L _ _ hbc
  have e1 : (c.cand.fd.id == a.cand.fd.id) = false := by simpa using Ne.symm iac
  have e2 : (a.cand.fd.id == b.cand.fd.id) = false := by simpa using iab
  have e3 : (b.cand.fd.id == c.cand.fd.id) = false := by simpa using ibc
  simp [choose, best, List.filter, hac, hba, hcb, e1, e2, e3]

/-! ## witnesses -/

/-- the single pass with pruning: before a candidate is bound, it is dropped when a match found
    EARLIER in the enumeration is more specific than it; the winner is then chosen among the kept
    matches as `choose` does -/
def pruneLoop (L : Lattice) : List Match → List Match → List Match
  | kept, [] => kept
  | kept, m :: r =>
      if kept.any (fun k => moreSpecific L k.cand.mapping m.cand.mapping) then pruneLoop L kept r
      else pruneLoop L (kept ++ [m]) r

def selectPruned (L : Lattice) (ms : List Match) : Except Err (Nat × Bound) := choose L (pruneLoop L [] ms)

namespace Ex
open Yaql.Props.C05.Ex Yaql.Props.C06.Ex

/-- classes: 0 object, 1 Shape, 2 Square (< Shape), 3 Red, 4 RedSquare (< Square, Red), 5 int,
    6 bool (< int), 7 marker, 8 tuple, 9 list, 10 Sequence (> tuple, list), 11 str -/
def subPairsMI : List (Nat × Nat) :=
  (List.range 12).map (fun i => (i, i)) ++ (List.range 12).map (fun i => (i, 0)) ++
  [(2,1),(4,2),(4,1),(4,3),(6,5),(8,10),(9,10)]
def latMI : Lattice := { sub := fun a b => subPairsMI.contains (a, b), marker := .obj 7 [] 0 }

/-- `A(flag: bool, item: Shape)`, `B(flag: int, item: Red)`, `C(flag: object, item: Square)` -/
def nA := mk (fn 0 [pos 'a' 0 (cls 6), pos 'b' 1 (cls 1)])
def nB := mk (fn 1 [pos 'a' 0 (cls 5), pos 'b' 1 (cls 3)])
def nC := mk (fn 2 [pos 'a' 0 (cls 0), pos 'b' 1 (cls 2)])

/-- the same through tuple types, which are never ordered:
    `A(bool, (tuple, list))`, `B(int, tuple)`, `C((int, str), Sequence)` -/
def tA := mk (fn 0 [pos 'a' 0 (cls 6), pos 'b' 1 (.py (.many [8, 9]) false [])])
def tB := mk (fn 1 [pos 'a' 0 (cls 5), pos 'b' 1 (cls 8)])
def tC := mk (fn 2 [pos 'a' 0 (.py (.many [5, 11]) false []), pos 'b' 1 (cls 10)])

/-- "more specific than" is not transitive (unrelated classes `Shape` / `Red` / `Square` under one
    `RedSquare`; tuple-typed parameters) -/
theorem specialization_not_transitive :
    (moreSpecific latMI nA.cand.mapping nB.cand.mapping = true ∧
     moreSpecific latMI nB.cand.mapping nC.cand.mapping = true ∧
     moreSpecific latMI nA.cand.mapping nC.cand.mapping = false ∧
     moreSpecific latMI nC.cand.mapping nA.cand.mapping = false) ∧
    (moreSpecific latMI tA.cand.mapping tB.cand.mapping = true ∧
     moreSpecific latMI tB.cand.mapping tC.cand.mapping = true ∧
     moreSpecific latMI tA.cand.mapping tC.cand.mapping = false ∧
     moreSpecific latMI tC.cand.mapping tA.cand.mapping = false) := by decide

/-- both triples: `Ambiguous` in every enumeration order (instances of the theorem, hypotheses by
    `decide`) -/
theorem nontransitive_every_order :
    (∀ ms, ms.Perm [nA, nB, nC] → choose latMI ms = .error .ambiguous) ∧
    (∀ ms, ms.Perm [tA, tB, tC] → choose latMI ms = .error .ambiguous) :=
  ⟨nontransitive_triple_ambiguous latMI nA nB nC (by decide) (by decide) (by decide) (by decide) (by decide) (by decide),
   nontransitive_triple_ambiguous latMI tA tB tC (by decide) (by decide) (by decide) (by decide) (by decide) (by decide)⟩

/-- the six orders, spelled out -/
example : [[nA, nB, nC], [nA, nC, nB], [nB, nA, nC], [nB, nC, nA], [nC, nA, nB], [nC, nB, nA]].all
    (fun ms => choose latMI ms == .error .ambiguous) = true := by decide

/-- **the pruning selection depends on the enumeration order** on exactly these families: `B`
    before `C` drops `C` (dominated by `B`), and then `A` beats everything that is left -/
theorem pruned_order_dependent :
    selectPruned latMI [nB, nA, nC] = .ok (0, nA.bound) ∧
    selectPruned latMI [nB, nC, nA] = .ok (0, nA.bound) ∧
    selectPruned latMI [nA, nB, nC] = .error .ambiguous ∧
    selectPruned latMI [nC, nB, nA] = .error .ambiguous ∧
    selectPruned latMI [tB, tA, tC] = .ok (0, tA.bound) ∧
    selectPruned latMI [tA, tB, tC] = .error .ambiguous := by decide

/-- where the relation is transitive on the matches the pruning selection is right in every order
    (the one-below-two family `A(D,D)`, `B(L,Base)`, `C(Base,R)`): such families cannot tell the two apart -/
theorem pruned_agrees_on_transitive :
    [[mA, mB, mC], [mA, mC, mB], [mB, mA, mC], [mB, mC, mA], [mC, mA, mB], [mC, mB, mA]].all
      (fun ms => selectPruned C05.Ex.lat ms == choose C05.Ex.lat ms) = true := by decide

/-- through the whole code-shaped model: `f(True, RedSquare())` against the three overloads in one
    layer, in all six enumeration orders -/
def fA := fn 0 [pos 'a' 0 (cls 6), pos 'b' 1 (cls 1)]
def fB := fn 1 [pos 'a' 0 (cls 5), pos 'b' 1 (cls 3)]
def fC := fn 2 [pos 'a' 0 (cls 0), pos 'b' 1 (cls 2)]
def callTR : Call :=
  { receiver := none, args := [.expr 2 1 true (.obj 6 [] 1), .expr 2 2 true (.obj 4 [] 2)], kwargs := [] }

theorem resolve_nontransitive_every_order :
    [[fA, fB, fC], [fA, fC, fB], [fB, fA, fC], [fB, fC, fA], [fC, fA, fB], [fC, fB, fA]].all
      (fun fns => (resolve latMI [{ fns := fns, exclusive := false }] callTR).res == .error .ambiguous
                  && (resolve latMI [{ fns := fns, exclusive := false }] callTR).log == [1, 2]) = true := by
  decide +kernel

end Ex

end Yaql.Props.C06NonTrans
