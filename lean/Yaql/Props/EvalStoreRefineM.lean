import Yaql.Props.EvalStoreRefine
/-! Refinement, part 2: the methods (`callMethodS` against `callMethod`), one lemma per overload. -/
namespace Yaql.Props.EvalStore
open Yaql Yaql.Value Yaql.Eval Yaql.EvalStore
open Yaql.Context (alookup aset normName)

theorem ObjRel.val {s : St} (v : Value) : ObjRel s (.data (.val v)) (.val v) := ObjRel.data (by intro C h; cases h)
theorem ObjRel.lazy {s : St} (a : VL) (b : Option Err) : ObjRel s (.data (.lazy a b)) (.lazy a b) :=
  ObjRel.data (by intro C h; cases h)
theorem ObjRel.ordered {s : St} (a : VL) (b : Option Err) : ObjRel s (.data (.ordered a b)) (.ordered a b) :=
  ObjRel.data (by intro C h; cases h)

theorem sim_callPure {α : Type} (x : R α) (s : St) (c : Nat) (C : Ctx) (hwf : WF s.cells) (hC : CtxRel s c C) :
    Post QEq s (callPure c x s) x := by
  unfold EvalStore.callPure
  cases x with
  | ok o => exact post_child hwf hC (fun s1 _ hwf1 _ _ => post_pure hwf1 rfl)
  | error e =>
    simp only
    split
    · exact post_fail _ hwf
    · exact post_child hwf hC (fun s1 _ hwf1 _ _ => post_fail _ hwf1)

theorem plus_fn (F : Nat) (C : Ctx) (s1 : St) (hF : CtxRel s1 F C) (a : Value) :
    SimFn s1 (plusS F a) (binopV .add a) := by
  intro s2 b hwf2 hle2
  unfold EvalStore.plusS
  exact post_child hwf2 (hF.mono hle2 hwf2) (fun s3 Dl hwf3 _ hDl => sim_callPure _ s3 Dl C hwf3 hDl)

theorem post_lazy_or_bad (o : Obj) (bad : Err) (s : St) (hwf : WF s.cells) :
    Post ObjRel s ((if isLazyS (.data o) then (fail .outOfDomain : M ObjS) else fail bad) s)
      (if isLazy o then .error .outOfDomain else .error bad) := by
  have e : isLazyS (.data o) = isLazy o := rfl
  rw [e]
  by_cases hb : isLazy o = true
  · rw [if_pos hb, if_pos hb]; exact post_fail _ hwf
  · rw [if_neg hb, if_neg hb]; exact post_fail _ hwf

theorem post_ite {Q : St → α → β → Prop} {s : St} {c : Prop} [Decidable c] {a b : M α} {a' b' : R β}
    (h1 : c → Post Q s (a s) a') (h2 : ¬c → Post Q s (b s) b') :
    Post Q s ((if c then a else b) s) (if c then a' else b') := by
  by_cases h : c
  · rw [if_pos h, if_pos h]; exact h1 h
  · rw [if_neg h, if_neg h]; exact h2 h

theorem child_ite {γ : Type} (c : Prop) [Decidable c] (p : Nat) (A B : Nat → M γ) :
    (childCtx p >>= fun F => if c then A F else B F) = if c then (childCtx p >>= A) else (childCtx p >>= B) := by
  split <;> rfl

section
variable {evS : EvS} {ev : Ev} (hev : SimEv evS ev)
include hev

theorem lamV_fn (F : Nat) (C : Ctx) (l : Expr) (s1 : St) (hF : CtxRel s1 F C) :
    SimFn s1 (fun x => lamVS evS F l [x]) (fun x => lamV ev C l [x]) :=
  fun s2 x hwf2 hle2 => sim_lamV hev F C l [x] s2 hwf2 (hF.mono hle2 hwf2)

theorem lamB_fn (F : Nat) (C : Ctx) (l : Expr) (s1 : St) (hF : CtxRel s1 F C) :
    SimFn s1 (fun x => lamBS evS F l [x]) (fun x => lamB ev C l [x]) :=
  fun s2 x hwf2 hle2 => sim_lamB hev F C l [x] s2 hwf2 (hF.mono hle2 hwf2)

theorem lamMany_fn (F : Nat) (C : Ctx) (l : Expr) (s1 : St) (hF : CtxRel s1 F C) :
    SimFn s1 (lamManyS evS F l) (lamMany ev C l) :=
  fun s2 x hwf2 hle2 => sim_lamMany hev F C l x s2 hwf2 (hF.mono hle2 hwf2)

theorem lamV2_fn (F : Nat) (C : Ctx) (l : Expr) (s1 : St) (hF : CtxRel s1 F C) (a : Value) :
    SimFn s1 (fun b => lamVS evS F l [a, b]) (fun b => lamV ev C l [a, b]) :=
  fun s2 x hwf2 hle2 => sim_lamV hev F C l [a, x] s2 hwf2 (hF.mono hle2 hwf2)

theorem lamNotB_fn (F : Nat) (C : Ctx) (l : Expr) (s1 : St) (hF : CtxRel s1 F C) :
    SimFn s1 (fun x => do let b ← lamBS evS F l [x]; (Pure.pure (!b) : M Bool))
      (fun x => do let b ← lamB ev C l [x]; (Pure.pure (!b) : R Bool)) :=
  fun s2 x hwf2 hle2 => post_bind_eq (sim_lamB hev F C l [x] s2 hwf2 (hF.mono hle2 hwf2))
    (fun s3 b hwf3 _ => post_pure hwf3 rfl)

variable (Ca : Nat) (C : Ctx) (bad : Err) (r : ObjS) (r' : Obj) (s : St)
  (hwf : WF s.cells) (hC : CtxRel s Ca C) (hr : ObjRel s r r')
include hwf hC hr

theorem sim_select (l : Expr) :
    Post ObjRel s (callMethodS evS Ca bad r .select [l] s) (callMethod ev C bad r' .select [l]) := by
  simp only [callMethodS, callMethod]
  rw [toIterS_rel hr]
  cases toIter r' with
  | none => exact post_fail _ hwf
  | some it =>
    obtain ⟨xs, e⟩ := it
    refine post_child hwf hC (fun s1 F hwf1 hle1 hF => ?_)
    exact post_bind_eq (sim_mapL (lamV_fn hev F C l s1 hF) xs e s1 hwf1 (Ext.refl _))
      (fun s2 r hwf2 _ => post_pure hwf2 (ObjRel.lazy _ _))

theorem sim_where (l : Expr) :
    Post ObjRel s (callMethodS evS Ca bad r .where_ [l] s) (callMethod ev C bad r' .where_ [l]) := by
  simp only [callMethodS, callMethod]
  rw [toIterS_rel hr]
  cases toIter r' with
  | none => exact post_fail _ hwf
  | some it =>
    obtain ⟨xs, e⟩ := it
    refine post_child hwf hC (fun s1 F hwf1 hle1 hF => ?_)
    exact post_bind_eq (sim_filterL (lamB_fn hev F C l s1 hF) xs e s1 hwf1 (Ext.refl _))
      (fun s2 r hwf2 _ => post_pure hwf2 (ObjRel.lazy _ _))

theorem sim_selectMany (l : Expr) :
    Post ObjRel s (callMethodS evS Ca bad r .selectMany [l] s) (callMethod ev C bad r' .selectMany [l]) := by
  simp only [callMethodS, callMethod]
  rw [toIterS_rel hr]
  cases toIter r' with
  | none => exact post_fail _ hwf
  | some it =>
    obtain ⟨xs, e⟩ := it
    refine post_child hwf hC (fun s1 F hwf1 hle1 hF => ?_)
    exact post_bind_eq (sim_flatMapL (lamMany_fn hev F C l s1 hF) xs e s1 hwf1 (Ext.refl _))
      (fun s2 r hwf2 _ => post_pure hwf2 (ObjRel.lazy _ _))

theorem sim_takeWhile (l : Expr) :
    Post ObjRel s (callMethodS evS Ca bad r .takeWhile [l] s) (callMethod ev C bad r' .takeWhile [l]) := by
  simp only [callMethodS, callMethod]
  rw [toIterS_rel hr]
  cases toIter r' with
  | none => exact post_fail _ hwf
  | some it =>
    obtain ⟨xs, e⟩ := it
    refine post_child hwf hC (fun s1 F hwf1 hle1 hF => ?_)
    exact post_bind_eq (sim_takeWhileL (lamB_fn hev F C l s1 hF) xs e s1 hwf1 (Ext.refl _))
      (fun s2 r hwf2 _ => post_pure hwf2 (ObjRel.lazy _ _))

theorem sim_skipWhile (l : Expr) :
    Post ObjRel s (callMethodS evS Ca bad r .skipWhile [l] s) (callMethod ev C bad r' .skipWhile [l]) := by
  simp only [callMethodS, callMethod]
  rw [toIterS_rel hr]
  cases toIter r' with
  | none => exact post_fail _ hwf
  | some it =>
    obtain ⟨xs, e⟩ := it
    refine post_child hwf hC (fun s1 F hwf1 hle1 hF => ?_)
    exact post_bind_eq (sim_dropWhileL (lamB_fn hev F C l s1 hF) xs e s1 hwf1 (Ext.refl _))
      (fun s2 r hwf2 _ => post_pure hwf2 (ObjRel.lazy _ _))

theorem sim_orderBy (l : Expr) :
    Post ObjRel s (callMethodS evS Ca bad r .orderBy [l] s) (callMethod ev C bad r' .orderBy [l]) := by
  simp only [callMethodS, callMethod]
  rw [toIterS_rel hr]
  cases toIter r' with
  | none => exact post_fail _ hwf
  | some it =>
    obtain ⟨xs, e⟩ := it
    cases e with
    | some er => exact post_child hwf hC (fun s1 F hwf1 _ _ => post_pure hwf1 (ObjRel.ordered _ _))
    | none =>
      refine post_child hwf hC (fun s1 F hwf1 hle1 hF => ?_)
      by_cases hlen : xs.length ≤ 1
      · simp only [hlen, if_true]
        exact post_bind_eq (post_pure hwf1 rfl)
          (fun s2 ks hwf2 _ => post_bind_eq (post_liftR _ hwf2) (fun s3 sr hwf3 _ => post_pure hwf3 (ObjRel.ordered _ _)))
      · simp only [hlen, if_false]
        exact post_bind_eq (sim_keysL (lamV_fn hev F C l s1 hF) xs s1 hwf1 (Ext.refl _))
          (fun s2 ks hwf2 _ => post_bind_eq (post_liftR _ hwf2) (fun s3 sr hwf3 _ => post_pure hwf3 (ObjRel.ordered _ _)))

theorem sim_orderByDescending (l : Expr) :
    Post ObjRel s (callMethodS evS Ca bad r .orderByDescending [l] s) (callMethod ev C bad r' .orderByDescending [l]) := by
  simp only [callMethodS, callMethod]
  rw [toIterS_rel hr]
  cases toIter r' with
  | none => exact post_fail _ hwf
  | some it =>
    obtain ⟨xs, e⟩ := it
    cases e with
    | some er => exact post_child hwf hC (fun s1 F hwf1 _ _ => post_pure hwf1 (ObjRel.ordered _ _))
    | none =>
      refine post_child hwf hC (fun s1 F hwf1 hle1 hF => ?_)
      by_cases hlen : xs.length ≤ 1
      · simp only [hlen, if_true]
        exact post_bind_eq (post_pure hwf1 rfl)
          (fun s2 ks hwf2 _ => post_bind_eq (post_liftR _ hwf2) (fun s3 sr hwf3 _ => post_pure hwf3 (ObjRel.ordered _ _)))
      · simp only [hlen, if_false]
        exact post_bind_eq (sim_keysL (lamV_fn hev F C l s1 hF) xs s1 hwf1 (Ext.refl _))
          (fun s2 ks hwf2 _ => post_bind_eq (post_liftR _ hwf2) (fun s3 sr hwf3 _ => post_pure hwf3 (ObjRel.ordered _ _)))


theorem sim_any0 :
    Post ObjRel s (callMethodS evS Ca bad r .any [] s) (callMethod ev C bad r' .any []) := by
  simp only [callMethodS, callMethod]
  rw [toIterS_rel hr]
  cases toIter r' with
  | none => exact post_fail _ hwf
  | some it =>
    obtain ⟨xs, e⟩ := it
    refine post_child hwf hC (fun s1 F hwf1 hle1 hF => ?_)
    exact post_bind_eq (post_liftR _ hwf1) (fun s2 hit hwf2 _ => post_pure hwf2 (ObjRel.val _))

theorem sim_any1 (l : Expr) :
    Post ObjRel s (callMethodS evS Ca bad r .any [l] s) (callMethod ev C bad r' .any [l]) := by
  simp only [callMethodS, callMethod]
  rw [toIterS_rel hr]
  cases toIter r' with
  | none => exact post_fail _ hwf
  | some it =>
    obtain ⟨xs, e⟩ := it
    refine post_child hwf hC (fun s1 F hwf1 hle1 hF => ?_)
    exact post_bind_eq (sim_findL (lamB_fn hev F C l s1 hF) xs e 0 s1 hwf1 (Ext.refl _))
      (fun s2 hit hwf2 _ => post_pure hwf2 (ObjRel.val _))

theorem sim_all0 :
    Post ObjRel s (callMethodS evS Ca bad r .all [] s) (callMethod ev C bad r' .all []) := by
  simp only [callMethodS, callMethod]
  rw [toIterS_rel hr]
  cases toIter r' with
  | none => exact post_fail _ hwf
  | some it =>
    obtain ⟨xs, e⟩ := it
    refine post_child hwf hC (fun s1 F hwf1 hle1 hF => ?_)
    exact post_bind_eq (post_liftR _ hwf1) (fun s2 hit hwf2 _ => post_pure hwf2 (ObjRel.val _))

theorem sim_all1 (l : Expr) :
    Post ObjRel s (callMethodS evS Ca bad r .all [l] s) (callMethod ev C bad r' .all [l]) := by
  simp only [callMethodS, callMethod]
  rw [toIterS_rel hr]
  cases toIter r' with
  | none => exact post_fail _ hwf
  | some it =>
    obtain ⟨xs, e⟩ := it
    refine post_child hwf hC (fun s1 F hwf1 hle1 hF => ?_)
    exact post_bind_eq (sim_findL (lamNotB_fn hev F C l s1 hF) xs e 0 s1 hwf1 (Ext.refl _))
      (fun s2 hit hwf2 _ => post_pure hwf2 (ObjRel.val _))

theorem sim_indexWhere (l : Expr) :
    Post ObjRel s (callMethodS evS Ca bad r .indexWhere [l] s) (callMethod ev C bad r' .indexWhere [l]) := by
  simp only [callMethodS, callMethod]
  rw [toIterS_rel hr]
  cases toIter r' with
  | none => exact post_fail _ hwf
  | some it =>
    obtain ⟨xs, e⟩ := it
    refine post_child hwf hC (fun s1 F hwf1 hle1 hF => ?_)
    exact post_bind_eq (sim_findL (lamB_fn hev F C l s1 hF) xs e 0 s1 hwf1 (Ext.refl _))
      (fun s2 hit hwf2 _ => post_pure hwf2 (ObjRel.val _))

theorem sim_toDict1 (k : Expr) :
    Post ObjRel s (callMethodS evS Ca bad r .toDict [k] s) (callMethod ev C bad r' .toDict [k]) := by
  simp only [callMethodS, callMethod]
  rw [toIterS_rel hr]
  cases toIter r' with
  | none => exact post_fail _ hwf
  | some it =>
    obtain ⟨xs, e⟩ := it
    refine post_child hwf hC (fun s1 F hwf1 hle1 hF => ?_)
    have hid : SimFn s1 (fun x => (Pure.pure x : M Value)) (fun x => (Except.ok x : R Value)) :=
      fun s2 x hwf2 _ => post_pure hwf2 rfl
    exact post_bind_eq (sim_toDictL (lamV_fn hev F C k s1 hF) hid xs e [] s1 hwf1 (Ext.refl _))
      (fun s2 d hwf2 _ => post_pure hwf2 (ObjRel.val _))

theorem sim_toDict2 (k v : Expr) :
    Post ObjRel s (callMethodS evS Ca bad r .toDict [k, v] s) (callMethod ev C bad r' .toDict [k, v]) := by
  simp only [callMethodS, callMethod]
  rw [toIterS_rel hr]
  cases toIter r' with
  | none => exact post_fail _ hwf
  | some it =>
    obtain ⟨xs, e⟩ := it
    refine post_child hwf hC (fun s1 F hwf1 hle1 hF => ?_)
    exact post_bind_eq (sim_toDictL (lamV_fn hev F C k s1 hF) (lamV_fn hev F C v s1 hF) xs e [] s1 hwf1 (Ext.refl _))
      (fun s2 d hwf2 _ => post_pure hwf2 (ObjRel.val _))

theorem sim_aggregate1 (l : Expr) :
    Post ObjRel s (callMethodS evS Ca bad r .aggregate [l] s) (callMethod ev C bad r' .aggregate [l]) := by
  simp only [callMethodS, callMethod]
  rw [toIterS_rel hr]
  cases toIter r' with
  | none => exact post_fail _ hwf
  | some it =>
    obtain ⟨xs, e⟩ := it
    cases xs with
    | nil =>
      cases e with
      | none => exact post_child hwf hC (fun s1 F hwf1 _ _ => post_fail _ hwf1)
      | some er => exact post_child hwf hC (fun s1 F hwf1 _ _ => post_fail _ hwf1)
    | cons x xs =>
      refine post_child hwf hC (fun s1 F hwf1 hle1 hF => ?_)
      exact post_bind_eq (sim_foldL (lamV2_fn hev F C l s1 hF) xs e x s1 hwf1 (Ext.refl _))
        (fun s2 v hwf2 _ => post_pure hwf2 (ObjRel.val _))

theorem sim_aggregate2 (l seed : Expr) :
    Post ObjRel s (callMethodS evS Ca bad r .aggregate [l, seed] s) (callMethod ev C bad r' .aggregate [l, seed]) := by
  simp only [callMethodS, callMethod]
  rw [toIterS_rel hr]
  cases toIter r' with
  | none => exact post_fail _ hwf
  | some it =>
    obtain ⟨xs, e⟩ := it
    refine post_bind (hev s Ca C seed hwf hC) (fun s1 so so' hwf1 hle1 hso => ?_)
    rw [toVS_rel hso]
    refine post_bind_eq (post_liftR _ hwf1) (fun s2 sd hwf2 hle2 => ?_)
    refine post_child hwf2 (hC.mono (hle1.trans hle2) hwf2) (fun s3 F hwf3 hle3 hF => ?_)
    exact post_bind_eq (sim_foldL (lamV2_fn hev F C l s3 hF) xs e sd s3 hwf3 (Ext.refl _))
      (fun s4 v hwf4 _ => post_pure hwf4 (ObjRel.val _))

theorem sim_sum0 :
    Post ObjRel s (callMethodS evS Ca bad r .sum [] s) (callMethod ev C bad r' .sum []) := by
  simp only [callMethodS, callMethod]
  rw [toIterS_rel hr]
  cases toIter r' with
  | none => exact post_fail _ hwf
  | some it =>
    obtain ⟨xs, e⟩ := it
    cases xs with
    | nil =>
      cases e with
      | none => exact post_child hwf hC (fun s1 F hwf1 _ _ => post_fail _ hwf1)
      | some er => exact post_child hwf hC (fun s1 F hwf1 _ _ => post_fail _ hwf1)
    | cons x xs =>
      refine post_child hwf hC (fun s1 F hwf1 hle1 hF => ?_)
      exact post_bind_eq (sim_foldL (plus_fn F C s1 hF) xs e x s1 hwf1 (Ext.refl _))
        (fun s2 v hwf2 _ => post_pure hwf2 (ObjRel.val _))

theorem sim_sum1 (init : Expr) :
    Post ObjRel s (callMethodS evS Ca bad r .sum [init] s) (callMethod ev C bad r' .sum [init]) := by
  simp only [callMethodS, callMethod]
  rw [toIterS_rel hr]
  cases toIter r' with
  | none => exact post_fail _ hwf
  | some it =>
    obtain ⟨xs, e⟩ := it
    refine post_bind (hev s Ca C init hwf hC) (fun s1 so so' hwf1 hle1 hso => ?_)
    rw [toVS_rel hso]
    refine post_bind_eq (post_liftR _ hwf1) (fun s2 sd hwf2 hle2 => ?_)
    refine post_child hwf2 (hC.mono (hle1.trans hle2) hwf2) (fun s3 F hwf3 hle3 hF => ?_)
    exact post_bind_eq (sim_foldL (plus_fn F C s3 hF) xs e sd s3 hwf3 (Ext.refl _))
      (fun s4 v hwf4 _ => post_pure hwf4 (ObjRel.val _))

theorem sim_first0 :
    Post ObjRel s (callMethodS evS Ca bad r .first [] s) (callMethod ev C bad r' .first []) := by
  simp only [callMethodS, callMethod]
  rw [toIterS_rel hr]
  cases toIter r' with
  | none => exact post_fail _ hwf
  | some it =>
    obtain ⟨xs, e⟩ := it
    cases xs with
    | nil =>
      cases e with
      | none => exact post_child hwf hC (fun s1 F hwf1 _ _ => post_fail _ hwf1)
      | some er => exact post_child hwf hC (fun s1 F hwf1 _ _ => post_fail _ hwf1)
    | cons x xs => exact post_child hwf hC (fun s1 F hwf1 _ _ => post_pure hwf1 (ObjRel.val _))

theorem sim_first1 (d : Expr) :
    Post ObjRel s (callMethodS evS Ca bad r .first [d] s) (callMethod ev C bad r' .first [d]) := by
  simp only [callMethodS, callMethod]
  rw [toIterS_rel hr]
  cases toIter r' with
  | none => exact post_fail _ hwf
  | some it =>
    obtain ⟨xs, e⟩ := it
    refine post_bind (hev s Ca C d hwf hC) (fun s1 dobj dobj' hwf1 hle1 hd => ?_)
    refine post_child hwf1 (hC.mono hle1 hwf1) (fun s2 F hwf2 hle2 _ => ?_)
    cases xs with
    | nil =>
      cases e with
      | none => exact post_pure hwf2 (hd.mono hle2 hwf2)
      | some er => exact post_fail _ hwf2
    | cons x xs => exact post_pure hwf2 (ObjRel.val _)

theorem sim_toList :
    Post ObjRel s (callMethodS evS Ca bad r .toList [] s) (callMethod ev C bad r' .toList []) := by
  simp only [callMethodS, callMethod]
  rw [toIterS_rel hr]
  cases toIter r' with
  | none => exact post_fail _ hwf
  | some it =>
    refine post_child hwf hC (fun s1 F hwf1 hle1 hF => ?_)
    exact post_bind_eq (post_liftR _ hwf1) (fun s2 xs hwf2 _ => post_pure hwf2 (ObjRel.val _))


theorem sim_take (n : Expr) :
    Post ObjRel s (callMethodS evS Ca bad r .take [n] s) (callMethod ev C bad r' .take [n]) := by
  simp only [callMethodS, callMethod]
  rw [toIterS_rel hr]
  cases toIter r' with
  | none => exact post_fail _ hwf
  | some it =>
    obtain ⟨xs, e⟩ := it
    refine post_bind (hev s Ca C n hwf hC) (fun s1 no no' hwf1 hle1 hno => ?_)
    have hC1 := hC.mono hle1 hwf1
    cases no with
    | ctx c =>
      cases no' with
      | ctx C' => exact post_fail _ hwf1
      | val v => simp [ObjRel] at hno
      | lazy a b => simp [ObjRel] at hno
      | ordered a b => simp [ObjRel] at hno
    | data d =>
      obtain ⟨rfl, hn⟩ := hno
      cases d with
      | ctx C' => exact absurd rfl (hn C')
      | lazy a b => exact post_fail _ hwf1
      | ordered a b => exact post_fail _ hwf1
      | val v =>
        cases v with
        | int k =>
          refine post_child hwf1 hC1 (fun s2 F hwf2 _ _ => ?_)
          simp only
          split
          · exact post_fail _ hwf2
          · exact post_pure hwf2 (ObjRel.lazy _ _)
        | bool b => exact post_fail _ hwf1
        | _ =>
          exact post_lazy_or_bad _ bad s1 hwf1

theorem sim_skip (n : Expr) :
    Post ObjRel s (callMethodS evS Ca bad r .skip [n] s) (callMethod ev C bad r' .skip [n]) := by
  simp only [callMethodS, callMethod]
  rw [toIterS_rel hr]
  cases toIter r' with
  | none => exact post_fail _ hwf
  | some it =>
    obtain ⟨xs, e⟩ := it
    refine post_bind (hev s Ca C n hwf hC) (fun s1 no no' hwf1 hle1 hno => ?_)
    have hC1 := hC.mono hle1 hwf1
    cases no with
    | ctx c =>
      cases no' with
      | ctx C' => exact post_fail _ hwf1
      | val v => simp [ObjRel] at hno
      | lazy a b => simp [ObjRel] at hno
      | ordered a b => simp [ObjRel] at hno
    | data d =>
      obtain ⟨rfl, hn⟩ := hno
      cases d with
      | ctx C' => exact absurd rfl (hn C')
      | lazy a b => exact post_fail _ hwf1
      | ordered a b => exact post_fail _ hwf1
      | val v =>
        cases v with
        | int k =>
          refine post_child hwf1 hC1 (fun s2 F hwf2 _ _ => ?_)
          simp only
          split
          · exact post_fail _ hwf2
          · exact post_pure hwf2 (ObjRel.lazy _ _)
        | bool b => exact post_fail _ hwf1
        | _ =>
          exact post_lazy_or_bad _ bad s1 hwf1

omit hev in
theorem sim_len :
    Post ObjRel s (callMethodS evS Ca bad r .len [] s) (callMethod ev C bad r' .len []) := by
  simp only [callMethodS, callMethod]
  cases r with
  | ctx c =>
    cases r' with
    | ctx C' => exact post_fail _ hwf
    | val v => simp [ObjRel] at hr
    | lazy a b => simp [ObjRel] at hr
    | ordered a b => simp [ObjRel] at hr
  | data d =>
    obtain ⟨rfl, hn⟩ := hr
    cases d with
    | ctx C' => exact absurd rfl (hn C')
    | lazy a b =>
      refine post_child hwf hC (fun s1 F hwf1 _ _ => ?_)
      exact post_bind_eq (post_liftR _ hwf1) (fun s2 l hwf2 _ => post_pure hwf2 (ObjRel.val _))
    | ordered a b => exact post_fail _ hwf
    | val v =>
      cases v with
      | tuple l => exact post_child hwf hC (fun s1 F hwf1 _ _ => post_pure hwf1 (ObjRel.val _))
      | list l => exact post_child hwf hC (fun s1 F hwf1 _ _ => post_pure hwf1 (ObjRel.val _))
      | iter l => exact post_child hwf hC (fun s1 F hwf1 _ _ => post_pure hwf1 (ObjRel.val _))
      | dict d => exact post_child hwf hC (fun s1 F hwf1 _ _ => post_pure hwf1 (ObjRel.val _))
      | str s => exact post_child hwf hC (fun s1 F hwf1 _ _ => post_pure hwf1 (ObjRel.val _))
      | _ => exact post_fail _ hwf

theorem sim_get1 (k : Expr) :
    Post ObjRel s (callMethodS evS Ca bad r .get [k] s) (callMethod ev C bad r' .get [k]) := by
  simp only [callMethodS, callMethod]
  cases r with
  | ctx c =>
    cases r' with
    | ctx C' => exact post_fail _ hwf
    | val v => simp [ObjRel] at hr
    | lazy a b => simp [ObjRel] at hr
    | ordered a b => simp [ObjRel] at hr
  | data d =>
    obtain ⟨rfl, hn⟩ := hr
    cases d with
    | ctx C' => exact absurd rfl (hn C')
    | lazy a b => exact post_fail _ hwf
    | ordered a b => exact post_fail _ hwf
    | val v =>
      cases v with
      | dict d =>
        refine post_bind (hev s Ca C k hwf hC) (fun s1 ko ko' hwf1 hle1 hko => ?_)
        rw [toVS_rel hko]
        refine post_bind_eq (post_liftR _ hwf1) (fun s2 kv hwf2 hle2 => ?_)
        refine post_child hwf2 (hC.mono (hle1.trans hle2) hwf2) (fun s3 F hwf3 _ _ => ?_)
        split
        · exact post_pure hwf3 (ObjRel.val _)
        · exact post_fail _ hwf3
      | _ => exact post_fail _ hwf

theorem sim_get2 (k dflt : Expr) :
    Post ObjRel s (callMethodS evS Ca bad r .get [k, dflt] s) (callMethod ev C bad r' .get [k, dflt]) := by
  simp only [callMethodS, callMethod]
  cases r with
  | ctx c =>
    cases r' with
    | ctx C' => exact post_fail _ hwf
    | val v => simp [ObjRel] at hr
    | lazy a b => simp [ObjRel] at hr
    | ordered a b => simp [ObjRel] at hr
  | data d =>
    obtain ⟨rfl, hn⟩ := hr
    cases d with
    | ctx C' => exact absurd rfl (hn C')
    | lazy a b => exact post_fail _ hwf
    | ordered a b => exact post_fail _ hwf
    | val v =>
      cases v with
      | dict d =>
        refine post_bind (hev s Ca C k hwf hC) (fun s1 ko ko' hwf1 hle1 hko => ?_)
        rw [toVS_rel hko]
        refine post_bind_eq (post_liftR _ hwf1) (fun s2 kv hwf2 hle2 => ?_)
        have hC2 := hC.mono (hle1.trans hle2) hwf2
        refine post_bind (hev s2 Ca C dflt hwf2 hC2) (fun s3 dobj dobj' hwf3 hle3 hdo => ?_)
        rw [toVS_rel hdo]
        refine post_bind_eq (post_liftR _ hwf3) (fun s4 dv hwf4 hle4 => ?_)
        refine post_child hwf4 (hC2.mono (hle3.trans hle4) hwf4) (fun s5 F hwf5 _ _ => ?_)
        split
        · exact post_pure hwf5 (ObjRel.val _)
        · exact post_fail _ hwf5
      | _ => exact post_fail _ hwf


theorem sim_unpack (names : List Expr) :
    Post ObjRel s (callMethodS evS Ca bad r .unpack names s) (callMethod ev C bad r' .unpack names) := by
  simp only [callMethodS, callMethod]
  rw [toIterS_rel hr]
  cases toIter r' with
  | none => exact post_fail _ hwf
  | some it =>
    obtain ⟨xs, e⟩ := it
    refine post_ite (fun _ => post_fail _ hwf) (fun _ => ?_)
    refine post_bind_eq (sim_evalList hev Ca C names s hwf hC) (fun s1 ns hwf1 hle1 => ?_)
    refine post_ite (fun _ => post_fail _ hwf1) (fun _ => ?_)
    have hC1 := hC.mono hle1 hwf1
    generalize (List.filterMap (fun v => match v with | .str s => some s | _ => none) ns) = strs
    generalize (if strs.length = 0 || xs.length < strs.length + 1 then e else none) = cond
    cases cond with
    | some er =>
      show Post ObjRel s1 ((childCtx Ca >>= fun F =>
        if strs.length = 0 then (publishNamed F (bindPos 1 xs) >>= fun _ => fail er) else fail er) s1) (.error er)
      by_cases hn : strs.length = 0
      · simp only [if_pos hn]
        exact post_child_data (DataWrite.publishNamed _) hwf1 hC1 (fun s2 X hwf2 _ _ => post_fail _ hwf2)
      · simp only [if_neg hn]
        exact post_child hwf1 hC1 (fun s2 F hwf2 _ _ => post_fail _ hwf2)
    | none =>
      rw [child_ite]
      refine post_ite (fun _ => ?_) (fun _ => ?_)
      · refine post_child_data (DataWrite.publishNamed _) hwf1 hC1 (fun s2 X hwf2 _ hX => ?_)
        exact post_pure hwf2 hX
      · rw [child_ite]
        refine post_ite (fun _ => ?_) (fun _ => ?_)
        · exact post_child hwf1 hC1 (fun s2 F hwf2 _ _ => post_fail _ hwf2)
        · refine post_child_data (DataWrite.publishNamed _) hwf1 hC1 (fun s2 X hwf2 _ hX => ?_)
          exact post_pure hwf2 hX


theorem sim_cm_let_ (args : List Expr) :
    Post ObjRel s (callMethodS evS Ca bad r .let_ args s) (callMethod ev C bad r' .let_ args) := by
  rcases args with _ | ⟨a, _ | ⟨b, _ | ⟨c, rest⟩⟩⟩
  · (simp only [callMethodS, callMethod]; exact post_fail _ hwf)
  · (simp only [callMethodS, callMethod]; exact post_fail _ hwf)
  · (simp only [callMethodS, callMethod]; exact post_fail _ hwf)
  · (simp only [callMethodS, callMethod]; exact post_fail _ hwf)

theorem sim_cm_with_ (args : List Expr) :
    Post ObjRel s (callMethodS evS Ca bad r .with_ args s) (callMethod ev C bad r' .with_ args) := by
  rcases args with _ | ⟨a, _ | ⟨b, _ | ⟨c, rest⟩⟩⟩
  · (simp only [callMethodS, callMethod]; exact post_fail _ hwf)
  · (simp only [callMethodS, callMethod]; exact post_fail _ hwf)
  · (simp only [callMethodS, callMethod]; exact post_fail _ hwf)
  · (simp only [callMethodS, callMethod]; exact post_fail _ hwf)

theorem sim_cm_def_ (args : List Expr) :
    Post ObjRel s (callMethodS evS Ca bad r .def_ args s) (callMethod ev C bad r' .def_ args) := by
  rcases args with _ | ⟨a, _ | ⟨b, _ | ⟨c, rest⟩⟩⟩
  · (simp only [callMethodS, callMethod]; exact post_fail _ hwf)
  · (simp only [callMethodS, callMethod]; exact post_fail _ hwf)
  · (simp only [callMethodS, callMethod]; exact post_fail _ hwf)
  · (simp only [callMethodS, callMethod]; exact post_fail _ hwf)

theorem sim_cm_list (args : List Expr) :
    Post ObjRel s (callMethodS evS Ca bad r .list args s) (callMethod ev C bad r' .list args) := by
  rcases args with _ | ⟨a, _ | ⟨b, _ | ⟨c, rest⟩⟩⟩
  · (simp only [callMethodS, callMethod]; exact post_fail _ hwf)
  · (simp only [callMethodS, callMethod]; exact post_fail _ hwf)
  · (simp only [callMethodS, callMethod]; exact post_fail _ hwf)
  · (simp only [callMethodS, callMethod]; exact post_fail _ hwf)

theorem sim_cm_dict (args : List Expr) :
    Post ObjRel s (callMethodS evS Ca bad r .dict args s) (callMethod ev C bad r' .dict args) := by
  rcases args with _ | ⟨a, _ | ⟨b, _ | ⟨c, rest⟩⟩⟩
  · (simp only [callMethodS, callMethod]; exact post_fail _ hwf)
  · (simp only [callMethodS, callMethod]; exact post_fail _ hwf)
  · (simp only [callMethodS, callMethod]; exact post_fail _ hwf)
  · (simp only [callMethodS, callMethod]; exact post_fail _ hwf)

theorem sim_cm_select (args : List Expr) :
    Post ObjRel s (callMethodS evS Ca bad r .select args s) (callMethod ev C bad r' .select args) := by
  rcases args with _ | ⟨a, _ | ⟨b, _ | ⟨c, rest⟩⟩⟩
  · (simp only [callMethodS, callMethod]; exact post_fail _ hwf)
  · exact sim_select hev Ca C bad r r' s hwf hC hr _
  · (simp only [callMethodS, callMethod]; exact post_fail _ hwf)
  · (simp only [callMethodS, callMethod]; exact post_fail _ hwf)

theorem sim_cm_where_ (args : List Expr) :
    Post ObjRel s (callMethodS evS Ca bad r .where_ args s) (callMethod ev C bad r' .where_ args) := by
  rcases args with _ | ⟨a, _ | ⟨b, _ | ⟨c, rest⟩⟩⟩
  · (simp only [callMethodS, callMethod]; exact post_fail _ hwf)
  · exact sim_where hev Ca C bad r r' s hwf hC hr _
  · (simp only [callMethodS, callMethod]; exact post_fail _ hwf)
  · (simp only [callMethodS, callMethod]; exact post_fail _ hwf)

theorem sim_cm_selectMany (args : List Expr) :
    Post ObjRel s (callMethodS evS Ca bad r .selectMany args s) (callMethod ev C bad r' .selectMany args) := by
  rcases args with _ | ⟨a, _ | ⟨b, _ | ⟨c, rest⟩⟩⟩
  · (simp only [callMethodS, callMethod]; exact post_fail _ hwf)
  · exact sim_selectMany hev Ca C bad r r' s hwf hC hr _
  · (simp only [callMethodS, callMethod]; exact post_fail _ hwf)
  · (simp only [callMethodS, callMethod]; exact post_fail _ hwf)

theorem sim_cm_orderBy (args : List Expr) :
    Post ObjRel s (callMethodS evS Ca bad r .orderBy args s) (callMethod ev C bad r' .orderBy args) := by
  rcases args with _ | ⟨a, _ | ⟨b, _ | ⟨c, rest⟩⟩⟩
  · (simp only [callMethodS, callMethod]; exact post_fail _ hwf)
  · exact sim_orderBy hev Ca C bad r r' s hwf hC hr _
  · (simp only [callMethodS, callMethod]; exact post_fail _ hwf)
  · (simp only [callMethodS, callMethod]; exact post_fail _ hwf)

theorem sim_cm_orderByDescending (args : List Expr) :
    Post ObjRel s (callMethodS evS Ca bad r .orderByDescending args s) (callMethod ev C bad r' .orderByDescending args) := by
  rcases args with _ | ⟨a, _ | ⟨b, _ | ⟨c, rest⟩⟩⟩
  · (simp only [callMethodS, callMethod]; exact post_fail _ hwf)
  · exact sim_orderByDescending hev Ca C bad r r' s hwf hC hr _
  · (simp only [callMethodS, callMethod]; exact post_fail _ hwf)
  · (simp only [callMethodS, callMethod]; exact post_fail _ hwf)

theorem sim_cm_takeWhile (args : List Expr) :
    Post ObjRel s (callMethodS evS Ca bad r .takeWhile args s) (callMethod ev C bad r' .takeWhile args) := by
  rcases args with _ | ⟨a, _ | ⟨b, _ | ⟨c, rest⟩⟩⟩
  · (simp only [callMethodS, callMethod]; exact post_fail _ hwf)
  · exact sim_takeWhile hev Ca C bad r r' s hwf hC hr _
  · (simp only [callMethodS, callMethod]; exact post_fail _ hwf)
  · (simp only [callMethodS, callMethod]; exact post_fail _ hwf)

theorem sim_cm_skipWhile (args : List Expr) :
    Post ObjRel s (callMethodS evS Ca bad r .skipWhile args s) (callMethod ev C bad r' .skipWhile args) := by
  rcases args with _ | ⟨a, _ | ⟨b, _ | ⟨c, rest⟩⟩⟩
  · (simp only [callMethodS, callMethod]; exact post_fail _ hwf)
  · exact sim_skipWhile hev Ca C bad r r' s hwf hC hr _
  · (simp only [callMethodS, callMethod]; exact post_fail _ hwf)
  · (simp only [callMethodS, callMethod]; exact post_fail _ hwf)

theorem sim_cm_indexWhere (args : List Expr) :
    Post ObjRel s (callMethodS evS Ca bad r .indexWhere args s) (callMethod ev C bad r' .indexWhere args) := by
  rcases args with _ | ⟨a, _ | ⟨b, _ | ⟨c, rest⟩⟩⟩
  · (simp only [callMethodS, callMethod]; exact post_fail _ hwf)
  · exact sim_indexWhere hev Ca C bad r r' s hwf hC hr _
  · (simp only [callMethodS, callMethod]; exact post_fail _ hwf)
  · (simp only [callMethodS, callMethod]; exact post_fail _ hwf)

theorem sim_cm_take (args : List Expr) :
    Post ObjRel s (callMethodS evS Ca bad r .take args s) (callMethod ev C bad r' .take args) := by
  rcases args with _ | ⟨a, _ | ⟨b, _ | ⟨c, rest⟩⟩⟩
  · (simp only [callMethodS, callMethod]; exact post_fail _ hwf)
  · exact sim_take hev Ca C bad r r' s hwf hC hr _
  · (simp only [callMethodS, callMethod]; exact post_fail _ hwf)
  · (simp only [callMethodS, callMethod]; exact post_fail _ hwf)

theorem sim_cm_skip (args : List Expr) :
    Post ObjRel s (callMethodS evS Ca bad r .skip args s) (callMethod ev C bad r' .skip args) := by
  rcases args with _ | ⟨a, _ | ⟨b, _ | ⟨c, rest⟩⟩⟩
  · (simp only [callMethodS, callMethod]; exact post_fail _ hwf)
  · exact sim_skip hev Ca C bad r r' s hwf hC hr _
  · (simp only [callMethodS, callMethod]; exact post_fail _ hwf)
  · (simp only [callMethodS, callMethod]; exact post_fail _ hwf)

theorem sim_cm_toDict (args : List Expr) :
    Post ObjRel s (callMethodS evS Ca bad r .toDict args s) (callMethod ev C bad r' .toDict args) := by
  rcases args with _ | ⟨a, _ | ⟨b, _ | ⟨c, rest⟩⟩⟩
  · (simp only [callMethodS, callMethod]; exact post_fail _ hwf)
  · exact sim_toDict1 hev Ca C bad r r' s hwf hC hr _
  · exact sim_toDict2 hev Ca C bad r r' s hwf hC hr _ _
  · (simp only [callMethodS, callMethod]; exact post_fail _ hwf)

theorem sim_cm_aggregate (args : List Expr) :
    Post ObjRel s (callMethodS evS Ca bad r .aggregate args s) (callMethod ev C bad r' .aggregate args) := by
  rcases args with _ | ⟨a, _ | ⟨b, _ | ⟨c, rest⟩⟩⟩
  · (simp only [callMethodS, callMethod]; exact post_fail _ hwf)
  · exact sim_aggregate1 hev Ca C bad r r' s hwf hC hr _
  · exact sim_aggregate2 hev Ca C bad r r' s hwf hC hr _ _
  · (simp only [callMethodS, callMethod]; exact post_fail _ hwf)

theorem sim_cm_sum (args : List Expr) :
    Post ObjRel s (callMethodS evS Ca bad r .sum args s) (callMethod ev C bad r' .sum args) := by
  rcases args with _ | ⟨a, _ | ⟨b, _ | ⟨c, rest⟩⟩⟩
  · exact sim_sum0 hev Ca C bad r r' s hwf hC hr
  · exact sim_sum1 hev Ca C bad r r' s hwf hC hr _
  · (simp only [callMethodS, callMethod]; exact post_fail _ hwf)
  · (simp only [callMethodS, callMethod]; exact post_fail _ hwf)

theorem sim_cm_first (args : List Expr) :
    Post ObjRel s (callMethodS evS Ca bad r .first args s) (callMethod ev C bad r' .first args) := by
  rcases args with _ | ⟨a, _ | ⟨b, _ | ⟨c, rest⟩⟩⟩
  · exact sim_first0 hev Ca C bad r r' s hwf hC hr
  · exact sim_first1 hev Ca C bad r r' s hwf hC hr _
  · (simp only [callMethodS, callMethod]; exact post_fail _ hwf)
  · (simp only [callMethodS, callMethod]; exact post_fail _ hwf)

theorem sim_cm_toList (args : List Expr) :
    Post ObjRel s (callMethodS evS Ca bad r .toList args s) (callMethod ev C bad r' .toList args) := by
  rcases args with _ | ⟨a, _ | ⟨b, _ | ⟨c, rest⟩⟩⟩
  · exact sim_toList hev Ca C bad r r' s hwf hC hr
  · (simp only [callMethodS, callMethod]; exact post_fail _ hwf)
  · (simp only [callMethodS, callMethod]; exact post_fail _ hwf)
  · (simp only [callMethodS, callMethod]; exact post_fail _ hwf)

theorem sim_cm_get (args : List Expr) :
    Post ObjRel s (callMethodS evS Ca bad r .get args s) (callMethod ev C bad r' .get args) := by
  rcases args with _ | ⟨a, _ | ⟨b, _ | ⟨c, rest⟩⟩⟩
  · (simp only [callMethodS, callMethod]; exact post_fail _ hwf)
  · exact sim_get1 hev Ca C bad r r' s hwf hC hr _
  · exact sim_get2 hev Ca C bad r r' s hwf hC hr _ _
  · (simp only [callMethodS, callMethod]; exact post_fail _ hwf)

theorem sim_cm_len (args : List Expr) :
    Post ObjRel s (callMethodS evS Ca bad r .len args s) (callMethod ev C bad r' .len args) := by
  rcases args with _ | ⟨a, _ | ⟨b, _ | ⟨c, rest⟩⟩⟩
  · exact sim_len Ca C bad r r' s hwf hC hr
  · (simp only [callMethodS, callMethod]; exact post_fail _ hwf)
  · (simp only [callMethodS, callMethod]; exact post_fail _ hwf)
  · (simp only [callMethodS, callMethod]; exact post_fail _ hwf)

theorem sim_cm_any (args : List Expr) :
    Post ObjRel s (callMethodS evS Ca bad r .any args s) (callMethod ev C bad r' .any args) := by
  rcases args with _ | ⟨a, _ | ⟨b, _ | ⟨c, rest⟩⟩⟩
  · exact sim_any0 hev Ca C bad r r' s hwf hC hr
  · exact sim_any1 hev Ca C bad r r' s hwf hC hr _
  · (simp only [callMethodS, callMethod]; exact post_fail _ hwf)
  · (simp only [callMethodS, callMethod]; exact post_fail _ hwf)

theorem sim_cm_all (args : List Expr) :
    Post ObjRel s (callMethodS evS Ca bad r .all args s) (callMethod ev C bad r' .all args) := by
  rcases args with _ | ⟨a, _ | ⟨b, _ | ⟨c, rest⟩⟩⟩
  · exact sim_all0 hev Ca C bad r r' s hwf hC hr
  · exact sim_all1 hev Ca C bad r r' s hwf hC hr _
  · (simp only [callMethodS, callMethod]; exact post_fail _ hwf)
  · (simp only [callMethodS, callMethod]; exact post_fail _ hwf)

/-- **methods**: every overload, every argument list -/
theorem sim_callMethod (f : Fn) (args : List Expr) :
    Post ObjRel s (callMethodS evS Ca bad r f args s) (callMethod ev C bad r' f args) := by
  cases f with
  | let_ => exact sim_cm_let_ hev Ca C bad r r' s hwf hC hr args
  | with_ => exact sim_cm_with_ hev Ca C bad r r' s hwf hC hr args
  | def_ => exact sim_cm_def_ hev Ca C bad r r' s hwf hC hr args
  | list => exact sim_cm_list hev Ca C bad r r' s hwf hC hr args
  | dict => exact sim_cm_dict hev Ca C bad r r' s hwf hC hr args
  | unpack => exact sim_unpack hev Ca C bad r r' s hwf hC hr args
  | select => exact sim_cm_select hev Ca C bad r r' s hwf hC hr args
  | where_ => exact sim_cm_where_ hev Ca C bad r r' s hwf hC hr args
  | selectMany => exact sim_cm_selectMany hev Ca C bad r r' s hwf hC hr args
  | orderBy => exact sim_cm_orderBy hev Ca C bad r r' s hwf hC hr args
  | orderByDescending => exact sim_cm_orderByDescending hev Ca C bad r r' s hwf hC hr args
  | takeWhile => exact sim_cm_takeWhile hev Ca C bad r r' s hwf hC hr args
  | skipWhile => exact sim_cm_skipWhile hev Ca C bad r r' s hwf hC hr args
  | indexWhere => exact sim_cm_indexWhere hev Ca C bad r r' s hwf hC hr args
  | toDict => exact sim_cm_toDict hev Ca C bad r r' s hwf hC hr args
  | aggregate => exact sim_cm_aggregate hev Ca C bad r r' s hwf hC hr args
  | sum => exact sim_cm_sum hev Ca C bad r r' s hwf hC hr args
  | first => exact sim_cm_first hev Ca C bad r r' s hwf hC hr args
  | toList => exact sim_cm_toList hev Ca C bad r r' s hwf hC hr args
  | take => exact sim_cm_take hev Ca C bad r r' s hwf hC hr args
  | skip => exact sim_cm_skip hev Ca C bad r r' s hwf hC hr args
  | get => exact sim_cm_get hev Ca C bad r r' s hwf hC hr args
  | len => exact sim_cm_len hev Ca C bad r r' s hwf hC hr args
  | any => exact sim_cm_any hev Ca C bad r r' s hwf hC hr args
  | all => exact sim_cm_all hev Ca C bad r r' s hwf hC hr args

end
end Yaql.Props.EvalStore
