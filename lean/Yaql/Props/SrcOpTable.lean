import Yaql.Gen.SrcOpTable
import Yaql.Lemmas.PyPrelude
import Yaql.Lemmas.PyLoops
import Yaql.Lemmas.PyLoopsOp
/-!
Equivalence of the definitions translated from the CURRENT yaql source (`Yaql.Gen.SrcOpTable`, regenerated on every
run by harness/py2lean.py) with the hand-written model - for all inputs.
-/
namespace Yaql.Props.SrcOpTable
open Yaql Yaql.Gen Yaql.Lemmas.PyLoops Yaql.Lemmas.PyLoopsOp
open Yaql.OpTable

/-! ### the record tests of the Python code in terms of the model's -/

theorem recLen_lt_two (r : Rec) : (PyOp.recLen r < 2) = (r.isSep = true) := by
  cases r <;> simp [PyOp.recLen, Rec.isSep, Rec.isOp]

theorem recLen_gt_one (r : Rec) : (PyOp.recLen r > 1) = (r.isOp = true) := by
  cases r <;> simp [PyOp.recLen, Rec.isOp]

/-! ### the position search -/

theorem findExisting_eq (e : Str) (b : Bool) (ops : OpList) (i : Nat) :
    findExisting e b ops i = (ops.findIdx? (matchesExisting e b)).map (fun j => i + j) := by
  induction ops generalizing i with
  | nil => rfl
  | cons r rs ih =>
    rw [findExisting, List.findIdx?_cons, ih]
    by_cases h : matchesExisting e b r = true
    · simp [h]
    · simp only [h, if_false, Bool.false_eq_true, Option.map_map]
      congr 1
      funext j
      simp only [Function.comp]
      omega

theorem findExisting_lt (e : Str) (b : Bool) (ops : OpList) (j : Nat) (h : findExisting e b ops 0 = some j) :
    j < ops.length := by
  rw [findExisting_eq] at h
  cases h2 : List.findIdx? (matchesExisting e b) ops with
  | none => simp [h2] at h
  | some k =>
    have := List.findIdx?_eq_some_iff_getElem.mp h2
    obtain ⟨hk, _⟩ := this
    simp [h2] at h
    omega

/-- the search loop of `insert_operator`, for a body described pointwise -/
theorem search_go (e : Str) (b : Bool) (f : Int → Int × Rec → Py.Step Int ρ)
    (hf : ∀ s i x, f s (i, x) = if matchesExisting e b x = true then .brk i else .next s)
    (ops : OpList) (s : Int) :
    Py.forLoop (Py.enumerate ops) s f
      = .done (match findExisting e b ops 0 with | some j => (j : Int) | none => s) := by
  rw [enumerate_eq, forLoop_enum_findIdx _ f hf, findExisting_eq]
  cases List.findIdx? (matchesExisting e b) ops <;> simp

/-! ### the two scans -/

theorem scan_go (ops : OpList) (p : Rec → Bool) (c : Int → Bool) (f : Int → Py.Step Int ρ)
    (hc : ∀ s, c s = true)
    (hf : ∀ (k : Nat) (v : Rec), k < ops.length → Py.index ops (k : Int) = .ok v →
      f (k : Int) = if p v = true then .next ((k : Int) + 1) else .brk (k : Int))
    (hf' : ∀ (k : Nat), ops.length ≤ k → f (k : Int) = .brk (k : Int))
    (fuel : Nat) (posi : Int) (pos : Nat) (hpos : posi = (pos : Int)) (hfuel : ops.length + 1 ≤ fuel) :
    Py.whileLoop fuel posi c f = some (.done ((advance p ops pos : Nat) : Int)) := by
  subst hpos
  exact whileLoop_scan ops p c f hc hf hf' fuel pos (by omega)

theorem advance_le (p : Rec → Bool) (ops : OpList) (pos : Nat) (h : pos ≤ ops.length) :
    advance p ops pos ≤ ops.length := takeWhile_drop_length_le ops p pos h

theorem insert_eq (ops : OpList) (i : Int) (k : Nat) (x : Rec) (hi : i = (k : Int)) (hk : k ≤ ops.length)
    (hlen : (ops.length : Int) < 2 ^ 63) :
    Py.listInsert? ops i x = .ok (insertAt ops k x) := listInsert?_nat ops i k x hi hk hlen

theorem insertAt_length (ops : OpList) (k : Nat) (x : Rec) (hk : k ≤ ops.length) :
    (insertAt ops k x).length = ops.length + 1 := by
  simp only [insertAt, List.length_append, List.length_take, List.length_cons, List.length_drop]
  omega

/-! ### `insert_operator` -/

/-- Identity, used as a barrier: `generalize h : a = x; revert x; refine barrier ?_; intro x h` keeps `x` a bound
    variable in the final proof term (without the barrier the elaborator beta-reduces the generalisation away). -/
theorem barrier {α : Sort u} {a : α} {P : α → Prop} (h : ∀ x, a = x → P x) : ∀ x, a = x → P x := h

theorem insert_operator_src_eq (self_operators : List Yaql.OpTable.Rec) (fuel : Nat)
    (existing_operator : Option (List Char)) (existing_operator_binary : Bool) (new_operator : List Char)
    (new_operator_type : Yaql.OpTable.OpType) (create_group : Bool) (new_operator_alias : Option (List Char))
    (hfuel : self_operators.length + 1 ≤ fuel) (hlen : (self_operators.length : Int) + 2 < 2 ^ 63) :
    Yaql.Gen.SrcOpTable.insert_operator self_operators fuel existing_operator existing_operator_binary new_operator
        new_operator_type create_group new_operator_alias
      = Yaql.PyOp.liftErr (Yaql.OpTable.insertOperator self_operators existing_operator existing_operator_binary
          new_operator new_operator_type create_group new_operator_alias) := by
  unfold SrcOpTable.insert_operator insertOperator
  -- `Py.listInsert?` is made opaque first: the kernel must never evaluate `Py.ssizeOk` (a comparison with `2 ^ 63`)
  -- on a symbolic position while checking the reductions of the `match`es below
  generalize hI : @Py.listInsert? Rec = ins
  revert ins
  refine barrier ?_
  intro ins hI
  have hins : ∀ (xs : OpList) (i : Int) (k : Nat) (v : Rec), i = (k : Int) → k ≤ xs.length →
      (xs.length : Int) < 2 ^ 63 → ins xs i v = .ok (insertAt xs k v) := by
    rw [← hI]; exact insert_eq
  clear hI
  cases existing_operator with
  | none =>
    simp only []
    by_cases hcg : create_group = true
    · by_cases hz : 0 = self_operators.length
      · have hz' : (0 : Int) = (self_operators.length : Int) := by omega
        simp only [if_pos hcg, if_pos hz']
        rw [hins (self_operators ++ [Rec.sep]) _ (0 + 1) _ (by simp) (by simp) (by simp; omega)]
        simp [hz, PyOp.liftErr]
      · have hz' : ¬ ((0 : Int) = (self_operators.length : Int)) := by omega
        simp only [if_pos hcg, if_neg hz']
        rw [scan_go self_operators Rec.isSep _ _ (by py_body)
          (by intro k v hk hv; simp [hv, hk, recLen_lt_two]) (by intro k hk; simp; omega) fuel 0 0 rfl hfuel]
        have hA := advance_le Rec.isSep self_operators 0 (by omega)
        have hL := insertAt_length self_operators _ Rec.sep hA
        simp only []
        rw [hins self_operators _ _ Rec.sep rfl hA (by omega)]
        simp only []
        rw [hins (insertAt _ _ _) _ _ _ rfl (by omega) (by omega)]
        simp [hz, PyOp.liftErr]
    · simp only [if_neg hcg]
      rw [hins self_operators 0 0 _ rfl (by omega) (by omega)]
      simp [PyOp.liftErr]
  | some e =>
    simp only []
    rw [search_go e existing_operator_binary _ (by
      intro s i x
      cases x with
      | sep => simp [PyOp.recLen, matchesExisting]
      | op sym ty al =>
        by_cases hs : sym = e <;> cases existing_operator_binary <;> cases ty <;>
          simp [hs, PyOp.recLen, PyOp.recSym?, PyOp.recType?, matchesExisting, Py.contains, OpType.isBinary,
            OpType.isUnary]) self_operators (-1)]
    cases hfe : findExisting e existing_operator_binary self_operators 0 with
    | none => simp [PyOp.liftErr]
    | some j =>
      have hj := findExisting_lt _ _ _ _ hfe
      simp only []
      rw [if_neg (by omega), scan_go self_operators Rec.isOp _ _ (by py_body)
        (by intro k v hk hv; simp [hv, hk, recLen_gt_one]) (by intro k hk; simp; omega) fuel (j : Int) j rfl hfuel]
      simp only []
      have hP := advance_le Rec.isOp self_operators j (by omega)
      generalize advance Rec.isOp self_operators j = P at hP ⊢
      by_cases hcg : create_group = true
      · by_cases hz : P = self_operators.length
        · have hz' : (P : Int) = (self_operators.length : Int) := by omega
          simp only [if_pos hcg, if_pos hz']
          rw [hins (self_operators ++ [Rec.sep]) _ (P + 1) _ (by simp) (by simp; omega) (by simp; omega)]
          simp [hz, PyOp.liftErr]
        · have hz' : ¬ ((P : Int) = (self_operators.length : Int)) := by omega
          simp only [if_pos hcg, if_neg hz']
          rw [scan_go self_operators Rec.isSep _ _ (by py_body)
            (by intro k v hk hv; simp [hv, hk, recLen_lt_two]) (by intro k hk; simp; omega) fuel (P : Int) P rfl hfuel]
          have hA := advance_le Rec.isSep self_operators P hP
          have hL := insertAt_length self_operators _ Rec.sep hA
          simp only []
          rw [hins self_operators _ _ Rec.sep rfl hA (by omega)]
          simp only []
          rw [hins (insertAt _ _ _) _ _ _ rfl (by omega) (by omega)]
          simp [hz, PyOp.liftErr]
      · simp only [if_neg hcg]
        rw [hins self_operators (P : Int) P _ rfl (by omega) (by omega)]
        simp [PyOp.liftErr]

end Yaql.Props.SrcOpTable
