import Yaql.Props.C07
import Yaql.Gen.HostFacts
/-!
C07 over the generated tables (`Yaql/Gen/HostFacts.lean`, regenerated from the live registry of
`yaql.create_context()` by `harness/gens/hostfacts.py` on every run; all proofs are
`decide +kernel`, re-checked against what the code says now).

* `host_touch_only_yaqlized`: every getattr / subscript / call / format / escape use on a parameter
  whose declared type admits an opaque host object as it is belongs to one of the explicit,
  justified exception rows below; all other such uses sit on `Yaqlized(..)` parameters
  (`yaqlized_rows`: which exist, with the flag that matches the use) or on parameters whose type
  check refuses opaque objects.  The same for the `value` argument of every check/convert method,
  checker, converter and validator of the smart-type objects in the registry (`typeRows`).
* `no_format_templates`: no parameter that admits a string is used as a format template and no
  parameter is formatted by a non-literal template (the `format` function stays removed).
* `keyword_guard`: the KEYWORD_STRING token rule still starts with `(?!__)`.
* `gate_generated`: `C07.gate` instantiated with the generated registry.
-/
namespace Yaql.Props.C07Gen
open Yaql.Yaqlized Yaql.Gen.HostFacts

/-- (payload, parameter, host-touching uses tolerated there).  Every row is justified:

(The gate itself - `get_yaqlization_settings(value)`, i.e. `getattr(value, '__yaqlization__', None)`,
the one settings probe every object undergoes - is recorded as the use `probe`, which is not host
touching: the property statement excludes it, and so does the canary.)

1. `Lambda.convert value [getattr]`: KNOWN FINDING K3 `unwrapped-probe` -
   `callable(value) and hasattr(value, '__unwrapped__')` probes a callable host object that reached a
   Lambda-typed parameter through `call(name, args, kwargs)`.
2. `Lambda._call value [call]`: KNOWN FINDING K3 `callable-host-invoked-via-lambda-param` -
   `elif callable(value): value(*args, **kwargs)` calls that host object with expression-chosen
   arguments.
3. `indexation key [getattr, escape]`: KNOWN FINDING `indexer-key-startswith-probe` - the key of
   `obj[key]` is untyped; `_validate_name` calls `key.startswith('_')` and hands the key to the
   whitelist/blacklist entries before any check that it is a string.
-/
def exceptions : List (List Char × List Char × List Use) :=
  [ ("yaql.language.yaqltypes.Lambda.convert".toList, "value".toList, [.getattr]),
    ("yaql.language.yaqltypes.Lambda._call".toList, "value".toList, [.call]),
    ("yaql.standard_library.yaqlized.indexation".toList, "key".toList, [.getattr, .escape]) ]

/-- all host-touching uses of the row are tolerated by an exception entry for that very
    (payload, parameter) -/
def exempt (r : FactRow) : Bool :=
  (r.uses.filter Use.hostTouch).all fun u =>
    exceptions.any fun e => e.1 == r.payload && e.2.1 == r.param && e.2.2.contains u

def rowOk (r : FactRow) : Bool :=
  match r.ty with
  | .open => !r.touches || exempt r
  | _ => true

/-- C07Gen.host_touch_only_yaqlized -/
theorem host_touch_only_yaqlized : (rows ++ typeRows).all rowOk = true := by decide +kernel

/-- the table is the whole registry: 284 FunctionDefinitions today; it is never empty, and the
    three yaqlized access forms are in it with the flag that matches what they do to the object -/
theorem table_nonempty : registry.length = functionDefinitions ∧ 0 < registry.length ∧
    rows.length ≥ registry.length := by decide +kernel

def hasRow (payload param : String) (ty : TyClass) (u : Use) : Bool :=
  -- cheap tests first: the kernel converts a string literal per comparison
  rows.any fun r => r.ty == ty && r.uses.contains u && r.payload == payload.toList && r.param == param.toList

theorem yaqlized_rows :
    hasRow "yaql.standard_library.yaqlized.attribution" "obj" (.yaqlized true false false) .getattr = true ∧
    hasRow "yaql.standard_library.yaqlized.op_dot" "receiver" (.yaqlized false true false) .getattr = true ∧
    hasRow "yaql.standard_library.yaqlized.indexation" "obj" (.yaqlized false false true) .subscript = true := by
  decide +kernel

/-- every `Yaqlized(..)` parameter asks for at least one switch; one whose payload subscripts the
    object asks for the indexer switch, one whose payload does getattr on it for the attribute or the
    method switch; it is never called, formatted or passed to unknown code; and every such payload
    fetches the settings (`probe`) -/
theorem yaqlized_flags_match : rows.all (fun r =>
    match r.ty with
    | .yaqlized a m i => (a || m || i) && (!r.uses.contains .subscript || i) &&
        (!r.uses.contains .getattr || a || m) && r.uses.contains .probe &&
        r.uses.all (fun u => u == .getattr || u == .subscript || u == .probe)
    | _ => true) = true := by decide +kernel

/-- the type check of `Yaqlized(..)` does nothing to the object but fetch its settings -/
theorem yaqlized_checker_probes_only : typeRows.all (fun r =>
    !(r.payload == "yaql.standard_library.yaqlized.Yaqlized.__init__.<locals>.check_value".toList) ||
      (r.uses.contains .probe && !r.touches)) = true := by decide +kernel

/-- the scan is not blind (and this does not depend on any of the exception rows staying in the
    code): it sees the `predicate(..)` calls in the payloads of Lambda-typed parameters, the
    `str(..)` conversions and the hand-over of untyped values to sibling lambdas -/
theorem scan_sees_uses :
    (rows.filter fun r => r.ty == .converted && r.uses.contains .call).length ≥ 20 ∧
    (rows.filter fun r => r.ty == .open && r.uses.contains .reenter).length ≥ 5 ∧
    ((rows ++ typeRows).filter fun r => r.uses.contains .strconv).length ≥ 1 := by decide +kernel

/-- no parameter that admits a string is used as a format template (`p % x`, `p.format(..)`), and no
    parameter is formatted by a template that is not a literal of the payload -/
theorem no_format_templates : (rows ++ typeRows).all (fun r =>
    !r.uses.contains .fmtarg && (!r.uses.contains .template || !r.admitsStr)) = true := by decide +kernel

/-- C07Gen.keyword_guard: a keyword token cannot start with `__` -/
theorem keyword_guard : keywordRegex.take 6 = "(?!__)".toList := by decide +kernel

/-! ## the gate on the generated registry -/

theorem table_ok : Yaql.Props.C07.TableOk exempt registry := by
  intro f hf r hr hty htouch
  have hall : rows.all rowOk = true := by
    have := host_touch_only_yaqlized
    rw [List.all_append, Bool.and_eq_true] at this
    exact this.1
  have hmem : r ∈ rows := by
    simp only [rows, List.mem_flatMap]
    exact ⟨f, hf, hr⟩
  have := List.all_eq_true.1 hall r hmem
  simp only [rowOk, hty, htouch, Bool.not_true, Bool.false_or] at this
  exact this

/-- C07.gate for the registry as it is now: whichever overload yaql selects among those whose
    parameters admit the arguments, an opaque host object bound to a parameter whose payload touches
    it (getattr / subscript / call / format / escape) and that is not one of the listed exceptions
    passed `Yaqlized.check` with that parameter's flags - an object without settings is never bound
    there -/
theorem gate_generated {E V : Type} (fits : FactRow → V → Bool)
    (name : List Char) (args : List (Arg E V)) (f : FnDef)
    (hf : f ∈ candidates fits registry name args)
    (r : FactRow) (h : Host E) (hp : (r, Arg.host h) ∈ f.explicit.zip args)
    (htouch : r.touches = true) (hex : exempt r = false) (hconv : r.ty ≠ .converted) :
    ∃ a m i, r.ty = .yaqlized a m i ∧ check { attrs := a, methods := m, index := i } h = true ∧ h ≠ none :=
  Yaql.Props.C07.gate_candidates fits exempt registry table_ok name args f hf r h hp htouch hex hconv

/-- non-vacuity on the real table: `$obj.attr` with a yaqlized object has a candidate, the same
    call with a plain host object has none among the yaqlized overloads -/
def yaqlizedFns : List FnDef :=
  registry.filter fun f => f.params.any fun r => r.ty == .yaqlized true false false

def attrCall (h : Host Entry) : List FnDef :=
  candidates (V := Unit) (fun r _ => r.param == "attr".toList) yaqlizedFns "#operator_.".toList
    [.host h, .native ()]

theorem gate_witness : yaqlizedFns.length = 1 ∧ (attrCall (some {})).length = 1 ∧ (attrCall none).length = 0 ∧
    (attrCall (some { yaqlizeAttributes := false })).length = 0 := by decide +kernel

end Yaql.Props.C07Gen
