import Yaql.Model.Interface
import Yaql.Props.C05Hist
/-!
C05 through the host entry point `YaqlInterface` (`yi.name(..)`, `yi.on(obj).name(..)`, the injected
`yaql_interface` hidden parameter).

* `call_eq_spec` - a call through an interface resolves exactly as the written rules prescribe for the
  family its context denotes AT THAT MOMENT and for the interface's OWN receiver (function call without
  one, method call on it otherwise);
* `on_fresh`, `yis_stable`, `history_call_eq_spec` - `on` makes a new interface and never rebinds an
  existing one, so after ANY history of forest changes, interface creations, `on`s and calls through the
  same family, handle `k` still calls with the context and receiver it was made with;
* `irun_erase_calls`, `call_insertion_invisible` - calls leave no trace: a call inserted anywhere in a
  history changes no later (or earlier) outcome;
* `inject_eq_caller` - the interface injected into a function called from context `i` answers every call
  as context `i` itself does (its context is a fresh child of `i`);
* `Ex.stub_cache_wrong` - the contrasting design (per-name stubs shared by the family, bound to the first
  user) resolves `yi.on(x).f()` after `yi.f()` as a FUNCTION call and `yi.f()` after `yi.on(x).f()` as a
  method call on `x`.
-/
namespace Yaql.Props.C05Iface
open Yaql.Types Yaql.Resolve Yaql.ResolveCtx Yaql.Interface
open Yaql.Context (Cells Cell Shape createChild ChildResult rstripUnderscore)
open Yaql.Props.C05Hist (familyIn resolveIn_eq_spec resolveIn_eq resolveAt_eq_layers famOf layers_congr)

/-- **every call through an interface follows the rules for its own kind and receiver** -/
theorem call_eq_spec (L : Lattice) (defs : Defs) (st : St) (y : Yi) (name : CName) (args : List Arg)
    (kw : KwArgs) :
    y.call L defs st name args kw =
      C05.resolveSpec L (famOf defs (rstripUnderscore name) (Yaql.Props.C17.layers st.cells y.ctx))
        { receiver := y.sender, args := args, kwargs := kw } := by
  rw [Yi.call, resolveAt_eq_layers, C05.resolve_eq_spec]

/-- `on` is a new value over the same context; the interface it was derived from is what it was -/
theorem on_fresh (y : Yi) (a b : Yaql.Types.Val) :
    (y.on a).ctx = y.ctx ∧ (y.on a).sender = some a ∧ (y.on a).on b = y.on b := ⟨rfl, rfl, rfl⟩

/-- `yi.on(r).name(..)` is the method call on `r` from the interface's context, whatever receiver
    (or none) `yi` itself has -/
theorem on_call (L : Lattice) (defs : Defs) (st : St) (y : Yi) (r : Yaql.Types.Val) (name : CName) (args : List Arg)
    (kw : KwArgs) :
    (y.on r).call L defs st name args kw =
      C05.resolveSpec L (famOf defs (rstripUnderscore name) (Yaql.Props.C17.layers st.cells y.ctx))
        { receiver := some r, args := args, kwargs := kw } :=
  call_eq_spec L defs st (y.on r) name args kw

/-! ## histories through one interface family -/

theorem getElem?_append_some {α : Type} {l : List α} {k : Nat} {y : α} (h : l[k]? = some y) (t : List α) :
    (l ++ t)[k]? = some y := by
  have hk : k < l.length := by
    rcases Nat.lt_or_ge k l.length with h' | h'
    · exact h'
    · simp [List.getElem?_eq_none h'] at h
  rw [List.getElem?_append_left hk]; exact h

/-- interfaces are never rebound: one step keeps every existing handle -/
theorem yis_stable (L : Lattice) (defs : Defs) (s : ISt) (op : IOp) (k : Nat) (y : Yi)
    (h : s.yis[k]? = some y) : (istep L defs s op).1.yis[k]? = some y := by
  cases op with
  | ctx o => simpa [istep] using h
  | mk i r =>
      cases hctx : s.st.ctx i with
      | none => simpa [istep, hctx] using h
      | some sh => simpa [istep, hctx] using getElem?_append_some h _
  | inject i r =>
      cases hctx : s.st.ctx i with
      | none => simpa [istep, hctx] using h
      | some sh =>
          cases hc : createChild s.st.cells.length sh with
          | typeError => simpa [istep, hctx, hc] using h
          | ok c b => cases b <;> simpa [istep, hctx, hc] using getElem?_append_some h _
  | on j r =>
      simp only [istep]
      cases s.yis[j]? with
      | none => exact h
      | some y' => exact getElem?_append_some h _
  | call j n a kw =>
      simp only [istep]
      cases s.yis[j]? <;> exact h

theorem irun_yis_stable (L : Lattice) (defs : Defs) : ∀ (ops : List IOp) (s : ISt) (k : Nat) (y : Yi),
    s.yis[k]? = some y → (irun L defs s ops).yis[k]? = some y
  | [], _, _, _, h => h
  | op :: r, s, k, y, h => by
      simp only [irun, List.foldl_cons]
      exact irun_yis_stable L defs r _ k y (yis_stable L defs s op k y h)

/-- **after any history** - other calls through the same family with other receivers or none, `on`s,
    registrations, new contexts - a call through handle `k` is the call the rules prescribe for the
    context and receiver the handle was MADE with and for the family of that moment -/
theorem history_call_eq_spec (L : Lattice) (defs : Defs) (s : ISt) (ops : List IOp) (k : Nat) (y : Yi)
    (h : s.yis[k]? = some y) (name : CName) (args : List Arg) (kw : KwArgs) :
    (istep L defs (irun L defs s ops) (.call k name args kw)).2 =
      some (C05.resolveSpec L
              (famOf defs (rstripUnderscore name) (Yaql.Props.C17.layers (irun L defs s ops).st.cells y.ctx))
              { receiver := y.sender, args := args, kwargs := kw }) := by
  simp only [istep, irun_yis_stable L defs ops s k y h, call_eq_spec]

def isCall : IOp → Bool
  | .call .. => true
  | _ => false

theorem istep_call_state (L : Lattice) (defs : Defs) (s : ISt) (k : Nat) (n : CName) (a : List Arg) (kw : KwArgs) :
    (istep L defs s (.call k n a kw)).1 = s := by
  simp only [istep]; cases s.yis[k]? <;> rfl

/-- calls leave no trace in the state -/
theorem irun_erase_calls (L : Lattice) (defs : Defs) : ∀ (ops : List IOp) (s : ISt),
    irun L defs s ops = irun L defs s (ops.filter fun o => !isCall o)
  | [], _ => rfl
  | op :: r, s => by
      cases op with
      | call k n a kw =>
          simp only [irun, List.foldl_cons, isCall, List.filter_cons, Bool.not_true, istep_call_state]
          exact irun_erase_calls L defs r s
      | ctx o => simpa [irun, isCall] using irun_erase_calls L defs r _
      | mk i x => simpa [irun, isCall] using irun_erase_calls L defs r _
      | inject i x => simpa [irun, isCall] using irun_erase_calls L defs r _
      | on j x => simpa [irun, isCall] using irun_erase_calls L defs r _

theorem itranscript_append (L : Lattice) (defs : Defs) : ∀ (a b : List IOp) (s : ISt),
    itranscript L defs s (a ++ b) = itranscript L defs s a ++ itranscript L defs (irun L defs s a) b
  | [], _, _ => by simp [itranscript, irun]
  | op :: r, b, s => by
      simp only [List.cons_append, itranscript, irun, List.foldl_cons]
      cases (istep L defs s op).2 with
      | none => exact itranscript_append L defs r b _
      | some o => simp only [List.cons_append]; rw [itranscript_append L defs r b _]; rfl

/-- **a call inserted anywhere in a history is invisible to every other call** -/
theorem call_insertion_invisible (L : Lattice) (defs : Defs) (s : ISt) (a b : List IOp) (k : Nat) (n : CName)
    (args : List Arg) (kw : KwArgs) :
    itranscript L defs s (a ++ .call k n args kw :: b) =
      itranscript L defs s a ++
        ((istep L defs (irun L defs s a) (.call k n args kw)).2.toList ++
          itranscript L defs (irun L defs s a) b) := by
  rw [itranscript_append]
  congr 1
  simp only [itranscript, istep_call_state]
  cases (istep L defs (irun L defs s a) (.call k n args kw)).2 <;> rfl

/-! ## the injected interface -/

theorem get_append_empty (cs : Cells) (c : Nat) : (cs ++ [({} : Cell)]).get c = cs.get c := by
  unfold Cells.get
  rcases Nat.lt_trichotomy c cs.length with h | h | h
  · simp [List.getD_eq_getElem?_getD, List.getElem?_append_left h]
  · subst h; simp [List.getD_eq_getElem?_getD]
  · have h1 : cs.length ≤ c := Nat.le_of_lt h
    simp [List.getD_eq_getElem?_getD, List.getElem?_eq_none h1,
      List.getElem?_eq_none (show (cs ++ [({} : Cell)]).length ≤ c by simp; omega)]

theorem resolve_skip_empty (L : Lattice) (fam : List Layer) (c : Call) :
    resolve L ({ fns := [], exclusive := false } :: fam) c = resolve L fam c := by
  simp [resolve, collect]

theorem createChild_shape {fresh : Nat} {s s' : Shape} {b : Bool} (h : createChild fresh s = .ok s' b) :
    s' = .plain fresh (some s) ∧ b = true := by
  cases s with
  | plain c p => simp [createChild] at h; exact ⟨h.1.symm, h.2⟩
  | multi ms p => simp [createChild] at h; exact ⟨h.1.symm, h.2⟩
  | linked t p =>
      cases t with
      | plain c q => simp [createChild] at h; exact ⟨h.1.symm, h.2⟩
      | multi ms q => simp [createChild] at h
      | linked t2 q => simp [createChild] at h

theorem cells_get_length (cs : Cells) : cs.get cs.length = ({} : Cell) := by
  unfold Cells.get; simp [List.getD_eq_getElem?_getD]

/-- **the injected `yaql_interface`**: a function called from the context `s` is handed an interface over a
    fresh child of `s`; every call through it resolves as the same call made from `s` itself -/
theorem inject_eq_caller (L : Lattice) (defs : Defs) (cells : Cells) (s s' : Shape) (b : Bool)
    (hc : createChild cells.length s = .ok s' b) (name : CName) (c : Call) :
    resolveAt L defs (cells ++ [({} : Cell)]) s' name c = resolveAt L defs cells s name c := by
  obtain ⟨hs', _⟩ := createChild_shape hc
  subst hs'
  rw [resolveAt_eq_layers, resolveAt_eq_layers, Yaql.Props.C05Hist.family_plain, get_append_empty,
    cells_get_length]
  have hl : Yaql.Props.C17.layers (cells ++ [({} : Cell)]) s = Yaql.Props.C17.layers cells s :=
    layers_congr _ _ s (fun c _ => get_append_empty cells c)
  simp only [Yaql.Props.C17.layersO, hl]
  exact resolve_skip_empty L _ c

/-- in the history model: the interface made by `inject i r` calls as context `i` does with receiver `r` -/
theorem inject_step (L : Lattice) (defs : Defs) (s : ISt) (i : Nat) (r : Option Yaql.Types.Val) (sh c : Shape)
    (hi : s.st.ctx i = some sh) (hc : createChild s.st.cells.length sh = .ok c true) (name : CName)
    (args : List Arg) (kw : KwArgs) :
    (istep L defs (istep L defs s (.inject i r)).1 (.call s.yis.length name args kw)).2 =
      some (resolveIn L defs s.st i name { receiver := r, args := args, kwargs := kw }) := by
  simp only [istep, hi, hc, List.getElem?_append_right (Nat.le_refl _), Nat.sub_self, List.getElem?_cons_zero,
    Yi.call, resolveIn]
  rw [inject_eq_caller L defs s.st.cells sh c true hc]

/-! ## non-vacuity and the contrasting design -/

namespace Ex
open Yaql.Props.C05.Ex

/-- overload 0: the FUNCTION `f(x: Base)`; overload 1: the METHOD `f(self: Base)`; overload 2: the method
    `f(self: str)` -/
def defs : Defs := fun i =>
  match i with
  | 0 => fn 0 [pos 'x' 0 (cls 1)]
  | 1 => { fn 1 [pos 'x' 0 (cls 1)] with isFunction := false, isMethod := true }
  | _ => { fn 2 [pos 'x' 0 (cls 5)] with isFunction := false, isMethod := true }

def fN : CName := ['f']
def st : St := run {} [.root, .register 0 fN 0 false, .register 0 fN 1 false, .register 0 fN 2 false]
def yi : Yi := ⟨.plain 0 none, none⟩
def strVal : Yaql.Types.Val := .obj 5 [] 9

/-- the overload chosen by each call (`none` = a resolution error) -/
def ids (os : List Outcome) : List (Option Nat) :=
  os.map fun o => match o.res with | .ok r => some r.1 | .error _ => none

/-- `yi.f(d)` is the function, `yi.on(d).f()` the method on `d`, `yi.on('s').f()` the string method - in
    any order, through one family (history of `on`s and calls; handles 0 = yi, 1 = yi.on(d), 2 = yi.on('s')) -/
example : ids (itranscript lat defs { st := st }
      [.mk 0 none, .call 0 fN [.value dVal] [], .on 0 dVal, .call 1 fN [] [], .call 0 fN [.value dVal] [],
       .on 1 strVal, .call 2 fN [] [], .call 1 fN [] [], .call 0 fN [.value dVal] []]) =
    [some 0, some 1, some 0, some 2, some 1, some 0] := by decide +kernel

/-- the injected interface: called from context 0 with receiver `d`; `yaql_interface.f(d)` is still the
    FUNCTION call, `yaql_interface.on('s').f()` the string method -/
example : ids (itranscript lat defs { st := st }
      [.inject 0 (some dVal), .call 0 fN [] [], .on 0 strVal, .call 1 fN [] [], .mk 0 none,
       .call 2 fN [.value dVal] []]) = [some 1, some 2, some 0] := by decide +kernel

/-- **the stub cache is wrong**: the first use of a name through the family decides the kind and the
    receiver of every later use -/
theorem stub_cache_wrong :
    ids (Stub.transcript lat defs { st := st } [(yi, fN, [.value dVal]), (yi.on dVal, fN, [])]) ≠
      [some 0, some 1] ∧
    ids (Stub.transcript lat defs { st := st } [(yi.on dVal, fN, []), (yi.on strVal, fN, [])]) =
      [some 1, some 1] ∧
    ids ([(yi, fN, [.value dVal]), (yi.on dVal, fN, []), (yi.on strVal, fN, [])].map
          fun (y, n, a) => y.call lat defs st n a []) = [some 0, some 1, some 2] := by decide +kernel

end Ex

end Yaql.Props.C05Iface
