import Yaql.Gen.SrcStream
import Yaql.Lemmas.PyPrelude
import Yaql.Lemmas.PyLoops
/-!
Equivalence of the definitions translated from the CURRENT yaql source (`Yaql.Gen.SrcStream`, regenerated on every
run by harness/py2lean.py) with the hand-written model - for all inputs.  The streaming operators of queries.py that are plain itertools calls (shared by C13 and C14).
-/
namespace Yaql.Props.SrcStream
open Yaql Yaql.Gen Yaql.Lemmas.PyLoops

theorem take_while_src_eq (collection : List Value) (predicate : Value → Bool) :
    SrcStream.take_while collection predicate = Seq.takeWhile predicate collection := by
  simp only [SrcStream.take_while, Seq.takeWhile]

theorem skip_while_src_eq (collection : List Value) (predicate : Value → Bool) :
    SrcStream.skip_while collection predicate = Seq.skipWhile predicate collection := by
  simp only [SrcStream.skip_while, Seq.skipWhile]

theorem skip_src_eq (collection : List Value) (count : Int) :
    SrcStream.skip collection count
      = if Py.isliceOk count then .ok (Seq.skip count.toNat collection) else .error .valueError := by
  simp [SrcStream.skip, Py.islice, Py.isliceStopOnly, Py.isliceOkOpt, Seq.skip]

theorem limit_src_eq (collection : List Value) (count : Int) :
    SrcStream.limit collection count
      = if Py.isliceOk count then .ok (Seq.take count.toNat collection) else .error .valueError := by
  cases h : Py.isliceOk count <;> simp [SrcStream.limit, Py.islice, Py.isliceOkOpt, Seq.take, h]

end Yaql.Props.SrcStream
