import Yaql.Model.Parser
import Yaql.Props.C03Parse
namespace Yaql.Props.C02
open Yaql.Syntax Yaql.OpTable
open Yaql.Props.C03Parse (run_append)

/-! ## Tree layer: definitions -/

def tok (k : TokKind) (v : TokVal := .none) : Token := ⟨k, v, 0⟩
def tOp (sym : Str) : Token := tok (.op sym)
def tLit (ch : Char) : Token := tok (.lit ch)

/-- what a tree can reproduce of a token: kind and (for tokens that carry one) value; not the position -/
def norm (t : Token) : Token :=
  match t.kind with
  | .op _ | .lit _ | .indexer | .map | .mapping => ⟨t.kind, .none, 0⟩
  | _ => ⟨t.kind, t.val, 0⟩

def isPrefix (c : Cfg) (sym : Str) : Bool :=
  match c.opRec sym with
  | some o => decide (o.up > 0)
  | none => false

/-- precedences of the operator rules still open at the right edge of a tree (outermost first) -/
def rsr (c : Cfg) : Ast → List Prec
  | .binary sym _ _ r =>
      (match c.opRec sym with | some o => c.tokPrec o | none => noPrec) :: rsr c r
  | .unary sym _ x =>
      match c.opRec sym with
      | some o => if o.up > 0 then c.unaryPrec o :: rsr c x else []
      | none => []
  | _ => []

/-- token precedences of the postfix operations applied along the left edge of a tree (outermost first) -/
def lsp (c : Cfg) : Ast → List Prec
  | .binary sym _ l _ =>
      (match c.opRec sym with | some o => c.tokPrec o | none => noPrec) :: lsp c l
  | .unary sym _ x =>
      match c.opRec sym with
      | some o => if o.up > 0 then [] else c.tokPrec o :: lsp c x
      | none => []
  | .index b _ => c.indexerPrec :: lsp c b
  | .call f _ => noPrec :: lsp c f
  | _ => []

def isValue : Ast → Bool
  | .noValue => false
  | .mappingRule _ _ => false
  | _ => true

/-- the `args` grammar as a condition on the slot list, read from a slot start with `budget`/`named`
as in `Frame.args` -/
def slotsOK : Nat → Bool → List Ast → Bool
  | _, _, [] => false
  | b, nm, .noValue :: rest => !nm && !rest.isEmpty && slotsOK (b - 1) false rest
  | b, nm, .mappingRule _ _ :: rest => (nm || decide (b ≥ 1)) && (rest.isEmpty || slotsOK 0 true rest)
  | _, nm, _ :: rest => !nm && (rest.isEmpty || slotsOK 2 false rest)

def argsOK (as : List Ast) : Bool := as.isEmpty || slotsOK 1 false as

mutual
def WFn (c : Cfg) : Ast → Prop
  | .const k _ => k = .quoted ∨ k = .number ∨ k = .true_ ∨ k = .false_ ∨ k = .null_
  | .keywordConst _ => True
  | .getContextValue _ => True
  | .binary sym al l r =>
      ∃ o, c.opRec sym = some o ∧ o.bp ≠ 0 ∧ al = o.alias ∧
        isValue l = true ∧ isValue r = true ∧ WFn c l ∧ WFn c r ∧
        (∀ ρ ∈ rsr c l, reduceOver ρ (c.tokPrec o) = true) ∧
        (∀ p ∈ lsp c r, reduceOver (c.tokPrec o) p = false)
  | .unary sym al x =>
      ∃ o, c.opRec sym = some o ∧ o.up ≠ 0 ∧ al = o.alias ∧ isValue x = true ∧ WFn c x ∧
        (if o.up > 0 then ∀ p ∈ lsp c x, reduceOver (c.unaryPrec o) p = false
         else ∀ ρ ∈ rsr c x, reduceOver ρ (c.tokPrec o) = true)
  | .index b as =>
      isValue b = true ∧ WFn c b ∧ (∀ ρ ∈ rsr c b, reduceOver ρ c.indexerPrec = true) ∧
        argsOK as = true ∧ WFL c as
  | .list as => argsOK as = true ∧ WFL c as
  | .map as => argsOK as = true ∧ WFL c as
  | .func _ as => argsOK as = true ∧ WFL c as
  | .call f as =>
      c.delegates = true ∧ isValue f = true ∧ WFn c f ∧ (∀ ρ ∈ rsr c f, reduceOver ρ noPrec = true) ∧
        argsOK as = true ∧ WFL c as
  | .wrap e => isValue e = true ∧ WFn c e
  | .mappingRule s d => isValue s = true ∧ isValue d = true ∧ WFn c s ∧ WFn c d
  | .noValue => True
def WFL (c : Cfg) : List Ast → Prop
  | [] => True
  | a :: as => WFn c a ∧ WFL c as
end

/-- **the precedence-correctness predicate**: a value tree in which every operator's operands are
what the operator table (through ply's levels) dictates -/
def WF (c : Cfg) (t : Ast) : Prop := isValue t = true ∧ WFn c t

mutual
def yield (c : Cfg) : Ast → List Token
  | .const k v => [tok k v]
  | .keywordConst v => [tok .keyword v]
  | .getContextValue v => [tok .dollar v]
  | .binary sym _ l r => yield c l ++ tOp sym :: yield c r
  | .unary sym _ x => if isPrefix c sym then tOp sym :: yield c x else yield c x ++ [tOp sym]
  | .index b as => yield c b ++ tok .indexer :: (yieldL c as ++ [tLit ']'])
  | .list as => tok .indexer :: (yieldL c as ++ [tLit ']'])
  | .map as => tok .map :: (yieldL c as ++ [tLit '}'])
  | .func n as => tok .func n :: (yieldL c as ++ [tLit ')'])
  | .call f as => yield c f ++ tLit '(' :: (yieldL c as ++ [tLit ')'])
  | .wrap e => tLit '(' :: (yield c e ++ [tLit ')'])
  | .mappingRule s d => yield c s ++ tok .mapping :: yield c d
  | .noValue => []
def yieldL (c : Cfg) : List Ast → List Token
  | [] => []
  | a :: as => yield c a ++ (match as with | [] => [] | _ :: _ => tLit ',' :: yieldL c as)
end


/-! ## Invariants of the machine (soundness direction) -/

def ctxOf (c : Cfg) : List Frame → Option Prec
  | .binop _ _ o :: _ => some (c.tokPrec o)
  | .pre _ o :: _ => some (c.unaryPrec o)
  | _ => none

/-- a postfix token of precedence `p` is shifted (not reduced over) in context `ctx` -/
def shifts (ctx : Option Prec) (p : Prec) : Prop := ∀ ρ, ctx = some ρ → reduceOver ρ p = false

/-- state of the slot machine after the completed slots `acc` (each followed by a comma) -/
def slotsPre : Nat → Bool → List Ast → Option (Nat × Bool)
  | b, nm, [] => some (b, nm)
  | b, nm, .noValue :: rest => if nm then none else slotsPre (b - 1) false rest
  | b, nm, .mappingRule _ _ :: rest => if nm || decide (b ≥ 1) then slotsPre 0 true rest else none
  | _, nm, _ :: rest => if nm then none else slotsPre 2 false rest

def opener (c : Cfg) : ArgKind → List Token
  | .func n => [tok .func n]
  | .index b => yield c b ++ [tok .indexer]
  | .list => [tok .indexer]
  | .map => [tok .map]
  | .call f => yield c f ++ [tLit '(']

def yieldSlots (c : Cfg) : List Ast → List Token
  | [] => []
  | a :: as => yield c a ++ tLit ',' :: yieldSlots c as

def yieldFrame (c : Cfg) : Frame → List Token
  | .paren => [tLit '(']
  | .binop l sym _ => yield c l ++ [tOp sym]
  | .pre sym _ => [tOp sym]
  | .amb l sym _ => yield c l ++ [tOp sym]
  | .args k acc _ _ _ => opener c k ++ yieldSlots c acc
  | .named src => yield c src ++ [tok .mapping]

def yieldStack (c : Cfg) : List Frame → List Token
  | [] => []
  | f :: S => yieldStack c S ++ yieldFrame c f

def yieldSt (c : Cfg) (st : St) : List Token :=
  yieldStack c st.stack ++ (match st.cur with | none => [] | some v => yield c v)

def kindOK (c : Cfg) (S : List Frame) : ArgKind → Prop
  | .index b => isValue b = true ∧ WFn c b ∧ (∀ ρ ∈ rsr c b, reduceOver ρ c.indexerPrec = true) ∧
      (∀ p ∈ c.indexerPrec :: lsp c b, shifts (ctxOf c S) p)
  | .call f => c.delegates = true ∧ isValue f = true ∧ WFn c f ∧ (∀ ρ ∈ rsr c f, reduceOver ρ noPrec = true) ∧
      (∀ p ∈ noPrec :: lsp c f, shifts (ctxOf c S) p)
  | _ => True

def StackOK (c : Cfg) : List Frame → Prop
  | [] => True
  | .paren :: S => StackOK c S
  | .binop l sym o :: S =>
      c.opRec sym = some o ∧ o.bp ≠ 0 ∧ isValue l = true ∧ WFn c l ∧
      (∀ ρ ∈ rsr c l, reduceOver ρ (c.tokPrec o) = true) ∧
      (∀ p ∈ c.tokPrec o :: lsp c l, shifts (ctxOf c S) p) ∧ StackOK c S
  | .pre sym o :: S => c.opRec sym = some o ∧ o.up > 0 ∧ StackOK c S
  | .amb _ _ _ :: _ => False
  | .args k acc b nm fresh :: S =>
      kindOK c S k ∧ WFL c acc ∧ slotsPre 1 false acc = some (b, nm) ∧ (fresh = true ↔ acc = []) ∧ StackOK c S
  | .named src :: S =>
      isValue src = true ∧ WFn c src ∧
      (match S with | .args _ _ b nm _ :: _ => nm = true ∨ b ≥ 1 | _ => False) ∧ StackOK c S

def CurOK (c : Cfg) (S : List Frame) (v : Ast) : Prop :=
  isValue v = true ∧ WFn c v ∧ rsr c v = [] ∧ ∀ p ∈ lsp c v, shifts (ctxOf c S) p

def StOK (c : Cfg) (st : St) : Prop :=
  match st.cur, st.stack with
  | none, .amb l sym o :: S =>
      c.opRec sym = some o ∧ o.bp ≠ 0 ∧ o.up < 0 ∧ isValue l = true ∧ WFn c l ∧
      (∀ ρ ∈ rsr c l, reduceOver ρ (c.tokPrec o) = true) ∧
      (∀ p ∈ c.tokPrec o :: lsp c l, shifts (ctxOf c S) p) ∧ StackOK c S
  | none, S => StackOK c S
  | some v, S => StackOK c S ∧ CurOK c S v


/-! ### `reduceWhile` -/

def redP (p : Option Prec) (ρ : Prec) : Prop :=
  match p with
  | none => True
  | some p => reduceOver ρ p = true

/-- where `reduceWhile` stops -/
def stopP (c : Cfg) (p : Option Prec) (S : List Frame) : Prop :=
  match p with
  | some p => shifts (ctxOf c S) p
  | none => ctxOf c S = none

theorem shifts_none (p : Prec) : shifts none p := by intro ρ h; cases h

theorem rsr_binary {c : Cfg} {sym al l r o} (h : c.opRec sym = some o) :
    rsr c (.binary sym al l r) = c.tokPrec o :: rsr c r := by simp [rsr, h]
theorem lsp_binary {c : Cfg} {sym al l r o} (h : c.opRec sym = some o) :
    lsp c (.binary sym al l r) = c.tokPrec o :: lsp c l := by simp [lsp, h]
theorem rsr_prefix {c : Cfg} {sym al x o} (h : c.opRec sym = some o) (hp : o.up > 0) :
    rsr c (.unary sym al x) = c.unaryPrec o :: rsr c x := by simp [rsr, h, hp]
theorem lsp_prefix {c : Cfg} {sym al x o} (h : c.opRec sym = some o) (hp : o.up > 0) :
    lsp c (.unary sym al x) = [] := by simp [lsp, h, hp]
theorem rsr_suffix {c : Cfg} {sym al x o} (h : c.opRec sym = some o) (hp : ¬ o.up > 0) :
    rsr c (.unary sym al x) = [] := by simp [rsr, h, hp]
theorem lsp_suffix {c : Cfg} {sym al x o} (h : c.opRec sym = some o) (hp : ¬ o.up > 0) :
    lsp c (.unary sym al x) = c.tokPrec o :: lsp c x := by simp [lsp, h, hp]
theorem isPrefix_of {c : Cfg} {sym o} (h : c.opRec sym = some o) : isPrefix c sym = decide (o.up > 0) := by
  simp [isPrefix, h]

theorem reduceWhile_spec (c : Cfg) (p : Option Prec) :
    ∀ (S : List Frame) (v : Ast), StackOK c S → isValue v = true → WFn c v →
      (∀ q ∈ lsp c v, shifts (ctxOf c S) q) → (∀ ρ ∈ rsr c v, redP p ρ) →
      ∀ S' v', reduceWhile c p S v = (S', v') →
        StackOK c S' ∧ isValue v' = true ∧ WFn c v' ∧ (∀ q ∈ lsp c v', shifts (ctxOf c S') q) ∧
        (∀ ρ ∈ rsr c v', redP p ρ) ∧
        stopP c p S' ∧
        yieldStack c S' ++ yield c v' = yieldStack c S ++ yield c v
  | [], v, hS, hv, hw, hl, hr, S', v', h => by
    simp [reduceWhile] at h
    obtain ⟨rfl, rfl⟩ := h
    refine ⟨hS, hv, hw, hl, hr, ?_, rfl⟩
    cases p <;> simp [stopP, ctxOf, shifts_none]
  | .paren :: S, v, hS, hv, hw, hl, hr, S', v', h => by
    simp [reduceWhile] at h
    obtain ⟨rfl, rfl⟩ := h
    refine ⟨hS, hv, hw, hl, hr, ?_, rfl⟩
    cases p <;> simp [stopP, ctxOf, shifts_none]
  | .args k acc b nm fr :: S, v, hS, hv, hw, hl, hr, S', v', h => by
    simp [reduceWhile] at h
    obtain ⟨rfl, rfl⟩ := h
    refine ⟨hS, hv, hw, hl, hr, ?_, rfl⟩
    cases p <;> simp [stopP, ctxOf, shifts_none]
  | .named src :: S, v, hS, hv, hw, hl, hr, S', v', h => by
    simp [reduceWhile] at h
    obtain ⟨rfl, rfl⟩ := h
    refine ⟨hS, hv, hw, hl, hr, ?_, rfl⟩
    cases p <;> simp [stopP, ctxOf, shifts_none]
  | .amb l sym o :: S, v, hS, _, _, _, _, _, _, _ => by simp [StackOK] at hS
  | .binop l sym o :: S, v, hS, hv, hw, hl, hr, S', v', h => by
    obtain ⟨ho, hbp, hlv, hlw, hlr, hls, hS'⟩ := hS
    have key : redP p (c.tokPrec o) → reduceWhile c p S (.binary sym o.alias l v) = (S', v') →
        StackOK c S' ∧ isValue v' = true ∧ WFn c v' ∧ (∀ q ∈ lsp c v', shifts (ctxOf c S') q) ∧
        (∀ ρ ∈ rsr c v', redP p ρ) ∧
        stopP c p S' ∧
        yieldStack c S' ++ yield c v' = yieldStack c (.binop l sym o :: S) ++ yield c v := by
      intro hc h
      refine (reduceWhile_spec c p S (.binary sym o.alias l v) hS' (by simp [isValue]) ?_ ?_ ?_ S' v' h).imp_right
        (fun ⟨a1, a2, a3, a4, a5, a6⟩ => ⟨a1, a2, a3, a4, a5, ?_⟩)
      · simp only [WFn]
        refine ⟨o, ho, hbp, rfl, hlv, hv, hlw, hw, hlr, ?_⟩
        intro q hq
        exact hl q hq _ (by simp [ctxOf])
      · rw [lsp_binary ho]; exact hls
      · rw [rsr_binary ho]
        intro ρ hρ
        rcases List.mem_cons.mp hρ with rfl | hρ
        · exact hc
        · exact hr ρ hρ
      · rw [a6]; simp [yieldStack, yieldFrame, yield]
    cases p with
    | none => simp only [reduceWhile, ↓reduceIte] at h; exact key trivial h
    | some p' =>
      simp only [reduceWhile] at h
      by_cases hc : reduceOver (c.tokPrec o) p' = true
      · simp only [hc, ↓reduceIte] at h; exact key hc h
      · simp only [hc] at h
        simp at h
        obtain ⟨rfl, rfl⟩ := h
        refine ⟨⟨ho, hbp, hlv, hlw, hlr, hls, hS'⟩, hv, hw, hl, hr, ?_, rfl⟩
        intro ρ hρ
        simp [ctxOf] at hρ
        subst hρ
        simpa using hc
  | .pre sym o :: S, v, hS, hv, hw, hl, hr, S', v', h => by
    obtain ⟨ho, hup, hS'⟩ := hS
    have key : redP p (c.unaryPrec o) → reduceWhile c p S (.unary sym o.alias v) = (S', v') →
        StackOK c S' ∧ isValue v' = true ∧ WFn c v' ∧ (∀ q ∈ lsp c v', shifts (ctxOf c S') q) ∧
        (∀ ρ ∈ rsr c v', redP p ρ) ∧
        stopP c p S' ∧
        yieldStack c S' ++ yield c v' = yieldStack c (.pre sym o :: S) ++ yield c v := by
      intro hc h
      refine (reduceWhile_spec c p S (.unary sym o.alias v) hS' (by simp [isValue]) ?_ ?_ ?_ S' v' h).imp_right
        (fun ⟨a1, a2, a3, a4, a5, a6⟩ => ⟨a1, a2, a3, a4, a5, ?_⟩)
      · simp only [WFn]
        refine ⟨o, ho, by omega, rfl, hv, hw, ?_⟩
        simp only [hup, ↓reduceIte]
        intro q hq
        exact hl q hq _ (by simp [ctxOf])
      · rw [lsp_prefix ho hup]; simp
      · rw [rsr_prefix ho hup]
        intro ρ hρ
        rcases List.mem_cons.mp hρ with rfl | hρ
        · exact hc
        · exact hr ρ hρ
      · rw [a6]; simp [yieldStack, yieldFrame, yield, isPrefix_of ho, hup]
    cases p with
    | none => simp only [reduceWhile, ↓reduceIte] at h; exact key trivial h
    | some p' =>
      simp only [reduceWhile] at h
      by_cases hc : reduceOver (c.unaryPrec o) p' = true
      · simp only [hc, ↓reduceIte] at h; exact key hc h
      · simp only [hc] at h
        simp at h
        obtain ⟨rfl, rfl⟩ := h
        refine ⟨⟨ho, hup, hS'⟩, hv, hw, hl, hr, ?_, rfl⟩
        intro ρ hρ
        simp [ctxOf] at hρ
        subst hρ
        simpa using hc


/-! ### slot bookkeeping -/

theorem WFL_append (c : Cfg) : ∀ (a b : List Ast), WFL c (a ++ b) ↔ WFL c a ∧ WFL c b
  | [], b => by simp [WFL]
  | x :: a, b => by simp [WFL, WFL_append c a b, and_assoc]

theorem slotsPre_value {v : Ast} (hv : isValue v = true) (b : Nat) (nm : Bool) (rest : List Ast) :
    slotsPre b nm (v :: rest) = if nm then none else slotsPre 2 false rest := by
  cases v <;> simp [isValue] at hv <;> simp [slotsPre]

theorem slotsOK_value {v : Ast} (hv : isValue v = true) (b : Nat) (nm : Bool) (rest : List Ast) :
    slotsOK b nm (v :: rest) = (!nm && (rest.isEmpty || slotsOK 2 false rest)) := by
  cases v <;> simp [isValue] at hv <;> simp [slotsOK]

theorem slotsPre_append : ∀ (a r : List Ast) (b : Nat) (nm : Bool),
    slotsPre b nm (a ++ r) = (match slotsPre b nm a with | some (b', nm') => slotsPre b' nm' r | none => none)
  | [], r, b, nm => by simp [slotsPre]
  | x :: a, r, b, nm => by
    cases x <;> simp only [List.cons_append, slotsPre] <;> (try split) <;>
      first | exact slotsPre_append a r _ _ | rfl

theorem slotsOK_append : ∀ (a r : List Ast) (b : Nat) (nm : Bool), r ≠ [] →
    slotsOK b nm (a ++ r) = (match slotsPre b nm a with | some (b', nm') => slotsOK b' nm' r | none => false)
  | [], r, b, nm, _ => by simp [slotsPre]
  | x :: a, r, b, nm, hr => by
    have ih := fun b nm => slotsOK_append a r b nm hr
    have hne : (a ++ r).isEmpty = false := by cases a <;> cases r <;> simp_all
    cases x with
    | mappingRule sr ds =>
      simp only [List.cons_append, slotsOK, slotsPre, hne, ih]
      by_cases hc : (nm || decide (b ≥ 1)) = true
      · simp only [hc, ↓reduceIte]; simp
      · simp only [hc]; simp
    | _ => simp only [List.cons_append, slotsOK, slotsPre, hne, ih] <;> cases nm <;> simp

theorem yieldSlots_append (c : Cfg) : ∀ (a b : List Ast), yieldSlots c (a ++ b) = yieldSlots c a ++ yieldSlots c b
  | [], b => by simp [yieldSlots]
  | x :: a, b => by simp [yieldSlots, yieldSlots_append c a b]

theorem yieldL_snoc (c : Cfg) : ∀ (a : List Ast) (v : Ast), yieldL c (a ++ [v]) = yieldSlots c a ++ yield c v
  | [], v => by simp [yieldL, yieldSlots]
  | x :: a, v => by
    have ih := yieldL_snoc c a v
    cases a with
    | nil => simp [yieldL, yieldSlots]
    | cons y a => simp only [List.cons_append, yieldL, yieldSlots] at ih ⊢; simp [ih]


/-! ### one step preserves the invariant -/

def StOKn (c : Cfg) (st : St) : Prop :=
  match st.cur with
  | none => StackOK c st.stack
  | some v => StackOK c st.stack ∧ CurOK c st.stack v

theorem StOKn_imp {c : Cfg} {st : St} (h : StOKn c st) : StOK c st := by
  obtain ⟨S, cur⟩ := st
  cases cur with
  | some v => exact h
  | none =>
    cases S with
    | nil => exact h
    | cons f S => cases f <;> first | exact h | (simp [StOKn, StackOK] at h)

theorem build_ok {c : Cfg} {S : List Frame} {k : ArgKind} (hk : kindOK c S k) (as : List Ast)
    (ha : argsOK as = true) (hw : WFL c as) :
    CurOK c S (k.build as) ∧ yield c (k.build as) = opener c k ++ yieldL c as ++ [tLit k.closer] := by
  cases k with
  | func n => simp [ArgKind.build, CurOK, isValue, WFn, rsr, lsp, ha, hw, yield, opener, ArgKind.closer]
  | list => simp [ArgKind.build, CurOK, isValue, WFn, rsr, lsp, ha, hw, yield, opener, ArgKind.closer]
  | map => simp [ArgKind.build, CurOK, isValue, WFn, rsr, lsp, ha, hw, yield, opener, ArgKind.closer]
  | index b =>
    obtain ⟨h1, h2, h3, h4⟩ := hk
    refine ⟨⟨by simp [ArgKind.build, isValue], ?_, by simp [ArgKind.build, rsr], ?_⟩, ?_⟩
    · simp only [ArgKind.build, WFn]; exact ⟨h1, h2, h3, ha, hw⟩
    · simpa [ArgKind.build, lsp] using h4
    · simp [ArgKind.build, yield, opener, ArgKind.closer]
  | call f =>
    obtain ⟨h0, h1, h2, h3, h4⟩ := hk
    refine ⟨⟨by simp [ArgKind.build, isValue], ?_, by simp [ArgKind.build, rsr], ?_⟩, ?_⟩
    · simp only [ArgKind.build, WFn]; exact ⟨h0, h1, h2, h3, ha, hw⟩
    · simpa [ArgKind.build, lsp] using h4
    · simp [ArgKind.build, yield, opener, ArgKind.closer]

theorem norm_lit {t : Token} {ch : Char} (h : t.kind = .lit ch) : norm t = tLit ch := by
  simp [norm, h, tLit, tok]

theorem newArgs_ok {c : Cfg} {S : List Frame} {k : ArgKind} (hk : kindOK c S k) (hS : StackOK c S) :
    StackOK c (newArgs k :: S) := by
  simp [newArgs, StackOK, hk, hS, WFL, slotsPre]

theorem stepOperand_inv {c : Cfg} {S : List Frame} {t : Token} {st' : St}
    (hS : StackOK c S) (h : stepOperand c S t = .ok st') :
    StOKn c st' ∧ yieldSt c st' = yieldStack c S ++ [norm t] := by
  unfold stepOperand at h
  cases hk : t.kind with
  | quoted | number | true_ | false_ | null_ =>
    simp only [hk] at h
    injection h with h; subst h
    simp [StOKn, CurOK, hS, isValue, WFn, rsr, lsp, yieldSt, yield, norm, hk, tok]
  | keyword | dollar =>
    simp only [hk] at h
    injection h with h; subst h
    simp [StOKn, CurOK, hS, isValue, WFn, rsr, lsp, yieldSt, yield, norm, hk, tok]
  | func | indexer | map =>
    simp only [hk] at h
    injection h with h; subst h
    refine ⟨newArgs_ok (by simp [kindOK]) hS, ?_⟩
    simp [yieldSt, yieldStack, yieldFrame, newArgs, opener, yieldSlots, norm, hk, tok]
  | mapping => simp [hk, errAt] at h
  | op sym =>
    simp only [hk] at h
    split at h
    · rename_i o ho
      split at h
      · rename_i hup
        injection h with h; subst h
        refine ⟨⟨ho, hup, hS⟩, ?_⟩
        simp [yieldSt, yieldStack, yieldFrame, norm, hk, tOp, tok]
      · simp [errAt] at h
    · simp [errAt] at h
  | lit ch =>
    simp only [hk] at h
    split at h
    · rename_i hch
      injection h with h; subst h
      have : ch = '(' := by simpa using hch
      subst this
      exact ⟨hS, by simp [yieldSt, yieldStack, yieldFrame, norm_lit hk]⟩
    · split at h
      · rename_i k acc b nm fr S'
        obtain ⟨hk', hwl, hpre, hfr, hS'⟩ := hS
        split at h
        · rename_i hcomma
          have : ch = ',' := by simpa using hcomma
          subst this
          split at h
          · simp [errAt] at h
          · rename_i hnm
            injection h with h; subst h
            have hnm' : nm = false := by simpa using hnm
            subst hnm'
            refine ⟨⟨hk', ?_, ?_, by simp, hS'⟩, ?_⟩
            · exact (WFL_append c acc [.noValue]).mpr ⟨hwl, by simp [WFL, WFn]⟩
            · rw [slotsPre_append, hpre]; simp [slotsPre]
            · simp [yieldSt, yieldStack, yieldFrame, yieldSlots_append, yieldSlots, yield, norm_lit hk]
        · split at h
          · rename_i hcl
            injection h with h; subst h
            have hcl' : fr = true ∧ ch = k.closer := by simpa using hcl
            obtain ⟨hfr', hch⟩ := hcl'
            have hacc : acc = [] := hfr.mp hfr'
            subst hacc
            obtain ⟨h1, h2⟩ := build_ok hk' [] (by simp [argsOK]) (by simp [WFL])
            refine ⟨⟨hS', h1⟩, ?_⟩
            simp [yieldSt, yieldStack, yieldFrame, yieldSlots, h2, yieldL, norm_lit hk, hch]
          · simp [errAt] at h
      · simp [errAt] at h


theorem close_inv {c : Cfg} {S : List Frame} {v : Ast} {t : Token} {st' : St}
    (hS : StackOK c S) (hv : isValue v = true) (hw : WFn c v) (h : close S v t = .ok st') :
    StOKn c st' ∧ yieldSt c st' = yieldStack c S ++ yield c v ++ [norm t] := by
  unfold close at h
  split at h
  · -- paren
    rename_i S'
    split at h
    · rename_i ch hk
      split at h
      · rename_i hch
        injection h with h; subst h
        have : ch = ')' := by simpa using hch
        subst this
        refine ⟨⟨hS, by simp [isValue], by simp [WFn, hv, hw], by simp [rsr], by simp [lsp]⟩, ?_⟩
        simp [yieldSt, yieldStack, yieldFrame, yield, norm_lit hk]
      · simp [errAt] at h
    · simp [errAt] at h
  · -- args
    rename_i k acc b nm fr S'
    obtain ⟨hk', hwl, hpre, hfr, hS'⟩ := hS
    split at h
    · rename_i ch hk
      split at h
      · simp [errAt] at h
      · rename_i hnm
        have hnm' : nm = false := by simpa using hnm
        subst hnm'
        split at h
        · rename_i hcomma
          injection h with h; subst h
          have : ch = ',' := by simpa using hcomma
          subst this
          refine ⟨⟨hk', ?_, ?_, by simp, hS'⟩, ?_⟩
          · exact (WFL_append c acc [v]).mpr ⟨hwl, by simp [WFL, hw]⟩
          · rw [slotsPre_append, hpre]; simp [slotsPre_value hv, slotsPre]
          · simp [yieldSt, yieldStack, yieldFrame, yieldSlots_append, yieldSlots, norm_lit hk]
        · split at h
          · rename_i hcl
            injection h with h; subst h
            have hch : ch = k.closer := by simpa using hcl
            have hargs : argsOK (acc ++ [v]) = true := by
              simp only [argsOK]
              rw [slotsOK_append acc [v] 1 false (by simp), hpre]
              simp [slotsOK_value hv]
            obtain ⟨h1, h2⟩ := build_ok hk' (acc ++ [v]) hargs
              ((WFL_append c acc [v]).mpr ⟨hwl, by simp [WFL, hw]⟩)
            refine ⟨⟨hS', h1⟩, ?_⟩
            simp [yieldSt, yieldStack, yieldFrame, h2, yieldL_snoc, norm_lit hk, hch]
          · simp [errAt] at h
    · rename_i hk
      split at h
      · rename_i hcond
        injection h with h; subst h
        refine ⟨⟨hv, hw, ?_, hk', hwl, hpre, hfr, hS'⟩, ?_⟩
        · simpa [Bool.or_eq_true] using hcond
        · simp [yieldSt, yieldStack, yieldFrame, norm, hk, tok]
      · simp [errAt] at h
    · simp [errAt] at h
  · -- named
    rename_i src k acc b nm fr S'
    obtain ⟨hsv, hsw, hallow, hk', hwl, hpre, hfr, hS'⟩ := hS
    have hmr : WFL c (acc ++ [.mappingRule src v]) :=
      (WFL_append c acc [.mappingRule src v]).mpr ⟨hwl, by simp [WFL, WFn, hsv, hv, hsw, hw]⟩
    have hallow' : (nm || decide (b ≥ 1)) = true := by
      rcases hallow with h | h <;> simp [h]
    split at h
    · rename_i ch hk
      split at h
      · rename_i hcomma
        injection h with h; subst h
        have : ch = ',' := by simpa using hcomma
        subst this
        refine ⟨⟨hk', hmr, ?_, by simp, hS'⟩, ?_⟩
        · rw [slotsPre_append, hpre]; simp only [slotsPre, hallow', ↓reduceIte]
        · simp [yieldSt, yieldStack, yieldFrame, yieldSlots_append, yieldSlots, yield, norm_lit hk]
      · split at h
        · rename_i hcl
          injection h with h; subst h
          have hch : ch = k.closer := by simpa using hcl
          have hargs : argsOK (acc ++ [.mappingRule src v]) = true := by
            simp only [argsOK]
            rw [slotsOK_append acc [.mappingRule src v] 1 false (by simp), hpre]
            simp only [slotsOK, hallow']; simp
          obtain ⟨h1, h2⟩ := build_ok hk' (acc ++ [.mappingRule src v]) hargs hmr
          refine ⟨⟨hS', h1⟩, ?_⟩
          simp [yieldSt, yieldStack, yieldFrame, h2, yieldL_snoc, yield, norm_lit hk, hch]
        · simp [errAt] at h
    · simp [errAt] at h
  · simp [errAt] at h


/-- what `classify` says about the token -/
theorem classify_spec {c : Cfg} {t : Token} {post : Post} {p : Prec} (h : classify c t = some (post, p)) :
    match post with
    | .bin sym o => t.kind = .op sym ∧ c.opRec sym = some o ∧ o.bp ≠ 0 ∧ ¬ o.up < 0 ∧ p = c.tokPrec o
    | .amb sym o => t.kind = .op sym ∧ c.opRec sym = some o ∧ o.bp ≠ 0 ∧ o.up < 0 ∧ p = c.tokPrec o
    | .suf sym o => t.kind = .op sym ∧ c.opRec sym = some o ∧ o.bp = 0 ∧ o.up < 0 ∧ p = c.tokPrec o
    | .idx => t.kind = .indexer ∧ p = c.indexerPrec
    | .call => t.kind = .lit '(' ∧ c.delegates = true ∧ p = noPrec := by
  unfold classify at h
  split at h
  · rename_i sym hk
    split at h
    · rename_i o ho
      split at h
      · rename_i hbp
        split at h
        · rename_i hup
          injection h with h; injection h with h1 h2; subst h1 h2
          exact ⟨hk, ho, hbp, hup, rfl⟩
        · rename_i hup
          injection h with h; injection h with h1 h2; subst h1 h2
          exact ⟨hk, ho, hbp, hup, rfl⟩
      · rename_i hbp
        split at h
        · rename_i hup
          injection h with h; injection h with h1 h2; subst h1 h2
          exact ⟨hk, ho, by simpa using hbp, hup, rfl⟩
        · simp at h
    · simp at h
  · rename_i hk
    injection h with h; injection h with h1 h2; subst h1 h2
    exact ⟨hk, rfl⟩
  · rename_i ch hk
    split at h
    · rename_i hc
      injection h with h; injection h with h1 h2; subst h1 h2
      have : ch = '(' ∧ c.delegates = true := by simpa using hc
      exact ⟨by rw [hk, this.1], this.2, rfl⟩
    · simp at h
  · simp at h

theorem stepAfter_inv {c : Cfg} {S : List Frame} {v : Ast} {t : Token} {st' : St}
    (hS : StackOK c S) (hc : CurOK c S v) (h : stepAfter c S v t = .ok st') :
    StOK c st' ∧ yieldSt c st' = yieldStack c S ++ yield c v ++ [norm t] := by
  obtain ⟨hv, hw, hr, hl⟩ := hc
  unfold stepAfter at h
  split at h
  · rename_i post p hcl
    have hcs := classify_spec hcl
    cases hrw : reduceWhile c (some p) S v with
    | mk S' v' =>
    obtain ⟨a1, a2, a3, a4, a5, a6, a7⟩ :=
      reduceWhile_spec c (some p) S v hS hv hw hl (by rw [hr]; simp) S' v' hrw
    simp only [hrw] at h
    have hr' : ∀ ρ ∈ rsr c v', reduceOver ρ p = true := a5
    have hsh : shifts (ctxOf c S') p := a6
    cases post with
    | bin sym o =>
      obtain ⟨hk, ho, hbp, hup, rfl⟩ := hcs
      injection h with h; subst h
      refine ⟨StOKn_imp (c := c) (st := ⟨_, none⟩) ⟨ho, hbp, a2, a3, hr', ?_, a1⟩, ?_⟩
      · intro q hq; rcases List.mem_cons.mp hq with rfl | hq
        · exact hsh
        · exact a4 q hq
      · simp [yieldSt, yieldStack, yieldFrame, norm, hk, tOp, tok, ← a7]
    | amb sym o =>
      obtain ⟨hk, ho, hbp, hup, rfl⟩ := hcs
      injection h with h; subst h
      refine ⟨⟨ho, hbp, hup, a2, a3, hr', ?_, a1⟩, ?_⟩
      · intro q hq; rcases List.mem_cons.mp hq with rfl | hq
        · exact hsh
        · exact a4 q hq
      · simp [yieldSt, yieldStack, yieldFrame, norm, hk, tOp, tok, ← a7]
    | suf sym o =>
      obtain ⟨hk, ho, hbp, hup, rfl⟩ := hcs
      injection h with h; subst h
      have hnp : ¬ o.up > 0 := by omega
      refine ⟨⟨a1, by simp [isValue], ?_, rsr_suffix ho hnp, ?_⟩, ?_⟩
      · simp only [WFn]
        refine ⟨o, ho, by omega, rfl, a2, a3, ?_⟩
        simp only [hnp, ↓reduceIte]; exact hr'
      · rw [lsp_suffix ho hnp]
        intro q hq; rcases List.mem_cons.mp hq with rfl | hq
        · exact hsh
        · exact a4 q hq
      · simp [yieldSt, yield, isPrefix_of ho, hnp, norm, hk, tOp, tok, ← a7]
    | idx =>
      obtain ⟨hk, rfl⟩ := hcs
      injection h with h; subst h
      refine ⟨StOKn_imp (c := c) (st := ⟨_, none⟩) (newArgs_ok ⟨a2, a3, hr', ?_⟩ a1), ?_⟩
      · intro q hq; rcases List.mem_cons.mp hq with rfl | hq
        · exact hsh
        · exact a4 q hq
      · simp [yieldSt, yieldStack, yieldFrame, newArgs, opener, yieldSlots, norm, hk, tok, ← a7]
    | call =>
      obtain ⟨hk, hd, rfl⟩ := hcs
      injection h with h; subst h
      refine ⟨StOKn_imp (c := c) (st := ⟨_, none⟩) (newArgs_ok ⟨hd, a2, a3, hr', ?_⟩ a1), ?_⟩
      · intro q hq; rcases List.mem_cons.mp hq with rfl | hq
        · exact hsh
        · exact a4 q hq
      · simp [yieldSt, yieldStack, yieldFrame, newArgs, opener, yieldSlots, norm_lit hk, ← a7]
  · cases hrw : reduceWhile c none S v with
    | mk S' v' =>
    obtain ⟨a1, a2, a3, _, _, _, a7⟩ :=
      reduceWhile_spec c none S v hS hv hw hl (by intro ρ _; trivial) S' v' hrw
    simp only [hrw] at h
    obtain ⟨b1, b2⟩ := close_inv a1 a2 a3 h
    exact ⟨StOKn_imp b1, by rw [b2, a7]⟩


theorem resolveAmb_inv {c : Cfg} {st : St} (next : Option Token) (h : StOK c st) :
    StOKn c (resolveAmb c st next) ∧ yieldSt c (resolveAmb c st next) = yieldSt c st := by
  obtain ⟨S, cur⟩ := st
  cases cur with
  | some v => exact ⟨h, rfl⟩
  | none =>
    cases S with
    | nil => exact ⟨h, rfl⟩
    | cons f S =>
      cases f with
      | amb l sym o =>
        obtain ⟨ho, hbp, hup, hlv, hlw, hlr, hls, hS⟩ := h
        have key : ∀ ab : Bool,
            StOKn c (if ab = true then ⟨.binop l sym o :: S, none⟩ else ⟨S, some (.unary sym o.alias l)⟩) ∧
            yieldSt c (if ab = true then ⟨.binop l sym o :: S, none⟩ else ⟨S, some (.unary sym o.alias l)⟩) =
              yieldSt c ⟨.amb l sym o :: S, none⟩ := by
          intro ab
          cases ab with
          | true => exact ⟨⟨ho, hbp, hlv, hlw, hlr, hls, hS⟩, by simp [yieldSt, yieldStack, yieldFrame]⟩
          | false =>
            have hnp : ¬ o.up > 0 := by omega
            refine ⟨⟨hS, by simp [isValue], ?_, rsr_suffix ho hnp, ?_⟩, ?_⟩
            · simp only [WFn]
              refine ⟨o, ho, by omega, rfl, hlv, hlw, ?_⟩
              simp only [hnp, ↓reduceIte]; exact hlr
            · rw [lsp_suffix ho hnp]; exact hls
            · simp [yieldSt, yieldStack, yieldFrame, yield, isPrefix_of ho, hnp]
        simp only [resolveAmb]
        exact key _
      | _ => exact ⟨h, rfl⟩

theorem step_inv {c : Cfg} {st st' : St} {t : Token} (h : StOK c st) (hs : step c st t = .ok st') :
    StOK c st' ∧ yieldSt c st' = yieldSt c st ++ [norm t] := by
  obtain ⟨h1, h2⟩ := resolveAmb_inv (some t) h
  simp only [step] at hs
  generalize resolveAmb c st (some t) = st1 at h1 h2 hs
  obtain ⟨S, cur⟩ := st1
  cases cur with
  | none =>
    obtain ⟨a, b⟩ := stepOperand_inv (c := c) (S := S) h1 hs
    exact ⟨StOKn_imp a, by rw [b, ← h2]; simp [yieldSt]⟩
  | some v =>
    obtain ⟨a, b⟩ := stepAfter_inv (c := c) (S := S) h1.1 h1.2 hs
    exact ⟨a, by rw [b, ← h2]; simp [yieldSt]⟩

theorem run_inv {c : Cfg} : ∀ (toks : List Token) (st st' : St), StOK c st → run c st toks = .ok st' →
    StOK c st' ∧ yieldSt c st' = yieldSt c st ++ toks.map norm
  | [], st, st', h, hr => by
    simp [run] at hr; subst hr; exact ⟨h, by simp⟩
  | t :: ts, st, st', h, hr => by
    simp only [run] at hr
    split at hr
    · rename_i st1 hs
      obtain ⟨a, b⟩ := step_inv h hs
      obtain ⟨a', b'⟩ := run_inv ts st1 st' a hr
      exact ⟨a', by rw [b', b]; simp⟩
    · simp at hr

/-- **C02, tree layer, soundness.**  Whatever the operator table and the token list: a successful
parse returns a tree that satisfies the precedence predicate `WF` of that table and spells exactly
the token list (kinds and values; positions are not part of a tree). -/
theorem parse_sound (c : Cfg) (toks : List Token) (t : Ast) (h : parse c toks = .ok t) :
    WF c t ∧ yield c t = toks.map norm := by
  simp only [parse] at h
  split at h
  · rename_i st hr
    obtain ⟨a, b⟩ := run_inv toks {} st (by simp [StOK, StackOK]) hr
    obtain ⟨a1, b1⟩ := resolveAmb_inv none a
    simp only [finish] at h
    generalize resolveAmb c st none = st1 at a1 b1 h
    obtain ⟨S, cur⟩ := st1
    cases cur with
    | none => simp at h
    | some v =>
      simp only at h
      obtain ⟨hS, hv, hw, hr', hl⟩ := a1
      cases hrw : reduceWhile c none S v with
      | mk S' v' =>
      obtain ⟨_, a2, a3, _, _, _, a7⟩ :=
        reduceWhile_spec c none S v hS hv hw hl (by intro ρ _; trivial) S' v' hrw
      rw [hrw] at h
      cases S' with
      | cons f S'' => simp at h
      | nil =>
        simp at h; subst h
        refine ⟨⟨a2, a3⟩, ?_⟩
        have : yieldSt c ⟨S, some v⟩ = yield c v' := by simpa [yieldSt, yieldStack] using a7.symm
        rw [← this, b1, b]; simp [yieldSt, yieldStack]
  · simp at h

end Yaql.Props.C02
