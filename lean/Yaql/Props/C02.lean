import Yaql.Model.Parser
import Yaql.Props.C03Parse
namespace Yaql.Props.C02
open Yaql.Syntax Yaql.OpTable
open Yaql.Props.C03Parse (run_append)

/-! ## Tree layer: definitions -/

def tok (k : TokKind) (v : TokVal := .none) : Token := ⟨k, v, 0⟩
def tOp (sym : Str) : Token := tok (.op sym)
def tLit (ch : Char) : Token := tok (.lit ch)

/-- what a tree can reproduce of a token: kind and (for tokens that carry one) value; not the position -/
def norm (t : Token) : Token :=
  match t.kind with
  | .op _ | .lit _ | .indexer | .map | .mapping => ⟨t.kind, .none, 0⟩
  | _ => ⟨t.kind, t.val, 0⟩

def isPrefix (c : Cfg) (sym : Str) : Bool :=
  match c.opRec sym with
  | some o => decide (o.up > 0)
  | none => false

/-- precedences of the operator rules still open at the right edge of a tree (outermost first) -/
def rsr (c : Cfg) : Ast → List Prec
  | .binary sym _ _ r =>
      (match c.opRec sym with | some o => c.tokPrec o | none => noPrec) :: rsr c r
  | .unary sym _ x =>
      match c.opRec sym with
      | some o => if o.up > 0 then c.unaryPrec o :: rsr c x else []
      | none => []
  | _ => []

/-- token precedences of the postfix operations applied along the left edge of a tree (outermost first) -/
def lsp (c : Cfg) : Ast → List Prec
  | .binary sym _ l _ =>
      (match c.opRec sym with | some o => c.tokPrec o | none => noPrec) :: lsp c l
  | .unary sym _ x =>
      match c.opRec sym with
      | some o => if o.up > 0 then [] else c.tokPrec o :: lsp c x
      | none => []
  | .index b _ => c.indexerPrec :: lsp c b
  | .call f _ => noPrec :: lsp c f
  | _ => []

def isValue : Ast → Bool
  | .noValue => false
  | .mappingRule _ _ => false
  | _ => true

/-- the `args` grammar as a condition on the slot list, read from a slot start with `budget`/`named`
as in `Frame.args` -/
def slotsOK : Nat → Bool → List Ast → Bool
  | _, _, [] => false
  | b, nm, .noValue :: rest => !nm && !rest.isEmpty && slotsOK (b - 1) false rest
  | b, nm, .mappingRule _ _ :: rest => (nm || decide (b ≥ 1)) && (rest.isEmpty || slotsOK 0 true rest)
  | _, nm, _ :: rest => !nm && (rest.isEmpty || slotsOK 2 false rest)

def argsOK (as : List Ast) : Bool := as.isEmpty || slotsOK 1 false as

mutual
def WFn (c : Cfg) : Ast → Prop
  | .const k _ => k = .quoted ∨ k = .number ∨ k = .true_ ∨ k = .false_ ∨ k = .null_
  | .keywordConst _ => True
  | .getContextValue _ => True
  | .binary sym al l r =>
      ∃ o, c.opRec sym = some o ∧ o.bp ≠ 0 ∧ al = o.alias ∧
        isValue l = true ∧ isValue r = true ∧ WFn c l ∧ WFn c r ∧
        (∀ ρ ∈ rsr c l, reduceOver ρ (c.tokPrec o) = true) ∧
        (∀ p ∈ lsp c r, reduceOver (c.tokPrec o) p = false)
  | .unary sym al x =>
      ∃ o, c.opRec sym = some o ∧ o.up ≠ 0 ∧ al = o.alias ∧ isValue x = true ∧ WFn c x ∧
        (if o.up > 0 then ∀ p ∈ lsp c x, reduceOver (c.unaryPrec o) p = false
         else ∀ ρ ∈ rsr c x, reduceOver ρ (c.tokPrec o) = true)
  | .index b as =>
      isValue b = true ∧ WFn c b ∧ (∀ ρ ∈ rsr c b, reduceOver ρ c.indexerPrec = true) ∧
        argsOK as = true ∧ WFL c as
  | .list as => argsOK as = true ∧ WFL c as
  | .map as => argsOK as = true ∧ WFL c as
  | .func _ as => argsOK as = true ∧ WFL c as
  | .call f as =>
      c.delegates = true ∧ isValue f = true ∧ WFn c f ∧ (∀ ρ ∈ rsr c f, reduceOver ρ noPrec = true) ∧
        argsOK as = true ∧ WFL c as
  | .wrap e => isValue e = true ∧ WFn c e
  | .mappingRule s d => isValue s = true ∧ isValue d = true ∧ WFn c s ∧ WFn c d
  | .noValue => True
def WFL (c : Cfg) : List Ast → Prop
  | [] => True
  | a :: as => WFn c a ∧ WFL c as
end

/-- **the precedence-correctness predicate**: a value tree in which every operator's operands are
what the operator table (through ply's levels) dictates -/
def WF (c : Cfg) (t : Ast) : Prop := isValue t = true ∧ WFn c t

mutual
def yield (c : Cfg) : Ast → List Token
  | .const k v => [tok k v]
  | .keywordConst v => [tok .keyword v]
  | .getContextValue v => [tok .dollar v]
  | .binary sym _ l r => yield c l ++ tOp sym :: yield c r
  | .unary sym _ x => if isPrefix c sym then tOp sym :: yield c x else yield c x ++ [tOp sym]
  | .index b as => yield c b ++ tok .indexer :: (yieldL c as ++ [tLit ']'])
  | .list as => tok .indexer :: (yieldL c as ++ [tLit ']'])
  | .map as => tok .map :: (yieldL c as ++ [tLit '}'])
  | .func n as => tok .func n :: (yieldL c as ++ [tLit ')'])
  | .call f as => yield c f ++ tLit '(' :: (yieldL c as ++ [tLit ')'])
  | .wrap e => tLit '(' :: (yield c e ++ [tLit ')'])
  | .mappingRule s d => yield c s ++ tok .mapping :: yield c d
  | .noValue => []
def yieldL (c : Cfg) : List Ast → List Token
  | [] => []
  | a :: as => yield c a ++ (match as with | [] => [] | _ :: _ => tLit ',' :: yieldL c as)
end


/-! ## Invariants of the machine (soundness direction) -/

def ctxOf (c : Cfg) : List Frame → Option Prec
  | .binop _ _ o :: _ => some (c.tokPrec o)
  | .pre _ o :: _ => some (c.unaryPrec o)
  | _ => none

/-- a postfix token of precedence `p` is shifted (not reduced over) in context `ctx` -/
def shifts (ctx : Option Prec) (p : Prec) : Prop := ∀ ρ, ctx = some ρ → reduceOver ρ p = false

/-- state of the slot machine after the completed slots `acc` (each followed by a comma) -/
def slotsPre : Nat → Bool → List Ast → Option (Nat × Bool)
  | b, nm, [] => some (b, nm)
  | b, nm, .noValue :: rest => if nm then none else slotsPre (b - 1) false rest
  | b, nm, .mappingRule _ _ :: rest => if nm || decide (b ≥ 1) then slotsPre 0 true rest else none
  | _, nm, _ :: rest => if nm then none else slotsPre 2 false rest

def opener (c : Cfg) : ArgKind → List Token
  | .func n => [tok .func n]
  | .index b => yield c b ++ [tok .indexer]
  | .list => [tok .indexer]
  | .map => [tok .map]
  | .call f => yield c f ++ [tLit '(']

def yieldSlots (c : Cfg) : List Ast → List Token
  | [] => []
  | a :: as => yield c a ++ tLit ',' :: yieldSlots c as

def yieldFrame (c : Cfg) : Frame → List Token
  | .paren => [tLit '(']
  | .binop l sym _ => yield c l ++ [tOp sym]
  | .pre sym _ => [tOp sym]
  | .amb l sym _ => yield c l ++ [tOp sym]
  | .args k acc _ _ _ => opener c k ++ yieldSlots c acc
  | .named src => yield c src ++ [tok .mapping]

def yieldStack (c : Cfg) : List Frame → List Token
  | [] => []
  | f :: S => yieldStack c S ++ yieldFrame c f

def yieldSt (c : Cfg) (st : St) : List Token :=
  yieldStack c st.stack ++ (match st.cur with | none => [] | some v => yield c v)

def kindOK (c : Cfg) (S : List Frame) : ArgKind → Prop
  | .index b => isValue b = true ∧ WFn c b ∧ (∀ ρ ∈ rsr c b, reduceOver ρ c.indexerPrec = true) ∧
      (∀ p ∈ c.indexerPrec :: lsp c b, shifts (ctxOf c S) p)
  | .call f => c.delegates = true ∧ isValue f = true ∧ WFn c f ∧ (∀ ρ ∈ rsr c f, reduceOver ρ noPrec = true) ∧
      (∀ p ∈ noPrec :: lsp c f, shifts (ctxOf c S) p)
  | _ => True

def StackOK (c : Cfg) : List Frame → Prop
  | [] => True
  | .paren :: S => StackOK c S
  | .binop l sym o :: S =>
      c.opRec sym = some o ∧ o.bp ≠ 0 ∧ isValue l = true ∧ WFn c l ∧
      (∀ ρ ∈ rsr c l, reduceOver ρ (c.tokPrec o) = true) ∧
      (∀ p ∈ c.tokPrec o :: lsp c l, shifts (ctxOf c S) p) ∧ StackOK c S
  | .pre sym o :: S => c.opRec sym = some o ∧ o.up > 0 ∧ StackOK c S
  | .amb _ _ _ :: _ => False
  | .args k acc b nm fresh :: S =>
      kindOK c S k ∧ WFL c acc ∧ slotsPre 1 false acc = some (b, nm) ∧ (fresh = true ↔ acc = []) ∧ StackOK c S
  | .named src :: S =>
      isValue src = true ∧ WFn c src ∧
      (match S with | .args _ _ b nm _ :: _ => nm = true ∨ b ≥ 1 | _ => False) ∧ StackOK c S

def CurOK (c : Cfg) (S : List Frame) (v : Ast) : Prop :=
  isValue v = true ∧ WFn c v ∧ rsr c v = [] ∧ ∀ p ∈ lsp c v, shifts (ctxOf c S) p

def StOK (c : Cfg) (st : St) : Prop :=
  match st.cur, st.stack with
  | none, .amb l sym o :: S =>
      c.opRec sym = some o ∧ o.bp ≠ 0 ∧ o.up < 0 ∧ isValue l = true ∧ WFn c l ∧
      (∀ ρ ∈ rsr c l, reduceOver ρ (c.tokPrec o) = true) ∧
      (∀ p ∈ c.tokPrec o :: lsp c l, shifts (ctxOf c S) p) ∧ StackOK c S
  | none, S => StackOK c S
  | some v, S => StackOK c S ∧ CurOK c S v


/-! ### `reduceWhile` -/

def redP (p : Option Prec) (ρ : Prec) : Prop :=
  match p with
  | none => True
  | some p => reduceOver ρ p = true

/-- where `reduceWhile` stops -/
def stopP (c : Cfg) (p : Option Prec) (S : List Frame) : Prop :=
  match p with
  | some p => shifts (ctxOf c S) p
  | none => ctxOf c S = none

theorem shifts_none (p : Prec) : shifts none p := by intro ρ h; cases h

theorem rsr_binary {c : Cfg} {sym al l r o} (h : c.opRec sym = some o) :
    rsr c (.binary sym al l r) = c.tokPrec o :: rsr c r := by simp [rsr, h]
theorem lsp_binary {c : Cfg} {sym al l r o} (h : c.opRec sym = some o) :
    lsp c (.binary sym al l r) = c.tokPrec o :: lsp c l := by simp [lsp, h]
theorem rsr_prefix {c : Cfg} {sym al x o} (h : c.opRec sym = some o) (hp : o.up > 0) :
    rsr c (.unary sym al x) = c.unaryPrec o :: rsr c x := by simp [rsr, h, hp]
theorem lsp_prefix {c : Cfg} {sym al x o} (h : c.opRec sym = some o) (hp : o.up > 0) :
    lsp c (.unary sym al x) = [] := by simp [lsp, h, hp]
theorem rsr_suffix {c : Cfg} {sym al x o} (h : c.opRec sym = some o) (hp : ¬ o.up > 0) :
    rsr c (.unary sym al x) = [] := by simp [rsr, h, hp]
theorem lsp_suffix {c : Cfg} {sym al x o} (h : c.opRec sym = some o) (hp : ¬ o.up > 0) :
    lsp c (.unary sym al x) = c.tokPrec o :: lsp c x := by simp [lsp, h, hp]
theorem isPrefix_of {c : Cfg} {sym o} (h : c.opRec sym = some o) : isPrefix c sym = decide (o.up > 0) := by
  simp [isPrefix, h]

theorem reduceWhile_spec (c : Cfg) (p : Option Prec) :
    ∀ (S : List Frame) (v : Ast), StackOK c S → isValue v = true → WFn c v →
      (∀ q ∈ lsp c v, shifts (ctxOf c S) q) → (∀ ρ ∈ rsr c v, redP p ρ) →
      ∀ S' v', reduceWhile c p S v = (S', v') →
        StackOK c S' ∧ isValue v' = true ∧ WFn c v' ∧ (∀ q ∈ lsp c v', shifts (ctxOf c S') q) ∧
        (∀ ρ ∈ rsr c v', redP p ρ) ∧
        stopP c p S' ∧
        yieldStack c S' ++ yield c v' = yieldStack c S ++ yield c v
  | [], v, hS, hv, hw, hl, hr, S', v', h => by
    simp [reduceWhile] at h
    obtain ⟨rfl, rfl⟩ := h
    refine ⟨hS, hv, hw, hl, hr, ?_, rfl⟩
    cases p <;> simp [stopP, ctxOf, shifts_none]
  | .paren :: S, v, hS, hv, hw, hl, hr, S', v', h => by
    simp [reduceWhile] at h
    obtain ⟨rfl, rfl⟩ := h
    refine ⟨hS, hv, hw, hl, hr, ?_, rfl⟩
    cases p <;> simp [stopP, ctxOf, shifts_none]
  | .args k acc b nm fr :: S, v, hS, hv, hw, hl, hr, S', v', h => by
    simp [reduceWhile] at h
    obtain ⟨rfl, rfl⟩ := h
    refine ⟨hS, hv, hw, hl, hr, ?_, rfl⟩
    cases p <;> simp [stopP, ctxOf, shifts_none]
  | .named src :: S, v, hS, hv, hw, hl, hr, S', v', h => by
    simp [reduceWhile] at h
    obtain ⟨rfl, rfl⟩ := h
    refine ⟨hS, hv, hw, hl, hr, ?_, rfl⟩
    cases p <;> simp [stopP, ctxOf, shifts_none]
  | .amb l sym o :: S, v, hS, _, _, _, _, _, _, _ => by simp [StackOK] at hS
  | .binop l sym o :: S, v, hS, hv, hw, hl, hr, S', v', h => by
    obtain ⟨ho, hbp, hlv, hlw, hlr, hls, hS'⟩ := hS
    have key : redP p (c.tokPrec o) → reduceWhile c p S (.binary sym o.alias l v) = (S', v') →
        StackOK c S' ∧ isValue v' = true ∧ WFn c v' ∧ (∀ q ∈ lsp c v', shifts (ctxOf c S') q) ∧
        (∀ ρ ∈ rsr c v', redP p ρ) ∧
        stopP c p S' ∧
        yieldStack c S' ++ yield c v' = yieldStack c (.binop l sym o :: S) ++ yield c v := by
      intro hc h
      refine (reduceWhile_spec c p S (.binary sym o.alias l v) hS' (by simp [isValue]) ?_ ?_ ?_ S' v' h).imp_right
        (fun ⟨a1, a2, a3, a4, a5, a6⟩ => ⟨a1, a2, a3, a4, a5, ?_⟩)
      · simp only [WFn]
        refine ⟨o, ho, hbp, rfl, hlv, hv, hlw, hw, hlr, ?_⟩
        intro q hq
        exact hl q hq _ (by simp [ctxOf])
      · rw [lsp_binary ho]; exact hls
      · rw [rsr_binary ho]
        intro ρ hρ
        rcases List.mem_cons.mp hρ with rfl | hρ
        · exact hc
        · exact hr ρ hρ
      · rw [a6]; simp [yieldStack, yieldFrame, yield]
    cases p with
    | none => simp only [reduceWhile, ↓reduceIte] at h; exact key trivial h
    | some p' =>
      simp only [reduceWhile] at h
      by_cases hc : reduceOver (c.tokPrec o) p' = true
      · simp only [hc, ↓reduceIte] at h; exact key hc h
      · simp only [hc] at h
        simp at h
        obtain ⟨rfl, rfl⟩ := h
        refine ⟨⟨ho, hbp, hlv, hlw, hlr, hls, hS'⟩, hv, hw, hl, hr, ?_, rfl⟩
        intro ρ hρ
        simp [ctxOf] at hρ
        subst hρ
        simpa using hc
  | .pre sym o :: S, v, hS, hv, hw, hl, hr, S', v', h => by
    obtain ⟨ho, hup, hS'⟩ := hS
    have key : redP p (c.unaryPrec o) → reduceWhile c p S (.unary sym o.alias v) = (S', v') →
        StackOK c S' ∧ isValue v' = true ∧ WFn c v' ∧ (∀ q ∈ lsp c v', shifts (ctxOf c S') q) ∧
        (∀ ρ ∈ rsr c v', redP p ρ) ∧
        stopP c p S' ∧
        yieldStack c S' ++ yield c v' = yieldStack c (.pre sym o :: S) ++ yield c v := by
      intro hc h
      refine (reduceWhile_spec c p S (.unary sym o.alias v) hS' (by simp [isValue]) ?_ ?_ ?_ S' v' h).imp_right
        (fun ⟨a1, a2, a3, a4, a5, a6⟩ => ⟨a1, a2, a3, a4, a5, ?_⟩)
      · simp only [WFn]
        refine ⟨o, ho, by omega, rfl, hv, hw, ?_⟩
        simp only [hup, ↓reduceIte]
        intro q hq
        exact hl q hq _ (by simp [ctxOf])
      · rw [lsp_prefix ho hup]; simp
      · rw [rsr_prefix ho hup]
        intro ρ hρ
        rcases List.mem_cons.mp hρ with rfl | hρ
        · exact hc
        · exact hr ρ hρ
      · rw [a6]; simp [yieldStack, yieldFrame, yield, isPrefix_of ho, hup]
    cases p with
    | none => simp only [reduceWhile, ↓reduceIte] at h; exact key trivial h
    | some p' =>
      simp only [reduceWhile] at h
      by_cases hc : reduceOver (c.unaryPrec o) p' = true
      · simp only [hc, ↓reduceIte] at h; exact key hc h
      · simp only [hc] at h
        simp at h
        obtain ⟨rfl, rfl⟩ := h
        refine ⟨⟨ho, hup, hS'⟩, hv, hw, hl, hr, ?_, rfl⟩
        intro ρ hρ
        simp [ctxOf] at hρ
        subst hρ
        simpa using hc


/-! ### slot bookkeeping -/

theorem WFL_append (c : Cfg) : ∀ (a b : List Ast), WFL c (a ++ b) ↔ WFL c a ∧ WFL c b
  | [], b => by simp [WFL]
  | x :: a, b => by simp [WFL, WFL_append c a b, and_assoc]

theorem slotsPre_value {v : Ast} (hv : isValue v = true) (b : Nat) (nm : Bool) (rest : List Ast) :
    slotsPre b nm (v :: rest) = if nm then none else slotsPre 2 false rest := by
  cases v <;> simp [isValue] at hv <;> simp [slotsPre]

theorem slotsOK_value {v : Ast} (hv : isValue v = true) (b : Nat) (nm : Bool) (rest : List Ast) :
    slotsOK b nm (v :: rest) = (!nm && (rest.isEmpty || slotsOK 2 false rest)) := by
  cases v <;> simp [isValue] at hv <;> simp [slotsOK]

theorem slotsPre_append : ∀ (a r : List Ast) (b : Nat) (nm : Bool),
    slotsPre b nm (a ++ r) = (match slotsPre b nm a with | some (b', nm') => slotsPre b' nm' r | none => none)
  | [], r, b, nm => by simp [slotsPre]
  | x :: a, r, b, nm => by
    cases x <;> simp only [List.cons_append, slotsPre] <;> (try split) <;>
      first | exact slotsPre_append a r _ _ | rfl

theorem slotsOK_append : ∀ (a r : List Ast) (b : Nat) (nm : Bool), r ≠ [] →
    slotsOK b nm (a ++ r) = (match slotsPre b nm a with | some (b', nm') => slotsOK b' nm' r | none => false)
  | [], r, b, nm, _ => by simp [slotsPre]
  | x :: a, r, b, nm, hr => by
    have ih := fun b nm => slotsOK_append a r b nm hr
    have hne : (a ++ r).isEmpty = false := by cases a <;> cases r <;> simp_all
    cases x with
    | mappingRule sr ds =>
      simp only [List.cons_append, slotsOK, slotsPre, hne, ih]
      by_cases hc : (nm || decide (b ≥ 1)) = true
      · simp only [hc, ↓reduceIte]; simp
      · simp only [hc]; simp
    | _ => simp only [List.cons_append, slotsOK, slotsPre, hne, ih] <;> cases nm <;> simp

theorem yieldSlots_append (c : Cfg) : ∀ (a b : List Ast), yieldSlots c (a ++ b) = yieldSlots c a ++ yieldSlots c b
  | [], b => by simp [yieldSlots]
  | x :: a, b => by simp [yieldSlots, yieldSlots_append c a b]

theorem yieldL_snoc (c : Cfg) : ∀ (a : List Ast) (v : Ast), yieldL c (a ++ [v]) = yieldSlots c a ++ yield c v
  | [], v => by simp [yieldL, yieldSlots]
  | x :: a, v => by
    have ih := yieldL_snoc c a v
    cases a with
    | nil => simp [yieldL, yieldSlots]
    | cons y a => simp only [List.cons_append, yieldL, yieldSlots] at ih ⊢; simp [ih]


/-! ### one step preserves the invariant -/

def StOKn (c : Cfg) (st : St) : Prop :=
  match st.cur with
  | none => StackOK c st.stack
  | some v => StackOK c st.stack ∧ CurOK c st.stack v

theorem StOKn_imp {c : Cfg} {st : St} (h : StOKn c st) : StOK c st := by
  obtain ⟨S, cur⟩ := st
  cases cur with
  | some v => exact h
  | none =>
    cases S with
    | nil => exact h
    | cons f S => cases f <;> first | exact h | (simp [StOKn, StackOK] at h)

theorem build_ok {c : Cfg} {S : List Frame} {k : ArgKind} (hk : kindOK c S k) (as : List Ast)
    (ha : argsOK as = true) (hw : WFL c as) :
    CurOK c S (k.build as) ∧ yield c (k.build as) = opener c k ++ yieldL c as ++ [tLit k.closer] := by
  cases k with
  | func n => simp [ArgKind.build, CurOK, isValue, WFn, rsr, lsp, ha, hw, yield, opener, ArgKind.closer]
  | list => simp [ArgKind.build, CurOK, isValue, WFn, rsr, lsp, ha, hw, yield, opener, ArgKind.closer]
  | map => simp [ArgKind.build, CurOK, isValue, WFn, rsr, lsp, ha, hw, yield, opener, ArgKind.closer]
  | index b =>
    obtain ⟨h1, h2, h3, h4⟩ := hk
    refine ⟨⟨by simp [ArgKind.build, isValue], ?_, by simp [ArgKind.build, rsr], ?_⟩, ?_⟩
    · simp only [ArgKind.build, WFn]; exact ⟨h1, h2, h3, ha, hw⟩
    · simpa [ArgKind.build, lsp] using h4
    · simp [ArgKind.build, yield, opener, ArgKind.closer]
  | call f =>
    obtain ⟨h0, h1, h2, h3, h4⟩ := hk
    refine ⟨⟨by simp [ArgKind.build, isValue], ?_, by simp [ArgKind.build, rsr], ?_⟩, ?_⟩
    · simp only [ArgKind.build, WFn]; exact ⟨h0, h1, h2, h3, ha, hw⟩
    · simpa [ArgKind.build, lsp] using h4
    · simp [ArgKind.build, yield, opener, ArgKind.closer]

theorem norm_lit {t : Token} {ch : Char} (h : t.kind = .lit ch) : norm t = tLit ch := by
  simp [norm, h, tLit, tok]

theorem newArgs_ok {c : Cfg} {S : List Frame} {k : ArgKind} (hk : kindOK c S k) (hS : StackOK c S) :
    StackOK c (newArgs k :: S) := by
  simp [newArgs, StackOK, hk, hS, WFL, slotsPre]

theorem stepOperand_inv {c : Cfg} {S : List Frame} {t : Token} {st' : St}
    (hS : StackOK c S) (h : stepOperand c S t = .ok st') :
    StOKn c st' ∧ yieldSt c st' = yieldStack c S ++ [norm t] := by
  unfold stepOperand at h
  cases hk : t.kind with
  | quoted | number | true_ | false_ | null_ =>
    simp only [hk] at h
    injection h with h; subst h
    simp [StOKn, CurOK, hS, isValue, WFn, rsr, lsp, yieldSt, yield, norm, hk, tok]
  | keyword | dollar =>
    simp only [hk] at h
    injection h with h; subst h
    simp [StOKn, CurOK, hS, isValue, WFn, rsr, lsp, yieldSt, yield, norm, hk, tok]
  | func | indexer | map =>
    simp only [hk] at h
    injection h with h; subst h
    refine ⟨newArgs_ok (by simp [kindOK]) hS, ?_⟩
    simp [yieldSt, yieldStack, yieldFrame, newArgs, opener, yieldSlots, norm, hk, tok]
  | mapping => simp [hk, errAt] at h
  | op sym =>
    simp only [hk] at h
    split at h
    · rename_i o ho
      split at h
      · rename_i hup
        injection h with h; subst h
        refine ⟨⟨ho, hup, hS⟩, ?_⟩
        simp [yieldSt, yieldStack, yieldFrame, norm, hk, tOp, tok]
      · simp [errAt] at h
    · simp [errAt] at h
  | lit ch =>
    simp only [hk] at h
    split at h
    · rename_i hch
      injection h with h; subst h
      have : ch = '(' := by simpa using hch
      subst this
      exact ⟨hS, by simp [yieldSt, yieldStack, yieldFrame, norm_lit hk]⟩
    · split at h
      · rename_i k acc b nm fr S'
        obtain ⟨hk', hwl, hpre, hfr, hS'⟩ := hS
        split at h
        · rename_i hcomma
          have : ch = ',' := by simpa using hcomma
          subst this
          split at h
          · simp [errAt] at h
          · rename_i hnm
            injection h with h; subst h
            have hnm' : nm = false := by simpa using hnm
            subst hnm'
            refine ⟨⟨hk', ?_, ?_, by simp, hS'⟩, ?_⟩
            · exact (WFL_append c acc [.noValue]).mpr ⟨hwl, by simp [WFL, WFn]⟩
            · rw [slotsPre_append, hpre]; simp [slotsPre]
            · simp [yieldSt, yieldStack, yieldFrame, yieldSlots_append, yieldSlots, yield, norm_lit hk]
        · split at h
          · rename_i hcl
            injection h with h; subst h
            have hcl' : fr = true ∧ ch = k.closer := by simpa using hcl
            obtain ⟨hfr', hch⟩ := hcl'
            have hacc : acc = [] := hfr.mp hfr'
            subst hacc
            obtain ⟨h1, h2⟩ := build_ok hk' [] (by simp [argsOK]) (by simp [WFL])
            refine ⟨⟨hS', h1⟩, ?_⟩
            simp [yieldSt, yieldStack, yieldFrame, yieldSlots, h2, yieldL, norm_lit hk, hch]
          · simp [errAt] at h
      · simp [errAt] at h


theorem close_inv {c : Cfg} {S : List Frame} {v : Ast} {t : Token} {st' : St}
    (hS : StackOK c S) (hv : isValue v = true) (hw : WFn c v) (h : close S v t = .ok st') :
    StOKn c st' ∧ yieldSt c st' = yieldStack c S ++ yield c v ++ [norm t] := by
  unfold close at h
  split at h
  · -- paren
    rename_i S'
    split at h
    · rename_i ch hk
      split at h
      · rename_i hch
        injection h with h; subst h
        have : ch = ')' := by simpa using hch
        subst this
        refine ⟨⟨hS, by simp [isValue], by simp [WFn, hv, hw], by simp [rsr], by simp [lsp]⟩, ?_⟩
        simp [yieldSt, yieldStack, yieldFrame, yield, norm_lit hk]
      · simp [errAt] at h
    · simp [errAt] at h
  · -- args
    rename_i k acc b nm fr S'
    obtain ⟨hk', hwl, hpre, hfr, hS'⟩ := hS
    split at h
    · rename_i ch hk
      split at h
      · simp [errAt] at h
      · rename_i hnm
        have hnm' : nm = false := by simpa using hnm
        subst hnm'
        split at h
        · rename_i hcomma
          injection h with h; subst h
          have : ch = ',' := by simpa using hcomma
          subst this
          refine ⟨⟨hk', ?_, ?_, by simp, hS'⟩, ?_⟩
          · exact (WFL_append c acc [v]).mpr ⟨hwl, by simp [WFL, hw]⟩
          · rw [slotsPre_append, hpre]; simp [slotsPre_value hv, slotsPre]
          · simp [yieldSt, yieldStack, yieldFrame, yieldSlots_append, yieldSlots, norm_lit hk]
        · split at h
          · rename_i hcl
            injection h with h; subst h
            have hch : ch = k.closer := by simpa using hcl
            have hargs : argsOK (acc ++ [v]) = true := by
              simp only [argsOK]
              rw [slotsOK_append acc [v] 1 false (by simp), hpre]
              simp [slotsOK_value hv]
            obtain ⟨h1, h2⟩ := build_ok hk' (acc ++ [v]) hargs
              ((WFL_append c acc [v]).mpr ⟨hwl, by simp [WFL, hw]⟩)
            refine ⟨⟨hS', h1⟩, ?_⟩
            simp [yieldSt, yieldStack, yieldFrame, h2, yieldL_snoc, norm_lit hk, hch]
          · simp [errAt] at h
    · rename_i hk
      split at h
      · rename_i hcond
        injection h with h; subst h
        refine ⟨⟨hv, hw, ?_, hk', hwl, hpre, hfr, hS'⟩, ?_⟩
        · simpa [Bool.or_eq_true] using hcond
        · simp [yieldSt, yieldStack, yieldFrame, norm, hk, tok]
      · simp [errAt] at h
    · simp [errAt] at h
  · -- named
    rename_i src k acc b nm fr S'
    obtain ⟨hsv, hsw, hallow, hk', hwl, hpre, hfr, hS'⟩ := hS
    have hmr : WFL c (acc ++ [.mappingRule src v]) :=
      (WFL_append c acc [.mappingRule src v]).mpr ⟨hwl, by simp [WFL, WFn, hsv, hv, hsw, hw]⟩
    have hallow' : (nm || decide (b ≥ 1)) = true := by
      rcases hallow with h | h <;> simp [h]
    split at h
    · rename_i ch hk
      split at h
      · rename_i hcomma
        injection h with h; subst h
        have : ch = ',' := by simpa using hcomma
        subst this
        refine ⟨⟨hk', hmr, ?_, by simp, hS'⟩, ?_⟩
        · rw [slotsPre_append, hpre]; simp only [slotsPre, hallow', ↓reduceIte]
        · simp [yieldSt, yieldStack, yieldFrame, yieldSlots_append, yieldSlots, yield, norm_lit hk]
      · split at h
        · rename_i hcl
          injection h with h; subst h
          have hch : ch = k.closer := by simpa using hcl
          have hargs : argsOK (acc ++ [.mappingRule src v]) = true := by
            simp only [argsOK]
            rw [slotsOK_append acc [.mappingRule src v] 1 false (by simp), hpre]
            simp only [slotsOK, hallow']; simp
          obtain ⟨h1, h2⟩ := build_ok hk' (acc ++ [.mappingRule src v]) hargs hmr
          refine ⟨⟨hS', h1⟩, ?_⟩
          simp [yieldSt, yieldStack, yieldFrame, h2, yieldL_snoc, yield, norm_lit hk, hch]
        · simp [errAt] at h
    · simp [errAt] at h
  · simp [errAt] at h


/-- what `classify` says about the token -/
theorem classify_spec {c : Cfg} {t : Token} {post : Post} {p : Prec} (h : classify c t = some (post, p)) :
    match post with
    | .bin sym o => t.kind = .op sym ∧ c.opRec sym = some o ∧ o.bp ≠ 0 ∧ ¬ o.up < 0 ∧ p = c.tokPrec o
    | .amb sym o => t.kind = .op sym ∧ c.opRec sym = some o ∧ o.bp ≠ 0 ∧ o.up < 0 ∧ p = c.tokPrec o
    | .suf sym o => t.kind = .op sym ∧ c.opRec sym = some o ∧ o.bp = 0 ∧ o.up < 0 ∧ p = c.tokPrec o
    | .idx => t.kind = .indexer ∧ p = c.indexerPrec
    | .call => t.kind = .lit '(' ∧ c.delegates = true ∧ p = noPrec := by
  unfold classify at h
  split at h
  · rename_i sym hk
    split at h
    · rename_i o ho
      split at h
      · rename_i hbp
        split at h
        · rename_i hup
          injection h with h; injection h with h1 h2; subst h1 h2
          exact ⟨hk, ho, hbp, hup, rfl⟩
        · rename_i hup
          injection h with h; injection h with h1 h2; subst h1 h2
          exact ⟨hk, ho, hbp, hup, rfl⟩
      · rename_i hbp
        split at h
        · rename_i hup
          injection h with h; injection h with h1 h2; subst h1 h2
          exact ⟨hk, ho, by simpa using hbp, hup, rfl⟩
        · simp at h
    · simp at h
  · rename_i hk
    injection h with h; injection h with h1 h2; subst h1 h2
    exact ⟨hk, rfl⟩
  · rename_i ch hk
    split at h
    · rename_i hc
      injection h with h; injection h with h1 h2; subst h1 h2
      have : ch = '(' ∧ c.delegates = true := by simpa using hc
      exact ⟨by rw [hk, this.1], this.2, rfl⟩
    · simp at h
  · simp at h

theorem stepAfter_inv {c : Cfg} {S : List Frame} {v : Ast} {t : Token} {st' : St}
    (hS : StackOK c S) (hc : CurOK c S v) (h : stepAfter c S v t = .ok st') :
    StOK c st' ∧ yieldSt c st' = yieldStack c S ++ yield c v ++ [norm t] := by
  obtain ⟨hv, hw, hr, hl⟩ := hc
  unfold stepAfter at h
  split at h
  · rename_i post p hcl
    have hcs := classify_spec hcl
    cases hrw : reduceWhile c (some p) S v with
    | mk S' v' =>
    obtain ⟨a1, a2, a3, a4, a5, a6, a7⟩ :=
      reduceWhile_spec c (some p) S v hS hv hw hl (by rw [hr]; simp) S' v' hrw
    simp only [hrw] at h
    have hr' : ∀ ρ ∈ rsr c v', reduceOver ρ p = true := a5
    have hsh : shifts (ctxOf c S') p := a6
    cases post with
    | bin sym o =>
      obtain ⟨hk, ho, hbp, hup, rfl⟩ := hcs
      injection h with h; subst h
      refine ⟨StOKn_imp (c := c) (st := ⟨_, none⟩) ⟨ho, hbp, a2, a3, hr', ?_, a1⟩, ?_⟩
      · intro q hq; rcases List.mem_cons.mp hq with rfl | hq
        · exact hsh
        · exact a4 q hq
      · simp [yieldSt, yieldStack, yieldFrame, norm, hk, tOp, tok, ← a7]
    | amb sym o =>
      obtain ⟨hk, ho, hbp, hup, rfl⟩ := hcs
      injection h with h; subst h
      refine ⟨⟨ho, hbp, hup, a2, a3, hr', ?_, a1⟩, ?_⟩
      · intro q hq; rcases List.mem_cons.mp hq with rfl | hq
        · exact hsh
        · exact a4 q hq
      · simp [yieldSt, yieldStack, yieldFrame, norm, hk, tOp, tok, ← a7]
    | suf sym o =>
      obtain ⟨hk, ho, hbp, hup, rfl⟩ := hcs
      injection h with h; subst h
      have hnp : ¬ o.up > 0 := by omega
      refine ⟨⟨a1, by simp [isValue], ?_, rsr_suffix ho hnp, ?_⟩, ?_⟩
      · simp only [WFn]
        refine ⟨o, ho, by omega, rfl, a2, a3, ?_⟩
        simp only [hnp, ↓reduceIte]; exact hr'
      · rw [lsp_suffix ho hnp]
        intro q hq; rcases List.mem_cons.mp hq with rfl | hq
        · exact hsh
        · exact a4 q hq
      · simp [yieldSt, yield, isPrefix_of ho, hnp, norm, hk, tOp, tok, ← a7]
    | idx =>
      obtain ⟨hk, rfl⟩ := hcs
      injection h with h; subst h
      refine ⟨StOKn_imp (c := c) (st := ⟨_, none⟩) (newArgs_ok ⟨a2, a3, hr', ?_⟩ a1), ?_⟩
      · intro q hq; rcases List.mem_cons.mp hq with rfl | hq
        · exact hsh
        · exact a4 q hq
      · simp [yieldSt, yieldStack, yieldFrame, newArgs, opener, yieldSlots, norm, hk, tok, ← a7]
    | call =>
      obtain ⟨hk, hd, rfl⟩ := hcs
      injection h with h; subst h
      refine ⟨StOKn_imp (c := c) (st := ⟨_, none⟩) (newArgs_ok ⟨hd, a2, a3, hr', ?_⟩ a1), ?_⟩
      · intro q hq; rcases List.mem_cons.mp hq with rfl | hq
        · exact hsh
        · exact a4 q hq
      · simp [yieldSt, yieldStack, yieldFrame, newArgs, opener, yieldSlots, norm_lit hk, ← a7]
  · cases hrw : reduceWhile c none S v with
    | mk S' v' =>
    obtain ⟨a1, a2, a3, _, _, _, a7⟩ :=
      reduceWhile_spec c none S v hS hv hw hl (by intro ρ _; trivial) S' v' hrw
    simp only [hrw] at h
    obtain ⟨b1, b2⟩ := close_inv a1 a2 a3 h
    exact ⟨StOKn_imp b1, by rw [b2, a7]⟩


theorem resolveAmb_inv {c : Cfg} {st : St} (next : Option Token) (h : StOK c st) :
    StOKn c (resolveAmb c st next) ∧ yieldSt c (resolveAmb c st next) = yieldSt c st := by
  obtain ⟨S, cur⟩ := st
  cases cur with
  | some v => exact ⟨h, rfl⟩
  | none =>
    cases S with
    | nil => exact ⟨h, rfl⟩
    | cons f S =>
      cases f with
      | amb l sym o =>
        obtain ⟨ho, hbp, hup, hlv, hlw, hlr, hls, hS⟩ := h
        have key : ∀ ab : Bool,
            StOKn c (if ab = true then ⟨.binop l sym o :: S, none⟩ else ⟨S, some (.unary sym o.alias l)⟩) ∧
            yieldSt c (if ab = true then ⟨.binop l sym o :: S, none⟩ else ⟨S, some (.unary sym o.alias l)⟩) =
              yieldSt c ⟨.amb l sym o :: S, none⟩ := by
          intro ab
          cases ab with
          | true => exact ⟨⟨ho, hbp, hlv, hlw, hlr, hls, hS⟩, by simp [yieldSt, yieldStack, yieldFrame]⟩
          | false =>
            have hnp : ¬ o.up > 0 := by omega
            refine ⟨⟨hS, by simp [isValue], ?_, rsr_suffix ho hnp, ?_⟩, ?_⟩
            · simp only [WFn]
              refine ⟨o, ho, by omega, rfl, hlv, hlw, ?_⟩
              simp only [hnp, ↓reduceIte]; exact hlr
            · rw [lsp_suffix ho hnp]; exact hls
            · simp [yieldSt, yieldStack, yieldFrame, yield, isPrefix_of ho, hnp]
        simp only [resolveAmb]
        exact key _
      | _ => exact ⟨h, rfl⟩

theorem step_inv {c : Cfg} {st st' : St} {t : Token} (h : StOK c st) (hs : step c st t = .ok st') :
    StOK c st' ∧ yieldSt c st' = yieldSt c st ++ [norm t] := by
  obtain ⟨h1, h2⟩ := resolveAmb_inv (some t) h
  simp only [step] at hs
  generalize resolveAmb c st (some t) = st1 at h1 h2 hs
  obtain ⟨S, cur⟩ := st1
  cases cur with
  | none =>
    obtain ⟨a, b⟩ := stepOperand_inv (c := c) (S := S) h1 hs
    exact ⟨StOKn_imp a, by rw [b, ← h2]; simp [yieldSt]⟩
  | some v =>
    obtain ⟨a, b⟩ := stepAfter_inv (c := c) (S := S) h1.1 h1.2 hs
    exact ⟨a, by rw [b, ← h2]; simp [yieldSt]⟩

theorem run_inv {c : Cfg} : ∀ (toks : List Token) (st st' : St), StOK c st → run c st toks = .ok st' →
    StOK c st' ∧ yieldSt c st' = yieldSt c st ++ toks.map norm
  | [], st, st', h, hr => by
    simp [run] at hr; subst hr; exact ⟨h, by simp⟩
  | t :: ts, st, st', h, hr => by
    simp only [run] at hr
    split at hr
    · rename_i st1 hs
      obtain ⟨a, b⟩ := step_inv h hs
      obtain ⟨a', b'⟩ := run_inv ts st1 st' a hr
      exact ⟨a', by rw [b', b]; simp⟩
    · simp at hr

/-- **C02, tree layer, soundness.**  Whatever the operator table and the token list: a successful
parse returns a tree that satisfies the precedence predicate `WF` of that table and spells exactly
the token list (kinds and values; positions are not part of a tree). -/
theorem parse_sound (c : Cfg) (toks : List Token) (t : Ast) (h : parse c toks = .ok t) :
    WF c t ∧ yield c t = toks.map norm := by
  simp only [parse] at h
  split at h
  · rename_i st hr
    obtain ⟨a, b⟩ := run_inv toks {} st (by simp [StOK, StackOK]) hr
    obtain ⟨a1, b1⟩ := resolveAmb_inv none a
    simp only [finish] at h
    generalize resolveAmb c st none = st1 at a1 b1 h
    obtain ⟨S, cur⟩ := st1
    cases cur with
    | none => simp at h
    | some v =>
      simp only at h
      obtain ⟨hS, hv, hw, hr', hl⟩ := a1
      cases hrw : reduceWhile c none S v with
      | mk S' v' =>
      obtain ⟨_, a2, a3, _, _, _, a7⟩ :=
        reduceWhile_spec c none S v hS hv hw hl (by intro ρ _; trivial) S' v' hrw
      rw [hrw] at h
      cases S' with
      | cons f S'' => simp at h
      | nil =>
        simp at h; subst h
        refine ⟨⟨a2, a3⟩, ?_⟩
        have : yieldSt c ⟨S, some v⟩ = yield c v' := by simpa [yieldSt, yieldStack] using a7.symm
        rw [← this, b1, b]; simp [yieldSt, yieldStack]
  · simp at h


/-! ## Round trip (completeness and uniqueness) -/

/-- no symbol is both a suffix and a binary operator (for such a symbol the token sequence itself is
ambiguous: `a OP - b`) -/
def NoAmb (c : Cfg) : Prop := ∀ sym o, c.opRec sym = some o → ¬ (o.up < 0 ∧ o.bp ≠ 0)

def NoAmbTop : List Frame → Prop
  | .amb _ _ _ :: _ => False
  | _ => True

/-- the open operator frames a tree leaves on the stack when its last token has been read (top first) -/
def spineFrames (c : Cfg) : Ast → List Frame
  | .binary sym _ l r =>
      match c.opRec sym with
      | some o => spineFrames c r ++ [.binop l sym o]
      | none => []
  | .unary sym _ x =>
      match c.opRec sym with
      | some o => if o.up > 0 then spineFrames c x ++ [.pre sym o] else []
      | none => []
  | _ => []

/-- ... and the completed value on top of them -/
def spineLast (c : Cfg) : Ast → Ast
  | .binary sym al l r =>
      match c.opRec sym with
      | some _ => spineLast c r
      | none => .binary sym al l r
  | .unary sym al x =>
      match c.opRec sym with
      | some o => if o.up > 0 then spineLast c x else .unary sym al x
      | none => .unary sym al x
  | t => t

theorem reduceWhile_stop {c : Cfg} {p : Option Prec} {S : List Frame} (v : Ast) (h : stopP c p S) :
    reduceWhile c p S v = (S, v) := by
  cases S with
  | nil => simp [reduceWhile]
  | cons f S =>
    cases f with
    | binop l sym o =>
      cases p with
      | none => simp [stopP, ctxOf] at h
      | some p =>
        have : reduceOver (c.tokPrec o) p = false := h _ (by simp [ctxOf])
        simp [reduceWhile, this]
    | pre sym o =>
      cases p with
      | none => simp [stopP, ctxOf] at h
      | some p =>
        have : reduceOver (c.unaryPrec o) p = false := h _ (by simp [ctxOf])
        simp [reduceWhile, this]
    | _ => simp [reduceWhile]

theorem reduceWhile_spine (c : Cfg) (p : Option Prec) : ∀ (t : Ast), WFn c t → (∀ ρ ∈ rsr c t, redP p ρ) →
    ∀ S, reduceWhile c p (spineFrames c t ++ S) (spineLast c t) = reduceWhile c p S t
  | .binary sym al l r, hw, hr, S => by
    simp only [WFn] at hw
    obtain ⟨o, ho, hbp, hal, hlv, hrv, hlw, hrw, hlr, hrl⟩ := hw
    rw [rsr_binary ho] at hr
    have ih := reduceWhile_spine c p r hrw (fun ρ h => hr ρ (List.mem_cons_of_mem _ h)) (.binop l sym o :: S)
    simp only [spineFrames, spineLast, ho, List.append_assoc, List.singleton_append]
    rw [ih]
    have h0 : redP p (c.tokPrec o) := hr _ (List.mem_cons_self ..)
    cases p with
    | none => simp [reduceWhile, hal]
    | some p => simp only [redP] at h0; simp [reduceWhile, h0, hal]
  | .unary sym al x, hw, hr, S => by
    simp only [WFn] at hw
    obtain ⟨o, ho, hup0, hal, hxv, hxw, hcond⟩ := hw
    by_cases hup : o.up > 0
    · rw [rsr_prefix ho hup] at hr
      have ih := reduceWhile_spine c p x hxw (fun ρ h => hr ρ (List.mem_cons_of_mem _ h)) (.pre sym o :: S)
      simp only [spineFrames, spineLast, ho, hup, ↓reduceIte, List.append_assoc, List.singleton_append]
      rw [ih]
      have h0 : redP p (c.unaryPrec o) := hr _ (List.mem_cons_self ..)
      cases p with
      | none => simp [reduceWhile, hal]
      | some p => simp only [redP] at h0; simp [reduceWhile, h0, hal]
    · simp [spineFrames, spineLast, ho, hup]
  | .const _ _, _, _, _ | .keywordConst _, _, _, _ | .getContextValue _, _, _, _ | .index _ _, _, _, _
  | .list _, _, _, _ | .map _, _, _, _ | .func _ _, _, _, _ | .call _ _, _, _, _ | .wrap _, _, _, _
  | .mappingRule _ _, _, _, _ | .noValue, _, _, _ => by simp [spineFrames, spineLast]

theorem reduceWhile_value {c : Cfg} {p : Option Prec} {t : Ast} {S : List Frame} (hw : WFn c t)
    (hr : ∀ ρ ∈ rsr c t, redP p ρ) (hs : stopP c p S) :
    reduceWhile c p (spineFrames c t ++ S) (spineLast c t) = (S, t) := by
  rw [reduceWhile_spine c p t hw hr S, reduceWhile_stop t hs]


theorem step_none {c : Cfg} {S : List Frame} (t : Token) (h : NoAmbTop S) :
    step c ⟨S, none⟩ t = stepOperand c S t := by
  cases S with
  | nil => rfl
  | cons f S => cases f <;> first | rfl | (simp [NoAmbTop] at h)

theorem step_some {c : Cfg} {S : List Frame} {v : Ast} (t : Token) :
    step c ⟨S, some v⟩ t = stepAfter c S v t := rfl

theorem run_cons_ok {c : Cfg} {st st1 : St} {t : Token} (ts : List Token) (h : step c st t = .ok st1) :
    run c st (t :: ts) = run c st1 ts := by simp [run, h]

theorem run_app_ok {c : Cfg} {st st1 : St} {a : List Token} (b : List Token) (h : run c st a = .ok st1) :
    run c st (a ++ b) = run c st1 b := by rw [run_append, h]

/-- a tree's tokens, read from a state that expects a value, leave the tree's open operators on the
stack and its last completed value in `cur` -/
def RunsTo (c : Cfg) (t : Ast) : Prop :=
  ∀ S, NoAmbTop S → (∀ q ∈ lsp c t, shifts (ctxOf c S) q) →
    run c ⟨S, none⟩ (yield c t) = .ok ⟨spineFrames c t ++ S, some (spineLast c t)⟩

theorem after_value_close {c : Cfg} {t : Ast} {S : List Frame} {tk : Token} (hw : WFn c t)
    (hcl : classify c tk = none) (hS : ctxOf c S = none) :
    step c ⟨spineFrames c t ++ S, some (spineLast c t)⟩ tk = close S t tk := by
  rw [step_some]
  unfold stepAfter
  simp only [hcl]
  rw [reduceWhile_value (p := none) hw (fun _ _ => trivial) hS]

def postResult (t : Ast) (S : List Frame) : Post → St
  | .bin sym o => ⟨.binop t sym o :: S, none⟩
  | .amb sym o => ⟨.amb t sym o :: S, none⟩
  | .suf sym o => ⟨S, some (.unary sym o.alias t)⟩
  | .idx => ⟨newArgs (.index t) :: S, none⟩
  | .call => ⟨newArgs (.call t) :: S, none⟩

theorem after_value_post {c : Cfg} {t : Ast} {S : List Frame} {tk : Token} {post : Post} {p : Prec}
    (hw : WFn c t) (hcl : classify c tk = some (post, p))
    (hr : ∀ ρ ∈ rsr c t, reduceOver ρ p = true) (hs : shifts (ctxOf c S) p) :
    step c ⟨spineFrames c t ++ S, some (spineLast c t)⟩ tk =
      .ok (postResult t S post) := by
  rw [step_some]
  unfold stepAfter
  simp only [hcl]
  rw [reduceWhile_value (p := some p) hw hr hs]
  cases post <;> rfl

theorem classify_lit {c : Cfg} {ch : Char} (h : ch ≠ '(') : classify c (tLit ch) = none := by
  simp [classify, tLit, tok, h]

theorem classify_mapping {c : Cfg} : classify c (tok .mapping) = none := by simp [classify, tok]

theorem closer_ne (k : ArgKind) : k.closer ≠ '(' := by cases k <;> simp [ArgKind.closer]
theorem closer_ne_comma (k : ArgKind) : k.closer ≠ ',' := by cases k <;> simp [ArgKind.closer]


theorem run_single {c : Cfg} (st : St) (t : Token) : run c st [t] = step c st t := by
  simp only [run]; cases step c st t <;> rfl

/-- a value followed by a token that cannot continue it, inside a bracket -/
theorem value_then_close {c : Cfg} {v : Ast} {S0 : List Frame} {tk : Token} (hr : RunsTo c v) (hw : WFn c v)
    (hcl : classify c tk = none) (hctx : ctxOf c S0 = none) (hna : NoAmbTop S0) :
    run c ⟨S0, none⟩ (yield c v ++ [tk]) = close S0 v tk := by
  rw [run_app_ok [tk] (hr S0 hna (by rw [hctx]; exact fun q _ => shifts_none q)), run_single,
    after_value_close hw hcl hctx]

def ElemRuns (c : Cfg) : Ast → Prop
  | .noValue => True
  | .mappingRule s d => RunsTo c s ∧ RunsTo c d
  | v => RunsTo c v

theorem elemRuns_value {c : Cfg} {v : Ast} (hv : isValue v = true) : ElemRuns c v = RunsTo c v := by
  cases v <;> simp [isValue] at hv <;> rfl

theorem yieldL_single (c : Cfg) (a : Ast) : yieldL c [a] = yield c a := by simp [yieldL]
theorem yieldL_cons_cons (c : Cfg) (a r : Ast) (rs : List Ast) :
    yieldL c (a :: r :: rs) = yield c a ++ tLit ',' :: yieldL c (r :: rs) := by simp [yieldL]

theorem args_run {c : Cfg} : ∀ (as : List Ast), (∀ a ∈ as, ElemRuns c a) → WFL c as →
    ∀ (k : ArgKind) (acc : List Ast) (b : Nat) (nm fr : Bool) (S : List Frame), slotsOK b nm as = true →
    run c ⟨.args k acc b nm fr :: S, none⟩ (yieldL c as ++ [tLit k.closer]) =
      .ok ⟨S, some (k.build (acc ++ as))⟩
  | [], _, _, _, _, _, _, _, _, h => by simp [slotsOK] at h
  | a :: rest, he, hw, k, acc, b, nm, fr, S, h => by
    obtain ⟨hwa, hwr⟩ := hw
    have her : ∀ x ∈ rest, ElemRuns c x := fun x hx => he x (List.mem_cons_of_mem _ hx)
    have hea := he a (List.mem_cons_self ..)
    have ih := args_run rest her hwr k
    have hnaF : ∀ acc b nm fr, NoAmbTop (.args k acc b nm fr :: S) := fun _ _ _ _ => trivial
    have hctxF : ∀ acc b nm fr, ctxOf c (.args k acc b nm fr :: S) = none := fun _ _ _ _ => rfl
    by_cases hv : isValue a = true
    · -- a positional value
      rw [elemRuns_value hv] at hea
      rw [slotsOK_value hv] at h
      have hnm : nm = false := by cases nm <;> simp_all
      subst hnm
      cases rest with
      | nil =>
        rw [yieldL_single]
        rw [value_then_close hea hwa (classify_lit (closer_ne k)) (hctxF ..) (hnaF ..)]
        simp [close, tLit, tok, closer_ne_comma k]
      | cons r rs =>
        have h2 : slotsOK 2 false (r :: rs) = true := by simpa using h
        rw [yieldL_cons_cons]
        have : (yield c a ++ tLit ',' :: yieldL c (r :: rs)) ++ [tLit k.closer] =
            (yield c a ++ [tLit ',']) ++ (yieldL c (r :: rs) ++ [tLit k.closer]) := by simp
        rw [this, run_app_ok _ (st1 := ⟨.args k (acc ++ [a]) 2 false false :: S, none⟩)]
        · rw [ih (acc ++ [a]) 2 false false S h2]; simp
        · rw [value_then_close hea hwa (classify_lit (by decide)) (hctxF ..) (hnaF ..)]
          simp [close, tLit, tok]
    · cases a with
      | noValue =>
        simp only [slotsOK, Bool.and_eq_true, Bool.not_eq_true'] at h
        obtain ⟨⟨hnm, hne⟩, h2⟩ := h
        subst hnm
        cases rest with
        | nil => simp at hne
        | cons r rs =>
          rw [yieldL_cons_cons]
          simp only [yield, List.nil_append, List.cons_append]
          rw [run_cons_ok (st1 := ⟨.args k (acc ++ [.noValue]) (b - 1) false false :: S, none⟩)]
          · rw [ih (acc ++ [Ast.noValue]) (b - 1) false false S h2]; simp
          · rw [step_none _ (hnaF ..)]
            simp [stepOperand, tLit, tok]
      | mappingRule sr ds =>
        simp only [WFn] at hwa
        obtain ⟨hsv, hdv, hsw, hdw⟩ := hwa
        obtain ⟨hrs, hrd⟩ := hea
        simp only [slotsOK, Bool.and_eq_true] at h
        obtain ⟨hallow, h2⟩ := h
        have stepA : run c ⟨.args k acc b nm fr :: S, none⟩ (yield c sr ++ [tok .mapping]) =
            .ok ⟨.named sr :: .args k acc b nm fr :: S, none⟩ := by
          rw [value_then_close hrs hsw classify_mapping (hctxF ..) (hnaF ..)]
          simp only [close, tok]
          simp only [ge_iff_le] at hallow
          simp [hallow]
        cases rest with
        | nil =>
          rw [yieldL_single]
          simp only [yield]
          have : (yield c sr ++ tok .mapping :: yield c ds) ++ [tLit k.closer] =
              (yield c sr ++ [tok .mapping]) ++ (yield c ds ++ [tLit k.closer]) := by simp
          rw [this, run_app_ok _ stepA,
            value_then_close (S0 := .named sr :: .args k acc b nm fr :: S) hrd hdw
              (classify_lit (closer_ne k)) rfl trivial]
          simp [close, tLit, tok, closer_ne_comma k]
        | cons r rs =>
          have h3 : slotsOK 0 true (r :: rs) = true := by simpa using h2
          rw [yieldL_cons_cons]
          simp only [yield]
          have : ((yield c sr ++ tok .mapping :: yield c ds) ++ tLit ',' :: yieldL c (r :: rs)) ++ [tLit k.closer] =
              (yield c sr ++ [tok .mapping]) ++ ((yield c ds ++ [tLit ',']) ++
                (yieldL c (r :: rs) ++ [tLit k.closer])) := by simp
          rw [this, run_app_ok _ stepA,
            run_app_ok _ (st1 := ⟨.args k (acc ++ [.mappingRule sr ds]) 0 true false :: S, none⟩)]
          · rw [ih (acc ++ [Ast.mappingRule sr ds]) 0 true false S h3]; simp
          · rw [value_then_close (S0 := .named sr :: .args k acc b nm fr :: S) hrd hdw
              (classify_lit (by decide)) rfl trivial]
            simp [close, tLit, tok]
      | _ => simp [isValue] at hv


theorem bracket_run {c : Cfg} {as : List Ast} (he : ∀ a ∈ as, ElemRuns c a) (hw : WFL c as)
    (ha : argsOK as = true) (k : ArgKind) (S : List Frame) :
    run c ⟨newArgs k :: S, none⟩ (yieldL c as ++ [tLit k.closer]) = .ok ⟨S, some (k.build as)⟩ := by
  cases as with
  | nil =>
    simp only [yieldL, List.nil_append, run_single]
    rw [step_none _ (by simp [newArgs, NoAmbTop])]
    simp [stepOperand, tLit, tok, newArgs, closer_ne k, closer_ne_comma k]
  | cons a rest =>
    have h : slotsOK 1 false (a :: rest) = true := by simpa [argsOK] using ha
    simpa [newArgs] using args_run (a :: rest) he hw k [] 1 false true S h

theorem runs_leaf {c : Cfg} {t : Ast} {tk : Token} (hy : yield c t = [tk])
    (hs : ∀ S, stepOperand c S tk = .ok ⟨S, some t⟩) (hf : spineFrames c t = []) (hl : spineLast c t = t) :
    RunsTo c t := by
  intro S hna _
  rw [hy, run_single, step_none _ hna, hs, hf, hl]; rfl

theorem runs_const {c : Cfg} {k : TokKind} {v : TokVal} (hw : WFn c (.const k v)) : RunsTo c (.const k v) := by
  simp only [WFn] at hw
  apply runs_leaf (tk := tok k v) (by simp [yield]) _ rfl rfl
  intro S
  rcases hw with h | h | h | h | h <;> subst h <;> rfl

theorem runs_keyword {c : Cfg} {v : TokVal} : RunsTo c (.keywordConst v) :=
  runs_leaf (tk := tok .keyword v) (by simp [yield]) (fun _ => rfl) rfl rfl

theorem runs_dollar {c : Cfg} {v : TokVal} : RunsTo c (.getContextValue v) :=
  runs_leaf (tk := tok .dollar v) (by simp [yield]) (fun _ => rfl) rfl rfl

theorem runs_wrap {c : Cfg} {e : Ast} (hw : WFn c e) (hr : RunsTo c e) : RunsTo c (.wrap e) := by
  intro S hna _
  simp only [yield]
  rw [run_cons_ok (st1 := ⟨.paren :: S, none⟩) _ (by rw [step_none _ hna]; rfl)]
  rw [value_then_close (S0 := .paren :: S) hr hw (classify_lit (by decide)) rfl trivial]
  simp [close, tLit, tok, spineFrames, spineLast]

theorem runs_opener {c : Cfg} {as : List Ast} {k : ArgKind} {tk : Token} (he : ∀ a ∈ as, ElemRuns c a)
    (hw : WFL c as) (ha : argsOK as = true) (hy : yield c (k.build as) = tk :: (yieldL c as ++ [tLit k.closer]))
    (hs : ∀ S, stepOperand c S tk = .ok ⟨newArgs k :: S, none⟩)
    (hf : spineFrames c (k.build as) = []) (hl : spineLast c (k.build as) = k.build as) :
    RunsTo c (k.build as) := by
  intro S hna _
  rw [hy, run_cons_ok _ (by rw [step_none _ hna, hs]), bracket_run he hw ha, hf, hl]; rfl

theorem runs_func {c : Cfg} {n : TokVal} {as : List Ast} (he : ∀ a ∈ as, ElemRuns c a)
    (hw : WFn c (.func n as)) : RunsTo c (.func n as) := by
  simp only [WFn] at hw
  exact runs_opener (k := .func n) (tk := tok .func n) he hw.2 hw.1 (by simp [ArgKind.build, yield, ArgKind.closer])
    (fun _ => rfl) rfl rfl

theorem runs_list {c : Cfg} {as : List Ast} (he : ∀ a ∈ as, ElemRuns c a)
    (hw : WFn c (.list as)) : RunsTo c (.list as) := by
  simp only [WFn] at hw
  exact runs_opener (k := .list) (tk := tok .indexer) he hw.2 hw.1 (by simp [ArgKind.build, yield, ArgKind.closer])
    (fun _ => rfl) rfl rfl

theorem runs_map {c : Cfg} {as : List Ast} (he : ∀ a ∈ as, ElemRuns c a)
    (hw : WFn c (.map as)) : RunsTo c (.map as) := by
  simp only [WFn] at hw
  exact runs_opener (k := .map) (tk := tok .map) he hw.2 hw.1 (by simp [ArgKind.build, yield, ArgKind.closer])
    (fun _ => rfl) rfl rfl


/-- a value followed by a token that continues it -/
theorem value_then_post {c : Cfg} {v : Ast} {S : List Frame} {tk : Token} {post : Post} {p : Prec}
    (hr : RunsTo c v) (hw : WFn c v) (hna : NoAmbTop S) (hcl : classify c tk = some (post, p))
    (hl : ∀ q ∈ p :: lsp c v, shifts (ctxOf c S) q) (hrr : ∀ ρ ∈ rsr c v, reduceOver ρ p = true) :
    run c ⟨S, none⟩ (yield c v ++ [tk]) = .ok (postResult v S post) := by
  rw [run_app_ok [tk] (hr S hna (fun q hq => hl q (List.mem_cons_of_mem _ hq))), run_single,
    after_value_post hw hcl hrr (hl p (List.mem_cons_self ..))]

theorem runs_index {c : Cfg} {b : Ast} {as : List Ast} (hb : RunsTo c b) (he : ∀ a ∈ as, ElemRuns c a)
    (hw : WFn c (.index b as)) : RunsTo c (.index b as) := by
  simp only [WFn] at hw
  obtain ⟨_, hbw, hbr, ha, hwl⟩ := hw
  intro S hna hl
  have : yield c (.index b as) = (yield c b ++ [tok .indexer]) ++ (yieldL c as ++ [tLit (ArgKind.index b).closer]) := by
    simp [yield, ArgKind.closer]
  rw [this, run_app_ok _ (value_then_post (post := .idx) (p := c.indexerPrec) hb hbw hna
      (by simp [classify, tok]) (by simpa [lsp] using hl) hbr)]
  simp only [postResult]
  rw [bracket_run he hwl ha]; rfl

theorem runs_call {c : Cfg} {f : Ast} {as : List Ast} (hf : RunsTo c f) (he : ∀ a ∈ as, ElemRuns c a)
    (hw : WFn c (.call f as)) : RunsTo c (.call f as) := by
  simp only [WFn] at hw
  obtain ⟨hd, _, hfw, hfr, ha, hwl⟩ := hw
  intro S hna hl
  have : yield c (.call f as) = (yield c f ++ [tLit '(']) ++ (yieldL c as ++ [tLit (ArgKind.call f).closer]) := by
    simp [yield, ArgKind.closer]
  rw [this, run_app_ok _ (value_then_post (post := .call) (p := noPrec) hf hfw hna
      (by simp [classify, tLit, tok, hd]) (by simpa [lsp] using hl) hfr)]
  simp only [postResult]
  rw [bracket_run he hwl ha]; rfl

theorem runs_binary {c : Cfg} (hna : NoAmb c) {sym : Str} {al : Option Str} {l r : Ast}
    (hl : RunsTo c l) (hr : RunsTo c r) (hw : WFn c (.binary sym al l r)) : RunsTo c (.binary sym al l r) := by
  simp only [WFn] at hw
  obtain ⟨o, ho, hbp, hal, _, _, hlw, hrw, hlr, hrl⟩ := hw
  have hns : ¬ o.up < 0 := fun h => hna sym o ho ⟨h, hbp⟩
  intro S hnaS hsp
  rw [lsp_binary ho] at hsp
  have : yield c (.binary sym al l r) = (yield c l ++ [tOp sym]) ++ yield c r := by simp [yield]
  rw [this, run_app_ok _ (value_then_post (post := .bin sym o) (p := c.tokPrec o) hl hlw hnaS
      (by simp [classify, tOp, tok, ho, hbp, hns]) hsp hlr)]
  simp only [postResult]
  rw [hr (.binop l sym o :: S) trivial (fun q hq ρ hρ => by
    simp [ctxOf] at hρ; subst hρ; exact hrl q hq)]
  simp [spineFrames, spineLast, ho]

theorem runs_prefix {c : Cfg} {sym : Str} {al : Option Str} {x : Ast} {o : OpRec}
    (ho : c.opRec sym = some o) (hup : o.up > 0)
    (hx : RunsTo c x) (hxl : ∀ p ∈ lsp c x, reduceOver (c.unaryPrec o) p = false) :
    RunsTo c (.unary sym al x) := by
  intro S hnaS _
  have : yield c (.unary sym al x) = tOp sym :: yield c x := by simp [yield, isPrefix_of ho, hup]
  rw [this, run_cons_ok (st1 := ⟨.pre sym o :: S, none⟩) _ (by
    rw [step_none _ hnaS]; simp [stepOperand, tOp, tok, ho, hup])]
  rw [hx (.pre sym o :: S) trivial (fun q hq ρ hρ => by
    simp [ctxOf] at hρ; subst hρ; exact hxl q hq)]
  simp [spineFrames, spineLast, ho, hup]

theorem runs_suffix {c : Cfg} (hna : NoAmb c) {sym : Str} {x : Ast} {o : OpRec}
    (ho : c.opRec sym = some o) (hup : o.up < 0) (hxw : WFn c x)
    (hx : RunsTo c x) (hxr : ∀ ρ ∈ rsr c x, reduceOver ρ (c.tokPrec o) = true) :
    RunsTo c (.unary sym o.alias x) := by
  have hbp : o.bp = 0 := by
    by_cases h : o.bp = 0
    · exact h
    · exact absurd ⟨hup, h⟩ (hna sym o ho)
  have hnp : ¬ o.up > 0 := by omega
  intro S hnaS hsp
  rw [lsp_suffix ho hnp] at hsp
  have : yield c (.unary sym o.alias x) = yield c x ++ [tOp sym] := by simp [yield, isPrefix_of ho, hnp]
  rw [this, value_then_post (post := .suf sym o) (p := c.tokPrec o) hx hxw hnaS
      (by simp [classify, tOp, tok, ho, hbp, hup]) hsp hxr]
  simp [postResult, spineFrames, spineLast, ho, hnp]

theorem runs_unary {c : Cfg} (hna : NoAmb c) {sym : Str} {al : Option Str} {x : Ast}
    (hx : RunsTo c x) (hw : WFn c (.unary sym al x)) : RunsTo c (.unary sym al x) := by
  simp only [WFn] at hw
  obtain ⟨o, ho, hup0, hal, _, hxw, hcond⟩ := hw
  by_cases hup : o.up > 0
  · simp only [hup, ↓reduceIte] at hcond
    exact runs_prefix ho hup hx hcond
  · simp only [hup, ↓reduceIte] at hcond
    subst hal
    exact runs_suffix hna ho (by omega) hxw hx hcond


mutual
theorem runsT (c : Cfg) (hna : NoAmb c) : ∀ (t : Ast), WFn c t → ElemRuns c t
  | .const _ _, hw => runs_const hw
  | .keywordConst _, _ => runs_keyword
  | .getContextValue _, _ => runs_dollar
  | .binary sym al l r, hw => by
    have hw' := hw
    simp only [WFn] at hw'
    obtain ⟨o, _, _, _, hlv, hrv, hlw, hrw, _, _⟩ := hw'
    have hl := runsT c hna l hlw
    have hr := runsT c hna r hrw
    rw [elemRuns_value hlv] at hl
    rw [elemRuns_value hrv] at hr
    exact runs_binary hna hl hr hw
  | .unary sym al x, hw => by
    have hw' := hw
    simp only [WFn] at hw'
    obtain ⟨o, _, _, _, hxv, hxw, _⟩ := hw'
    have hx := runsT c hna x hxw
    rw [elemRuns_value hxv] at hx
    exact runs_unary hna hx hw
  | .index b as, hw => by
    have hw' := hw
    simp only [WFn] at hw'
    obtain ⟨hbv, hbw, _, _, hwl⟩ := hw'
    have hb := runsT c hna b hbw
    rw [elemRuns_value hbv] at hb
    exact runs_index hb (runsL c hna as hwl) hw
  | .list as, hw => by
    have hw' := hw
    simp only [WFn] at hw'
    exact runs_list (runsL c hna as hw'.2) hw
  | .map as, hw => by
    have hw' := hw
    simp only [WFn] at hw'
    exact runs_map (runsL c hna as hw'.2) hw
  | .func n as, hw => by
    have hw' := hw
    simp only [WFn] at hw'
    exact runs_func (runsL c hna as hw'.2) hw
  | .call f as, hw => by
    have hw' := hw
    simp only [WFn] at hw'
    obtain ⟨_, hfv, hfw, _, _, hwl⟩ := hw'
    have hf := runsT c hna f hfw
    rw [elemRuns_value hfv] at hf
    exact runs_call hf (runsL c hna as hwl) hw
  | .wrap e, hw => by
    have hw' := hw
    simp only [WFn] at hw'
    have he := runsT c hna e hw'.2
    rw [elemRuns_value hw'.1] at he
    exact runs_wrap hw'.2 he
  | .mappingRule sr ds, hw => by
    simp only [WFn] at hw
    obtain ⟨hsv, hdv, hsw, hdw⟩ := hw
    have hs := runsT c hna sr hsw
    have hd := runsT c hna ds hdw
    rw [elemRuns_value hsv] at hs
    rw [elemRuns_value hdv] at hd
    exact ⟨hs, hd⟩
  | .noValue, _ => trivial
theorem runsL (c : Cfg) (hna : NoAmb c) : ∀ (as : List Ast), WFL c as → ∀ a ∈ as, ElemRuns c a
  | [], _, a, h => by simp at h
  | x :: xs, hw, a, h => by
    rcases List.mem_cons.mp h with h1 | h1
    · rw [h1]; exact runsT c hna x hw.1
    · exact runsL c hna xs hw.2 a h1
end

/-- **C02, tree layer, round trip.**  For every table in which no symbol is both a suffix and a
binary operator: a tree that satisfies the precedence predicate is exactly what the parser returns
for the token sequence the tree spells.  With `parse_sound` this gives completeness (every `WF`
tree is reachable) and uniqueness (`parse_unique`). -/
theorem parse_roundtrip (c : Cfg) (hna : NoAmb c) (t : Ast) (h : WF c t) : parse c (yield c t) = .ok t := by
  obtain ⟨hv, hw⟩ := h
  have hr := runsT c hna t hw
  rw [elemRuns_value hv] at hr
  have h1 := hr [] trivial (fun q _ => shifts_none q)
  simp only [parse]
  have h0 : ({} : St) = ⟨[], none⟩ := rfl
  rw [h0, h1]
  simp only [finish, resolveAmb]
  rw [reduceWhile_value (p := none) (S := []) hw (fun _ _ => trivial) (by simp [stopP, ctxOf])]

/-- the tree the table dictates for a token sequence is unique: two `WF` trees that spell the same
tokens are equal -/
theorem yield_injective (c : Cfg) (hna : NoAmb c) (t t' : Ast) (h : WF c t) (h' : WF c t')
    (hy : yield c t = yield c t') : t = t' := by
  have a := parse_roundtrip c hna t h
  have b := parse_roundtrip c hna t' h'
  rw [hy, b] at a
  injection a with a
  exact a.symm

/-- whatever the parser returns for a token list is THE tree dictated by the table: any `WF` tree
spelling those tokens is that one -/
theorem parse_unique (c : Cfg) (hna : NoAmb c) (toks : List Token) (t t' : Ast) (hp : parse c toks = .ok t')
    (h : WF c t) (hy : yield c t = toks.map norm) : t' = t := by
  obtain ⟨h', hy'⟩ := parse_sound c toks t' hp
  exact yield_injective c hna t' t h' h (hy'.trans hy.symm)


/-! ### positions (and the value field of operator tokens) do not influence the tree -/

def okPart {α} : Except PErr α → Option α
  | .ok a => some a
  | .error _ => none

theorem stepOperand_norm (c : Cfg) (S : List Frame) (t : Token) :
    okPart (stepOperand c S (norm t)) = okPart (stepOperand c S t) := by
  obtain ⟨k, v, p⟩ := t
  cases k <;> simp only [norm, stepOperand] <;> (repeat' split) <;> simp_all [okPart, errAt]

theorem classify_norm (c : Cfg) (t : Token) : classify c (norm t) = classify c t := by
  obtain ⟨k, v, p⟩ := t
  cases k <;> simp [norm, classify]

theorem close_norm (S : List Frame) (a : Ast) (t : Token) :
    okPart (close S a (norm t)) = okPart (close S a t) := by
  obtain ⟨k, v, p⟩ := t
  cases k <;> simp only [norm, close] <;> (repeat' split) <;> simp_all [okPart, errAt]

theorem stepAfter_norm (c : Cfg) (S : List Frame) (a : Ast) (t : Token) :
    okPart (stepAfter c S a (norm t)) = okPart (stepAfter c S a t) := by
  unfold stepAfter
  rw [classify_norm]
  split
  · rfl
  · exact close_norm _ _ _

theorem resolveAmb_norm (c : Cfg) (st : St) (t : Token) :
    resolveAmb c st (some (norm t)) = resolveAmb c st (some t) := by
  obtain ⟨k, v, p⟩ := t
  cases k <;> simp [norm, resolveAmb, startsValue, followsValue, bothPrec]

theorem step_norm (c : Cfg) (st : St) (t : Token) : okPart (step c st (norm t)) = okPart (step c st t) := by
  simp only [step, resolveAmb_norm]
  split
  · exact stepOperand_norm _ _ _
  · exact stepAfter_norm _ _ _ _

theorem run_norm (c : Cfg) : ∀ (toks : List Token) (st : St), okPart (run c st (toks.map norm)) = okPart (run c st toks)
  | [], st => rfl
  | t :: ts, st => by
    have h := step_norm c st t
    simp only [List.map_cons, run]
    cases h1 : step c st (norm t) <;> cases h2 : step c st t <;> simp [h1, h2, okPart] at h ⊢
    · subst h; exact run_norm c ts _

theorem parse_norm (c : Cfg) (toks : List Token) : okPart (parse c (toks.map norm)) = okPart (parse c toks) := by
  have h := run_norm c toks {}
  simp only [parse]
  cases h1 : run c {} (toks.map norm) <;> cases h2 : run c {} toks <;> simp [h1, h2, okPart] at h ⊢
  · subst h; rfl

/-- **completeness for real token lists**: if a `WF` tree spells the token list (positions aside), the
parser returns that tree -/
theorem parse_complete (c : Cfg) (hna : NoAmb c) (toks : List Token) (t : Ast) (h : WF c t)
    (hy : yield c t = toks.map norm) : parse c toks = .ok t := by
  have h1 := parse_roundtrip c hna t h
  have h2 := parse_norm c toks
  rw [← hy, h1] at h2
  cases h3 : parse c toks with
  | ok t' => rw [h3] at h2; simp [okPart] at h2; rw [h2]
  | error e => rw [h3] at h2; simp [okPart] at h2

/-- **C02, tree layer, summary**: for a table without suffix/binary symbols the parser succeeds on a
token list exactly when a `WF` tree spells it, and then returns that (unique) tree -/
theorem parse_iff (c : Cfg) (hna : NoAmb c) (toks : List Token) (t : Ast) :
    parse c toks = .ok t ↔ WF c t ∧ yield c t = toks.map norm :=
  ⟨parse_sound c toks t, fun ⟨h, hy⟩ => parse_complete c hna toks t h hy⟩

/-! ### side condition `NoAmb`, executable; non-vacuity -/

theorem mem_of_dget {α} : ∀ (d : Dict α) (k : Str) (v : α), d.get? k = some v → (k, v) ∈ d
  | [], k, v, h => by simp [Dict.get?] at h
  | (k', v') :: rest, k, v, h => by
    by_cases hk : k' = k
    · simp [Dict.get?, hk] at h; subst h; simp [hk]
    · simp [Dict.get?, hk] at h; exact List.mem_cons_of_mem _ (mem_of_dget rest k v h)

def noAmbB (c : Cfg) : Bool := c.ops.all fun e => !(decide (e.2.up < 0) && decide (e.2.bp ≠ 0))

theorem noAmb_of_check (c : Cfg) (h : noAmbB c = true) : NoAmb c := by
  intro sym o ho hc
  have hg : c.ops.get? sym = some o := by
    unfold Cfg.opRec at ho
    split at ho
    · simp at ho
    · exact ho
  have hm := mem_of_dget _ _ _ hg
  simp only [noAmbB, List.all_eq_true] at h
  have := h _ hm
  simp [hc.1, hc.2] at this

/-- a small table: `.` (group 1), prefix `-` (2), `*` (3), `+ -` (4), `not` (5), right-associative `->` (6) -/
def demoCfg : Cfg :=
  ⟨[(['.'], ⟨0, 1, ['A'], none⟩), (['-'], ⟨2, 4, ['M'], none⟩), (['*'], ⟨0, 3, ['T'], some ['m', 'u', 'l']⟩),
    (['+'], ⟨0, 4, ['P'], none⟩), (['n', 'o', 't'], ⟨5, 0, ['N'], none⟩), (['-', '>'], ⟨0, -6, ['R'], none⟩)],
   [(false, [['R']]), (true, [['N']]), (true, [['M'], ['P']]), (true, [['T']]),
    (true, [['U', 'N', 'A', 'R', 'Y', '_', 'M']]), (true, [['L', 'I', 'S', 'T'], ['I', 'N', 'D', 'E', 'X', 'E', 'R'], ['M', 'A', 'P']]),
    (true, [['A']]), (true, [[',']])],
   true⟩

theorem demo_noAmb : NoAmb demoCfg := noAmb_of_check _ (by decide)

def n1 : Ast := .const .number (.int 1)
def va : Ast := .getContextValue (.text ['$', 'a'])

/-- `- $a * 1 + not 1 -> f(1, , $a => 1)[$a](1)` parses to the tree the table dictates ... -/
example :
    parse demoCfg [tOp ['-'], tok .dollar (.text ['$', 'a']), tOp ['*'], tok .number (.int 1), tOp ['+'],
      tOp ['n', 'o', 't'], tok .number (.int 1), tOp ['-', '>'],
      tok .func (.text ['f']), tok .number (.int 1), tLit ',', tLit ',', tok .dollar (.text ['$', 'a']),
      tok .mapping, tok .number (.int 1), tLit ')', tok .indexer, tok .dollar (.text ['$', 'a']), tLit ']',
      tLit '(', tok .number (.int 1), tLit ')'] =
    .ok (.call (.binary ['-', '>'] none
        (.binary ['+'] none (.binary ['*'] (some ['m', 'u', 'l']) (.unary ['-'] none va) n1) (.unary ['n', 'o', 't'] none n1))
        (.index (.func (.text ['f']) [n1, .noValue, .mappingRule va n1]) [va])) [n1]) := by rfl

/-- ... so the hypotheses of `parse_sound` are satisfiable by a non-trivial instance, and its conclusion
gives a non-trivial `WF` tree - which is then a non-trivial instance of `parse_roundtrip`'s hypothesis -/
example : ∃ t, WF demoCfg t ∧ parse demoCfg (yield demoCfg t) = .ok t ∧ (yield demoCfg t).length = 11 := by
  have h : parse demoCfg [tOp ['-'], tok .dollar (.text ['$', 'a']), tOp ['*'], tok .number (.int 1), tOp ['+'],
      tOp ['n', 'o', 't'], tok .number (.int 1), tOp ['-', '>'], tok .number (.int 1), tOp ['-', '>'],
      tok .number (.int 1)] =
      .ok (.binary ['-', '>'] none
        (.binary ['+'] none (.binary ['*'] (some ['m', 'u', 'l']) (.unary ['-'] none va) n1) (.unary ['n', 'o', 't'] none n1))
        (.binary ['-', '>'] none n1 n1)) := by rfl
  obtain ⟨hw, hy⟩ := parse_sound _ _ _ h
  exact ⟨_, hw, parse_roundtrip _ demo_noAmb _ hw, by rw [hy]; rfl⟩

/-- `WF` is not trivially true: the left-nested `(1 -> 1) -> 1` without parentheses is not `WF` for a
right-associative `->` -/
example : ¬ WF demoCfg (.binary ['-', '>'] none (.binary ['-', '>'] none n1 n1) n1) := by
  intro ⟨_, h⟩
  simp only [WFn] at h
  obtain ⟨o, ho, _, _, _, _, _, _, h1, _⟩ := h
  have ho' : o = ⟨0, -6, ['R'], none⟩ := by
    have : demoCfg.opRec ['-', '>'] = some ⟨0, -6, ['R'], none⟩ := by decide
    rw [this] at ho; injection ho with ho; exact ho.symm
  subst ho'
  have := h1 (demoCfg.tokPrec ⟨0, -6, ['R'], none⟩) (by
    rw [rsr_binary (o := ⟨0, -6, ['R'], none⟩) (by decide)]; exact List.mem_cons_self ..)
  revert this
  decide

end Yaql.Props.C02
