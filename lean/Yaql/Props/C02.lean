import Yaql.Model.Parser
namespace Yaql.Props.C02
end Yaql.Props.C02
