import Yaql.Props.C01
import Yaql.Gen.Engine
/-! C01, the part re-decided on every run against what the live engine does. -/
namespace Yaql.Props.C01Gen
open Yaql.ParseSched Yaql.Props.C01

/-- the live engine gives every parse its own lexer (regenerated from /repo on every run) -/
theorem engine_mode : Yaql.Gen.Engine.lexerMode = .perCall := by decide

/-- hence, for the engine as it is now: any number of concurrent parses, any texts, any
    schedule - each parse is where it would be alone -/
theorem current_engine_isolated {Tok PS Out : Type} (m : Machine Tok PS Out) (i : Nat)
    (sched : List Nat) (threads : List (Thread PS Out)) (shared : LexSt) :
    (run m { mode := Yaql.Gen.Engine.lexerMode, shared := shared, threads := threads }
        sched).threads[i]? =
      (threads[i]?).map (soloIter m (sched.count i)) := by
  have := perCall_isolated m i sched
    { mode := Yaql.Gen.Engine.lexerMode, shared := shared, threads := threads } engine_mode
  simpa using this

/-- every public entry point that parses a text hands the parse a lexer object of its own: `engine(text)`,
    `engine(text, options=..)`, `engine.copy(..)(text)`, `YaqlInterface(..)(text)`, interfaces derived with `on(..)` before
    and after the first evaluation (observed on the live code on every run, see the doc comment of `Gen.Engine.entryModes`) -/
theorem all_entry_points_perCall : ∀ m ∈ Yaql.Gen.Engine.entryModes, m = .perCall := by decide

end Yaql.Props.C01Gen
