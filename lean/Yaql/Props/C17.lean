import Yaql.Model.Context
/-!
C17 - context trees resolve variables and functions layer by layer.

Spec: a context denotes a list of *layers* (nearest first).  The theorems show
that every read of the code-shaped model (`Yaql.Context`) is the corresponding
read of that layer list, for every shape and every cell table, and that the
two composite constructors build exactly the layer lists the statement gives.
-/
namespace Yaql.Props.C17
open Yaql.Context

/-- one layer of the flattened reference -/
structure Layer where
  data  : Name → Option Val
  funcs : Name → List Fid
  excl  : Name → Bool

def cellLayer (c : Cell) : Layer :=
  { data := fun n => alookup n c.data, funcs := cellFuncs c, excl := fun n => c.excl.contains n }

/-- merge of two layers: data - first wins; functions - union; exclusive - any -/
def Layer.merge (a b : Layer) : Layer :=
  { data := fun n => match a.data n with | some v => some v | none => b.data n,
    funcs := fun n => unionF (a.funcs n) (b.funcs n),
    excl := fun n => a.excl n || b.excl n }

def Layer.empty : Layer := { data := fun _ => none, funcs := fun _ => [], excl := fun _ => false }

def mergeAll : List Layer → Layer
  | [] => Layer.empty
  | l :: ls => l.merge (mergeAll ls)

mutual
/-- the first (own) layer of a context -/
def ownLayer (cs : Cells) : Shape → Layer
  | .plain c _ => cellLayer (cs.get c)
  | .multi ms _ => ownLayerL cs ms
  | .linked t _ => ownLayer cs t
def ownLayerL (cs : Cells) : List Shape → Layer
  | [] => Layer.empty
  | m :: ms => (ownLayer cs m).merge (ownLayerL cs ms)
end

mutual
/-- all layers of a context: its own, then those of its `parent` -/
def layers (cs : Cells) : Shape → List Layer
  | .plain c p => cellLayer (cs.get c) :: layersO cs p
  | .multi ms p => ownLayerL cs ms :: layersO cs p
  | .linked t p => ownLayer cs t :: layersO cs p
def layersO (cs : Cells) : Option Shape → List Layer
  | none => []
  | some s => layers cs s
end

/-- nearest layer that defines `n` -/
def firstDefined (n : Name) : List Layer → Option Val
  | [] => none
  | l :: ls => match l.data n with | some v => some v | none => firstDefined n ls

/-- overloads layer by layer, nearest first, empty layers dropped, stopping
    after a layer that registered the name exclusively -/
def collectSpec (n : Name) : List Layer → List (List Fid)
  | [] => []
  | l :: ls =>
      let rest := if l.excl n then [] else collectSpec n ls
      if (l.funcs n).isEmpty then rest else l.funcs n :: rest

/-! ## reads refine the layer list -/

mutual
theorem getLocal_own (cs : Cells) (n : Name) : ∀ s, getLocal cs n s = (ownLayer cs s).data n
  | .plain c p => by simp [getLocal, ownLayer, cellLayer]
  | .multi ms p => by simp [getLocal, ownLayer, getLocalL_own cs n ms]
  | .linked t p => by simp [getLocal, ownLayer, getLocal_own cs n t]
theorem getLocalL_own (cs : Cells) (n : Name) :
    ∀ ms, getLocalL cs n ms = (ownLayerL cs ms).data n
  | [] => by simp [getLocalL, ownLayerL, Layer.empty]
  | m :: ms => by
      simp only [getLocalL, ownLayerL, Layer.merge, getLocal_own cs n m, getLocalL_own cs n ms]
      cases (ownLayer cs m).data n <;> rfl
end

mutual
theorem walk_refines (cs : Cells) (n : Name) :
    ∀ s, walk cs n s = firstDefined n (layers cs s)
  | .plain c p => by
      simp only [walk, layers, firstDefined, cellLayer, walkParents_refines cs n p]
      cases alookup n (cs.get c).data <;> rfl
  | .multi ms p => by
      simp only [walk, layers, firstDefined, getLocalL_own, walkParents_refines cs n p]
      cases (ownLayerL cs ms).data n <;> rfl
  | .linked t p => by
      simp only [walk, layers, firstDefined, getLocal_own, walkParents_refines cs n p]
      cases (ownLayer cs t).data n <;> rfl
theorem walkParents_refines (cs : Cells) (n : Name) :
    ∀ o, walkParents cs n o = firstDefined n (layersO cs o)
  | none => by simp [walkParents, layersO, firstDefined]
  | some s => by simp [walkParents, layersO, walk_refines cs n s]
end

/-- reading a variable returns the value from the nearest layer that defines
    it, null if none -/
theorem get_data_refines (cs : Cells) (s : Shape) (name : Name) :
    getData cs s name = (firstDefined (normName name) (layers cs s)).getD none := by
  simp [getData, walkParents, walk_refines]

mutual
theorem contains_own' (cs : Cells) (n : Name) :
    ∀ s, contains cs n s = ((ownLayer cs s).data n).isSome
  | .plain c p => by simp [contains, ownLayer, cellLayer]
  | .multi ms p => by simp [contains, ownLayer, containsL_own' cs n ms]
  | .linked t p => by simp [contains, ownLayer, contains_own' cs n t]
theorem containsL_own' (cs : Cells) (n : Name) :
    ∀ ms, containsL cs n ms = ((ownLayerL cs ms).data n).isSome
  | [] => by simp [containsL, ownLayerL, Layer.empty]
  | m :: ms => by
      simp only [containsL, ownLayerL, Layer.merge, contains_own' cs n m, containsL_own' cs n ms]
      cases (ownLayer cs m).data n <;> simp
end

/-- membership reflects only the context's own (first) layer -/
theorem contains_own (cs : Cells) (s : Shape) (name : Name) :
    containsName cs s name = ((ownLayer cs s).data (normName name)).isSome := by
  simp [containsName, contains_own']

theorem alookup_isSome_iff {α} (k : Name) (l : List (Name × α)) :
    (alookup k l).isSome ↔ k ∈ l.map (·.1) := by
  induction l with
  | nil => simp [alookup]
  | cons p r ih =>
      obtain ⟨k', v⟩ := p
      simp only [alookup, List.map_cons, List.mem_cons]
      by_cases h : k' = k
      · simp [h]
      · have : (k' == k) = false := by simpa using h
        simp [this, ih, Ne.symm h]

theorem mem_dedupAppend (k : Name) : ∀ (ks acc : List Name),
    k ∈ dedupAppend acc ks ↔ k ∈ acc ∨ k ∈ ks
  | [], acc => by simp [dedupAppend]
  | x :: ks, acc => by
      simp only [dedupAppend]
      split
      · rename_i h
        rw [mem_dedupAppend k ks acc]
        have hx : x ∈ acc := by simpa using h
        constructor
        · rintro (h | h) <;> simp [h]
        · rintro (h | h)
          · exact Or.inl h
          · rcases List.mem_cons.mp h with rfl | h
            · exact Or.inl hx
            · exact Or.inr h
      · rw [mem_dedupAppend k ks (acc ++ [x])]
        simp [or_assoc]

mutual
theorem mem_keys (cs : Cells) (k : Name) :
    ∀ s, k ∈ keys cs s ↔ ((ownLayer cs s).data k).isSome = true
  | .plain c p => by
      simp only [keys, ownLayer, cellLayer]
      exact (alookup_isSome_iff k _).symm
  | .multi ms p => by
      simp only [keys, ownLayer]
      rw [mem_keysL cs k ms []]; simp
  | .linked t p => by simp only [keys, ownLayer]; exact mem_keys cs k t
theorem mem_keysL (cs : Cells) (k : Name) :
    ∀ ms acc, k ∈ keysL cs acc ms ↔ (k ∈ acc ∨ ((ownLayerL cs ms).data k).isSome = true)
  | [], acc => by simp [keysL, ownLayerL, Layer.empty]
  | m :: ms, acc => by
      simp only [keysL, ownLayerL, Layer.merge]
      rw [mem_keysL cs k ms, mem_dedupAppend, mem_keys cs k m]
      cases (ownLayer cs m).data k <;> simp
end

/-- key listing reflects only the context's own (first) layer -/
theorem keys_own (cs : Cells) (s : Shape) (k : Name) :
    k ∈ keys cs s ↔ ((ownLayer cs s).data k).isSome = true := mem_keys cs k s

mutual
theorem getFunctions_own (cs : Cells) (n : Name) :
    ∀ s, getFunctions cs n s = ((ownLayer cs s).funcs n, (ownLayer cs s).excl n)
  | .plain c p => by simp [getFunctions, ownLayer, cellLayer]
  | .multi ms p => by simp [getFunctions, ownLayer, getFunctionsL_own cs n ms]
  | .linked t p => by simp [getFunctions, ownLayer, getFunctions_own cs n t]
theorem getFunctionsL_own (cs : Cells) (n : Name) :
    ∀ ms, getFunctionsL cs n ms = ((ownLayerL cs ms).funcs n, (ownLayerL cs ms).excl n)
  | [] => by simp [getFunctionsL, ownLayerL, Layer.empty]
  | m :: ms => by
      simp [getFunctionsL, ownLayerL, Layer.merge, getFunctions_own cs n m,
        getFunctionsL_own cs n ms]
end

mutual
theorem collectAt_refines (cs : Cells) (n : Name) :
    ∀ s, collectAt cs n s = collectSpec n (layers cs s)
  | .plain c p => by
      simp [collectAt, layers, collectSpec, cellLayer, collectFrom_refines cs n p]
  | .multi ms p => by
      simp [collectAt, layers, collectSpec, getFunctionsL_own, collectFrom_refines cs n p]
  | .linked t p => by
      simp [collectAt, layers, collectSpec, getFunctions_own, collectFrom_refines cs n p]
theorem collectFrom_refines (cs : Cells) (n : Name) :
    ∀ o, collectFrom cs n o = collectSpec n (layersO cs o)
  | none => by simp [collectFrom, layersO, collectSpec]
  | some s => by simp [collectFrom, layersO, collectAt_refines cs n s]
end

/-- function collection returns the overloads of each layer from nearest to
    farthest, stopping after a layer that registered the name exclusively -/
theorem collect_refines (cs : Cells) (s : Shape) (name : Name) :
    collectFunctions cs s name = collectSpec (rstripUnderscore name) (layers cs s) := by
  simp [collectFunctions, collectFrom, collectAt_refines]


/-! ## the composite constructors build the layer lists of the statement -/

theorem layers_eq (cs : Cells) (s : Shape) :
    layers cs s = ownLayer cs s :: layersO cs s.parent := by
  cases s <;> simp [layers, ownLayer, Shape.parent]

theorem layersO_some (cs : Cells) (s : Shape) :
    layersO cs (some s) = ownLayer cs s :: layersO cs s.parent := by
  simp [layersO, layers_eq]

theorem size_parent_lt {s p : Shape} (h : s.parent = some p) : p.size < s.size := by
  cases s <;> simp [Shape.parent] at h <;> subst h <;> simp [Shape.size, Shape.sizeO] <;> omega

@[simp] theorem layersO_some' (cs : Cells) (s : Shape) : layersO cs (some s) = layers cs s := by
  simp [layersO]

/-- a linked context is its linked chain followed by its own parent chain -/
theorem linked_layers_aux (cs : Cells) (p : Option Shape) :
    ∀ (fuel : Nat) (t : Shape), t.size ≤ fuel →
      layers cs (mkLinkedF fuel p t) = layers cs t ++ layersO cs p
  | 0, t, h => by cases t <;> simp [Shape.size] at h <;> omega
  | fuel + 1, t, h => by
      unfold mkLinkedF
      cases hp : t.parent with
      | none => simp [layers, layers_eq cs t, hp, layersO]
      | some tp =>
          have hlt := size_parent_lt hp
          have ih := linked_layers_aux cs p fuel tp (by omega)
          simp [layers, layers_eq cs t, hp, ih]

theorem linked_is_concat (cs : Cells) (p : Option Shape) (t : Shape) :
    layers cs (mkLinked p t) = layers cs t ++ layersO cs p :=
  linked_layers_aux cs p _ t (Nat.le_refl _)

/-- layer `d` of the merge of several chains: the merge of the `d`-th layers
    of the chains that are that long -/
def mergeAt (d : Nat) (chains : List (List Layer)) : Option Layer :=
  match chains.filterMap (·[d]?) with
  | [] => none
  | ls => some (mergeAll ls)

theorem mergeAt_of_ne_nil {d : Nat} {chains : List (List Layer)}
    (h : chains.filterMap (·[d]?) ≠ []) :
    mergeAt d chains = some (mergeAll (chains.filterMap (·[d]?))) := by
  unfold mergeAt
  split
  · rename_i h'; exact absurd h' h
  · rfl

theorem merge_empty (l : Layer) : l.merge Layer.empty = l := by
  cases l with
  | mk d f e =>
    simp only [Layer.merge, Layer.empty, unionF, List.foldl_nil, Bool.or_false]
    congr
    funext n
    cases d n <;> rfl

theorem ownLayerL_eq (cs : Cells) : ∀ ms, ownLayerL cs ms = mergeAll (ms.map (ownLayer cs))
  | [] => by simp [ownLayerL, mergeAll]
  | m :: ms => by simp [ownLayerL, mergeAll, ownLayerL_eq cs ms]

theorem mkMultiF_shape (fuel : Nat) (ms : List Shape) :
    ∃ p, mkMultiF fuel ms = .multi ms p := by
  cases fuel with
  | zero => exact ⟨_, rfl⟩
  | succ f =>
      unfold mkMultiF
      split <;> exact ⟨_, rfl⟩

theorem sizeL_parents (ms : List Shape) :
    Shape.sizeL (ms.filterMap Shape.parent) + ms.length ≤ Shape.sizeL ms := by
  induction ms with
  | nil => simp [Shape.sizeL]
  | cons m ms ih =>
      cases hp : m.parent with
      | none =>
          have : 1 ≤ m.size := by cases m <;> simp [Shape.size] <;> omega
          simp [hp, Shape.sizeL]; omega
      | some p =>
          have := size_parent_lt hp
          simp [hp, Shape.sizeL]; omega

theorem heads_layers (cs : Cells) (ms : List Shape) :
    (ms.map (layers cs)).filterMap (·[0]?) = ms.map (ownLayer cs) := by
  induction ms with
  | nil => rfl
  | cons m ms ih => simp [layers_eq, ih]

theorem tails_layers (cs : Cells) (d : Nat) (ms : List Shape) :
    (ms.map (layers cs)).filterMap (·[d + 1]?) =
      ((ms.filterMap Shape.parent).map (layers cs)).filterMap (·[d]?) := by
  induction ms with
  | nil => rfl
  | cons m ms ih =>
      rw [List.map_cons, List.filterMap_cons, ih, layers_eq, List.getElem?_cons_succ]
      cases hp : m.parent with
      | none => simp [layersO, hp]
      | some p =>
          simp only [List.filterMap_cons, hp, List.map_cons]
          rfl

theorem multi_layers_aux (cs : Cells) :
    ∀ (d fuel : Nat) (ms : List Shape), ms ≠ [] → Shape.sizeL ms ≤ fuel →
      (layers cs (mkMultiF fuel ms))[d]? = mergeAt d (ms.map (layers cs))
  | 0, fuel, ms, hne, _ => by
      obtain ⟨p, hp⟩ := mkMultiF_shape fuel ms
      have hne' : (ms.map (layers cs)).filterMap (·[0]?) ≠ [] := by
        rw [heads_layers]; simpa using hne
      rw [hp, mergeAt_of_ne_nil hne', heads_layers, ← ownLayerL_eq]
      simp [layers]
  | d + 1, 0, ms, hne, hf => by
      have := sizeL_parents ms
      cases ms with
      | nil => exact absurd rfl hne
      | cons m ms => simp at this; omega
  | d + 1, fuel + 1, ms, hne, hf => by
      have hsz := sizeL_parents ms
      have hlen : 1 ≤ ms.length := by
        cases ms with
        | nil => exact absurd rfl hne
        | cons m ms => simp
      unfold mkMultiF
      unfold mergeAt
      rw [tails_layers]
      split
      · rename_i hps; simp [layers, layersO, hps]
      · rename_i p hps
        simp only [layers, layersO, List.getElem?_cons_succ, hps, List.map_cons, List.map_nil,
          List.filterMap_cons, List.filterMap_nil]
        cases h : (layers cs p)[d]? with
        | none => rfl
        | some l => simp [mergeAll, merge_empty]
      · rename_i hps1 hps2
        have hne2 : ms.filterMap Shape.parent ≠ [] := hps1
        have ih := multi_layers_aux cs d fuel (ms.filterMap Shape.parent) hne2 (by omega)
        simp only [layers, layersO, List.getElem?_cons_succ]
        rw [ih]; rfl

/-- a multi-context behaves as the layer-wise merge of its members -/
theorem multi_is_merge (cs : Cells) (ms : List Shape) (hne : ms ≠ []) (d : Nat) :
    (layers cs (mkMulti ms))[d]? = mergeAt d (ms.map (layers cs)) :=
  multi_layers_aux cs d _ ms hne (Nat.le_refl _)

/-! ## names -/

/-- `$`, `$1`, the empty name and `1` are one variable -/
theorem name_norm (cs : Cells) (s : Shape) :
    getData cs s ['$'] = getData cs s ['$', '1'] ∧ getData cs s [] = getData cs s ['$', '1'] ∧
    getData cs s ['1'] = getData cs s ['$', '1'] := by
  have h1 : normName ['$'] = ['$', '1'] := by decide
  have h2 : normName [] = ['$', '1'] := by decide
  have h3 : normName ['1'] = ['$', '1'] := by decide
  have h4 : normName ['$', '1'] = ['$', '1'] := by decide
  simp [getData, h1, h2, h3, h4]


/-! ## children and writes -/

/-- a fresh child context (its own cell still empty) sees exactly what its parent sees -/
theorem child_sees_parent (cs : Cells) (s : Shape) (fresh : Nat) (name : Name)
    (hfresh : (cs.get fresh).data = []) :
    getData cs (.plain fresh (some s)) name = getData cs s name := by
  simp [getData, walkParents, walk, hfresh, alookup]

theorem get_modify_ne (cs : Cells) (c c' : Nat) (f : Cell → Cell) (h : c' ≠ c) :
    (modifyCell cs c f).get c' = cs.get c' := by
  unfold modifyCell Cells.get
  split
  · simp [List.getD_eq_getElem?_getD, List.getElem?_set_ne (Ne.symm h)]
  · rfl

theorem get_modify_eq (cs : Cells) (c : Nat) (f : Cell → Cell) (h : c < cs.length) :
    (modifyCell cs c f).get c = f (cs.get c) := by
  unfold modifyCell Cells.get
  simp [h, List.getD_eq_getElem?_getD]

/-- a write changes only one cell: the first layer's - for a multi-context the
    first member's, for a linked context the target's -/
theorem write_local (cs : Cells) (s : Shape) (name : Name) (v : Val) (c' : Nat)
    (h : writeCell s ≠ some c') : (setData cs s name v).get c' = cs.get c' := by
  unfold setData
  cases hw : writeCell s with
  | none => rfl
  | some c =>
      have : c' ≠ c := by intro e; subst e; exact h hw
      simp [get_modify_ne _ _ _ _ this]

theorem alookup_aset {α} (k : Name) (v : α) (l : List (Name × α)) :
    alookup k (aset k v l) = some v := by
  induction l with
  | nil => simp [aset, alookup]
  | cons p r ih =>
      obtain ⟨k', v'⟩ := p
      by_cases h : (k' == k) = true
      · simp [aset, alookup, h]
      · simp [aset, alookup, h, ih]

mutual
theorem getLocal_written (cs : Cells) (n : Name) (v : Val) (c : Nat)
    (hc : alookup n (cs.get c).data = some v) :
    ∀ s, writeCell s = some c → getLocal cs n s = some v
  | .plain c' p, h => by
      simp only [writeCell, Option.some.injEq] at h; subst h; simpa [getLocal] using hc
  | .multi [] p, h => by simp [writeCell] at h
  | .multi (m :: ms) p, h => by
      simp only [writeCell] at h
      simp [getLocal, getLocalL, getLocal_written cs n v c hc m h]
  | .linked t p, h => by
      simp only [writeCell] at h
      simp [getLocal, getLocal_written cs n v c hc t h]
end

/-- after `ctx[name] = v`, `ctx[name]` is `v` -/
theorem write_then_read (cs : Cells) (s : Shape) (name : Name) (v : Val) (c : Nat)
    (hw : writeCell s = some c) (hc : c < cs.length) :
    getData (setData cs s name v) s name = v := by
  have hcell : alookup (normName name) ((setData cs s name v).get c).data = some v := by
    simp [setData, hw, get_modify_eq _ _ _ hc, alookup_aset]
  have hl := getLocal_written (setData cs s name v) (normName name) v c hcell s hw
  unfold getData
  cases s with
  | plain c' p =>
      simp only [writeCell, Option.some.injEq] at hw; subst hw
      simp [walkParents, walk, hcell]
  | multi ms p => simp only [getLocal] at hl; simp [walkParents, walk, hl]
  | linked t p => simp only [getLocal] at hl; simp [walkParents, walk, hl]

/-! ## deletion -/

def eraseCells (n : Name) (l : List Nat) (cs : Cells) : Cells :=
  l.foldl (fun cs c => modifyCell cs c fun cell => { cell with data := aerase n cell.data }) cs

theorem alookup_aerase_self {α} (n : Name) (l : List (Name × α)) : alookup n (aerase n l) = none := by
  induction l with
  | nil => simp [aerase, alookup]
  | cons p r ih =>
      obtain ⟨k, v⟩ := p
      by_cases h : (k == n) = true
      · simpa [aerase, h] using ih
      · simp only [aerase] at ih
        simp [aerase, h, alookup, ih]

theorem alookup_aerase_ne {α} (n m : Name) (h : m ≠ n) (l : List (Name × α)) :
    alookup m (aerase n l) = alookup m l := by
  induction l with
  | nil => simp [aerase, alookup]
  | cons p r ih =>
      obtain ⟨k, v⟩ := p
      simp only [aerase] at ih
      by_cases hk : (k == n) = true
      · have hkm : (k == m) = false := by
          have : k = n := by simpa using hk
          subst this; simpa using Ne.symm h
        simp [aerase, hk, alookup, hkm, ih]
      · simp [aerase, hk, alookup, ih]

theorem lookup_eraseOne (n m : Name) (cs : Cells) (c c' : Nat) :
    alookup m ((modifyCell cs c fun cell => { cell with data := aerase n cell.data }).get c').data =
      if c' = c ∧ m = n then none else alookup m (cs.get c').data := by
  by_cases hcc : c' = c
  · subst hcc
    by_cases hlen : c' < cs.length
    · rw [get_modify_eq _ _ _ hlen]
      by_cases hm : m = n
      · subst hm; simp [alookup_aerase_self]
      · simp [hm, alookup_aerase_ne n m hm]
    · have h1 : (modifyCell cs c' fun cell => { cell with data := aerase n cell.data }) = cs := by
        simp [modifyCell, hlen]
      have h2 : cs.get c' = {} := by
        simp [Cells.get, List.getD_eq_getElem?_getD, List.getElem?_eq_none (Nat.le_of_not_lt hlen)]
      rw [h1, h2]; simp [alookup]
  · rw [get_modify_ne _ _ _ _ hcc]; simp [hcc]

theorem lookup_eraseCells (n m : Name) (c' : Nat) : ∀ (l : List Nat) (cs : Cells),
    alookup m ((eraseCells n l cs).get c').data =
      if c' ∈ l ∧ m = n then none else alookup m (cs.get c').data
  | [], cs => by simp [eraseCells]
  | c :: l, cs => by
      have ih := lookup_eraseCells n m c' l
        (modifyCell cs c fun cell => { cell with data := aerase n cell.data })
      simp only [eraseCells, List.foldl_cons] at ih ⊢
      rw [ih, lookup_eraseOne]
      by_cases h1 : c' = c <;> by_cases h2 : c' ∈ l <;> by_cases h3 : m = n <;> simp [h1, h2, h3]

mutual
theorem contains_iff (cs : Cells) (n : Name) :
    ∀ s, contains cs n s = true ↔ ∃ c ∈ delCells s, (alookup n (cs.get c).data).isSome = true
  | .plain c p => by simp [contains, delCells]
  | .multi ms p => by simp only [contains, delCells]; exact containsL_iff cs n ms
  | .linked t p => by simp only [contains, delCells]; exact contains_iff cs n t
theorem containsL_iff (cs : Cells) (n : Name) :
    ∀ ms, containsL cs n ms = true ↔ ∃ c ∈ delCellsL ms, (alookup n (cs.get c).data).isSome = true
  | [] => by simp [containsL, delCellsL]
  | m :: ms => by
      simp only [containsL, delCellsL, Bool.or_eq_true, contains_iff cs n m, containsL_iff cs n ms,
        List.mem_append]
      constructor
      · rintro (⟨c, hc, h⟩ | ⟨c, hc, h⟩)
        · exact ⟨c, Or.inl hc, h⟩
        · exact ⟨c, Or.inr hc, h⟩
      · rintro ⟨c, hc | hc, h⟩
        · exact Or.inl ⟨c, hc, h⟩
        · exact Or.inr ⟨c, hc, h⟩
end

/-- deleting a variable from a context (plain, multi or linked) whose own
    layer defines it succeeds and removes it from that (merged) layer -/
theorem delete_multi (cs : Cells) (s : Shape) (name : Name)
    (h : containsName cs s name = true) :
    ∃ cs', delData cs s name = some cs' ∧ containsName cs' s name = false := by
  unfold containsName at h
  refine ⟨eraseCells (normName name) (delCells s) cs, ?_, ?_⟩
  · simp [delData, h, eraseCells]
  · unfold containsName
    cases hc : contains (eraseCells (normName name) (delCells s) cs) (normName name) s with
    | false => rfl
    | true =>
        obtain ⟨c, hmem, hsome⟩ := (contains_iff _ _ s).mp hc
        rw [lookup_eraseCells] at hsome
        simp [hmem] at hsome

/-- deleting a variable the own layer does not define is a `KeyError` -/
theorem delete_absent (cs : Cells) (s : Shape) (name : Name)
    (h : containsName cs s name = false) : delData cs s name = none := by
  unfold containsName at h
  simp [delData, h]

/-- deletion leaves every other variable of every cell untouched -/
theorem delete_frame (cs cs' : Cells) (s : Shape) (name m : Name) (c : Nat)
    (h : delData cs s name = some cs') (hm : m ≠ normName name) :
    alookup m (cs'.get c).data = alookup m (cs.get c).data := by
  simp only [delData] at h
  split at h
  · simp only [Option.some.injEq] at h
    subst h
    have := lookup_eraseCells (normName name) m c (delCells s) cs
    simp only [eraseCells] at this
    simp [this, hm]
  · exact absurd h (by simp)

/-! ## non-vacuity: concrete instances of the hypotheses -/

/-- a multi-context of two plain contexts with different parents, linked under a third -/
def exCells : Cells :=
  [ { data := [(['$', 'x'], some 1)] }, { data := [(['$', 'y'], some 2)] },
    { data := [(['$', 'x'], some 3), (['$', 'z'], some 4)], funcs := [(['f'], 7)], excl := [['f']] },
    { funcs := [(['f'], 8)] } ]
def exA : Shape := .plain 0 (some (.plain 2 none))
def exB : Shape := .plain 1 (some (.plain 3 none))
def exM : Shape := mkMulti [exA, exB]

example : getData exCells exM ['x'] = some 1 ∧ getData exCells exM ['z'] = some 4 ∧
    containsName exCells exM ['y'] = true ∧ containsName exCells exM ['z'] = false ∧
    collectFunctions exCells exM ['f'] = [[7, 8]] ∧
    writeCell exM = some 0 ∧ 0 < exCells.length := by decide +kernel

example : (layers exCells (mkLinked (some exB) exA)).length = 4 := by decide +kernel

end Yaql.Props.C17
