import Yaql.Model.GroupAgg
/-!
# C09 - a prepared context can be reused: state hidden in a registered function

The context-level theorems (`Props/C09Ctx.lean`: `reeval_pool`) speak about the variables and function sets of
the host's chain.  The one stateful object of the standard library, `groupBy`'s `GroupAggregator`, is modelled
in `Model/GroupAgg.lean` with the two lifetimes its state can have.
-/
namespace Yaql.Props.C09
open Yaql Yaql.GroupAgg

/-- **per call** (the code): in a pool of `groupBy` statements evaluated in any order, any number of times,
    against one prepared context, every evaluation returns what the statement returns alone - by
    construction, the aggregator object does not outlive the call -/
theorem perCall_pool_independent (allow : Bool) (pool : List Stmt) (i : Nat) (h : i < pool.length) :
    (poolPerCall allow pool)[i]'(by simpa [poolPerCall] using h) = evalPerCall allow pool[i] := by
  simp [poolPerCall]

/-- ... and re-evaluating gives the same result again, whatever ran before and in between -/
theorem perCall_reeval (allow : Bool) (s : Stmt) (pre mid : List Stmt) :
    poolPerCall allow (pre ++ [s] ++ mid ++ [s]) =
      poolPerCall allow pre ++ [evalPerCall allow s] ++ poolPerCall allow mid ++ [evalPerCall allow s] := by
  simp [poolPerCall]

/-- an aggregator in the current syntax that works on every list of values -/
def NewStyle (agg : Agg) : Prop := ∀ vs, ∃ r, agg (.list vs) = .ok r

/-- as long as no new-style attempt has failed, a new-style aggregator's results do not depend on the flag -/
theorem run_newStyle (agg : Agg) (h : NewStyle agg) : ∀ (groups : List (Value × List Value)) (st : St),
    st.failure = none →
    (run agg st groups).1 = (run agg (St.fresh true) groups).1 ∧ (run agg st groups).2.failure = none
  | [], st, hf => ⟨rfl, hf⟩
  | (k, vs) :: rest, st, hf => by
    obtain ⟨r, hr⟩ := h vs
    have hc : ∀ s : St, s.failure = none →
        call agg s k vs = (.ok (.tuple [k, r]), if looksOld vs r then s else { s with allowFallback := false }) := by
      intro s hs
      simp [call, hs, hr]
    have h1 := hc st hf
    have h2 := hc (St.fresh true) rfl
    have hf1 : (if looksOld vs r then st else { st with allowFallback := false }).failure = none := by
      split <;> simp [hf]
    have hf2 : (if looksOld vs r then St.fresh true else { St.fresh true with allowFallback := false }).failure = none := by
      split <;> rfl
    have ih1 := run_newStyle agg h rest _ hf1
    have ih2 := run_newStyle agg h rest _ hf2
    simp only [run, h1, h2]
    rw [show (run agg (if looksOld vs r then st else { st with allowFallback := false }) rest) =
      ((run agg (if looksOld vs r then st else { st with allowFallback := false }) rest).1,
       (run agg (if looksOld vs r then st else { st with allowFallback := false }) rest).2) from rfl]
    rw [show (run agg (if looksOld vs r then St.fresh true else { St.fresh true with allowFallback := false }) rest) =
      ((run agg (if looksOld vs r then St.fresh true else { St.fresh true with allowFallback := false }) rest).1,
       (run agg (if looksOld vs r then St.fresh true else { St.fresh true with allowFallback := false }) rest).2) from rfl]
    rw [ih1.1, ih2.1]
    cases hrun : (run agg (St.fresh true) rest).1 with
    | ok rs => exact ⟨rfl, ih1.2⟩
    | error e => exact ⟨rfl, ih1.2⟩

/-- **why a shared aggregator object goes unnoticed**: a pool of statements that all use the current syntax
    successfully (what every test of the library does within one context) gives, with ONE aggregator object
    shared by all evaluations, exactly the per-call results -/
theorem shared_harmless_newStyle : ∀ (pool : List Stmt) (st : St), st.failure = none →
    (∀ s ∈ pool, NewStyle s.agg) → poolShared st pool = poolPerCall true pool
  | [], _, _, _ => rfl
  | s :: rest, st, hf, hp => by
    have h := run_newStyle s.agg (hp s (by simp)) s.groups st hf
    simp only [poolShared, poolPerCall, List.map_cons, evalPerCall]
    rw [h.1]
    congr 1
    exact shared_harmless_newStyle rest _ h.2 (fun t ht => hp t (by simp [ht]))

/-- the aggregator `$.sum()`-like: works on a list of values, does not match a `[key, values]` pair -/
def aggNew : Agg
  | .list vs => .ok (.int vs.length)
  | _ => .error (.resolution 1)

/-- the aggregator `[$[0], $[1].sum()]`-like (1.1.1 syntax): works on the pair, raises on a bare list of values -/
def aggOld : Agg
  | .tuple [k, .list vs] => .ok (.tuple [k, .int vs.length])
  | _ => .error (.resolution 2)

def dataAB : List (Value × List Value) := [(.str ['a'], [.int 1, .int 2]), (.str ['b'], [.int 3])]

/-- **one aggregator object per registered function breaks the reuse of a prepared context**: after a
    statement in the current syntax has succeeded, a statement in the 1.1.1 syntax - fine on its own, fine per
    call - raises; and after a 1.1.1 statement, the new-style one raises the stale exception of the EARLIER
    evaluation.  Per call both pools return what the statements return alone. -/
theorem shared_breaks_reuse :
    evalPerCall true ⟨aggOld, dataAB⟩ = .ok [.tuple [.str ['a'], .int 2], .tuple [.str ['b'], .int 1]] ∧
    evalPerCall true ⟨aggNew, dataAB⟩ = .ok [.tuple [.str ['a'], .int 2], .tuple [.str ['b'], .int 1]] ∧
    poolShared (St.fresh true) [⟨aggNew, dataAB⟩, ⟨aggOld, dataAB⟩] =
      [.ok [.tuple [.str ['a'], .int 2], .tuple [.str ['b'], .int 1]], .error (.resolution 2)] ∧
    poolShared (St.fresh true) [⟨aggOld, dataAB⟩, ⟨aggNew, dataAB⟩, ⟨aggNew, dataAB⟩] =
      [.ok [.tuple [.str ['a'], .int 2], .tuple [.str ['b'], .int 1]], .error (.resolution 2), .error (.resolution 2)] ∧
    poolPerCall true [⟨aggNew, dataAB⟩, ⟨aggOld, dataAB⟩, ⟨aggNew, dataAB⟩] =
      [evalPerCall true ⟨aggNew, dataAB⟩, evalPerCall true ⟨aggOld, dataAB⟩, evalPerCall true ⟨aggNew, dataAB⟩] := by
  refine ⟨rfl, rfl, rfl, rfl, rfl⟩

end Yaql.Props.C09
