import Yaql.Model.Resolve
/-!
C05 - overload resolution follows the documented resolution rules.

`resolveSpec` restates doc/source/extending_yaql.rst "Function resolution rules"
(plus "the single most specific match wins") as one declarative expression over
the same binding primitives `mapArgs` / `getDelegate`.  `resolve_eq_spec` shows
that the code-shaped model (`Yaql.Resolve.resolve`: loops with early exits, the
threaded `lazy_params`, the winner list comprehension) computes exactly that, for
every class graph, layer chain, overload family and call.
-/
namespace Yaql.Props.C05
open Yaql.Types Yaql.Resolve

/-! ## the rule-shaped specification -/

/-- rule 2: the contexts that are looked at - up to and including the first one in
    which the name is registered exclusively -/
def reach : List Layer → List Layer
  | [] => []
  | l :: r => if l.exclusive then [l] else l :: reach r

/-- rules 1-2: overloads of the call's kind, layer by layer, empty layers dropped -/
def visible (method : Bool) (layers : List Layer) : List (List FDef) :=
  ((reach layers).map fun l => l.fns.filter (kindOk method)).filter (fun fs => !fs.isEmpty)

/-- rule 3: the overloads of one layer that can be called by the given syntax -/
def mappedOf (L : Lattice) (args : List Arg) (kw : KwArgs) (lv : List FDef) : List Cand :=
  lv.filterMap fun c => (mapArgs L c.params args kw).map fun m => ⟨c, m⟩

/-- `m1` is more specific than `m2`: nowhere is the type of `m2` a proper
    specialization of that of `m1`, and somewhere it is the other way round -/
def moreSpecific (L : Lattice) (m1 m2 : Mapping) : Bool :=
  (m1.typePairs m2).all (fun p => !specializes L p.2 p.1) &&
  (m1.typePairs m2).any (fun p => specializes L p.1 p.2)

/-- rules 7-8 with "single most specific": the matches that are more specific than every other -/
def best (L : Lattice) (ms : List Match) : List Match :=
  ms.filter fun m => ms.all fun o => o.cand.fd.id == m.cand.fd.id || moreSpecific L m.cand.mapping o.cand.mapping

def choose (L : Lattice) (ms : List Match) : Except Err (Nat × Bound) :=
  match best L ms with
  | [w] => .ok (w.cand.fd.id, w.bound)
  | _ => .error .ambiguous

/-- rules 3-5 over the visible overloads: the evaluation log and, per layer, the
    type-compatible matches - or the error that ends resolution before that -/
def stage (L : Lattice) (vis : List (List FDef)) (c : Call) : Except Err (List Nat × List (List Match)) :=
  let all := vis.flatten
  if all.any (·.noKwargs) && all.any (!·.noKwargs) then .error .ambiguous
  else match translateArgs ((all.map (·.noKwargs)).headD false) (callArgs c) c.kwargs with
    | .error e => .error e
    | .ok (args, kw) =>
        let mapped := vis.map (mappedOf L args kw)
        match mapped.flatten with
        | [] => .error .noMatching                                         -- rule 6 (nothing callable)
        | m0 :: rest =>
            if !(rest.all fun m => decide (m.sig = m0.sig)) then .error .ambiguous   -- rule 4
            else
              let ev := evalPos m0.sig.pos args                            -- rule 5: once, shared
              let ek := evalKw m0.sig.kw kw
              .ok (ev.2 ++ ek.2, mapped.map (matchesOf L ev.1 ek.1))

/-- rules 6-8 -/
def decide' (L : Lattice) (mls : List (List Match)) : Except Err (Nat × Bound) :=
  match mls.find? (fun ms => !ms.isEmpty) with
  | none => .error .noMatching
  | some ms => choose L ms

def chooseSpec (L : Lattice) (vis : List (List FDef)) (c : Call) : Outcome :=
  match stage L vis c with
  | .error e => ⟨[], .error e⟩
  | .ok (log, mls) => ⟨log, decide' L mls⟩

def resolveSpec (L : Lattice) (layers : List Layer) (c : Call) : Outcome :=
  let vis := visible c.receiver.isSome layers
  if vis.flatten.isEmpty then ⟨[], .error .unknown⟩ else chooseSpec L vis c

/-! ## rules 1-2: collect -/

theorem collect_eq_visible (method : Bool) : ∀ layers, collect method layers = visible method layers
  | [] => rfl
  | l :: r => by
      have ih := collect_eq_visible method r
      unfold visible at ih ⊢
      by_cases hx : l.exclusive <;> by_cases he : (l.fns.filter (kindOk method)).isEmpty <;>
        simp [collect, reach, hx, he, ih]

theorem visible_nonempty (method : Bool) (layers : List Layer) :
    ∀ fs ∈ visible method layers, fs ≠ [] := by
  intro fs h
  simp [visible] at h
  exact h.2

theorem visible_flatten_isEmpty (method : Bool) (layers : List Layer) :
    (visible method layers).flatten.isEmpty = (visible method layers).isEmpty := by
  cases hv : visible method layers with
  | nil => rfl
  | cons a r =>
      have := visible_nonempty method layers a (by simp [hv])
      cases a with
      | nil => exact absurd rfl this
      | cons x xs => simp

/-! ## rules 3-4: the first pass of choose_overload -/

/-- `lazy_params` after the loop went over the mapped candidates `cs` -/
def firstSig (lz : Option LazySig) (cs : List Cand) : Option LazySig :=
  match lz with
  | some s => some s
  | none => cs.head?.map Cand.sig

def agree (s : Option LazySig) (cs : List Cand) : Bool := cs.all fun c => decide (some c.sig = s)

theorem firstSig_append (lz : Option LazySig) (a b : List Cand) :
    firstSig (firstSig lz a) b = firstSig lz (a ++ b) := by
  cases lz with
  | some s => rfl
  | none => cases a <;> rfl

theorem agree_append (s : Option LazySig) (a b : List Cand) :
    agree s (a ++ b) = (agree s a && agree s b) := by
  simp [agree, List.all_append]

theorem agree_firstSig_append (lz : Option LazySig) (a b : List Cand) :
    agree (firstSig lz (a ++ b)) a = agree (firstSig lz a) a := by
  cases lz with
  | some s => rfl
  | none => cases a <;> rfl

theorem mapLevel_spec (L : Lattice) (args : List Arg) (kw : KwArgs) :
    ∀ (lv : List FDef) (lz : Option LazySig), mapLevel L args kw lz lv =
      if agree (firstSig lz (mappedOf L args kw lv)) (mappedOf L args kw lv)
      then .ok (firstSig lz (mappedOf L args kw lv), mappedOf L args kw lv)
      else .error .ambiguous
  | [], lz => by cases lz <;> simp [mapLevel, mappedOf, agree, firstSig]
  | c :: r, lz => by
      have ih := mapLevel_spec L args kw r
      cases hm : mapArgs L c.params args kw with
      | none =>
          have : mappedOf L args kw (c :: r) = mappedOf L args kw r := by simp [mappedOf, hm]
          rw [this, mapLevel, hm]; exact ih lz
      | some m =>
          have hcons : mappedOf L args kw (c :: r) = ⟨c, m⟩ :: mappedOf L args kw r := by
            simp [mappedOf, hm]
          rw [hcons]
          cases lz with
          | some s =>
              by_cases hs : s = m.lazySig
              · subst hs
                simp only [mapLevel, hm, ih (some m.lazySig)]
                simp [agree, firstSig, Cand.sig]
                by_cases hh : ∀ (x : Cand), x ∈ mappedOf L args kw r → x.mapping.lazySig = m.lazySig
                · rw [if_pos hh, if_pos hh]
                · rw [if_neg hh, if_neg hh]
              · simp [mapLevel, hm, hs, agree, firstSig, Cand.sig, Ne.symm hs]
          | none =>
              simp only [mapLevel, hm, ih (some m.lazySig)]
              simp [agree, firstSig, Cand.sig]
              by_cases hh : ∀ (x : Cand), x ∈ mappedOf L args kw r → x.mapping.lazySig = m.lazySig
              · rw [if_pos hh, if_pos hh]
              · rw [if_neg hh, if_neg hh]

theorem mapLevels_spec (L : Lattice) (args : List Arg) (kw : KwArgs) :
    ∀ (lvs : List (List FDef)) (lz : Option LazySig), mapLevels L args kw lz lvs =
      if agree (firstSig lz (lvs.map (mappedOf L args kw)).flatten) (lvs.map (mappedOf L args kw)).flatten
      then .ok (firstSig lz (lvs.map (mappedOf L args kw)).flatten,
                (lvs.map (mappedOf L args kw)).filter (fun cs => !cs.isEmpty))
      else .error .ambiguous
  | [], lz => by cases lz <;> simp [mapLevels, agree, firstSig]
  | lv :: r, lz => by
      have ih := mapLevels_spec L args kw r
      simp only [mapLevels, mapLevel_spec, List.map_cons, List.flatten_cons]
      rw [agree_append, agree_firstSig_append, ← firstSig_append]
      by_cases h1 : agree (firstSig lz (mappedOf L args kw lv)) (mappedOf L args kw lv)
      · simp only [h1, if_true, ih, Bool.true_and]
        by_cases h2 : agree (firstSig (firstSig lz (mappedOf L args kw lv)) (List.map (mappedOf L args kw) r).flatten)
            (List.map (mappedOf L args kw) r).flatten
        · simp only [h2, if_true]
          cases hcs : (mappedOf L args kw lv).isEmpty <;> simp [List.filter_cons, hcs]
        · simp [h2]
      · simp [h1]

/-! ## rules 5-8: the second pass -/

theorem specLoop_eq (L : Lattice) : ∀ (ts : List (PTy × PTy)) (res : Bool),
    specLoop L ts res = (ts.all (fun p => !specializes L p.2 p.1) &&
                         (res || ts.any (fun p => specializes L p.1 p.2)))
  | [], res => by simp [specLoop]
  | (t1, t2) :: r, res => by
      have ih := fun res' => specLoop_eq L r res'
      cases h21 : isSpecializationOf L t2 t1 <;> cases h12 : isSpecializationOf L t1 t2 <;>
        simp [specLoop, h21, h12, ih, specializes]

theorem isSpecM_eq (L : Lattice) (m1 m2 : Mapping) : isSpecM L m1 m2 = moreSpecific L m1 m2 := by
  simp [isSpecM, moreSpecific, specLoop_eq L _ false]

def beats (L : Lattice) (m o : Match) : Bool :=
  o.cand.fd.id == m.cand.fd.id || moreSpecific L m.cand.mapping o.cand.mapping

theorem allSpec_eq (L : Lattice) (m : Match) : ∀ (ms : List Match), allSpec L m ms = ms.all (beats L m)
  | [] => by simp [allSpec]
  | o :: r => by
      have ih := allSpec_eq L m r
      by_cases hid : o.cand.fd.id = m.cand.fd.id
      · simp [allSpec, hid, ih, beats]
      · have hid' : (o.cand.fd.id == m.cand.fd.id) = false := by simpa using hid
        simp only [allSpec, hid', isSpecM_eq, ih, List.all_cons, beats]
        cases moreSpecific L m.cand.mapping o.cand.mapping <;> simp

theorem winners_eq (L : Lattice) (ms : List Match) : ∀ (ms' : List Match),
    winners L ms ms' = ms'.filter fun m => ms.all (beats L m)
  | [] => by simp [winners]
  | m :: r => by
      have ih := winners_eq L ms r
      simp only [winners, allSpec_eq L m ms, ih, List.filter_cons]

theorem best_eq (L : Lattice) (ms : List Match) : best L ms = ms.filter fun m => ms.all (beats L m) := rfl

theorem mem_matchesOf {L : Lattice} {args : List Arg} {kw : KwArgs} {cs : List Cand} {m : Match}
    (h : m ∈ matchesOf L args kw cs) : m.cand ∈ cs ∧ getDelegate L m.cand.fd.params args kw = some m.bound := by
  simp only [matchesOf, List.mem_filterMap] at h
  obtain ⟨c, hc, hm⟩ := h
  cases hd : getDelegate L c.fd.params args kw with
  | none => simp [hd] at hm
  | some b => simp [hd] at hm; subst hm; exact ⟨hc, hd⟩

/-- the second loop of `choose_overload` -/
theorem selectLevel_spec (L : Lattice) (args : List Arg) (kw : KwArgs) : ∀ (lvs : List (List Cand)),
    selectLevel L args kw lvs =
      match (lvs.map (matchesOf L args kw)).find? (fun ms => !ms.isEmpty) with
      | none => .error .noMatching
      | some ms => choose L ms
  | [] => by simp [selectLevel]
  | lv :: r => by
      have ih := selectLevel_spec L args kw r
      simp only [selectLevel, List.map_cons, List.find?_cons]
      cases he : (matchesOf L args kw lv).isEmpty with
      | true => simp [ih]
      | false =>
          simp only [winners_eq, Bool.not_false, Bool.false_eq_true, if_false, choose, best_eq]
          split <;> simp_all

theorem selectLevel_filter (L : Lattice) (args : List Arg) (kw : KwArgs) : ∀ (lvs : List (List Cand)),
    selectLevel L args kw (lvs.filter fun cs => !cs.isEmpty) = selectLevel L args kw lvs
  | [] => rfl
  | lv :: r => by
      have ih := selectLevel_filter L args kw r
      cases lv with
      | nil => simp [List.filter_cons, selectLevel, matchesOf, ih]
      | cons c cs => simp [List.filter_cons, selectLevel, ih]

/-! ## the parameters a mapping mentions are parameters of the definition -/

theorem mem_aset {α : Type} {k : Name} {v : α} : ∀ {l : List (Name × α)} {q : Name × α},
    q ∈ aset k v l → q ∈ l ∨ q.2 = v
  | [], q, h => by simp [aset] at h; right; rw [h]
  | (k', v') :: r, q, h => by
      unfold aset at h
      split at h
      · rcases List.mem_cons.1 h with h | h
        · right; rw [h]
        · left; exact List.mem_cons_of_mem _ h
      · rcases List.mem_cons.1 h with h | h
        · left; rw [h]; exact List.mem_cons_self
        · rcases mem_aset h with h | h
          · left; exact List.mem_cons_of_mem _ h
          · right; exact h

structure MapInv (ps : List Param) (st : MapSt) : Prop where
  pos : ∀ p, some p ∈ st.pos → p ∈ ps
  kwd : ∀ q ∈ st.kwd, q.2 ∈ ps

theorem mapStep_inv {ps : List Param} {args : List Arg} {st st' : MapSt} {p : Param}
    (hp : p ∈ ps) (hi : MapInv ps st) (h : mapStep ps args st p = some st') : MapInv ps st' := by
  have hset : ∀ i, MapInv ps { st with pos := st.pos.set i (some p) } := fun i =>
    ⟨fun x hx => by
        rcases List.mem_or_eq_of_mem_set hx with h | h
        · exact hi.pos x h
        · cases h; exact hp,
     hi.kwd⟩
  have hkw : MapInv ps { st with kwd := aset p.argName p st.kwd, rest := adel p.argName st.rest } :=
    ⟨hi.pos, fun q hq => by
        rcases mem_aset hq with h | h
        · exact hi.kwd q h
        · rw [h]; exact hp⟩
  unfold mapStep at h
  cases hq : p.position with
  | some q =>
      simp only [hq] at h
      split at h
      · cases h; exact hi
      · split at h
        · cases h; exact hi
        · split at h
          · split at h
            · cases h
            · cases h; exact hset _
          · split at h
            · cases h; exact hkw
            · split at h
              · cases h
              · split at h
                · cases h; exact hset _
                · cases h; exact hi
  | none =>
      simp only [hq] at h
      split at h
      · cases h; exact hi
      · split at h
        · cases h; exact hi
        · split at h
          · cases h; exact hkw
          · split at h
            · cases h
            · cases h; exact hi

theorem mapLoop_inv {ps : List Param} {args : List Arg} : ∀ {l : List Param} {st st' : MapSt},
    (∀ p ∈ l, p ∈ ps) → MapInv ps st → mapLoop ps args st l = some st' → MapInv ps st'
  | [], st, st', _, hi, h => by simp [mapLoop] at h; cases h; exact hi
  | p :: r, st, st', hl, hi, h => by
      simp only [mapLoop] at h
      cases hs : mapStep ps args st p with
      | none => simp [hs] at h
      | some st1 =>
          simp only [hs] at h
          exact mapLoop_inv (fun q hq => hl q (by simp [hq])) (mapStep_inv (hl p (by simp)) hi hs) h

theorem mem_foldl_aset {sp : Param} : ∀ (rest : KwArgs) (kwd : List (Name × Param)) (q : Name × Param),
    q ∈ rest.foldl (fun acc kv => aset kv.1 sp acc) kwd → q ∈ kwd ∨ q.2 = sp
  | [], kwd, q, h => Or.inl h
  | kv :: r, kwd, q, h => by
      rcases mem_foldl_aset r _ q h with h | h
      · rcases mem_aset h with h | h
        · exact Or.inl h
        · exact Or.inr h
      · exact Or.inr h

theorem alookup_mem {α : Type} {k : Name} {v : α} : ∀ {l : List (Name × α)}, alookup k l = some v → ∃ k', (k', v) ∈ l
  | [], h => by simp [alookup] at h
  | (k', v') :: r, h => by
      by_cases hk : (k' == k) = true
      · simp [alookup, hk] at h; exact ⟨k', by simp [h]⟩
      · simp [alookup, hk] at h
        obtain ⟨k2, h2⟩ := alookup_mem h
        exact ⟨k2, by simp [h2]⟩

theorem mapArgs_mem {L : Lattice} {ps : List Param} {args : List Arg} {kw : KwArgs} {m : Mapping}
    (h : mapArgs L ps args kw = some m) : (∀ p ∈ m.pos, p ∈ ps) ∧ (∀ q ∈ m.kwd, q.2 ∈ ps) := by
  unfold mapArgs at h
  simp only at h
  have hstar : ∀ p, starParam ps = some p → p ∈ ps := fun p hp => List.mem_of_find?_eq_some hp
  have hss : ∀ p, starStarParam ps = some p → p ∈ ps := fun p hp => List.mem_of_find?_eq_some hp
  have h0 : MapInv ps { pos := List.replicate args.length (starParam ps), kwd := [], rest := kw } :=
    ⟨fun p hp => hstar p (List.eq_of_mem_replicate hp).symm, fun q hq => by simp at hq⟩
  cases hl : mapLoop ps args { pos := List.replicate args.length (starParam ps), kwd := [], rest := kw } ps with
  | none => simp [hl] at h
  | some st =>
      have hi := mapLoop_inv (fun p hp => hp) h0 hl
      simp only [hl] at h
      -- the keyword part
      have hk : ∀ kwd : List (Name × Param),
          (if st.rest.isEmpty then some st.kwd
           else match starStarParam ps with
             | some sp => some (st.rest.foldl (fun acc kv => aset kv.1 sp acc) st.kwd)
             | none => none) = some kwd → ∀ q ∈ kwd, q.2 ∈ ps := by
        intro kwd hk q hq
        split at hk
        · cases hk; exact hi.kwd q hq
        · cases hsp : starStarParam ps with
          | none => simp [hsp] at hk
          | some sp =>
              simp only [hsp] at hk
              cases hk
              rcases mem_foldl_aset _ _ q hq with h' | h'
              · exact hi.kwd q h'
              · rw [h']; exact hss sp hsp
      split at h
      · cases h
      · rename_i kwd hkwd
        split at h
        · cases h
        · split at h
          · cases h
          · cases h
            refine ⟨fun p hp => ?_, fun q hq => ?_⟩
            · simp only [List.mem_filterMap, id] at hp
              obtain ⟨a, ha, rfl⟩ := hp
              exact hi.pos p ha
            · simp only [List.mem_filterMap] at hq
              obtain ⟨kv, _, hq⟩ := hq
              cases hlk : alookup kv.1 kwd with
              | none => simp [hlk] at hq
              | some p =>
                  simp [hlk] at hq
                  obtain ⟨k', hk'⟩ := alookup_mem hlk
                  rw [← hq]
                  exact hk kwd hkwd (k', p) hk'

/-! ## resolve = resolveSpec -/

theorem reach_sub : ∀ (layers : List Layer) (l : Layer), l ∈ reach layers → l ∈ layers
  | [], l, h => by simp [reach] at h
  | x :: r, l, h => by
      unfold reach at h
      split at h
      · simp at h; simp [h]
      · rcases List.mem_cons.1 h with h | h
        · simp [h]
        · exact List.mem_cons_of_mem _ (reach_sub r l h)

theorem visible_mem {method : Bool} {layers : List Layer} {fs : List FDef} {f : FDef}
    (hfs : fs ∈ visible method layers) (hf : f ∈ fs) :
    ∃ l ∈ reach layers, f ∈ l.fns ∧ kindOk method f = true := by
  simp only [visible, List.mem_filter, List.mem_map] at hfs
  obtain ⟨⟨l, hl, rfl⟩, _⟩ := hfs
  simp only [List.mem_filter] at hf
  exact ⟨l, hl, hf.1, hf.2⟩

theorem mem_mappedOf {L : Lattice} {args : List Arg} {kw : KwArgs} {lv : List FDef} {c : Cand}
    (h : c ∈ mappedOf L args kw lv) : c.fd ∈ lv ∧ mapArgs L c.fd.params args kw = some c.mapping := by
  simp only [mappedOf, List.mem_filterMap] at h
  obtain ⟨f, hf, hm⟩ := h
  cases hd : mapArgs L f.params args kw with
  | none => simp [hd] at hm
  | some m => simp [hd] at hm; subst hm; exact ⟨hf, hd⟩

theorem mem_typePairs {m1 m2 : Mapping} {p : PTy × PTy} (h : p ∈ m1.typePairs m2) :
    (∃ a, (a ∈ m1.pos ∨ ∃ k, (k, a) ∈ m1.kwd) ∧ p.1 = a.ty) ∧
    (∃ b, (b ∈ m2.pos ∨ ∃ k, (k, b) ∈ m2.kwd) ∧ p.2 = b.ty) := by
  simp only [Mapping.typePairs, List.mem_append, List.mem_map] at h
  rcases h with ⟨q, hq, rfl⟩ | ⟨q, hq, rfl⟩
  · have := List.of_mem_zip hq
    exact ⟨⟨q.1, Or.inl this.1, rfl⟩, ⟨q.2, Or.inl this.2, rfl⟩⟩
  · have := List.of_mem_zip hq
    exact ⟨⟨q.1.2, Or.inr ⟨q.1.1, this.1⟩, rfl⟩, ⟨q.2.2, Or.inr ⟨q.2.1, this.2⟩, rfl⟩⟩

theorem flatten_filter_nonempty {α : Type} : ∀ (l : List (List α)),
    (l.filter fun x => !x.isEmpty).flatten = l.flatten
  | [] => rfl
  | x :: r => by
      cases x with
      | nil => simp [List.filter_cons, flatten_filter_nonempty r]
      | cons a as => simp [List.filter_cons, flatten_filter_nonempty r]

theorem chooseOverload_eq (L : Lattice) (vis : List (List FDef)) (c : Call) :
    chooseOverload L vis c = chooseSpec L vis c := by
  unfold chooseOverload chooseSpec stage decide'
  simp only [List.any_map]
  split
  · rename_i h; simp_all [Function.comp_def]
  · rename_i h
    have h' : ¬((vis.flatten.any fun x => x.noKwargs) && vis.flatten.any fun x => !x.noKwargs) = true := by
      simpa [Function.comp_def] using h
    rw [if_neg h']
    cases htr : translateArgs ((vis.flatten.map (·.noKwargs)).headD false) (callArgs c) c.kwargs with
    | error e => rfl
    | ok r =>
        obtain ⟨args, kw⟩ := r
        simp only [mapLevels_spec]
        cases hflat : (vis.map (mappedOf L args kw)).flatten with
        | nil =>
            have : ((vis.map (mappedOf L args kw)).filter fun cs => !cs.isEmpty) = [] := by
              have := flatten_filter_nonempty (vis.map (mappedOf L args kw))
              rw [hflat] at this
              cases hf : (vis.map (mappedOf L args kw)).filter fun cs => !cs.isEmpty with
              | nil => rfl
              | cons x xs =>
                  have hx : x ∈ (vis.map (mappedOf L args kw)).filter fun cs => !cs.isEmpty := by simp [hf]
                  have hx2 := (List.mem_filter.1 hx).2
                  rw [hf] at this
                  cases x with
                  | nil => simp at hx2
                  | cons a as => simp at this
            simp [agree, firstSig, this]
        | cons m0 rest =>
            have hag : agree (firstSig none (m0 :: rest)) (m0 :: rest) = rest.all fun m => decide (m.sig = m0.sig) := by
              simp [agree, firstSig]
            rw [hag]
            cases hall : rest.all fun m => decide (m.sig = m0.sig) with
            | false => simp [hall]
            | true =>
                have hne : ((vis.map (mappedOf L args kw)).filter fun cs => !cs.isEmpty).isEmpty = false := by
                  have := flatten_filter_nonempty (vis.map (mappedOf L args kw))
                  rw [hflat] at this
                  cases hf : (vis.map (mappedOf L args kw)).filter fun cs => !cs.isEmpty with
                  | nil => rw [hf] at this; simp at this
                  | cons x xs => rfl
                simp only [hall, if_true, hne, Bool.false_eq_true, if_false, firstSig, List.head?_cons, Option.map_some,
                  Option.getD_some, Bool.not_true]
                rw [selectLevel_filter, selectLevel_spec]

/-- **C05**: the code-shaped model computes what the written rules prescribe -/
theorem resolve_eq_spec (L : Lattice) (layers : List Layer) (c : Call) :
    resolve L layers c = resolveSpec L layers c := by
  unfold resolve resolveSpec
  simp only [collect_eq_visible, visible_flatten_isEmpty]
  split
  · rfl
  · exact chooseOverload_eq L _ c

/-! ## corollaries -/

theorem visible_isEmpty_iff (method : Bool) (layers : List Layer) :
    (visible method layers).isEmpty = true ↔ ∀ l ∈ reach layers, ∀ f ∈ l.fns, kindOk method f = false := by
  constructor
  · intro h l hl f hf
    cases hk : kindOk method f with
    | false => rfl
    | true =>
      exfalso
      have hmem : l.fns.filter (kindOk method) ∈ visible method layers := by
        simp only [visible, List.mem_filter, List.mem_map]
        refine ⟨⟨l, hl, rfl⟩, ?_⟩
        have : f ∈ l.fns.filter (kindOk method) := List.mem_filter.2 ⟨hf, hk⟩
        cases hx : l.fns.filter (kindOk method) with
        | nil => rw [hx] at this; simp at this
        | cons a r => rfl
      rw [List.isEmpty_iff] at h; rw [h] at hmem; simp at hmem
  · intro h
    cases hv : visible method layers with
    | nil => rfl
    | cons fs r =>
      exfalso
      have hfs : fs ∈ visible method layers := by simp [hv]
      have hne := visible_nonempty method layers fs hfs
      cases fs with
      | nil => exact hne rfl
      | cons f fr =>
        obtain ⟨l, hl, hf, hk⟩ := visible_mem hfs List.mem_cons_self
        rw [h l hl f hf] at hk; cases hk

theorem translateArgs_err {nk : Bool} {args : List Arg} {kw : KwArgs} {e : Err}
    (h : translateArgs nk args kw = .error e) : e = .argument ∨ e = .mappingTranslation := by
  have hp : ∀ (l pos : List Arg) (k : KwArgs) (e : Err), translatePos l pos k = .error e → e = .mappingTranslation := by
    intro l
    induction l with
    | nil => intro pos k e h; simp [translatePos] at h
    | cons a r ih =>
        intro pos k e h
        cases a with
        | mapRule s d res ek =>
            cases s with
            | const v lit kwn ek2 =>
                cases kwn with
                | some n => simp only [translatePos] at h; exact ih _ _ _ h
                | none => simp only [translatePos] at h; cases h; rfl
            | _ => simp only [translatePos] at h; cases h; rfl
        | _ => simp only [translatePos] at h; exact ih _ _ _ h
  have hm : ∀ (l k : KwArgs) (e : Err), mergeKw l k = .error e → e = .mappingTranslation := by
    intro l
    induction l with
    | nil => intro k e h; simp [mergeKw] at h
    | cons a r ih =>
        intro k e h
        obtain ⟨n, v⟩ := a
        simp only [mergeKw] at h
        split at h
        · cases h; rfl
        · exact ih _ _ h
  unfold translateArgs at h
  split at h
  · split at h
    · cases h
    · cases h; exact Or.inl rfl
  · split at h
    · rename_i e' he; cases h; exact Or.inr (hp _ _ _ _ he)
    · split at h
      · rename_i e' he; cases h; exact Or.inr (hm _ _ _ he)
      · cases h

theorem winners_sub (L : Lattice) (ms ms' : List Match) : ∀ w ∈ winners L ms ms', w ∈ ms' := by
  intro w hw
  rw [winners_eq] at hw
  exact (List.mem_filter.1 hw).1

theorem selectLevel_ok_mem (L : Lattice) (args : List Arg) (kw : KwArgs) {id : Nat} {b : Bound} :
    ∀ (lvs : List (List Cand)), selectLevel L args kw lvs = .ok (id, b) →
      ∃ lv ∈ lvs, ∃ c ∈ lv, c.fd.id = id ∧ getDelegate L c.fd.params args kw = some b
  | [], h => by simp [selectLevel] at h
  | lv :: r, h => by
      simp only [selectLevel] at h
      split at h
      · obtain ⟨lv', hl, hc⟩ := selectLevel_ok_mem L args kw r h
        exact ⟨lv', by simp [hl], hc⟩
      · split at h
        · rename_i w hw
          cases h
          have hwm := winners_sub L _ _ w (by rw [hw]; simp)
          exact ⟨lv, by simp, w.cand, (mem_matchesOf hwm).1, rfl, (mem_matchesOf hwm).2⟩
        · cases h

theorem selectLevel_ne_unknown (L : Lattice) (args : List Arg) (kw : KwArgs) :
    ∀ (lvs : List (List Cand)), selectLevel L args kw lvs ≠ .error .unknown
  | [] => by simp [selectLevel]
  | lv :: r => by
      simp only [selectLevel]
      split
      · exact selectLevel_ne_unknown L args kw r
      · split <;> simp

theorem chooseOverload_ne_unknown (L : Lattice) (vis : List (List FDef)) (c : Call) :
    (chooseOverload L vis c).res ≠ .error .unknown := by
  unfold chooseOverload
  simp only [mapLevels_spec]
  split
  · simp
  · split
    · rename_i e he
      rcases translateArgs_err he with h | h <;> simp [h]
    · split
      · rename_i e he
        split at he <;> simp at he
        subst he; simp
      · split
        · simp
        · exact selectLevel_ne_unknown L _ _ _

/-- `Unknown function/method` iff no overload of the call's kind is visible up to and including
    the first layer that registered the name exclusively -/
theorem unknown_iff (L : Lattice) (layers : List Layer) (c : Call) :
    (resolve L layers c).res = .error .unknown ↔
      ∀ l ∈ reach layers, ∀ f ∈ l.fns, kindOk c.receiver.isSome f = false := by
  rw [← visible_isEmpty_iff]
  simp only [resolve, collect_eq_visible]
  split
  · rename_i h; simp [h]
  · rename_i h
    constructor
    · intro h'; exact absurd h' (chooseOverload_ne_unknown L _ c)
    · intro h'; exact absurd h' h

/-- an overload answers only calls of its kind: method-only definitions never answer function
    calls, function-only ones never answer method calls, extension methods answer both;
    and the answer comes from a layer that is reached -/
theorem kind_filter (L : Lattice) (layers : List Layer) (c : Call) (id : Nat) (b : Bound)
    (h : (resolve L layers c).res = .ok (id, b)) :
    ∃ l ∈ reach layers, ∃ f ∈ l.fns, f.id = id ∧ kindOk c.receiver.isSome f = true := by
  simp only [resolve, collect_eq_visible] at h
  split at h
  · simp at h
  · unfold chooseOverload at h
    simp only [mapLevels_spec] at h
    split at h
    · simp at h
    · split at h
      · simp at h
      · split at h
        · simp at h
        · rename_i lz cands2 hc
          split at hc
          · cases hc
            split at h
            · simp at h
            · obtain ⟨lv, hlv, cd, hcd, hid, _⟩ := selectLevel_ok_mem L _ _ _ h
              simp only [List.mem_filter, List.mem_map] at hlv
              obtain ⟨⟨fs, hfs, rfl⟩, _⟩ := hlv
              obtain ⟨l, hl, hf, hk⟩ := visible_mem hfs (mem_mappedOf hcd).1
              exact ⟨l, hl, cd.fd, hf, hid, hk⟩
          · cases hc

theorem kind_exclusive_function (L : Lattice) (layers : List Layer) (c : Call) (id : Nat) (b : Bound)
    (hids : ∀ l ∈ layers, ∀ f ∈ l.fns, f.id = id → f.isMethod = false) (hc : c.receiver.isSome = true) :
    (resolve L layers c).res ≠ .ok (id, b) := by
  intro h
  obtain ⟨l, hl, f, hf, hid, hk⟩ := kind_filter L layers c id b h
  have := hids l (reach_sub _ _ hl) f hf hid
  simp [kindOk, hc, this] at hk

/-- rules 1-5: when resolution gets as far as evaluating the arguments, the type-compatible
    matches of every visible layer, nearest first -/
def matchLayers (L : Lattice) (layers : List Layer) (c : Call) : Option (List (List Match)) :=
  let vis := visible c.receiver.isSome layers
  if vis.flatten.isEmpty then none
  else match stage L vis c with
    | .error _ => none
    | .ok (_, mls) => some mls

theorem spec_res_of_matchLayers {L : Lattice} {layers : List Layer} {c : Call} {mls : List (List Match)}
    (h : matchLayers L layers c = some mls) : (resolveSpec L layers c).res = decide' L mls := by
  simp only [matchLayers] at h
  simp only [resolveSpec, chooseSpec]
  split at h
  · cases h
  · rename_i h1
    rw [if_neg h1]
    cases hs : stage L (visible c.receiver.isSome layers) c with
    | error e => simp [hs] at h
    | ok r => obtain ⟨lg, m⟩ := r; simp [hs] at h; subst h; rfl

theorem spec_ok_matchLayers {L : Lattice} {layers : List Layer} {c : Call} {x : Nat × Bound}
    (h : (resolveSpec L layers c).res = .ok x) : ∃ mls, matchLayers L layers c = some mls := by
  simp only [resolveSpec, chooseSpec] at h
  simp only [matchLayers]
  split at h
  · cases h
  · rename_i h1
    rw [if_neg h1]
    cases hs : stage L (visible c.receiver.isSome layers) c with
    | error e => simp [hs] at h
    | ok r => obtain ⟨lg, m⟩ := r; exact ⟨m, rfl⟩

theorem choose_ok {L : Lattice} {ms : List Match} {id : Nat} {b : Bound} (h : choose L ms = .ok (id, b)) :
    ∃ w ∈ ms, w.cand.fd.id = id ∧ w.bound = b ∧ best L ms = [w] := by
  unfold choose at h
  split at h
  · rename_i w hw
    cases h
    have : w ∈ best L ms := by simp [hw]
    exact ⟨w, (List.mem_filter.1 this).1, rfl, rfl, hw⟩
  · cases h

/-- the chosen overload lies in the nearest layer that has a type-compatible candidate: the
    layers before it have none, and the choice is a function of that layer's matches alone -/
theorem first_layer_wins (L : Lattice) (layers : List Layer) (c : Call)
    (id : Nat) (b : Bound) (h : (resolve L layers c).res = .ok (id, b)) :
    ∃ mls pre ms post, matchLayers L layers c = some mls ∧ mls = pre ++ ms :: post ∧
      (∀ x ∈ pre, x = []) ∧ ms ≠ [] ∧ choose L ms = .ok (id, b) ∧
      ∃ w ∈ ms, w.cand.fd.id = id ∧ w.bound = b := by
  rw [resolve_eq_spec L layers c] at h
  obtain ⟨mls, hm⟩ := spec_ok_matchLayers h
  rw [spec_res_of_matchLayers hm] at h
  unfold decide' at h
  split at h
  · cases h
  · rename_i ms hf
    obtain ⟨hne, pre, post, hsplit, hpre⟩ := List.find?_eq_some_iff_append.1 hf
    obtain ⟨w, hw, hid, hb, _⟩ := choose_ok h
    refine ⟨mls, pre, ms, post, hm, hsplit, ?_, ?_, h, w, hw, hid, hb⟩
    · intro x hx
      have := hpre x hx
      cases x with
      | nil => rfl
      | cons a r => simp at this
    · intro he; subst he; simp at hne

/-- inside the winning layer the chosen overload is more specific than every other
    type-compatible candidate, and it is the only such candidate; otherwise the call is ambiguous -/
theorem most_specific (L : Lattice) (ms : List Match) :
    (∀ id b, choose L ms = .ok (id, b) →
      ∃ w ∈ ms, w.cand.fd.id = id ∧ w.bound = b ∧
        (∀ o ∈ ms, o.cand.fd.id ≠ id → moreSpecific L w.cand.mapping o.cand.mapping = true) ∧
        (∀ w' ∈ ms, (∀ o ∈ ms, beats L w' o = true) → w' = w)) ∧
    ((∀ id b, choose L ms ≠ .ok (id, b)) → choose L ms = .error .ambiguous) := by
  constructor
  · intro id b h
    obtain ⟨w, hw, hid, hb, hbest⟩ := choose_ok h
    refine ⟨w, hw, hid, hb, ?_, ?_⟩
    · intro o ho hne
      have hwb : w ∈ best L ms := by simp [hbest]
      have := (List.mem_filter.1 hwb).2
      simp only [List.all_eq_true] at this
      have h2 := this o ho
      simp only [Bool.or_eq_true, beq_iff_eq] at h2
      rcases h2 with h2 | h2
      · exact absurd (h2.trans hid) hne
      · exact h2
    · intro w' hw' hall
      have : w' ∈ best L ms := List.mem_filter.2 ⟨hw', by simpa [List.all_eq_true, beats] using hall⟩
      rw [hbest] at this
      simpa using this
  · intro h
    unfold choose at h ⊢
    split
    · rename_i w hw
      exact absurd (by simp [hw]) (h w.cand.fd.id w.bound)
    · rfl

theorem stage_noMatching {L : Lattice} {vis : List (List FDef)} {c : Call}
    (h : stage L vis c = .error .noMatching) :
    ∃ args kw, translateArgs ((vis.flatten.map (·.noKwargs)).headD false) (callArgs c) c.kwargs = .ok (args, kw) ∧
      (vis.map (mappedOf L args kw)).flatten = [] := by
  unfold stage at h
  simp only at h
  split at h
  · cases h
  · split at h
    · rename_i e he
      rcases translateArgs_err he with h' | h' <;> simp [h'] at h
    · rename_i args kw htr
      split at h
      · rename_i hfl; exact ⟨args, kw, htr, hfl⟩
      · split at h <;> cases h

/-- `No matching function/method` is raised exactly when the call gets past the kind, no_kwargs and
    keyword-translation stages and then either no overload can be called by this syntax, or the
    laziness check passes and no layer has a type-compatible candidate -/
theorem no_matching_iff (L : Lattice) (layers : List Layer) (c : Call) :
    (resolve L layers c).res = .error .noMatching ↔
      (visible c.receiver.isSome layers).flatten.isEmpty = false ∧
      (stage L (visible c.receiver.isSome layers) c = .error .noMatching ∨
       ∃ mls, matchLayers L layers c = some mls ∧ ∀ ms ∈ mls, ms = []) := by
  rw [resolve_eq_spec L layers c]
  simp only [resolveSpec, chooseSpec, matchLayers]
  split
  · rename_i h1; simp [h1]
  · rename_i h1
    simp only [Bool.not_eq_true] at h1
    simp only [h1, true_and, Bool.false_eq_true, if_false]
    cases hs : stage L (visible c.receiver.isSome layers) c with
    | error e => cases e <;> simp
    | ok r =>
        obtain ⟨lg, mls⟩ := r
        simp only [reduceCtorEq, false_or, Option.some.injEq, exists_eq_left']
        unfold decide'
        split
        · rename_i hf
          simp only [true_iff]
          intro ms hms
          have := List.find?_eq_none.1 hf ms hms
          cases ms with
          | nil => rfl
          | cons a r => simp at this
        · rename_i ms hf
          have hne := (List.find?_eq_some_iff_append.1 hf).1
          constructor
          · intro h
            exfalso
            unfold choose at h
            split at h <;> cases h
          · intro h
            have hm := List.mem_of_find?_eq_some hf
            rw [h ms hm] at hne
            simp at hne

/-! ## map_args lemmas -/

theorem posOk_spec (L : Lattice) : ∀ (pos : List (Option Param)) (args : List Arg), posOk L pos args = true →
    ∀ (i : Nat) (a : Arg) (p : Param), args[i]? = some a → a.isNoValue = false →
      (pos.filterMap id)[i]? = some p → check L p.ty a = true
  | [], _, _, i, a, p, _, _, hp => by simp at hp
  | none :: _, _, h, _, _, _, _, _, _ => by simp [posOk] at h
  | some _ :: _, [], h, _, _, _, _, _, _ => by simp [posOk] at h
  | some p0 :: r, a0 :: as, h, i, a, p, ha, hnv, hp => by
      simp only [posOk, Bool.and_eq_true] at h
      cases i with
      | zero =>
          simp at ha hp
          subst ha; subst hp
          simpa [hnv] using h.1
      | succ j =>
          simp at ha hp
          exact posOk_spec L r as h.2 j a p ha hnv (by simpa using hp)

/-- every argument that is present - in particular a constant, whose value is known before
    evaluation - has passed the `check` of the parameter it is bound to when `map_args` succeeds:
    a constant of the wrong type removes the candidate in the first pass, i.e. before the
    laziness comparison (rule 4) -/
theorem constants_prechecked (L : Lattice) (ps : List Param) (args : List Arg) (kw : KwArgs) (m : Mapping)
    (h : mapArgs L ps args kw = some m) (i : Nat) (a : Arg) (p : Param)
    (ha : args[i]? = some a) (hnv : a.isNoValue = false) (hp : m.pos[i]? = some p) :
    check L p.ty a = true := by
  unfold mapArgs at h
  simp only at h
  split at h
  · cases h
  · rename_i st hst
    split at h
    · cases h
    · split at h
      · cases h
      · rename_i hpos
        split at h
        · cases h
        · cases h
          simp only [Bool.not_eq_true, Bool.not_eq_false'] at hpos
          exact posOk_spec L st.pos args hpos i a p ha hnv hp

/-! ### a skipped or missing argument needs a default -/

def RestSub (kw : KwArgs) (st : MapSt) : Prop := ∀ k, ahas k st.rest = true → ahas k kw = true

theorem ahas_adel {α : Type} (k k' : Name) (l : List (Name × α)) : ahas k (adel k' l) = true → ahas k l = true := by
  simp only [ahas, adel, List.any_eq_true, List.mem_filter]
  rintro ⟨x, ⟨hx, _⟩, hk⟩
  exact ⟨x, hx, hk⟩

theorem mapStep_restSub {ps : List Param} {args : List Arg} {kw : KwArgs} {st st' : MapSt} {p : Param}
    (hi : RestSub kw st) (h : mapStep ps args st p = some st') : RestSub kw st' := by
  have hdel : RestSub kw { st with kwd := aset p.argName p st.kwd, rest := adel p.argName st.rest } :=
    fun k hk => hi k (ahas_adel _ _ _ hk)
  unfold mapStep at h
  cases hq : p.position with
  | some q =>
      simp only [hq] at h
      split at h
      · cases h; exact hi
      · split at h
        · cases h; exact hi
        · split at h
          · split at h
            · cases h
            · cases h; exact hi
          · split at h
            · cases h; exact hdel
            · split at h
              · cases h
              · split at h
                · cases h; exact hi
                · cases h; exact hi
  | none =>
      simp only [hq] at h
      split at h
      · cases h; exact hi
      · split at h
        · cases h; exact hi
        · split at h
          · cases h; exact hdel
          · split at h
            · cases h
            · cases h; exact hi

theorem mapLoop_none_of_mem {ps : List Param} {args : List Arg} {kw : KwArgs} {p : Param}
    (hfail : ∀ st, RestSub kw st → mapStep ps args st p = none) :
    ∀ (l : List Param) (st : MapSt), p ∈ l → RestSub kw st → mapLoop ps args st l = none
  | [], _, hp, _ => by simp at hp
  | x :: r, st, hp, hi => by
      simp only [mapLoop]
      cases hs : mapStep ps args st x with
      | none => rfl
      | some st1 =>
          simp only
          rcases List.mem_cons.1 hp with rfl | hp
          · rw [hfail st hi] at hs; cases hs
          · exact mapLoop_none_of_mem hfail r st1 hp (mapStep_restSub hi hs)

/-- a visible positional parameter whose slot is empty (`f(1,,3)`) or missing, that is not given by
    keyword and has no default, makes the overload uncallable -/
theorem skipped_needs_default (L : Lattice) (ps : List Param) (args : List Arg) (kw : KwArgs)
    (p : Param) (hp : p ∈ ps) (q : Nat) (hq : p.position = some q) (hns : p.isStar = false)
    (hnh : p.hidden = false) (hskip : given args (q - fixAt ps q) = false)
    (hkw : ahas p.argName kw = false) (hd : p.default = none) :
    mapArgs L ps args kw = none := by
  have hfail : ∀ st, RestSub kw st → mapStep ps args st p = none := by
    intro st hi
    have hr : ahas p.argName st.rest = false := by
      cases h : ahas p.argName st.rest with
      | false => rfl
      | true => rw [hi _ h] at hkw; cases hkw
    simp [mapStep, hq, hns, hnh, hskip, hr, hd]
  unfold mapArgs
  simp only
  rw [mapLoop_none_of_mem hfail ps _ hp (fun k hk => hk)]

/-- the same for keyword-only parameters -/
theorem kwonly_needs_default (L : Lattice) (ps : List Param) (args : List Arg) (kw : KwArgs)
    (p : Param) (hp : p ∈ ps) (hq : p.position = none) (hns : p.isStarStar = false)
    (hnh : p.hidden = false) (hkw : ahas p.argName kw = false) (hd : p.default = none) :
    mapArgs L ps args kw = none := by
  have hfail : ∀ st, RestSub kw st → mapStep ps args st p = none := by
    intro st hi
    have hr : ahas p.argName st.rest = false := by
      cases h : ahas p.argName st.rest with
      | false => rfl
      | true => rw [hi _ h] at hkw; cases hkw
    simp [mapStep, hq, hns, hnh, hr, hd]
  unfold mapArgs
  simp only
  rw [mapLoop_none_of_mem hfail ps _ hp (fun k hk => hk)]

/-! ### arguments beyond the visible positional parameters go to `*` -/

def TailKept (n : Nat) (init : List (Option Param)) (st : MapSt) : Prop :=
  st.pos.length = init.length ∧ ∀ i, n ≤ i → st.pos[i]? = init[i]?

theorem mapStep_tailKept {ps : List Param} {args : List Arg} {n : Nat} {init : List (Option Param)}
    {st st' : MapSt} {p : Param}
    (hslot : ∀ q, p.position = some q → p.isStar = false → p.hidden = false → q - fixAt ps q < n)
    (hi : TailKept n init st) (h : mapStep ps args st p = some st') : TailKept n init st' := by
  have hset : ∀ q, p.position = some q → p.isStar = false → p.hidden = false →
      TailKept n init { st with pos := st.pos.set (q - fixAt ps q) (some p) } := by
    intro q h1 h2 h3
    refine ⟨by simpa using hi.1, fun i hi' => ?_⟩
    have : q - fixAt ps q ≠ i := by have := hslot q h1 h2 h3; omega
    simp only [List.getElem?_set_ne this]
    exact hi.2 i hi'
  have hkw : TailKept n init { st with kwd := aset p.argName p st.kwd, rest := adel p.argName st.rest } := hi
  unfold mapStep at h
  cases hq : p.position with
  | some q =>
      simp only [hq] at h
      split at h
      · cases h; exact hi
      · rename_i hs
        split at h
        · cases h; exact hi
        · rename_i hh
          have hs' : p.isStar = false := by simpa using hs
          have hh' : p.hidden = false := by simpa using hh
          split at h
          · split at h
            · cases h
            · cases h; exact hset q hq hs' hh'
          · split at h
            · cases h; exact hkw
            · split at h
              · cases h
              · split at h
                · cases h; exact hset q hq hs' hh'
                · cases h; exact hi
  | none =>
      simp only [hq] at h
      split at h
      · cases h; exact hi
      · split at h
        · cases h; exact hi
        · split at h
          · cases h; exact hkw
          · split at h
            · cases h
            · cases h; exact hi

theorem mapLoop_tailKept {ps : List Param} {args : List Arg} {n : Nat} {init : List (Option Param)} :
    ∀ (l : List Param) (st st' : MapSt),
      (∀ p ∈ l, ∀ q, p.position = some q → p.isStar = false → p.hidden = false → q - fixAt ps q < n) →
      TailKept n init st → mapLoop ps args st l = some st' → TailKept n init st'
  | [], st, st', _, hi, h => by simp [mapLoop] at h; cases h; exact hi
  | p :: r, st, st', hl, hi, h => by
      simp only [mapLoop] at h
      cases hs : mapStep ps args st p with
      | none => simp [hs] at h
      | some st1 =>
          simp only [hs] at h
          exact mapLoop_tailKept r st1 st' (fun x hx => hl x (by simp [hx]))
            (mapStep_tailKept (hl p (by simp)) hi hs) h

theorem posOk_all_some (L : Lattice) : ∀ (pos : List (Option Param)) (args : List Arg), posOk L pos args = true →
    pos = (pos.filterMap id).map some
  | [], _, _ => rfl
  | none :: _, _, h => by simp [posOk] at h
  | some _ :: _, [], h => by simp [posOk] at h
  | some p0 :: r, a0 :: as, h => by
      simp only [posOk, Bool.and_eq_true] at h
      have := posOk_all_some L r as h.2
      simp only [List.filterMap_cons, id, List.map_cons]
      rw [← this]

/-- if the slots of the visible positional parameters are all below `n`, every argument from
    position `n` on is bound to the `*` parameter (so there must be one) -/
theorem star_absorbs (L : Lattice) (ps : List Param) (args : List Arg) (kw : KwArgs) (m : Mapping) (n : Nat)
    (hslots : ∀ p ∈ ps, ∀ q, p.position = some q → p.isStar = false → p.hidden = false → q - fixAt ps q < n)
    (h : mapArgs L ps args kw = some m) (i : Nat) (hn : n ≤ i) (hi : i < args.length) :
    ∃ sp, starParam ps = some sp ∧ m.pos[i]? = some sp := by
  unfold mapArgs at h
  simp only at h
  split at h
  · cases h
  · rename_i st hst
    have hk := mapLoop_tailKept (n := n) (init := List.replicate args.length (starParam ps)) ps _ st hslots
      ⟨rfl, fun _ _ => rfl⟩ hst
    split at h
    · cases h
    · split at h
      · cases h
      · rename_i hpos
        split at h
        · cases h
        · cases h
          simp only [Bool.not_eq_true, Bool.not_eq_false'] at hpos
          have hall := posOk_all_some L st.pos args hpos
          have h1 : st.pos[i]? = some (starParam ps) := by
            rw [hk.2 i hn]; simp [hi]
          rw [hall] at h1
          simp only [List.getElem?_map] at h1
          cases hm : (st.pos.filterMap id)[i]? with
          | none => simp [hm] at h1
          | some sp =>
              simp only [hm, Option.map_some, Option.some.injEq] at h1
              exact ⟨sp, h1.symm, rfl⟩

/-! ### hidden parameters are transparent -/

def shiftPos (q r : Nat) : Nat := if q ≤ r then r + 1 else r

/-- what `insert_parameter` does to the other parameters -/
def shift (q : Nat) (p : Param) : Param := { p with position := p.position.map (shiftPos q) }

/-- `FunctionDefinition.insert_parameter` of a hidden positional parameter `h` at position `q` -/
def insertHidden (ps : List Param) (q : Nat) (h : Param) : List Param := ps.map (shift q) ++ [h]

def shiftMapping (q : Nat) (m : Mapping) : Mapping :=
  { pos := m.pos.map (shift q), kwd := m.kwd.map fun x => (x.1, shift q x.2) }

def shiftSt (q : Nat) (st : MapSt) : MapSt :=
  { pos := st.pos.map (Option.map (shift q)), kwd := st.kwd.map (fun x => (x.1, shift q x.2)), rest := st.rest }

theorem shiftPos_lt (q a b : Nat) : shiftPos q a < shiftPos q b ↔ a < b := by
  unfold shiftPos; split <;> split <;> omega

theorem fixAt_insertHidden (ps : List Param) (q : Nat) (h : Param) (hq : h.position = some q)
    (hh : h.hidden = true) (r : Nat) :
    fixAt (insertHidden ps q h) (shiftPos q r) = fixAt ps r + (if q ≤ r then 1 else 0) := by
  have h1 : ((ps.map (shift q)).filter fun p => p.hidden &&
      (match p.position with | some x => decide (x < shiftPos q r) | none => false)).length =
      (ps.filter fun p => p.hidden && (match p.position with | some x => decide (x < r) | none => false)).length := by
    rw [List.filter_map, List.length_map]
    congr 1
    apply List.filter_congr
    intro p _
    simp only [Function.comp, shift, Param.hidden]
    cases p.position with
    | none => rfl
    | some x => simp [shiftPos_lt]
  simp only [fixAt, insertHidden, List.filter_append, List.length_append, h1]
  congr 1
  have h2 : decide (q < shiftPos q r) = decide (q ≤ r) := by
    unfold shiftPos; split <;> simp <;> omega
  simp only [List.filter_cons, hh, hq, Bool.true_and, List.filter_nil, h2]
  by_cases hqr : q ≤ r <;> simp [hqr]

theorem slot_insertHidden (ps : List Param) (q : Nat) (h : Param) (hq : h.position = some q)
    (hh : h.hidden = true) (r : Nat) :
    shiftPos q r - fixAt (insertHidden ps q h) (shiftPos q r) = r - fixAt ps r := by
  rw [fixAt_insertHidden ps q h hq hh]
  unfold shiftPos
  split <;> omega

theorem map_aset {α β : Type} (f : α → β) (k : Name) (v : α) : ∀ (l : List (Name × α)),
    (aset k v l).map (fun x => (x.1, f x.2)) = aset k (f v) (l.map fun x => (x.1, f x.2))
  | [] => rfl
  | (k', v') :: r => by
      simp only [aset, List.map_cons]
      split
      · rfl
      · simp [map_aset f k v r]

theorem mapStep_shift (ps : List Param) (args : List Arg) (q : Nat) (h : Param) (hq : h.position = some q)
    (hh : h.hidden = true) (st : MapSt) (p : Param) :
    mapStep (insertHidden ps q h) args (shiftSt q st) (shift q p) = (mapStep ps args st p).map (shiftSt q) := by
  have e1 : (shift q p).argName = p.argName := rfl
  have e2 : (shift q p).hidden = p.hidden := rfl
  have e3 : (shift q p).isStar = p.isStar := rfl
  have e4 : (shift q p).isStarStar = p.isStarStar := rfl
  have e5 : (shift q p).default = p.default := rfl
  have e6 : (shiftSt q st).rest = st.rest := rfl
  have hset : ∀ i, ({ shiftSt q st with pos := (shiftSt q st).pos.set i (some (shift q p)) } : MapSt) =
      shiftSt q { st with pos := st.pos.set i (some p) } := by
    intro i; simp [shiftSt, List.map_set]
  have hkw : ({ shiftSt q st with kwd := aset p.argName (shift q p) (shiftSt q st).kwd,
                                  rest := adel p.argName (shiftSt q st).rest } : MapSt) =
      shiftSt q { st with kwd := aset p.argName p st.kwd, rest := adel p.argName st.rest } := by
    simp [shiftSt, map_aset]
  unfold mapStep
  simp only [e1, e2, e3, e4, e5, e6]
  cases hp : p.position with
  | none =>
      have : (shift q p).position = none := by simp [shift, hp]
      simp only [this]
      split
      · rfl
      · split
        · rfl
        · split
          · simp [shiftSt, map_aset]
          · split <;> rfl
  | some r =>
      have : (shift q p).position = some (shiftPos q r) := by simp [shift, hp]
      simp only [this, slot_insertHidden ps q h hq hh]
      split
      · rfl
      · split
        · rfl
        · split
          · split
            · rfl
            · simp [shiftSt, List.map_set]
          · split
            · simp [shiftSt, map_aset]
            · split
              · rfl
              · split
                · simp [shiftSt, List.map_set]
                · rfl

theorem mapLoop_shift (ps : List Param) (args : List Arg) (q : Nat) (h : Param) (hq : h.position = some q)
    (hh : h.hidden = true) : ∀ (l : List Param) (st : MapSt),
    mapLoop (insertHidden ps q h) args (shiftSt q st) (l.map (shift q)) =
      (mapLoop ps args st l).map (shiftSt q)
  | [], st => rfl
  | p :: r, st => by
      simp only [List.map_cons, mapLoop, mapStep_shift ps args q h hq hh]
      cases mapStep ps args st p with
      | none => rfl
      | some st1 => exact mapLoop_shift ps args q h hq hh r st1

theorem mapLoop_append (ps : List Param) (args : List Arg) : ∀ (l1 l2 : List Param) (st : MapSt),
    mapLoop ps args st (l1 ++ l2) = (mapLoop ps args st l1).bind fun st' => mapLoop ps args st' l2
  | [], l2, st => rfl
  | p :: r, l2, st => by
      simp only [List.cons_append, mapLoop]
      cases mapStep ps args st p with
      | none => rfl
      | some st1 => exact mapLoop_append ps args r l2 st1

theorem posOk_shift (L : Lattice) (q : Nat) : ∀ (pos : List (Option Param)) (args : List Arg),
    posOk L (pos.map (Option.map (shift q))) args = posOk L pos args
  | [], _ => rfl
  | none :: _, _ => rfl
  | some _ :: _, [] => rfl
  | some p :: r, a :: as => by
      simp only [List.map_cons, Option.map_some, posOk, posOk_shift L q r as]
      rfl

theorem alookup_map {α β : Type} (f : α → β) (k : Name) : ∀ (l : List (Name × α)),
    alookup k (l.map fun x => (x.1, f x.2)) = (alookup k l).map f
  | [] => rfl
  | (k', v) :: r => by
      simp only [List.map_cons, alookup]
      split
      · rfl
      · exact alookup_map f k r

theorem foldl_aset_shift (q : Nat) (sp : Param) : ∀ (rest : KwArgs) (kwd : List (Name × Param)),
    rest.foldl (fun acc kv => aset kv.1 (shift q sp) acc) (kwd.map fun x => (x.1, shift q x.2)) =
      (rest.foldl (fun acc kv => aset kv.1 sp acc) kwd).map fun x => (x.1, shift q x.2)
  | [], _ => rfl
  | kv :: r, kwd => by
      simp only [List.foldl_cons, ← map_aset]
      exact foldl_aset_shift q sp r _

theorem checkOpt_shift (L : Lattice) (q : Nat) (o : Option Param) (v : Arg) :
    checkOpt L (Option.map (shift q) o) v = checkOpt L o v := by
  cases o <;> rfl

theorem find?_insertHidden (ps : List Param) (q : Nat) (h : Param) (f : Param → Bool)
    (hf : ∀ p, f (shift q p) = f p) (hh : f h = false) :
    (insertHidden ps q h).find? f = (ps.find? f).map (shift q) := by
  simp only [insertHidden, List.find?_append, List.find?_map]
  have : (f ∘ shift q) = f := funext hf
  rw [this]
  cases ps.find? f with
  | none => simp [hh]
  | some x => rfl

/-- injecting a hidden parameter at any position changes neither which calls map nor what every
    argument is bound to (the visible parameters only move one position up) -/
theorem hidden_transparent (L : Lattice) (ps : List Param) (args : List Arg) (kw : KwArgs) (q : Nat) (h : Param)
    (hq : h.position = some q) (hh : h.hidden = true) (hs : h.isStar = false) (hss : h.isStarStar = false) :
    mapArgs L (insertHidden ps q h) args kw = (mapArgs L ps args kw).map (shiftMapping q) := by
  have hstar : starParam (insertHidden ps q h) = (starParam ps).map (shift q) :=
    find?_insertHidden ps q h _ (fun _ => rfl) hs
  have hstst : starStarParam (insertHidden ps q h) = (starStarParam ps).map (shift q) :=
    find?_insertHidden ps q h _ (fun _ => rfl) hss
  have hinit : ({ pos := List.replicate args.length (starParam (insertHidden ps q h)), kwd := [], rest := kw } : MapSt) =
      shiftSt q { pos := List.replicate args.length (starParam ps), kwd := [], rest := kw } := by
    simp [shiftSt, hstar]
  have hlast : ∀ st, mapLoop (insertHidden ps q h) args st [h] = some st := by
    intro st; simp [mapLoop, mapStep, hq, hs, hh]
  have hloop : mapLoop (insertHidden ps q h) args
      { pos := List.replicate args.length (starParam (insertHidden ps q h)), kwd := [], rest := kw }
      (insertHidden ps q h) =
      (mapLoop ps args { pos := List.replicate args.length (starParam ps), kwd := [], rest := kw } ps).map (shiftSt q) := by
    rw [hinit]
    conv => lhs; arg 4; unfold insertHidden
    rw [mapLoop_append, mapLoop_shift ps args q h hq hh]
    cases mapLoop ps args { pos := List.replicate args.length (starParam ps), kwd := [], rest := kw } ps with
    | none => rfl
    | some st => simp [hlast]
  unfold mapArgs
  simp only [hloop]
  cases mapLoop ps args { pos := List.replicate args.length (starParam ps), kwd := [], rest := kw } ps with
  | none => rfl
  | some st =>
      simp only [Option.map_some, hstst]
      have hrest : (shiftSt q st).rest = st.rest := rfl
      have hkwd : (shiftSt q st).kwd = st.kwd.map fun x => (x.1, shift q x.2) := rfl
      have hpos : (shiftSt q st).pos = st.pos.map (Option.map (shift q)) := rfl
      simp only [hrest, hkwd, hpos, posOk_shift]
      have hfin : ∀ kwd : List (Name × Param),
          ({ pos := (st.pos.map (Option.map (shift q))).filterMap id,
             kwd := kw.filterMap fun kv => (Option.map (shift q) (alookup kv.1 kwd)).map fun p => (kv.1, p) } : Mapping) =
          shiftMapping q { pos := st.pos.filterMap id,
                           kwd := kw.filterMap fun kv => (alookup kv.1 kwd).map fun p => (kv.1, p) } := by
        intro kwd
        simp only [shiftMapping, List.map_filterMap, List.filterMap_map]
        congr 2
        all_goals first
          | (funext kv; simp only [Option.map_map]; rfl)
          | (funext x; cases x <;> rfl)
      by_cases hre : st.rest.isEmpty
      · simp only [hre, if_true, alookup_map, checkOpt_shift, hfin]
        split
        · rfl
        · rename_i h1
          split
          · rfl
          · rfl
      · simp only [hre, Bool.false_eq_true, if_false]
        cases starStarParam ps with
        | none => rfl
        | some sp =>
            simp only [Option.map_some, foldl_aset_shift, alookup_map, checkOpt_shift, hfin]
            split
            · rfl
            · rename_i h1
              split
              · rfl
              · rfl

/-! ## concrete instances (non-vacuity of the hypotheses, and the rules at work) -/

namespace Ex

/-- classes: 0 object, 1 Base, 2 L, 3 R, 4 D (Base > L, R > D), 5 str, 6 int, 7 marker -/
def subPairs : List (Nat × Nat) :=
  [(0,0),(1,1),(2,2),(3,3),(4,4),(5,5),(6,6),(7,7),(1,0),(2,0),(3,0),(4,0),(5,0),(6,0),(7,0),
   (2,1),(3,1),(4,1),(4,2),(4,3)]
def lat : Lattice := { sub := fun a b => subPairs.contains (a, b), marker := .obj 7 [] 0 }

def pos (n : Char) (i : Nat) (ty : PTy) : Param :=
  { key := .name [n], name := [n], alias := none, position := some i, default := none, ty := ty }
def cls (c : Nat) : PTy := .py (.one c) false []
def fn (id : Nat) (ps : List Param) : FDef :=
  { id := id, isFunction := true, isMethod := false, noKwargs := false, params := ps }

def dVal : Val := .obj 4 [] 1
def tick (p : Nat) : Arg := .expr 2 p true dVal

/-- `A(D, D)`, `B(L, Base)`, `C(Base, R)` in one layer -/
def famABC : List Layer :=
  [{ fns := [fn 0 [pos 'a' 0 (cls 4), pos 'b' 1 (cls 4)], fn 1 [pos 'a' 0 (cls 2), pos 'b' 1 (cls 1)],
             fn 2 [pos 'a' 0 (cls 1), pos 'b' 1 (cls 3)]], exclusive := false }]

def callXX : Call := { receiver := none, args := [tick 1, tick 2], kwargs := [] }

/-- `A` is more specific than the mutually incomparable `B` and `C`: it wins, and both arguments
    were evaluated once, in order -/
example : (resolve lat famABC callXX).log = [1, 2] ∧
    (resolve lat famABC callXX).res =
      .ok (0, { pos := [some (.arg (.value dVal)), some (.arg (.value dVal))], extra := [], kw := [] }) := by
  decide

/-- without `A` the call is ambiguous -/
example : (resolve lat [{ fns := (famABC.head!).fns.tail, exclusive := false }] callXX).res = .error .ambiguous := by
  decide

/-- `P(x: Lambda)` and `Q(x: String)`: a constant of the wrong type removes `Q` before the laziness
    comparison, so `f(1)` resolves to `P`; with an expression in its place the two disagree on
    laziness and the call is ambiguous -/
def famPQ : List Layer :=
  [{ fns := [fn 0 [pos 'x' 0 (.lambda false)], fn 1 [pos 'x' 0 (cls 5)]], exclusive := false }]

example : (resolve lat famPQ { receiver := none, args := [.const (.obj 6 [] 2) .num none 0], kwargs := [] }).res =
    .ok (0, { pos := [some (.arg (.const (.obj 6 [] 2) .num none 0))], extra := [], kw := [] }) := by decide

example : (resolve lat famPQ { receiver := none, args := [tick 1], kwargs := [] }).res = .error .ambiguous := by decide

/-- (as implemented) a constant passed by keyword is not looked at before the laziness comparison -/
def callKwConst : Call :=
  { receiver := none
    args := [Arg.mapRule (.const (.obj 5 [] 3) .str (some ['x']) 1) (.const (.obj 6 [] 2) .num none 0) Val.none 5]
    kwargs := [] }

example : (resolve lat famPQ callKwConst).res = .error .ambiguous := by decide

/-- a nearer layer wins even if a farther one has a more specific overload; an exclusive layer hides
    what lies behind it -/
def famLayers (excl : Bool) : List Layer :=
  [{ fns := [], exclusive := false },
   { fns := [fn 0 [pos 'a' 0 (cls 1)]], exclusive := excl },
   { fns := [fn 1 [pos 'a' 0 (cls 4)], fn 2 [pos 'a' 0 (cls 5)]], exclusive := false }]

example : (resolve lat (famLayers false) { receiver := none, args := [tick 1], kwargs := [] }).res =
    .ok (0, { pos := [some (.arg (.value dVal))], extra := [], kw := [] }) := by decide

example : (resolve lat (famLayers false)
    { receiver := none, args := [.const (.obj 5 [] 3) .str none 0], kwargs := [] }).res =
    .ok (2, { pos := [some (.arg (.const (.obj 5 [] 3) .str none 0))], extra := [], kw := [] }) := by decide

example : (resolve lat (famLayers true)
    { receiver := none, args := [.const (.obj 5 [] 3) .str none 0], kwargs := [] }).res = .error .noMatching := by decide

example : (resolve lat (famLayers true) { receiver := some dVal, args := [], kwargs := [] }).res = .error .unknown := by
  decide

/-- hypotheses of `hidden_transparent` / `skipped_needs_default` / `star_absorbs` are satisfiable -/
def hiddenCtx : Param :=
  { key := .name ['h'], name := ['h'], alias := none, position := some 1, default := none, ty := .hidden .context }

example : (mapArgs lat (insertHidden [pos 'a' 0 (cls 4), pos 'b' 1 (cls 1)] 1 hiddenCtx) [tick 1, tick 2] []).isSome = true := by
  decide

example : mapArgs lat [pos 'a' 0 (cls 4), pos 'b' 1 (cls 1)] [.noValue, tick 2] [] = none := by decide

def starP : Param :=
  { key := .star, name := ['r'], alias := none, position := some 1, default := none, ty := cls 1 }

example : (mapArgs lat [pos 'a' 0 (cls 4), starP] [tick 1, tick 2, tick 3] []).map (·.pos.map (·.name)) =
    some [['a'], ['r'], ['r']] := by decide

end Ex

end Yaql.Props.C05
