import Yaql.Props.EvalStore
import Yaql.Props.C09Ctx
import Yaql.Props.C09Eval
/-!
C09 x the store-passing evaluator (`Model/EvalStore.lean`): the hypotheses `Local` / `Disciplined` of
`Props/C09Ctx.lean` discharged for an evaluator that really allocates and writes context cells.

`Props/C09Eval.lean` embedded C04's evaluator, whose contexts are immutable frame chains: its write trace on the
host's store is empty *by representation*.  Here the evaluator is `EvalStore.callS` (`Statement.__call__`:
`#finalize(expression)`): started on the store read off the host's chain (`hostCells`: one mutable cell per plain
context, root first, the context handed to `evaluate` last) it allocates a context per function call and writes
`$1..$n`, `let` / `with` / `unpack` bindings and `def` closures into them.  Its log, translated entry by entry into
the context-API steps of `Model/Effects.lean` (`stepOf`: context ID -> frame number, 0 = the handed context, the
`j`-th allocation = frame `j`), is the statement's trace:

* `stmtOfEvalS_disciplined` is `EvalStore.writes_fresh` - no step of the trace writes through frame 0;
* `stmtOfEvalS_local`: the outcome is a function of the cells reachable from the context;

so `C09_full` holds for it (`evalS_C09_full`) and `frame` / `only_dollar` / `only_dollar_reads` / `reeval_pool`
apply with **no hypothesis left** (`evalS_context_frame`, `evalS_only_dollar`, `evalS_only_dollar_reads`,
`evalS_reeval_pool`), for every expression of the fragment, every fuel, every store and host chain.
Domain of the embedding as in `C09Eval`: chains of plain contexts holding ints / None (C17's value domain; other
values written by the evaluator are projected to None in the C17 trace, they only ever go to fresh cells);
a multi / linked host context reads as an empty root.
-/
namespace Yaql.Props.C09
open Yaql.Context Yaql.Effects

mutual
/-- the host's chain as a store of mutable cells: root first, the context itself last; parent = the cell before -/
def hostCells (cs : Cells) : Shape → List Yaql.EvalStore.Cell
  | .plain c p =>
      hostCellsO cs p ++ [{ data := (cs.get c).data.map fun nv => (nv.1, valOf nv.2),
                            parent := if (hostCellsO cs p).isEmpty then none else some ((hostCellsO cs p).length - 1) }]
  | .multi _ _ => [{}]
  | .linked _ _ => [{}]
def hostCellsO (cs : Cells) : Option Shape → List Yaql.EvalStore.Cell
  | none => []
  | some s => hostCells cs s
end

mutual
theorem hostCells_congr (cs cs' : Cells) : ∀ (s : Shape), (∀ c ∈ cellsOf s, cs.get c = cs'.get c) →
    hostCells cs s = hostCells cs' s
  | .plain c p, h => by
      simp only [hostCells]
      rw [h c (by simp [cellsOf]), hostCellsO_congr cs cs' p (fun c hc => h c (by simp [cellsOf, hc]))]
  | .multi _ _, _ => rfl
  | .linked _ _, _ => rfl
theorem hostCellsO_congr (cs cs' : Cells) : ∀ (p : Option Shape), (∀ c ∈ cellsOfO p, cs.get c = cs'.get c) →
    hostCellsO cs p = hostCellsO cs' p
  | none, _ => rfl
  | some s, h => by
      simp only [hostCellsO]
      exact hostCells_congr cs cs' s (fun c hc => h c (by simpa [cellsOfO] using hc))
end

/-- a value as C17's cells store it -/
def valProj : Yaql.Value → Val
  | .int i => some i
  | _ => none

/-- context ID -> frame number of `Model/Effects.lean`: the `k` host cells are frame 0 (only the last of them, the
    handed context, is ever referred to), the `j`-th context allocated by the evaluation is frame `j` -/
def frameOf (k i : Nat) : Nat := if i < k then 0 else i - k + 1

def stepOf (k : Nat) : Yaql.EvalStore.Entry → Step
  | .alloc _ p => .child (frameOf k p)
  | .set c n v => .set (frameOf k c) n (valProj v)
  | .reg c f _ _ => .reg (frameOf k c) f 0 false

/-- the state `Statement.__call__` starts in: the host's chain as cells, an empty log -/
def startOf (cs : Cells) (s : Shape) : Yaql.EvalStore.St := { cells := hostCells cs s, log := [] }

/-- `engine(text)` for an expression of the C04 fragment evaluated by the store-passing evaluator: its trace of
    context-API calls and its finalised result -/
def stmtOfEvalS (fuel : Nat) (e : Yaql.Eval.Expr) : Stmt (Yaql.Eval.R Yaql.Eval.Final) where
  prog cs s :=
    let r := Yaql.EvalStore.callS fuel ((hostCells cs s).length - 1) e (startOf cs s)
    (r.2.log.map (stepOf (hostCells cs s).length), r.1)

theorem stmtOfEvalS_local (fuel : Nat) (e : Yaql.Eval.Expr) : (stmtOfEvalS fuel e).Local := by
  intro cs cs' s h
  simp only [stmtOfEvalS, startOf]
  rw [hostCells_congr cs cs' s h]

/-- the discipline, from `EvalStore.writes_fresh`: every write of the evaluation targets a context it allocated -/
theorem stmtOfEvalS_disciplined (fuel : Nat) (e : Yaql.Eval.Expr) : (stmtOfEvalS fuel e).Disciplined := by
  intro cs s x hx
  simp only [stmtOfEvalS, List.mem_map] at hx
  obtain ⟨en, hen, rfl⟩ := hx
  obtain ⟨d, hd, hfresh⟩ := (Yaql.Props.EvalStore.Sat.callS fuel ((hostCells cs s).length - 1) e).fresh (startOf cs s)
  have hlog : (startOf cs s).log = [] := rfl
  have hlen : (startOf cs s).cells.length = (hostCells cs s).length := rfl
  rw [hlog, List.nil_append] at hd
  rw [hlen] at hfresh
  rw [hd] at hen
  cases en with
  | alloc i p => simp [stepOf, Step.target]
  | set c n v =>
      have := hfresh _ hen c rfl
      simp only [stepOf, Step.target, ne_eq, Option.some.injEq, frameOf]
      split <;> omega
  | reg c f b cap =>
      have := hfresh _ hen c rfl
      simp only [stepOf, Step.target, ne_eq, Option.some.injEq, frameOf]
      split <;> omega

/-- **C09.evalS_C09_full**: the full context clause holds for the store-passing evaluator - every expression,
    every fuel -/
theorem evalS_C09_full (fuel : Nat) : C09_full (stmtOfEvalS fuel) :=
  fun e => ⟨stmtOfEvalS_local fuel e, stmtOfEvalS_disciplined fuel e⟩

/-- **C09.evalS_context_frame** (`frame` without hypotheses): replaying the evaluator's trace on the host's store
    leaves every existing cell as it was -/
theorem evalS_context_frame (fuel : Nat) (e : Yaql.Eval.Expr) (cs : Cells) (s : Shape) :
    cs.length ≤ (run ⟨cs, [s]⟩ ((stmtOfEvalS fuel e).prog cs s).1).cells.length ∧
    ∀ c < cs.length, (run ⟨cs, [s]⟩ ((stmtOfEvalS fuel e).prog cs s).1).cells.get c = cs.get c :=
  context_frame cs s _ (stmtOfEvalS_disciplined fuel e cs s)

/-- **C09.evalS_only_dollar** (`only_dollar` without hypotheses): `statement.evaluate(data, context)` with the
    store-passing evaluator's trace as body - any store, any context shape, with or without data, with or without
    the `#finalize` wrapper: the store differs from the one before in the `$` binding only -/
theorem evalS_only_dollar (fuel : Nat) (e : Yaql.Eval.Expr) (cs cs1 : Cells) (s : Shape) (bound : Option Val) (fin : Fid) :
    let body := ((stmtOfEvalS fuel e).prog cs1 s).1
    cs.length ≤ (evaluate cs s bound fin body).length ∧
    (∀ c < cs.length, writeCell s ≠ some c → (evaluate cs s bound fin body).get c = cs.get c) ∧
    (bound = none → ∀ c < cs.length, (evaluate cs s bound fin body).get c = cs.get c) ∧
    (∀ v w, bound = some v → writeCell s = some w → w < cs.length →
      (evaluate cs s bound fin body).get w =
        { cs.get w with data := aset (normName dollar) v (cs.get w).data }) :=
  only_dollar cs s bound fin _ (stmtOfEvalS_disciplined fuel e cs1 s)

/-- **C09.evalS_only_dollar_reads**: ... and seen through the context API from any context of the host's forest -/
theorem evalS_only_dollar_reads (fuel : Nat) (e : Yaql.Eval.Expr) (cs cs1 : Cells) (s : Shape) (bound : Option Val)
    (fin : Fid) (t : Shape) (ht : ∀ c ∈ cellsOf t, c < cs.length) :
    let body := ((stmtOfEvalS fuel e).prog cs1 s).1
    (∀ name, normName name ≠ normName dollar →
      getData (evaluate cs s bound fin body) t name = getData cs t name ∧
      containsName (evaluate cs s bound fin body) t name = containsName cs t name) ∧
    (∀ f, collectFunctions (evaluate cs s bound fin body) t f = collectFunctions cs t f) ∧
    (∀ f, getFunctions (evaluate cs s bound fin body) f t = getFunctions cs f t) :=
  only_dollar_reads cs s bound fin _ (stmtOfEvalS_disciplined fuel e cs1 s) t ht

/-- **C09.evalS_reeval_pool** (`reeval_pool` without hypotheses): expressions of the core fragment evaluated by the
    store-passing evaluator in any order, any number of times, with any data against one shared chain of plain host
    contexts: every existing cell ends up as `context['$'] = v` alone leaves it, and every evaluation returns what
    it returns alone on the initial store. -/
theorem evalS_reeval_pool (fuel : Nat) (cs : Cells) (s : Shape) (hs : ∀ c ∈ cellsOf s, c < cs.length) :
    (∀ (e : Yaql.Eval.Expr) (v : Val) (c : Nat), c < cs.length →
        (evalStmt cs s (stmtOfEvalS fuel e) v).1.get c = (setData cs s dollar v).get c) ∧
    (∀ pool : List (Yaql.Eval.Expr × Val),
        (runPool s cs (pool.map fun p => (stmtOfEvalS fuel p.1, p.2))).2
          = pool.map fun p => (evalStmt cs s (stmtOfEvalS fuel p.1) p.2).2) :=
  context_clause_partial (stmtOfEvalS fuel) (evalS_C09_full fuel) cs s hs

/-! ### non-vacuity -/

/-- `let(x => $) -> $x` -/
def exLet : Yaql.Eval.Expr := .arrow (.call .let_ [] [(.kw ['x'], .var ['$'])]) (.var ['$', 'x'])

-- the trace is not empty: five contexts are created (`$`, `let`, `->`, `$x`, `#finalize`), `$x` is written to the
-- second of them (frame 2) - never through frame 0
example :
    let cs : Cells := [{ data := [(['$', 'y'], some 1), (['$', '1'], some 5)] }, {}]
    let s : Shape := .plain 0 (some (.plain 1 none))
    ((stmtOfEvalS 8 exLet).prog cs s).1.map (fun st => (st.target, match st with | .child p => p | _ => 99))
      = [(none, 0), (none, 0), (some 2, 99), (none, 0), (none, 2), (none, 0)] := by
  rfl

-- a two-layer host chain, data 5 then 7 then 5: results 5, 7, 5; the host's cells keep `y`, only `$1` differs,
-- and the contexts the evaluations created pile up behind them
example :
    let cs : Cells := [{ data := [(['$', 'y'], some 1)] }, {}]
    let s : Shape := .plain 0 (some (.plain 1 none))
    ((runPool s cs [(stmtOfEvalS 8 exLet, some 5), (stmtOfEvalS 8 exLet, some 7), (stmtOfEvalS 8 exLet, some 5)]).2.map
        fun r => match r with | .ok (.data (.int i)) => some i | _ => none) = [some 5, some 7, some 5] ∧
    ((runPool s cs [(stmtOfEvalS 8 exLet, some 5), (stmtOfEvalS 8 exLet, some 7)]).1.get 0).data
      = [(['$', 'y'], some 1), (['$', '1'], some 7)] ∧
    (runPool s cs [(stmtOfEvalS 8 exLet, some 5), (stmtOfEvalS 8 exLet, some 7)]).1.length = 12 := by
  refine ⟨rfl, rfl, rfl⟩

end Yaql.Props.C09
