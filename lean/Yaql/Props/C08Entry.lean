import Yaql.Props.C08
import Yaql.Model.Entry
/-!
C08, result clause, over every public entry point (`Model/Entry.lean`): whatever way a result is handed to the host -
`evaluate`, `YaqlInterface.__call__`, the attribute-call stubs with and without `on(receiver)` - it has gone through the
whole finaliser, so no collection with more than N elements is left at ANY depth; limiting the top level only does not
give that.
-/
namespace Yaql.Props.C08
open Yaql.Convert Yaql.Entry

/-- **every entry point bounds the whole result**: what `deliver` hands to the host holds no collection with more than
    `N` elements at any depth -/
theorem entry_bounded (e : Entry) (o : Opts) (N : Nat) (r v : Py) (h : deliver e o (some N) r = .ok v) :
    C10.bounded (some N) v = true :=
  finalize_bounded o N r v h

/-- .. and a raw result with an oversized collection anywhere (also below the top level of an iterator a library
    function returned) is refused by every entry point -/
theorem entry_refuses (e : Entry) (o : Opts) (N : Nat) (r : Py) (h : C10.bounded (some N) r = false) :
    ∀ v, deliver e o (some N) r ≠ .ok v :=
  finalize_refuses o N r h

/-- a function called through an entry point: whatever it computes from the (converted) arguments, the host sees a
    bounded value or an exception -/
theorem entry_call_bounded (e : Entry) (o : Opts) (N : Nat) (f : Py → Py) (x v : Py) (h : call e o (some N) f x = .ok v) :
    C10.bounded (some N) v = true :=
  entry_bounded e o N _ v h

/-- the entry points do not differ in what they let through -/
theorem entries_agree (e e' : Entry) (o : Opts) (lim : Limit) (r : Py) : deliver e o lim r = deliver e' o lim r := rfl

/-- limiting the top level only is NOT enough: an iterator of two 3-element lists passes a top-level limit of 2 with its
    oversized elements, the finaliser refuses it -/
theorem top_level_limit_not_enough :
    ∃ r, limitTop (some 2) r = .ok r ∧ C10.bounded (some 2) r = false ∧ ∀ e o, deliver e o (some 2) r = .error .tooLarge :=
  ⟨.seq .iter [.seq .tuple [.sc .null, .sc .null, .sc .null], .seq .tuple [.sc .null, .sc .null, .sc .null]],
   rfl, rfl, fun _ o => by cases o with | mk a b => cases a <;> cases b <;> rfl⟩

/-- non-vacuity: a result within the limit is delivered, through the stub as through `evaluate` -/
example : deliver .stub {} (some 2) (.seq .iter [.seq .tuple [.sc .null, .sc .null]]) =
    .ok (.seq .list [.seq .list [.sc .null, .sc .null]]) := by rfl
example : call (.evaluate true) {} (some 2) id (.seq .list [.seq .list [.sc .null, .sc .null]]) =
    .ok (.seq .list [.seq .list [.sc .null, .sc .null]]) := by rfl
example : call .stubOn {} (some 1) id (.seq .list [.seq .list [.sc .null, .sc .null]]) = .error .tooLarge := by rfl

end Yaql.Props.C08
