import Yaql.Props.C06Reg
/-!
C06 over context kinds: a `MultiContext` layer is the UNION of its members' overload sets - as a set of
definition OBJECTS (identities), whatever the payloads are called - so neither the order in which the
members are listed nor the order in which each member enumerates its overloads changes any call.

* `run_nodup` - in every state a history (`root` / `child` / `multi` / `linked` / `register` / `delete`) reaches
  from the empty state, each context holds each definition once (`_functions[name]` is a set).
* `ownLayerL_members_perm` - for such states the layer of a `MultiContext` does not depend on the order of
  its member list: the same overloads (a permutation), the same exclusive flag.
* `resolve_members_perm_invariant` - hence every call from a `MultiContext` whose members are listed in another
  order (and from every context above or below it in a chain built the same way) has the same outcome.
* `resolve_multi_register_perm_invariant` - registration order and member order together.
* `keyed_merge_order_dependent` - the contrast: a merge that keeps ONE overload per payload name (the first it
  meets) instead of the union of the definition objects depends on both orders.
-/
namespace Yaql.Props.C06Ctx
open Yaql.Context Yaql.ResolveCtx
open Yaql.Props.C17 (layers layersO ownLayer ownLayerL cellLayer)
open Yaql.Props.C05Hist (famOf familyIn)
open Yaql.Props.C06Reg

/-! ## sets stay sets -/

theorem sinsert_nodup {α : Type} [BEq α] [LawfulBEq α] {l : List α} (h : l.Nodup) (x : α) : (sinsert x l).Nodup := by
  by_cases hx : x ∈ l
  · rw [sinsert_of_mem hx]; exact h
  · rw [sinsert_of_not_mem hx]
    exact List.nodup_append.mpr ⟨h, by simp, by
      intro a ha b hb
      rw [List.mem_singleton.mp hb]
      rintro rfl
      exact hx ha⟩

theorem mem_sinsert {α : Type} [BEq α] [LawfulBEq α] (l : List α) (x y : α) : y ∈ sinsert x l ↔ y ∈ l ∨ y = x := by
  by_cases hx : x ∈ l
  · rw [sinsert_of_mem hx]
    constructor
    · exact Or.inl
    · rintro (h | rfl)
      · exact h
      · exact hx
  · rw [sinsert_of_not_mem hx]; simp

theorem unionF_nodup (b : List Fid) : ∀ {a : List Fid}, a.Nodup → (unionF a b).Nodup := by
  unfold unionF
  induction b with
  | nil => intro a h; exact h
  | cons x b ih => intro a h; exact ih (sinsert_nodup h x)

theorem mem_unionF (b : List Fid) : ∀ (a : List Fid) (y : Fid), y ∈ unionF a b ↔ y ∈ a ∨ y ∈ b := by
  unfold unionF
  induction b with
  | nil => intro a y; simp
  | cons x b ih =>
      intro a y
      simp only [List.foldl_cons]
      rw [ih, mem_sinsert]
      simp only [List.mem_cons]
      constructor
      · rintro ((h | h) | h)
        · exact Or.inl h
        · exact Or.inr (Or.inl h)
        · exact Or.inr (Or.inr h)
      · rintro (h | h | h)
        · exact Or.inl (Or.inl h)
        · exact Or.inl (Or.inr h)
        · exact Or.inr h

/-- every plain context holds each (name, definition) pair once -/
def CellsNodup (cs : Cells) : Prop := ∀ c, (cs.get c).funcs.Nodup

theorem nodup_map_on {α β : Type} (f : α → β) : ∀ {l : List α}, l.Nodup →
    (∀ a ∈ l, ∀ b ∈ l, f a = f b → a = b) → (l.map f).Nodup
  | [], _, _ => by simp
  | x :: l, h, hinj => by
      rw [List.map_cons, List.nodup_cons]
      obtain ⟨hx, hl⟩ := List.nodup_cons.mp h
      refine ⟨?_, nodup_map_on f hl fun a ha b hb => hinj a (List.mem_cons_of_mem _ ha) b (List.mem_cons_of_mem _ hb)⟩
      intro hm
      obtain ⟨y, hy, hxy⟩ := List.mem_map.mp hm
      have := hinj y (List.mem_cons_of_mem _ hy) x (List.mem_cons_self ..) hxy
      exact hx (this ▸ hy)

theorem cellFuncs_nodup {c : Cell} (h : c.funcs.Nodup) (n : CName) : (cellFuncs c n).Nodup := by
  unfold cellFuncs
  refine nodup_map_on _ (List.Pairwise.filter _ h) ?_
  intro a ha b hb hab
  have h1 : a.1 = n := by simpa using (List.mem_filter.mp ha).2
  have h2 : b.1 = n := by simpa using (List.mem_filter.mp hb).2
  exact Prod.ext (h1.trans h2.symm) hab

mutual
theorem ownLayer_nodup {cs : Cells} (h : CellsNodup cs) (n : CName) : ∀ s, ((ownLayer cs s).funcs n).Nodup
  | .plain c _ => by simp only [ownLayer, cellLayer]; exact cellFuncs_nodup (h c) n
  | .multi ms _ => by simp only [ownLayer]; exact ownLayerL_nodup h n ms
  | .linked t _ => by simp only [ownLayer]; exact ownLayer_nodup h n t
theorem ownLayerL_nodup {cs : Cells} (h : CellsNodup cs) (n : CName) : ∀ ms, ((ownLayerL cs ms).funcs n).Nodup
  | [] => by simp [ownLayerL, C17.Layer.empty]
  | m :: ms => by
      simp only [ownLayerL, C17.Layer.merge]
      exact unionF_nodup _ (ownLayer_nodup h n m)
end

theorem mem_ownLayerL (cs : Cells) (n : CName) (y : Fid) : ∀ ms,
    y ∈ (ownLayerL cs ms).funcs n ↔ ∃ m ∈ ms, y ∈ (ownLayer cs m).funcs n
  | [] => by simp [ownLayerL, C17.Layer.empty]
  | m :: ms => by
      simp only [ownLayerL, C17.Layer.merge, mem_unionF, mem_ownLayerL cs n y ms, List.mem_cons]
      constructor
      · rintro (h | ⟨m', hm', h⟩)
        · exact ⟨m, Or.inl rfl, h⟩
        · exact ⟨m', Or.inr hm', h⟩
      · rintro ⟨m', rfl | hm', h⟩
        · exact Or.inl h
        · exact Or.inr ⟨m', hm', h⟩

theorem excl_ownLayerL (cs : Cells) (n : CName) : ∀ ms,
    (ownLayerL cs ms).excl n = ms.any fun m => (ownLayer cs m).excl n
  | [] => by simp [ownLayerL, C17.Layer.empty]
  | m :: ms => by simp [ownLayerL, C17.Layer.merge, excl_ownLayerL cs n ms]

/-- THE ORDER OF THE MEMBER LIST DOES NOT MATTER: the layer of `MultiContext(ms)` and of `MultiContext(ms')`
    hold the same overloads and the same exclusive flag -/
theorem ownLayerL_members_perm {cs : Cells} (h : CellsNodup cs) (n : CName) {ms ms' : List Shape}
    (hp : ms.Perm ms') : LayerEqv n (ownLayerL cs ms) (ownLayerL cs ms') := by
  constructor
  · refine (List.perm_ext_iff_of_nodup (ownLayerL_nodup h n ms) (ownLayerL_nodup h n ms')).mpr fun y => ?_
    rw [mem_ownLayerL, mem_ownLayerL]
    exact ⟨fun ⟨m, hm, hy⟩ => ⟨m, hp.mem_iff.mp hm, hy⟩, fun ⟨m, hm, hy⟩ => ⟨m, hp.mem_iff.mpr hm, hy⟩⟩
  · rw [excl_ownLayerL, excl_ownLayerL, Bool.eq_iff_iff]
    simp only [List.any_eq_true]
    exact ⟨fun ⟨m, hm, hy⟩ => ⟨m, hp.mem_iff.mp hm, hy⟩, fun ⟨m, hm, hy⟩ => ⟨m, hp.mem_iff.mpr hm, hy⟩⟩

theorem layersPerm_refl : ∀ ls : List C05Hist.RLayer, C06.LayersPerm ls ls
  | [] => .nil
  | _ :: ls => .cons (.refl _) rfl (layersPerm_refl ls)

/-- a call from a `MultiContext` does not depend on the order in which its members are listed -/
theorem resolve_members_perm_invariant (L : Yaql.Types.Lattice) (defs : Defs) {cs : Cells} (h : CellsNodup cs)
    {ms ms' : List Shape} (hp : ms.Perm ms') (p : Option Shape) (name : CName) (c : Yaql.Resolve.Call) :
    resolveAt L defs cs (.multi ms' p) name c = resolveAt L defs cs (.multi ms p) name c := by
  rw [C05Hist.resolveAt_eq_layers, C05Hist.resolveAt_eq_layers]
  apply C06.perm_invariant
  simp only [layers, famOf_cons]
  have := ownLayerL_members_perm h (rstripUnderscore name) hp
  exact .cons (this.1.map _) this.2 (layersPerm_refl _)

/-- nor does a call from a child of it -/
theorem resolve_child_of_members_perm_invariant (L : Yaql.Types.Lattice) (defs : Defs) {cs : Cells}
    (h : CellsNodup cs) {ms ms' : List Shape} (hp : ms.Perm ms') (p : Option Shape) (cell : Nat) (name : CName)
    (c : Yaql.Resolve.Call) :
    resolveAt L defs cs (.plain cell (some (.multi ms' p))) name c =
      resolveAt L defs cs (.plain cell (some (.multi ms p))) name c := by
  rw [C05Hist.resolveAt_eq_layers, C05Hist.resolveAt_eq_layers]
  apply C06.perm_invariant
  simp only [layers, layersO, famOf_cons]
  have := ownLayerL_members_perm h (rstripUnderscore name) hp
  exact .cons (.refl _) rfl (.cons (this.1.map _) this.2 (layersPerm_refl _))

/-! ## reachable states hold sets -/

theorem get_append_default (cs : Cells) (c : Nat) :
    (cs ++ [({} : Cell)]).get c = cs.get c := by
  unfold Cells.get
  simp only [List.getD_eq_getElem?_getD]
  by_cases hc : c < cs.length
  · rw [List.getElem?_append_left hc]
  · have hge : cs.length ≤ c := Nat.le_of_not_lt hc
    have hr : cs[c]? = none := List.getElem?_eq_none hge
    have hl : (cs ++ [({} : Cell)])[c]? = [({} : Cell)][c - cs.length]? := List.getElem?_append_right hge
    rw [hl, hr]
    cases c - cs.length with
    | zero => rfl
    | succ k => rfl

theorem cellsNodup_append {cs : Cells} (h : CellsNodup cs) : CellsNodup (cs ++ [({} : Cell)]) := by
  intro c; rw [get_append_default]; exact h c

theorem cellsNodup_modify {cs : Cells} (h : CellsNodup cs) (c : Nat) (f : Cell → Cell)
    (hf : ∀ a : Cell, a.funcs.Nodup → (f a).funcs.Nodup) : CellsNodup (modifyCell cs c f) := by
  intro k
  rw [get_modify]
  split
  · exact hf _ (h k)
  · exact h k

theorem cellsNodup_foldl_modify (f : Cell → Cell) (hf : ∀ a : Cell, a.funcs.Nodup → (f a).funcs.Nodup) :
    ∀ (l : List Nat) {cs : Cells}, CellsNodup cs → CellsNodup (l.foldl (fun cs c => modifyCell cs c f) cs)
  | [], _, h => h
  | c :: l, _, h => by
      simp only [List.foldl_cons]
      exact cellsNodup_foldl_modify f hf l (cellsNodup_modify h c f hf)

theorem step_nodup {st : St} (h : CellsNodup st.cells) (op : Op) : CellsNodup (step st op).cells := by
  cases op with
  | root => exact cellsNodup_append h
  | child i =>
      simp only [step]
      cases st.ctx i with
      | none => exact h
      | some s =>
          simp only
          cases createChild st.cells.length s with
          | typeError => exact h
          | ok s' b => cases b <;> first | exact h | exact cellsNodup_append h
  | register i fname fid x =>
      simp only [step]
      cases st.ctx i with
      | none => exact h
      | some s =>
          simp only [register]
          cases writeCell s with
          | none => exact h
          | some c => exact cellsNodup_modify h c _ (fun a ha => sinsert_nodup ha _)
  | delete i fname fid =>
      simp only [step]
      cases st.ctx i with
      | none => exact h
      | some s =>
          exact cellsNodup_foldl_modify
            (fun cell => { cell with funcs := cell.funcs.filter (· != (fname, fid)),
                                     excl := cell.excl.filter (· != fname) })
            (fun a ha => List.Pairwise.filter _ ha) (delCells s) h
  | multi ms =>
      simp only [step]
      cases st.ctxAll ms with
      | none => exact h
      | some ss => exact h
  | linked p t =>
      simp only [step]
      cases st.ctx t with
      | none => exact h
      | some ts =>
          cases p with
          | none => exact h
          | some pi =>
              simp only
              cases st.ctx pi with
              | none => exact h
              | some ps => exact h

theorem run_nodup_of : ∀ (ops : List Op) {st : St}, CellsNodup st.cells → CellsNodup (run st ops).cells
  | [], _, h => h
  | op :: ops, st, h => by
      simp only [run, List.foldl_cons]
      exact run_nodup_of ops (step_nodup h op)

/-- every state a history reaches from nothing holds sets -/
theorem run_nodup (ops : List Op) : CellsNodup (run {} ops).cells :=
  run_nodup_of ops (fun c => by simp [Cells.get])

/-- registration order AND member order: after any history, the same registrations made in any order, seen
    through a `MultiContext` over any members listed in any order - one outcome -/
theorem resolve_multi_register_perm_invariant (L : Yaql.Types.Lattice) (defs : Defs) (ops : List Op)
    (rs rs' : List Reg) (hr : rs.Perm rs') {ms ms' : List Shape} (hm : ms.Perm ms') (p : Option Shape)
    (name : CName) (c : Yaql.Resolve.Call) :
    resolveAt L defs (regAll (run {} ops) rs').cells (.multi ms' p) name c =
      resolveAt L defs (regAll (run {} ops) rs).cells (.multi ms p) name c := by
  have hn' : CellsNodup (regAll (run {} ops) rs').cells := by
    unfold regAll
    exact run_nodup_of _ (run_nodup ops)
  rw [resolve_members_perm_invariant L defs hn' hm p name c]
  have he := register_perm_invariant (run {} ops) rs rs' hr
  rw [C05Hist.resolveAt_eq_layers, C05Hist.resolveAt_eq_layers]
  apply C06.perm_invariant
  exact layers_eqv defs he.cells _ (.multi ms p)

/-! ## the contrast: one overload per payload NAME -/

/-- a merge keyed by a name of the payload: the first overload met under a key stays -/
def keyedMerge (key : Fid → Nat) (acc : List Fid) : List Fid → List Fid
  | [] => acc
  | x :: xs => if acc.any (fun y => key y == key x) then keyedMerge key acc xs else keyedMerge key (acc ++ [x]) xs

/-- overloads 0 and 1 are closures of one factory (same key): the keyed merge keeps whichever the member
    enumerates first, the union keeps both in either order -/
theorem keyed_merge_order_dependent :
    keyedMerge (fun _ => 7) [] [0, 1] = [0] ∧ keyedMerge (fun _ => 7) [] [1, 0] = [1] ∧
    (unionF [] [0, 1]).Perm (unionF [] [1, 0]) := by
  refine ⟨by decide, by decide, ?_⟩
  show [0, 1].Perm [1, 0]
  exact List.Perm.swap _ _ _

/-! ## non-vacuity -/
namespace Ex
open Yaql.Props.C05Hist.Ex

/-- two parentless roots 0, 1 and their MultiContext in both member orders (2, 3); `f(x: Base)` in member 0,
    `f(x: D)` in member 1: from either MultiContext the more specific overload 1 wins; with only the exclusive
    `f(x: str)` in member 1 the outcome is NoMatching from both -/
def stM : St := run {} [.root, .root, .multi [0, 1], .multi [1, 0]]

example : outcome (run stM [.register 0 f 0 false, .register 1 f 1 false]) 2 = .ok 1 ∧
    outcome (run stM [.register 0 f 0 false, .register 1 f 1 false]) 3 = .ok 1 ∧
    outcome (run stM [.register 1 f 1 false, .register 0 f 0 false]) 3 = .ok 1 ∧
    outcome (run stM [.register 0 f 2 true]) 2 = .error .noMatching ∧
    outcome (run stM [.register 0 f 2 true]) 3 = .error .noMatching := by decide

/-- registering THROUGH the MultiContext goes to its first member: handle 2 writes to root 0, handle 3 to root 1 -/
example : outcome (run stM [.register 2 f 0 false]) 0 = .ok 0 ∧
    outcome (run stM [.register 2 f 0 false]) 1 = .error .unknown ∧
    outcome (run stM [.register 3 f 0 false]) 1 = .ok 0 := by decide

/-- a LinkedContext over root 1 with parent root 0: the target's layer first, then the parent's -/
example : outcome (run stM [.linked (some 0) 1, .register 0 f 0 false, .register 1 f 2 false]) 4 = .ok 0 ∧
    outcome (run stM [.linked (some 0) 1, .register 0 f 0 false, .register 4 f 2 true]) 4 = .error .noMatching := by
  decide

example : CellsNodup (run stM [.register 0 f 0 false, .register 0 f 0 true]).cells := run_nodup_of _ (run_nodup _)

end Ex

end Yaql.Props.C06Ctx
