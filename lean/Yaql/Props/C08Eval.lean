import Yaql.Props.C08EvalMono
import Yaql.Props.C08EvalOff
/-!
# C08 over the evaluator: the iterator limit and the memory quota bound every evaluation

The theorems are about `Yaql.EvalLimits.evalL` / `runL` (`Model/EvalLimits.lean`): the C04 reference interpreter
`Yaql.Eval.eval` with `limit_memory_usage` at every parameter binding and every call result and `limit_iterable`
at every `Iterable()` parameter and in the finaliser.  All of them hold for ALL expressions, contexts, documents,
fuel, limits `N`, quotas `Q` and size constants `c`.

| theorem | says |
|---|---|
| `evalL_off`, `runL_off` (C08EvalOff) | without limits `evalL` IS `Eval.eval` (through the embedding of the larger exception type) |
| `evalL_refines`, `runL_refines` | whatever the limits: a result of `evalL` / `runL` is the result of `Eval.eval` / `Eval.run` (a lazy result: a prefix of it that ends in a limit exception) - unless the reference makes no prediction; the instrumentation never changes a result |
| `limits_monotone` | raising `N` / `Q` (or disabling them) never turns a value into a failure and never changes it |
| `limits_monotone_error` | ... and an ordinary exception stays that exception |
| `new_outcomes` | under limits the outcome is the reference outcome, `Quota`, `TooLarge` (or "no prediction"): nothing else is new |
| `quota_flow_eval` | the result of every node that is a call fits the quota (so: of every sub-evaluation, `evalL` being recursive) |
| `quota_flow_let`, `quota_flow_ucall`, `quota_flow_receiver`, `quota_flow_iter` | values bound to the parameters of `let`, of a `def`-ined function, of `#operator_.` and to `Iterable()` parameters fit the quota; a value that does not fit ends the call in `Quota` (`quota_refuses`) |
| `limit_flow_iter`, `limit_sized_refuses` | a collection that gets through an `Iterable()` parameter has at most `N` elements visible; a sized one with more is refused at once |
| `limitLazy_run` | `limitLazy` is `Limits.run` (the counting generator of C08) on a finite source |
| `limit_flow_result` | a value `runL` returns holds no collection with more than `N` elements at any depth |
-/
namespace Yaql.Props.C08Eval
open Yaql Yaql.Value Yaql.EvalLimits
open Yaql.Eval (Ctx Expr Fn BinOp UnOp Name VL KV Frame Final Obj Err R Ev)

/-! ## the instrumentation never changes a result -/

theorem embR_ok {g : α → β} {x : R α} {b : β} (h : embR g x = .ok b) : ∃ a, x = .ok a ∧ b = g a := by
  cases x with
  | ok a => cases h; exact ⟨a, rfl, rfl⟩
  | error e => cases h

theorem embR_err {g : α → β} {x : R α} {e : LErr} (h : embR g x = .error e) : ∃ b, x = .error b ∧ e = .base b := by
  cases x with
  | ok a => cases h
  | error b => cases h; exact ⟨b, rfl, rfl⟩

theorem noPred_base {b : Err} (h : noPred (.base b) = true) : b = .fuel ∨ b = .outOfDomain := by
  cases b <;> first | exact Or.inl rfl | exact Or.inr rfl | cases h

/-- **evalL_refines** (objects): if the interpreter under ANY limits returns an object, the reference
    interpreter returns the same object - a lazy sequence may be cut: the same items up to a limit exception -
    or makes no prediction (out of fuel / out of domain). -/
theorem evalL_refines (c : ECfg) (L : Lim) (fuel : Nat) (C : Ctx) (e : Expr) (o : ObjL)
    (h : evalL c L fuel C e = .ok o) :
    (∃ o', Eval.eval fuel C e = .ok o' ∧ RelO o (emb o'))
      ∨ Eval.eval fuel C e = .error .fuel ∨ Eval.eval fuel C e = .error .outOfDomain := by
  have hr := evalL_rel (Lim.le_off L) c fuel C e
  have ho : evalL c Lim.off fuel C e = embR emb (Eval.eval fuel C e) := evalL_off c fuel C e
  rw [h, ho] at hr
  rcases hr with ⟨eh, h1, h2⟩ | ⟨el, h1, _⟩ | ⟨e1, h1, _⟩ | ⟨a, b, h1, h2, h3⟩
  · obtain ⟨b, hb, rfl⟩ := embR_err h1
    rcases noPred_base h2 with rfl | rfl
    · exact Or.inr (Or.inl hb)
    · exact Or.inr (Or.inr hb)
  · cases h1
  · cases h1
  · cases h1
    obtain ⟨o', ho', rfl⟩ := embR_ok h2
    exact Or.inl ⟨o', ho', h3⟩

/-- **runL_refines** (finalised values): a value returned under any limits is the value `Eval.run` returns. -/
theorem runL_refines (c : ECfg) (L : Lim) (fuel : Nat) (doc : Value) (e : Expr) (v : Final)
    (h : runL c L fuel doc e = .ok v) :
    Eval.run fuel doc e = .ok v ∨ Eval.run fuel doc e = .error .fuel ∨ Eval.run fuel doc e = .error .outOfDomain := by
  have hr := runL_rel (Lim.le_off L) c fuel doc e
  have ho : runL c Lim.off fuel doc e = embR id (Eval.run fuel doc e) := runL_off c fuel doc e
  rw [h, ho] at hr
  rcases hr with ⟨eh, h1, h2⟩ | ⟨el, h1, _⟩ | ⟨e1, h1, _⟩ | ⟨a, b, h1, h2, h3⟩
  · obtain ⟨b, hb, rfl⟩ := embR_err h1
    rcases noPred_base h2 with rfl | rfl
    · exact Or.inr (Or.inl hb)
    · exact Or.inr (Or.inr hb)
  · cases h1
  · cases h1
  · cases h1
    obtain ⟨v', hv', rfl⟩ := embR_ok h2
    subst h3
    exact Or.inl hv'

/-! ## raising the limits -/

/-- **limits_monotone**: raising `N` or `Q` (or switching a limit off) never turns a value into a failure and
    never changes it; only "no prediction" (fuel / domain) can take its place - a generator that was cut before
    may now be evaluated further. -/
theorem limits_monotone (c : ECfg) {lo hi : Lim} (hle : Lim.le lo hi) (fuel : Nat) (doc : Value) (e : Expr) (v : Final)
    (h : runL c lo fuel doc e = .ok v) :
    runL c hi fuel doc e = .ok v ∨ runL c hi fuel doc e = .error (.base .fuel)
      ∨ runL c hi fuel doc e = .error (.base .outOfDomain) := by
  have hr := runL_rel hle c fuel doc e
  rw [h] at hr
  rcases hr with ⟨eh, h1, h2⟩ | ⟨el, h1, _⟩ | ⟨e1, h1, _⟩ | ⟨a, b, h1, h2, h3⟩
  · cases eh with
    | base b =>
      rcases noPred_base h2 with rfl | rfl
      · exact Or.inr (Or.inl h1)
      · exact Or.inr (Or.inr h1)
    | quota => cases h2
    | tooLarge => cases h2
  · cases h1
  · cases h1
  · cases h1; subst h3; exact Or.inl h2

/-- ... and an ordinary exception stays that exception -/
theorem limits_monotone_error (c : ECfg) {lo hi : Lim} (hle : Lim.le lo hi) (fuel : Nat) (doc : Value) (e : Expr) (b : Err)
    (hb : b ≠ .fuel ∧ b ≠ .outOfDomain) (h : runL c lo fuel doc e = .error (.base b)) :
    runL c hi fuel doc e = .error (.base b) ∨ runL c hi fuel doc e = .error (.base .fuel)
      ∨ runL c hi fuel doc e = .error (.base .outOfDomain) := by
  have hr := runL_rel hle c fuel doc e
  rw [h] at hr
  rcases hr with ⟨eh, h1, h2⟩ | ⟨el, h1, h2⟩ | ⟨e1, h1, h2⟩ | ⟨a, b', h1, _, _⟩
  · cases eh with
    | base b' =>
      rcases noPred_base h2 with rfl | rfl
      · exact Or.inr (Or.inl h1)
      · exact Or.inr (Or.inr h1)
    | quota => cases h2
    | tooLarge => cases h2
  · cases h1
    rcases h2 with h2 | h2
    · cases h2
    · rcases noPred_base h2 with rfl | rfl
      · exact absurd rfl hb.1
      · exact absurd rfl hb.2
  · cases h1; exact Or.inl h2
  · cases h1

/-- **new_outcomes**: under limits an evaluation ends in the reference outcome, in `Quota`, in `TooLarge` - or one
    of the two sides makes no prediction.  Nothing else is new. -/
theorem new_outcomes (c : ECfg) (L : Lim) (fuel : Nat) (doc : Value) (e : Expr) :
    (∃ v, runL c L fuel doc e = .ok v ∧ Eval.run fuel doc e = .ok v)
    ∨ (∃ b, runL c L fuel doc e = .error (.base b) ∧ Eval.run fuel doc e = .error b)
    ∨ runL c L fuel doc e = .error .quota
    ∨ runL c L fuel doc e = .error .tooLarge
    ∨ runL c L fuel doc e = .error (.base .fuel) ∨ runL c L fuel doc e = .error (.base .outOfDomain)
    ∨ Eval.run fuel doc e = .error .fuel ∨ Eval.run fuel doc e = .error .outOfDomain := by
  have hr := runL_rel (Lim.le_off L) c fuel doc e
  have ho : runL c Lim.off fuel doc e = embR id (Eval.run fuel doc e) := runL_off c fuel doc e
  rw [ho] at hr
  rcases hr with ⟨eh, h1, h2⟩ | ⟨el, h1, h2⟩ | ⟨e1, h1, h2⟩ | ⟨a, b, h1, h2, h3⟩
  · obtain ⟨b, hb, rfl⟩ := embR_err h1
    rcases noPred_base h2 with rfl | rfl
    · exact Or.inr (Or.inr (Or.inr (Or.inr (Or.inr (Or.inr (Or.inl hb))))))
    · exact Or.inr (Or.inr (Or.inr (Or.inr (Or.inr (Or.inr (Or.inr hb))))))
  · rcases h2 with h2 | h2
    · cases el with
      | base b => cases h2
      | quota => exact Or.inr (Or.inr (Or.inl h1))
      | tooLarge => exact Or.inr (Or.inr (Or.inr (Or.inl h1)))
    · cases el with
      | base b =>
        rcases noPred_base h2 with rfl | rfl
        · exact Or.inr (Or.inr (Or.inr (Or.inr (Or.inl h1))))
        · exact Or.inr (Or.inr (Or.inr (Or.inr (Or.inr (Or.inl h1)))))
      | quota => cases h2
      | tooLarge => cases h2
  · obtain ⟨b, hb, rfl⟩ := embR_err h2
    exact Or.inr (Or.inl ⟨b, h1, hb⟩)
  · obtain ⟨v', hv', rfl⟩ := embR_ok h2
    subst h3
    exact Or.inl ⟨a, h1, hv'⟩

/-! ## the quota: every call result and every bound value is measured -/

/-- what a passed check means -/
theorem measure_ok_iff (L : Lim) (s : Option Sz) :
    EvalLimits.measure L s = .ok () ↔ (L.Q ≤ 0 ∨ ∃ z, s = some z ∧ (z.hi : Int) ≤ L.Q) := by
  unfold EvalLimits.measure measureAll
  by_cases hq : L.Q ≤ 0
  · simp only [hq, if_true, true_or]
  · simp only [hq, if_false, false_or]
    cases s with
    | none => simp [allSome]
    | some z =>
      simp only [allSome, Option.map_some, List.map_cons, List.map_nil]
      have h1 := C08.limitMemory_one L.Q z.hi
      constructor
      · intro h
        split at h
        · rename_i hp
          rcases h1.mp hp with h2 | h2
          · exact absurd h2 hq
          · exact ⟨z, rfl, h2⟩
        · split at h <;> cases h
      · rintro ⟨z', hz, hle⟩
        cases hz
        rw [if_pos (h1.mpr (Or.inr hle))]

/-- **quota_flow_eval**: the object an evaluation of a non-constant expression (= a function call) returns has
    passed `limit_memory_usage`: under a quota `Q > 0` its modelled size is known and at most `Q`.  `evalL` is
    recursive, so this holds for the result of every sub-evaluation (every argument, every lambda body) as well. -/
theorem quota_flow_eval (c : ECfg) (L : Lim) (fuel : Nat) (C : Ctx) (e : Expr) (o : ObjL)
    (hc : Eval.isConst e = false) (h : evalL c L fuel C e = .ok o) :
    EvalLimits.measure L (objSz c o) = .ok () := by
  cases fuel with
  | zero => cases h
  | succ n =>
    have h' : stepL c L (evalL c L n) C e = .ok o := h
    unfold stepL at h'
    rw [if_neg (by rw [hc]; exact Bool.false_ne_true)] at h'
    cases hr : rawL c L (evalL c L n) C e with
    | error er => rw [hr] at h'; cases h'
    | ok o' =>
      rw [hr] at h'
      simp only [ok_bind] at h'
      cases hm : EvalLimits.measure L (objSz c o') with
      | error er => rw [hm] at h'; cases h'
      | ok u =>
        rw [hm] at h'
        cases h'
        cases u
        exact hm

theorem quota_flow_eval_bound (c : ECfg) (L : Lim) (hq : 0 < L.Q) (fuel : Nat) (C : Ctx) (e : Expr) (o : ObjL)
    (hc : Eval.isConst e = false) (h : evalL c L fuel C e = .ok o) :
    ∃ z, objSz c o = some z ∧ (z.hi : Int) ≤ L.Q := by
  rcases (measure_ok_iff L _).mp (quota_flow_eval c L fuel C e o hc h) with h1 | h1
  · omega
  · exact h1

/-- a call whose result does not fit ends in `Quota` (or, when the model does not know the size, in "no prediction") -/
theorem quota_refuses (c : ECfg) (L : Lim) (n : Nat) (C : Ctx) (e : Expr) (o : ObjL)
    (hc : Eval.isConst e = false) (hr : rawL c L (evalL c L n) C e = .ok o)
    (hm : EvalLimits.measure L (objSz c o) ≠ .ok ()) :
    evalL c L (n + 1) C e = .error .quota ∨ evalL c L (n + 1) C e = .error (.base .outOfDomain) := by
  show stepL c L (evalL c L n) C e = _ ∨ stepL c L (evalL c L n) C e = _
  unfold stepL
  rw [if_neg (by rw [hc]; exact Bool.false_ne_true), hr]
  simp only [ok_bind]
  rcases measure_cases L (objSz c o) with h | h | h
  · exact absurd h hm
  · rw [h]; exact Or.inl rfl
  · rw [h]; exact Or.inr rfl

theorem bind_ok {x : RL α} {f : α → RL β} {b : β} (h : (x >>= f) = .ok b) : ∃ a, x = .ok a ∧ f a = .ok b := by
  cases x with
  | ok a => exact ⟨a, rfl, h⟩
  | error e => cases h

theorem measureEach_ok (L : Lim) : ∀ ss : List (Option Sz), measureEach L ss = .ok () →
    ∀ s ∈ ss, EvalLimits.measure L s = .ok ()
  | [], _, s, hs => by cases hs
  | s0 :: r, h, s, hs => by
    unfold measureEach at h
    obtain ⟨u, h1, h2⟩ := bind_ok h
    cases u
    rcases List.mem_cons.mp hs with rfl | hs
    · exact h1
    · exact measureEach_ok L r h2 s hs

/-- **quota_flow_let**: every value `let(...)` binds has been measured -/
theorem quota_flow_let (c : ECfg) (L : Lim) (n : Nat) (C : Ctx) (args : List Expr) (kw : List (Expr × Expr)) (o : ObjL)
    (h : evalL c L (n + 1) C (.call .let_ args kw) = .ok o) :
    ∃ (names : List Name) (vs kvs : VL), evalListL (evalL c L n) C args = .ok vs ∧ evalListL (evalL c L n) C (kw.map (·.2)) = .ok kvs
      ∧ (∀ v ∈ vs ++ kvs, EvalLimits.measure L (sizeofV c v) = .ok ())
      ∧ o = .ctx (Eval.argFrame vs (names.zip kvs) :: C) := by
  have h' : stepL c L (evalL c L n) C (.call .let_ args kw) = .ok o := h
  unfold stepL at h'
  rw [if_neg (by exact Bool.false_ne_true)] at h'
  obtain ⟨o', hr, h2⟩ := bind_ok h'
  obtain ⟨u, _, h3⟩ := bind_ok h2
  cases h3
  have hr' : callFnL c L (evalL c L n) C .let_ args kw = .ok o := hr
  unfold callFnL at hr'
  simp only at hr'
  obtain ⟨names, _, hr1⟩ := bind_ok hr'
  obtain ⟨vs, hvs, hr2⟩ := bind_ok hr1
  obtain ⟨kvs, hkvs, hr3⟩ := bind_ok hr2
  obtain ⟨u1, hm1, hr4⟩ := bind_ok hr3
  obtain ⟨u2, hm2, hr5⟩ := bind_ok hr4
  cases hr5
  refine ⟨names, vs, kvs, hvs, hkvs, ?_, rfl⟩
  intro v hv
  rcases List.mem_append.mp hv with hv | hv
  · exact measureEach_ok L _ hm1 _ (List.mem_map_of_mem hv)
  · exact measureEach_ok L _ hm2 _ (List.mem_map_of_mem hv)

/-- **quota_flow_ucall**: every argument a `def`-ined function is called with has been measured before its body
    runs (they are the parameters `*args`, `**kwargs` of the registered wrapper) -/
theorem quota_flow_ucall (c : ECfg) (L : Lim) (n : Nat) (C : Ctx) (f : Name) (args : List Expr) (kw : List (Expr × Expr))
    (o : ObjL) (body : Expr) (D : Ctx) (hf : C.getFun (Eval.fnKey f) = some (body, D))
    (h : evalL c L (n + 1) C (.ucall f args kw) = .ok o) :
    ∃ (names : List Name) (vs kvs : VL), evalListL (evalL c L n) C args = .ok vs ∧ evalListL (evalL c L n) C (kw.map (·.2)) = .ok kvs
      ∧ (∀ v ∈ vs ++ kvs, EvalLimits.measure L (sizeofV c v) = .ok ())
      ∧ evalL c L n (Eval.argFrame vs (names.zip kvs) :: D) body = .ok o := by
  have h' : stepL c L (evalL c L n) C (.ucall f args kw) = .ok o := h
  unfold stepL at h'
  rw [if_neg (by exact Bool.false_ne_true)] at h'
  obtain ⟨o', hr, h2⟩ := bind_ok h'
  obtain ⟨u, _, h3⟩ := bind_ok h2
  cases h3
  unfold rawL at hr
  simp only [hf] at hr
  obtain ⟨names, _, hr1⟩ := bind_ok hr
  obtain ⟨vs, hvs, hr2⟩ := bind_ok hr1
  obtain ⟨kvs, hkvs, hr3⟩ := bind_ok hr2
  obtain ⟨u1, hm1, hr4⟩ := bind_ok hr3
  obtain ⟨u2, hm2, hr5⟩ := bind_ok hr4
  refine ⟨names, vs, kvs, hvs, hkvs, ?_, hr5⟩
  intro v hv
  rcases List.mem_append.mp hv with hv | hv
  · exact measureEach_ok L _ hm1 _ (List.mem_map_of_mem hv)
  · exact measureEach_ok L _ hm2 _ (List.mem_map_of_mem hv)

/-- **quota_flow_receiver**: the receiver of every method call has been measured (`#operator_.` binds it) -/
theorem quota_flow_receiver (c : ECfg) (L : Lim) (n : Nat) (C : Ctx) (e : Expr) (f : Fn) (args : List Expr) (o : ObjL)
    (h : evalL c L (n + 1) C (.method e f args []) = .ok o) :
    ∃ r, evalL c L n C e = .ok r ∧ EvalLimits.measure L (objSz c r) = .ok ()
      ∧ callMethodL c L (evalL c L n) C .noMethod r f args = .ok o := by
  have h' : stepL c L (evalL c L n) C (.method e f args []) = .ok o := h
  unfold stepL at h'
  rw [if_neg (by exact Bool.false_ne_true)] at h'
  obtain ⟨o', hr, h2⟩ := bind_ok h'
  obtain ⟨u, _, h3⟩ := bind_ok h2
  cases h3
  unfold rawL at hr
  obtain ⟨r, hev, hr1⟩ := bind_ok hr
  simp only [List.isEmpty_nil, Bool.not_true, Bool.false_eq_true, if_false] at hr1
  obtain ⟨u1, hm, hr2⟩ := bind_ok hr1
  cases u1
  exact ⟨r, hev, hm, hr2⟩

/-! ## the iterator limit -/

/-- **quota_flow_iter / limit_flow_iter**: what gets through the conversion of an `Iterable()` parameter has been
    measured and shows at most `N` elements -/
theorem limit_flow_iter (c : ECfg) (L : Lim) (o : ObjL) (s : VL × Option LErr) (h : bindIter c L o = .ok s) :
    EvalLimits.measure L (objSz c o) = .ok () ∧ ∀ n, L.N = some n → s.1.length ≤ n := by
  unfold bindIter at h
  obtain ⟨u, hm, h1⟩ := bind_ok h
  cases u
  refine ⟨hm, ?_⟩
  intro n hn
  have lazyLen : ∀ t : VL × Option LErr, (limitLazy L t).1.length ≤ n := by
    intro t
    unfold limitLazy
    rw [hn]
    simp only
    split
    · simp only [List.length_take]; omega
    · omega
  have sized : ∀ l : VL, limitLen L l.length = .ok () → l.length ≤ n := by
    intro l hl
    unfold limitLen Limits.limitSized at hl
    rw [hn] at hl
    simp only [Convert.Limit.admits] at hl
    by_cases hle : l.length ≤ n
    · exact hle
    · simp [hle] at hl
  split at h1
  · obtain ⟨u, hl, h2⟩ := bind_ok h1; cases u; cases h2; exact sized _ hl
  · obtain ⟨u, hl, h2⟩ := bind_ok h1; cases u; cases h2; exact sized _ hl
  · cases h1; exact lazyLen _
  · cases h1; exact lazyLen _
  · cases h1; exact lazyLen _
  · cases h1

/-- a sized collection with more than `N` elements is refused when it is bound (before anything is iterated) -/
theorem limit_sized_refuses (c : ECfg) (L : Lim) (n : Nat) (hn : L.N = some n) (l : VL) (hl : n < l.length)
    (hm : EvalLimits.measure L (objSz c (.val (.tuple l))) = .ok ()) :
    bindIter c L (.val (.tuple l)) = .error .tooLarge := by
  unfold bindIter
  rw [hm]
  simp only [ok_bind]
  unfold limitLen Limits.limitSized
  rw [hn]
  simp only [Convert.Limit.admits]
  have : ¬ l.length ≤ n := by omega
  simp [this]

/-- a finite source, as the `Source` of `Limits` -/
def srcOf (xs : List α) : Limits.Source α := fun i => xs[i]?

theorem run_finite (N : Nat) (xs : List α) : ∀ k : Nat,
    (k ≤ min xs.length N →
      (Limits.run (some N) (srcOf xs) k {}).items = xs.take k
      ∧ (Limits.run (some N) (srcOf xs) k {}).st = { idx := k, dead := false }
      ∧ (Limits.run (some N) (srcOf xs) k {}).raised = false)
    ∧ (min xs.length N < k →
      (Limits.run (some N) (srcOf xs) k {}).items = xs.take N
      ∧ (Limits.run (some N) (srcOf xs) k {}).raised = decide (N < xs.length)
      ∧ (Limits.run (some N) (srcOf xs) k {}).st.dead = true)
  | 0 => ⟨fun _ => ⟨by simp [Limits.run], rfl, rfl⟩, fun h => by omega⟩
  | k + 1 => by
    have ih := run_finite N xs k
    rw [C08.run_succ]
    generalize Limits.run (some N) (srcOf xs) k {} = r at ih
    constructor
    · intro hk
      obtain ⟨h1, h2, h3⟩ := ih.1 (by omega)
      have hlt : k < xs.length := by omega
      have hsrc : srcOf xs k = some xs[k] := by simp [srcOf, hlt]
      have hb : Limits.blocks (some N) k = false := by simp [Limits.blocks]; omega
      unfold Limits.Run.step Limits.limNext
      rw [h2]
      simp only [Bool.false_eq_true, if_false, hsrc, hb]
      refine ⟨?_, by trivial, by first | exact h3 | simpa using h3⟩
      rw [h1, List.take_succ_eq_append_getElem hlt]
    · intro hk
      by_cases hk' : min xs.length N < k
      · obtain ⟨h1, h2, h3⟩ := ih.2 hk'
        unfold Limits.Run.step Limits.limNext
        rw [h3]
        simp only [if_true]
        exact ⟨h1, h2, h3⟩
      · have hk2 : k = min xs.length N := by omega
        obtain ⟨h1, h2, h3⟩ := ih.1 (by omega)
        unfold Limits.Run.step Limits.limNext
        rw [h2]
        simp only [Bool.false_eq_true, if_false]
        by_cases hlen : xs.length ≤ N
        · -- the source ends first
          have hk3 : k = xs.length := by omega
          have hsrc : srcOf xs k = none := by simp [srcOf, hk3]
          simp only [hsrc]
          refine ⟨?_, ?_, by trivial⟩
          · rw [h1, hk3, List.take_of_length_le (Nat.le_refl _), List.take_of_length_le hlen]
          · rw [h3]; simp; omega
        · -- the limit strikes
          have hk3 : k = N := by omega
          have hlt : k < xs.length := by omega
          have hsrc : srcOf xs k = some xs[k] := by simp [srcOf, hlt]
          have hb : Limits.blocks (some N) k = true := by simp [Limits.blocks]; omega
          simp only [hsrc, hb, if_true]
          refine ⟨by rw [h1, hk3], ?_, by trivial⟩
          simp; omega

/-- **limitLazy_run**: `limitLazy` is the counting generator `Limits.limNext` / `Limits.run` of C08 on a finite
    source that does not raise, consumed to its end: the same items, and `TooLarge` exactly when the generator raises
    (at the pull of item `N + 1`: `C08.limit_pulls`) -/
theorem limitLazy_run (N : Nat) (Q : Int) (xs : VL) (k : Nat) (hk : min xs.length N < k) :
    (Limits.run (some N) (srcOf xs) k {}).items = (limitLazy ⟨some N, Q⟩ (xs, none)).1
    ∧ ((Limits.run (some N) (srcOf xs) k {}).raised = true ↔ (limitLazy ⟨some N, Q⟩ (xs, none)).2 = some .tooLarge) := by
  obtain ⟨h1, h2, _⟩ := (run_finite N xs k).2 hk
  unfold limitLazy
  simp only
  by_cases hlt : N < xs.length
  · rw [if_pos hlt]
    exact ⟨h1, by rw [h2]; simp [hlt]⟩
  · rw [if_neg hlt]
    refine ⟨by rw [h1, List.take_of_length_le (by omega)], ?_⟩
    rw [h2]
    simp [hlt]

/-! ## the result: no collection longer than `N` at any depth -/

mutual
/-- no collection with more than `n` elements at any depth -/
def boundedV (n : Nat) : Value → Bool
  | .tuple l | .list l | .set l | .iter l => decide (l.length ≤ n) && boundedL n l
  | .dict kvs => decide (kvs.length ≤ n) && boundedP n kvs
  | _ => true
def boundedL (n : Nat) : List Value → Bool
  | [] => true
  | x :: xs => boundedV n x && boundedL n xs
def boundedP (n : Nat) : List (Value × Value) → Bool
  | [] => true
  | (k, v) :: r => boundedV n k && boundedV n v && boundedP n r
end

theorem limitLen_ok {L : Lim} {n len : Nat} (hn : L.N = some n) (h : limitLen L len = .ok ()) : len ≤ n := by
  unfold limitLen Limits.limitSized at h
  rw [hn] at h
  simp only [Convert.Limit.admits] at h
  by_cases hle : len ≤ n
  · exact hle
  · simp [hle] at h

mutual
theorem walkV_bounded (c : ECfg) (L : Lim) (n : Nat) (hn : L.N = some n) : ∀ v : Value, walkV c L v = .ok () → boundedV n v = true
  | .tuple l, h => by
    unfold walkV at h
    obtain ⟨_, _, h1⟩ := bind_ok h
    obtain ⟨_, hl, h2⟩ := bind_ok h1
    unfold boundedV
    simp only [Bool.and_eq_true, decide_eq_true_eq]
    exact ⟨limitLen_ok hn hl, (walkL_bounded c L n hn l none h2).2⟩
  | .list l, h => by
    unfold walkV at h
    obtain ⟨_, _, h1⟩ := bind_ok h
    obtain ⟨_, hl, h2⟩ := bind_ok h1
    unfold boundedV
    simp only [Bool.and_eq_true, decide_eq_true_eq]
    exact ⟨limitLen_ok hn hl, (walkL_bounded c L n hn l none h2).2⟩
  | .set l, h => by
    unfold walkV at h
    obtain ⟨_, _, h1⟩ := bind_ok h
    obtain ⟨_, hl, h2⟩ := bind_ok h1
    unfold boundedV
    simp only [Bool.and_eq_true, decide_eq_true_eq]
    exact ⟨limitLen_ok hn hl, (walkL_bounded c L n hn l none h2).2⟩
  | .iter l, h => by
    unfold walkV at h
    obtain ⟨_, _, h1⟩ := bind_ok h
    unfold boundedV
    simp only [Bool.and_eq_true, decide_eq_true_eq]
    have := walkL_bounded c L n hn l L.N h1
    exact ⟨by have := this.1 n hn; omega, this.2⟩
  | .dict kvs, h => by
    unfold walkV at h
    obtain ⟨_, hl, h1⟩ := bind_ok h
    unfold boundedV
    simp only [Bool.and_eq_true, decide_eq_true_eq]
    exact ⟨limitLen_ok hn hl, walkP_bounded c L n hn kvs h1⟩
  | .null, _ => rfl
  | .bool _, _ => rfl
  | .int _, _ => rfl
  | .flt _, _ => rfl
  | .str _, _ => rfl
  | .host _, _ => rfl
/-- a walk with budget `b` that succeeds: at most `b` elements, all bounded -/
theorem walkL_bounded (c : ECfg) (L : Lim) (n : Nat) (hn : L.N = some n) : ∀ (xs : VL) (b : Option Nat),
    walkL c L b xs = .ok () → (∀ m, b = some m → xs.length ≤ m) ∧ boundedL n xs = true
  | [], b, _ => ⟨fun _ _ => Nat.zero_le _, rfl⟩
  | x :: xs, b, h => by
    by_cases hb : b = some 0
    · subst hb; cases h
    · rw [walkL_cons c L b hb] at h
      obtain ⟨_, hx, h1⟩ := bind_ok h
      have ih := walkL_bounded c L n hn xs (b.map (· - 1)) h1
      refine ⟨?_, ?_⟩
      · intro m hm
        subst hm
        have := ih.1 (m - 1) rfl
        simp only [List.length_cons]
        have : m ≠ 0 := by intro h0; subst h0; exact hb rfl
        omega
      · unfold boundedL
        rw [walkV_bounded c L n hn x hx, ih.2]
        rfl
theorem walkP_bounded (c : ECfg) (L : Lim) (n : Nat) (hn : L.N = some n) : ∀ kvs : List (Value × Value),
    walkP c L kvs = .ok () → boundedP n kvs = true
  | [], _ => rfl
  | (k, v) :: r, h => by
    unfold walkP at h
    obtain ⟨_, hk, h1⟩ := bind_ok h
    obtain ⟨_, hv, h2⟩ := bind_ok h1
    unfold boundedP
    rw [walkV_bounded c L n hn k hk, walkV_bounded c L n hn v hv, walkP_bounded c L n hn r h2]
    rfl
end

theorem afterWalk_ok {ok : Bool} {w : RL Unit} (h : afterWalk ok w = .ok ()) : w = .ok () := by
  cases w with
  | ok u => rfl
  | error e =>
    unfold afterWalk at h
    simp only at h
    split at h <;> cases h

/-- **limit_flow_result**: a value that `runL` returns under `yaql.limitIterators = n` holds no collection with more
    than `n` elements at any depth (an evaluation whose result would hold one does not return a value: by
    `new_outcomes` it ends in `TooLarge`, `Quota`, an ordinary exception or "no prediction") -/
theorem limit_flow_result (c : ECfg) (L : Lim) (n : Nat) (hn : L.N = some n) (fuel : Nat) (doc : Value) (e : Expr) (v : Value)
    (h : runL c L fuel doc e = .ok (.data v)) : boundedV n v = true := by
  unfold runL at h
  obtain ⟨o, _, hf⟩ := bind_ok h
  unfold finaliseL at hf
  split at hf
  · obtain ⟨_, _, h1⟩ := bind_ok hf; cases h1
  · split at hf
    · obtain ⟨_, _, h1⟩ := bind_ok hf
      obtain ⟨s, hs, h2⟩ := bind_ok h1
      have hlen := (limit_flow_iter c L _ s hs).2 n hn
      unfold finIter at h2
      split at h2
      · cases h2
      · obtain ⟨_, haw, h3⟩ := bind_ok h2
        split at h3
        · obtain ⟨_, _, h4⟩ := bind_ok h3
          cases h4
          have hw := afterWalk_ok haw
          obtain ⟨_, hw1, _⟩ := bind_ok hw
          unfold boundedV
          simp only [Bool.and_eq_true, decide_eq_true_eq]
          exact ⟨hlen, (walkL_bounded c L n hn s.1 none hw1).2⟩
        · cases h3
    · split at hf
      · unfold finVal at hf
        obtain ⟨_, _, h1⟩ := bind_ok hf
        obtain ⟨_, haw, h2⟩ := bind_ok h1
        split at h2
        · obtain ⟨_, _, h3⟩ := bind_ok h2
          cases h3
          exact walkV_bounded c L n hn _ (afterWalk_ok haw)
        · cases h2
      · cases hf

/-! ## non-vacuity: concrete programs (size constants of CPython 3.12) -/

def exCfg : ECfg :=
  { sz := { tupleHdr := 40, listHdr := 56, ptr := 8, strAscii := 41, strLatin1 := 57, strUcs2 := 58, strUcs4 := 60,
            fdictOverhead := 48 },
    noneSz := 16, boolSz := 28, intBase := 24, intDigit := 4, digitBits := 30, objMin := 40, objMax := 248, ruleSz := 48,
    dictEmpty := 64, dictUni := [(5, 184), (10, 272), (21, 464)], dictGen := [(5, 224), (10, 352), (21, 632)],
    listGrow := [(0, 0), (1, 4), (8, 8), (16, 16), (24, 24)] }

def dollar : Expr := .var ['$']
def i (n : Int) : Expr := .lit (.int n)

/-- `[1, 2, 3].select($ * 2)` -/
def exSelect : Expr := .method (.list [i 1, i 2, i 3]) .select [.bin .mul dollar (i 2)] []

example : runL exCfg ⟨some 2, 0⟩ 10 .null exSelect = .error .tooLarge := by rfl
example : runL exCfg ⟨some 3, 0⟩ 10 .null exSelect = .ok (.data (.list [.int 2, .int 4, .int 6])) := by rfl
example : Eval.run 10 .null exSelect = .ok (.data (.list [.int 2, .int 4, .int 6])) := by rfl

/-- `[1, 2, 3].selectMany([$, $])`: a lazy sequence of six elements; `.take(3)` / `.first()` never pull item 4 -/
def exMany : Expr := .method (.list [i 1, i 2, i 3]) .selectMany [.list [dollar, dollar]] []

example : runL exCfg ⟨some 3, 0⟩ 10 .null (.method exMany .take [i 3] []) = .ok (.data (.list [.int 1, .int 1, .int 2])) := by rfl
example : runL exCfg ⟨some 3, 0⟩ 10 .null (.method exMany .take [i 4] []) = .error .tooLarge := by rfl
example : runL exCfg ⟨some 3, 0⟩ 10 .null (.method exMany .first [] []) = .ok (.data (.int 1)) := by rfl
example : runL exCfg ⟨some 3, 0⟩ 10 .null (.method exMany .len [] []) = .error .tooLarge := by rfl
-- `len` of a list is a `Sequence()` parameter: measured, not limited
example : runL exCfg ⟨some 2, 0⟩ 10 .null (.method (.list [i 1, i 2, i 3]) .len [] []) = .ok (.data (.int 3)) := by rfl

/-- a string built by repeated `+`: `$ + $ + $ + $` on a string of ten characters (51, 61, 71, 81 bytes) -/
def s10 : Value := .str (List.replicate 10 'a')
def exPlus : Expr := .bin .add (.bin .add (.bin .add dollar dollar) dollar) dollar

example : runL exCfg ⟨none, 81⟩ 10 s10 exPlus = .ok (.data (.str (List.replicate 40 'a'))) := by rfl
example : runL exCfg ⟨none, 80⟩ 10 s10 exPlus = .error .quota := by rfl
example : runL exCfg ⟨none, 50⟩ 10 s10 exPlus = .error .quota := by rfl
example : runL exCfg ⟨none, 0⟩ 10 s10 exPlus = .ok (.data (.str (List.replicate 40 'a'))) := by rfl

/-- an element that would not fit is only refused when the consumer gets there:
    `['x', <100 characters>].select($ + $ + $ + $)` (the list: 42 + 141 bytes; the elements: 45 and 441 bytes; the
    generator object: at most 248 bytes) under a quota of 300 bytes -/
def s100 : Value := .str (List.replicate 100 'a')
set_option maxRecDepth 4000
def exLazyQuota : Expr := .method (.list [.lit (.str ['x']), .lit s100]) .select [exPlus] []

example : runL exCfg ⟨none, 300⟩ 10 .null (.method exLazyQuota .first [] []) = .ok (.data (.str ['x', 'x', 'x', 'x'])) := by rfl
example : runL exCfg ⟨none, 300⟩ 10 .null exLazyQuota = .error .quota := by rfl
example : (runL exCfg ⟨none, 441⟩ 10 .null exLazyQuota).isOk = true := by rfl
-- below the size of the largest non-data object the model makes no prediction about a generator
example : runL exCfg ⟨none, 200⟩ 10 .null exLazyQuota = .error (.base .outOfDomain) := by rfl

example : sizeofV exCfg s10 = some (.exact 51) := by rfl
example : sizeofV exCfg (.dict [(.str ['a'], .int 1), (.str ['b'], .int 2)]) = some (.exact 232) := by rfl
example : sizeofV exCfg (.dict [(.int 1, .int 1)]) = some (.exact 272) := by rfl
example : sizeofV exCfg (.dict [(.int 1, .int 1), (.str ['b'], .int 2)]) = none := by rfl
example : sizeofV exCfg (.int (2 ^ 60)) = some (.exact 36) := by rfl

-- the running total of `#list`: three strings of 51 bytes each
example : runL exCfg ⟨none, 152⟩ 10 s10 (.list [dollar, dollar, dollar]) = .error .quota := by rfl
example : (runL exCfg ⟨none, 153⟩ 10 s10 (.list [dollar, dollar, dollar])).isOk = true := by rfl

-- the hypotheses of the theorems are satisfiable
example : Lim.le ⟨some 2, 100⟩ ⟨some 3, 200⟩ := ⟨Or.inr ⟨2, 3, rfl, rfl, by decide⟩, Or.inr ⟨by decide, by decide⟩⟩
example : Lim.le ⟨some 2, 100⟩ ⟨none, 0⟩ := Lim.le_off _
example : boundedV 2 (.list [.int 1, .tuple [.int 2, .int 3]]) = true := by rfl
example : boundedV 2 (.list [.int 1, .tuple [.int 2, .int 3, .int 4]]) = false := by rfl
example : (Limits.run (some 2) (srcOf [1, 2, 3]) 5 {}).items = [1, 2] ∧ (Limits.run (some 2) (srcOf [1, 2, 3]) 5 {}).raised = true := by
  decide

end Yaql.Props.C08Eval
