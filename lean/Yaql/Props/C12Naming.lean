import Yaql.Props.C12
import Yaql.Model.Naming
/-!
C12, the naming conventions and the keyword filter of `call()`.

* `rstrip_idempotent`, `toCamel_fixed`, `toCamel_idempotent`, `convertParameterName_settled`, `camel_of_python`: converting a
  converted name again changes nothing; the camelCase name of the PythonConvention name is the camelCase
  name of the python name.
* `filter_ignores_junk`, `call_filter_nonkeywords`: string keys of `kwargs` that are not keywords never
  change what `call(name, args, kwargs)` does; `call_keywords_pass`, `call_resolver_input`: keyword keys
  reach the resolver exactly as the direct spelling `f(args.., k => v ..)` does.
* `call_junk_invariant_full` is the statement for ALL keys that are not keywords, strings or not; proved
  (`call_junk_invariant`, `call_nonstring_key_dropped`) for the code since d6863d4 (before it a key that was not
  a string made `is_keyword` raise TypeError).
-/
namespace Yaql.Props.C12
open Yaql.Types Yaql.Resolve Yaql.Registry Yaql.Naming

deriving instance DecidableEq for Except

/-! ## conventions -/

theorem dropWhile_idem {α : Type} (p : α → Bool) : ∀ l : List α, (l.dropWhile p).dropWhile p = l.dropWhile p
  | [] => rfl
  | a :: r => by
      by_cases h : p a = true
      · simp only [List.dropWhile_cons, h, if_true]; exact dropWhile_idem p r
      · simp only [Bool.not_eq_true] at h
        simp [List.dropWhile_cons, h]

/-- `name.rstrip('_').rstrip('_') == name.rstrip('_')` -/
theorem rstrip_idempotent (n : Name) : rstripUnderscore (rstripUnderscore n) = rstripUnderscore n := by
  simp [rstripUnderscore, dropWhile_idem]

/-- after the first character no underscore is followed by a word character: nothing is left for the
    camelCase rule to do -/
def settledRest : List Char → Bool
  | [] => true
  | c :: r => (!(c == '_') || match r with | [] => true | d :: _ => !isWordChar d) && settledRest r

def settled : List Char → Bool
  | [] => true
  | _ :: r => settledRest r

theorem settledRest_tail {c : Char} {r : List Char} (h : settledRest (c :: r) = true) : settledRest r = true := by
  simp only [settledRest, Bool.and_eq_true] at h; exact h.2

theorem camelGo_fixed : ∀ r : List Char, settledRest r = true →
    camelGo false r = r ∧ ((match r with | [] => true | d :: _ => !isWordChar d) = true → camelGo true r = '_' :: r)
  | [], _ => by simp [camelGo]
  | c :: r, h => by
      have ih := camelGo_fixed r (settledRest_tail h)
      constructor
      · by_cases hc : (c == '_') = true
        · have hc' : c = '_' := by simpa using hc
          subst hc'
          simp only [settledRest, Bool.and_eq_true, beq_self_eq_true, Bool.not_true, Bool.false_or] at h
          simp only [camelGo, beq_self_eq_true, if_true]
          exact ih.2 h.1
        · simp only [Bool.not_eq_true] at hc
          simp [camelGo, hc, ih.1]
      · intro hd
        simp only [Bool.not_eq_true'] at hd
        simp [camelGo, hd, ih.1]

/-- a settled name is a fixed point of `CamelCaseConvention._to_camel_case` -/
theorem toCamel_fixed (n : Name) (h : settled n = true) : toCamel n = n := by
  cases n with
  | nil => rfl
  | cons c r => simp [toCamel, (camelGo_fixed r h).1]

theorem upper_small : ∀ n : Fin 128, isWordChar (Char.ofNat n.val) = true → (Char.ofNat n.val == '_') = false →
    ((Char.ofNat n.val).toUpper == '_') = false := by decide

theorem alnum_small (c : Char) (h : c.isAlphanum = true) : c.toNat < 128 := by
  simp only [Char.isAlphanum, Char.isAlpha, Char.isUpper, Char.isLower, Char.isDigit, Bool.or_eq_true, Bool.and_eq_true,
    decide_eq_true_eq] at h
  have : c.toNat = c.val.toNat := rfl
  rw [this]
  rcases h with (⟨_, h⟩ | ⟨_, h⟩) | ⟨_, h⟩ <;>
  · have := UInt32.le_iff_toNat_le.mp h
    simp at this
    omega


theorem toUpper_ne_underscore (c : Char) (hw : isWordChar c = true) (hc : (c == '_') = false) :
    (c.toUpper == '_') = false := by
  have ha : c.isAlphanum = true := by
    simp only [isWordChar, Bool.or_eq_true] at hw
    rcases hw with h | h
    · exact h
    · simp [h] at hc
  have hs := alnum_small c ha
  have := upper_small ⟨c.toNat, hs⟩
  simp only [Char.ofNat_toNat] at this
  exact this hw hc

/-- no two underscores in a row -/
def noDouble : List Char → Bool
  | [] => true
  | c :: r => (!(c == '_') || match r with | [] => true | d :: _ => !(d == '_')) && noDouble r

theorem settledRest_camelGo : ∀ r : List Char, noDouble r = true →
    settledRest (camelGo false r) = true ∧
    ((match r with | [] => true | d :: _ => !(d == '_')) = true → settledRest (camelGo true r) = true)
  | [], _ => by simp [camelGo, settledRest]
  | c :: r, h => by
      simp only [noDouble, Bool.and_eq_true] at h
      have ih := settledRest_camelGo r h.2
      constructor
      · cases hc : (c == '_')
        · simp only [camelGo, hc, Bool.false_eq_true, if_false, settledRest, Bool.not_false, Bool.true_or, Bool.true_and]
          exact ih.1
        · simp only [camelGo, hc, if_true]
          have h1 := h.1
          simp only [hc, Bool.not_true, Bool.false_or] at h1
          exact ih.2 h1
      · intro hd
        simp only [Bool.not_eq_true'] at hd
        cases hw : isWordChar c
        · have hne : (c == '_') = false := hd
          simp only [camelGo, hw, Bool.false_eq_true, if_false, settledRest, beq_self_eq_true, Bool.not_true, Bool.false_or,
            Bool.not_false, hne, Bool.true_or, Bool.true_and]
          exact ih.1
        · have := toUpper_ne_underscore c hw hd
          simp only [camelGo, hw, if_true, settledRest, this, Bool.not_false, Bool.true_or, Bool.true_and]
          exact ih.1

theorem noDouble_tail {c : Char} {r : List Char} (h : noDouble (c :: r) = true) : noDouble r = true := by
  simp only [noDouble, Bool.and_eq_true] at h; exact h.2

/-- the camelCase name of a name without doubled underscores is settled ... -/
theorem settled_toCamel (n : Name) (h : noDouble n = true) : settled (toCamel n) = true := by
  cases n with
  | nil => rfl
  | cons c r => simp only [toCamel, settled]; exact (settledRest_camelGo r (noDouble_tail h)).1

/-- ... so `_to_camel_case` is idempotent on such names (it is not in general: `a__b -> a_b -> aB`) -/
theorem toCamel_idempotent (n : Name) (h : noDouble n = true) : toCamel (toCamel n) = toCamel n :=
  toCamel_fixed _ (settled_toCamel n h)


/-- a settled name without trailing underscores is a fixed point of `convert_parameter_name` under every
    convention (and without one) -/
theorem convertParameterName_settled (n : Name) (c : Option Conv) (hs : settled n = true)
    (hr : rstripUnderscore n = n) : convertParameterName n c = n := by
  unfold convertParameterName
  by_cases he : n.isEmpty = true
  · simp [he]
  · simp only [he, Bool.false_eq_true, if_false, hr]
    cases c with
    | none => rfl
    | some c => cases c <;> simp [Conv.convertParameterName, toCamel_fixed n hs]

/-- PythonConvention names are fixed points of the PythonConvention -/
theorem convertParameterName_python_idem (n : Name) :
    convertParameterName (convertParameterName n (some .python)) (some .python) = convertParameterName n (some .python) := by
  unfold convertParameterName
  by_cases he : n.isEmpty = true
  · simp [he]
  · simp only [he, Bool.false_eq_true, if_false, Conv.convertParameterName, rstrip_idempotent]
    split <;> rfl

/-- the camelCase keyword of the snake_case (PythonConvention) keyword is the camelCase keyword of the
    python parameter name: the two conventions name the same parameter -/
theorem camel_of_python (n : Name) :
    convertParameterName (convertParameterName n (some .python)) (some .camel) = convertParameterName n (some .camel) := by
  unfold convertParameterName
  by_cases he : n.isEmpty = true
  · simp [he]
  · simp only [he, Bool.false_eq_true, if_false, Conv.convertParameterName, rstrip_idempotent]
    split
    · rename_i h
      have : rstripUnderscore n = [] := by simpa using h
      simp [this, toCamel]
    · rfl

example : convertParameterName ['k', 'e', 'y', '_', 's', 'e', 'l', 'e', 'c', 't', 'o', 'r', '_'] (some .camel) = ['k', 'e', 'y', 'S', 'e', 'l', 'e', 'c', 't', 'o', 'r'] ∧
    convertParameterName ['k', 'e', 'y', '_', 's', 'e', 'l', 'e', 'c', 't', 'o', 'r', '_'] (some .python) = ['k', 'e', 'y', '_', 's', 'e', 'l', 'e', 'c', 't', 'o', 'r'] ∧
    convertParameterName ['k', 'e', 'y', '_', 's', 'e', 'l', 'e', 'c', 't', 'o', 'r', '_'] none = ['k', 'e', 'y', '_', 's', 'e', 'l', 'e', 'c', 't', 'o', 'r'] ∧
    settled ['k', 'e', 'y', 'S', 'e', 'l', 'e', 'c', 't', 'o', 'r'] = true ∧ settled ['k', 'e', 'y', '_', 's', 'e', 'l', 'e', 'c', 't', 'o', 'r'] = false ∧
    -- NOT idempotent in general: a doubled underscore leaves one behind
    toCamel ['a', '_', '_', 'b'] = ['a', '_', 'b'] ∧ toCamel ['a', '_', 'b'] = ['a', 'B'] ∧
    convertFunctionName ['#', 'p', 'r', 'o', 'p', 'e', 'r', 't', 'y', '#', 't', 'i', 'm', 'e', '_', 'z', 'o', 'n', 'e'] (some .camel) = .ok ['#', 'p', 'r', 'o', 'p', 'e', 'r', 't', 'y', '#', 't', 'i', 'm', 'e', 'Z', 'o', 'n', 'e'] ∧
    convertFunctionName ['#', 'o', 'p', 'e', 'r', 'a', 't', 'o', 'r', '_', '+'] (some .camel) = .ok ['#', 'o', 'p', 'e', 'r', 'a', 't', 'o', 'r', '_', '+'] ∧
    convertFunctionName ['_', '_'] (some .python) = .error .indexError := by
  decide

/-! ## call(): the keyword filter -/

/-- a key that `filter_parameters_dict` is there to drop: not a string, or a string that is no keyword -/
def junk : DKey → Bool
  | .str s => !isKeyword s
  | .other _ => true

/-- `filter_parameters_dict` does not see keys that are no keywords, wherever they sit -/
theorem filter_ignores_junk {α : Type} : ∀ kws : List (DKey × α),
    filterParametersDict (kws.filter fun kv => !junk kv.1) = filterParametersDict kws
  | [] => rfl
  | (.other t, v) :: r => by
      have hj : junk (.other t) = true := rfl
      simp only [List.filter_cons, hj, Bool.not_true, Bool.false_eq_true, if_false, filterParametersDict]
      exact filter_ignores_junk r
  | (.str s, v) :: r => by
      have ih := filter_ignores_junk r
      have hj : junk (.str s) = !isKeyword s := rfl
      cases hk : isKeyword s
      · simp only [List.filter_cons, hj, hk, Bool.not_false, Bool.not_true, Bool.false_eq_true, if_false, ih,
          filterParametersDict]
      · simp only [List.filter_cons, hj, hk, Bool.not_true, Bool.not_false, if_true, filterParametersDict, ih]

/-- the statement for EVERY key that is not a keyword, strings or not: such keys - any number, anywhere in the
    dictionary - never change the outcome of `call(name, args, kwargs)` -/
def call_junk_invariant_full : Prop :=
  ∀ (L : Lattice) (layers : List Layer) (recv : Option Val) (args : List Val) (kwargs : List (DKey × Val)),
    callFunc L layers recv args kwargs =
      callFunc L layers recv args (kwargs.filter fun kv => match kv.1 with | .str s => isKeyword s | .other _ => false)

theorem call_filter_nonkeywords (L : Lattice) (layers : List Layer) (recv : Option Val) (args : List Val)
    (kwargs : List (DKey × Val)) :
    callFunc L layers recv args kwargs = callFunc L layers recv args (kwargs.filter fun kv => !junk kv.1) := by
  simp [callFunc, callHandOver, filter_ignores_junk]

/-- the full statement holds for the code as it is since d6863d4 -/
theorem call_junk_invariant : call_junk_invariant_full := by
  intro L layers recv args kwargs
  have h : (fun kv : DKey × Val => match kv.1 with | .str s => isKeyword s | .other _ => false) =
      (fun kv => !junk kv.1) := by
    funext kv
    cases kv.1 <;> simp [junk]
  rw [h]
  exact call_filter_nonkeywords L layers recv args kwargs

/-- one such key between any two parts of the dictionary -/
theorem call_filter_one (L : Lattice) (layers : List Layer) (recv : Option Val) (args : List Val)
    (a b : List (DKey × Val)) (k : DKey) (v : Val) (h : junk k = true) :
    callFunc L layers recv args (a ++ (k, v) :: b) = callFunc L layers recv args (a ++ b) := by
  rw [call_filter_nonkeywords L layers recv args (a ++ (k, v) :: b), call_filter_nonkeywords L layers recv args (a ++ b)]
  simp [List.filter_append, List.filter, h]

/-- a key that is not a string is dropped like any other key that is no keyword (before d6863d4 it made
    `is_keyword` raise TypeError) -/
theorem call_nonstring_key_dropped (L : Lattice) (layers : List Layer) (recv : Option Val) (args : List Val)
    (a b : List (DKey × Val)) (t : Nat) (v : Val) :
    callFunc L layers recv args (a ++ (.other t, v) :: b) = callFunc L layers recv args (a ++ b) :=
  call_filter_one L layers recv args a b (.other t) v rfl

def strKeys {α : Type} (kws : List (Name × α)) : List (DKey × α) := kws.map fun kv => (.str kv.1, kv.2)

/-- keys that are keywords all reach the resolver, in order -/
theorem filter_keeps_keywords {α : Type} : ∀ kws : List (Name × α), (kws.all fun kv => isKeyword kv.1) = true →
    filterParametersDict (strKeys kws) = kws
  | [], _ => rfl
  | (k, v) :: r, h => by
      simp only [List.all_cons, Bool.and_eq_true] at h
      have ih := filter_keeps_keywords r h.2
      simp only [strKeys, List.map_cons] at ih ⊢
      simp [filterParametersDict, ih, h.1]

theorem call_keywords_pass (args : List Val) (kws : List (Name × Val)) (h : (kws.all fun kv => isKeyword kv.1) = true) :
    callHandOver args (strKeys kws) = (args.map .value, kws.map fun kv => (kv.1, .value kv.2)) := by
  simp [callHandOver, filter_keeps_keywords kws h]

/-- `call(name, args, kwargs)` with keyword keys gives the resolver what the direct spelling
    `name(args.., k => v ..)` gives it (`call_equiv` after the filter) -/
theorem call_resolver_input (args : List Val) (kws : List (Name × Val)) (ek1 ek2 : Nat) (lit : Lit) (v : Val)
    (h : (kws.all fun kv => isKeyword kv.1) = true) (hd : distinct (kws.map (·.1)) = true) :
    translateArgs false (callHandOver args (strKeys kws)).1 (callHandOver args (strKeys kws)).2 =
      translateArgs false ((callHandOver args (strKeys kws)).1 ++
        asMappingRules (callHandOver args (strKeys kws)).2 ek1 ek2 lit v) [] := by
  rw [call_keywords_pass args kws h]
  have hpos : (args.map Arg.value).all noMapRule = true := by simp [noMapRule]
  have hd' : distinct ((kws.map fun kv => (kv.1, Arg.value kv.2)).map (·.1)) = true := by
    simpa [List.map_map, Function.comp_def] using hd
  have := call_equiv (args.map .value) (kws.map fun kv => (kv.1, .value kv.2)) ek1 ek2 lit v hpos hd'
  rw [this.1, this.2]

example : isKeyword ['a'] = true ∧ isKeyword ['_', 'x'] = true ∧ isKeyword ['a', ' ', 'b'] = true ∧
    isKeyword [] = false ∧ isKeyword ['_', '_', 'x'] = false ∧ isKeyword ['1', 'a'] = false ∧
    isKeyword [' ', 'a'] = false ∧
    filterParametersDict [(.str ['a'], 1), (.str ['_', '_', 'x'], 2), (.other 7, 5), (.str [], 3), (.str ['b'], 4)] =
      [(['a'], 1), (['b'], 4)] := by
  decide

/-! ## keyword names that bind to `**kwargs` are data

The name handed to `**kwargs` is the name that was written - under EVERY convention, for every
definition: the convention decides which keywords are parameters (`keywordName`), it never touches
the others. -/

/-- every pair handed to `**kwargs` is a pair that was written (name and value), for every convention -/
theorem starstar_names_verbatim {α : Type} (c : Option Conv) (decl : List (Name × Option Name))
    (kw : List (Name × α)) : ∀ p ∈ (splitKeywords c decl kw).2, p ∈ kw := by
  intro p hp
  have hid : (kw.map fun kv => (callSiteKeyword c kv.1, kv.2)) = kw := by
    simp [callSiteKeyword]
  simp only [splitKeywords, hid] at hp
  exact (List.mem_filter.mp hp).1

/-- ... no written pair is lost or renamed: it is bound to the parameter of that name, or handed on as it is -/
theorem starstar_keywords_partition {α : Type} (c : Option Conv) (decl : List (Name × Option Name))
    (kw : List (Name × α)) : ∀ p ∈ kw, p ∈ (splitKeywords c decl kw).1 ∨ p ∈ (splitKeywords c decl kw).2 := by
  intro p hp
  have hid : (kw.map fun kv => (callSiteKeyword c kv.1, kv.2)) = kw := by
    simp [callSiteKeyword]
  simp only [splitKeywords, hid, List.mem_filter]
  cases (decl.map fun d => keywordName c d.2 d.1).contains p.1 <;> simp [hp]

/-- a definition without named parameters (`let`, the wrappers `def` makes) receives ALL keywords as
    written, in the order written, whatever the convention of the context -/
theorem starstar_all_verbatim {α : Type} (c : Option Conv) (kw : List (Name × α)) :
    splitKeywords c [] kw = ([], kw) := by
  simp [splitKeywords, callSiteKeyword]

/-- the convention changes WHICH keywords are parameters, never the name of a keyword that is none:
    `my_var` next to a parameter declared `my_var` is the parameter under PythonConvention and data
    under CamelCaseConvention - where the parameter is `myVar` -, and arrives as `my_var` in both -/
example : splitKeywords (some .camel) [(['m', 'y', '_', 'v', 'a', 'r'], none)]
      [(['m', 'y', '_', 'v', 'a', 'r'], 1), (['m', 'y', 'V', 'a', 'r'], 2), (['a', '_'], 3)] =
      ([(['m', 'y', 'V', 'a', 'r'], 2)], [(['m', 'y', '_', 'v', 'a', 'r'], 1), (['a', '_'], 3)]) ∧
    splitKeywords (some .python) [(['m', 'y', '_', 'v', 'a', 'r'], none)]
      [(['m', 'y', '_', 'v', 'a', 'r'], 1), (['m', 'y', 'V', 'a', 'r'], 2), (['a', '_'], 3)] =
      ([(['m', 'y', '_', 'v', 'a', 'r'], 1)], [(['m', 'y', 'V', 'a', 'r'], 2), (['a', '_'], 3)]) := by decide

/-- the same at the level of `get_delegate` (the model the spelling theorems are about): when nothing is
    passed twice, the payload's keyword dictionary is the one of the named keyword-only parameters
    (a function of the values they receive) plus EVERY keyword no named parameter takes, under the
    name written, with the argument written -/
theorem starstar_delegate_verbatim (L : Lattice) (ps : List Param) (hwf : wfDef ps = true)
    (args : List Arg) (kw : KwArgs) (hnc : noClash ps args kw = true) (b : Bound)
    (h : getDelegate L ps args kw = some b) :
    ∃ c : Core, bindLoop L (fun p => effective ps p args kw) (core0 ps) ps = some c ∧
      b.kw = (extraKw ps kw).foldl (fun acc kv => aset kv.1 (.arg kv.2) acc) c.kw := by
  rw [getDelegate_eq_of_received L ps hwf args kw hnc] at h
  cases hb : bindLoop L (fun p => effective ps p args kw) (core0 ps) ps with
  | none => rw [hb] at h; cases h
  | some c =>
      refine ⟨c, rfl, ?_⟩
      rw [hb] at h
      simp only [Option.bind_some, finish, Core.withRest] at h
      split at h
      · cases h
      · cases hE : (extraKw ps kw).isEmpty with
        | true =>
            simp only [hE, if_true] at h
            cases h
            have : extraKw ps kw = [] := by simpa using hE
            simp [this]
        | false =>
            simp only [hE, Bool.false_eq_true, if_false] at h
            cases hss : starStarParam ps with
            | none => rw [hss] at h; cases h
            | some sp =>
                rw [hss] at h
                cases hall : ((extraKw ps kw).all fun kv => check L sp.ty kv.2) with
                | true =>
                    simp only [hall, if_true] at h
                    cases h; rfl
                | false =>
                    simp only [hall, Bool.false_eq_true, if_false] at h
                    cases h

/-- ... and a definition whose parameters are all hidden / `*` / `**` takes none of them away -/
theorem extraKw_pure (ps : List Param) (kw : KwArgs) (h : argNames ps = []) : extraKw ps kw = kw := by
  simp [extraKw, h]

end Yaql.Props.C12
