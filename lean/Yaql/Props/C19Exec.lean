import Yaql.Model.Regex
/-!
C19 - the executable matcher used by the driver is a well-behaved instance of the abstract
matcher: every match it returns starts at or after the search position, lies inside the string
and honours `mustAdvance`.  Hence the acceptance test inside the model's iteration (`step`)
never rejects one of its matches: for this instance `step` IS the matcher.
-/
namespace Yaql.Props.C19Exec
open Yaql.Strings Yaql.Regex

/-- every way of matching ends at or after its start and inside the string -/
def Bounded (len : Nat) (g : Nat → Marks → List (Nat × Marks)) : Prop :=
  ∀ pos mk pm, pos ≤ len → pm ∈ g pos mk → pos ≤ pm.1 ∧ pm.1 ≤ len

theorem starLoop_bounded {len : Nat} (greedy : Bool) (body : Nat → Marks → List (Nat × Marks))
    (hb : Bounded len body) (fuel : Nat) : Bounded len (starLoop greedy body fuel) := by
  induction fuel with
  | zero =>
    intro pos mk pm hp hm
    simp only [starLoop, List.mem_singleton] at hm
    subst hm; exact ⟨Nat.le_refl _, hp⟩
  | succ n ih =>
    intro pos mk pm hp hm
    simp only [starLoop] at hm
    have hiter : ∀ pm, pm ∈ ((body pos mk).flatMap fun pm =>
        if pm.1 ≤ pos then [pm] else starLoop greedy body n pm.1 pm.2) → pos ≤ pm.1 ∧ pm.1 ≤ len := by
      intro pm hpm
      obtain ⟨pm0, h0, h1⟩ := List.mem_flatMap.mp hpm
      have hb0 := hb pos mk pm0 hp h0
      split at h1
      · simp only [List.mem_singleton] at h1; subst h1; exact hb0
      · have := ih pm0.1 pm0.2 pm hb0.2 h1
        exact ⟨by omega, this.2⟩
    split at hm
    · rcases List.mem_append.mp hm with h | h
      · exact hiter pm h
      · simp only [List.mem_singleton] at h; subst h; exact ⟨Nat.le_refl _, hp⟩
    · rcases List.mem_cons.mp hm with h | h
      · subst h; exact ⟨Nat.le_refl _, hp⟩
      · exact hiter pm h

theorem getElem?_lt {s : Str} {pos : Nat} {d : Char} (h : s[pos]? = some d) : pos < s.length := by
  obtain ⟨h1, _⟩ := List.getElem?_eq_some_iff.mp h
  exact h1

theorem mRe_bounded (e : Env) (r : Re) : Bounded e.s.length (mRe e r) := by
  induction r with
  | eps =>
    intro pos mk pm hp hm
    simp only [mRe, List.mem_singleton] at hm; subst hm; exact ⟨Nat.le_refl _, hp⟩
  | lit c =>
    intro pos mk pm hp hm
    simp only [mRe] at hm
    split at hm
    · next d hd =>
      have := getElem?_lt hd
      split at hm
      · simp only [List.mem_singleton] at hm; subst hm; exact ⟨by simp, by simp; omega⟩
      · simp at hm
    · simp at hm
  | cls neg cs =>
    intro pos mk pm hp hm
    simp only [mRe] at hm
    split at hm
    · next d hd =>
      have := getElem?_lt hd
      split at hm
      · simp only [List.mem_singleton] at hm; subst hm; exact ⟨by simp, by simp; omega⟩
      · simp at hm
    · simp at hm
  | dot =>
    intro pos mk pm hp hm
    simp only [mRe] at hm
    split at hm
    · next d hd =>
      have := getElem?_lt hd
      split at hm
      · simp only [List.mem_singleton] at hm; subst hm; exact ⟨by simp, by simp; omega⟩
      · simp at hm
    · simp at hm
  | bol =>
    intro pos mk pm hp hm
    simp only [mRe] at hm
    split at hm
    · simp only [List.mem_singleton] at hm; subst hm; exact ⟨Nat.le_refl _, hp⟩
    · simp at hm
  | eol =>
    intro pos mk pm hp hm
    simp only [mRe] at hm
    split at hm
    · simp only [List.mem_singleton] at hm; subst hm; exact ⟨Nat.le_refl _, hp⟩
    · simp at hm
  | seq a b iha ihb =>
    intro pos mk pm hp hm
    simp only [mRe] at hm
    obtain ⟨pm0, h0, h1⟩ := List.mem_flatMap.mp hm
    have ha := iha pos mk pm0 hp h0
    have hb := ihb pm0.1 pm0.2 pm ha.2 h1
    exact ⟨by omega, hb.2⟩
  | alt a b iha ihb =>
    intro pos mk pm hp hm
    simp only [mRe] at hm
    rcases List.mem_append.mp hm with h | h
    · exact iha pos mk pm hp h
    · exact ihb pos mk pm hp h
  | star g r ih =>
    intro pos mk pm hp hm
    simp only [mRe] at hm
    exact starLoop_bounded g _ ih _ pos mk pm hp hm
  | plus g r ih =>
    intro pos mk pm hp hm
    simp only [mRe] at hm
    obtain ⟨pm0, h0, h1⟩ := List.mem_flatMap.mp hm
    have ha := ih pos mk pm0 hp h0
    have hb := starLoop_bounded g _ ih _ pm0.1 pm0.2 pm ha.2 h1
    exact ⟨by omega, hb.2⟩
  | opt g r ih =>
    intro pos mk pm hp hm
    simp only [mRe] at hm
    split at hm
    · rcases List.mem_append.mp hm with h | h
      · exact ih pos mk pm hp h
      · simp only [List.mem_singleton] at h; subst h; exact ⟨Nat.le_refl _, hp⟩
    · rcases List.mem_cons.mp hm with h | h
      · subst h; exact ⟨Nat.le_refl _, hp⟩
      · exact ih pos mk pm hp h
  | grp i r ih =>
    intro pos mk pm hp hm
    simp only [mRe] at hm
    obtain ⟨pm0, h0, h1⟩ := List.mem_map.mp hm
    have := ih pos mk pm0 hp h0
    subst h1; exact this

theorem firstOk_some {adv : Bool} {start : Nat} {l : List (Nat × Marks)} {pm : Nat × Marks}
    (h : firstOk adv start l = some pm) : pm ∈ l ∧ ¬ (adv = true ∧ pm.1 = start) := by
  induction l with
  | nil => simp [firstOk] at h
  | cons a l ih =>
    simp only [firstOk] at h
    split at h
    · have := ih h; exact ⟨by simp [this.1], this.2⟩
    · next hc =>
      cases h
      refine ⟨by simp, ?_⟩
      simpa using hc

theorem execSearch_sane (e : Env) (p : Pattern) (fuel st : Nat) (a : Bool) (m : Match)
    (h : execSearch e p fuel st a = some m) :
    st ≤ m.whole.start ∧ m.whole.start ≤ m.whole.stop ∧ m.whole.stop ≤ e.s.length ∧
      ¬ (a = true ∧ m.whole.stop = st) := by
  induction fuel generalizing st a with
  | zero => simp [execSearch] at h
  | succ n ih =>
    simp only [execSearch] at h
    by_cases hlen : e.s.length < st
    · simp [hlen] at h
    · simp only [hlen, if_false] at h
      split at h
      · next pm hpm =>
        cases h
        obtain ⟨hmem, hno⟩ := firstOk_some hpm
        have hb := mRe_bounded e p.re st _ pm (by omega) hmem
        exact ⟨Nat.le_refl _, hb.1, hb.2, hno⟩
      · have := ih (st + 1) false h
        exact ⟨by omega, this.2.1, this.2.2.1, fun hh => by omega⟩

/-- **execMatcher_sane**: the acceptance test of the model's iteration always succeeds on the
    executable matcher -/
theorem execMatcher_sane (fold : Char → Char) (p : Pattern) (f : Flags) (s : Str) (pos : Nat) (adv : Bool)
    (m : Match) (h : execMatcher fold p f s pos adv = some m) : m.sane s.length pos adv = true := by
  unfold execMatcher at h
  obtain ⟨h1, h2, h3, h4⟩ := execSearch_sane { fold := fold, flags := f, s := s } p _ pos adv m h
  simp only [Match.sane, Bool.and_eq_true, decide_eq_true_eq, Bool.not_eq_true', Bool.and_eq_false_iff]
  refine ⟨⟨⟨h1, h2⟩, h3⟩, ?_⟩
  by_cases ha : adv = true
  · right
    have : m.whole.stop ≠ pos := fun hs => h4 ⟨ha, hs⟩
    simpa using this
  · left; simpa using ha

/-- so, for the executable matcher, one step of the iteration is one call of the matcher -/
theorem step_execMatcher (fold : Char → Char) (p : Pattern) (f : Flags) (s : Str) (pos : Nat) (adv : Bool) :
    step (execMatcher fold) p f s pos adv = execMatcher fold p f s pos adv := by
  unfold step
  cases h : execMatcher fold p f s pos adv with
  | none => rfl
  | some m => simp [execMatcher_sane fold p f s pos adv m h]

/-! ### the matcher on a few patterns whose outcome depends on the details of backtracking -/

def P (r : Re) (n : Nat := 0) (names : List (Str × Nat) := []) : Pattern := { re := r, ngroups := n, names := names }

/-- `(a*)*` on "b": one empty iteration, group 1 = '' -/
example : execMatcher id (P (.star true (.grp 1 (.star true (.lit 'a')))) 1) {} ['b'] 0 false =
    some { whole := ⟨0, 0⟩, groups := [some ⟨0, 0⟩] } := by decide
/-- `(a|b)*` on "ab": the group holds the last iteration -/
example : execMatcher id (P (.star true (.grp 1 (.alt (.lit 'a') (.lit 'b')))) 1) {} ['a', 'b'] 0 false =
    some { whole := ⟨0, 2⟩, groups := [some ⟨1, 2⟩] } := by decide
/-- `(?P<n>a)|b` on "xb": found at 1, the named group did not take part -/
example : execMatcher id (P (.alt (.grp 1 (.lit 'a')) (.lit 'b')) 1 [(['n'], 1)]) {} ['x', 'b'] 0 false =
    some { whole := ⟨1, 2⟩, groups := [none], names := [(['n'], 1)] } := by decide
/-- `|a` on "a" when the search has to advance: the empty alternative is skipped -/
example : execMatcher id (P (.alt .eps (.lit 'a'))) {} ['a'] 0 true = some { whole := ⟨0, 1⟩ } := by decide
/-- `a*?` is lazy, `^`/`$` under MULTILINE see the line breaks, `.` stops at a newline without DOTALL -/
example : execMatcher id (P (.seq (.star false (.lit 'a')) (.lit 'a'))) {} ['a', 'a'] 0 false =
    some { whole := ⟨0, 1⟩ } := by decide
example : execMatcher id (P (.seq .bol (.lit 'b'))) { multiLine := true } ['a', '\n', 'b'] 0 false =
    some { whole := ⟨2, 3⟩ } := by decide
example : execMatcher id (P (.seq .bol (.lit 'b'))) {} ['a', '\n', 'b'] 0 false = none := by decide
example : execMatcher id (P (.plus true .dot)) {} ['a', '\n', 'b'] 0 false = some { whole := ⟨0, 1⟩ } := by decide
example : execMatcher id (P (.plus true .dot)) { dotAll := true } ['a', '\n', 'b'] 0 false =
    some { whole := ⟨0, 3⟩ } := by decide
example : execMatcher asciiLower (P (.lit 'a')) { ignoreCase := true } ['x', 'A'] 0 false =
    some { whole := ⟨1, 2⟩ } := by decide

end Yaql.Props.C19Exec
