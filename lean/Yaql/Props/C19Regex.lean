import Yaql.Model.Regex
/-!
C19 (regex half) - laws of yaql's regex wrappers that hold for EVERY matcher.

`M` is an arbitrary function of type `Matcher P`; nothing is assumed about it (the
iteration of the model only accepts matches that lie at or after the search position and
inside the string, which every search of CPython's `re` satisfies).
-/
namespace Yaql.Props.C19Regex
open Yaql.Strings Yaql.Regex

variable {P : Type} (M : Matcher P) (p : P) (f : Flags) (s : Str)

/-! ### the sequence of matches -/

theorem step_sane {pos : Nat} {adv : Bool} {m : Match} (h : step M p f s pos adv = some m) :
    pos ≤ m.whole.start ∧ m.whole.start ≤ m.whole.stop ∧ m.whole.stop ≤ s.length ∧
      (adv = true → pos < m.whole.stop) := by
  unfold step at h
  split at h
  · next m' _ =>
    split at h
    · next hs =>
      cases h
      simp only [Match.sane, Bool.and_eq_true, decide_eq_true_eq, Bool.not_eq_true', Bool.and_eq_false_iff] at hs
      obtain ⟨⟨⟨h1, h2⟩, h3⟩, h4⟩ := hs
      refine ⟨h1, h2, h3, fun ha => ?_⟩
      rcases h4 with h4 | h4
      · rw [ha] at h4; cases h4
      · have : m.whole.stop ≠ pos := by simpa using h4
        omega
    · cases h
  · cases h

/-- every match produced from position `pos` lies at or after it, inside the string, and past
    `pos` when the search had to advance -/
theorem mem_matchesFrom {fuel : Nat} {lim : Option Nat} {pos : Nat} {adv : Bool} {m : Match}
    (h : m ∈ matchesFrom M p f s fuel lim pos adv) :
    pos ≤ m.whole.start ∧ m.whole.start ≤ m.whole.stop ∧ m.whole.stop ≤ s.length ∧
      (adv = true → pos < m.whole.stop) := by
  induction fuel generalizing lim pos adv with
  | zero => simp [matchesFrom] at h
  | succ n ih =>
    unfold matchesFrom at h
    split at h
    · split at h
      · simp at h
      · next m0 hstep =>
        have h0 := step_sane M p f s hstep
        rcases List.mem_cons.mp h with rfl | h'
        · exact h0
        · have h1 := ih h'
          exact ⟨by omega, h1.2.1, h1.2.2.1, fun ha => by have := h0.2.2.2 ha; omega⟩
    · simp at h

/-- **searchAll_disjoint_ordered**: the matches that `searchAll` (and `split`, `replace`,
    `replaceBy`) iterate over lie inside the string, come in increasing order, do not overlap,
    and no two of them are the same empty match. -/
theorem matchesFrom_disjoint_ordered (fuel : Nat) (lim : Option Nat) (pos : Nat) (adv : Bool) :
    (matchesFrom M p f s fuel lim pos adv).Pairwise
      (fun a b => a.whole.stop ≤ b.whole.start ∧ a.whole.start < b.whole.stop) := by
  induction fuel generalizing lim pos adv with
  | zero => simp [matchesFrom]
  | succ n ih =>
    unfold matchesFrom
    split
    · split
      · exact List.Pairwise.nil
      · next m0 hstep =>
        have h0 := step_sane M p f s hstep
        refine List.Pairwise.cons (fun b hb => ?_) (ih _ _ _)
        have hb' := mem_matchesFrom M p f s hb
        refine ⟨hb'.1, ?_⟩
        by_cases he : m0.whole.stop = m0.whole.start
        · have := hb'.2.2.2 (by simp [he]); omega
        · omega
    · exact List.Pairwise.nil

theorem searchAll_disjoint_ordered (lim : Option Nat) :
    (∀ m ∈ allMatches M p f s lim, m.whole.start ≤ m.whole.stop ∧ m.whole.stop ≤ s.length) ∧
    (allMatches M p f s lim).Pairwise
      (fun a b => a.whole.stop ≤ b.whole.start ∧ a.whole.start < b.whole.stop) :=
  ⟨fun _ hm => let h := mem_matchesFrom M p f s hm; ⟨h.2.1, h.2.2.1⟩,
   matchesFrom_disjoint_ordered M p f s _ _ _ _⟩

/-- a chain of matches, each starting at or after the end of the previous one (`last`) -/
def Ordered (len : Nat) : Nat → List Match → Prop
  | _, [] => True
  | last, m :: ms =>
    last ≤ m.whole.start ∧ m.whole.start ≤ m.whole.stop ∧ m.whole.stop ≤ len ∧ Ordered len m.whole.stop ms

theorem matchesFrom_ordered (fuel : Nat) (lim : Option Nat) (pos : Nat) (adv : Bool) :
    Ordered s.length pos (matchesFrom M p f s fuel lim pos adv) := by
  induction fuel generalizing lim pos adv with
  | zero => simp [matchesFrom, Ordered]
  | succ n ih =>
    unfold matchesFrom
    split
    · split
      · trivial
      · next m0 hstep =>
        have h0 := step_sane M p f s hstep
        exact ⟨h0.1, h0.2.1, h0.2.2.1, ih _ _ _⟩
    · trivial

/-- the fuel of `allMatches` is never the reason the iteration stops: with the limit out of
    the way, more fuel gives the same matches -/
theorem matchesFrom_fuel (fuel : Nat) (lim : Option Nat) (pos : Nat) (adv : Bool)
    (hf : 2 * (s.length - pos) + (if adv then 0 else 1) < fuel) (hp : pos ≤ s.length) :
    matchesFrom M p f s (fuel + 1) lim pos adv = matchesFrom M p f s fuel lim pos adv := by
  induction fuel generalizing lim pos adv with
  | zero => omega
  | succ n ih =>
    rw [matchesFrom]
    conv => rhs; rw [matchesFrom]
    split
    · split
      · rfl
      · next m0 hstep =>
        have h0 := step_sane M p f s hstep
        congr 1
        apply ih
        · by_cases he : m0.whole.stop = m0.whole.start
          · simp only [he, beq_self_eq_true, if_true]
            cases adv with
            | true => have := h0.2.2.2 rfl; simp only [if_true] at hf; omega
            | false => simp only [Bool.false_eq_true, if_false] at hf; omega
          · have hne : (m0.whole.stop == m0.whole.start) = false := by simpa using he
            simp only [hne, Bool.false_eq_true, if_false]
            split at hf <;> omega
        · exact h0.2.2.1
    · rfl

theorem allMatches_fuel (lim : Option Nat) (extra : Nat) :
    matchesFrom M p f s (fuelFor s + extra) lim 0 false = allMatches M p f s lim := by
  induction extra with
  | zero => rfl
  | succ n ih =>
    rw [← ih, ← Nat.add_assoc]
    apply matchesFrom_fuel
    · simp only [fuelFor, Bool.false_eq_true, if_false]; omega
    · omega

/-! ### split -/

theorem drop_split (last a : Nat) (h1 : last ≤ a) (h2 : last ≤ s.length) :
    s.drop last = (s.take a).drop last ++ s.drop a := by
  have e : s.drop last = (s.take a ++ s.drop a).drop last := by rw [List.take_append_drop]
  rw [e, List.drop_append_of_le_length]
  rw [List.length_take]; omega

theorem weave_pieces (last : Nat) (ms : List Match) (h : Ordered s.length last ms) (hl : last ≤ s.length) :
    weave (pieces s last ms) (ms.map fun m => m.whole.text s) = s.drop last := by
  induction ms generalizing last with
  | nil => simp [pieces, weave]
  | cons m ms ih =>
    obtain ⟨h1, h2, h3, h4⟩ := h
    simp only [pieces, List.map_cons, weave]
    rw [ih _ h4 h3]
    simp only [Span.text]
    rw [drop_split s last m.whole.start h1 hl, drop_split s m.whole.start m.whole.stop h2 (by omega)]

/-- the items `split` returns, without the group texts it puts after every piece -/
def dropGroupItems : List (Option Str) → List Match → List (Option Str)
  | l, [] => l
  | [], _ :: _ => []
  | it :: rest, m :: ms => it :: dropGroupItems (rest.drop m.groups.length) ms

theorem splitItems_pieces (last : Nat) (ms : List Match) :
    dropGroupItems (splitItems s last ms) ms = (pieces s last ms).map some := by
  induction ms generalizing last with
  | nil => simp [splitItems, pieces, dropGroupItems]
  | cons m ms ih =>
    simp only [splitItems, pieces, List.map_cons, dropGroupItems, List.cons_append]
    rw [List.drop_left' (by simp), ih]

/-- **split_matches_reassemble**: `split` cuts the string at the matches found by the same
    iteration as `searchAll` (at most `maxSplit` of them when that is positive, none when it is
    negative); its result is the pieces between the matches, each followed by the texts of the
    match's groups; and interleaving the pieces with the matches gives the string back. -/
theorem split_matches_reassemble (maxSplit : Int) :
    let ms := allMatches M p f s (limOf maxSplit)
    reSplit M p f s maxSplit = splitItems s 0 ms ∧
    dropGroupItems (reSplit M p f s maxSplit) ms = (pieces s 0 ms).map some ∧
    weave (pieces s 0 ms) (ms.map fun m => m.whole.text s) = s := by
  intro ms
  refine ⟨rfl, splitItems_pieces s 0 ms, ?_⟩
  have := weave_pieces s 0 ms (matchesFrom_ordered M p f s _ _ _ _) (Nat.zero_le _)
  simpa using this

/-- without groups the result of `split` is just the pieces -/
theorem split_no_groups (maxSplit : Int) (h : ∀ m ∈ allMatches M p f s (limOf maxSplit), m.groups = []) :
    reSplit M p f s maxSplit = (pieces s 0 (allMatches M p f s (limOf maxSplit))).map some := by
  unfold reSplit
  generalize allMatches M p f s (limOf maxSplit) = ms at h
  generalize 0 = last
  induction ms generalizing last with
  | nil => simp [splitItems, pieces]
  | cons m ms ih =>
    simp only [splitItems, pieces, List.map_cons, h m (by simp), List.map_nil]
    rw [ih (fun x hx => h x (by simp [hx]))]
    rfl

/-! ### replace / replaceBy -/

theorem subGo_weave (last : Nat) (prs : List (Match × Str)) :
    subGo s last prs = weave (pieces s last (prs.map Prod.fst)) (prs.map Prod.snd) := by
  induction prs generalizing last with
  | nil => simp [subGo, pieces, weave]
  | cons pr prs ih =>
    obtain ⟨m, r⟩ := pr
    simp only [subGo, List.map_cons, pieces, weave, ih]

theorem mapE_pairs {g : Match → Except Err (Match × Str)} {t : Match → Except Err Str}
    (hg : ∀ m, g m = match t m with | .ok x => .ok (m, x) | .error e => .error e)
    {ms : List Match} {prs : List (Match × Str)} (h : mapE g ms = .ok prs) :
    prs.map Prod.fst = ms ∧ mapE t ms = .ok (prs.map Prod.snd) := by
  induction ms generalizing prs with
  | nil => simp only [mapE] at h; cases h; simp [mapE]
  | cons m ms ih =>
    simp only [mapE, hg m] at h ⊢
    cases ht : t m with
    | error e => simp [ht] at h
    | ok x =>
      simp only [ht] at h
      cases hr : mapE g ms with
      | error e => simp [hr] at h
      | ok prs' =>
        simp only [hr] at h
        cases h
        obtain ⟨h1, h2⟩ := ih hr
        simp [h1, h2]

/-- **replace_splice** (template form): when `replace` succeeds its result is the pieces
    between the matches - the same pieces `split` returns - with the expansion of the template
    for each match spliced in between, in order. -/
theorem replace_splice (repl : List TItem) (count : Int) (out : Str)
    (h : reReplace M p f s repl count = .ok out) :
    let ms := allMatches M p f s (limOf count)
    ∃ texts, mapE (fun m => expand s m repl) ms = .ok texts ∧ out = weave (pieces s 0 ms) texts := by
  intro ms
  simp only [reReplace] at h
  split at h
  · cases h
  · next prs hprs =>
    cases h
    obtain ⟨h1, h2⟩ := mapE_pairs (t := fun m => expand s m repl) (fun m => by cases expand s m repl <;> rfl) hprs
    exact ⟨_, h2, by rw [subGo_weave, h1]⟩

/-- the same for `replaceBy`: the text for a match is what the selector returns in a context in
    which that match has been published (`null` counting as the empty string) -/
theorem replaceBy_splice (repl : Sel) (count : Int) (ctx : Bindings) (out : Str)
    (h : reReplaceBy M p f s repl count ctx = .ok out) :
    let ms := allMatches M p f s (limOf count)
    ∃ texts, mapE (fun m => match evalSel (publishMatch s m ctx) repl with
        | .error e => .error e
        | .ok v => replText v) ms = .ok texts ∧ out = weave (pieces s 0 ms) texts := by
  intro ms
  simp only [reReplaceBy] at h
  split at h
  · cases h
  · next prs hprs =>
    cases h
    obtain ⟨h1, h2⟩ := mapE_pairs (t := fun m => match evalSel (publishMatch s m ctx) repl with
        | .error e => .error e
        | .ok v => replText v) (fun m => by
          cases evalSel (publishMatch s m ctx) repl with
          | error e => rfl
          | ok v => cases replText v <;> rfl) hprs
    exact ⟨_, h2, by rw [subGo_weave, h1]⟩

/-- replacing every match by its own text changes nothing -/
theorem replace_identity (lim : Option Nat) :
    subGo s 0 ((allMatches M p f s lim).map fun m => (m, m.whole.text s)) = s := by
  rw [subGo_weave]
  have := weave_pieces s 0 (allMatches M p f s lim) (matchesFrom_ordered M p f s _ _ _ _) (Nat.zero_le _)
  simpa [List.map_map, Function.comp_def] using this

/-- a `count` of zero or less than zero: every match, resp. none (the string is returned as is) -/
theorem replace_negative_count (repl : List TItem) (count : Int) (hc : count < 0) :
    reReplace M p f s repl count = .ok s := by
  have hl : limOf count = some 0 := by
    unfold limOf
    have : count ≠ 0 := by omega
    simp only [this, if_false]
    congr 1; omega
  simp [reReplace, allMatches, hl, fuelFor, matchesFrom, more, mapE, subGo]

/-! ### search / searchAll -/

theorem mapE_ok {α β : Type} (g : α → β) (l : List α) : mapE (fun a => .ok (g a)) l = .ok (l.map g) := by
  induction l with
  | nil => rfl
  | cons a l ih => simp [mapE, ih]

/-- without a selector `searchAll` returns the texts of the matches, `search` the text of the
    first one (or `null`) -/
theorem searchAll_texts (ctx : Bindings) :
    searchAll M p f s none ctx = .ok ((allMatches M p f s none).map fun m => .atom (.str (m.whole.text s))) := by
  simp only [searchAll]
  exact mapE_ok _ _

theorem search_first (sel : Option Sel) (ctx : Bindings) :
    search M p f s sel ctx =
      match (allMatches M p f s none).head? with
      | none => .ok (.atom .null)
      | some m => selectOn s sel ctx m := by
  simp only [search, allMatches, fuelFor, matchesFrom, more]
  cases step M p f s 0 false <;> rfl

theorem matches_iff_search :
    reMatches M p f s = true ↔ (allMatches M p f s none) ≠ [] := by
  simp only [reMatches, allMatches, fuelFor, matchesFrom, more]
  cases step M p f s 0 false <;> simp

/-! ### published variables -/

theorem lookup_bind_self (b : Bindings) (k : Key) (r : Rec) : lookup (setVar b k r) k = some r := by
  simp [setVar, lookup]

theorem lookup_bind_ne (b : Bindings) (k k' : Key) (r : Rec) (h : k' ≠ k) : lookup (setVar b k' r) k = lookup b k := by
  simp [setVar, lookup, h]

theorem publishNames_num (m : Match) (l : List (Str × Nat)) (ctx : Bindings) (k : Nat) :
    lookup (publishNames s m l ctx) (.num k) = lookup ctx (.num k) := by
  induction l generalizing ctx with
  | nil => rfl
  | cons a l ih =>
    obtain ⟨nm, gi⟩ := a
    simp only [publishNames]
    rw [ih, lookup_bind_ne _ _ _ _ (by simp)]

theorem publishNames_other (m : Match) (l : List (Str × Nat)) (ctx : Bindings) (nm : Str)
    (h : ∀ gi, (nm, gi) ∉ l) :
    lookup (publishNames s m l ctx) (.name nm) = lookup ctx (.name nm) := by
  induction l generalizing ctx with
  | nil => rfl
  | cons a l ih =>
    obtain ⟨n', g'⟩ := a
    simp only [publishNames]
    rw [ih _ (fun gi hgi => h gi (by simp [hgi])), lookup_bind_ne]
    intro he
    cases he
    exact h g' (by simp)

theorem publishNames_name (m : Match) (l : List (Str × Nat)) (ctx : Bindings) (nm : Str) (gi : Nat)
    (huniq : ∀ gi', (nm, gi') ∈ l → gi' = gi)
    (h : (nm, gi) ∈ l ∨ lookup ctx (.name nm) = some (recOf s (groupSpan m gi))) :
    lookup (publishNames s m l ctx) (.name nm) = some (recOf s (groupSpan m gi)) := by
  induction l generalizing ctx with
  | nil =>
    rcases h with h | h
    · simp at h
    · exact h
  | cons a l ih =>
    obtain ⟨n', g'⟩ := a
    simp only [publishNames]
    apply ih _ (fun gi' hgi' => huniq gi' (by simp [hgi']))
    by_cases hn : n' = nm
    · subst hn
      have : g' = gi := huniq g' (by simp)
      subst this
      exact Or.inr (lookup_bind_self _ _ _)
    · rcases h with h | h
      · rcases List.mem_cons.mp h with h | h
        · cases h; exact absurd rfl hn
        · exact Or.inl h
      · right
        rw [lookup_bind_ne _ _ _ _ (by simpa using hn)]
        exact h

theorem publishGroups_low (gs : List (Option Span)) (i : Nat) (ctx : Bindings) (k : Nat) (h : k ≤ i) :
    lookup (publishGroups s gs i ctx) (.num k) = lookup ctx (.num k) := by
  induction gs generalizing i ctx with
  | nil => rfl
  | cons g gs ih =>
    simp only [publishGroups]
    rw [ih _ _ (by omega), lookup_bind_ne _ _ _ _ (by simp; omega)]

theorem publishGroups_high (gs : List (Option Span)) (i : Nat) (ctx : Bindings) (k : Nat)
    (h : i + gs.length < k) :
    lookup (publishGroups s gs i ctx) (.num k) = lookup ctx (.num k) := by
  induction gs generalizing i ctx with
  | nil => rfl
  | cons g gs ih =>
    simp only [publishGroups]
    rw [ih _ _ (by simp only [List.length_cons] at h; omega), lookup_bind_ne _ _ _ _ (by simp only [List.length_cons] at h; simp; omega)]

theorem publishGroups_name (gs : List (Option Span)) (i : Nat) (ctx : Bindings) (nm : Str) :
    lookup (publishGroups s gs i ctx) (.name nm) = lookup ctx (.name nm) := by
  induction gs generalizing i ctx with
  | nil => rfl
  | cons g gs ih =>
    simp only [publishGroups]
    rw [ih, lookup_bind_ne _ _ _ _ (by simp)]

theorem publishGroups_get (gs : List (Option Span)) (i : Nat) (ctx : Bindings) (j : Nat) (h : j < gs.length) :
    lookup (publishGroups s gs i ctx) (.num (i + 1 + j)) = some (recOf s gs[j]) := by
  induction gs generalizing i ctx j with
  | nil => simp at h
  | cons g gs ih =>
    simp only [publishGroups]
    cases j with
    | zero =>
      rw [publishGroups_low _ _ _ _ _ (by omega)]
      exact lookup_bind_self _ _ _
    | succ j =>
      have e : i + 1 + (j + 1) = (i + 1) + 1 + j := by omega
      rw [e, ih (i + 1) _ j (by simpa using h)]
      rfl

/-- **publish_binds**.  In the context the selector runs in, `$1` is the record of the whole
    match, `$k+1` the record of group `k` (1 <= k <= number of groups), `$name` the record of
    the named group (the names of a pattern being distinct); each record holds
    value/start/end (null, -1, -1 for a group that did not take part); every other variable
    keeps the value it had in the enclosing context. -/
theorem publish_binds (m : Match) (ctx : Bindings) :
    let b := publishMatch s m ctx
    lookup b (.num 1) = some (recOf s (some m.whole)) ∧
    (∀ k (h : k < m.groups.length), lookup b (.num (k + 2)) = some (recOf s m.groups[k])) ∧
    (∀ nm gi, (nm, gi) ∈ m.names → (∀ gi', (nm, gi') ∈ m.names → gi' = gi) →
      lookup b (.name nm) = some (recOf s (groupSpan m gi))) ∧
    lookup b (.num 0) = lookup ctx (.num 0) ∧
    (∀ k, m.groups.length + 1 < k → lookup b (.num k) = lookup ctx (.num k)) ∧
    (∀ nm, (∀ gi, (nm, gi) ∉ m.names) → lookup b (.name nm) = lookup ctx (.name nm)) := by
  intro b
  refine ⟨?_, ?_, ?_, ?_, ?_, ?_⟩
  · simp only [b, publishMatch]
    rw [publishNames_num, publishGroups_low _ _ _ _ _ (Nat.le_refl _)]
    exact lookup_bind_self _ _ _
  · intro k h
    simp only [b, publishMatch]
    rw [publishNames_num]
    have e : k + 2 = 1 + 1 + k := by omega
    rw [e]
    exact publishGroups_get s m.groups 1 _ k h
  · intro nm gi hmem huniq
    simp only [b, publishMatch]
    exact publishNames_name s m m.names _ nm gi huniq (Or.inl hmem)
  · simp only [b, publishMatch]
    rw [publishNames_num, publishGroups_low _ _ _ _ _ (by omega), lookup_bind_ne _ _ _ _ (by simp)]
  · intro k hk
    simp only [b, publishMatch]
    rw [publishNames_num, publishGroups_high _ _ _ _ _ (by omega), lookup_bind_ne _ _ _ _ (by simp; omega)]
  · intro nm h
    simp only [b, publishMatch]
    rw [publishNames_other _ _ _ _ _ h, publishGroups_name, lookup_bind_ne _ _ _ _ (by simp)]

/-- the value of a record is the text of its span: `$k.value = s[$k.start : $k.end]` -/
theorem record_value (sp : Span) :
    (recOf s (some sp)).value = some ((s.take (recOf s (some sp)).stop.toNat).drop (recOf s (some sp)).start.toNat) := by
  simp [recOf, Span.text]

/-! ### the statements are not vacuous: a concrete matcher, a concrete run -/

/-- a toy matcher: finds the letter `a` -/
def findA : Matcher Unit := fun _ _ s pos _ =>
  match findUp (fun i => s[i]? == some 'a') pos (s.length - pos) with
  | some i => some { whole := ⟨i, i + 1⟩, groups := [some ⟨i, i + 1⟩], names := [(['n'], 1)] }
  | none => none

example : (allMatches findA () {} "xaba".toList none).map (fun m => (m.whole.start, m.whole.stop)) = [(1, 2), (3, 4)] := by
  decide
example : reSplit findA () {} "xaba".toList 0 =
    [some ['x'], some ['a'], some ['b'], some ['a'], some []] := by decide
example : (reReplace findA () {} "xaba".toList [.lit ['<'], .name ['n'], .lit ['>']] 1).toOption = some "x<a>ba".toList := by
  decide
example : (search findA () {} "xaba".toList
      (some (.list [.field (.name ['n']) .start, .field (.num 2) .value, .var (.num 3)]))).toOption =
    some (.list [.int 1, .str ['a'], .null]) := by decide

end Yaql.Props.C19Regex
