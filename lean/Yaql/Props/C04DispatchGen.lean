import Yaql.Props.C04Dispatch
import Yaql.Props.C04DispatchGenA
import Yaql.Props.C04DispatchGenB
import Yaql.Props.C04DispatchGenC
import Yaql.Props.C04DispatchGenD
/-!
C04 / C05 over the generated registry: **the direct dispatch of the reference interpreter is overload resolution on
the live registry**.

`Gen/RegistryTypes.lean` is what `harness/gens/regtypes.py` reads off `yaql.create_context()` on every run: every
FunctionDefinition of every layer with the exact smart type of every parameter (`Types.PTy` over the closed class
universe of the registry, `issubclass` computed on the live classes, validators and expression classes identified by
their verdicts on probe values), defaults, kinds, `no_kwargs`, exclusivity.  For every call site of `Model/Eval.lean`
(`EvalDispatch.Callee`) and every argument shape of the checked fragment (`EvalDispatch.patterns`: 21 145 calls),
`Resolve.resolve` on the live overload family of the called name

* picks exactly the definition - identified by the python payload `module.function` - that `EvalDispatch.dispatchOf`
  says Eval's code implements, or
* answers with the same error class (Unknown function / method, NoMatching, MappingTranslation; never Ambiguous), and
* evaluates the same arguments before it decides (none at all when the literals already rule every overload out).

`C04Dispatch_partial` is the statement for the fragment, `dispatch_on_values` its corollary for all argument VALUES
(`C04Dispatch.resolve_kinds`: resolution depends on values through their kinds only).  `C04Dispatch_full` is the
statement for every call shape `dispatchOf` answers for (argument lists of any length, mapping rules of any nesting);
what is missing is listed in notes/C04Dispatch.md.
-/
namespace Yaql.Props.C04DispatchGen
open Yaql Yaql.Eval Yaql.Types Yaql.Resolve Yaql.EvalDispatch Yaql.Gen.RegistryTypes Yaql.Props.C04Dispatch

set_option maxRecDepth 1000000

/-- one call site: the three kernel checks give the statement for every call shape of its patterns -/
theorem site_ok {c : Callee} (ho : siteObs c = true) (hi : siteInv c = true) (hr : siteReps c = true) :
    ∀ p ∈ patterns c, ∀ s ∈ p.shapes c, dispatchOf s = some (resolveIn univ (groupOfCallee c) s) := by
  intro p hp
  exact pattern_ok ho (List.all_eq_true.1 hi p hp) (List.all_eq_true.1 hr p hp)

/-- the FULL statement: wherever `dispatchOf` answers (argument lists of every length, every nesting of mapping
    rules, every keyword), resolution on the live registry gives that answer -/
def C04Dispatch_full : Prop :=
  ∀ (s : CallShape) (d : Disp), dispatchOf s = some d → resolveIn univ (groupOfCallee s.callee) s = d

/-- **C04/C05, generated part**: for every call site of the reference interpreter and every call shape of the
    fragment, Eval's direct dispatch IS overload resolution on the live registry -/
theorem C04Dispatch_partial :
    ∀ c ∈ Callee.fixed, ∀ p ∈ patterns c, ∀ s ∈ p.shapes c,
      dispatchOf s = some (resolveIn univ (groupOfCallee c) s) := by
  intro c hc
  simp only [Callee.fixed, EvalDispatch.BinOp.all, EvalDispatch.Fn.all, List.map_cons, List.map_nil, List.cons_append,
    List.nil_append, List.mem_cons, List.not_mem_nil, or_false] at hc
  rcases hc with rfl | rfl | rfl | rfl | rfl | rfl | rfl | rfl | rfl | rfl | rfl | rfl | rfl | rfl | rfl | rfl | rfl |
    rfl | rfl | rfl | rfl | rfl | rfl | rfl | rfl | rfl | rfl | rfl | rfl | rfl | rfl | rfl | rfl | rfl | rfl | rfl |
    rfl | rfl | rfl | rfl | rfl | rfl | rfl | rfl
  · exact site_ok obs_getContextData inv_getContextData reps_getContextData
  · exact site_ok obs_list inv_list reps_list
  · exact site_ok obs_map inv_map reps_map
  · exact site_ok obs_indexer inv_indexer reps_indexer
  · exact site_ok obs_dot inv_dot reps_dot
  · exact site_ok obs_arrow inv_arrow reps_arrow
  · exact site_ok obs_un_not inv_un_not reps_un_not
  · exact site_ok obs_un_neg inv_un_neg reps_un_neg
  · exact site_ok obs_bin_add inv_bin_add reps_bin_add
  · exact site_ok obs_bin_sub inv_bin_sub reps_bin_sub
  · exact site_ok obs_bin_mul inv_bin_mul reps_bin_mul
  · exact site_ok obs_bin_eq inv_bin_eq reps_bin_eq
  · exact site_ok obs_bin_ne inv_bin_ne reps_bin_ne
  · exact site_ok obs_bin_lt inv_bin_lt reps_bin_lt
  · exact site_ok obs_bin_le inv_bin_le reps_bin_le
  · exact site_ok obs_bin_gt inv_bin_gt reps_bin_gt
  · exact site_ok obs_bin_ge inv_bin_ge reps_bin_ge
  · exact site_ok obs_bin_and inv_bin_and reps_bin_and
  · exact site_ok obs_bin_or inv_bin_or reps_bin_or
  · exact site_ok obs_fn_let inv_fn_let reps_fn_let
  · exact site_ok obs_fn_with inv_fn_with reps_fn_with
  · exact site_ok obs_fn_def inv_fn_def reps_fn_def
  · exact site_ok obs_fn_list inv_fn_list reps_fn_list
  · exact site_ok obs_fn_dict inv_fn_dict reps_fn_dict
  · exact site_ok obs_fn_unpack inv_fn_unpack reps_fn_unpack
  · exact site_ok obs_fn_select inv_fn_select reps_fn_select
  · exact site_ok obs_fn_where inv_fn_where reps_fn_where
  · exact site_ok obs_fn_selectMany inv_fn_selectMany reps_fn_selectMany
  · exact site_ok obs_fn_orderBy inv_fn_orderBy reps_fn_orderBy
  · exact site_ok obs_fn_orderByDescending inv_fn_orderByDescending reps_fn_orderByDescending
  · exact site_ok obs_fn_takeWhile inv_fn_takeWhile reps_fn_takeWhile
  · exact site_ok obs_fn_skipWhile inv_fn_skipWhile reps_fn_skipWhile
  · exact site_ok obs_fn_indexWhere inv_fn_indexWhere reps_fn_indexWhere
  · exact site_ok obs_fn_toDict inv_fn_toDict reps_fn_toDict
  · exact site_ok obs_fn_aggregate inv_fn_aggregate reps_fn_aggregate
  · exact site_ok obs_fn_sum inv_fn_sum reps_fn_sum
  · exact site_ok obs_fn_first inv_fn_first reps_fn_first
  · exact site_ok obs_fn_toList inv_fn_toList reps_fn_toList
  · exact site_ok obs_fn_take inv_fn_take reps_fn_take
  · exact site_ok obs_fn_skip inv_fn_skip reps_fn_skip
  · exact site_ok obs_fn_get inv_fn_get reps_fn_get
  · exact site_ok obs_fn_len inv_fn_len reps_fn_len
  · exact site_ok obs_fn_any inv_fn_any reps_fn_any
  · exact site_ok obs_fn_all inv_fn_all reps_fn_all

/-! ## (c) for all argument values -/

/-- **C04/C05 for all values**: take any call shape `s` of the fragment and ANY real call whose receiver, literals,
    keyword values, mapping-rule values and argument results are arbitrary values of the kinds `s` names (any tags,
    i.e. any values of those classes passing the same validators; probe ids numbered by argument position).  Overload
    resolution on the live registry picks the definition `dispatchOf s` names - or raises its error class - after
    evaluating the arguments it lists. -/
theorem dispatch_on_values {c : Callee} (hc : c ∈ Callee.fixed) {p : Pattern} (hp : p ∈ patterns c)
    {s : CallShape} (hs : s ∈ p.shapes c) (call : Call)
    (hargs : List.Forall₂ SameKind (callArgs call) (callArgs (toCall univ s)))
    (hkw : call.kwargs = []) (hrecv : call.receiver.isSome = s.receiver.isSome) :
    dispatchOf s = some (ofResolve (groupOfCallee c).members (resolve lattice (groupOfCallee c).layers call)) := by
  rw [C04Dispatch_partial c hc p hp s hs]
  congr 1
  unfold resolveIn
  apply ofResolve_choice
  apply (resolve_kinds _ _ hargs ?_ ?_).symm
  · rw [hkw]; exact .nil
  · rw [hrecv]; simp only [toCall]; cases s.receiver <;> rfl

/-- an evaluator object as the parameter types see it: any tag -/
def valOf (o : Obj) (tag : Nat) : Val :=
  match kindVal (kindOf o) with
  | .none => .none
  | .obj c ps _ => .obj c ps tag

theorem valOf_sameKind (o : Obj) (tag : Nat) : SameKindV (valOf o tag) (univ.kindVal (kindOf o)) := by
  show SameKindV (valOf o tag) (kindVal (kindOf o))
  unfold valOf
  cases kindVal (kindOf o) with
  | none => exact trivial
  | obj c ps t => exact ⟨rfl, rfl⟩

/-- the argument `Eval.step` hands over for a non-constant expression `e` whose value is the object `o` -/
theorem expr_arg_sameKind (fn : Bool) (p tag : Nat) (o : Obj) :
    SameKind (.expr (if fn then ekFn else ekOther) p fn (valOf o tag)) (toArgP univ p (.expr fn (kindOf o))) :=
  .expr (valOf_sameKind o tag)

theorem recv_arg_sameKind (tag : Nat) (o : Obj) : SameKind (.value (valOf o tag)) (.value (univ.kindVal (kindOf o))) :=
  .value (valOf_sameKind o tag)

/-! ## `e.name` falls back to `#property#name`; only the date/time member names are registered -/

/-- the registry's group of a name -/
def registryGroup (n : EvalDispatch.Name) : Option Group := groups.find? fun g => g.name == n

theorem property_functions :
    groups.all (fun g => !(N.propertyPrefix.isPrefixOf g.name) ||
      dateTimeProperties.contains (g.name.drop N.propertyPrefix.length)) = true ∧
    dateTimeProperties.all (fun n => (registryGroup (N.propertyPrefix ++ n)).isSome) = true := by
  decide +kernel

/-- every other member name is an unknown function: nothing is registered under `#property#name` -/
theorem property_unknown (n : EvalDispatch.Name) (h : dateTimeProperties.contains n = false) :
    registryGroup (N.propertyPrefix ++ n) = none := by
  unfold registryGroup
  rw [List.find?_eq_none]
  intro g hg hname
  have hn : g.name = N.propertyPrefix ++ n := by simpa using hname
  have hall := List.all_eq_true.1 property_functions.1 g hg
  rw [hn] at hall
  have hpre : N.propertyPrefix.isPrefixOf (N.propertyPrefix ++ n) = true :=
    List.isPrefixOf_iff_prefix.2 (List.prefix_append _ _)
  rw [hpre, List.drop_left, h] at hall
  simp at hall

theorem property_dispatch (n : EvalDispatch.Name) (h : dateTimeProperties.contains n = false) (recv : Option Kind)
    (args : List AShape) :
    dispatchOf ⟨.property n, recv, args⟩ = some ⟨[], .unknown⟩ ∧
    (resolveIn univ (groupOfCallee (.property n)) ⟨.property n, recv, args⟩).out = .unknown := by
  constructor
  · simp only [dispatchOf, h]
    rfl
  · rfl

/-! ## the generated tables are what the model takes them for -/

/-- the group the translator hands over for a call site is the registry's group of the name the site calls -/
theorem callee_groups :
    Callee.fixed.all (fun c =>
      (groupOfCallee c).name == c.name &&
      (match groups.find? (fun g => g.name == c.name) with
       | some g => g.members.map (·.fd.id) == (groupOfCallee c).members.map (·.fd.id)
       | none => (groupOfCallee c).members.isEmpty)) = true := by
  decide +kernel

/-- kinds are uniform, no validator raised, ids are positions, every group lists its members layer by layer over all
    layers, group names are distinct, the expression classes collapse to `Function` / the rest, and the engine's
    operators call the functions the model names -/
theorem table_sane :
    nonUniformKinds = [] ∧ validatorsRaising = [] ∧
    defs.map (·.fd.id) = List.range defs.length ∧
    groups.all (fun g => g.layers.length == nLayers &&
      g.layers.flatMap (fun l => l.fns.map (·.id)) == g.members.map (·.fd.id)) = true ∧
    (groups.flatMap fun g => g.members.map (·.fd.id)).length = defs.length ∧
    EK.all.all (fun e => ekInfo e == (if e == .function then (ekFn, true) else (ekOther, false)) &&
      (ekInfo e).2 == e.usesReceiver) = true ∧
    ekFn ≠ ekOther ∧
    EvalDispatch.BinOp.all.all (fun op => operatorTable.contains (binSymbol op, false, binName op)) = true ∧
    operatorTable.contains (unSymbol .not, true, unName .not) = true ∧
    operatorTable.contains (unSymbol .neg, true, unName .neg) = true := by
  decide +kernel

/-! ## non-vacuity -/

private def call2 (a b : Val) : Call := { receiver := none, args := [.value a, .value b], kwargs := [] }
private def outOf (c : Callee) (call : Call) : Disp :=
  ofResolve (groupOfCallee c).members (resolve lattice (groupOfCallee c).layers call)

/-- `+` has seven definitions; four of them answer for evaluator values, by the kinds of the operands -/
example : (groupOfCallee (.bin .add)).members.length = 7 ∧
    outOf (.bin .add) (call2 (kindVal .int) (kindVal .float)) = ⟨[], .target [109, 97, 116, 104, 46, 98, 105, 110, 97, 114, 121, 95, 112, 108, 117, 115]⟩ ∧
    (outOf (.bin .add) (call2 (kindVal .str) (kindVal .str))).out ≠ (outOf (.bin .add) (call2 (kindVal .int) (kindVal .int))).out ∧
    (outOf (.bin .add) (call2 (kindVal .tuple) (kindVal .lazy))).out ≠ (outOf (.bin .add) (call2 (kindVal .dict) (kindVal .dict))).out ∧
    outOf (.bin .add) (call2 (kindVal .int) (kindVal .str)) = ⟨[], .noMatching⟩ ∧
    outOf (.bin .add) (call2 (kindVal .bool) (kindVal .int)) = ⟨[], .noMatching⟩ := by
  decide +kernel

/-- specialization decides: for two datetimes BOTH `common.eq (object, object)` and `date_time.datetime_eq_datetime`
    are type-compatible and in one layer; the more specific one wins (not Ambiguous) -/
example :
    (outOf (.bin .eq) (call2 datetimeVal datetimeVal)).out =
      .target [100, 97, 116, 101, 95, 116, 105, 109, 101, 46, 100, 97, 116, 101, 116, 105, 109, 101, 95, 101, 113, 95, 100, 97, 116, 101, 116, 105, 109, 101] ∧
    (outOf (.bin .eq) (call2 datetimeVal (kindVal .int))).out = .target [99, 111, 109, 109, 111, 110, 46, 101, 113] := by
  decide +kernel

/-- the nearest layer wins: `dict.key` is answered in layer 1 although `system.get_property` of layer 2 accepts the
    same arguments (it answers for a receiver no definition of layer 1 takes) -/
example :
    (dispatchOf ⟨.dot, none, [.expr false .dict, .kw ['a']]⟩).map (·.out) =
      some (.target [99, 111, 108, 108, 101, 99, 116, 105, 111, 110, 115, 46, 100, 105, 99, 116, 95, 107, 101, 121, 119, 111, 114, 100, 95, 97, 99, 99, 101, 115, 115]) ∧
    (ofResolve (groupOfCallee .dot).members
      (resolve lattice ((groupOfCallee .dot).layers.drop 2) (toCall univ ⟨.dot, none, [.expr false .dict, .kw ['a']]⟩))).out =
      .target [115, 121, 115, 116, 101, 109, 46, 103, 101, 116, 95, 112, 114, 111, 112, 101, 114, 116, 121] ∧
    (dispatchOf ⟨.dot, none, [.expr false .int, .kw ['a']]⟩).map (·.out) =
      some (.target [115, 121, 115, 116, 101, 109, 46, 103, 101, 116, 95, 112, 114, 111, 112, 101, 114, 116, 121]) := by
  decide +kernel

/-- `len` has five definitions (string, sequence, dict, set, iterator); `*` seven, among them the repetition
    overloads in both orders; a literal operand no definition takes is refused before anything is evaluated -/
example :
    (groupOfCallee (.fn .len)).members.length = 5 ∧ (groupOfCallee (.bin .mul)).members.length = 7 ∧
    (dispatchOf ⟨.fn .len, some .str, []⟩).map (·.out) ≠ (dispatchOf ⟨.fn .len, some .tuple, []⟩).map (·.out) ∧
    (dispatchOf ⟨.fn .len, some .lazy, []⟩).map (·.out) ≠ (dispatchOf ⟨.fn .len, some .dict, []⟩).map (·.out) ∧
    dispatchOf ⟨.fn .len, some .ordered, []⟩ = some ⟨[], .noMatching⟩ ∧
    (dispatchOf ⟨.bin .mul, none, [.expr false .int, .expr false .str]⟩).map (·.out) ≠
      (dispatchOf ⟨.bin .mul, none, [.expr false .str, .expr false .int]⟩).map (·.out) ∧
    dispatchOf ⟨.bin .mul, none, [.expr false .bool, .expr false .str]⟩ = some ⟨[1, 2], .noMatching⟩ ∧
    dispatchOf ⟨.bin .mul, none, [.lit .bool, .expr false .str]⟩ = some ⟨[], .noMatching⟩ := by
  decide +kernel

end Yaql.Props.C04DispatchGen
