import Yaql.Gen.RegistryTypes
/-!
C04 / C05 over the generated registry (`Gen/RegistryTypes.lean`, dumped from the live `yaql.create_context()` on
every run): for every call site of the reference interpreter and every argument shape of the checked fragment
(`EvalDispatch.fragment`), overload resolution (`Resolve.resolve`) on the LIVE overload family, with the live parameter
types, class lattice and layer structure, picks exactly the definition `EvalDispatch.dispatchOf` says `Model/Eval.lean`
implements - or answers with the same error class - after evaluating the same arguments.

Per call site `c` three kernel evaluations (`decide +kernel`):
* `obs_c`   the representatives the translator proposes (`repsOfCallee c`) look the same as the shapes they stand for
            to EVERY parameter type registered under the name, before and after evaluation;
* `inv_c`   `dispatchOf` gives every shape of the fragment the answer it gives its representative;
* `reps_c`  on the representatives, `dispatchOf` = resolution on the generated group.
`Props/C04Dispatch.lean` (`resolve_congr`) turns the three into the statement for every shape.
-/
namespace Yaql.Props.C04DispatchGen
open Yaql Yaql.Eval Yaql.Types Yaql.Resolve Yaql.EvalDispatch Yaql.Gen.RegistryTypes

def siteObs (c : Callee) : Bool := (repsOfCallee c).obsOk univ (groupOfCallee c)
def siteInv (c : Callee) : Bool := (patterns c).all fun p => p.invOk c (repsOfCallee c)
def siteReps (c : Callee) : Bool := (patterns c).all fun p => p.repsOk univ (groupOfCallee c) c (repsOfCallee c)

set_option maxRecDepth 1000000

theorem obs_getContextData : siteObs (.getContextData) = true := by decide +kernel
theorem inv_getContextData : siteInv (.getContextData) = true := by decide +kernel
theorem reps_getContextData : siteReps (.getContextData) = true := by decide +kernel

theorem obs_list : siteObs (.list) = true := by decide +kernel
theorem inv_list : siteInv (.list) = true := by decide +kernel
theorem reps_list : siteReps (.list) = true := by decide +kernel

theorem obs_map : siteObs (.map) = true := by decide +kernel
theorem inv_map : siteInv (.map) = true := by decide +kernel
theorem reps_map : siteReps (.map) = true := by decide +kernel

theorem obs_indexer : siteObs (.indexer) = true := by decide +kernel
theorem inv_indexer : siteInv (.indexer) = true := by decide +kernel
theorem reps_indexer : siteReps (.indexer) = true := by decide +kernel

theorem obs_dot : siteObs (.dot) = true := by decide +kernel
theorem inv_dot : siteInv (.dot) = true := by decide +kernel
theorem reps_dot : siteReps (.dot) = true := by decide +kernel

theorem obs_arrow : siteObs (.arrow) = true := by decide +kernel
theorem inv_arrow : siteInv (.arrow) = true := by decide +kernel
theorem reps_arrow : siteReps (.arrow) = true := by decide +kernel

theorem obs_un_not : siteObs (.un .not) = true := by decide +kernel
theorem inv_un_not : siteInv (.un .not) = true := by decide +kernel
theorem reps_un_not : siteReps (.un .not) = true := by decide +kernel

theorem obs_un_neg : siteObs (.un .neg) = true := by decide +kernel
theorem inv_un_neg : siteInv (.un .neg) = true := by decide +kernel
theorem reps_un_neg : siteReps (.un .neg) = true := by decide +kernel

theorem obs_bin_add : siteObs (.bin .add) = true := by decide +kernel
theorem inv_bin_add : siteInv (.bin .add) = true := by decide +kernel
theorem reps_bin_add : siteReps (.bin .add) = true := by decide +kernel

theorem obs_bin_sub : siteObs (.bin .sub) = true := by decide +kernel
theorem inv_bin_sub : siteInv (.bin .sub) = true := by decide +kernel
theorem reps_bin_sub : siteReps (.bin .sub) = true := by decide +kernel

theorem obs_bin_mul : siteObs (.bin .mul) = true := by decide +kernel
theorem inv_bin_mul : siteInv (.bin .mul) = true := by decide +kernel
theorem reps_bin_mul : siteReps (.bin .mul) = true := by decide +kernel

theorem obs_bin_eq : siteObs (.bin .eq) = true := by decide +kernel
theorem inv_bin_eq : siteInv (.bin .eq) = true := by decide +kernel
theorem reps_bin_eq : siteReps (.bin .eq) = true := by decide +kernel

theorem obs_bin_ne : siteObs (.bin .ne) = true := by decide +kernel
theorem inv_bin_ne : siteInv (.bin .ne) = true := by decide +kernel
theorem reps_bin_ne : siteReps (.bin .ne) = true := by decide +kernel

theorem obs_bin_lt : siteObs (.bin .lt) = true := by decide +kernel
theorem inv_bin_lt : siteInv (.bin .lt) = true := by decide +kernel
theorem reps_bin_lt : siteReps (.bin .lt) = true := by decide +kernel

theorem obs_bin_le : siteObs (.bin .le) = true := by decide +kernel
theorem inv_bin_le : siteInv (.bin .le) = true := by decide +kernel
theorem reps_bin_le : siteReps (.bin .le) = true := by decide +kernel

theorem obs_bin_gt : siteObs (.bin .gt) = true := by decide +kernel
theorem inv_bin_gt : siteInv (.bin .gt) = true := by decide +kernel
theorem reps_bin_gt : siteReps (.bin .gt) = true := by decide +kernel

theorem obs_bin_ge : siteObs (.bin .ge) = true := by decide +kernel
theorem inv_bin_ge : siteInv (.bin .ge) = true := by decide +kernel
theorem reps_bin_ge : siteReps (.bin .ge) = true := by decide +kernel

theorem obs_bin_and : siteObs (.bin .and) = true := by decide +kernel
theorem inv_bin_and : siteInv (.bin .and) = true := by decide +kernel
theorem reps_bin_and : siteReps (.bin .and) = true := by decide +kernel

theorem obs_bin_or : siteObs (.bin .or) = true := by decide +kernel
theorem inv_bin_or : siteInv (.bin .or) = true := by decide +kernel
theorem reps_bin_or : siteReps (.bin .or) = true := by decide +kernel

theorem obs_fn_let : siteObs (.fn .let_) = true := by decide +kernel
theorem inv_fn_let : siteInv (.fn .let_) = true := by decide +kernel
theorem reps_fn_let : siteReps (.fn .let_) = true := by decide +kernel

theorem obs_fn_with : siteObs (.fn .with_) = true := by decide +kernel
theorem inv_fn_with : siteInv (.fn .with_) = true := by decide +kernel
theorem reps_fn_with : siteReps (.fn .with_) = true := by decide +kernel

theorem obs_fn_def : siteObs (.fn .def_) = true := by decide +kernel
theorem inv_fn_def : siteInv (.fn .def_) = true := by decide +kernel
theorem reps_fn_def : siteReps (.fn .def_) = true := by decide +kernel

theorem obs_fn_list : siteObs (.fn .list) = true := by decide +kernel
theorem inv_fn_list : siteInv (.fn .list) = true := by decide +kernel
theorem reps_fn_list : siteReps (.fn .list) = true := by decide +kernel

theorem obs_fn_dict : siteObs (.fn .dict) = true := by decide +kernel
theorem inv_fn_dict : siteInv (.fn .dict) = true := by decide +kernel
theorem reps_fn_dict : siteReps (.fn .dict) = true := by decide +kernel

theorem obs_fn_unpack : siteObs (.fn .unpack) = true := by decide +kernel
theorem inv_fn_unpack : siteInv (.fn .unpack) = true := by decide +kernel
theorem reps_fn_unpack : siteReps (.fn .unpack) = true := by decide +kernel

theorem obs_fn_select : siteObs (.fn .select) = true := by decide +kernel
theorem inv_fn_select : siteInv (.fn .select) = true := by decide +kernel
theorem reps_fn_select : siteReps (.fn .select) = true := by decide +kernel

theorem obs_fn_where : siteObs (.fn .where_) = true := by decide +kernel
theorem inv_fn_where : siteInv (.fn .where_) = true := by decide +kernel
theorem reps_fn_where : siteReps (.fn .where_) = true := by decide +kernel

theorem obs_fn_selectMany : siteObs (.fn .selectMany) = true := by decide +kernel
theorem inv_fn_selectMany : siteInv (.fn .selectMany) = true := by decide +kernel
theorem reps_fn_selectMany : siteReps (.fn .selectMany) = true := by decide +kernel

theorem obs_fn_orderBy : siteObs (.fn .orderBy) = true := by decide +kernel
theorem inv_fn_orderBy : siteInv (.fn .orderBy) = true := by decide +kernel
theorem reps_fn_orderBy : siteReps (.fn .orderBy) = true := by decide +kernel

theorem obs_fn_orderByDescending : siteObs (.fn .orderByDescending) = true := by decide +kernel
theorem inv_fn_orderByDescending : siteInv (.fn .orderByDescending) = true := by decide +kernel
theorem reps_fn_orderByDescending : siteReps (.fn .orderByDescending) = true := by decide +kernel

theorem obs_fn_takeWhile : siteObs (.fn .takeWhile) = true := by decide +kernel
theorem inv_fn_takeWhile : siteInv (.fn .takeWhile) = true := by decide +kernel
theorem reps_fn_takeWhile : siteReps (.fn .takeWhile) = true := by decide +kernel

theorem obs_fn_skipWhile : siteObs (.fn .skipWhile) = true := by decide +kernel
theorem inv_fn_skipWhile : siteInv (.fn .skipWhile) = true := by decide +kernel
theorem reps_fn_skipWhile : siteReps (.fn .skipWhile) = true := by decide +kernel

theorem obs_fn_indexWhere : siteObs (.fn .indexWhere) = true := by decide +kernel
theorem inv_fn_indexWhere : siteInv (.fn .indexWhere) = true := by decide +kernel
theorem reps_fn_indexWhere : siteReps (.fn .indexWhere) = true := by decide +kernel

theorem obs_fn_toDict : siteObs (.fn .toDict) = true := by decide +kernel
theorem inv_fn_toDict : siteInv (.fn .toDict) = true := by decide +kernel
theorem reps_fn_toDict : siteReps (.fn .toDict) = true := by decide +kernel

theorem obs_fn_aggregate : siteObs (.fn .aggregate) = true := by decide +kernel
theorem inv_fn_aggregate : siteInv (.fn .aggregate) = true := by decide +kernel
theorem reps_fn_aggregate : siteReps (.fn .aggregate) = true := by decide +kernel

theorem obs_fn_sum : siteObs (.fn .sum) = true := by decide +kernel
theorem inv_fn_sum : siteInv (.fn .sum) = true := by decide +kernel
theorem reps_fn_sum : siteReps (.fn .sum) = true := by decide +kernel

theorem obs_fn_first : siteObs (.fn .first) = true := by decide +kernel
theorem inv_fn_first : siteInv (.fn .first) = true := by decide +kernel
theorem reps_fn_first : siteReps (.fn .first) = true := by decide +kernel

theorem obs_fn_toList : siteObs (.fn .toList) = true := by decide +kernel
theorem inv_fn_toList : siteInv (.fn .toList) = true := by decide +kernel
theorem reps_fn_toList : siteReps (.fn .toList) = true := by decide +kernel

theorem obs_fn_take : siteObs (.fn .take) = true := by decide +kernel
theorem inv_fn_take : siteInv (.fn .take) = true := by decide +kernel
theorem reps_fn_take : siteReps (.fn .take) = true := by decide +kernel

theorem obs_fn_skip : siteObs (.fn .skip) = true := by decide +kernel
theorem inv_fn_skip : siteInv (.fn .skip) = true := by decide +kernel
theorem reps_fn_skip : siteReps (.fn .skip) = true := by decide +kernel

theorem obs_fn_get : siteObs (.fn .get) = true := by decide +kernel
theorem inv_fn_get : siteInv (.fn .get) = true := by decide +kernel
theorem reps_fn_get : siteReps (.fn .get) = true := by decide +kernel

theorem obs_fn_len : siteObs (.fn .len) = true := by decide +kernel
theorem inv_fn_len : siteInv (.fn .len) = true := by decide +kernel
theorem reps_fn_len : siteReps (.fn .len) = true := by decide +kernel

theorem obs_fn_any : siteObs (.fn .any) = true := by decide +kernel
theorem inv_fn_any : siteInv (.fn .any) = true := by decide +kernel
theorem reps_fn_any : siteReps (.fn .any) = true := by decide +kernel

theorem obs_fn_all : siteObs (.fn .all) = true := by decide +kernel
theorem inv_fn_all : siteInv (.fn .all) = true := by decide +kernel
theorem reps_fn_all : siteReps (.fn .all) = true := by decide +kernel

end Yaql.Props.C04DispatchGen
