import Yaql.Model.Stream
import Yaql.Props.C13
/-!
C14 - streaming operators consume only what they need from their source.

`causal`          generic: what an operator (any `Machine`) has produced by the time `n` source
                  elements are pulled, with its cost stamps, depends on those `n` elements only.
`causal_pipeline` the same for pipelines of ANY length (induction over the stages).
`causal_<op>`     instances for the listed operators.
`cost_tight_<op>` explicit consumption bounds.
`endless_total`   on an endless source the first k results are available with fuel = their cost,
                  and more fuel never changes them.
-/
namespace Yaql.Props.C14
open Yaql Yaql.Value Yaql.Seq Yaql.Stream

/-! ### streams that agree up to a consumption bound -/

/-- `J` is `I` continued beyond `b` pulls: either `I` is an open prefix and everything `J` adds
    costs more than `b`, or `I` has ended within `b` and `J` is the same stream -/
def Ext (b : Nat) (I J : Strm) : Prop :=
  (∀ o ∈ I.outs, o.pulls ≤ b) ∧
  ((I.fin = none ∧ ∃ E, J.outs = I.outs ++ E ∧ (∀ o ∈ E, b < o.pulls) ∧ (∀ p ua, J.fin = some (p, ua) → b < p)) ∨
   (∃ p ua, I.fin = some (p, ua) ∧ p ≤ b ∧ J = I))

theorem stampOuts_pulls (outs : List (Item × Nat)) (p a : Nat) : ∀ o ∈ stampOuts outs p a, o.pulls = p := by
  intro o ho
  simp only [stampOuts, List.mem_map] at ho
  obtain ⟨q, _, rfl⟩ := ho
  rfl

/-- everything produced from inputs beyond the bound is beyond the bound -/
theorem runFrom_high (m : Machine) (b : Nat) :
    ∀ (E : List Out) (s : m.σ) (a : Nat) (fin : Option (Nat × Nat)),
      (∀ o ∈ E, b < o.pulls) → (∀ p ua, fin = some (p, ua) → b < p) →
      (∀ o ∈ (runFrom m s a E fin).outs, b < o.pulls) ∧
      (∀ p ua, (runFrom m s a E fin).fin = some (p, ua) → b < p) := by
  intro E
  induction E with
  | nil =>
    intro s a fin _ hf
    cases fin with
    | none => simp [runFrom]
    | some pa =>
      obtain ⟨p, ua⟩ := pa
      have hp := hf p ua rfl
      constructor
      · intro o ho; rw [stampOuts_pulls _ _ _ o ho]; exact hp
      · intro p' ua' h; simp [runFrom] at h; omega
  | cons i E ih =>
    intro s a fin hE hf
    have hi := hE i (List.mem_cons_self ..)
    simp only [runFrom]
    split
    · constructor
      · intro o ho; simp at ho; subst ho; exact hi
      · intro p ua h; simp at h; omega
    · rename_i x _
      split
      · constructor
        · intro o ho; rw [stampOuts_pulls _ _ _ o ho]; exact hi
        · intro p ua h; simp at h; omega
      · have := ih (m.step s x).st (a + (m.step s x).apps) fin (fun o ho => hE o (List.mem_cons_of_mem _ ho)) hf
        constructor
        · intro o ho
          rcases List.mem_append.mp ho with h | h
          · rw [stampOuts_pulls _ _ _ o h]; exact hi
          · exact this.1 o h
        · exact this.2

/-- a stream that ends within the bound gives a stream that ends within the bound -/
theorem runFrom_low (m : Machine) (b : Nat) :
    ∀ (is : List Out) (s : m.σ) (a : Nat) (p ua : Nat),
      (∀ o ∈ is, o.pulls ≤ b) → p ≤ b →
      (∀ o ∈ (runFrom m s a is (some (p, ua))).outs, o.pulls ≤ b) ∧
      (∃ p' ua', (runFrom m s a is (some (p, ua))).fin = some (p', ua') ∧ p' ≤ b) := by
  intro is
  induction is with
  | nil =>
    intro s a p ua _ hp
    constructor
    · intro o ho; simp only [runFrom] at ho; rw [stampOuts_pulls _ _ _ o ho]; exact hp
    · exact ⟨p, ua + a + (m.finish s).apps, by simp [runFrom], hp⟩
  | cons i is ih =>
    intro s a p ua hI hp
    have hi := hI i (List.mem_cons_self ..)
    simp only [runFrom]
    split
    · exact ⟨by intro o ho; simp at ho; subst ho; exact hi, ⟨i.pulls, _, rfl, hi⟩⟩
    · rename_i x _
      split
      · exact ⟨by intro o ho; rw [stampOuts_pulls _ _ _ o ho]; exact hi, ⟨i.pulls, _, rfl, hi⟩⟩
      · have := ih (m.step s x).st (a + (m.step s x).apps) p ua (fun o ho => hI o (List.mem_cons_of_mem _ ho)) hp
        constructor
        · intro o ho
          rcases List.mem_append.mp ho with h | h
          · rw [stampOuts_pulls _ _ _ o h]; exact hi
          · exact this.1 o h
        · exact this.2

/-- the core step: reading on beyond the bound cannot change what was produced within it -/
theorem runFrom_ext (m : Machine) (b : Nat) :
    ∀ (is : List Out) (s : m.σ) (a : Nat) (E : List Out) (fin : Option (Nat × Nat)),
      (∀ o ∈ is, o.pulls ≤ b) → (∀ o ∈ E, b < o.pulls) → (∀ p ua, fin = some (p, ua) → b < p) →
      Ext b (runFrom m s a is none) (runFrom m s a (is ++ E) fin) := by
  intro is
  induction is with
  | nil =>
    intro s a E fin _ hE hf
    have := runFrom_high m b E s a fin hE hf
    refine ⟨by simp [runFrom], Or.inl ⟨by simp [runFrom], (runFrom m s a E fin).outs, by simp [runFrom], this.1, this.2⟩⟩
  | cons i is ih =>
    intro s a E fin hI hE hf
    have hi := hI i (List.mem_cons_self ..)
    simp only [List.cons_append, runFrom]
    split
    · refine ⟨by intro o ho; simp at ho; subst ho; exact hi, Or.inr ⟨i.pulls, _, rfl, hi, rfl⟩⟩
    · rename_i x _
      split
      · refine ⟨by intro o ho; rw [stampOuts_pulls _ _ _ o ho]; exact hi, Or.inr ⟨i.pulls, _, rfl, hi, rfl⟩⟩
      · have h := ih (m.step s x).st (a + (m.step s x).apps) E fin (fun o ho => hI o (List.mem_cons_of_mem _ ho)) hE hf
        obtain ⟨hlow, hcase⟩ := h
        refine ⟨?_, ?_⟩
        · intro o ho
          rcases List.mem_append.mp ho with h | h
          · rw [stampOuts_pulls _ _ _ o h]; exact hi
          · exact hlow o h
        · rcases hcase with ⟨hopen, E', hE', hhigh, hfin⟩ | ⟨p, ua, hfin, hp, heq⟩
          · exact Or.inl ⟨hopen, E', by simp [hE'], hhigh, hfin⟩
          · exact Or.inr ⟨p, ua, hfin, hp, by rw [heq]⟩

/-- one stage preserves "agree up to the bound" -/
theorem runOn_ext (m : Machine) (b : Nat) (I J : Strm) (h : Ext b I J) : Ext b (runOn m I) (runOn m J) := by
  obtain ⟨hlow, hcase⟩ := h
  simp only [runOn]
  split
  · -- the operator is done before pulling anything
    refine ⟨by intro o ho; rw [stampOuts_pulls _ _ _ o ho]; exact Nat.zero_le _, Or.inr ⟨0, _, rfl, Nat.zero_le _, rfl⟩⟩
  · rcases hcase with ⟨hopen, E, hE, hhigh, hfin⟩ | ⟨p, ua, hfin, hp, heq⟩
    · have := runFrom_ext m b I.outs m.start.st m.start.apps E J.fin hlow hhigh hfin
      rw [hE, hopen]
      obtain ⟨hl, hc⟩ := this
      refine ⟨?_, ?_⟩
      · intro o ho
        rcases List.mem_append.mp ho with h | h
        · rw [stampOuts_pulls _ _ _ o h]; exact Nat.zero_le _
        · exact hl o h
      · rcases hc with ⟨ho, E', hE', hh, hf⟩ | ⟨p, ua, hf, hp, he⟩
        · exact Or.inl ⟨ho, E', by simp [hE'], hh, hf⟩
        · exact Or.inr ⟨p, ua, hf, hp, by rw [he]⟩
    · rw [heq, hfin]
      have := runFrom_low m b I.outs m.start.st m.start.apps p ua hlow hp
      obtain ⟨hl, p', ua', hf', hp'⟩ := this
      refine ⟨?_, Or.inr ⟨p', ua', hf', hp', rfl⟩⟩
      intro o ho
      rcases List.mem_append.mp ho with h | h
      · rw [stampOuts_pulls _ _ _ o h]; exact Nat.zero_le _
      · exact hl o h

/-- **compose**: pipelines of any length preserve it (induction over the stages) -/
theorem runPipe_ext (ms : List Machine) (b : Nat) (I J : Strm) (h : Ext b I J) :
    Ext b (runPipe ms I) (runPipe ms J) := by
  induction ms generalizing I J with
  | nil => exact h
  | cons m ms ih => exact ih _ _ (runOn_ext m b I J h)

theorem stampSrc_append (i : Nat) (xs ys : VL) :
    stampSrc i (xs ++ ys) = stampSrc i xs ++ stampSrc (i + xs.length) ys := by
  induction xs generalizing i with
  | nil => simp [stampSrc]
  | cons x xs ih => simp [stampSrc, ih, Nat.add_assoc, Nat.add_comm 1]

theorem stampSrc_pulls (i : Nat) (xs : VL) : ∀ o ∈ stampSrc i xs, i < o.pulls ∧ o.pulls ≤ i + xs.length := by
  induction xs generalizing i with
  | nil => simp [stampSrc]
  | cons x xs ih =>
    intro o ho
    simp only [stampSrc, List.mem_cons] at ho
    rcases ho with rfl | ho
    · simp
    · have := ih (i + 1) o ho
      simp; omega

theorem src_ext (xs ys : VL) : Ext xs.length (src xs) (src (xs ++ ys)) := by
  refine ⟨?_, Or.inl ⟨rfl, stampSrc xs.length ys, ?_, ?_, by simp [src]⟩⟩
  · intro o ho; have := stampSrc_pulls 0 xs o ho; omega
  · simp [src, stampSrc_append]
  · intro o ho; have := stampSrc_pulls xs.length ys o ho; omega

theorem Ext.filter_eq {b : Nat} {I J : Strm} (h : Ext b I J) :
    J.outs.filter (fun o => decide (o.pulls ≤ b)) = I.outs := by
  obtain ⟨hlow, hcase⟩ := h
  rcases hcase with ⟨_, E, hE, hhigh, _⟩ | ⟨_, _, _, _, heq⟩
  · rw [hE, List.filter_append]
    have h1 : I.outs.filter (fun o => decide (o.pulls ≤ b)) = I.outs :=
      List.filter_eq_self.mpr (fun o ho => by simpa using hlow o ho)
    have h2 : E.filter (fun o => decide (o.pulls ≤ b)) = [] :=
      List.filter_eq_nil_iff.mpr (fun o ho => by have := hhigh o ho; simp; omega)
    rw [h1, h2, List.append_nil]
  · rw [heq]
    exact List.filter_eq_self.mpr (fun o ho => by simpa using hlow o ho)

/-- **Causality of a pipeline of streaming operators (any length).**  Whatever follows the
    first `|xs|` source elements, the results the pipeline produces while at most `|xs|` elements
    have been pulled - values, pull stamps and lambda-application stamps - are exactly what it
    produces from the prefix `xs` alone.  In particular they do not depend on the length of the
    source, so the pipeline works on endless sources. -/
theorem causal_pipeline (ms : List Machine) (xs ys : VL) :
    (pipeOuts ms (xs ++ ys)).filter (fun o => decide (o.pulls ≤ xs.length)) = pipeOuts ms xs :=
  (runPipe_ext ms xs.length _ _ (src_ext xs ys)).filter_eq

/-- causality of a single operator -/
theorem causal (m : Machine) (xs ys : VL) :
    (outsOf m (xs ++ ys)).filter (fun o => decide (o.pulls ≤ xs.length)) = outsOf m xs :=
  causal_pipeline [m] xs ys

/-- what was produced from a prefix stays produced, in the same order, whatever follows -/
theorem prefix_stable (ms : List Machine) (xs ys : VL) : pipeOuts ms xs <+: pipeOuts ms (xs ++ ys) := by
  have h := runPipe_ext ms xs.length _ _ (src_ext xs ys)
  obtain ⟨_, hcase⟩ := h
  rcases hcase with ⟨_, E, hE, _, _⟩ | ⟨_, _, _, _, heq⟩
  · exact ⟨E, hE.symm⟩
  · simp only [pipeOuts]; rw [heq]; exact List.prefix_refl _

/-- every result of a pipeline over a prefix was produced within the prefix -/
theorem pulls_le (ms : List Machine) (xs : VL) : ∀ o ∈ pipeOuts ms xs, o.pulls ≤ xs.length :=
  (runPipe_ext ms xs.length _ _ (src_ext xs [])).1

/-- the first `k` results depend only on the source elements up to their cost -/
theorem firstK_causal (ms : List Machine) (xs ys zs : VL) (k : Nat) (r : List Out)
    (h : firstK ms (xs ++ ys) k = some r) (hc : ∀ o ∈ r, o.pulls ≤ xs.length) :
    firstK ms (xs ++ zs) k = some r := by
  simp only [firstK] at h ⊢
  split at h
  · rename_i hk
    simp only [Option.some.injEq] at h
    -- the first k results lie within what the prefix `xs` alone produces
    have hy := causal_pipeline ms xs ys
    have hz := prefix_stable ms xs zs
    have hr : r <+: pipeOuts ms xs := by
      rw [← hy, ← h]
      -- a prefix whose elements all satisfy the filter is a prefix of the filtered list
      have : ∀ (l : List Out) (k : Nat), (∀ o ∈ l.take k, o.pulls ≤ xs.length) →
          l.take k <+: l.filter (fun o => decide (o.pulls ≤ xs.length)) := by
        intro l
        induction l with
        | nil => intro k _; simp
        | cons o l ih =>
          intro k hk
          cases k with
          | zero => simp
          | succ k =>
            have ho : o.pulls ≤ xs.length := hk o (by simp)
            simp only [List.take_succ_cons, List.filter_cons, ho, decide_true, ↓reduceIte]
            exact List.prefix_cons_inj o |>.mpr (ih k (fun o' ho' => hk o' (by simp [ho'])))
      exact this _ k (by rw [h]; exact hc)
    have hlen : r.length = k := by rw [← h]; simp; omega
    obtain ⟨t, ht⟩ := hr.trans hz
    have : k ≤ (pipeOuts ms (xs ++ zs)).length := by rw [← ht]; simp; omega
    simp only [this, ↓reduceIte, Option.some.injEq]
    rw [← ht, List.take_append_of_le_length (by omega), List.take_of_length_le (by omega)]
  · simp at h

/-- **endless sources**: if the first `n` elements of an endless source suffice for the first
    `k` results, then (1) so does every longer prefix, with the same results and costs, and
    (2) the fuel actually needed is the cost of the k-th result. -/
theorem endless_total (ms : List Machine) (f : Nat → Value) (k n : Nat) (r : List Out)
    (h : firstK ms (prefixOf f n) k = some r) :
    (∀ n', n ≤ n' → firstK ms (prefixOf f n') k = some r) ∧
    (∀ c, (∀ o ∈ r, o.pulls ≤ c) → c ≤ n → firstK ms (prefixOf f c) k = some r) := by
  have hsplit : ∀ a b, a ≤ b → prefixOf f b = prefixOf f a ++ (List.range' a (b - a)).map f := by
    intro a b hab
    simp only [prefixOf]
    rw [← List.map_append]
    congr 1
    rw [List.range_eq_range', List.range_eq_range']
    have : b = a + (b - a) := by omega
    conv => lhs; rw [this]
    have := List.range'_append_1 (s := 0) (m := a) (n := b - a)
    simpa using this.symm
  have hr : ∀ o ∈ r, o.pulls ≤ n := by
    intro o ho
    simp only [firstK] at h
    split at h
    · simp at h; rw [← h] at ho
      have := pulls_le ms (prefixOf f n) o (List.mem_of_mem_take ho)
      simpa [prefixOf] using this
    · simp at h
  constructor
  · intro n' hn
    rw [hsplit n n' hn]
    have := firstK_causal ms (prefixOf f n) [] ((List.range' n (n' - n)).map f) k r (by simpa using h)
      (by simpa [prefixOf] using hr)
    exact this
  · intro c hc hcn
    have h' := h
    rw [hsplit c n hcn] at h'
    have := firstK_causal ms (prefixOf f c) ((List.range' c (n - c)).map f) [] k r h' (by simpa [prefixOf] using hc)
    simpa using this


/-! ### unfolding an operator over a source prefix -/

theorem runFrom_src_nil (m : Machine) (s : m.σ) (a i : Nat) :
    (runFrom m s a (stampSrc i []) none).outs = [] := by simp [runFrom, stampSrc]

theorem runFrom_src_cons (m : Machine) (s : m.σ) (a i : Nat) (x : Value) (xs : VL) :
    (runFrom m s a (stampSrc i (x :: xs)) none).outs =
      stampOuts (m.step s x).outs (i + 1) a ++
        (if (m.step s x).stop then [] else (runFrom m (m.step s x).st (a + (m.step s x).apps) (stampSrc (i + 1) xs) none).outs) := by
  simp only [stampSrc, runFrom, Nat.zero_add]
  split <;> simp

theorem outsOf_eq (m : Machine) (xs : VL) :
    outsOf m xs = stampOuts m.start.outs 0 0 ++
      (if m.start.stop then [] else (runFrom m m.start.st m.start.apps (stampSrc 0 xs) none).outs) := by
  simp only [outsOf, runOn, src]
  split <;> simp

/-- the outputs of a one-to-one operator: element `j` of the prefix gives one result, stamped
    with `i+j+1` pulls and `a + (j+1)*c` applications -/
def lin (g : Value → Value) (c : Nat) (i a : Nat) : VL → List Out
  | [] => []
  | x :: xs => ⟨.ok (g x), i + 1, a + c⟩ :: lin g c (i + 1) (a + c) xs

theorem lin_length (g : Value → Value) (c i a : Nat) (xs : VL) : (lin g c i a xs).length = xs.length := by
  induction xs generalizing i a with
  | nil => rfl
  | cons x xs ih => simp [lin, ih]

theorem lin_get (g : Value → Value) (c i a : Nat) (xs : VL) (k : Nat) (h : k < xs.length) :
    (lin g c i a xs)[k]'(by rw [lin_length]; exact h) = ⟨.ok (g xs[k]), i + k + 1, a + (k + 1) * c⟩ := by
  induction xs generalizing i a k with
  | nil => simp at h
  | cons x xs ih =>
    cases k with
    | zero => simp [lin]
    | succ k =>
      simp only [lin, List.getElem_cons_succ]
      rw [ih (i + 1) (a + c) k (by simpa using h)]
      simp only [Out.mk.injEq, true_and]
      constructor
      · omega
      · rw [Nat.add_mul (k + 1) 1 c]; omega

/-! ### the operators: causality instances and explicit cost bounds -/

theorem causal_select (f : Lam) (xs ys : VL) :
    (outsOf (mSelect f) (xs ++ ys)).filter (fun o => decide (o.pulls ≤ xs.length)) = outsOf (mSelect f) xs := causal _ xs ys
theorem causal_where (p : Lam) (xs ys : VL) :
    (outsOf (mWhere p) (xs ++ ys)).filter (fun o => decide (o.pulls ≤ xs.length)) = outsOf (mWhere p) xs := causal _ xs ys
theorem causal_selectMany (f : Lam) (xs ys : VL) :
    (outsOf (mSelectMany f) (xs ++ ys)).filter (fun o => decide (o.pulls ≤ xs.length)) = outsOf (mSelectMany f) xs := causal _ xs ys
theorem causal_skip (n : Int) (xs ys : VL) :
    (outsOf (mSkip n) (xs ++ ys)).filter (fun o => decide (o.pulls ≤ xs.length)) = outsOf (mSkip n) xs := causal _ xs ys
theorem causal_take (n : Int) (xs ys : VL) :
    (outsOf (mTake n) (xs ++ ys)).filter (fun o => decide (o.pulls ≤ xs.length)) = outsOf (mTake n) xs := causal _ xs ys
theorem causal_takeWhile (p : Lam) (xs ys : VL) :
    (outsOf (mTakeWhile p) (xs ++ ys)).filter (fun o => decide (o.pulls ≤ xs.length)) = outsOf (mTakeWhile p) xs := causal _ xs ys
theorem causal_skipWhile (p : Lam) (xs ys : VL) :
    (outsOf (mSkipWhile p) (xs ++ ys)).filter (fun o => decide (o.pulls ≤ xs.length)) = outsOf (mSkipWhile p) xs := causal _ xs ys
theorem causal_append (tail xs ys : VL) :
    (outsOf (mAppend tail) (xs ++ ys)).filter (fun o => decide (o.pulls ≤ xs.length)) = outsOf (mAppend tail) xs := causal _ xs ys
theorem causal_concat (colls : List VL) (xs ys : VL) :
    (outsOf (mAppend colls.flatten) (xs ++ ys)).filter (fun o => decide (o.pulls ≤ xs.length)) = outsOf (mAppend colls.flatten) xs := causal _ xs ys
theorem causal_distinct (key : Option Lam) (xs ys : VL) :
    (outsOf (mDistinct key) (xs ++ ys)).filter (fun o => decide (o.pulls ≤ xs.length)) = outsOf (mDistinct key) xs := causal _ xs ys
theorem causal_enumerate (start : Int) (xs ys : VL) :
    (outsOf (mEnumerate start) (xs ++ ys)).filter (fun o => decide (o.pulls ≤ xs.length)) = outsOf (mEnumerate start) xs := causal _ xs ys
theorem causal_zip (others : List VL) (xs ys : VL) :
    (outsOf (mZip others) (xs ++ ys)).filter (fun o => decide (o.pulls ≤ xs.length)) = outsOf (mZip others) xs := causal _ xs ys
theorem causal_accumulate (f : Lam2) (seed : Option Value) (xs ys : VL) :
    (outsOf (mAccumulate f seed) (xs ++ ys)).filter (fun o => decide (o.pulls ≤ xs.length)) = outsOf (mAccumulate f seed) xs := causal _ xs ys
theorem causal_insert (pos : Int) (vals : VL) (front : Bool) (xs ys : VL) :
    (outsOf (mInsert pos vals front) (xs ++ ys)).filter (fun o => decide (o.pulls ≤ xs.length)) = outsOf (mInsert pos vals front) xs := causal _ xs ys
theorem causal_delete (pos count : Int) (xs ys : VL) :
    (outsOf (mDelete pos count) (xs ++ ys)).filter (fun o => decide (o.pulls ≤ xs.length)) = outsOf (mDelete pos count) xs := causal _ xs ys
theorem causal_replace (pos count : Int) (vals xs ys : VL) :
    (outsOf (mReplace pos count vals) (xs ++ ys)).filter (fun o => decide (o.pulls ≤ xs.length)) = outsOf (mReplace pos count vals) xs := causal _ xs ys
theorem causal_slice (n : Int) (xs ys : VL) :
    (outsOf (mSlice n) (xs ++ ys)).filter (fun o => decide (o.pulls ≤ xs.length)) = outsOf (mSlice n) xs := causal _ xs ys
theorem causal_memorize (xs ys : VL) :
    (outsOf mMemorize (xs ++ ys)).filter (fun o => decide (o.pulls ≤ xs.length)) = outsOf mMemorize xs := causal _ xs ys
theorem causal_member (name : List Char) (xs ys : VL) :
    (outsOf (mAttr name) (xs ++ ys)).filter (fun o => decide (o.pulls ≤ xs.length)) = outsOf (mAttr name) xs := causal _ xs ys
theorem causal_first (d : Option Value) (xs ys : VL) :
    (outsOf (mFirst d) (xs ++ ys)).filter (fun o => decide (o.pulls ≤ xs.length)) = outsOf (mFirst d) xs := causal _ xs ys
theorem causal_any (p : Option Lam) (xs ys : VL) :
    (outsOf (mAny p) (xs ++ ys)).filter (fun o => decide (o.pulls ≤ xs.length)) = outsOf (mAny p) xs := causal _ xs ys
theorem causal_all (p : Option Lam) (xs ys : VL) :
    (outsOf (mAll p) (xs ++ ys)).filter (fun o => decide (o.pulls ≤ xs.length)) = outsOf (mAll p) xs := causal _ xs ys
theorem causal_indexOf (v : Value) (xs ys : VL) :
    (outsOf (mIndexOf v) (xs ++ ys)).filter (fun o => decide (o.pulls ≤ xs.length)) = outsOf (mIndexOf v) xs := causal _ xs ys
theorem causal_indexWhere (p : Lam) (xs ys : VL) :
    (outsOf (mIndexWhere p.test true) (xs ++ ys)).filter (fun o => decide (o.pulls ≤ xs.length)) = outsOf (mIndexWhere p.test true) xs := causal _ xs ys
theorem causal_join (other : VL) (pred sel : Lam2) (xs ys : VL) :
    (outsOf (mJoin other pred sel) (xs ++ ys)).filter (fun o => decide (o.pulls ≤ xs.length)) = outsOf (mJoin other pred sel) xs := causal _ xs ys

/-- every operation of the catalogue that is given a machine is causal, in any pipeline -/
theorem causal_ops (ops : List Op) (ms : List Machine) (_h : ops.map machineOf = ms.map some) (xs ys : VL) :
    (pipeOuts ms (xs ++ ys)).filter (fun o => decide (o.pulls ≤ xs.length)) = pipeOuts ms xs :=
  causal_pipeline ms xs ys

/-! #### one result per element: select, enumerate, memorize, member projection -/

theorem select_run (f : Lam) (g : Value → Value) (xs : VL) (h : ∀ x ∈ xs, f.eval x = .ok (g x)) (i a : Nat) :
    (runFrom (mSelect f) () a (stampSrc i xs) none).outs = lin g 1 i a xs := by
  induction xs generalizing i a with
  | nil => exact runFrom_src_nil _ _ _ _
  | cons x xs ih =>
    rw [runFrom_src_cons]
    have hs : (mSelect f).step () x = { st := (), outs := oks [g x] 1, apps := 1 } := by
      simp [mSelect, react1, h x (List.mem_cons_self ..)]
    rw [hs]
    simp only [stampOuts, oks, List.map_cons, List.map_nil, lin, Bool.false_eq_true, ↓reduceIte,
      List.cons_append, List.nil_append, List.cons.injEq, true_and]
    exact ih (fun y hy => h y (List.mem_cons_of_mem _ hy)) (i + 1) (a + 1)

/-- `select`: the k-th result costs exactly k pulls and k applications -/
theorem cost_tight_select (f : Lam) (g : Value → Value) (xs : VL) (h : ∀ x ∈ xs, f.eval x = .ok (g x)) :
    outsOf (mSelect f) xs = lin g 1 0 0 xs := by
  rw [outsOf_eq]
  have hst : (mSelect f).start = idle () := rfl
  rw [hst]
  simp only [idle, stampOuts, List.map_nil, List.nil_append, Bool.false_eq_true, ↓reduceIte]
  exact select_run f g xs h 0 0

theorem cost_select_kth (f : Lam) (g : Value → Value) (xs : VL) (h : ∀ x ∈ xs, f.eval x = .ok (g x))
    (k : Nat) (hk : k < xs.length) :
    (outsOf (mSelect f) xs)[k]? = some ⟨.ok (g xs[k]), k + 1, k + 1⟩ := by
  rw [cost_tight_select f g xs h, List.getElem?_eq_getElem (by rw [lin_length]; exact hk), lin_get _ _ _ _ _ _ hk]
  simp

theorem pass_run (xs : VL) (i a : Nat) :
    (runFrom mPass () a (stampSrc i xs) none).outs = lin id 0 i a xs := by
  induction xs generalizing i a with
  | nil => exact runFrom_src_nil _ _ _ _
  | cons x xs ih =>
    rw [runFrom_src_cons]
    have hs : mPass.step () x = { st := (), outs := oks [x] 0 } := rfl
    rw [hs]
    simp only [stampOuts, oks, List.map_cons, List.map_nil, lin, Nat.add_zero, id, Bool.false_eq_true, ↓reduceIte,
      List.cons_append, List.nil_append, List.cons.injEq, true_and]
    exact ih (i + 1) a

/-- `memorize`: element k is handed on when it is pulled -/
theorem cost_tight_memorize (xs : VL) : outsOf mMemorize xs = lin id 0 0 0 xs := by
  rw [outsOf_eq]
  have hst : mMemorize.start = idle () := rfl
  rw [hst]
  simp only [idle, stampOuts, List.map_nil, List.nil_append, Bool.false_eq_true, ↓reduceIte]
  exact pass_run xs 0 0

/-- the results of `enumerate`: pair number `j` costs `i+j+1` pulls -/
def linEnum (start : Int) (i a : Nat) : VL → List Out
  | [] => []
  | x :: xs => ⟨.ok (list [int start, x]), i + 1, a⟩ :: linEnum (start + 1) (i + 1) a xs

theorem enumerate_run (start : Int) (xs : VL) (s : Int) (i a : Nat) :
    (runFrom (mEnumerate start) s a (stampSrc i xs) none).outs = linEnum s i a xs := by
  induction xs generalizing s i with
  | nil => exact runFrom_src_nil _ _ _ _
  | cons x xs ih =>
    rw [runFrom_src_cons]
    have hs : (mEnumerate start).step s x = { st := s + 1, outs := oks [list [int s, x]] 0 } := rfl
    rw [hs]
    simp only [stampOuts, oks, List.map_cons, List.map_nil, linEnum, Nat.add_zero, Bool.false_eq_true, ↓reduceIte,
      List.cons_append, List.nil_append, List.cons.injEq, true_and]
    exact ih (s + 1) (i + 1)

theorem cost_tight_enumerate (start : Int) (xs : VL) : outsOf (mEnumerate start) xs = linEnum start 0 0 xs := by
  rw [outsOf_eq]
  have hst : (mEnumerate start).start = idle start := rfl
  rw [hst]
  simp only [idle, stampOuts, List.map_nil, List.nil_append, Bool.false_eq_true, ↓reduceIte]
  exact enumerate_run start xs start 0 0

theorem linEnum_pulls (start : Int) (i a : Nat) (xs : VL) (k : Nat) (o : Out) (h : (linEnum start i a xs)[k]? = some o) :
    o.pulls = i + k + 1 ∧ o.apps = a := by
  induction xs generalizing start i k with
  | nil => simp [linEnum] at h
  | cons x xs ih =>
    cases k with
    | zero => simp [linEnum] at h; subst h; simp
    | succ k =>
      simp only [linEnum, List.getElem?_cons_succ] at h
      have := ih (start + 1) (i + 1) k h
      omega

/-! #### take / skip -/

theorem take_run (n : Nat) (xs : VL) (c i a : Nat) (hc : c < n) :
    (runFrom (mTake n) c a (stampSrc i xs) none).outs = lin id 0 i a (xs.take (n - c)) := by
  induction xs generalizing c i with
  | nil => rw [List.take_nil]; exact runFrom_src_nil _ _ _ _
  | cons x xs ih =>
    rw [runFrom_src_cons]
    have hs : (mTake n).step c x = { st := c + 1, outs := oks [x] 0, stop := decide (n ≤ c + 1) } := by
      simp [mTake]
    rw [hs]
    have hn : n - c = (n - c - 1) + 1 := by omega
    rw [hn, List.take_succ_cons]
    simp only [stampOuts, oks, List.map_cons, List.map_nil, lin, Nat.add_zero, id]
    by_cases hlast : n ≤ c + 1
    · have : n - c - 1 = 0 := by omega
      simp [hlast, this, lin]
    · simp only [hlast, decide_false, Bool.false_eq_true, ↓reduceIte, List.cons_append, List.nil_append, List.cons.injEq, true_and]
      rw [ih (c + 1) (i + 1) (by omega)]
      congr 2

/-- `take(n)`: result k costs k pulls, and the (n+1)-th element is never pulled -/
theorem cost_tight_take (n : Nat) (xs : VL) : outsOf (mTake n) xs = lin id 0 0 0 (xs.take n) := by
  rw [outsOf_eq]
  by_cases hn : n = 0
  · subst hn
    have hst : (mTake (0 : Nat)).start = done 0 := by simp [mTake]
    rw [hst]; simp [done, stampOuts, lin]
  · have hst : (mTake n).start = idle 0 := by
      have h0 : ¬ ((n : Int) < 0) := by omega
      have hn' : ¬ ((n : Int) = 0) := by omega
      simp [mTake, h0, hn', hn]
    rw [hst]
    simp only [idle, stampOuts, List.map_nil, List.nil_append, Bool.false_eq_true, ↓reduceIte]
    exact take_run n xs 0 0 0 (by omega)

theorem take_never_beyond (n : Nat) (xs : VL) : ∀ o ∈ outsOf (mTake n) xs, o.pulls ≤ n := by
  intro o ho
  rw [cost_tight_take] at ho
  obtain ⟨k, hk, rfl⟩ := List.getElem_of_mem ho
  rw [lin_length] at hk
  rw [lin_get _ _ _ _ _ _ hk]
  simp at hk ⊢; omega

theorem skip_run (n : Nat) (xs : VL) (c i a : Nat) (hc : c ≤ n) :
    (runFrom (mSkip n) c a (stampSrc i xs) none).outs = lin id 0 (i + (min (n - c) xs.length)) a (xs.drop (n - c)) := by
  induction xs generalizing c i with
  | nil => rw [List.drop_nil]; exact runFrom_src_nil _ _ _ _
  | cons x xs ih =>
    rw [runFrom_src_cons]
    by_cases hlt : c < n
    · have hs : (mSkip n).step c x = { st := c + 1 } := by simp [mSkip, hlt]
      rw [hs]
      simp only [stampOuts, List.map_nil, List.nil_append, Bool.false_eq_true, ↓reduceIte, Nat.add_zero]
      rw [ih (c + 1) (i + 1) (by omega)]
      have hn : n - c = (n - (c + 1)) + 1 := by omega
      rw [hn, List.drop_succ_cons]
      congr 1
      simp; omega
    · have hs : (mSkip n).step c x = { st := c, outs := oks [x] 0 } := by simp [mSkip, hlt]
      rw [hs]
      have hcn : n - c = 0 := by omega
      simp only [stampOuts, oks, List.map_cons, List.map_nil, Bool.false_eq_true, ↓reduceIte, Nat.add_zero, hcn,
        List.drop_zero, Nat.zero_min, lin, id, List.cons_append, List.nil_append, List.cons.injEq, true_and]
      have := ih c (i + 1) (by omega)
      rw [hcn] at this
      simpa using this

/-- `skip(n)`: result k costs n + k pulls -/
theorem cost_tight_skip (n : Nat) (xs : VL) : outsOf (mSkip n) xs = lin id 0 (min n xs.length) 0 (xs.drop n) := by
  rw [outsOf_eq]
  have hst : (mSkip n).start = idle 0 := by
    have h0 : ¬ ((n : Int) < 0) := by omega
    simp [mSkip, h0]
  rw [hst]
  simp only [idle, stampOuts, List.map_nil, List.nil_append, Bool.false_eq_true, ↓reduceIte]
  have := skip_run n xs 0 0 0 (Nat.zero_le _)
  simpa using this


/-! #### filter-like operators: where, distinct, skipWhile, delete

The result is a sub-sequence of the source; result `k` is stamped with the position at which the
`k`-th kept element was pulled. -/

/-- a stateful filter: new state, keep this element?, lambda applications made -/
abbrev FStep (σ : Type) := σ → Value → σ × Bool × Nat

def keptSt {σ : Type} (st : FStep σ) : σ → Nat → Nat → VL → List Out
  | _, _, _, [] => []
  | s, i, a, x :: xs =>
    (if (st s x).2.1 then [⟨.ok x, i + 1, a + (st s x).2.2⟩] else []) ++
      keptSt st (st s x).1 (i + 1) (a + (st s x).2.2) xs

/-- position (0-based) of the `k`-th kept element, if the prefix contains it -/
def nthKept {σ : Type} (st : FStep σ) : σ → Nat → VL → Option Nat
  | _, _, [] => none
  | s, k, x :: xs =>
    if (st s x).2.1 then
      (match k with
       | 0 => some 0
       | k + 1 => (nthKept st (st s x).1 k xs).map (· + 1))
    else (nthKept st (st s x).1 k xs).map (· + 1)

/-- the `k`-th result of a filter is produced exactly when the `k`-th kept element is pulled -/
theorem keptSt_pulls {σ : Type} (st : FStep σ) (s : σ) (i a : Nat) (xs : VL) (k : Nat) :
    ((keptSt st s i a xs)[k]?).map (·.pulls) = (nthKept st s k xs).map (fun j => i + j + 1) := by
  induction xs generalizing s i a k with
  | nil => simp [keptSt, nthKept]
  | cons x xs ih =>
    simp only [keptSt, nthKept]
    by_cases hk : (st s x).2.1 = true
    · simp only [hk, ↓reduceIte, List.singleton_append]
      cases k with
      | zero => simp
      | succ k =>
        simp only [List.getElem?_cons_succ, ih, Option.map_map]
        congr 1; funext j; simp; omega
    · simp only [hk, Bool.false_eq_true, ↓reduceIte, List.nil_append, ih, Option.map_map]
      congr 1; funext j; simp; omega

theorem keptSt_items {σ : Type} (st : FStep σ) (s : σ) (i a : Nat) (xs : VL) :
    ∀ o ∈ keptSt st s i a xs, ∃ j, j < xs.length ∧ o.pulls = i + j + 1 ∧ o.item = .ok (xs.getD j .null) := by
  induction xs generalizing s i a with
  | nil => simp [keptSt]
  | cons x xs ih =>
    intro o ho
    simp only [keptSt, List.mem_append] at ho
    rcases ho with ho | ho
    · split at ho
      · simp at ho; subst ho; exact ⟨0, by simp, rfl, by simp⟩
      · simp at ho
    · obtain ⟨j, hj, hp, hi⟩ := ih _ _ _ o ho
      exact ⟨j + 1, by simp; omega, by omega, by simpa using hi⟩

/-- a machine that is a stateful filter -/
theorem filter_run (m : Machine) (st : FStep m.σ) (xs : VL)
    (hstep : ∀ s x, x ∈ xs → m.step s x =
      { st := (st s x).1, outs := if (st s x).2.1 then oks [x] (st s x).2.2 else [], apps := (st s x).2.2 })
    (s : m.σ) (i a : Nat) :
    (runFrom m s a (stampSrc i xs) none).outs = keptSt st s i a xs := by
  induction xs generalizing s i a with
  | nil => exact runFrom_src_nil _ _ _ _
  | cons x xs ih =>
    rw [runFrom_src_cons, hstep s x (List.mem_cons_self ..)]
    simp only [keptSt, Bool.false_eq_true, ↓reduceIte]
    rw [ih (fun s y hy => hstep s y (List.mem_cons_of_mem _ hy))]
    congr 1
    split <;> simp [stampOuts, oks]

def whereStep (q : Value → Bool) : FStep Unit := fun _ x => ((), q x, 1)

/-- `where`: result k costs (index of the k-th satisfying element + 1) pulls and as many applications -/
theorem cost_tight_where (p : Lam) (q : Value → Bool) (xs : VL) (h : ∀ x ∈ xs, p.test x = .ok (q x)) :
    outsOf (mWhere p) xs = keptSt (whereStep q) () 0 0 xs := by
  rw [outsOf_eq]
  have hst : (mWhere p).start = idle () := rfl
  rw [hst]
  simp only [idle, stampOuts, List.map_nil, List.nil_append, Bool.false_eq_true, ↓reduceIte]
  apply filter_run (mWhere p) (whereStep q) xs
  intro s x hx
  simp only [mWhere, react1, h x hx, whereStep]
  split <;> simp_all [oks]

theorem cost_where_kth (p : Lam) (q : Value → Bool) (xs : VL) (h : ∀ x ∈ xs, p.test x = .ok (q x)) (k : Nat) :
    ((outsOf (mWhere p) xs)[k]?).map (·.pulls) = (nthKept (whereStep q) () k xs).map (· + 1) := by
  rw [cost_tight_where p q xs h, keptSt_pulls]; simp

theorem where_items (q : Value → Bool) (i a : Nat) (xs : VL) :
    (keptSt (whereStep q) () i a xs).map (·.item) = (where_ q xs).map .ok := by
  induction xs generalizing i a with
  | nil => simp [keptSt, where_]
  | cons x xs ih =>
    simp only [keptSt, whereStep, where_, List.filter_cons] at ih ⊢
    by_cases hq : q x = true <;> simp [hq, ih]

def distinctStep (k : Value → Value) (c : Nat) : FStep VL :=
  fun seen x => if sMem seen (k x) then (seen, false, c) else (k x :: seen, true, c)

/-- `distinct`: result k costs the position of the k-th new key -/
theorem cost_tight_distinct (key : Option Lam) (k : Value → Value) (xs : VL)
    (h : ∀ x ∈ xs, (optLam key).eval x = .ok (k x)) (hh : ∀ x ∈ xs, hashable (k x) = true) :
    outsOf (mDistinct key) xs = keptSt (distinctStep k (if key.isSome then 1 else 0)) [] 0 0 xs := by
  rw [outsOf_eq]
  have hst : (mDistinct key).start = idle [] := rfl
  rw [hst]
  simp only [idle, stampOuts, List.map_nil, List.nil_append, Bool.false_eq_true, ↓reduceIte]
  apply filter_run (mDistinct key) (distinctStep k _) xs
  intro s x hx
  simp only [mDistinct, h x hx, hh x hx, distinctStep, Bool.not_true, Bool.false_eq_true, ↓reduceIte]
  split <;> simp_all

theorem distinct_items (k : Value → Value) (c : Nat) (seen : VL) (i a : Nat) (xs : VL) :
    (keptSt (distinctStep k c) seen i a xs).map (·.item) = (distinctAux k seen xs).map .ok := by
  induction xs generalizing seen i a with
  | nil => simp [keptSt, distinctAux]
  | cons x xs ih =>
    simp only [keptSt, distinctStep, distinctAux]
    by_cases hq : sMem seen (k x) = true <;> simp [hq, ih]

def deleteStep (pos count : Int) : FStep Nat := fun i _ => (i + 1, !inRange pos count i, 0)

/-- `delete`: no lambda; result k costs the position of the k-th element outside the range -/
theorem cost_tight_delete (pos count : Int) (xs : VL) :
    outsOf (mDelete pos count) xs = keptSt (deleteStep pos count) 0 0 0 xs := by
  rw [outsOf_eq]
  have hst : (mDelete pos count).start = idle 0 := rfl
  rw [hst]
  simp only [idle, stampOuts, List.map_nil, List.nil_append, Bool.false_eq_true, ↓reduceIte]
  apply filter_run (mDelete pos count) (deleteStep pos count) xs
  intro s x _
  simp only [mDelete, deleteStep]
  split <;> simp_all

def skipWhileStep (q : Value → Bool) : FStep Bool :=
  fun dropping x => if dropping then (if q x then (true, false, 1) else (false, true, 1)) else (false, true, 0)

/-- `skipWhile`: the predicate is applied only until it first fails -/
theorem cost_tight_skipWhile (p : Lam) (q : Value → Bool) (xs : VL) (h : ∀ x ∈ xs, p.test x = .ok (q x)) :
    outsOf (mSkipWhile p) xs = keptSt (skipWhileStep q) true 0 0 xs := by
  rw [outsOf_eq]
  have hst : (mSkipWhile p).start = idle true := rfl
  rw [hst]
  simp only [idle, stampOuts, List.map_nil, List.nil_append, Bool.false_eq_true, ↓reduceIte]
  apply filter_run (mSkipWhile p) (skipWhileStep q) xs
  intro s x hx
  simp only [mSkipWhile, skipWhileStep, h x hx]
  cases s
  · simp
  · by_cases hq : q x = true
    · simp [hq]
    · have hq' : q x = false := by simpa using hq
      simp [hq']

/-- after the first failure `skipWhile` makes no further application -/
theorem skipWhile_apps_bounded (q : Value → Bool) (i a : Nat) (xs : VL) :
    ∀ o ∈ keptSt (skipWhileStep q) false i a xs, o.apps = a := by
  induction xs generalizing i with
  | nil => simp [keptSt]
  | cons x xs ih =>
    intro o ho
    simp only [keptSt, skipWhileStep, Bool.false_eq_true, ↓reduceIte, List.singleton_append, Nat.add_zero,
      List.mem_cons] at ho
    rcases ho with rfl | ho
    · rfl
    · exact ih (i + 1) o ho

/-! #### takeWhile -/

theorem takeWhile_run (p : Lam) (q : Value → Bool) (xs : VL) (h : ∀ x ∈ xs, p.test x = .ok (q x)) (i a : Nat) :
    (runFrom (mTakeWhile p) () a (stampSrc i xs) none).outs = lin id 1 i a (xs.takeWhile q) := by
  induction xs generalizing i a with
  | nil => rw [List.takeWhile_nil]; exact runFrom_src_nil _ _ _ _
  | cons x xs ih =>
    rw [runFrom_src_cons]
    by_cases hq : q x = true
    · have hs : (mTakeWhile p).step () x = { st := (), outs := oks [x] 1, apps := 1 } := by
        simp [mTakeWhile, h x (List.mem_cons_self ..), hq]
      rw [hs, List.takeWhile_cons]
      simp only [hq, ↓reduceIte, stampOuts, oks, List.map_cons, List.map_nil, lin, id, Bool.false_eq_true,
        List.cons_append, List.nil_append, List.cons.injEq, true_and]
      exact ih (fun y hy => h y (List.mem_cons_of_mem _ hy)) (i + 1) (a + 1)
    · have hq' : q x = false := by simpa using hq
      have hs : (mTakeWhile p).step () x = { st := (), apps := 1, stop := true } := by
        simp [mTakeWhile, h x (List.mem_cons_self ..), hq']
      rw [hs, List.takeWhile_cons]
      simp [hq', stampOuts, lin]

/-- `takeWhile`: result k costs k pulls and k applications; the failing element is pulled only
    when a further result is demanded (it is stamped on no result) -/
theorem cost_tight_takeWhile (p : Lam) (q : Value → Bool) (xs : VL) (h : ∀ x ∈ xs, p.test x = .ok (q x)) :
    outsOf (mTakeWhile p) xs = lin id 1 0 0 (xs.takeWhile q) := by
  rw [outsOf_eq]
  have hst : (mTakeWhile p).start = idle () := rfl
  rw [hst]
  simp only [idle, stampOuts, List.map_nil, List.nil_append, Bool.false_eq_true, ↓reduceIte]
  exact takeWhile_run p q xs h 0 0

/-! #### short-circuit searches: first, any, all, indexOf, indexWhere -/

theorem indexWhere_run (p : Value → R Bool) (b : Bool) (q : Value → Bool) (xs : VL) (h : ∀ x ∈ xs, p x = .ok (q x))
    (s i a : Nat) :
    (runFrom (mIndexWhere p b) s a (stampSrc i xs) none).outs =
      match nthKept (whereStep q) () 0 xs with
      | none => []
      | some j => [⟨.ok (int ((s + j : Nat) : Int)), i + j + 1, a + (j + 1) * (if b then 1 else 0)⟩] := by
  induction xs generalizing s i a with
  | nil => simp only [nthKept]; exact runFrom_src_nil _ _ _ _
  | cons x xs ih =>
    rw [runFrom_src_cons]
    by_cases hq : q x = true
    · have hs : (mIndexWhere p b).step s x =
          { st := s, outs := oks [int s] (if b then 1 else 0), apps := (if b then 1 else 0), stop := true } := by
        simp [mIndexWhere, h x (List.mem_cons_self ..), hq]
      rw [hs]
      simp [nthKept, whereStep, hq, stampOuts, oks]
    · have hq' : q x = false := by simpa using hq
      have hs : (mIndexWhere p b).step s x = { st := s + 1, apps := (if b then 1 else 0) } := by
        simp [mIndexWhere, h x (List.mem_cons_self ..), hq']
      rw [hs]
      simp only [stampOuts, List.map_nil, List.nil_append, Bool.false_eq_true, ↓reduceIte, nthKept, whereStep, hq']
      rw [ih (fun y hy => h y (List.mem_cons_of_mem _ hy))]
      cases nthKept (whereStep q) () 0 xs with
      | none => simp
      | some j =>
        simp only [Option.map_some, List.cons.injEq, Out.mk.injEq, and_true]
        refine ⟨by congr 2; omega, by omega, ?_⟩
        rw [Nat.add_mul (j + 1) 1]; omega

/-- `indexWhere`: the only result costs (position of the first hit + 1) pulls and applications;
    nothing is produced (and nothing more is known) while no hit is in the prefix -/
theorem cost_tight_indexWhere (p : Lam) (q : Value → Bool) (xs : VL) (h : ∀ x ∈ xs, p.test x = .ok (q x)) :
    outsOf (mIndexWhere p.test true) xs =
      match nthKept (whereStep q) () 0 xs with
      | none => []
      | some j => [⟨.ok (int j), j + 1, j + 1⟩] := by
  rw [outsOf_eq]
  have hst : (mIndexWhere p.test true).start = idle 0 := rfl
  rw [hst]
  simp only [idle, stampOuts, List.map_nil, List.nil_append, Bool.false_eq_true, ↓reduceIte]
  rw [indexWhere_run p.test true q xs h 0 0 0]
  cases nthKept (whereStep q) () 0 xs <;> simp

/-- `indexOf`: position of the first `==` element + 1 pulls, no lambda -/
theorem cost_tight_indexOf (v : Value) (xs : VL) :
    outsOf (mIndexOf v) xs =
      match nthKept (whereStep (fun x => pyEq x v)) () 0 xs with
      | none => []
      | some j => [⟨.ok (int j), j + 1, 0⟩] := by
  rw [outsOf_eq]
  have hst : (mIndexOf v).start = idle 0 := rfl
  rw [hst]
  simp only [idle, stampOuts, List.map_nil, List.nil_append, Bool.false_eq_true, ↓reduceIte]
  have := indexWhere_run (fun x => .ok (pyEq x v)) false (fun x => pyEq x v) xs (fun _ _ => rfl) 0 0 0
  show (runFrom (mIndexWhere (fun x => .ok (pyEq x v)) false) 0 0 (stampSrc 0 xs) none).outs = _
  rw [this]
  cases nthKept (whereStep fun x => pyEq x v) () 0 xs <;> simp

/-- `first`: one pull -/
theorem cost_tight_first (d : Option Value) (x : Value) (xs : VL) :
    outsOf (mFirst d) (x :: xs) = [⟨.ok x, 1, 0⟩] := by
  rw [outsOf_eq]
  have hst : (mFirst d).start = idle () := rfl
  rw [hst]
  simp only [idle, stampOuts, List.map_nil, List.nil_append, Bool.false_eq_true, ↓reduceIte]
  rw [runFrom_src_cons]
  have hs : (mFirst d).step () x = { st := (), outs := oks [x] 0, stop := true } := rfl
  rw [hs]
  simp [stampOuts, oks]

theorem any_run (l : Lam) (q : Value → Bool) (xs : VL) (h : ∀ x ∈ xs, l.test x = .ok (q x)) (i a : Nat) :
    (runFrom (mAny (some l)) () a (stampSrc i xs) none).outs =
      match nthKept (whereStep q) () 0 xs with
      | none => []
      | some j => [⟨.ok (bool true), i + j + 1, a + j + 1⟩] := by
  induction xs generalizing i a with
  | nil => simp only [nthKept]; exact runFrom_src_nil _ _ _ _
  | cons x xs ih =>
    rw [runFrom_src_cons]
    by_cases hq : q x = true
    · have hs : (mAny (some l)).step () x = { st := (), outs := oks [bool true] 1, apps := 1, stop := true } := by
        simp [mAny, h x (List.mem_cons_self ..), hq]
      rw [hs]
      simp [nthKept, whereStep, hq, stampOuts, oks]
    · have hq' : q x = false := by simpa using hq
      have hs : (mAny (some l)).step () x = { st := (), apps := 1 } := by
        simp [mAny, h x (List.mem_cons_self ..), hq']
      rw [hs]
      simp only [stampOuts, List.map_nil, List.nil_append, Bool.false_eq_true, ↓reduceIte, nthKept, whereStep, hq']
      rw [ih (fun y hy => h y (List.mem_cons_of_mem _ hy))]
      cases nthKept (whereStep q) () 0 xs with
      | none => simp
      | some j => simp; omega

/-- `any(p)`: stops at the first hit -/
theorem cost_tight_any (l : Lam) (q : Value → Bool) (xs : VL) (h : ∀ x ∈ xs, l.test x = .ok (q x)) :
    outsOf (mAny (some l)) xs =
      match nthKept (whereStep q) () 0 xs with
      | none => []
      | some j => [⟨.ok (bool true), j + 1, j + 1⟩] := by
  rw [outsOf_eq]
  have hst : (mAny (some l)).start = idle () := rfl
  rw [hst]
  simp only [idle, stampOuts, List.map_nil, List.nil_append, Bool.false_eq_true, ↓reduceIte]
  rw [any_run l q xs h 0 0]
  cases nthKept (whereStep q) () 0 xs <;> simp

theorem all_run (l : Lam) (q : Value → Bool) (xs : VL) (h : ∀ x ∈ xs, l.test x = .ok (q x)) (i a : Nat) :
    (runFrom (mAll (some l)) () a (stampSrc i xs) none).outs =
      match nthKept (whereStep (fun x => !q x)) () 0 xs with
      | none => []
      | some j => [⟨.ok (bool false), i + j + 1, a + j + 1⟩] := by
  induction xs generalizing i a with
  | nil => simp only [nthKept]; exact runFrom_src_nil _ _ _ _
  | cons x xs ih =>
    rw [runFrom_src_cons]
    by_cases hq : q x = true
    · have hs : (mAll (some l)).step () x = { st := (), apps := 1 } := by
        simp [mAll, optLam, h x (List.mem_cons_self ..), hq]
      rw [hs]
      simp only [stampOuts, List.map_nil, List.nil_append, Bool.false_eq_true, ↓reduceIte, nthKept, whereStep, hq,
        Bool.not_true]
      rw [ih (fun y hy => h y (List.mem_cons_of_mem _ hy))]
      cases nthKept (whereStep fun x => !q x) () 0 xs with
      | none => simp
      | some j => simp; omega
    · have hq' : q x = false := by simpa using hq
      have hs : (mAll (some l)).step () x = { st := (), outs := oks [bool false] 1, apps := 1, stop := true } := by
        simp [mAll, optLam, h x (List.mem_cons_self ..), hq']
      rw [hs]
      simp [nthKept, whereStep, hq', stampOuts, oks]

/-- `all(p)`: stops at the first counter-example -/
theorem cost_tight_all (l : Lam) (q : Value → Bool) (xs : VL) (h : ∀ x ∈ xs, l.test x = .ok (q x)) :
    outsOf (mAll (some l)) xs =
      match nthKept (whereStep (fun x => !q x)) () 0 xs with
      | none => []
      | some j => [⟨.ok (bool false), j + 1, j + 1⟩] := by
  rw [outsOf_eq]
  have hst : (mAll (some l)).start = idle () := rfl
  rw [hst]
  simp only [idle, stampOuts, List.map_nil, List.nil_append, Bool.false_eq_true, ↓reduceIte]
  rw [all_run l q xs h 0 0]
  cases nthKept (whereStep fun x => !q x) () 0 xs <;> simp


/-! #### zip, accumulate, slice, append, member projection, selectMany, join, insert -/

def linZip (others : List VL) (j i a : Nat) : VL → List Out
  | [] => []
  | x :: xs =>
    if others.all (fun o => decide (j < o.length)) then
      ⟨.ok (tuple (x :: others.map fun o => o.getD j null)), i + 1, a⟩ :: linZip others (j + 1) (i + 1) a xs
    else []

theorem zip_run (others : List VL) (xs : VL) (j i a : Nat) :
    (runFrom (mZip others) j a (stampSrc i xs) none).outs = linZip others j i a xs := by
  induction xs generalizing j i with
  | nil => exact runFrom_src_nil _ _ _ _
  | cons x xs ih =>
    rw [runFrom_src_cons]
    by_cases hall : others.all (fun o => decide (j < o.length)) = true
    · have hs : (mZip others).step j x =
          { st := j + 1, outs := oks [tuple (x :: others.map fun o => o.getD j null)] 0 } := by
        simp only [mZip, hall, ↓reduceIte]
      rw [hs]
      simp only [linZip, hall, ↓reduceIte, stampOuts, oks, List.map_cons, List.map_nil, Nat.add_zero, Bool.false_eq_true,
        List.cons_append, List.nil_append, List.cons.injEq, true_and]
      exact ih (j + 1) (i + 1)
    · have hs : (mZip others).step j x = done j := by simp only [mZip, hall, Bool.false_eq_true, ↓reduceIte]
      rw [hs]
      simp [linZip, hall, done, stampOuts]

/-- `zip`: row k costs k pulls (one element of the receiver per row) -/
theorem cost_tight_zip (others : List VL) (xs : VL) : outsOf (mZip others) xs = linZip others 0 0 0 xs := by
  rw [outsOf_eq]
  have hst : (mZip others).start = idle 0 := rfl
  rw [hst]
  simp only [idle, stampOuts, List.map_nil, List.nil_append, Bool.false_eq_true, ↓reduceIte]
  exact zip_run others xs 0 0 0

theorem linZip_pulls (others : List VL) (j i a : Nat) (xs : VL) (k : Nat) (o : Out)
    (h : (linZip others j i a xs)[k]? = some o) : o.pulls = i + k + 1 ∧ o.apps = a := by
  induction xs generalizing j i k with
  | nil => simp [linZip] at h
  | cons x xs ih =>
    simp only [linZip] at h
    split at h
    · cases k with
      | zero => simp at h; subst h; simp
      | succ k =>
        simp only [List.getElem?_cons_succ] at h
        have := ih (j + 1) (i + 1) k h
        omega
    · simp at h

def linAcc (g : Value → Value → Value) (acc : Value) (i a : Nat) : VL → List Out
  | [] => []
  | x :: xs => ⟨.ok (g acc x), i + 1, a + 1⟩ :: linAcc g (g acc x) (i + 1) (a + 1) xs

theorem accumulate_run (f : Lam2) (g : Value → Value → Value) (seed : Option Value) (xs : VL)
    (h : ∀ u v, f.eval u v = .ok (g u v)) (acc : Value) (i a : Nat) :
    (runFrom (mAccumulate f seed) (some acc) a (stampSrc i xs) none).outs = linAcc g acc i a xs := by
  induction xs generalizing acc i a with
  | nil => exact runFrom_src_nil _ _ _ _
  | cons x xs ih =>
    rw [runFrom_src_cons]
    have hs : (mAccumulate f seed).step (some acc) x = { st := some (g acc x), outs := oks [g acc x] 1, apps := 1 } := by
      simp [mAccumulate, h]
    rw [hs]
    simp only [linAcc, stampOuts, oks, List.map_cons, List.map_nil, Bool.false_eq_true, ↓reduceIte,
      List.cons_append, List.nil_append, List.cons.injEq, true_and]
    exact ih (g acc x) (i + 1) (a + 1)

/-- `accumulate` with a seed: the seed costs nothing, value k costs k pulls and k applications -/
theorem cost_tight_accumulate_seed (f : Lam2) (g : Value → Value → Value) (s : Value) (xs : VL)
    (h : ∀ u v, f.eval u v = .ok (g u v)) :
    outsOf (mAccumulate f (some s)) xs = ⟨.ok s, 0, 0⟩ :: linAcc g s 0 0 xs := by
  rw [outsOf_eq]
  have hst : (mAccumulate f (some s)).start = { st := some s, outs := oks [s] 0 } := rfl
  rw [hst]
  simp only [stampOuts, oks, List.map_cons, List.map_nil, Bool.false_eq_true, ↓reduceIte, List.cons_append,
    List.nil_append, Nat.add_zero, List.cons.injEq, true_and]
  exact accumulate_run f g (some s) xs h s 0 0

/-- `accumulate` without seed: the first element is handed on (1 pull, no application), then
    value k costs k pulls and k-1 applications -/
theorem cost_tight_accumulate (f : Lam2) (g : Value → Value → Value) (x : Value) (xs : VL)
    (h : ∀ u v, f.eval u v = .ok (g u v)) :
    outsOf (mAccumulate f none) (x :: xs) = ⟨.ok x, 1, 0⟩ :: linAcc g x 1 0 xs := by
  rw [outsOf_eq]
  have hst : (mAccumulate f none).start = idle none := rfl
  rw [hst]
  simp only [idle, stampOuts, List.map_nil, List.nil_append, Bool.false_eq_true, ↓reduceIte]
  rw [runFrom_src_cons]
  have hs : (mAccumulate f none).step none x = { st := some x, outs := oks [x] 0 } := rfl
  rw [hs]
  simp only [stampOuts, oks, List.map_cons, List.map_nil, Bool.false_eq_true, ↓reduceIte, List.cons_append,
    List.nil_append, Nat.add_zero, List.cons.injEq, true_and]
  exact accumulate_run f g none xs h x 1 0

theorem linAcc_items (g : Value → Value → Value) (acc : Value) (i a : Nat) (xs : VL) :
    (linAcc g acc i a xs).map (·.item) = (scanFrom g acc xs).map .ok := by
  induction xs generalizing acc i a with
  | nil => simp [linAcc, scanFrom]
  | cons x xs ih => simp [linAcc, scanFrom, ih]

theorem linAcc_cost (g : Value → Value → Value) (acc : Value) (i a : Nat) (xs : VL) (k : Nat) (o : Out)
    (h : (linAcc g acc i a xs)[k]? = some o) : o.pulls = i + k + 1 ∧ o.apps = a + k + 1 := by
  induction xs generalizing acc i a k with
  | nil => simp [linAcc] at h
  | cons x xs ih =>
    cases k with
    | zero => simp [linAcc] at h; subst h; simp
    | succ k =>
      simp only [linAcc, List.getElem?_cons_succ] at h
      have := ih _ (i + 1) (a + 1) k h
      omega

def linSlice (n : Nat) (buf : VL) (i a : Nat) : VL → List Out
  | [] => []
  | x :: xs =>
    if (buf ++ [x]).length ≥ n then ⟨.ok (tuple (buf ++ [x])), i + 1, a⟩ :: linSlice n [] (i + 1) a xs
    else linSlice n (buf ++ [x]) (i + 1) a xs

theorem slice_run (n : Nat) (xs : VL) (buf : VL) (i a : Nat) :
    (runFrom (mSlice n) buf a (stampSrc i xs) none).outs = linSlice n buf i a xs := by
  induction xs generalizing buf i with
  | nil => exact runFrom_src_nil _ _ _ _
  | cons x xs ih =>
    rw [runFrom_src_cons]
    by_cases hfull : (buf ++ [x]).length ≥ n
    · have hs : (mSlice n).step buf x = { st := [], outs := oks [tuple (buf ++ [x])] 0 } := by
        simp only [mSlice, Int.toNat_natCast, hfull, ↓reduceIte]
      rw [hs]
      simp only [linSlice, hfull, ↓reduceIte, stampOuts, oks, List.map_cons, List.map_nil, Nat.add_zero,
        Bool.false_eq_true, List.cons_append, List.nil_append, List.cons.injEq, true_and]
      exact ih [] (i + 1)
    · have hs : (mSlice n).step buf x = { st := buf ++ [x] } := by
        simp only [mSlice, Int.toNat_natCast, hfull, ↓reduceIte]
      rw [hs]
      simp only [linSlice, hfull, ↓reduceIte, stampOuts, List.map_nil, List.nil_append, Bool.false_eq_true, Nat.add_zero]
      exact ih (buf ++ [x]) (i + 1)

theorem cost_tight_slice (n : Nat) (hn : 0 < n) (xs : VL) : outsOf (mSlice n) xs = linSlice n [] 0 0 xs := by
  rw [outsOf_eq]
  have hst : (mSlice n).start = idle [] := by
    have h0 : ¬ ((n : Int) < 0) := by omega
    have h1 : ¬ ((n : Int) = 0) := by omega
    have h2 : n ≠ 0 := by omega
    simp [mSlice, h0, h1, h2]
  rw [hst]
  simp only [idle, stampOuts, List.map_nil, List.nil_append, Bool.false_eq_true, ↓reduceIte]
  exact slice_run n xs [] 0 0

/-- `slice(n)`: chunk k is complete, and produced, exactly when (k+1)·n elements have been pulled -/
theorem linSlice_pulls (n : Nat) (hn : 0 < n) (buf : VL) (hb : buf.length < n) (i a : Nat) (xs : VL) (k : Nat) (o : Out)
    (h : (linSlice n buf i a xs)[k]? = some o) : o.pulls + buf.length = i + (k + 1) * n ∧ o.apps = a := by
  induction xs generalizing buf i k with
  | nil => simp [linSlice] at h
  | cons x xs ih =>
    simp only [linSlice] at h
    split at h
    · rename_i hfull
      simp at hfull
      cases k with
      | zero => simp at h; subst h; simp; omega
      | succ k =>
        simp only [List.getElem?_cons_succ] at h
        have := ih [] (by simpa using hn) (i + 1) k h
        simp at this
        constructor
        · rw [Nat.add_mul (k + 1) 1 n]; omega
        · exact this.2
    · rename_i hfull
      simp at hfull
      have := ih (buf ++ [x]) (by simp; omega) (i + 1) k h
      simp at this
      omega

theorem append_run (tail xs : VL) (i a : Nat) :
    (runFrom (mAppend tail) () a (stampSrc i xs) none).outs = lin id 0 i a xs := by
  induction xs generalizing i a with
  | nil => exact runFrom_src_nil _ _ _ _
  | cons x xs ih =>
    rw [runFrom_src_cons]
    have hs : (mAppend tail).step () x = { st := (), outs := oks [x] 0 } := rfl
    rw [hs]
    simp only [stampOuts, oks, List.map_cons, List.map_nil, lin, Nat.add_zero, id, Bool.false_eq_true, ↓reduceIte,
      List.cons_append, List.nil_append, List.cons.injEq, true_and]
    exact ih (i + 1) a

/-- `append` / `concat`: while the source delivers, elements are handed on one for one; the tail
    is not touched (on an endless source it never is) -/
theorem cost_tight_append (tail xs : VL) : outsOf (mAppend tail) xs = lin id 0 0 0 xs := by
  rw [outsOf_eq]
  have hst : (mAppend tail).start = idle () := rfl
  rw [hst]
  simp only [idle, stampOuts, List.map_nil, List.nil_append, Bool.false_eq_true, ↓reduceIte]
  exact append_run tail xs 0 0

theorem attr_run (name : List Char) (g : Value → Value) (xs : VL) (h : ∀ x ∈ xs, memberV x name = .ok (g x)) (i a : Nat) :
    (runFrom (mAttr name) () a (stampSrc i xs) none).outs = lin g 0 i a xs := by
  induction xs generalizing i a with
  | nil => exact runFrom_src_nil _ _ _ _
  | cons x xs ih =>
    rw [runFrom_src_cons]
    have hs : (mAttr name).step () x = { st := (), outs := oks [g x] 0 } := by
      simp [mAttr, h x (List.mem_cons_self ..)]
    rw [hs]
    simp only [stampOuts, oks, List.map_cons, List.map_nil, lin, Nat.add_zero, Bool.false_eq_true, ↓reduceIte,
      List.cons_append, List.nil_append, List.cons.injEq, true_and]
    exact ih (fun y hy => h y (List.mem_cons_of_mem _ hy)) (i + 1) a

/-- member projection `collection.name`: one result per element, k pulls for result k -/
theorem cost_tight_member (name : List Char) (g : Value → Value) (xs : VL) (h : ∀ x ∈ xs, memberV x name = .ok (g x)) :
    outsOf (mAttr name) xs = lin g 0 0 0 xs := by
  rw [outsOf_eq]
  have hst : (mAttr name).start = idle () := rfl
  rw [hst]
  simp only [idle, stampOuts, List.map_nil, List.nil_append, Bool.false_eq_true, ↓reduceIte]
  exact attr_run name g xs h 0 0

def linMany (g : Value → VL) (i a : Nat) : VL → List Out
  | [] => []
  | x :: xs => (g x).map (fun v => ⟨.ok v, i + 1, a + 1⟩) ++ linMany g (i + 1) (a + 1) xs

/-- `selectMany`: everything an element expands to is stamped with that element's pull and ONE
    application -/
theorem cost_tight_selectMany (f : Lam) (g : Value → VL) (xs : VL)
    (h : ∀ x ∈ xs, ∃ v, f.eval x = .ok v ∧ g x = if isIterable v then elems v else [v]) :
    outsOf (mSelectMany f) xs = linMany g 0 0 xs := by
  rw [outsOf_eq]
  have hst : (mSelectMany f).start = idle () := rfl
  rw [hst]
  simp only [idle, stampOuts, List.map_nil, List.nil_append, Bool.false_eq_true, ↓reduceIte]
  have : ∀ (i a : Nat), (runFrom (mSelectMany f) () a (stampSrc i xs) none).outs = linMany g i a xs := by
    induction xs with
    | nil => intro i a; exact runFrom_src_nil _ _ _ _
    | cons x xs ih =>
      intro i a
      rw [runFrom_src_cons]
      obtain ⟨v, hv, hg⟩ := h x (List.mem_cons_self ..)
      have hs : (mSelectMany f).step () x = { st := (), outs := oks (g x) 1, apps := 1 } := by
        simp [mSelectMany, react1, hv, hg]
      rw [hs]
      simp only [linMany, stampOuts, oks, List.map_map, Bool.false_eq_true, ↓reduceIte]
      rw [ih (fun y hy => h y (List.mem_cons_of_mem _ hy))]
      rfl
  exact this 0 0

theorem linMany_pulls (g : Value → VL) (i a : Nat) (xs : VL) :
    ∀ o ∈ linMany g i a xs, ∃ j, j < xs.length ∧ o.pulls = i + j + 1 ∧ o.apps = a + j + 1 := by
  induction xs generalizing i a with
  | nil => simp [linMany]
  | cons x xs ih =>
    intro o ho
    simp only [linMany, List.mem_append, List.mem_map] at ho
    rcases ho with ⟨v, _, rfl⟩ | ho
    · exact ⟨0, by simp, rfl, rfl⟩
    · obtain ⟨j, hj, hp, ha⟩ := ih (i + 1) (a + 1) o ho
      exact ⟨j + 1, by simp; omega, by omega, by omega⟩

/-- `join`, outer side: the rows made with outer element j are stamped with pull j+1; the inner
    collection is scanned once per outer element (at most 2 applications per inner element) -/
def linJoin (other : VL) (pred sel : Lam2) (i a : Nat) : VL → List Out
  | [] => []
  | x :: xs =>
    stampOuts (joinCosts pred sel x 0 other).1 (i + 1) a ++
      (if (joinCosts pred sel x 0 other).2.2 then []
       else linJoin other pred sel (i + 1) (a + (joinCosts pred sel x 0 other).2.1) xs)

theorem cost_tight_join (other : VL) (pred sel : Lam2) (xs : VL) :
    outsOf (mJoin other pred sel) xs = linJoin other pred sel 0 0 xs := by
  rw [outsOf_eq]
  have hst : (mJoin other pred sel).start = idle () := rfl
  rw [hst]
  simp only [idle, stampOuts, List.map_nil, List.nil_append, Bool.false_eq_true, ↓reduceIte]
  have : ∀ (i a : Nat), (runFrom (mJoin other pred sel) () a (stampSrc i xs) none).outs = linJoin other pred sel i a xs := by
    induction xs with
    | nil => intro i a; exact runFrom_src_nil _ _ _ _
    | cons x xs ih =>
      intro i a
      rw [runFrom_src_cons]
      have hs : (mJoin other pred sel).step () x =
          { st := (), outs := (joinCosts pred sel x 0 other).1, apps := (joinCosts pred sel x 0 other).2.1,
            stop := (joinCosts pred sel x 0 other).2.2 } := rfl
      rw [hs]
      simp only [linJoin]
      rw [ih]
  exact this 0 0

theorem joinCosts_apps (pred sel : Lam2) (x : Value) (a : Nat) (other : VL) :
    (joinCosts pred sel x a other).2.1 ≤ a + 2 * other.length ∧
    ∀ p ∈ (joinCosts pred sel x a other).1, p.2 ≤ a + 2 * other.length := by
  induction other generalizing a with
  | nil => simp [joinCosts]
  | cons y ys ih =>
    simp only [joinCosts]
    split
    · simp; omega
    · split
      · split
        · simp; omega
        · have := ih (a + 2)
          simp only [List.length_cons]
          refine ⟨by omega, ?_⟩
          intro p hp
          simp only [List.mem_cons] at hp
          rcases hp with rfl | hp
          · simp; omega
          · have := this.2 p hp; omega
      · have := ih (a + 1)
        simp only [List.length_cons]
        exact ⟨by omega, fun p hp => by have := this.2 p hp; omega⟩

theorem linJoin_pulls (other : VL) (pred sel : Lam2) (i a : Nat) (xs : VL) :
    ∀ o ∈ linJoin other pred sel i a xs, ∃ j, j < xs.length ∧ o.pulls = i + j + 1 ∧ o.apps ≤ a + 2 * other.length * (j + 1) := by
  induction xs generalizing i a with
  | nil => simp [linJoin]
  | cons x xs ih =>
    intro o ho
    simp only [linJoin, List.mem_append] at ho
    rcases ho with ho | ho
    · simp only [stampOuts, List.mem_map] at ho
      obtain ⟨p, hp, rfl⟩ := ho
      have := (joinCosts_apps pred sel x 0 other).2 p hp
      exact ⟨0, by simp, rfl, by simp; omega⟩
    · split at ho
      · simp at ho
      · obtain ⟨j, hj, hp, ha⟩ := ih (i + 1) _ o ho
        have := (joinCosts_apps pred sel x 0 other).1
        refine ⟨j + 1, by simp; omega, by omega, ?_⟩
        rw [Nat.mul_add (2 * other.length) (j + 1) 1]
        omega

/-- `insert` / `insertMany` on an iterator: at most one element is pulled beyond the number of
    results produced (the element in front of which the values go) -/
theorem insert_pulls_le (pos : Int) (vals : VL) (front : Bool) (xs : VL) (s i a : Nat) :
    ∀ (k : Nat) (o : Out), ((runFrom (mInsert pos vals front) s a (stampSrc i xs) none).outs)[k]? = some o →
      o.pulls ≤ i + k + 1 := by
  induction xs generalizing s i with
  | nil => intro k o h; rw [runFrom_src_nil] at h; simp at h
  | cons x xs ih =>
    intro k o h
    rw [runFrom_src_cons] at h
    by_cases hp : (pos ≥ 0 && pos.toNat = s) = true
    · have hs : (mInsert pos vals front).step s x = { st := s + 1, outs := oks (vals ++ [x]) 0 } := by
        simp only [mInsert, hp, ↓reduceIte]
      rw [hs] at h
      simp only [Bool.false_eq_true, ↓reduceIte] at h
      by_cases hk : k < (stampOuts (oks (vals ++ [x]) 0) (i + 1) a).length
      · rw [List.getElem?_append_left hk] at h
        have := stampOuts_pulls _ _ _ o (List.mem_of_getElem? h)
        omega
      · rw [List.getElem?_append_right (by omega)] at h
        have := ih (s + 1) (i + 1) _ o h
        have hl : (stampOuts (oks (vals ++ [x]) 0) (i + 1) a).length ≥ 1 := by simp [stampOuts, oks]
        omega
    · have hs : (mInsert pos vals front).step s x = { st := s + 1, outs := oks [x] 0 } := by
        simp only [mInsert, hp, Bool.false_eq_true, ↓reduceIte]
      rw [hs] at h
      simp only [Bool.false_eq_true, ↓reduceIte, stampOuts, oks, List.map_cons, List.map_nil, List.cons_append,
        List.nil_append] at h
      cases k with
      | zero => simp at h; subst h; simp
      | succ k =>
        simp only [List.getElem?_cons_succ] at h
        have := ih (s + 1) (i + 1) k o h
        omega

theorem cost_tight_insert (pos : Int) (hpos : 0 ≤ pos) (vals : VL) (front : Bool) (xs : VL) (k : Nat) (o : Out)
    (h : (outsOf (mInsert pos vals front) xs)[k]? = some o) : o.pulls ≤ k + 1 := by
  rw [outsOf_eq] at h
  have hst : (mInsert pos vals front).start = idle 0 := by
    have : ¬ (pos < 0) := by omega
    simp [mInsert, this]
  rw [hst] at h
  simp only [idle, stampOuts, List.map_nil, List.nil_append, Bool.false_eq_true, ↓reduceIte] at h
  have := insert_pulls_le pos vals front xs 0 0 0 k o h
  omega

/-- number of indices `≥ j` inside `[pos, pos+count)` -/
def rangeLeft (pos count : Int) (j : Nat) : Nat := Int.toNat (pos + count - max pos (j : Int))

/-- `replace` / `replaceMany` (non-negative count): the elements of the range are pulled and
    dropped, so result k costs at most k + 1 pulls plus the size of the range still ahead -/
theorem replace_pulls_le (pos count : Int) (hc : 0 ≤ count) (vals : VL) (xs : VL) (s : Nat × Bool) (i a : Nat) :
    ∀ (k : Nat) (o : Out), ((runFrom (mReplace pos count vals) s a (stampSrc i xs) none).outs)[k]? = some o →
      o.pulls ≤ i + k + 1 + rangeLeft pos count s.1 := by
  induction xs generalizing s i with
  | nil => intro k o h; rw [runFrom_src_nil] at h; simp at h
  | cons x xs ih =>
    intro k o h
    rw [runFrom_src_cons] at h
    by_cases hr : inRange pos count s.1 = true
    · have hR : rangeLeft pos count s.1 = rangeLeft pos count (s.1 + 1) + 1 := by
        simp only [inRange, hc, ge_iff_le, decide_true, ↓reduceIte, Bool.and_eq_true, decide_eq_true_eq] at hr
        simp only [rangeLeft]; omega
      by_cases hd : s.2 = true
      · have hs : (mReplace pos count vals).step s x = { st := (s.1 + 1, true) } := by
          simp only [mReplace, hr, ↓reduceIte, hd]
        rw [hs] at h
        simp only [stampOuts, List.map_nil, List.nil_append, Bool.false_eq_true, ↓reduceIte] at h
        have := ih (s.1 + 1, true) (i + 1) k o h
        simp only at this; omega
      · have hs : (mReplace pos count vals).step s x = { st := (s.1 + 1, true), outs := oks vals 0 } := by
          simp only [mReplace, hr, ↓reduceIte, hd, Bool.false_eq_true]
        rw [hs] at h
        simp only [Bool.false_eq_true, ↓reduceIte] at h
        by_cases hk : k < (stampOuts (oks vals 0) (i + 1) a).length
        · rw [List.getElem?_append_left hk] at h
          have := stampOuts_pulls _ _ _ o (List.mem_of_getElem? h)
          omega
        · rw [List.getElem?_append_right (by omega)] at h
          have := ih (s.1 + 1, true) (i + 1) _ o h
          simp only at this; omega
    · have hR : rangeLeft pos count (s.1 + 1) ≤ rangeLeft pos count s.1 := by
        simp only [rangeLeft]; omega
      have hs : (mReplace pos count vals).step s x = { st := (s.1 + 1, s.2), outs := oks [x] 0 } := by
        simp only [mReplace, hr, Bool.false_eq_true, ↓reduceIte]
      rw [hs] at h
      simp only [Bool.false_eq_true, ↓reduceIte, stampOuts, oks, List.map_cons, List.map_nil, List.cons_append,
        List.nil_append] at h
      cases k with
      | zero => simp at h; subst h; simp
      | succ k =>
        simp only [List.getElem?_cons_succ] at h
        have := ih (s.1 + 1, s.2) (i + 1) k o h
        simp only at this; omega

theorem cost_tight_replace (pos count : Int) (hc : 0 ≤ count) (vals : VL) (xs : VL) (k : Nat) (o : Out)
    (h : (outsOf (mReplace pos count vals) xs)[k]? = some o) : o.pulls ≤ k + 1 + count.toNat := by
  rw [outsOf_eq] at h
  have hst : (mReplace pos count vals).start = idle (0, false) := rfl
  rw [hst] at h
  simp only [idle, stampOuts, List.map_nil, List.nil_append, Bool.false_eq_true, ↓reduceIte] at h
  have := replace_pulls_le pos count hc vals xs (0, false) 0 0 k o h
  have hR : rangeLeft pos count 0 ≤ count.toNat := by simp only [rangeLeft]; omega
  simp only at this; omega

/-- `delete` (non-negative count): result k costs at most k + count + 1 pulls -/
theorem cost_delete_le (pos count : Int) (hc : 0 ≤ count) (xs : VL) (k : Nat) (o : Out)
    (h : (outsOf (mDelete pos count) xs)[k]? = some o) : o.pulls ≤ k + 1 + count.toNat := by
  have hrep : mDelete pos count = mDelete pos count := rfl
  -- `delete` is `replaceMany` with no values, as far as consumption goes; prove it directly
  have gen : ∀ (xs : VL) (s i a : Nat) (k : Nat) (o : Out),
      ((runFrom (mDelete pos count) s a (stampSrc i xs) none).outs)[k]? = some o →
        o.pulls ≤ i + k + 1 + rangeLeft pos count s := by
    intro xs
    induction xs with
    | nil => intro s i a k o h; rw [runFrom_src_nil] at h; simp at h
    | cons x xs ih =>
      intro s i a k o h
      rw [runFrom_src_cons] at h
      by_cases hr : inRange pos count s = true
      · have hR : rangeLeft pos count s = rangeLeft pos count (s + 1) + 1 := by
          simp only [inRange, hc, ge_iff_le, decide_true, ↓reduceIte, Bool.and_eq_true, decide_eq_true_eq] at hr
          simp only [rangeLeft]; omega
        have hs : (mDelete pos count).step s x = { st := s + 1 } := by simp only [mDelete, hr, ↓reduceIte]
        rw [hs] at h
        simp only [stampOuts, List.map_nil, List.nil_append, Bool.false_eq_true, ↓reduceIte] at h
        have := ih (s + 1) (i + 1) _ k o h
        omega
      · have hR : rangeLeft pos count (s + 1) ≤ rangeLeft pos count s := by simp only [rangeLeft]; omega
        have hs : (mDelete pos count).step s x = { st := s + 1, outs := oks [x] 0 } := by
          simp only [mDelete, hr, Bool.false_eq_true, ↓reduceIte]
        rw [hs] at h
        simp only [Bool.false_eq_true, ↓reduceIte, stampOuts, oks, List.map_cons, List.map_nil, List.cons_append,
          List.nil_append] at h
        cases k with
        | zero => simp at h; subst h; simp
        | succ k =>
          simp only [List.getElem?_cons_succ] at h
          have := ih (s + 1) (i + 1) _ k o h
          omega
  rw [outsOf_eq] at h
  have hst : (mDelete pos count).start = idle 0 := rfl
  rw [hst] at h
  simp only [idle, stampOuts, List.map_nil, List.nil_append, Bool.false_eq_true, ↓reduceIte] at h
  have := gen xs 0 0 0 k o h
  have hR : rangeLeft pos count 0 ≤ count.toNat := by simp only [rangeLeft]; omega
  omega

/-! ### compose: the cost of a pipeline is the composition of the costs -/

/-- every result of a stage is stamped with the pull count of the input element that
    triggered it (or of the end of its input, or 0 for what it emits before pulling) -/
theorem runFrom_pulls_from_input (m : Machine) :
    ∀ (is : List Out) (s : m.σ) (a : Nat) (fin : Option (Nat × Nat)),
      ∀ o ∈ (runFrom m s a is fin).outs,
        (∃ i ∈ is, o.pulls = i.pulls ∧ i.apps ≤ o.apps) ∨ (∃ p ua, fin = some (p, ua) ∧ o.pulls = p ∧ ua ≤ o.apps) := by
  intro is
  induction is with
  | nil =>
    intro s a fin o ho
    cases fin with
    | none => simp [runFrom] at ho
    | some pa =>
      obtain ⟨p, ua⟩ := pa
      simp only [runFrom, stampOuts, List.mem_map] at ho
      obtain ⟨q, _, rfl⟩ := ho
      exact Or.inr ⟨p, ua, rfl, rfl, by simp; omega⟩
  | cons i is ih =>
    intro s a fin o ho
    simp only [runFrom] at ho
    split at ho
    · simp at ho; subst ho; exact Or.inl ⟨i, List.mem_cons_self .., rfl, by simp⟩
    · split at ho
      · simp only [stampOuts, List.mem_map] at ho
        obtain ⟨q, _, rfl⟩ := ho
        exact Or.inl ⟨i, List.mem_cons_self .., rfl, by simp; omega⟩
      · rcases List.mem_append.mp ho with h | h
        · simp only [stampOuts, List.mem_map] at h
          obtain ⟨q, _, rfl⟩ := h
          exact Or.inl ⟨i, List.mem_cons_self .., rfl, by simp; omega⟩
        · rcases ih _ _ fin o h with ⟨j, hj, hp⟩ | h'
          · exact Or.inl ⟨j, List.mem_cons_of_mem _ hj, hp⟩
          · exact Or.inr h'

/-- **compose** (cost part): a result of stage `g` over stage `f` costs, in source pulls, exactly
    what the `f`-result that triggered it costs; its application count includes that result's.
    By `runPipe` (iterated `runOn`) this extends to pipelines of any length. -/
theorem compose_cost (g : Machine) (I : Strm) :
    ∀ o ∈ (runOn g I).outs,
      o.pulls = 0 ∨ (∃ i ∈ I.outs, o.pulls = i.pulls ∧ i.apps ≤ o.apps) ∨
      (∃ p ua, I.fin = some (p, ua) ∧ o.pulls = p ∧ ua ≤ o.apps) := by
  intro o ho
  simp only [runOn] at ho
  split at ho
  · left; exact stampOuts_pulls _ _ _ o ho
  · rcases List.mem_append.mp ho with h | h
    · left; exact stampOuts_pulls _ _ _ o h
    · right; exact runFrom_pulls_from_input g I.outs _ _ I.fin o h

/-- **compose**: causal operators compose, and the cost of a pipeline is the composition of the
    costs - for pipelines of ANY length (`ms ++ [g]`, by induction through `runPipe_ext`):
    (1) the pipeline extended by a stage is causal; (2) every result of the added stage carries the
    pull stamp of the result of the shorter pipeline that triggered it. -/
theorem compose (ms : List Machine) (g : Machine) (xs ys : VL) :
    (pipeOuts (ms ++ [g]) (xs ++ ys)).filter (fun o => decide (o.pulls ≤ xs.length)) = pipeOuts (ms ++ [g]) xs ∧
    ∀ o ∈ pipeOuts (ms ++ [g]) xs,
      o.pulls = 0 ∨ (∃ i ∈ pipeOuts ms xs, o.pulls = i.pulls ∧ i.apps ≤ o.apps) ∨
      (∃ p ua, (Stream.runPipe ms (src xs)).fin = some (p, ua) ∧ o.pulls = p ∧ ua ≤ o.apps) := by
  refine ⟨causal_pipeline (ms ++ [g]) xs ys, ?_⟩
  intro o ho
  have : pipeOuts (ms ++ [g]) xs = (runOn g (Stream.runPipe ms (src xs))).outs := by
    simp [pipeOuts, Stream.runPipe, List.foldl_append]
  rw [this] at ho
  exact compose_cost g _ o ho

theorem runPipe_cons (m : Machine) (ms : List Machine) (I : Strm) : runPipe (m :: ms) I = runPipe ms (runOn m I) := rfl
theorem runPipe_append (ms ns : List Machine) (I : Strm) : runPipe (ms ++ ns) I = runPipe ns (runPipe ms I) := by
  simp [Stream.runPipe, List.foldl_append]


/-! ### operators seen from a SECONDARY lazy collection argument

`join`'s second collection (memorised), the further collections of `zip` / `zipLongest` / `concat` /
`+`, the values of `insertMany` / `replaceMany`, the default of `defaultIfEmpty`, the result of a
`selectMany` selector.  The machines run over THAT collection, so the generic `causal` applies as
it stands: what the operator has produced by the time n elements of its secondary collection are
pulled depends on those n elements only. -/

theorem causal_joinInner (outer : VL) (pred sel : Lam2) (xs ys : VL) :
    (outsOf (mJoinInner outer pred sel) (xs ++ ys)).filter (fun o => decide (o.pulls ≤ xs.length)) =
      outsOf (mJoinInner outer pred sel) xs := causal _ xs ys
theorem causal_zipAt (before after : List VL) (xs ys : VL) :
    (outsOf (mZipAt before after) (xs ++ ys)).filter (fun o => decide (o.pulls ≤ xs.length)) = outsOf (mZipAt before after) xs :=
  causal _ xs ys
theorem causal_zipLongestAt (before after : List VL) (fill : Value) (xs ys : VL) :
    (outsOf (mZipLongestAt before after fill) (xs ++ ys)).filter (fun o => decide (o.pulls ≤ xs.length)) =
      outsOf (mZipLongestAt before after fill) xs := causal _ xs ys
theorem causal_splice (head : VL) (tail : Option VL) (xs ys : VL) :
    (outsOf (mSplice head tail) (xs ++ ys)).filter (fun o => decide (o.pulls ≤ xs.length)) = outsOf (mSplice head tail) xs :=
  causal _ xs ys
theorem causal_selectManyInner (b : Bool) (xs ys : VL) :
    (outsOf (mSelectManyInner b) (xs ++ ys)).filter (fun o => decide (o.pulls ≤ xs.length)) = outsOf (mSelectManyInner b) xs :=
  causal _ xs ys

/-- a pipeline feeding the secondary argument, the operator, and whatever follows it: causal as a whole -/
theorem causal_secondary (feed post : List Machine) (m : Machine) (xs ys : VL) :
    (pipeOuts (feed ++ m :: post) (xs ++ ys)).filter (fun o => decide (o.pulls ≤ xs.length)) = pipeOuts (feed ++ m :: post) xs :=
  causal_pipeline _ xs ys

/-- an operator that is done before its first pull never asks its input for anything: the result
    is closed at 0 pulls whatever the input is (even an endless one) -/
theorem runOn_of_start_stop (m : Machine) (h : m.start.stop = true) (I : Strm) :
    runOn m I = ⟨stampOuts m.start.outs 0 0, some (0, m.start.apps)⟩ := by
  simp [runOn, h]

/-! #### join, inner side -/

/-- the rows made with the first outer element `x`: inner element j gives its rows at `i+j+1`
    pulls, one predicate application (and one selector application when it holds) each -/
def linJoinInner (pred sel : Lam2) (x : Value) (i a : Nat) : VL → List Out
  | [] => []
  | y :: ys =>
    stampOuts (joinCosts pred sel x 0 [y]).1 (i + 1) a ++
      (if (joinCosts pred sel x 0 [y]).2.2 then []
       else linJoinInner pred sel x (i + 1) (a + (joinCosts pred sel x 0 [y]).2.1) ys)

theorem joinInner_run (x : Value) (rest : VL) (pred sel : Lam2) (ys : VL) :
    ∀ (memo : VL) (i a : Nat),
      (runFrom (mJoinInner (x :: rest) pred sel) memo a (stampSrc i ys) none).outs = linJoinInner pred sel x i a ys := by
  induction ys with
  | nil => intro memo i a; exact runFrom_src_nil _ _ _ _
  | cons y ys ih =>
    intro memo i a
    rw [runFrom_src_cons]
    have hs : (mJoinInner (x :: rest) pred sel).step memo y =
        { st := y :: memo, outs := (joinCosts pred sel x 0 [y]).1, apps := (joinCosts pred sel x 0 [y]).2.1,
          stop := (joinCosts pred sel x 0 [y]).2.2 } := rfl
    rw [hs]
    simp only [linJoinInner]
    rw [ih]

/-- `join`, inner side, some outer element: the inner collection is pulled on demand while the rows
    of the FIRST outer element are made - whatever the other outer elements are -/
theorem cost_tight_joinInner (x : Value) (rest : VL) (pred sel : Lam2) (ys : VL) :
    outsOf (mJoinInner (x :: rest) pred sel) ys = linJoinInner pred sel x 0 0 ys := by
  rw [outsOf_eq]
  have hst : (mJoinInner (x :: rest) pred sel).start = idle [] := rfl
  rw [hst]
  simp only [idle, stampOuts, List.map_nil, List.nil_append, Bool.false_eq_true, ↓reduceIte]
  exact joinInner_run x rest pred sel ys [] 0 0

/-- a row made from inner element j costs j+1 pulls of the inner collection and at most 2(j+1)
    applications -/
theorem linJoinInner_cost (pred sel : Lam2) (x : Value) (i a : Nat) (ys : VL) :
    ∀ o ∈ linJoinInner pred sel x i a ys, ∃ j, j < ys.length ∧ o.pulls = i + j + 1 ∧ o.apps ≤ a + 2 * (j + 1) := by
  induction ys generalizing i a with
  | nil => simp [linJoinInner]
  | cons y ys ih =>
    intro o ho
    simp only [linJoinInner, List.mem_append] at ho
    rcases ho with ho | ho
    · simp only [stampOuts, List.mem_map] at ho
      obtain ⟨p, hp, rfl⟩ := ho
      have := (joinCosts_apps pred sel x 0 [y]).2 p hp
      exact ⟨0, by simp, rfl, by simp at this ⊢; omega⟩
    · split at ho
      · simp at ho
      · obtain ⟨j, hj, hp, ha⟩ := ih (i + 1) _ o ho
        have := (joinCosts_apps pred sel x 0 [y]).1
        simp at this
        exact ⟨j + 1, by simp; omega, by omega, by omega⟩

/-- `join` with no outer element never touches its second collection -/
theorem joinInner_empty_outer (pred sel : Lam2) (I : Strm) :
    runOn (mJoinInner [] pred sel) I = ⟨[], some (0, 0)⟩ := by
  rw [runOn_of_start_stop _ rfl]
  rfl

/-- the second collection is gone through ONCE, however many outer elements there are: on a
    collection of n elements no row costs more than the n pulls plus the one that finds the end -/
theorem joinInner_single_pass (outer : VL) (pred sel : Lam2) (ys : VL) :
    ∀ o ∈ (runOn (mJoinInner outer pred sel) (srcClosed ys)).outs, o.pulls ≤ ys.length + 1 := by
  intro o ho
  rcases compose_cost _ _ o ho with h | ⟨i, hi, hp, _⟩ | ⟨p, ua, hf, hp, _⟩
  · omega
  · have := (stampSrc_pulls 0 ys i hi).2
    omega
  · simp only [srcClosed, Option.some.injEq, Prod.mk.injEq] at hf
    omega

/-! #### zip, a later collection -/

def linZipAt (before after : List VL) (j i a : Nat) : VL → List Out
  | [] => []
  | y :: ys =>
    if after.all (fun o => decide (j < o.length)) then
      ⟨.ok (tuple (before.map (fun o => o.getD j null) ++ y :: after.map fun o => o.getD j null)), i + 1, a⟩ ::
        (if before.all (fun o => decide (j + 1 < o.length)) then linZipAt before after (j + 1) (i + 1) a ys else [])
    else []

theorem zipAt_run (before after : List VL) (ys : VL) (j i a : Nat) :
    (runFrom (mZipAt before after) j a (stampSrc i ys) none).outs = linZipAt before after j i a ys := by
  induction ys generalizing j i with
  | nil => exact runFrom_src_nil _ _ _ _
  | cons y ys ih =>
    rw [runFrom_src_cons]
    by_cases hall : after.all (fun o => decide (j < o.length)) = true
    · by_cases hb : before.all (fun o => decide (j + 1 < o.length)) = true
      · have hs : (mZipAt before after).step j y =
            { st := j + 1, outs := oks [tuple (before.map (fun o => o.getD j null) ++ y :: after.map fun o => o.getD j null)] 0,
              stop := false } := by
          simp only [mZipAt, hall, hb, ↓reduceIte, Bool.not_true]
        rw [hs]
        simp only [linZipAt, hall, hb, ↓reduceIte, stampOuts, oks, List.map_cons, List.map_nil, Nat.add_zero, Bool.false_eq_true,
          List.cons_append, List.nil_append, List.cons.injEq, true_and]
        exact ih (j + 1) (i + 1)
      · have hs : (mZipAt before after).step j y =
            { st := j + 1, outs := oks [tuple (before.map (fun o => o.getD j null) ++ y :: after.map fun o => o.getD j null)] 0,
              stop := true } := by
          simp only [mZipAt, hall, ↓reduceIte]
          simp [hb]
        rw [hs]
        simp [linZipAt, hall, hb, stampOuts, oks]
    · have hs : (mZipAt before after).step j y = done j := by simp only [mZipAt, hall, Bool.false_eq_true, ↓reduceIte]
      rw [hs]
      simp [linZipAt, hall, done, stampOuts]

/-- `zip`, a later collection: nothing is pulled when a collection in front is empty; otherwise -/
theorem cost_tight_zipAt (before after : List VL) (ys : VL) :
    outsOf (mZipAt before after) ys =
      if before.all (fun o => decide (0 < o.length)) then linZipAt before after 0 0 0 ys else [] := by
  rw [outsOf_eq]
  by_cases hb : before.all (fun o => decide (0 < o.length)) = true
  · have hst : (mZipAt before after).start = idle 0 := by simp only [mZipAt, hb, ↓reduceIte]
    rw [hst]
    simp only [idle, stampOuts, List.map_nil, List.nil_append, Bool.false_eq_true, ↓reduceIte, hb]
    exact zipAt_run before after ys 0 0 0
  · have hst : (mZipAt before after).start = done 0 := by simp only [mZipAt, hb, Bool.false_eq_true, ↓reduceIte]
    rw [hst]
    simp [done, stampOuts, hb]

/-- row k costs k+1 pulls of the later collection, and it is never asked for more rows than the
    shortest collection in front of it has -/
theorem linZipAt_pulls (before after : List VL) (j i a : Nat) (ys : VL) (k : Nat) (o : Out)
    (h : (linZipAt before after j i a ys)[k]? = some o) :
    o.pulls = i + k + 1 ∧ o.apps = a ∧ ∀ b ∈ before, j + k < b.length ∨ k = 0 := by
  induction ys generalizing j i k with
  | nil => simp [linZipAt] at h
  | cons y ys ih =>
    simp only [linZipAt] at h
    split at h
    · cases k with
      | zero => simp at h; subst h; simp
      | succ k =>
        simp only [List.getElem?_cons_succ] at h
        split at h
        · rename_i hb
          have := ih (j + 1) (i + 1) k h
          refine ⟨by omega, this.2.1, ?_⟩
          intro b hbm
          rcases this.2.2 b hbm with h1 | h1
          · left; omega
          · left
            have := List.all_eq_true.mp hb b hbm
            simp at this
            omega
        · simp at h
    · simp at h

/-! #### a lazy collection spliced between constant runs: concat, +, insertMany, replaceMany, defaultIfEmpty -/

theorem splice_run (head : VL) (tail : Option VL) (ys : VL) (i a : Nat) :
    (runFrom (mSplice head tail) () a (stampSrc i ys) none).outs = lin id 0 i a ys := by
  induction ys generalizing i a with
  | nil => exact runFrom_src_nil _ _ _ _
  | cons y ys ih =>
    rw [runFrom_src_cons]
    have hs : (mSplice head tail).step () y = { st := (), outs := oks [y] 0 } := rfl
    rw [hs]
    simp only [stampOuts, oks, List.map_cons, List.map_nil, lin, Nat.add_zero, id, Bool.false_eq_true, ↓reduceIte,
      List.cons_append, List.nil_append, List.cons.injEq, true_and]
    exact ih (i + 1) a

/-- the constant run in front costs nothing; then element k of the lazy collection costs k pulls
    (the run behind it is only reached at exhaustion) -/
theorem cost_tight_splice (head tail : VL) (ys : VL) :
    outsOf (mSplice head (some tail)) ys = head.map (fun v => ⟨.ok v, 0, 0⟩) ++ lin id 0 0 0 ys := by
  rw [outsOf_eq]
  have hst : (mSplice head (some tail)).start = { st := (), outs := oks head 0 } := rfl
  rw [hst]
  simp only [stampOuts, oks, List.map_map, Bool.false_eq_true, ↓reduceIte]
  rw [splice_run]
  rfl

/-- `replaceMany` whose range meets no element, `defaultIfEmpty` on a non-empty receiver: the lazy
    argument is never asked for anything -/
theorem splice_untouched (head : VL) (I : Strm) :
    runOn (mSplice head none) I = ⟨head.map (fun v => ⟨.ok v, 0, 0⟩), some (0, 0)⟩ := by
  rw [runOn_of_start_stop _ rfl]
  simp [stampOuts, oks]

theorem spliceDefault_nonempty (x : Value) (xs : VL) : spliceDefault (x :: xs) = (x :: xs, none) := rfl
theorem spliceDefault_empty : spliceDefault [] = ([], some []) := rfl

/-- a range that meets no element of the receiver leaves the values untouched (count = 0, or a position
    at or behind the end) -/
theorem spliceReplaceMany_none (pos count : Int) (xs : VL) (i : Nat)
    (h : ∀ k, k < xs.length → inRange pos count (i + k) = false) :
    spliceReplaceMany pos count i xs = (xs, none) := by
  induction xs generalizing i with
  | nil => rfl
  | cons x xs ih =>
    have h0 := h 0 (by simp)
    simp only [Nat.add_zero] at h0
    simp only [spliceReplaceMany, h0, Bool.false_eq_true, ↓reduceIte]
    rw [ih (i + 1) (fun k hk => by have := h (k + 1) (by simpa using hk); rwa [Nat.add_assoc, Nat.add_comm 1 k])]

/-- the pieces of `replaceMany` put together again are what the reference function of C13 gives -/
theorem spliceReplaceMany_spec (pos count : Int) (vals : VL) (xs : VL) (i : Nat) :
    replaceFrom pos count vals i false xs =
      (spliceReplaceMany pos count i xs).1 ++
        (match (spliceReplaceMany pos count i xs).2 with | none => [] | some t => vals ++ t) := by
  induction xs generalizing i with
  | nil => rfl
  | cons x xs ih =>
    by_cases hr : inRange pos count i = true
    · simp only [replaceFrom, spliceReplaceMany, hr, ↓reduceIte, Bool.false_eq_true, List.nil_append]
      congr 1
      have : ∀ (j : Nat) (zs : VL), replaceFrom pos count vals j true zs = deleteFrom pos count j zs := by
        intro j zs
        induction zs generalizing j with
        | nil => rfl
        | cons z zs ihz =>
          simp only [replaceFrom, deleteFrom, ↓reduceIte, List.nil_append]
          split <;> simp [ihz]
      exact this _ _
    · simp only [Bool.not_eq_true] at hr
      simp only [replaceFrom, spliceReplaceMany, hr, Bool.false_eq_true, ↓reduceIte, List.cons_append]
      rw [ih (i + 1)]

/-- `insertMany`: the pieces put together again -/
theorem spliceInsertMany_parts (xs : VL) (pos : Int) :
    (spliceInsertMany xs pos).1 ++ ((spliceInsertMany xs pos).2.getD []) = xs := by
  simp [spliceInsertMany]

/-! #### the result of a `selectMany` selector -/

theorem cost_tight_selectManyInner (ys : VL) : outsOf (mSelectManyInner true) ys = lin id 0 0 1 ys := by
  rw [outsOf_eq]
  have hst : (mSelectManyInner true).start = { st := (), apps := 1 } := rfl
  rw [hst]
  simp only [stampOuts, List.map_nil, List.nil_append, Bool.false_eq_true, ↓reduceIte]
  have : ∀ (i a : Nat), (runFrom (mSelectManyInner true) () a (stampSrc i ys) none).outs = lin id 0 i a ys := by
    induction ys with
    | nil => intro i a; exact runFrom_src_nil _ _ _ _
    | cons y ys ih =>
      intro i a
      rw [runFrom_src_cons]
      have hs : (mSelectManyInner true).step () y = { st := (), outs := oks [y] 0 } := rfl
      rw [hs]
      simp only [stampOuts, oks, List.map_cons, List.map_nil, lin, Nat.add_zero, id, Bool.false_eq_true, ↓reduceIte,
        List.cons_append, List.nil_append, List.cons.injEq, true_and]
      exact ih (i + 1) a
  exact this 0 1

theorem selectManyInner_empty (I : Strm) : runOn (mSelectManyInner false) I = ⟨[], some (0, 0)⟩ := by
  rw [runOn_of_start_stop _ rfl]
  rfl

/-- non-vacuity: the demo of the join seed - two outer elements, three inner ones behind a `select`,
    first row wanted: ONE inner element is pulled, and none with an empty outer side -/
example : ((pipeOuts [mSelect .arg, mJoinInner [.int 1, .int 2] (.const (.bool true)) .plus, mTake 1]
    [.int 10, .int 20, .int 30]).map fun o => (o.pulls, o.apps)) = [(1, 3)] := by decide
example : (Stream.runPipe [mSelect .arg, mJoinInner [] (.const (.bool true)) .plus] (srcClosed [.int 10, .int 20])).fin = some (0, 0) := by
  decide

/-! ### non-vacuity: concrete pipelines -/

/-- `[1,2,3,...].where($ > 1).select($ + 10)`: the first result needs 2 pulls / 3 applications, the
    second 3 pulls / 5 applications -/
example : (pipeOuts [mWhere (.gt .arg 1), mSelect (.add .arg 10)] [.int 1, .int 2, .int 3]).map
    (fun o => (o.pulls, o.apps)) = [(2, 3), (3, 5)] := by decide

/-- `take(2)` after `skip(1)`: never more than 3 pulls, whatever follows -/
example : (pipeOuts [mSkip 1, mTake 2] [.int 1, .int 2, .int 3, .int 4, .int 5]).map (·.pulls) = [2, 3] := by decide

/-- an endless source `0,1,2,...`: `where($ mod 3 = 0).take(2)` is total with fuel 4 -/
example : (firstK [mWhere (.eq (.mod .arg 3) (.int 0)), mTake 2] (prefixOf (fun i => .int i) 4) 2).map
    (List.map (·.pulls)) = some [1, 4] := by decide

end Yaql.Props.C14
