import Yaql.Model.Eval
/-!
# C04 - core evaluation semantics follow the language reference

Theorems about the reference interpreter `Yaql.Eval.eval` (`Model/Eval.lean`).  All of them hold
for **every** expression, context, document and amount of fuel.

| theorem | says |
|---|---|
| `frame`, `frame_root` | a context handed back by an evaluation started in `C` is new frames on top of `C` or of an ancestor of `C` (pre-existing frames occur unmodified); nothing else leaves an evaluation |
| `sibling_independence` | in `[e1, e2]` the second element is evaluated in the unchanged context, whatever `e1` bound |
| `no_leak_arg`, `no_leak_lambda`, `no_leak_callee` | the same for operands / arguments, for the stages of a method chain, for the caller of a `def`-ined function |
| `shadowing`, `shadowing_let` | lookup returns the nearest binding |
| `unknown_null` | a name nobody binds is null |
| `dollar_alias` | `$`, `$1`, the empty name (and `1`) are one variable |
| `lambda_binds_innermost`, `lambda_dollar`, `get_argFrame`, `with_numbering` | in a lambda body `$k` is the k-th argument of the innermost application, whatever is bound outside |
| `closure_lexical`, `closure_lexical_args`, `ucall_eq` | a `def`-ined function called from any later context gives what it gives in the context it was defined in |
| `member_maps` | `coll.name` = `coll.select($.name)` |
| `fuel_mono` | more fuel never changes a definite outcome |
| `empty_frame_invisible` | a frame that binds nothing cannot be observed (why the model may elide the call frames of pure builtins) |
| `let_names_verbatim`, `kwarg_names_verbatim`, `def_names_verbatim` | names are data: a binding is visible exactly under its own normal form |
| `def_call_own_args`, `def_call_pure`, `def_calls_independent`, `def_then_call` | a call of a `def`-ined function is the body on the argument VALUES of that call: equal values give equal results, and nothing of an earlier call (its arguments, its result) occurs in a later one |
| `def_identity_faithful`, `def_identity_injective` | arguments are handed over as they are: `1`, `true`, `1.0` stay three values |

## For the properties that build on this (C09 context clause, C18)

**No evaluation returns a modified version of a pre-existing context.**  In this model a context
is an immutable value `Ctx = List Frame`; `eval : Nat -> Ctx -> Expr -> Except Err Obj` receives the
calling context as an argument and has no store to write to.  The only way a context can leave an
evaluation is as the result `Obj.ctx C'`, and `frame` shows `C'` shares a non-empty suffix of whole
frames with the context the evaluation started in: everything that existed before is still there,
unchanged; writes are new frames on top.  Every sub-evaluation that follows (sibling elements,
later arguments, the continuation of a method chain, the caller after a call returns) is handed the
caller's own context value again (`sibling_independence`, `no_leak_*`).  That the Python objects
behave like these values - that no code path writes into a context object after it has been handed
out - is what the differential run of `harness/props/c04.py` checks on the real engine.
-/
namespace Yaql.Props.C04
open Yaql Yaql.Eval
open Yaql.Context (normName alookup aset)

/-! ## stability under more fuel -/

/-- `y` has the outcome of `x` unless `x` ran out of fuel -/
structure Stable (x y : R α) : Prop where
  out : x ≠ .error .fuel → y = x

theorem Stable.refl (x : R α) : Stable x x := ⟨fun _ => rfl⟩

theorem Stable.bind {x y : R α} {f g : α → R β} (h : Stable x y) (hf : ∀ a, Stable (f a) (g a)) :
    Stable (x >>= f) (y >>= g) := by
  constructor
  intro hne
  cases x with
  | error e =>
    have : e ≠ .fuel := by intro he; subst he; exact hne rfl
    have hy : y = .error e := h.out (by intro h'; injection h' with h''; exact this h'')
    subst hy; rfl
  | ok a =>
    have hy : y = .ok a := h.out (by intro h'; cases h')
    subst hy
    exact (hf a).out hne

theorem Stable.capture {x y : R α} (h : Stable x y) : Stable (capture x) (capture y) := by
  constructor
  intro hne
  have : x ≠ .error .fuel := by intro hx; subst hx; exact hne rfl
  rw [h.out this]

/-- `ev'` has every definite outcome of `ev` -/
def Le (ev ev' : Ev) : Prop := ∀ C e, Stable (ev C e) (ev' C e)

theorem mapL_stable {f g : Value → R Value} (h : ∀ x, Stable (f x) (g x)) :
    ∀ xs e, Stable (mapL f xs e) (mapL g xs e)
  | [], e => Stable.refl _
  | x :: xs, e => by
    unfold mapL
    apply Stable.bind (Stable.capture (h x))
    intro r
    cases r with
    | error er => exact Stable.refl _
    | ok v => exact Stable.bind (mapL_stable h xs e) (fun _ => Stable.refl _)

theorem filterL_stable {f g : Value → R Bool} (h : ∀ x, Stable (f x) (g x)) :
    ∀ xs e, Stable (filterL f xs e) (filterL g xs e)
  | [], e => Stable.refl _
  | x :: xs, e => by
    unfold filterL
    apply Stable.bind (Stable.capture (h x))
    intro r
    cases r with
    | error er => exact Stable.refl _
    | ok v => exact Stable.bind (filterL_stable h xs e) (fun _ => Stable.refl _)

theorem flatMapL_stable {f g : Value → R (VL × Option Err)} (h : ∀ x, Stable (f x) (g x)) :
    ∀ xs e, Stable (flatMapL f xs e) (flatMapL g xs e)
  | [], e => Stable.refl _
  | x :: xs, e => by
    unfold flatMapL
    apply Stable.bind (Stable.capture (h x))
    intro r
    match r with
    | .error er => exact Stable.refl _
    | .ok (vs, some er) => exact Stable.refl _
    | .ok (vs, none) => exact Stable.bind (flatMapL_stable h xs e) (fun _ => Stable.refl _)

theorem takeWhileL_stable {f g : Value → R Bool} (h : ∀ x, Stable (f x) (g x)) :
    ∀ xs e, Stable (takeWhileL f xs e) (takeWhileL g xs e)
  | [], e => Stable.refl _
  | x :: xs, e => by
    unfold takeWhileL
    apply Stable.bind (Stable.capture (h x))
    intro r
    match r with
    | .error er => exact Stable.refl _
    | .ok true => exact Stable.bind (takeWhileL_stable h xs e) (fun _ => Stable.refl _)
    | .ok false => exact Stable.refl _

theorem dropWhileL_stable {f g : Value → R Bool} (h : ∀ x, Stable (f x) (g x)) :
    ∀ xs e, Stable (dropWhileL f xs e) (dropWhileL g xs e)
  | [], e => Stable.refl _
  | x :: xs, e => by
    unfold dropWhileL
    apply Stable.bind (Stable.capture (h x))
    intro r
    match r with
    | .error er => exact Stable.refl _
    | .ok true => exact dropWhileL_stable h xs e
    | .ok false => exact Stable.refl _

theorem findL_stable {f g : Value → R Bool} (h : ∀ x, Stable (f x) (g x)) :
    ∀ xs i e, Stable (findL f i xs e) (findL g i xs e)
  | [], i, none => Stable.refl _
  | [], i, some e => Stable.refl _
  | x :: xs, i, e => by
    unfold findL
    apply Stable.bind (h x)
    intro b
    cases b
    · exact findL_stable h xs (i + 1) e
    · exact Stable.refl _

theorem foldL_stable {f g : Value → Value → R Value} (h : ∀ a x, Stable (f a x) (g a x)) :
    ∀ xs acc e, Stable (foldL f acc xs e) (foldL g acc xs e)
  | [], acc, none => Stable.refl _
  | [], acc, some e => Stable.refl _
  | x :: xs, acc, e => by
    unfold foldL
    exact Stable.bind (h acc x) (fun a => foldL_stable h xs a e)

theorem toDictL_stable {kf kg vf vg : Value → R Value} (hk : ∀ x, Stable (kf x) (kg x))
    (hv : ∀ x, Stable (vf x) (vg x)) :
    ∀ xs acc e, Stable (toDictL kf vf acc xs e) (toDictL kg vg acc xs e)
  | [], acc, none => Stable.refl _
  | [], acc, some e => Stable.refl _
  | x :: xs, acc, e => by
    unfold toDictL
    apply Stable.bind (hk x); intro k
    apply Stable.bind (hv x); intro v
    split
    · exact toDictL_stable hk hv xs _ e
    · exact Stable.refl _

theorem keysL_stable {f g : Value → R Value} (h : ∀ x, Stable (f x) (g x)) :
    ∀ xs, Stable (Eval.keysL f xs) (Eval.keysL g xs)
  | [] => Stable.refl _
  | x :: xs => by
    unfold Eval.keysL
    apply Stable.bind (Stable.capture (h x)); intro k
    exact Stable.bind (keysL_stable h xs) (fun _ => Stable.refl _)

theorem evalList_stable {ev ev' : Ev} (h : Le ev ev') (C : Ctx) :
    ∀ es, Stable (evalList ev C es) (evalList ev' C es)
  | [] => Stable.refl _
  | e :: es => by
    unfold evalList
    apply Stable.bind (h C e); intro o
    apply Stable.bind (Stable.refl _); intro v
    exact Stable.bind (evalList_stable h C es) (fun _ => Stable.refl _)

theorem evalObjs_stable {ev ev' : Ev} (h : Le ev ev') (C : Ctx) :
    ∀ es, Stable (evalObjs ev C es) (evalObjs ev' C es)
  | [] => Stable.refl _
  | e :: es => by
    unfold evalObjs
    apply Stable.bind (h C e); intro o
    exact Stable.bind (evalObjs_stable h C es) (fun _ => Stable.refl _)

theorem evalPairs_stable {ev ev' : Ev} (h : Le ev ev') (C : Ctx) :
    ∀ ps, Stable (evalPairs ev C ps) (evalPairs ev' C ps)
  | [] => Stable.refl _
  | (k, v) :: r => by
    unfold evalPairs
    apply Stable.bind (h C k); intro ko
    apply Stable.bind (Stable.refl _); intro kv
    apply Stable.bind (h C v); intro vo
    apply Stable.bind (Stable.refl _); intro vv
    exact Stable.bind (evalPairs_stable h C r) (fun _ => Stable.refl _)

theorem applyLam_stable {ev ev' : Ev} (h : Le ev ev') (D : Ctx) (b : Expr) (args : VL) :
    Stable (applyLam ev D b args) (applyLam ev' D b args) := h _ _

theorem lamV_stable {ev ev' : Ev} (h : Le ev ev') (D : Ctx) (b : Expr) (args : VL) :
    Stable (lamV ev D b args) (lamV ev' D b args) :=
  Stable.bind (applyLam_stable h D b args) (fun _ => Stable.refl _)

theorem lamB_stable {ev ev' : Ev} (h : Le ev ev') (D : Ctx) (b : Expr) (args : VL) :
    Stable (lamB ev D b args) (lamB ev' D b args) :=
  Stable.bind (applyLam_stable h D b args) (fun _ => Stable.refl _)

theorem lamMany_stable {ev ev' : Ev} (h : Le ev ev') (D : Ctx) (b : Expr) (x : Value) :
    Stable (lamMany ev D b x) (lamMany ev' D b x) :=
  Stable.bind (applyLam_stable h D b [x]) (fun _ => Stable.refl _)

/-- one step of a compositional stability proof -/
macro "stable_step" h:ident : tactic => `(tactic| first
  | exact Stable.refl _
  | exact $h _ _
  | exact lamV_stable $h _ _ _
  | exact lamB_stable $h _ _ _
  | exact lamMany_stable $h _ _ _
  | exact evalList_stable $h _ _
  | exact evalObjs_stable $h _ _
  | exact evalPairs_stable $h _ _
  | apply mapL_stable
  | apply filterL_stable
  | apply flatMapL_stable
  | apply takeWhileL_stable
  | apply dropWhileL_stable
  | apply findL_stable
  | apply foldL_stable
  | apply toDictL_stable
  | apply keysL_stable
  | apply Stable.bind
  | intro _
  | split)

theorem callMethod_stable {ev ev' : Ev} (h : Le ev ev') (C : Ctx) (bad : Err) (r : Obj) (f : Fn)
    (args : List Expr) : Stable (callMethod ev C bad r f args) (callMethod ev' C bad r f args) := by
  unfold callMethod
  split <;> repeat (stable_step h)

theorem callFn_stable {ev ev' : Ev} (h : Le ev ev') (C : Ctx) (f : Fn) (args : List Expr)
    (kw : List (Expr × Expr)) : Stable (callFn ev C f args kw) (callFn ev' C f args kw) := by
  unfold callFn
  split <;> repeat (first | exact callMethod_stable h _ _ _ _ _ | stable_step h)

theorem step_stable {ev ev' : Ev} (h : Le ev ev') : Le (step ev) (step ev') := by
  intro C e
  unfold step
  split <;> repeat (first | exact callMethod_stable h _ _ _ _ _ | exact callFn_stable h _ _ _ _ | stable_step h)

theorem eval_succ_le : ∀ n, Le (eval n) (eval (n + 1))
  | 0 => fun _ _ => ⟨fun hne => absurd rfl hne⟩
  | n + 1 => step_stable (eval_succ_le n)

theorem eval_le {n m : Nat} (h : n ≤ m) : Le (eval n) (eval m) := by
  induction h with
  | refl => exact fun _ _ => Stable.refl _
  | step _ ih =>
    intro C e
    constructor
    intro hne
    have h1 := (ih C e).out hne
    rw [← h1] at hne
    rw [(eval_succ_le _ C e).out hne, h1]

/-- more fuel never changes a definite outcome (a value or an exception other than "out of fuel") -/
theorem fuel_mono {n m : Nat} (h : n ≤ m) (C : Ctx) (e : Expr) (r : R Obj)
    (hr : eval n C e = r) (hne : r ≠ .error .fuel) : eval m C e = r := by
  subst hr
  exact (eval_le h C e).out hne

/-! ## variables -/

theorem eval_succ (n : Nat) : eval (n + 1) = step (eval n) := rfl

theorem eval_var (n : Nat) (C : Ctx) (x : Name) : eval (n + 1) C (.var x) = readVar C x := rfl

/-- the lookup sees a name only through its normal form -/
theorem get_congr {x y : Name} (h : normName x = normName y) : ∀ C : Ctx, C.get x = C.get y
  | [] => rfl
  | F :: C => by simp only [Ctx.get, h, get_congr h C]

/-- a context that binds nothing is invisible: the frames the model does not push
    (call contexts of pure builtins, of `#operator_.`) cannot be observed -/
theorem empty_frame_invisible (C : Ctx) (x : Name) : Ctx.get ({} :: C) x = Ctx.get C x := rfl

/-- lookup returns the nearest binding: frames that do not bind the name are skipped, the first
    one that does answers, whatever the frames behind it say -/
theorem shadowing (pre : Ctx) (F : Frame) (C : Ctx) (x : Name) (v : Value)
    (hpre : ∀ G ∈ pre, alookup (normName x) G.vars = none)
    (hF : alookup (normName x) F.vars = some v) :
    Ctx.get (pre ++ F :: C) x = some v := by
  induction pre with
  | nil => simp [Ctx.get, hF]
  | cons G pre ih =>
    have hG := hpre G (by simp)
    simp only [List.cons_append, Ctx.get, hG]
    exact ih (fun G' hG' => hpre G' (by simp [hG']))

/-- a name no frame binds is null -/
theorem unknown_null (n : Nat) (C : Ctx) (x : Name) (h : ∀ G ∈ C, alookup (normName x) G.vars = none) :
    eval (n + 1) C (.var x) = .ok (.val .null) := by
  have : C.get x = none := by
    induction C with
    | nil => rfl
    | cons G C ih =>
      simp only [Ctx.get, h G (by simp)]
      exact ih (fun G' hG' => h G' (by simp [hG']))
  simp [eval_var, readVar, this]

/-- `$`, `$1`, the empty name and `1` are one variable -/
theorem dollar_alias (n : Nat) (C : Ctx) :
    eval n C (.var ['$']) = eval n C (.var ['$', '1']) ∧
    eval n C (.var []) = eval n C (.var ['$', '1']) ∧
    eval n C (.var ['1']) = eval n C (.var ['$', '1']) := by
  cases n with
  | zero => exact ⟨rfl, rfl, rfl⟩
  | succ n =>
    simp only [eval_var, readVar]
    refine ⟨?_, ?_, ?_⟩
    · rw [get_congr (x := ['$']) (y := ['$', '1']) (by decide) C]
    · rw [get_congr (x := []) (y := ['$', '1']) (by decide) C]
    · rw [get_congr (x := ['1']) (y := ['$', '1']) (by decide) C]


/-! ## lambda parameters -/

/-- the name `$k` -/
def argName (k : Nat) : Name := '$' :: Nat.toDigits 10 k

theorem toDigits_inj {a b : Nat} (h : Nat.toDigits 10 a = Nat.toDigits 10 b) : a = b := by
  have := congrArg (fun l => Nat.ofDigitChars 10 l 0) h
  simpa [Nat.ofDigitChars_ten_toDigits] using this

theorem argName_inj {a b : Nat} (h : argName a = argName b) : a = b := by
  unfold argName at h
  exact toDigits_inj (List.cons.inj h).2

theorem normName_argName (k : Nat) : normName (argName k) = argName k := by
  unfold argName normName
  have hne : Nat.toDigits 10 k ≠ [] := Nat.toDigits_ne_nil
  cases hd : Nat.toDigits 10 k with
  | nil => exact absurd hd hne
  | cons c cs => simp

theorem alookup_bindPos (args : VL) : ∀ (i k : Nat) (h : k < args.length),
    alookup (argName (i + k)) (bindPos i args) = some args[k] := by
  induction args with
  | nil => intro i k h; simp at h
  | cons v vs ih =>
    intro i k h
    cases k with
    | zero => simp [bindPos, alookup, argName]
    | succ k =>
      have hne : (argName i == argName (i + (k + 1))) = false := by
        apply beq_false_of_ne
        intro heq
        have := argName_inj heq
        omega
      have h' : k < vs.length := by simpa using h
      have := ih (i + 1) k h'
      simp only [bindPos, alookup]
      change (if (argName i == argName (i + (k + 1))) = true then some v else _) = _
      rw [hne]
      simp only [Bool.false_eq_true, if_false, List.getElem_cons_succ]
      rw [← this]
      congr 2
      omega

/-- inside a lambda body `$k` is the k-th argument of the innermost application, whatever the
    defining context `D` (outer lambdas, `let`s, the document) binds -/
theorem lambda_binds_innermost (n : Nat) (D : Ctx) (args : VL) (k : Nat) (h : k < args.length)
    (hi : hasIter args[k] = false) :
    applyLam (eval (n + 1)) D (.var (argName (k + 1))) args = .ok (.val args[k]) := by
  have hl := alookup_bindPos args 1 k h
  rw [Nat.add_comm] at hl
  simp [applyLam, eval_var, readVar, Ctx.get, argFrame, bindNamed, normName_argName, hl, hi]

/-- ... and `$` is the first one -/
theorem lambda_dollar (n : Nat) (D : Ctx) (a : Value) (as : VL) (hi : hasIter a = false) :
    applyLam (eval (n + 1)) D (.var ['$']) (a :: as) = .ok (.val a) := by
  have := lambda_binds_innermost n D (a :: as) 0 (by simp) (by simpa using hi)
  have h1 : argName (0 + 1) = ['$', '1'] := by decide
  rw [h1] at this
  simpa [applyLam, (dollar_alias (n + 1) _).1] using this

example : applyLam (eval 1) [{ vars := [(['$', '1'], .int 7), (['$', '2'], .int 8)] }] (.var ['$', '2'])
    [.int 1, .int 2, .int 3] = .ok (.val (.int 2)) := rfl

@[simp] theorem ok_bind (a : α) (f : α → R β) : (Except.ok a >>= f) = f a := rfl
@[simp] theorem error_bind (e : Err) (f : α → R β) : ((Except.error e : R α) >>= f) = .error e := rfl
@[simp] theorem pure_eq (a : α) : (pure a : R α) = .ok a := rfl

/-! ## closures -/

/-- frames that do not register `f` are skipped by the function lookup -/
theorem getFun_append (ext D : Ctx) (f : Name) (h : ∀ G ∈ ext, alookup f G.funs = none) :
    (Ctx.getFun (ext ++ D) f) = Ctx.getFun D f := by
  induction ext with
  | nil => rfl
  | cons G ext ih =>
    simp only [List.cons_append, Ctx.getFun, h G (by simp)]
    exact ih (fun G' hG' => h G' (by simp [hG']))

/-- literal arguments evaluate to themselves in every context -/
theorem evalList_lits (n : Nat) (C : Ctx) : ∀ vs : VL, evalList (eval (n + 1)) C (vs.map .lit) = .ok vs
  | [] => rfl
  | v :: vs => by
    simp only [List.map, evalList, evalList_lits n C vs]
    rfl

/-- what a call of a `def`-ined function does: the arguments are evaluated where the call stands,
    the body in a child of the context the function was defined in -/
theorem ucall_eq (n : Nat) (C : Ctx) (f : Name) (args : List Expr) (kw : List (Expr × Expr))
    (body : Expr) (D : Ctx) (h : C.getFun (fnKey f) = some (body, D)) :
    eval (n + 1) C (.ucall f args kw) = (do
      let names ← kwNames kw
      let vs ← evalList (eval n) C args
      let kvs ← evalList (eval n) C (kw.map (·.2))
      eval n (argFrame vs (names.zip kvs) :: D) body) := by
  simp only [eval_succ, step, h]

/-- lexical closure: a function called from any later context `ext ++ D` (whatever `ext` binds,
    as long as it does not redefine the name) gives the result it gives in the context `D` it is
    visible in - the caller's bindings play no role -/
theorem closure_lexical (n : Nat) (ext D : Ctx) (f : Name) (vs : VL)
    (h : ∀ G ∈ ext, alookup (fnKey f) G.funs = none) :
    eval (n + 2) (ext ++ D) (.ucall f (vs.map .lit) []) = eval (n + 2) D (.ucall f (vs.map .lit) []) := by
  simp only [eval_succ (n + 1), step, getFun_append ext D (fnKey f) h]
  cases Ctx.getFun D (fnKey f) with
  | none => rfl
  | some p =>
    obtain ⟨body, D'⟩ := p
    simp only [kwNames, evalList_lits, List.map_nil, evalList]

/-- ... in particular a rebinding of a free variable of the body by the caller is not seen -/
example : run 20 .null
    (.arrow (.call .let_ [] [(.kw ['k'], .lit (.int 1))])
      (.arrow (.call .def_ [.kw ['f'], .var ['$', 'k']] [])
        (.arrow (.call .let_ [] [(.kw ['k'], .lit (.int 2))]) (.ucall ['f'] [] [])))) =
    .ok (.data (.int 1)) := rfl

/-! ## shadowing at the level of programs -/

theorem normName_dollar (x : Name) (h : x.head? ≠ some '$') : normName ('$' :: x) = normName x := by
  cases x with
  | nil => rfl
  | cons c cs =>
    have hc : c ≠ '$' := by simpa using h
    simp [normName, hc]

theorem callFn_let (ev : Ev) (C : Ctx) (args : List Expr) (kw : List (Expr × Expr)) :
    callFn ev C .let_ args kw = (do
      let names ← kwNames kw
      let vs ← evalList ev C args
      let kvs ← evalList ev C (kw.map (·.2))
      pure (.ctx (argFrame vs (names.zip kvs) :: C))) := rfl

/-- `let(x => a) -> $x` is `a`, whatever the surrounding context binds `x` to -/
theorem shadowing_let (n : Nat) (C : Ctx) (x : Name) (a : Value) (hx : x.head? ≠ some '$')
    (ha : hasIter a = false) :
    eval (n + 3) C (.arrow (.call .let_ [] [(.kw x, .lit a)]) (.var ('$' :: x))) = .ok (.val a) := by
  simp [eval_succ, step, callFn_let, kwNames, evalList, toV, argFrame, bindNamed, bindPos, aset, readVar, Ctx.get,
    normName_dollar x hx, alookup, ha]

/-! ## names are data

A variable, a keyword argument, a function name is the sequence of characters that was written.
The only identifications are the documented ones: a variable name with and without its `$`, the
empty name / `$` / `$1` (`normName`, `dollar_alias`), and function names up to trailing underscores
(`fnKey`).  No other relation between names (case, snake_case vs camelCase, inner underscores,
a trailing underscore of a VARIABLE name) ever makes two bindings one. -/

/-- a name a keyword can spell is normalised by putting `$` in front, nothing else -/
theorem normName_plain (x : Name) (hx : x ≠ []) (h : x.head? ≠ some '$') : normName x = '$' :: x := by
  cases x with
  | nil => exact absurd rfl hx
  | cons c cs =>
    have hc : c ≠ '$' := by simpa using h
    simp [normName, hc]

/-- ... so two such names are one variable only if they are the same characters -/
theorem normName_inj_plain {x y : Name} (hx : x ≠ []) (hx' : x.head? ≠ some '$') (hy : y ≠ [])
    (hy' : y.head? ≠ some '$') (h : normName x = normName y) : x = y := by
  rw [normName_plain x hx hx', normName_plain y hy hy'] at h
  exact (List.cons.inj h).2

/-- **`let(x => a) -> $m`, for ALL names `x`, `m`**: `a` if the two names have the same normal form,
    otherwise whatever `$m` is outside - the `let` is invisible to every other name -/
theorem let_names_verbatim (n : Nat) (C : Ctx) (x m : Name) (a : Value) (ha : hasIter a = false) :
    eval (n + 3) C (.arrow (.call .let_ [] [(.kw x, .lit a)]) (.var m)) =
      if normName x = normName m then .ok (.val a) else eval (n + 1) C (.var m) := by
  by_cases h : normName x = normName m
  · simp [eval_succ, step, callFn_let, kwNames, evalList, toV, argFrame, bindNamed, bindPos, aset, readVar, Ctx.get,
      alookup, h, ha]
  · have hb : (normName x == normName m) = false := beq_false_of_ne h
    simp [eval_succ, step, callFn_let, kwNames, evalList, toV, argFrame, bindNamed, bindPos, aset, readVar, Ctx.get,
      alookup, h, hb]

/-- ... in particular for two keywords that differ in any character at all (`my_var` / `myVar`,
    `x1` / `x_1`, `a_` / `a`, `A` / `a`) -/
theorem let_other_name (n : Nat) (C : Ctx) (x y : Name) (a : Value) (ha : hasIter a = false)
    (hx : x ≠ []) (hx' : x.head? ≠ some '$') (hy : y ≠ []) (hy' : y.head? ≠ some '$') (hne : x ≠ y) :
    eval (n + 3) C (.arrow (.call .let_ [] [(.kw x, .lit a)]) (.var ('$' :: y))) = eval (n + 1) C (.var ('$' :: y)) := by
  rw [let_names_verbatim n C x ('$' :: y) a ha, normName_dollar y hy']
  have : normName x ≠ normName y := fun h => hne (normName_inj_plain hx hx' hy hy' h)
  simp [this]

example : run 20 .null (.arrow (.call .let_ [] [(.kw ['m', 'y', '_', 'v', 'a', 'r'], .lit (.int 5))])
    (.list [.var ['$', 'm', 'y', '_', 'v', 'a', 'r'], .var ['$', 'm', 'y', 'V', 'a', 'r'],
            .var ['$', 'm', 'y', '_', 'v', 'a', 'r', '_'], .var ['$', 'M', 'y', '_', 'v', 'a', 'r']])) =
    .ok (.data (.list [.int 5, .null, .null, .null])) := rfl

example : run 20 .null (.arrow (.call .let_ [] [(.kw ['x', '1'], .lit (.int 1)), (.kw ['x', '_', '1'], .lit (.int 2)),
      (.kw ['a', '_'], .lit (.int 3))])
    (.list [.var ['$', 'x', '1'], .var ['$', 'x', '_', '1'], .var ['$', 'a', '_'], .var ['$', 'a']])) =
    .ok (.data (.list [.int 1, .int 2, .int 3, .null])) := rfl

/-- the same for a keyword argument of a `def`-ined function: the body `$m` sees the argument passed
    as `x => a` iff the names have the same normal form, else what the DEFINING context says -/
theorem kwarg_names_verbatim (n : Nat) (C D : Ctx) (f x m : Name) (a : Value) (ha : hasIter a = false)
    (hf : C.getFun (fnKey f) = some (.var m, D)) :
    eval (n + 2) C (.ucall f [] [(.kw x, .lit a)]) =
      if normName x = normName m then .ok (.val a) else eval (n + 1) D (.var m) := by
  rw [ucall_eq (n + 1) C f [] [(.kw x, .lit a)] (.var m) D hf]
  by_cases h : normName x = normName m
  · simp [eval_succ, step, kwNames, evalList, toV, argFrame, bindNamed, bindPos, aset, readVar, Ctx.get, alookup, h, ha]
  · have hb : (normName x == normName m) = false := beq_false_of_ne h
    simp [eval_succ, step, kwNames, evalList, toV, argFrame, bindNamed, bindPos, aset, readVar, Ctx.get, alookup, h, hb]

example : run 20 .null (.arrow (.call .def_ [.kw ['f'], .list [.var ['$', 'f', 'i', 'r', 's', 't', '_', 'a', 'r', 'g'],
      .var ['$', 'f', 'i', 'r', 's', 't', 'A', 'r', 'g']]] [])
    (.ucall ['f'] [] [(.kw ['f', 'i', 'r', 's', 't', '_', 'a', 'r', 'g'], .lit (.int 2))])) =
    .ok (.data (.list [.int 2, .null])) := rfl

theorem callFn_def (ev : Ev) (C : Ctx) (nameE body : Expr) :
    callFn ev C .def_ [nameE, body] [] = (do
      let no ← ev C nameE
      match no with
      | .val (.str name) => pure (.ctx ({ funs := [(fnKey name, body)] } :: C))
      | o => if isLazy o then .error .outOfDomain else .error .noFunction) := rfl

/-- **`def(f, body) -> g()`, for ALL names `f`, `g`**: runs `body` iff the names are equal up to
    trailing underscores (`fnKey`), otherwise the `def` is invisible to the call -/
theorem def_names_verbatim (n : Nat) (C : Ctx) (f g : Name) (body : Expr) :
    eval (n + 4) C (.arrow (.call .def_ [.kw f, body] []) (.ucall g [] [])) =
      if fnKey f = fnKey g then eval (n + 2) (argFrame [] [] :: { funs := [(fnKey f, body)] } :: C) body
      else eval (n + 3) C (.ucall g [] []) := by
  have hdef : eval (n + 3) C (.call .def_ [.kw f, body] []) = .ok (.ctx ({ funs := [(fnKey f, body)] } :: C)) := by
    simp only [eval_succ, step, callFn_def]; rfl
  have harrow : eval (n + 4) C (.arrow (.call .def_ [.kw f, body] []) (.ucall g [] [])) =
      eval (n + 3) ({ funs := [(fnKey f, body)] } :: C) (.ucall g [] []) := by
    rw [eval_succ (n + 3)]
    simp only [step, hdef, ok_bind]
  rw [harrow]
  by_cases h : fnKey f = fnKey g
  · simp only [h, if_true]
    rw [eval_succ (n + 2)]
    simp only [step, Ctx.getFun, alookup, beq_self_eq_true, if_true, kwNames, evalList, List.map_nil, ok_bind, List.zip_nil_left]
  · have hb : (fnKey f == fnKey g) = false := beq_false_of_ne h
    simp only [h, if_false]
    rw [eval_succ (n + 2)]
    simp only [step, Ctx.getFun, alookup, hb, Bool.false_eq_true, if_false]
    cases Ctx.getFun C (fnKey g) with
    | none => rfl
    | some p => rfl

/-- the function key only drops trailing underscores: case, inner underscores, digits are kept -/
example : fnKey ['f', '_'] = fnKey ['f'] ∧ fnKey ['f', '_', '_'] = fnKey ['f'] ∧ fnKey ['m', 'y', '_', 'f'] ≠ fnKey ['m', 'y', 'F'] ∧
    fnKey ['F'] ≠ fnKey ['f'] ∧ fnKey ['f', '_', '1'] ≠ fnKey ['f', '1'] ∧ fnKey ['_', 'f'] ≠ fnKey ['f'] := by decide

example : run 20 .null (.arrow (.call .def_ [.kw ['m', 'y', '_', 'f'], .lit (.int 1)] []) (.ucall ['m', 'y', '_', 'f'] [] [])) =
    .ok (.data (.int 1)) := rfl
example : run 20 .null (.arrow (.call .def_ [.kw ['m', 'y', '_', 'f'], .lit (.int 1)] []) (.ucall ['m', 'y', 'F'] [] [])) =
    .error .unknownFunction := rfl
example : run 20 .null (.arrow (.call .def_ [.kw ['f', '_'], .lit (.int 1)] []) (.ucall ['f'] [] [])) =
    .ok (.data (.int 1)) := rfl

/-! ## no leaks -/

/-- the elements of a list expression are all evaluated in the context of the list expression:
    whatever the first element binds while it is evaluated (lets, lambdas, definitions), the
    second sees the unchanged context -/
theorem sibling_independence (n : Nat) (C : Ctx) (e1 e2 : Expr) (o1 : Obj) (v1 : Value)
    (h1 : eval n C e1 = .ok o1) (hv : toV o1 = .ok v1) :
    eval (n + 1) C (.list [e1, e2]) =
      (do let o2 ← eval n C e2; let v2 ← toV o2; pure (.val (.tuple [v1, v2]))) := by
  simp only [eval_succ, step, evalList, h1, hv, ok_bind, pure_eq]
  cases eval n C e2 with
  | error e => rfl
  | ok o2 => simp only [ok_bind]; cases toV o2 <;> rfl

/-- the same for the operands of a strict binary operator / the arguments of a call -/
theorem no_leak_arg (n : Nat) (C : Ctx) (op : BinOp) (a b : Expr) (x : Obj)
    (hop : op ≠ .and ∧ op ≠ .or) (hlit : litOk op a = true ∧ litOk op b = true) (ha : eval n C a = .ok x) :
    eval (n + 1) C (.bin op a b) = (do let y ← eval n C b; binop op x y) := by
  cases op <;> simp_all [eval_succ, step]

/-- a name bound inside a lambda body is not visible to the next stage of a method chain:
    the second selector runs in a child of the chain's own context `C` -/
theorem no_leak_lambda (n : Nat) (C : Ctx) (e b1 b2 : Expr) (r : Obj)
    (h : eval n C (.method e .select [b1] []) = .ok r) :
    eval (n + 1) C (.method (.method e .select [b1] []) .select [b2] []) =
      (match toIter r with
       | none => .error .noMethod
       | some (xs, er) => do
          let s ← mapL (fun x => do let o ← eval n (argFrame [x] [] :: C) b2; toV o) xs er
          pure (.lazy s.1 s.2)) := by
  simp only [eval_succ, step, h]
  rfl

/-- what a callee binds (here: a `let` in the body of a `def`-ined function) is gone when it has
    returned: the sibling of the call sees the caller's context -/
theorem no_leak_callee (n : Nat) (C : Ctx) (f : Name) (args : List Expr) (x : Name) (o : Obj) (v : Value)
    (h : eval n C (.ucall f args []) = .ok o) (hv : toV o = .ok v) :
    eval (n + 1) C (.list [.ucall f args [], .var x]) =
      (do let o2 ← eval n C (.var x); let v2 ← toV o2; pure (.val (.tuple [v, v2]))) :=
  sibling_independence n C _ _ o v h hv

example : run 20 .null
    (.arrow (.call .def_ [.kw ['h'], .arrow (.call .let_ [] [(.kw ['z'], .var ['$'])]) (.var ['$', 'z'])] [])
      (.list [.ucall ['h'] [.lit (.int 3)] [], .var ['$', 'z']])) =
    .ok (.data (.list [.int 3, .null])) := rfl

example : run 20 .null (.list [.arrow (.call .let_ [] [(.kw ['x'], .lit (.int 1))]) (.var ['$', 'x']), .var ['$', 'x']]) =
    .ok (.data (.list [.int 1, .null])) := rfl

/-! ## member access maps over a collection -/

theorem mapL_congr {f g : Value → R Value} : ∀ (xs : VL) (e : Option Err) (_ : ∀ x ∈ xs, f x = g x),
    mapL f xs e = mapL g xs e
  | [], _, _ => rfl
  | x :: xs, e, h => by
    unfold mapL
    rw [h x (by simp), mapL_congr xs e (fun y hy => h y (by simp [hy]))]

/-- `$.name` applied to one element the way `select` applies it is `memberV name` of that element - for an
    element of ANY kind (dictionary, collection, nested collection, scalar) that is data: no one-shot
    iterator inside, which a variable could not hand out twice (`readVar`) -/
theorem select_member_elem (n : Nat) (C : Ctx) (name : Name) (x : Value) (hi : hasIter x = false) :
    lamV (eval (n + 2)) C (.member (.var ['$']) name) [x] = memberV name x := by
  have hget : Ctx.get (argFrame [x] [] :: C) ['$'] = some x := by
    simp [Ctx.get, argFrame, bindNamed, bindPos, alookup, normName, Nat.toDigits, Nat.toDigitsCore, Nat.digitChar]
  simp only [lamV, applyLam, eval_succ, step, readVar, hget, hi, Bool.false_eq_true, if_false, ok_bind]
  cases x with
  | dict d =>
    simp only [memberOf, memberV]
    cases Seq.dGet d (.str name) <;> rfl
  | tuple l =>
    simp only [memberOf, memberV, toIter, memberVL_eq]
    cases mapL (memberV name) l none <;> rfl
  | list l =>
    simp only [memberOf, memberV, toIter, memberVL_eq]
    cases mapL (memberV name) l none <;> rfl
  | iter l => simp [hasIter] at hi
  | set l => rfl
  | null => rfl
  | bool b => rfl
  | int i => rfl
  | flt f => rfl
  | str t => rfl
  | host h => rfl

/-- **`coll.name` = `coll.select($.name)`** for a collection (list, tuple, lazy sequence, ordering) whose
    elements are of ARBITRARY, also MIXED kinds: dictionaries (the documented case), collections of
    dictionaries nested to any depth next to them (each is projected in turn - `memberV` recurses), scalars
    (both sides raise the same exception at the same element).  The only requirement: the elements are
    data, not one-shot iterators. -/
theorem member_maps (n : Nat) (C : Ctx) (e : Expr) (name : Name) (r : Obj) (xs : VL) (er : Option Err)
    (hr : eval (n + 2) C e = .ok r) (hit : toIter r = some (xs, er))
    (hel : ∀ x ∈ xs, hasIter x = false) :
    eval (n + 3) C (.member e name) = eval (n + 3) C (.method e .select [.member (.var ['$']) name] []) := by
  have hm : memberOf r name = (do let s ← mapL (memberV name) xs er; pure (.lazy s.1 s.2)) := by
    unfold memberOf
    split
    · simp [toIter] at hit
    · simp [toIter] at hit
    · simp [hit]
  have hs : callMethod (eval (n + 2)) C .noMethod r .select [.member (.var ['$']) name] =
      (do let s ← mapL (fun x => lamV (eval (n + 2)) C (.member (.var ['$']) name) [x]) xs er; pure (.lazy s.1 s.2)) := by
    unfold callMethod
    simp [hit]
  rw [eval_succ (n + 2)]
  simp only [step, hr, ok_bind, hm, hs, List.isEmpty_nil, Bool.not_true, Bool.false_eq_true, if_false]
  rw [mapL_congr xs er (fun x hx => (select_member_elem n C name x (hel x hx)).symm)]

/-- what the projection of one element is, by kind: the entry of a dictionary; the projection of a nested
    collection element by element (its own elements again of any kind); `#property#name` is unknown for
    everything else -/
theorem memberV_dict (name : Name) (d : KV) (v : Value) (h : Seq.dGet d (.str name) = some v) :
    memberV name (.dict d) = .ok v := by simp [memberV, h]

theorem memberV_nested (name : Name) (l vs : VL) (h : mapL (memberV name) l none = .ok (vs, none)) :
    memberV name (.tuple l) = .ok (.iter vs) ∧ memberV name (.list l) = .ok (.iter vs) := by
  simp [memberV, memberVL_eq, h, toV]

/-- the kinds of the neighbours play no role: the projection of `pre ++ x :: post` is, at the position of
    `x`, the projection of `x` alone (as long as the elements before it have one) -/
theorem member_elementwise (name : Name) (x : Value) (v : Value) (hx : memberV name x = .ok v) :
    ∀ (pre post : VL) (vs : VL), mapL (memberV name) pre none = .ok (vs, none) →
      ∀ ws er, mapL (memberV name) post none = .ok (ws, er) →
      mapL (memberV name) (pre ++ x :: post) none = .ok (vs ++ v :: ws, er)
  | [], post, vs, hpre, ws, er, hpost => by
    simp only [mapL] at hpre
    cases hpre
    simp [mapL, hx, capture, hpost]
  | p :: pre, post, vs, hpre, ws, er, hpost => by
    simp only [mapL, List.cons_append] at hpre ⊢
    cases hp : capture (memberV name p) with
    | error e => simp [hp] at hpre
    | ok r =>
      cases r with
      | error er' => simp [hp] at hpre
      | ok pv =>
        simp only [hp, ok_bind] at hpre ⊢
        cases hrest : mapL (memberV name) pre none with
        | error e => simp [hrest] at hpre
        | ok rest =>
          obtain ⟨rv, re⟩ := rest
          simp only [hrest, ok_bind] at hpre
          cases hpre
          have := member_elementwise name x v hx pre post rv hrest ws er hpost
          simp [this]

-- a dictionary NEXT TO a collection of dictionaries (either order, nested): the demo of seeded change C04-10
example : run 20 (.tuple [.dict [(.str ['a'], .int 1)], .tuple [.dict [(.str ['a'], .int 2)]]]) (.member (.var ['$']) ['a']) =
    .ok (.data (.list [.int 1, .iter [.int 2]])) := rfl
example : run 20 (.tuple [.tuple [.dict [(.str ['a'], .int 2)]], .dict [(.str ['a'], .int 1)]]) (.member (.var ['$']) ['a']) =
    .ok (.data (.list [.iter [.int 2], .int 1])) := rfl
example : run 20 (.dict [(.str ['b'], .dict [(.str ['c'], .int 5)])])
    (.member (.method (.list [.var ['$'], .list [.var ['$'], .var ['$']]]) .select [.member (.var ['$']) ['b']] []) ['c']) =
    .ok (.data (.list [.int 5, .iter [.int 5, .int 5]])) := rfl
example : run 20 (.tuple [.dict [(.str ['a'], .int 1)], .tuple [.dict [(.str ['a'], .int 2)], .tuple [.dict [(.str ['a'], .int 3)]]]])
    (.method (.var ['$']) .select [.member (.var ['$']) ['a']] []) =
    .ok (.data (.list [.int 1, .iter [.int 2, .iter [.int 3]]])) := rfl
-- a scalar among them: the projection raises when it gets there
example : run 20 (.tuple [.dict [(.str ['a'], .int 1)], .int 7]) (.member (.var ['$']) ['a']) = .error .unknownFunction := rfl

example : run 20 (.tuple [.dict [(.str ['a'], .int 1)], .dict [(.str ['a'], .int 2)]]) (.member (.var ['$']) ['a']) =
    .ok (.data (.list [.int 1, .int 2])) := rfl
example : run 20 (.tuple [.dict [(.str ['a'], .int 1)], .dict [(.str ['a'], .int 2)]])
    (.method (.var ['$']) .select [.member (.var ['$']) ['a']] []) = .ok (.data (.list [.int 1, .int 2])) := rfl

/-! ## how the data enters: variables at every depth of the host's chain

"Named variables resolve through the enclosing scopes": the outermost scopes are the contexts of the
HOST.  `hostCtx layers k doc` is the chain a host prepared - its layers from the root upwards (the
root may be the context it handed to `yaql.create_context(context=..)`: below the layers of the
standard library, which bind no variable and are therefore invisible, `empty_frame_invisible`) with
`$` bound above the first `k` of them (`k = 0`: `yaql.create_context(data=doc)`; `k = length`:
`evaluate(data=doc, context=top)`).  Below: a variable bound at ANY depth of that chain is what a
read returns from ANY scope the program has entered (lambda applications, `let` chains, `def`
bodies are frames `pre` on top of the chain) unless a nearer frame binds the name; and where in the
chain `$` is bound makes no difference to any lookup. -/

/-- the lookup through a chain that does not bind the name falls through to what is below -/
theorem get_append_none (pre : Ctx) (C : Ctx) (x : Name)
    (hpre : ∀ G ∈ pre, alookup (normName x) G.vars = none) : Ctx.get (pre ++ C) x = Ctx.get C x := by
  induction pre with
  | nil => rfl
  | cons G pre ih =>
    simp only [List.cons_append, Ctx.get, hpre G (by simp)]
    exact ih (fun G' hG' => hpre G' (by simp [hG']))

/-- **a host variable is visible from every scope**: bound in layer `F` of the host's chain (any depth:
    `above` are the host's contexts over it, `below` the ones under it - the library layers, the root),
    read from inside any stack `pre` of scopes the program has entered, it is `F`'s value, provided no
    nearer frame binds the name. -/
theorem host_var_visible (n : Nat) (pre above below : Ctx) (F : Frame) (x : Name) (v : Value)
    (hpre : ∀ G ∈ pre, alookup (normName x) G.vars = none)
    (habove : ∀ G ∈ above, alookup (normName x) G.vars = none)
    (hF : alookup (normName x) F.vars = some v) (hv : hasIter v = false) :
    eval (n + 1) (pre ++ above ++ F :: below) (.var x) = .ok (.val v) := by
  have h : Ctx.get (pre ++ above ++ F :: below) x = some v := by
    rw [List.append_assoc]
    rw [get_append_none pre _ x hpre]
    exact shadowing above F below x v habove hF
  rw [eval_var, readVar, h]
  simp [hv]

/-- ... and an upper host context shadows a lower one (the same theorem read the other way round: whatever
    `below` binds under the name is never consulted) -/
theorem host_var_topmost (above below below' : Ctx) (F : Frame) (x : Name) (v : Value)
    (habove : ∀ G ∈ above, alookup (normName x) G.vars = none) (hF : alookup (normName x) F.vars = some v) :
    Ctx.get (above ++ F :: below) x = Ctx.get (above ++ F :: below') x := by
  rw [shadowing above F below x v habove hF, shadowing above F below' x v habove hF]

/-- the frame that binds the document answers `$` / `$1` and nothing else -/
theorem docFrame_lookup (doc : Value) (x : Name) :
    alookup (normName x) ({ vars := [(['$', '1'], doc)] } : Frame).vars =
      if normName x = ['$', '1'] then some doc else none := by
  by_cases h : normName x = ['$', '1']
  · simp [alookup, h]
  · have : (['$', '1'] == normName x) = false := by
      simp only [beq_eq_false_iff_ne, ne_eq]
      exact fun h' => h h'.symm
    simp [alookup, h, this]

/-- where in the chain the document is bound makes no difference to any lookup: for host layers none of
    which binds `$1` itself, `$` bound under all of them (`yaql.create_context(data=doc)`), between any
    two of them, or above all of them (`evaluate(data=doc, ..)`) reads alike - every variable, from every
    scope `pre` of the program. -/
theorem doc_position_irrelevant (pre upper lower : Ctx) (doc : Value) (x : Name)
    (hup : ∀ G ∈ upper, alookup ['$', '1'] G.vars = none) :
    Ctx.get (pre ++ upper ++ { vars := [(['$', '1'], doc)] } :: lower) x =
    Ctx.get (pre ++ { vars := [(['$', '1'], doc)] } :: (upper ++ lower)) x := by
  induction pre with
  | cons G pre ih => simp only [List.cons_append, Ctx.get]; rw [ih]
  | nil =>
    simp only [List.nil_append]
    by_cases h : normName x = ['$', '1']
    · have h1 : Ctx.get (upper ++ { vars := [(['$', '1'], doc)] } :: lower) x = some doc :=
        shadowing upper _ lower x doc (fun G hG => by rw [h]; exact hup G hG) (by rw [docFrame_lookup]; simp [h])
      rw [h1]
      simp [Ctx.get, alookup, h]
    · have hd : alookup (normName x) ({ vars := [(['$', '1'], doc)] } : Frame).vars = none := by
        rw [docFrame_lookup]; simp [h]
      simp only [Ctx.get, hd]
      induction upper with
      | nil => simp [Ctx.get, hd]
      | cons U upper ihu =>
        simp only [List.cons_append, Ctx.get]
        cases alookup (normName x) U.vars with
        | some v => rfl
        | none => exact ihu (fun G hG => hup G (by simp [hG]))

/-- `$` from every scope, wherever the host bound it: no scope of the program and no host context above the
    binding binds `$1` -> the read is the document -/
theorem dollar_from_any_depth (n : Nat) (pre upper lower : Ctx) (doc : Value)
    (hpre : ∀ G ∈ pre, alookup ['$', '1'] G.vars = none) (hup : ∀ G ∈ upper, alookup ['$', '1'] G.vars = none)
    (hd : hasIter doc = false) :
    eval (n + 1) (pre ++ upper ++ { vars := [(['$', '1'], doc)] } :: lower) (.var ['$']) = .ok (.val doc) :=
  host_var_visible n pre upper lower _ ['$'] doc (by simpa [normName] using hpre) (by simpa [normName] using hup)
    (by simp [normName, alookup]) hd

/-- the plain entry is the host chain without layers -/
theorem runHost_nil (fuel : Nat) (doc : Value) (e : Expr) : runHost fuel [] 0 doc e = run fuel doc e := rfl

-- the demos of seeded change C04-11 on the model: `yaql.create_context(data=doc)` (`$` under everything),
-- host variables in the context handed to `create_context(context=..)` (layer 0), read from a lambda, a let chain, a def body
example : runHost 20 [[(['e', 'n', 'v'], .str ['p'])], [(['l', 'i', 'm'], .int 2)]] 0 (.tuple [.int 1, .int 5])
    (.list [.var ['$', 'e', 'n', 'v'], .method (.var ['$']) .where_ [.bin .gt (.var ['$']) (.var ['$', 'l', 'i', 'm'])] []]) =
    .ok (.data (.list [.str ['p'], .iter [.int 5]])) := rfl
example : runHost 20 [[(['e', 'n', 'v'], .str ['p'])], []] 2 (.int 7)
    (.arrow (.call .def_ [.kw ['f'], .list [.var ['$', 'e', 'n', 'v'], .var ['$', '1']]] [])
      (.arrow (.call .let_ [] [(.kw ['e', 'n', 'v'], .lit (.int 0))]) (.list [.ucall ['f'] [.lit (.int 1)] [], .var ['$', 'e', 'n', 'v'], .var ['$']]))) =
    .ok (.data (.list [.tuple [.str ['p'], .int 1], .int 0, .int 7])) := rfl
-- an upper host context shadows a lower one
example : runHost 20 [[(['r'], .int 1)], [(['r'], .int 2)], []] 1 .null (.var ['$', 'r']) = .ok (.data (.int 2)) := rfl
-- host_var_visible is not vacuous: a lambda frame and a let frame over a three-context chain, the variable in the root
example : eval 5 ([argFrame [.int 9] [], { vars := [(['$', 'k'], .int 0)] }] ++ [{ vars := [(['$', 'm'], .int 3)] }] ++
      ({ vars := [(['$', 'e'], .int 4)] } : Frame) :: [{}]) (.var ['$', 'e']) = .ok (.val (.int 4)) :=
  host_var_visible 4 _ _ _ _ ['$', 'e'] (.int 4) (by decide) (by decide) rfl rfl

/-! ## arguments passed by keyword

How an argument is passed changes nothing about what it means: `Expr.positional` moves every keyword
argument of a builtin method to the position of the parameter of that name (the name the default
convention gives it: `keySelector`, not `key_selector`), and the program is evaluated in that form
(`runKw`).  So a lambda passed by keyword is the lambda passed positionally - lazy, applied in a child
of the call's context, its `$` the argument of the innermost application (`lambda_binds_innermost`
and the other lambda theorems then speak about it). -/

abbrev kwKeySelector : Name := ['k', 'e', 'y', 'S', 'e', 'l', 'e', 'c', 't', 'o', 'r']
abbrev kwValueSelector : Name := ['v', 'a', 'l', 'u', 'e', 'S', 'e', 'l', 'e', 'c', 't', 'o', 'r']
abbrev kwSelector : Name := ['s', 'e', 'l', 'e', 'c', 't', 'o', 'r']
abbrev kwPredicate : Name := ['p', 'r', 'e', 'd', 'i', 'c', 'a', 't', 'e']

/-- `xs.toDict(keySelector => k, valueSelector => v)`, the same with the keywords the other way round, and
    `xs.toDict(k, valueSelector => v)` are `xs.toDict(k, v)` -/
theorem toDict_by_keyword (e k v : Expr) :
    (Expr.method e .toDict [] [(.kw kwKeySelector, k), (.kw kwValueSelector, v)]).positional =
      .method e.positional .toDict [k.positional, v.positional] [] ∧
    (Expr.method e .toDict [] [(.kw kwValueSelector, v), (.kw kwKeySelector, k)]).positional =
      .method e.positional .toDict [k.positional, v.positional] [] ∧
    (Expr.method e .toDict [k] [(.kw kwValueSelector, v)]).positional =
      .method e.positional .toDict [k.positional, v.positional] [] ∧
    (Expr.method e .toDict [] [(.kw kwKeySelector, k)]).positional = .method e.positional .toDict [k.positional] [] := by
  refine ⟨?_, ?_, ?_, ?_⟩ <;> simp [Expr.positional, positionalL, positionalP, placeMethod, kwParams, kwName, placeKw,
    noGap, provided, nodup, List.mapM_cons, List.mapM_nil]

/-- a lambda passed by keyword IS the lambda passed positionally -/
theorem lambda_by_keyword (e b : Expr) :
    (Expr.method e .select [] [(.kw kwSelector, b)]).positional = .method e.positional .select [b.positional] [] ∧
    (Expr.method e .where_ [] [(.kw kwPredicate, b)]).positional = .method e.positional .where_ [b.positional] [] ∧
    (Expr.method e .orderBy [] [(.kw kwSelector, b)]).positional = .method e.positional .orderBy [b.positional] [] := by
  refine ⟨?_, ?_, ?_⟩ <;> simp [Expr.positional, positionalL, positionalP, placeMethod, kwParams, kwName, placeKw,
    noGap, provided, nodup, List.mapM_cons, List.mapM_nil]

/-- ... hence inside it `$` is the element it is applied to, whatever `$` is outside: evaluated, a `select`
    whose selector is passed by keyword maps the selector over the elements, each application in a child
    `argFrame [x] [] :: C` of the call's context -/
theorem select_by_keyword (n : Nat) (C : Ctx) (e b : Expr) (r : Obj) (xs : VL) (er : Option Err)
    (hr : eval n C e.positional = .ok r) (hit : toIter r = some (xs, er)) :
    eval (n + 1) C (Expr.method e .select [] [(.kw kwSelector, b)]).positional =
      (do let s ← mapL (fun x => do let o ← eval n (argFrame [x] [] :: C) b.positional; toV o) xs er
          pure (.lazy s.1 s.2)) := by
  rw [(lambda_by_keyword e b).1]
  simp only [eval_succ, step, hr, ok_bind, List.isEmpty_nil, Bool.not_true, Bool.false_eq_true, if_false]
  unfold callMethod
  simp [hit]
  rfl

/-- a keyword that names no parameter (also: the PYTHON name `key_selector`, a positional argument named
    again) matches no overload: the receiver is evaluated, then NoMatchingMethodException -/
theorem noOverload_raises (n : Nat) (C : Ctx) (e : Expr) (f : Fn) (ps : List (Name × Bool)) (r : Obj)
    (hf : kwParams f = some ps) (hr : eval n C e = .ok r) :
    eval (n + 1) C (noOverload e f) = .error .noMethod := by
  simp only [noOverload, eval_succ, step, hr, ok_bind, List.isEmpty_nil, Bool.not_true, Bool.false_eq_true, if_false]
  cases f <;> simp [kwParams] at hf <;> rfl

example : (Expr.method (.var ['$']) .toDict [] [(.kw ['k', 'e', 'y', '_', 's', 'e', 'l', 'e', 'c', 't', 'o', 'r'], .var ['$'])]).positional =
    noOverload (.var ['$']) .toDict := rfl

mutual
/-- a program that passes no argument of a method by keyword is evaluated as it is -/
theorem positional_id : ∀ e : Expr, NoKw e → e.positional = e
  | .lit _, _ => rfl
  | .kw _, _ => rfl
  | .var _, _ => rfl
  | .list es, h => by simp only [Expr.positional, positionalL_id es h]
  | .map kvs, h => by simp only [Expr.positional, positionalP_id kvs h]
  | .index e args, h => by simp only [Expr.positional, positional_id e h.1, positionalL_id args h.2]
  | .un _ e, h => by simp only [Expr.positional, positional_id e h]
  | .bin _ a b, h => by simp only [Expr.positional, positional_id a h.1, positional_id b h.2]
  | .arrow l r, h => by simp only [Expr.positional, positional_id l h.1, positional_id r h.2]
  | .member e _, h => by simp only [Expr.positional, positional_id e h]
  | .call _ args kw, h => by simp only [Expr.positional, positionalL_id args h.1, positionalP_id kw h.2]
  | .ucall _ args kw, h => by simp only [Expr.positional, positionalL_id args h.1, positionalP_id kw h.2]
  | .method e f args kw, h => by
    obtain ⟨h1, h2, h3⟩ := h
    subst h3
    simp only [Expr.positional, positional_id e h1, positionalL_id args h2, positionalP, placeMethod]
  | .umethod e _, h => by simp only [Expr.positional, positional_id e h]
theorem positionalL_id : ∀ es : List Expr, NoKwL es → positionalL es = es
  | [], _ => rfl
  | e :: es, h => by simp only [positionalL, positional_id e h.1, positionalL_id es h.2]
theorem positionalP_id : ∀ ps : List (Expr × Expr), NoKwP ps → positionalP ps = ps
  | [], _ => rfl
  | (k, v) :: r, h => by simp only [positionalP, positional_id k h.1, positional_id v h.2.1, positionalP_id r h.2.2]
end

-- the demos of seeded change C04-12 on the model: the selectors see THEIR element, not the caller's `$`
example : runKw 30 [] 0 (.tuple [.dict [(.str ['k'], .str ['a']), (.str ['v'], .int 1)], .dict [(.str ['k'], .str ['b']), (.str ['v'], .int 2)]])
    (.method (.var ['$']) .toDict [] [(.kw kwKeySelector, .member (.var ['$']) ['k']), (.kw kwValueSelector, .member (.var ['$']) ['v'])]) =
    .ok (.data (.dict [(.str ['a'], .int 1), (.str ['b'], .int 2)])) := rfl
example : runKw 30 [] 0 (.tuple [.tuple [.int 1, .int 2], .tuple [.int 3]])
    (.method (.var ['$']) .select [.method (.var ['$']) .toDict [] [(.kw kwKeySelector, .var ['$']),
      (.kw kwValueSelector, .bin .mul (.var ['$']) (.lit (.int 10)))]] []) =
    .ok (.data (.list [.dict [(.int 1, .int 10), (.int 2, .int 20)], .dict [(.int 3, .int 30)]])) := rfl

/-! ## frame: evaluation hands back no modified version of a pre-existing context

Contexts are values here, so "a context that existed before is unchanged" cannot even be said
about a single value.  What evaluation *can* do is hand a context back (`let`, `with`, `unpack`,
`def`, and everything that passes such a result on).  `frame` says what such a result looks like:
new frames stacked on a non-empty suffix of the context the evaluation started in - i.e. on that
context itself or on one of its ancestors, which appear in the result as they were.  Nothing else
flows out of an evaluation (`eval` returns a value, not a store), and every sibling / continuation
is evaluated in the caller's own, unchanged context (`sibling_independence`, `no_leak_*`). -/

/-- `C'` is a descendant of `C` or of an ancestor of `C`: they share a suffix `S` of whole frames
    (non-empty as soon as `C` is) -/
def Extends (C C' : Ctx) : Prop := ∃ S : Ctx, S <:+ C' ∧ S <:+ C ∧ (C ≠ [] → S ≠ [])

/-- a result that, if it is a context, extends `C` -/
def Framed (C : Ctx) (r : R Obj) : Prop := ∀ C', r = .ok (.ctx C') → Extends C C'

theorem Extends.refl (C : Ctx) : Extends C C := ⟨C, List.suffix_refl _, List.suffix_refl _, id⟩

theorem Extends.push (F : Frame) (C : Ctx) : Extends C (F :: C) :=
  ⟨C, List.suffix_cons _ _, List.suffix_refl _, id⟩

theorem Extends.trans {C C1 C2 : Ctx} (h1 : Extends C C1) (h2 : Extends C1 C2) : Extends C C2 := by
  obtain ⟨S1, hS1a, hS1b, hS1c⟩ := h1
  obtain ⟨S2, hS2a, hS2b, hS2c⟩ := h2
  rcases List.suffix_or_suffix_of_suffix hS2b hS1a with h | h
  · refine ⟨S2, hS2a, h.trans hS1b, fun hC => hS2c ?_⟩
    intro hC1
    subst hC1
    exact hS1c hC (List.suffix_nil.mp hS1a)
  · exact ⟨S1, h.trans hS2a, hS1b, hS1c⟩

/-- the context a function was registered in is a non-empty suffix of the looking context -/
theorem getFun_suffix : ∀ (C : Ctx) (f : Name) (body : Expr) (D : Ctx), C.getFun f = some (body, D) →
    D <:+ C ∧ D ≠ []
  | [], _, _, _, h => by simp [Ctx.getFun] at h
  | F :: C, f, body, D, h => by
    unfold Ctx.getFun at h
    split at h
    · simp only [Option.some.injEq, Prod.mk.injEq] at h
      rw [← h.2]
      exact ⟨List.suffix_refl _, by simp⟩
    · have := getFun_suffix C f body D h
      exact ⟨this.1.trans (List.suffix_cons _ _), this.2⟩

theorem Extends.of_closure {C D C' : Ctx} (F : Frame) (hD : D <:+ C) (hne : D ≠ []) (h : Extends (F :: D) C') :
    Extends C C' := by
  have h0 : Extends C (F :: D) := ⟨D, List.suffix_cons _ _, hD, fun _ => hne⟩
  exact h0.trans h

theorem Framed.error (C : Ctx) (e : Err) : Framed C (.error e) := by
  intro C' h; cases h
theorem Framed.val (C : Ctx) (v : Value) : Framed C (.ok (.val v)) := by
  intro C' h; cases h
theorem Framed.lazy (C : Ctx) (xs : VL) (e : Option Err) : Framed C (.ok (.lazy xs e)) := by
  intro C' h; cases h
theorem Framed.ordered (C : Ctx) (xs : VL) (e : Option Err) : Framed C (.ok (.ordered xs e)) := by
  intro C' h; cases h
theorem Framed.push (C : Ctx) (F : Frame) : Framed C (.ok (.ctx (F :: C))) := by
  intro C' h
  cases h
  exact Extends.push F C

theorem Framed.bind {C : Ctx} {x : R α} {f : α → R Obj} (h : ∀ a, x = .ok a → Framed C (f a)) :
    Framed C (x >>= f) := by
  intro C' hr
  cases x with
  | error e => cases hr
  | ok a => exact h a rfl C' hr

theorem Framed.bindObj {C : Ctx} {x : R Obj} {f : Obj → R Obj} (hx : Framed C x)
    (h : ∀ a, Framed C (.ok a) → Framed C (f a)) : Framed C (x >>= f) := by
  intro C' hr
  cases x with
  | error e => cases hr
  | ok a => exact h a hx C' hr

/-- one step of a compositional `Framed` proof; `hev` is the hypothesis about the knot -/
macro "framed_step" hev:ident : tactic => `(tactic| first
  | exact Framed.error _ _
  | exact Framed.val _ _
  | exact Framed.lazy _ _ _
  | exact Framed.ordered _ _ _
  | exact Framed.push _ _
  | exact $hev _ _
  | assumption
  | (apply Framed.bindObj ($hev _ _); intro _ _)
  | (apply Framed.bind; intro _ _)
  | split
  | (dsimp only))

theorem mkDict_framed (C : Ctx) (ps : KV) : Framed C (mkDict ps) := by
  unfold mkDict
  split
  · exact Framed.val _ _
  · exact Framed.error _ _

theorem callMethod_framed {ev : Ev} (hev : ∀ C e, Framed C (ev C e)) (C : Ctx) (bad : Err) (r : Obj) (f : Fn)
    (args : List Expr) : Framed C (callMethod ev C bad r f args) := by
  unfold callMethod
  split <;> repeat (framed_step hev)

theorem callFn_framed {ev : Ev} (hev : ∀ C e, Framed C (ev C e)) (C : Ctx) (f : Fn) (args : List Expr)
    (kw : List (Expr × Expr)) : Framed C (callFn ev C f args kw) := by
  unfold callFn
  split <;> repeat (first | exact callMethod_framed hev _ _ _ _ _ | exact mkDict_framed _ _ | framed_step hev)

theorem noCtx_framed (C : Ctx) (r : R Obj) (h : ∀ C', r ≠ .ok (.ctx C')) : Framed C r :=
  fun C' hr => absurd hr (h C')

theorem readVar_framed (C : Ctx) (x : Name) : Framed C (readVar C x) := by
  unfold readVar
  repeat (first | exact Framed.error _ _ | exact Framed.val _ _ | split)

theorem indexer_framed (C : Ctx) (r : Obj) (vs : VL) : Framed C (indexer r vs) := by
  unfold indexer
  repeat (first | exact Framed.error _ _ | exact Framed.val _ _ | (apply Framed.bind; intro _ _) | split)

theorem unop_framed (C : Ctx) (op : UnOp) (r : Obj) : Framed C (unop op r) := by
  unfold unop
  repeat (first | exact Framed.error _ _ | exact Framed.val _ _ | split)

theorem binop_framed (C : Ctx) (op : BinOp) (x y : Obj) : Framed C (binop op x y) := by
  unfold binop
  repeat (first | exact Framed.error _ _ | exact Framed.val _ _ | (apply Framed.bind; intro _ _) | split)

theorem memberOf_framed (C : Ctx) (r : Obj) (name : Name) : Framed C (memberOf r name) := by
  unfold memberOf
  repeat (first | exact Framed.error _ _ | exact Framed.val _ _ | exact Framed.lazy _ _ _ | (apply Framed.bind; intro _ _) | split)

theorem step_framed {ev : Ev} (hev : ∀ C e, Framed C (ev C e)) (C : Ctx) (e : Expr) : Framed C (step ev C e) := by
  unfold step
  split
  case h_11 l r =>
    -- `l -> r`: the right side runs in the context the left side returned
    apply Framed.bindObj (hev _ _)
    intro c hc
    split
    · rename_i C1
      intro C2 h2
      exact (hc C1 rfl).trans (hev C1 r C2 h2)
    · exact Framed.error _ _
  case h_14 f args kw =>
    -- a call of a `def`-ined function: the body runs in a child of the defining context
    split
    · exact Framed.error _ _
    · rename_i body D hD
      obtain ⟨hsuf, hne⟩ := getFun_suffix C (fnKey f) body D hD
      apply Framed.bind; intro names _
      apply Framed.bind; intro vs _
      apply Framed.bind; intro kvs _
      intro C2 h2
      exact Extends.of_closure _ hsuf hne (hev _ _ C2 h2)
  all_goals repeat (first | exact callMethod_framed hev _ _ _ _ _ | exact callFn_framed hev _ _ _ _ | exact mkDict_framed _ _ | exact readVar_framed _ _ | exact indexer_framed _ _ _ | exact unop_framed _ _ _ | exact binop_framed _ _ _ _ | exact memberOf_framed _ _ _ | framed_step hev)

/-- **frame**: a context handed back by an evaluation that started in `C` consists of new frames
    on top of `C` or of an ancestor of `C`; the pre-existing frames occur in it unmodified, and
    nothing but this returned value leaves the evaluation -/
theorem frame (n : Nat) (C : Ctx) (e : Expr) (C' : Ctx) (h : eval n C e = .ok (.ctx C')) : Extends C C' := by
  have key : ∀ n C e, Framed C (eval n C e) := by
    intro n
    induction n with
    | zero => intro C e; exact Framed.error _ _
    | succ n ih => intro C e; exact step_framed ih C e
  exact key n C e C' h

/-- in particular the document / the host's root context stays at the bottom of every context an
    expression can produce -/
theorem frame_root (n : Nat) (C : Ctx) (e : Expr) (C' : Ctx) (F : Frame) (h : eval n C e = .ok (.ctx C'))
    (hroot : C.getLast? = some F) : C'.getLast? = some F := by
  obtain ⟨S, hS', hS, hne⟩ := frame n C e C' h
  have hC : C ≠ [] := by intro hc; simp [hc] at hroot
  have hSne := hne hC
  obtain ⟨t, ht⟩ := hS
  obtain ⟨t', ht'⟩ := hS'
  rw [← ht']
  rw [← ht] at hroot
  cases hS : S.getLast? with
  | none => exact absurd (List.getLast?_eq_none_iff.mp hS) hSne
  | some G =>
    simp only [List.getLast?_append, hS] at hroot ⊢
    exact hroot

example : ∃ C', eval 5 [{ vars := [(['$', '1'], .int 7)] }] (.call .let_ [] [(.kw ['a'], .lit (.int 1))]) = .ok (.ctx C') ∧
    C' = [{ vars := [(['$', 'a'], .int 1)] }, { vars := [(['$', '1'], .int 7)] }] := ⟨_, rfl, rfl⟩

/-! ## more on parameters and closures -/

/-- the frame of an application / of `with` / of a positional `let` binds `$k` to the k-th value -/
theorem get_argFrame (D : Ctx) (args : VL) (k : Nat) (h : k < args.length) :
    Ctx.get (argFrame args [] :: D) (argName (k + 1)) = some args[k] := by
  have hl := alookup_bindPos args 1 k h
  rw [Nat.add_comm] at hl
  simp [Ctx.get, argFrame, bindNamed, normName_argName, hl]

theorem callFn_with (ev : Ev) (C : Ctx) (args : List Expr) :
    callFn ev C .with_ args [] = (do let vs ← evalList ev C args; pure (.ctx (argFrame vs [] :: C))) := rfl

/-- `with(v1, .., vn) -> $k` is `vk`: numbering starts at 1 -/
theorem with_numbering (n : Nat) (C : Ctx) (vs : VL) (k : Nat) (h : k < vs.length) (hi : hasIter vs[k] = false) :
    eval (n + 3) C (.arrow (.call .with_ (vs.map .lit) []) (.var (argName (k + 1)))) = .ok (.val vs[k]) := by
  rw [eval_succ (n + 2)]
  simp only [step]
  rw [eval_succ (n + 1)]
  simp only [step, callFn_with, evalList_lits, ok_bind, pure_eq, readVar, get_argFrame C vs k h, hi]
  rfl

/-- lexical closure, general form: if the arguments evaluate alike at two call sites that see the
    same definition of `f`, the calls give the same result - whatever else the two contexts bind -/
theorem closure_lexical_args (n : Nat) (C1 C2 : Ctx) (f : Name) (args : List Expr) (kw : List (Expr × Expr))
    (hf : C1.getFun (fnKey f) = C2.getFun (fnKey f))
    (ha : evalList (eval n) C1 args = evalList (eval n) C2 args)
    (hk : evalList (eval n) C1 (kw.map (·.2)) = evalList (eval n) C2 (kw.map (·.2))) :
    eval (n + 1) C1 (.ucall f args kw) = eval (n + 1) C2 (.ucall f args kw) := by
  simp only [eval_succ, step, hf, ha, hk]

/-! ## calls of a `def`-ined function are pure: no memory between calls

A call of a `def`-ined function is `eval n (argFrame vs kvs :: D) body`: a function of the definition (`body`, the
defining context `D`) and of the argument VALUES of *this* call - of nothing else.  There is no state a call could leave
behind for the next one (no result table, no argument frame kept from an earlier activation), and the arguments are
`Value`s compared structurally: `1`, `true` and `1.0` (`Value.int 1`, `Value.bool true`, `Value.flt 0x3FF0000000000000`)
are three different arguments although the host language's `==` (the model's `pyEq`) identifies them.  The names of the
keyword arguments are data as well (`kwarg_names_verbatim`): `value`, `self`, `context`, `engine`, `receiver`, `args`,
`kwargs` are keywords like `x`. -/

/-- what one call of a `def`-ined function is: the body in a child of the DEFINING context that binds the values of this
    call's own arguments -/
def defApply (n : Nat) (D : Ctx) (body : Expr) (vs : VL) (kvs : List (Name × Value)) : R Obj :=
  eval n (argFrame vs kvs :: D) body

/-- **the result of a call is determined by its own arguments**: whatever the call site `C` binds, whatever was called
    before, whichever expressions produced the argument values -/
theorem def_call_own_args (n : Nat) (C : Ctx) (f : Name) (args : List Expr) (kw : List (Expr × Expr))
    (body : Expr) (D : Ctx) (names : List Name) (vs kvs : VL)
    (h : C.getFun (fnKey f) = some (body, D)) (hn : kwNames kw = .ok names)
    (ha : evalList (eval n) C args = .ok vs) (hk : evalList (eval n) C (kw.map (·.2)) = .ok kvs) :
    eval (n + 1) C (.ucall f args kw) = defApply n D body vs (names.zip kvs) := by
  rw [ucall_eq n C f args kw body D h, hn, ha, hk]
  rfl

/-- **`def_call_pure`**: two calls of a `def`-ined function (any two call sites that resolve to the same definition, any
    argument expressions, any spelling of the name up to trailing underscores) whose arguments have the same VALUES and
    the same keyword names return the same result - exceptions and lazy results included -/
theorem def_call_pure (n : Nat) (C1 C2 : Ctx) (f1 f2 : Name) (args1 args2 : List Expr) (kw1 kw2 : List (Expr × Expr))
    (body : Expr) (D : Ctx)
    (h1 : C1.getFun (fnKey f1) = some (body, D)) (h2 : C2.getFun (fnKey f2) = some (body, D))
    (hn : kwNames kw1 = kwNames kw2)
    (ha : evalList (eval n) C1 args1 = evalList (eval n) C2 args2)
    (hk : evalList (eval n) C1 (kw1.map (·.2)) = evalList (eval n) C2 (kw2.map (·.2))) :
    eval (n + 1) C1 (.ucall f1 args1 kw1) = eval (n + 1) C2 (.ucall f2 args2 kw2) := by
  rw [ucall_eq n C1 f1 args1 kw1 body D h1, ucall_eq n C2 f2 args2 kw2 body D h2, hn, ha, hk]

/-- `callFn_def` congruence at the level of programs: `def(f, body) -> f(a1, .., an)` is the body on exactly these
    values, for every body, every values, every context -/
theorem def_then_call (n : Nat) (C : Ctx) (f : Name) (body : Expr) (vs : VL) :
    eval (n + 4) C (.arrow (.call .def_ [.kw f, body] []) (.ucall f (vs.map .lit) [])) =
      defApply (n + 2) ({ funs := [(fnKey f, body)] } :: C) body vs [] := by
  have hdef : eval (n + 3) C (.call .def_ [.kw f, body] []) = .ok (.ctx ({ funs := [(fnKey f, body)] } :: C)) := by
    simp only [eval_succ, step, callFn_def]; rfl
  rw [eval_succ (n + 3)]
  simp only [step, hdef, ok_bind]
  rw [def_call_own_args (n + 2) ({ funs := [(fnKey f, body)] } :: C) f (vs.map .lit) [] body
    ({ funs := [(fnKey f, body)] } :: C) [] vs [] (by simp [Ctx.getFun, alookup]) rfl (evalList_lits (n + 1) _ vs) rfl]
  rfl

/-- two calls side by side, `[f(a), f(b)]`: the second is the body on `b` - the first call (its argument `a`, its
    result) does not occur in it.  A result table keyed by the arguments, or an argument frame kept from the first
    activation, would make the second component depend on `a`. -/
theorem def_calls_independent (n : Nat) (C : Ctx) (f : Name) (body : Expr) (D : Ctx) (a b : Value)
    (h : C.getFun (fnKey f) = some (body, D)) :
    eval (n + 3) C (.list [.ucall f [.lit a] [], .ucall f [.lit b] []]) = (do
      let x ← defApply (n + 1) D body [a] []
      let vx ← toV x
      let y ← defApply (n + 1) D body [b] []
      let vy ← toV y
      pure (.val (.tuple [vx, vy]))) := by
  have hc : ∀ v : Value, eval (n + 2) C (.ucall f [.lit v] []) = defApply (n + 1) D body [v] [] := fun v =>
    def_call_own_args (n + 1) C f [.lit v] [] body D [] [v] [] h rfl (evalList_lits n C [v]) rfl
  rw [eval_succ (n + 2)]
  simp only [step, evalList, hc]
  cases defApply (n + 1) D body [a] [] with
  | error e => rfl
  | ok x =>
    simp only [ok_bind]
    cases toV x with
    | error e => rfl
    | ok vx =>
      simp only [ok_bind]
      cases defApply (n + 1) D body [b] [] with
      | error e => rfl
      | ok y =>
        simp only [ok_bind]
        cases toV y with
        | error e => rfl
        | ok vy => rfl

/-- the `def`-ined identity hands back its argument ITSELF, for every value: `f(1)` is `1`, `f(true)` is `true`, `f(1.0)` is
    `1.0` - not "a value equal to it" -/
theorem def_identity_faithful (n : Nat) (C D : Ctx) (f : Name) (v : Value) (hv : hasIter v = false)
    (h : C.getFun (fnKey f) = some (.var ['$'], D)) :
    eval (n + 2) C (.ucall f [.lit v] []) = .ok (.val v) := by
  rw [def_call_own_args (n + 1) C f [.lit v] [] (.var ['$']) D [] [v] [] h rfl (evalList_lits n C [v]) rfl]
  exact lambda_dollar n D v [] hv

/-- ... so calls with different argument values are told apart, however "equal" the host language finds the values -/
theorem def_identity_injective (n : Nat) (C D : Ctx) (f : Name) (v w : Value) (hv : hasIter v = false)
    (hw : hasIter w = false) (h : C.getFun (fnKey f) = some (.var ['$'], D))
    (he : eval (n + 2) C (.ucall f [.lit v] []) = eval (n + 2) C (.ucall f [.lit w] [])) : v = w := by
  rw [def_identity_faithful n C D f v hv h, def_identity_faithful n C D f w hw h] at he
  injection he with he
  injection he

/-- 1, true and 1.0 are equal for the host language (`pyEq`) and three different values of the language -/
example : Value.pyEq (.int 1) (.bool true) = true ∧ Value.pyEq (.int 1) (.flt 0x3FF0000000000000) = true ∧
    Value.pyEq (.int 0) (.flt 0x8000000000000000) = true ∧
    Value.int 1 ≠ Value.bool true ∧ Value.int 1 ≠ Value.flt 0x3FF0000000000000 ∧
    Value.bool true ≠ Value.flt 0x3FF0000000000000 ∧ Value.flt 0 ≠ Value.flt 0x8000000000000000 := by
  refine ⟨by decide, by decide, by decide, ?_, ?_, ?_, ?_⟩ <;> intro h <;> cases h

-- replay on the model of the demonstrations of two seeded changes (notes/C04.md, round 4)
-- (a) a result table keyed by the arguments: `def(f, [$]) -> [f(1), f(true), f(1.0)]`
example : run 20 .null (.arrow (.call .def_ [.kw ['f'], .list [.var ['$']]] [])
    (.list [.ucall ['f'] [.lit (.int 1)] [], .ucall ['f'] [.lit (.bool true)] [], .ucall ['f'] [.lit (.flt 0x3FF0000000000000)] []])) =
    .ok (.data (.list [.tuple [.int 1], .tuple [.bool true], .tuple [.flt 0x3FF0000000000000]])) := rfl
-- `def(f, $) -> $.select(f($))` on `[0, false, 1, true]`
example : run 20 (.tuple [.int 0, .bool false, .int 1, .bool true])
    (.arrow (.call .def_ [.kw ['f'], .var ['$']] []) (.method (.var ['$']) .select [.ucall ['f'] [.var ['$']] []] [])) =
    .ok (.data (.list [.int 0, .bool false, .int 1, .bool true])) := rfl
-- `def(f, {v => $x}) -> [f(x => false), f(x => 0)]`
example : run 20 .null (.arrow (.call .def_ [.kw ['f'], .map [(.kw ['v'], .var ['$', 'x'])]] [])
    (.list [.ucall ['f'] [] [(.kw ['x'], .lit (.bool false))], .ucall ['f'] [] [(.kw ['x'], .lit (.int 0))]])) =
    .ok (.data (.list [.dict [(.str ['v'], .bool false)], .dict [(.str ['v'], .int 0)]])) := rfl
-- a result holding a lazy sequence is built anew by every call: `def(wrap, [[$].select($ + 1)]) -> [wrap(1), wrap(1)]`
example : run 20 .null (.arrow (.call .def_ [.kw ['w'], .list [.method (.list [.var ['$']]) .select [.bin .add (.var ['$']) (.lit (.int 1))] []]] [])
    (.list [.ucall ['w'] [.lit (.int 1)] [], .ucall ['w'] [.lit (.int 1)] []])) =
    .ok (.data (.list [.tuple [.iter [.int 2]], .tuple [.iter [.int 2]]])) := rfl
-- `let(k => 3) -> def(f, $.items.where($ > $k)) -> [f($), f($)]` on `{"items": [1, 5, 7]}`
example : run 20 (.dict [(.str ['i', 't', 'e', 'm', 's'], .tuple [.int 1, .int 5, .int 7])])
    (.arrow (.call .let_ [] [(.kw ['k'], .lit (.int 3))])
      (.arrow (.call .def_ [.kw ['f'], .method (.member (.var ['$']) ['i', 't', 'e', 'm', 's']) .where_
          [.bin .gt (.var ['$']) (.var ['$', 'k'])] []] [])
        (.list [.ucall ['f'] [.var ['$']] [], .ucall ['f'] [.var ['$']] []]))) =
    .ok (.data (.list [.iter [.int 5, .int 7], .iter [.int 5, .int 7]])) := rfl
-- (b) keyword arguments named like the implementation's own parameters: `def(f, $value + 1) -> f(value => 1)`
example : run 20 .null (.arrow (.call .def_ [.kw ['f'], .bin .add (.var ['$', 'v', 'a', 'l', 'u', 'e']) (.lit (.int 1))] [])
    (.ucall ['f'] [] [(.kw ['v', 'a', 'l', 'u', 'e'], .lit (.int 1))])) = .ok (.data (.int 2)) := rfl
-- `def(f, [$context, $engine]) -> f(context => 1, engine => 2)`
example : run 20 .null (.arrow (.call .def_ [.kw ['f'], .list [.var ['$', 'c', 'o', 'n', 't', 'e', 'x', 't'], .var ['$', 'e', 'n', 'g', 'i', 'n', 'e']]] [])
    (.ucall ['f'] [] [(.kw ['c', 'o', 'n', 't', 'e', 'x', 't'], .lit (.int 1)), (.kw ['e', 'n', 'g', 'i', 'n', 'e'], .lit (.int 2))])) =
    .ok (.data (.list [.int 1, .int 2])) := rfl
-- `def(scale, $ * $receiver) -> $.select(scale($, receiver => 10))` on `[1, 2, 3]`
example : run 20 (.tuple [.int 1, .int 2, .int 3])
    (.arrow (.call .def_ [.kw ['s', 'c', 'a', 'l', 'e'], .bin .mul (.var ['$']) (.var ['$', 'r', 'e', 'c', 'e', 'i', 'v', 'e', 'r'])] [])
      (.method (.var ['$']) .select [.ucall ['s', 'c', 'a', 'l', 'e'] [.var ['$']]
        [(.kw ['r', 'e', 'c', 'e', 'i', 'v', 'e', 'r'], .lit (.int 10))]] [])) =
    .ok (.data (.list [.int 10, .int 20, .int 30])) := rfl
-- `let(value => 5) -> def(f, [$value, $1]) -> [f(7, value => 6), $value]`
example : run 20 .null (.arrow (.call .let_ [] [(.kw ['v', 'a', 'l', 'u', 'e'], .lit (.int 5))])
    (.arrow (.call .def_ [.kw ['f'], .list [.var ['$', 'v', 'a', 'l', 'u', 'e'], .var ['$', '1']]] [])
      (.list [.ucall ['f'] [.lit (.int 7)] [(.kw ['v', 'a', 'l', 'u', 'e'], .lit (.int 6))], .var ['$', 'v', 'a', 'l', 'u', 'e']]))) =
    .ok (.data (.list [.tuple [.int 6, .int 7], .int 5])) := rfl
-- `def(f, $self) -> f(self => ok)`
example : run 20 .null (.arrow (.call .def_ [.kw ['f'], .var ['$', 's', 'e', 'l', 'f']] [])
    (.ucall ['f'] [] [(.kw ['s', 'e', 'l', 'f'], .kw ['o', 'k'])])) = .ok (.data (.str ['o', 'k'])) := rfl
-- def_call_pure / def_calls_independent are not vacuous: a context that defines `f`
example : Ctx.getFun [{ vars := [(['$', 'k'], .int 2)] }, { funs := [(['f'], .list [.var ['$']])] }] (fnKey ['f', '_']) =
    some (.list [.var ['$']], [{ funs := [(['f'], .list [.var ['$']])] }]) := rfl

/-! ## non-vacuity: concrete instances of the hypotheses above -/

-- shadowing: two frames bind `$x`, the inner one answers
example : Ctx.get ([{ vars := [(['$', 'y'], .int 0)] }] ++ { vars := [(['$', 'x'], .int 2)] } ::
    [{ vars := [(['$', 'x'], .int 1)] }]) ['$', 'x'] = some (.int 2) :=
  shadowing _ _ _ _ _ (by decide) rfl

-- unknown_null: a context that binds other names only
example : eval 1 [{ vars := [(['$', '1'], .int 5)] }] (.var ['$', 'n', 'o', 'p', 'e']) = .ok (.val .null) :=
  unknown_null 0 _ _ (by decide)

-- closure_lexical: the caller's frames rebind the free variable `$k` of the body
example : eval 3 ([{ vars := [(['$', 'k'], .int 2)] }] ++
      [{ funs := [(['f'], .var ['$', 'k'])] }, { vars := [(['$', 'k'], .int 1)] }]) (.ucall ['f'] [] []) =
    .ok (.val (.int 1)) := rfl
example : ∀ G ∈ [({ vars := [(['$', 'k'], .int 2)] } : Frame)], alookup ['f'] G.funs = none := by decide

-- member_maps: a collection of MIXED element kinds (a dictionary, a collection of dictionaries nested twice, a scalar)
-- satisfies the element hypothesis
example : ∀ x ∈ [Value.dict [(.str ['a'], .int 1)], Value.tuple [.dict [(.str ['a'], .int 2)], .list [.dict []]], Value.int 3],
    hasIter x = false := by decide

-- fuel_mono: a definite outcome at fuel 4 is the outcome at fuel 400
example : eval 400 [] (.bin .add (.lit (.int 1)) (.lit (.int 2))) = .ok (.val (.int 3)) :=
  fuel_mono (n := 4) (by decide) [] _ _ rfl (by intro h; cases h)

-- frame: `let(..) -> let(..)` hands back two new frames on top of the starting context
example : Extends [{ vars := [(['$', '1'], .int 7)] }]
    [{ vars := [(['$', 'b'], .int 2)] }, { vars := [(['$', 'a'], .int 1)] }, { vars := [(['$', '1'], .int 7)] }] :=
  frame 6 _ (.arrow (.call .let_ [] [(.kw ['a'], .lit (.int 1))]) (.call .let_ [] [(.kw ['b'], .lit (.int 2))])) _ rfl

-- with_numbering / the `$` alias
example : run 10 .null (.arrow (.call .with_ [.lit (.int 1), .lit (.int 2)] [])
    (.list [.var ['$'], .var ['$', '1'], .var ['$', '2'], .var ['$', '0'], .var ['$', '3']])) =
    .ok (.data (.list [.int 1, .int 1, .int 2, .null, .null])) := rfl

-- nested lambdas: the inner `$` is the inner element, the outer one is restored afterwards
example : run 20 (.tuple [.int 1, .int 2])
    (.method (.var ['$']) .select [.list [.var ['$'],
      .method (.method (.list [.lit (.int 10)]) .select [.bin .add (.var ['$']) (.lit (.int 1))] []) .toList [] [],
      .var ['$']]] []) =
    .ok (.data (.list [.tuple [.int 1, .tuple [.int 11], .int 1], .tuple [.int 2, .tuple [.int 11], .int 2]])) := rfl

end Yaql.Props.C04
