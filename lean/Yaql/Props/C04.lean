import Yaql.Model.Eval
namespace Yaql.Props.C04
open Yaql Yaql.Eval
theorem stub : True := trivial
end Yaql.Props.C04
