import Yaql.Model.Parse
import Yaql.Props.C03Lex
import Yaql.Props.C03Parse
/-!
C03 - parsing is total: a statement or a YAQL parsing error, nothing else.

`parseText` is a total function by construction (structural recursion over the text, then over the
token list; no fuel): termination for every input is part of its being a Lean definition.  The
theorems say what its value can be and where a reported position can lie, for EVERY character
classification (`CharCfg`), every operator table and every text.
-/
namespace Yaql.Props.C03
open Yaql.Lexer Yaql.Syntax Yaql.Parse Yaql.Props.C03Lex Yaql.Props.C03Parse

/-! ### `lexPrefix` is `lexAll` that remembers the tokens before the error -/

theorem lexPrefixGo_ok (cfg : LexCfg) : ∀ (l : List Char) (k : Nat) (pw : Bool) (pos : Nat) (ts : List Token),
    lexGo cfg k pw l pos = .ok ts ↔ lexPrefixGo cfg k pw l pos = (ts, none)
  | [], _, _, _, ts => by simp [lexGo, lexPrefixGo, eq_comm]
  | c :: r, k + 1, pw, pos, ts => by
      simp only [lexGo, lexPrefixGo]
      exact lexPrefixGo_ok cfg r k _ _ ts
  | c :: r, 0, pw, pos, ts => by
      simp only [lexGo, lexPrefixGo]
      split
      · exact lexPrefixGo_ok cfg r 0 _ _ ts
      · cases hr : ruleAt cfg pw (c :: r) pos with
        | err e => simp
        | tok t len =>
            simp only
            cases hg : lexGo cfg (len - 1) (cfg.chars.isWord c) r (pos + 1) with
            | error e =>
                have hne : ∀ ts', lexPrefixGo cfg (len - 1) (cfg.chars.isWord c) r (pos + 1) ≠ (ts', none) := by
                  intro ts' h
                  have := (lexPrefixGo_ok cfg r (len - 1) _ _ ts').mpr h
                  rw [hg] at this; cases this
                constructor
                · intro h; simp [consTok] at h
                · intro h
                  cases hp : lexPrefixGo cfg (len - 1) (cfg.chars.isWord c) r (pos + 1) with
                  | mk a b =>
                    rw [hp] at h
                    simp only [consP, Prod.mk.injEq] at h
                    obtain ⟨_, hb⟩ := h
                    subst hb
                    exact absurd hp (hne a)
            | ok ts' =>
                have hp := (lexPrefixGo_ok cfg r (len - 1) _ _ ts').mp hg
                rw [hp]
                simp [consTok, consP, eq_comm]

theorem lexPrefixGo_err (cfg : LexCfg) : ∀ (l : List Char) (k : Nat) (pw : Bool) (pos : Nat) (e : LexErr),
    (lexPrefixGo cfg k pw l pos).2 = some e → lexGo cfg k pw l pos = .error e
  | [], _, _, _, e, h => by simp [lexPrefixGo] at h
  | c :: r, k + 1, pw, pos, e, h => by
      simp only [lexGo, lexPrefixGo] at h ⊢
      exact lexPrefixGo_err cfg r k _ _ e h
  | c :: r, 0, pw, pos, e, h => by
      simp only [lexGo, lexPrefixGo] at h ⊢
      split
      · rename_i hi
        rw [if_pos hi] at h
        exact lexPrefixGo_err cfg r 0 _ _ e h
      · rename_i hi
        rw [if_neg hi] at h
        cases hr : ruleAt cfg pw (c :: r) pos with
        | err e' => rw [hr] at h; simp at h; simp [h]
        | tok t len =>
            rw [hr] at h
            simp only [consP] at h
            have := lexPrefixGo_err cfg r (len - 1) _ _ e h
            simp [this, consTok]

/-- a text the lexer accepts: `lexPrefix` is its token list -/
theorem lexPrefix_ok (cfg : LexCfg) (text : List Char) (ts : List Token) :
    lexAll cfg text = .ok ts ↔ lexPrefix cfg text = (ts, none) :=
  lexPrefixGo_ok cfg text 0 false 0 ts

/-- every token handed out lies inside the text -/
theorem lexPrefixGo_tokens_inside (cfg : LexCfg) : ∀ (l : List Char) (k : Nat) (pw : Bool) (pos : Nat) (t : Token),
    t ∈ (lexPrefixGo cfg k pw l pos).1 → pos ≤ t.pos ∧ t.pos < pos + l.length
  | [], _, _, _, t, h => by simp [lexPrefixGo] at h
  | c :: r, k + 1, pw, pos, t, h => by
      simp only [lexPrefixGo] at h
      have := lexPrefixGo_tokens_inside cfg r k _ _ t h
      simp only [List.length_cons]; omega
  | c :: r, 0, pw, pos, t, h => by
      simp only [lexPrefixGo] at h
      split at h
      · have := lexPrefixGo_tokens_inside cfg r 0 _ _ t h
        simp only [List.length_cons]; omega
      · rcases ruleAt_spec cfg pw c r pos with ⟨t', len, hr, hpos, _, _⟩ | ⟨e', hr, _⟩
        · rw [hr] at h
          simp only [consP, List.mem_cons] at h
          rcases h with rfl | h
          · simp only [List.length_cons]; omega
          · have := lexPrefixGo_tokens_inside cfg r _ _ _ t h
            simp only [List.length_cons]; omega
        · rw [hr] at h; simp at h

theorem lexPrefix_tokens_inside (cfg : LexCfg) (text : List Char) (t : Token)
    (h : t ∈ (lexPrefix cfg text).1) : t.pos < text.length := by
  have := lexPrefixGo_tokens_inside cfg text 0 false 0 t h
  omega

/-! ### the property -/

/-- **total and classified**: for every text the outcome is a tree, a lexical error, a grammar
    error with a position, a grammar error at end of input - or the model's own report that the
    text spells a lone surrogate.  (That `parseText` is defined at all is its termination.) -/
theorem total_classified (lc : LexCfg) (pc : Cfg) (text : List Char) :
    (∃ t, parseText lc pc text = .ok t) ∨ (∃ v p, parseText lc pc text = .lexical v p) ∨
    (∃ p, parseText lc pc text = .grammar (some p)) ∨ parseText lc pc text = .grammar none ∨
    (∃ p, parseText lc pc text = .surrogate p) := by
  unfold parseText
  cases hl : lexPrefix lc text with
  | mk toks stop =>
    simp only
    cases hr : run pc {} toks with
    | error e => cases e with
      | grammar p => cases p with
        | none => simp
        | some p => simp
    | ok st =>
      simp only
      cases stop with
      | some e => cases e with
        | lexical v p => simp
        | surrogate p => simp
      | none =>
        simp only
        cases hf : finish pc st with
        | ok t => simp
        | error e => cases e with
          | grammar p => cases p with
            | none => simp
            | some p => simp

/-- **a lexical error points into the text**: the position is inside the text and the reported
    value is a non-empty piece of the text standing exactly there -/
theorem lexical_position_inside (lc : LexCfg) (pc : Cfg) (text v : List Char) (p : Nat)
    (h : parseText lc pc text = .lexical v p) :
    p < text.length ∧ v ≠ [] ∧ v <+: text.drop p := by
  unfold parseText at h
  cases hl : lexPrefix lc text with
  | mk toks stop =>
    rw [hl] at h
    simp only at h
    cases hr : run pc {} toks with
    | error e => cases e with
      | grammar q => rw [hr] at h; cases h
    | ok st =>
      rw [hr] at h
      simp only at h
      cases stop with
      | none =>
          simp only at h
          cases hf : finish pc st with
          | ok t => rw [hf] at h; cases h
          | error e => cases e with
            | grammar q => rw [hf] at h; cases h
      | some e =>
          cases e with
          | surrogate q => cases h
          | lexical v' p' =>
              simp only [Outcome.lexical.injEq] at h
              obtain ⟨rfl, rfl⟩ := h
              have he : lexAll lc text = .error (.lexical v' p') :=
                lexPrefixGo_err lc text 0 false 0 _ (by
                  have : (lexPrefix lc text).2 = some (.lexical v' p') := by rw [hl]
                  exact this)
              exact lexAll_error_inside lc text he

/-- **a grammar error points at a token of the text**: the position is the start of a token the
    lexer produced from this text, hence inside the text -/
theorem grammar_position_inside (lc : LexCfg) (pc : Cfg) (text : List Char) (p : Nat)
    (h : parseText lc pc text = .grammar (some p)) : p < text.length := by
  unfold parseText at h
  cases hl : lexPrefix lc text with
  | mk toks stop =>
    rw [hl] at h
    simp only at h
    have hin : ∀ t ∈ toks, t.pos < text.length := by
      intro t ht
      exact lexPrefix_tokens_inside lc text t (by rw [hl]; exact ht)
    cases hr : run pc {} toks with
    | error e =>
        cases e with
        | grammar q =>
          rw [hr] at h
          simp only [Outcome.grammar.injEq] at h
          subst h
          obtain ⟨pre, t, post, st', htoks, _, _, hp⟩ := run_err toks {} _ hr
          have := hin t (by rw [htoks]; simp)
          simp only [PErr.grammar.injEq, Option.some.injEq] at hp
          omega
    | ok st =>
      rw [hr] at h
      simp only at h
      cases stop with
      | some e => cases e <;> cases h
      | none =>
          simp only at h
          cases hf : finish pc st with
          | ok t => rw [hf] at h; cases h
          | error e =>
              have := finish_err hf
              subst this
              rw [hf] at h
              cases h

/-- for a text without lexical error the interleaved run is the batch parser of C02 on `lexAll` -/
theorem parseText_eq_parse (lc : LexCfg) (pc : Cfg) (text : List Char) (toks : List Token)
    (h : lexAll lc text = .ok toks) :
    parseText lc pc text = (match parse pc toks with
      | .ok t => .ok t
      | .error (.grammar p) => .grammar p) := by
  have hp := (lexPrefix_ok lc text toks).mp h
  unfold parseText parse
  rw [hp]
  simp only
  cases hr : run pc {} toks with
  | error e => cases e; rfl
  | ok st => rfl

/-- the first error in text order wins: a grammar error at a token is reported even when the
    lexer would choke on something behind it -/
theorem grammar_before_later_lexical (lc : LexCfg) (pc : Cfg) (text : List Char) (p : Option Nat)
    (h : run pc {} (lexPrefix lc text).1 = .error (.grammar p)) :
    parseText lc pc text = .grammar p := by
  unfold parseText
  cases hl : lexPrefix lc text with
  | mk toks stop =>
    rw [hl] at h
    simp only at h
    simp [h]

end Yaql.Props.C03
