import Yaql.Gen.SigTable
import Yaql.Props.C05Sig
/-!
C05, the definitions of the live standard library: for EVERY FunctionDefinition registered by
`yaql.create_context()` the parameter table - key, python name, position, "has a default" of every entry - is the
one `Yaql.Signature.define` derives from the payload's Python signature (read with `inspect.signature` by
harness/gens/sigtable.py on every run).  In particular every stdlib argument with a Python default has a default
in its definition and no other has.
-/
namespace Yaql.Props.C05SigGen
open Yaql.Signature Yaql.Gen.SigTable

theorem stdlib_tables_follow_signatures : rows.all SigRow.ok = true := by decide +kernel

/-- the table is not empty, and some payload has a default -/
theorem stdlib_rows_nonempty : rows.length > 200 ∧ (rows.any fun r => decide (r.ndefaults > 0)) = true := by
  decide +kernel

end Yaql.Props.C05SigGen
