import Yaql.Model.EvalLimits
import Yaql.Props.C08EvalMono
/-!
# Without limits the instrumented interpreter IS the reference interpreter (C08 over the evaluator, part 2)

`evalL c Lim.off n C e = embR emb (Eval.eval n C e)`: with `yaql.limitIterators` negative and
`yaql.memoryQuota <= 0` every `measure` / `limitLen` passes and `limitLazy` is the identity, and what is left of
`EvalLimits` is `Eval`, construct by construct (the exception type is larger, so results are compared through the
embedding `emb` / `LErr.base`).
-/
namespace Yaql.Props.C08Eval
open Yaql Yaql.Value Yaql.EvalLimits
open Yaql.Eval (Ctx Expr Fn BinOp UnOp Name VL KV Frame Final Obj Err R Ev)

/-! ## the embedding -/

def embT (e : Option Err) : Option LErr := e.map LErr.base

def embS (s : VL × Option Err) : VL × Option LErr := (s.1, embT s.2)

def emb : Obj → ObjL
  | .val v => .val v
  | .lazy xs e => .lazy xs (embT e)
  | .ordered xs e => .ordered xs (embT e)
  | .ctx c => .ctx c

def embR (g : α → β) (x : R α) : RL β :=
  match x with
  | .ok a => .ok (g a)
  | .error e => .error (.base e)

/-- `xL` is the embedding of `x` -/
def Emb (g : α → β) (xL : RL β) (x : R α) : Prop := xL = embR g x

theorem Emb.ok {g : α → β} {b : β} {a : α} (h : b = g a) : Emb g (.ok b) (.ok a) := by subst h; rfl
theorem Emb.pure {g : α → β} {b : β} {a : α} (h : b = g a) : Emb g (pure b) (pure a) := Emb.ok h
theorem Emb.err {g : α → β} (e : Err) : Emb g (.error (.base e)) (.error e) := rfl

theorem Emb.bind {h : α → β} {g : γ → δ} {xL : RL β} {x : R α} {kL : β → RL δ} {k : α → R γ}
    (hx : Emb h xL x) (hk : ∀ a, Emb g (kL (h a)) (k a)) : Emb g (xL >>= kL) (x >>= k) := by
  unfold Emb at hx
  subst hx
  cases x with
  | ok a => exact hk a
  | error e => rfl

theorem Emb.liftR (x : R α) : Emb id (liftR x) x := by cases x <;> rfl

theorem Emb.of_eq {g : α → β} {xL : RL β} {x y : R α} (h : Emb g xL x) (hxy : x = y) : Emb g xL y := hxy ▸ h

/-! ## the primitives without limits -/

theorem measureAll_off (ss : List (Option Sz)) : measureAll Lim.off ss = .ok () := by
  unfold measureAll; rfl

theorem measure_off (s : Option Sz) : EvalLimits.measure Lim.off s = .ok () := measureAll_off _

theorem measureEach_off : ∀ ss : List (Option Sz), measureEach Lim.off ss = .ok ()
  | [] => rfl
  | s :: r => by unfold measureEach; rw [measure_off, measureEach_off r]; rfl

theorem limitLen_off (n : Nat) : limitLen Lim.off n = .ok () := rfl

theorem limitLazy_off (s : VL × Option LErr) : limitLazy Lim.off s = s := rfl

theorem toIterL_emb (r : Obj) : toIterL (emb r) = (Eval.toIter r).map embS := by
  cases r with
  | val v => cases v <;> rfl
  | lazy xs e => rfl
  | ordered xs e => rfl
  | ctx c => rfl

theorem bindIter_off (c : ECfg) (r : Obj) {s : VL × Option Err} (h : Eval.toIter r = some s) :
    bindIter c Lim.off (emb r) = .ok (embS s) := by
  unfold bindIter
  rw [measure_off]
  cases r with
  | val v => cases v <;> first | (cases h; rfl) | cases h
  | lazy xs e => cases h; rfl
  | ordered xs e => cases h; rfl
  | ctx c => cases h

theorem toVL_emb (o : Obj) : Emb id (toVL (emb o)) (Eval.toV o) := by
  cases o with
  | val v => rfl
  | lazy xs e => cases e <;> rfl
  | ordered xs e => rfl
  | ctx c => rfl

theorem truthyObjL_emb (o : Obj) : truthyObjL (emb o) = Eval.truthyObj o := by
  cases o <;> rfl

theorem isLazyL_emb (o : Obj) : isLazyL (emb o) = Eval.isLazy o := by
  cases o <;> rfl

theorem objSz_any (c : ECfg) (o : ObjL) : EvalLimits.measure Lim.off (objSz c o) = .ok () := measure_off _

/-- captured outcomes -/
def embC (g : α → β) (x : Except Err α) : Except LErr β :=
  match x with
  | .ok a => .ok (g a)
  | .error e => .error (.base e)

theorem capture_emb {g : α → β} {xL : RL β} {x : R α} (h : Emb g xL x) :
    Emb (embC g) (EvalLimits.capture xL) (Eval.capture x) := by
  unfold Emb at h
  subst h
  cases x with
  | ok a => rfl
  | error e => cases e <;> rfl

/-! ## generators -/

theorem mapL_emb {fL : Value → RL Value} {f : Value → R Value} (hf : ∀ x, Emb id (fL x) (f x)) :
    ∀ (xs : VL) (e : Option Err), Emb embS (EvalLimits.mapL fL xs (embT e)) (Eval.mapL f xs e)
  | [], e => rfl
  | x :: xs, e => by
    unfold EvalLimits.mapL Eval.mapL
    apply Emb.bind (capture_emb (hf x)); intro r
    cases r with
    | error er => exact Emb.pure rfl
    | ok v => exact Emb.bind (mapL_emb hf xs e) (fun s => Emb.pure rfl)

theorem filterL_emb {fL : Value → RL Bool} {f : Value → R Bool} (hf : ∀ x, Emb id (fL x) (f x)) :
    ∀ (xs : VL) (e : Option Err), Emb embS (EvalLimits.filterL fL xs (embT e)) (Eval.filterL f xs e)
  | [], e => rfl
  | x :: xs, e => by
    unfold EvalLimits.filterL Eval.filterL
    apply Emb.bind (capture_emb (hf x)); intro r
    cases r with
    | error er => exact Emb.pure rfl
    | ok v => exact Emb.bind (filterL_emb hf xs e) (fun s => Emb.pure (by cases v <;> rfl))

theorem flatMapL_emb {fL : Value → RL (VL × Option LErr)} {f : Value → R (VL × Option Err)}
    (hf : ∀ x, Emb embS (fL x) (f x)) :
    ∀ (xs : VL) (e : Option Err), Emb embS (EvalLimits.flatMapL fL xs (embT e)) (Eval.flatMapL f xs e)
  | [], e => rfl
  | x :: xs, e => by
    unfold EvalLimits.flatMapL Eval.flatMapL
    apply Emb.bind (capture_emb (hf x)); intro r
    match r with
    | .error er => exact Emb.pure rfl
    | .ok (vs, some er) => exact Emb.pure rfl
    | .ok (vs, none) => exact Emb.bind (flatMapL_emb hf xs e) (fun s => Emb.pure rfl)

theorem takeWhileL_emb {fL : Value → RL Bool} {f : Value → R Bool} (hf : ∀ x, Emb id (fL x) (f x)) :
    ∀ (xs : VL) (e : Option Err), Emb embS (EvalLimits.takeWhileL fL xs (embT e)) (Eval.takeWhileL f xs e)
  | [], e => rfl
  | x :: xs, e => by
    unfold EvalLimits.takeWhileL Eval.takeWhileL
    apply Emb.bind (capture_emb (hf x)); intro r
    match r with
    | .error er => exact Emb.pure rfl
    | .ok true => exact Emb.bind (takeWhileL_emb hf xs e) (fun s => Emb.pure rfl)
    | .ok false => exact Emb.pure rfl

theorem dropWhileL_emb {fL : Value → RL Bool} {f : Value → R Bool} (hf : ∀ x, Emb id (fL x) (f x)) :
    ∀ (xs : VL) (e : Option Err), Emb embS (EvalLimits.dropWhileL fL xs (embT e)) (Eval.dropWhileL f xs e)
  | [], e => rfl
  | x :: xs, e => by
    unfold EvalLimits.dropWhileL Eval.dropWhileL
    apply Emb.bind (capture_emb (hf x)); intro r
    match r with
    | .error er => exact Emb.pure rfl
    | .ok true => exact dropWhileL_emb hf xs e
    | .ok false => exact Emb.pure rfl

theorem findL_emb {pL : Value → RL Bool} {p : Value → R Bool} (hp : ∀ x, Emb id (pL x) (p x)) :
    ∀ (xs : VL) (i : Nat) (e : Option Err), Emb id (EvalLimits.findL pL i xs (embT e)) (Eval.findL p i xs e)
  | [], i, none => rfl
  | [], i, some e => rfl
  | x :: xs, i, e => by
    unfold EvalLimits.findL Eval.findL
    apply Emb.bind (hp x); intro b
    cases b
    · exact findL_emb hp xs (i + 1) e
    · exact Emb.pure rfl

theorem foldL_emb {fL : Value → Value → RL Value} {f : Value → Value → R Value} (hf : ∀ a x, Emb id (fL a x) (f a x)) :
    ∀ (xs : VL) (acc : Value) (e : Option Err), Emb id (EvalLimits.foldL fL acc xs (embT e)) (Eval.foldL f acc xs e)
  | [], acc, none => rfl
  | [], acc, some e => rfl
  | x :: xs, acc, e => by
    unfold EvalLimits.foldL Eval.foldL
    exact Emb.bind (hf acc x) (fun a => foldL_emb hf xs a e)

theorem toDictL_emb (c : ECfg) {kfL vfL : Value → RL Value} {kf vf : Value → R Value}
    (hk : ∀ x, Emb id (kfL x) (kf x)) (hv : ∀ x, Emb id (vfL x) (vf x)) :
    ∀ (xs : VL) (acc : KV) (e : Option Err),
      Emb id (EvalLimits.toDictL c Lim.off kfL vfL acc xs (embT e)) (Eval.toDictL kf vf acc xs e)
  | [], acc, none => rfl
  | [], acc, some e => rfl
  | x :: xs, acc, e => by
    unfold EvalLimits.toDictL Eval.toDictL
    apply Emb.bind (hk x); intro k
    apply Emb.bind (hv x); intro v
    simp only [id]
    split
    · rw [measure_off]
      exact toDictL_emb c hk hv xs _ e
    · exact Emb.err _

theorem drain_emb (s : VL × Option Err) : Emb id (EvalLimits.drain (embS s)) (Eval.drain s) := by
  obtain ⟨xs, e⟩ := s
  cases e <;> rfl

def embK (ks : List (Except Err Value)) : List (Except LErr Value) := ks.map (embC id)

theorem keysL_emb {fL : Value → RL Value} {f : Value → R Value} (hf : ∀ x, Emb id (fL x) (f x)) :
    ∀ xs : VL, Emb embK (EvalLimits.keysL fL xs) (Eval.keysL f xs)
  | [] => rfl
  | x :: xs => by
    unfold EvalLimits.keysL Eval.keysL
    apply Emb.bind (capture_emb (hf x)); intro k
    exact Emb.bind (keysL_emb hf xs) (fun r => Emb.pure rfl)

/-! ## sorting -/

theorem errsOfL_embK : ∀ ks : List (Except Err Value), errsOfL (embK ks) = (Eval.errsOf ks).map LErr.base
  | [] => rfl
  | .error e :: r => by
    show LErr.base e :: errsOfL (embK r) = _
    rw [errsOfL_embK r]; rfl
  | .ok v :: r => by
    show errsOfL (embK r) = _
    rw [errsOfL_embK r]; rfl

theorem oksOfL_embK : ∀ ks : List (Except Err Value), oksOfL (embK ks) = Eval.oksOf ks
  | [] => rfl
  | .error e :: r => by
    show oksOfL (embK r) = _
    rw [oksOfL_embK r]; rfl
  | .ok v :: r => by
    show v :: oksOfL (embK r) = _
    rw [oksOfL_embK r]; rfl

theorem keyQuota_off (c : ECfg) : ∀ ks : VL, keyQuota c Lim.off ks = []
  | [] => rfl
  | k :: r => by rw [keyQuota_cons, measure_off]; exact keyQuota_off c r

theorem base_beq (a b : Err) : (LErr.base a == LErr.base b) = (a == b) := by
  rw [Bool.eq_iff_iff]
  simp only [beq_iff_eq]
  constructor
  · intro h; cases h; rfl
  · intro h; rw [h]

theorem any_ne_base (e : Err) : ∀ rest : List Err, (rest.map LErr.base).any (· != LErr.base e) = rest.any (· != e)
  | [] => rfl
  | x :: r => by
    simp only [List.map_cons, List.any_cons, any_ne_base e r]
    congr 1
    simp only [bne, base_beq]

theorem sortErr_base (es : List Err) :
    sortErr (es.map LErr.base) = match es with
      | [] => .ok none
      | e :: rest => if (e == Err.outOfDomain || rest.any (· != e)) = true then .error (.base .outOfDomain)
          else .ok (some (.base e)) := by
  cases es with
  | nil => rfl
  | cons e rest =>
    simp only [List.map_cons]
    rw [sortErr_cons, base_beq, any_ne_base]

theorem sortKeyedL_emb (c : ECfg) (asc : Bool) (items : VL) (ks : List (Except Err Value)) :
    Emb embS (sortKeyedL c Lim.off asc items (embK ks)) (Eval.sortKeyed asc items ks) := by
  unfold sortKeyedL Eval.sortKeyed
  split
  · rfl
  · rw [errsOfL_embK, oksOfL_embK, keyQuota_off, List.append_nil]
    cases hk : Seq.keysComparable (Eval.oksOf ks) with
    | none =>
      simp only [List.append_nil]
      rw [sortErr_base]
      cases Eval.errsOf ks with
      | nil => rfl
      | cons e rest =>
        simp only
        split <;> rfl
    | some e0 =>
      simp only
      rw [show (List.map LErr.base (Eval.errsOf ks) ++ [LErr.base (Err.ofSeq e0)])
          = List.map LErr.base (Eval.errsOf ks ++ [Err.ofSeq e0]) by simp, sortErr_base]
      generalize Eval.errsOf ks ++ [Err.ofSeq e0] = es
      cases es with
      | nil => rfl
      | cons e rest =>
        simp only
        split <;> rfl

/-! ## operators -/

theorem withConv_off {res : R α} {conv : RL Unit} (h : conv = .ok ()) : withConv res conv = liftR res := by
  subst h
  unfold withConv
  cases res with
  | ok a => rfl
  | error e =>
    simp only
    split <;> rfl

theorem convBin_off (c : ECfg) (op : BinOp) (a b : Value) : convBin c Lim.off op a b = .ok () := by
  unfold convBin
  split <;> simp only [measure_off, limitLen_off, measureAll_off, ok_bind]

theorem binCall_off (c : ECfg) (op : BinOp) (a b : Value) : Emb id (binCall c Lim.off op a b) (Eval.binopV op a b) := by
  unfold binCall
  rw [withConv_off (convBin_off c op a b)]
  cases Eval.binopV op a b with
  | ok r => simp only [liftR, ok_bind, measure_off]; rfl
  | error e => rfl

theorem binopL_val (c : ECfg) (L : Lim) (op : BinOp) (vx vy : Value) :
    binopL c L op (.val vx) (.val vy) =
      if (Eval.hasIter vx || Eval.hasIter vy) = true then .error (.base .outOfDomain)
      else (do let a ← toVL (.val vx); let b ← toVL (.val vy); let r ← binCall c L op a b; pure (.val r)) := rfl

theorem binop_val (op : BinOp) (vx vy : Value) :
    Eval.binop op (.val vx) (.val vy) =
      if (Eval.hasIter vx || Eval.hasIter vy) = true then .error .outOfDomain
      else (do let a ← Eval.toV (.val vx); let b ← Eval.toV (.val vy); let r ← Eval.binopV op a b; pure (.val r)) := rfl

theorem binopL_emb (c : ECfg) (op : BinOp) (x y : Obj) :
    Emb emb (binopL c Lim.off op (emb x) (emb y)) (Eval.binop op x y) := by
  cases x with
  | ctx cx => cases y <;> cases op <;> rfl
  | val vx =>
    cases y with
    | ctx cy => cases op <;> rfl
    | val vy =>
      rw [show emb (.val vx) = .val vx from rfl, show emb (.val vy) = .val vy from rfl, binopL_val, binop_val]
      by_cases hc : (Eval.hasIter vx || Eval.hasIter vy) = true
      · rw [if_pos hc, if_pos hc]; rfl
      · rw [if_neg hc, if_neg hc]
        apply Emb.bind (toVL_emb (.val vx)); intro a
        apply Emb.bind (toVL_emb (.val vy)); intro b
        exact Emb.bind (binCall_off c op a b) (fun r => Emb.pure rfl)
    | lazy ys e => simp [binopL, Eval.binop, emb, isLazyL, Eval.isLazy, Emb, embR]
    | ordered ys e => simp [binopL, Eval.binop, emb, isLazyL, Eval.isLazy, Emb, embR]
  | lazy xs e =>
    cases y with
    | ctx cy => cases op <;> rfl
    | _ => simp [binopL, Eval.binop, emb, isLazyL, Eval.isLazy, Emb, embR]
  | ordered xs e =>
    cases y with
    | ctx cy => cases op <;> rfl
    | _ => simp [binopL, Eval.binop, emb, isLazyL, Eval.isLazy, Emb, embR]

theorem unopL_emb (c : ECfg) (op : UnOp) (x : Obj) : Emb emb (unopL c Lim.off op (emb x)) (Eval.unop op x) := by
  cases x with
  | val v =>
    cases op with
    | not =>
      show Emb emb (if Eval.hasIter v = true then _ else _) (if Eval.hasIter v = true then _ else _)
      by_cases hc : Eval.hasIter v = true
      · rw [if_pos hc, if_pos hc]; rfl
      · rw [if_neg hc, if_neg hc, measure_off]; rfl
    | neg =>
      cases v <;> simp only [unopL, Eval.unop, emb, measure_off, ok_bind] <;> first | rfl | (split <;> rfl)
  | lazy xs e => cases op <;> rfl
  | ordered xs e => cases op <;> rfl
  | ctx cx => cases op <;> rfl

theorem embR_bindVal (x : R Value) :
    embR emb (x >>= fun v => pure (Obj.val v)) = (liftR x >>= fun v => pure (ObjL.val v)) := by
  cases x <;> rfl

theorem indexer_eq (r : Obj) (vs : VL) : Eval.indexer r vs = (indexerV (emb r) vs >>= fun v => pure (Obj.val v)) := by
  have seqCase : ∀ (l : VL) (k : Value),
      (match Eval.intOfIndex k with
        | some i => do let v ← Eval.liftSeq (Seq.pyIndex l i); pure (Obj.val v)
        | none => (.error .noFunction : R Obj))
      = ((match Eval.intOfIndex k with
        | some i => Eval.liftSeq (Seq.pyIndex l i)
        | none => (.error .noFunction : R Value)) >>= fun v => pure (Obj.val v)) := by
    intro l k
    cases Eval.intOfIndex k <;> rfl
  cases r with
  | val v =>
    cases v with
    | tuple l =>
      match vs with
      | [] => rfl
      | [k] => exact seqCase l k
      | _ :: _ :: _ => rfl
    | list l =>
      match vs with
      | [] => rfl
      | [k] => exact seqCase l k
      | _ :: _ :: _ => rfl
    | dict d =>
      match vs with
      | [] => rfl
      | [k] =>
        show (if hashable k = true then _ else _) = ((if hashable k = true then _ else _) >>= _)
        by_cases hk : hashable k = true
        · rw [if_pos hk, if_pos hk]; cases Seq.dGet d k <;> rfl
        · rw [if_neg hk, if_neg hk]; rfl
      | [k, dflt] =>
        show (if hashable k = true then _ else _) = ((if hashable k = true then _ else _) >>= _)
        by_cases hk : hashable k = true
        · rw [if_pos hk, if_pos hk]; rfl
        · rw [if_neg hk, if_neg hk]; rfl
      | _ :: _ :: _ :: _ => rfl
    | _ => rfl
  | lazy xs e => rfl
  | ordered xs e => rfl
  | ctx cx => rfl

theorem indexerV_emb (r : Obj) (vs : VL) :
    embR emb (Eval.indexer r vs) = (liftR (indexerV (emb r) vs) >>= fun v => pure (ObjL.val v)) := by
  rw [indexer_eq, embR_bindVal]

theorem indexerL_emb (c : ECfg) (r : Obj) (vs : VL) : Emb emb (indexerL c Lim.off (emb r) vs) (Eval.indexer r vs) := by
  unfold indexerL Emb
  rw [withConv_off (by rw [measure_off]; exact measureEach_off _), indexerV_emb]

/-- the element kinds that are neither a collection nor (in `Eval`) projected element by element -/
theorem memberFlatL_emb (c : ECfg) (name : Name) (x : Value) : Emb id (memberFlatL c Lim.off name x) (Eval.memberV name x) := by
  unfold memberFlatL
  cases Eval.memberV name x with
  | ok v => simp only [withConv, measure_off, ok_bind, pure_eq]; rfl
  | error e =>
    cases e <;> simp only [withConv, isResolution, measure_off, ok_bind, error_bind] <;> rfl

theorem memberV_nested_emb (c : ECfg) (name : Name) (l : VL)
    (ih : Emb embS (memberVLs c Lim.off name l) (Eval.memberVL name l)) :
    Emb id (do
        let s ← memberVLs c Lim.off name l
        let v ← toVL (ObjL.lazy s.1 s.2)
        EvalLimits.measure Lim.off (sizeofV c v)
        pure v)
      (do let s ← Eval.memberVL name l; Eval.toV (.lazy s.1 s.2)) := by
  refine Emb.bind ih (fun s => ?_)
  have h := toVL_emb (.lazy s.1 s.2)
  unfold Emb at h ⊢
  show (toVL (ObjL.lazy s.1 (embT s.2)) >>= fun v => (do EvalLimits.measure Lim.off (sizeofV c v); pure v)) = _
  have h' : toVL (ObjL.lazy s.1 (embT s.2)) = embR id (Eval.toV (.lazy s.1 s.2)) := h
  rw [h']
  cases Eval.toV (.lazy s.1 s.2) with
  | ok v => simp only [embR, ok_bind, measure_off]; rfl
  | error e => rfl

mutual
theorem memberVL_emb (c : ECfg) (name : Name) : ∀ x : Value, Emb id (memberVL c Lim.off name x) (Eval.memberV name x)
  | .tuple l => by
    rw [memberVL, Eval.memberV]
    simp only [measure_off, limitLen_off, ok_bind]
    exact memberV_nested_emb c name l (memberVLs_emb c name l)
  | .list l => by
    rw [memberVL, Eval.memberV]
    simp only [measure_off, limitLen_off, ok_bind]
    exact memberV_nested_emb c name l (memberVLs_emb c name l)
  | .iter l => by
    rw [memberVL, Eval.memberV]
    simp only [measure_off, limitLazy_off, ok_bind]
    exact memberV_nested_emb c name l (memberVLs_emb c name l)
  | .null => by rw [memberVL]; exact memberFlatL_emb c name _
  | .bool _ => by rw [memberVL]; exact memberFlatL_emb c name _
  | .int _ => by rw [memberVL]; exact memberFlatL_emb c name _
  | .flt _ => by rw [memberVL]; exact memberFlatL_emb c name _
  | .str _ => by rw [memberVL]; exact memberFlatL_emb c name _
  | .dict _ => by rw [memberVL]; exact memberFlatL_emb c name _
  | .set _ => by rw [memberVL]; exact memberFlatL_emb c name _
  | .host _ => by rw [memberVL]; exact memberFlatL_emb c name _
theorem memberVLs_emb (c : ECfg) (name : Name) : ∀ l : VL, Emb embS (memberVLs c Lim.off name l) (Eval.memberVL name l)
  | [] => by rw [memberVLs, Eval.memberVL]; rfl
  | x :: xs => by
    rw [memberVLs, Eval.memberVL]
    refine Emb.bind (capture_emb (memberVL_emb c name x)) (fun r => ?_)
    cases r with
    | error er => exact Emb.pure rfl
    | ok v => exact Emb.bind (memberVLs_emb c name xs) (fun s => Emb.pure rfl)
end

theorem memberOfL_emb (c : ECfg) (r : Obj) (name : Name) : Emb emb (memberOfL c Lim.off (emb r) name) (Eval.memberOf r name) := by
  have iter : ∀ r : Obj,
      Emb emb (match toIterL (emb r) with
        | some _ => do
          let (items, err) ← bindIter c Lim.off (emb r)
          let s ← EvalLimits.mapL (memberVL c Lim.off name) items err
          pure (ObjL.lazy s.1 s.2)
        | none => do
          EvalLimits.measure Lim.off (objSz c (emb r))
          .error (.base .unknownFunction))
      (match Eval.toIter r with
        | some (items, err) => do let s ← Eval.mapL (Eval.memberV name) items err; pure (.lazy s.1 s.2)
        | none => .error .unknownFunction) := by
    intro r
    rw [toIterL_emb]
    cases h : Eval.toIter r with
    | none => simp only [Option.map_none, measure_off, ok_bind]; rfl
    | some s =>
      obtain ⟨xs, e⟩ := s
      simp only [Option.map_some]
      rw [bindIter_off c r h]
      show Emb emb (do let s ← EvalLimits.mapL (memberVL c Lim.off name) xs (embT e); pure (ObjL.lazy s.1 s.2))
        (do let s ← Eval.mapL (Eval.memberV name) xs e; pure (.lazy s.1 s.2))
      exact Emb.bind (mapL_emb (memberVL_emb c name) xs e) (fun s => Emb.pure rfl)
  cases r with
  | val v =>
    cases v with
    | dict d =>
      show Emb emb (do EvalLimits.measure Lim.off _; match Seq.dGet d (.str name) with | some v => pure (.val v) | none => .error (.base .key)) _
      rw [measure_off]
      show Emb emb (match Seq.dGet d (.str name) with | some v => pure (ObjL.val v) | none => .error (.base .key))
        (match Seq.dGet d (.str name) with | some v => .ok (.val v) | none => .error .key)
      cases Seq.dGet d (.str name) <;> rfl
    | null => exact iter (.val .null)
    | bool b => exact iter (.val (.bool b))
    | int i => exact iter (.val (.int i))
    | flt b => exact iter (.val (.flt b))
    | str s => exact iter (.val (.str s))
    | tuple l => exact iter (.val (.tuple l))
    | list l => exact iter (.val (.list l))
    | set l => rfl
    | iter l => exact iter (.val (.iter l))
    | host i => exact iter (.val (.host i))
  | lazy xs e => exact iter (.lazy xs e)
  | ordered xs e => exact iter (.ordered xs e)
  | ctx cx => exact iter (.ctx cx)

theorem mkDictL_emb (ps : KV) : Emb emb (mkDictL ps) (Eval.mkDict ps) := by
  unfold mkDictL Eval.mkDict
  split <;> rfl

/-! ## `list(...)` without limits -/

mutual
theorem recV_off : ∀ v : Value, recV Lim.off v = (Seq.listRecV v, none)
  | .iter l => by unfold recV Seq.listRecV; exact recItems_off l
  | .null => rfl
  | .bool _ => rfl
  | .int _ => rfl
  | .flt _ => rfl
  | .str _ => rfl
  | .tuple _ => rfl
  | .list _ => rfl
  | .dict _ => rfl
  | .set _ => rfl
  | .host _ => rfl
theorem recItems_off : ∀ xs : VL, recItems Lim.off none xs = (Seq.listRecL xs, none)
  | [] => rfl
  | x :: xs => by
    rw [recItems_cons Lim.off none (by intro h; cases h), recV_off x]
    show catS _ (recItems Lim.off none xs) = _
    rw [recItems_off xs]
    rfl
end

theorem catS_drain (s t : VL × Option LErr) :
    EvalLimits.drain (catS s t) = (do let a ← EvalLimits.drain s; let b ← EvalLimits.drain t; pure (a ++ b)) := by
  obtain ⟨s1, s2⟩ := s
  obtain ⟨t1, t2⟩ := t
  cases s2 with
  | some e => rfl
  | none => cases t2 <;> rfl

theorem listArgL_drain (o : Obj) : Emb id (EvalLimits.drain (listArgL Lim.off (emb o))) (Eval.listArg o) := by
  cases o with
  | val v => show Emb id (EvalLimits.drain (recV Lim.off v)) _; rw [recV_off]; rfl
  | lazy xs e =>
    show Emb id (EvalLimits.drain (catS (recItems Lim.off none xs) ([], embT e))) _
    rw [recItems_off]
    cases e with
    | none => show Emb id (.ok (Seq.listRecL xs ++ [])) _; rw [List.append_nil]; rfl
    | some er => rfl
  | ordered xs e => rfl
  | ctx cx => rfl

theorem listFn_emb : ∀ os : List Obj,
    Emb List.flatten (EvalLimits.drain (catStreams ((os.map emb).map (listArgL Lim.off)))) (os.mapM Eval.listArg)
  | [] => rfl
  | o :: os => by
    simp only [List.map_cons, List.mapM_cons, catStreams]
    rw [catS_drain]
    apply Emb.bind (listArgL_drain o); intro a
    apply Emb.bind (listFn_emb os); intro b
    exact Emb.pure (by simp)

/-! ## `dict(items)` without limits -/

def pairOfE (it : Value) : R (Value × Value) :=
  match it with
  | .tuple (k :: v :: _) | .list (k :: v :: _) => .ok (k, v)
  | .tuple _ | .list _ => .error .stopIteration
  | _ => .error .outOfDomain

theorem pairOf_emb (it : Value) : Emb id (pairOf it) (pairOfE it) := by
  cases it with
  | tuple l =>
    match l with
    | [] => rfl
    | [_] => rfl
    | _ :: _ :: _ => rfl
  | list l =>
    match l with
    | [] => rfl
    | [_] => rfl
    | _ :: _ :: _ => rfl
  | _ => rfl

theorem dictItemsL_off (c : ECfg) : ∀ (xs : VL) (acc : KV), Emb id (dictItemsL c Lim.off acc xs) (xs.mapM pairOfE)
  | [], acc => rfl
  | it :: r, acc => by
    unfold dictItemsL
    simp only [List.mapM_cons]
    apply Emb.bind (pairOf_emb it); intro p
    rw [measure_off]
    simp only [ok_bind]
    exact Emb.bind (dictItemsL_off c r _) (fun rest => Emb.pure rfl)

/-! ## the evaluator's plumbing -/

/-- the knots -/
def EmbEv (evL : EvL) (ev : Ev) : Prop := ∀ C e, Emb emb (evL C e) (ev C e)

theorem evalListL_emb {evL : EvL} {ev : Ev} (h : EmbEv evL ev) (C : Ctx) :
    ∀ es, Emb id (evalListL evL C es) (Eval.evalList ev C es)
  | [] => rfl
  | e :: es => by
    unfold evalListL Eval.evalList
    apply Emb.bind (h C e); intro o
    apply Emb.bind (toVL_emb o); intro v
    exact Emb.bind (evalListL_emb h C es) (fun vs => Emb.pure rfl)

theorem evalObjsL_emb {evL : EvL} {ev : Ev} (h : EmbEv evL ev) (C : Ctx) :
    ∀ es, Emb (List.map emb) (evalObjsL evL C es) (Eval.evalObjs ev C es)
  | [] => rfl
  | e :: es => by
    unfold evalObjsL Eval.evalObjs
    apply Emb.bind (h C e); intro o
    exact Emb.bind (evalObjsL_emb h C es) (fun os => Emb.pure rfl)

theorem evalPairsL_emb {evL : EvL} {ev : Ev} (h : EmbEv evL ev) (C : Ctx) :
    ∀ ps, Emb id (evalPairsL evL C ps) (Eval.evalPairs ev C ps)
  | [] => rfl
  | (k, v) :: r => by
    unfold evalPairsL Eval.evalPairs
    apply Emb.bind (h C k); intro ko
    apply Emb.bind (toVL_emb ko); intro kv
    apply Emb.bind (h C v); intro vo
    apply Emb.bind (toVL_emb vo); intro vv
    exact Emb.bind (evalPairsL_emb h C r) (fun rest => Emb.pure rfl)

theorem lamVL_emb {evL : EvL} {ev : Ev} (h : EmbEv evL ev) (D : Ctx) (b : Expr) (args : VL) :
    Emb id (lamVL evL D b args) (Eval.lamV ev D b args) :=
  Emb.bind (h _ _) (fun o => toVL_emb o)

theorem lamBL_emb {evL : EvL} {ev : Ev} (h : EmbEv evL ev) (D : Ctx) (b : Expr) (args : VL) :
    Emb id (lamBL evL D b args) (Eval.lamB ev D b args) :=
  Emb.bind (h _ _) (fun o => Emb.pure (truthyObjL_emb o))

theorem lamManyL_emb {evL : EvL} {ev : Ev} (h : EmbEv evL ev) (D : Ctx) (b : Expr) (x : Value) :
    Emb embS (lamManyL evL D b x) (Eval.lamMany ev D b x) := by
  unfold lamManyL Eval.lamMany
  apply Emb.bind (h _ _); intro o
  cases o with
  | val v => cases v <;> rfl
  | lazy xs e => rfl
  | ordered xs e => rfl
  | ctx cx => rfl

theorem withIter_none {β : Type} (c : ECfg) (bad : Err) {r : Obj} (h : Eval.toIter r = none) (pre : RL β)
    (k : β → VL × Option LErr → RL ObjL) : withIter c Lim.off bad (emb r) pre k = .error (.base bad) := by
  unfold withIter
  rw [toIterL_emb, h]
  rfl

theorem withIter_some {β : Type} (c : ECfg) (bad : Err) {r : Obj} {s : VL × Option Err} (h : Eval.toIter r = some s)
    (pre : RL β) (k : β → VL × Option LErr → RL ObjL) :
    withIter c Lim.off bad (emb r) pre k = (do let a ← pre; k a (embS s)) := by
  unfold withIter
  rw [toIterL_emb, h]
  simp only [Option.map_some, bindIter_off c r h, ok_bind]

theorem intArg_emb (bad : Err) (no : Obj) :
    Emb id (intArg bad (emb no)) (match no with
      | .val (.int k) => (.ok k : R Int)
      | .val (.bool _) => .error .outOfDomain
      | _ => if Eval.isLazy no then .error .outOfDomain else .error bad) := by
  cases no with
  | val v =>
    cases v <;> first | rfl | (show Emb id (if isLazyL (emb (Obj.val _)) = true then _ else _) (if _ then _ else _); rw [isLazyL_emb]; split <;> rfl)
  | lazy xs e => rfl
  | ordered xs e => rfl
  | ctx cx => rfl

def intArgE (bad : Err) (no : Obj) : R Int :=
  match no with
  | .val (.int k) => .ok k
  | .val (.bool _) => .error .outOfDomain
  | _ => if Eval.isLazy no then .error .outOfDomain else .error bad

theorem intArgE_emb (bad : Err) (no : Obj) : Emb id (intArg bad (emb no)) (intArgE bad no) := by
  cases no with
  | val v =>
    cases v <;> first | rfl | (show Emb id (if isLazyL (emb (Obj.val _)) = true then _ else _) (if _ then _ else _); rw [isLazyL_emb]; split <;> rfl)
  | lazy xs e => rfl
  | ordered xs e => rfl
  | ctx cx => rfl

theorem embT_ite (p : Prop) [Decidable p] (e : Option Err) : (if p then none else embT e) = embT (if p then none else e) := by
  split <;> rfl

theorem lamNotBL_emb {evL : EvL} {ev : Ev} (h : EmbEv evL ev) (D : Ctx) (b : Expr) (args : VL) :
    Emb id (do let x ← lamBL evL D b args; pure (!x)) (do let x ← Eval.lamB ev D b args; pure (!x)) :=
  Emb.bind (lamBL_emb h D b args) (fun x => Emb.pure rfl)

theorem any_congr' (l : List Expr) (f g : Expr → Bool) (h : ∀ a, f a = g a) : l.any f = l.any g := by
  have : f = g := funext h
  rw [this]

theorem filterMap_congr' (l : List Value) (f g : Value → Option Name) (h : ∀ a, f a = g a) : l.filterMap f = l.filterMap g := by
  have : f = g := funext h
  rw [this]

def badNameO (a : Expr) : Bool :=
  match a with
  | .lit (.str _) => false
  | .lit _ => true
  | _ => false

def strOf (v : Value) : Option Name :=
  match v with
  | .str s => some s
  | _ => none

def unpackNamesE (ev : Ev) (C : Ctx) (bad : Err) (names : List Expr) : R (VL × List Name) :=
  if names.any badNameO then .error bad
  else do
    let ns ← Eval.evalList ev C names
    if (ns.filterMap strOf).length != ns.length then .error bad else pure (ns, ns.filterMap strOf)

def unpackKE (C : Ctx) (nm : VL × List Name) (xs : VL) (e : Option Err) : R Obj :=
  match (if nm.2.length = 0 || xs.length < nm.2.length + 1 then e else none) with
  | some er => .error er
  | none =>
    if nm.2.length = 0 then pure (.ctx ({ vars := Eval.bindNamed [] (Eval.bindPos 1 xs) } :: C))
    else if (xs.take (nm.2.length + 1)).length != nm.2.length then .error .value
    else pure (.ctx ({ vars := Eval.bindNamed [] (nm.2.zip xs) } :: C))

theorem bind_congr' {x : R α} {f g : α → R β} (h : ∀ a, f a = g a) : (x >>= f) = (x >>= g) := by
  have : f = g := funext h
  rw [this]

theorem unpack_eq (ev : Ev) (C : Ctx) (bad : Err) (r : Obj) (names : List Expr) :
    Eval.callMethod ev C bad r .unpack names =
      match Eval.toIter r with
      | none => .error bad
      | some s => (do let nm ← unpackNamesE ev C bad names; unpackKE C nm s.1 s.2) := by
  unfold Eval.callMethod
  simp only
  cases Eval.toIter r with
  | none => rfl
  | some s =>
    obtain ⟨xs, e⟩ := s
    simp only
    unfold unpackNamesE
    rw [any_congr' names _ badNameO]
    · by_cases hb : names.any badNameO = true
      · rw [if_pos hb, if_pos hb]; rfl
      · rw [if_neg hb, if_neg hb]
        simp only [bind_assoc]
        refine bind_congr' (fun ns => ?_)
        rw [filterMap_congr' ns _ strOf]
        · by_cases hl : ((ns.filterMap strOf).length != ns.length) = true
          · rw [if_pos hl, if_pos hl]; rfl
          · rw [if_neg hl, if_neg hl]; rfl
        · intro v; cases v <;> rfl
    · intro a
      cases a <;> first | rfl | (rename_i v; cases v <;> rfl)

theorem unpackNames_emb {evL : EvL} {ev : Ev} (hev : EmbEv evL ev) (C : Ctx) (bad : Err) (names : List Expr) :
    Emb id (unpackNames evL C bad names) (unpackNamesE ev C bad names) := by
  unfold unpackNames unpackNamesE
  rw [any_congr' names _ badNameO]
  · by_cases hb : names.any badNameO = true
    · rw [if_pos hb, if_pos hb]; rfl
    · rw [if_neg hb, if_neg hb]
      apply Emb.bind (evalListL_emb hev C names); intro ns
      simp only [id]
      rw [filterMap_congr' ns _ strOf]
      · by_cases hl : ((ns.filterMap strOf).length != ns.length) = true
        · rw [if_pos hl, if_pos hl]; rfl
        · rw [if_neg hl, if_neg hl]; rfl
      · intro v; cases v <;> rfl
  · intro a
    cases a <;> first | rfl | (rename_i v; cases v <;> rfl)

theorem disc_emb (p : Prop) [Decidable p] (e : Option Err) : (if p then embT e else none) = embT (if p then e else none) := by
  split <;> rfl

theorem matchT_emb (d : Option Err) {xL : RL ObjL} {x : R Obj} (hx : Emb emb xL x) :
    Emb emb (match embT d with | some er => .error er | none => xL) (match d with | some er => .error er | none => x) := by
  cases d with
  | none => exact hx
  | some er => rfl

theorem unpackK_emb (C : Ctx) (nm : VL × List Name) (xs : VL) (e : Option Err) :
    Emb emb
      (match (if nm.2.length = 0 || xs.length < nm.2.length + 1 then embT e else none) with
        | some er => (.error er : RL ObjL)
        | none =>
          if nm.2.length = 0 then pure (.ctx ({ vars := Eval.bindNamed [] (Eval.bindPos 1 xs) } :: C))
          else if (xs.take (nm.2.length + 1)).length != nm.2.length then .error (.base .value)
          else pure (.ctx ({ vars := Eval.bindNamed [] (nm.2.zip xs) } :: C)))
      (unpackKE C nm xs e) := by
  unfold unpackKE
  rw [disc_emb]
  refine matchT_emb _ ?_
  by_cases hn : nm.2.length = 0
  · simp only [if_pos hn]
    rfl
  · simp only [if_neg hn]
    by_cases hl : ((xs.take (nm.2.length + 1)).length != nm.2.length) = true
    · simp only [if_pos hl]; rfl
    · simp only [if_neg hl]; rfl

/-! ## methods -/

theorem callMethodL_emb (c : ECfg) {evL : EvL} {ev : Ev} (hev : EmbEv evL ev) (C : Ctx) (bad : Err) (r : Obj) (f : Fn)
    (args : List Expr) : Emb emb (callMethodL c Lim.off evL C bad (emb r) f args) (Eval.callMethod ev C bad r f args) := by
  by_cases hf : f = .unpack
  · subst hf
    rw [unpack_eq]
    unfold callMethodL
    simp only
    cases h : Eval.toIter r with
    | none => rw [withIter_none c _ h]; exact Emb.err _
    | some s =>
      obtain ⟨xs, e⟩ := s
      rw [withIter_some c _ h]
      dsimp only
      apply Emb.bind (unpackNames_emb hev C bad args); intro nm
      rw [measureEach_off]
      exact unpackK_emb C nm xs e
  unfold callMethodL Eval.callMethod
  split
  · -- select
    cases h : Eval.toIter r with
    | none => rw [withIter_none c _ h]; exact Emb.err _
    | some s =>
      obtain ⟨xs, e⟩ := s
      rw [withIter_some c _ h]
      dsimp only
      simp only [pure_eq, ok_bind]
      exact Emb.bind (mapL_emb (fun x => lamVL_emb hev _ _ _) xs e) (fun s => Emb.pure rfl)
  · -- where
    cases h : Eval.toIter r with
    | none => rw [withIter_none c _ h]; exact Emb.err _
    | some s =>
      obtain ⟨xs, e⟩ := s
      rw [withIter_some c _ h]
      dsimp only
      simp only [pure_eq, ok_bind]
      exact Emb.bind (filterL_emb (fun x => lamBL_emb hev _ _ _) xs e) (fun s => Emb.pure rfl)
  · -- selectMany
    cases h : Eval.toIter r with
    | none => rw [withIter_none c _ h]; exact Emb.err _
    | some s =>
      obtain ⟨xs, e⟩ := s
      rw [withIter_some c _ h]
      dsimp only
      simp only [pure_eq, ok_bind]
      exact Emb.bind (flatMapL_emb (fun x => lamManyL_emb hev _ _ _) xs e) (fun s => Emb.pure rfl)
  · -- takeWhile
    cases h : Eval.toIter r with
    | none => rw [withIter_none c _ h]; exact Emb.err _
    | some s =>
      obtain ⟨xs, e⟩ := s
      rw [withIter_some c _ h]
      dsimp only
      simp only [pure_eq, ok_bind]
      exact Emb.bind (takeWhileL_emb (fun x => lamBL_emb hev _ _ _) xs e) (fun s => Emb.pure rfl)
  · -- skipWhile
    cases h : Eval.toIter r with
    | none => rw [withIter_none c _ h]; exact Emb.err _
    | some s =>
      obtain ⟨xs, e⟩ := s
      rw [withIter_some c _ h]
      dsimp only
      simp only [pure_eq, ok_bind]
      exact Emb.bind (dropWhileL_emb (fun x => lamBL_emb hev _ _ _) xs e) (fun s => Emb.pure rfl)
  · -- orderBy true
    cases h : Eval.toIter r with
    | none => rw [withIter_none c _ h]; exact Emb.err _
    | some s =>
      obtain ⟨xs, e⟩ := s
      rw [withIter_some c _ h]
      dsimp only
      simp only [pure_eq, ok_bind]
      cases e with
      | some er => exact Emb.ok rfl
      | none =>
        show Emb emb (do
            let ks ← if xs.length ≤ 1 then pure [] else EvalLimits.keysL (fun x => lamVL evL C _ [x]) xs
            let t ← sortKeyedL c Lim.off true xs ks
            pure (ObjL.ordered t.1 t.2))
          (do
            let ks ← if xs.length ≤ 1 then pure [] else Eval.keysL (fun x => Eval.lamV ev C _ [x]) xs
            let s ← Eval.sortKeyed true xs ks
            pure (Obj.ordered s.1 s.2))
        by_cases hlen : xs.length ≤ 1
        · simp only [if_pos hlen, pure_bind]
          exact Emb.bind (sortKeyedL_emb c true xs []) (fun s => Emb.pure rfl)
        · simp only [if_neg hlen]
          apply Emb.bind (keysL_emb (fun x => lamVL_emb hev _ _ _) xs); intro ks
          exact Emb.bind (sortKeyedL_emb c true xs ks) (fun s => Emb.pure rfl)
  · -- orderBy false
    cases h : Eval.toIter r with
    | none => rw [withIter_none c _ h]; exact Emb.err _
    | some s =>
      obtain ⟨xs, e⟩ := s
      rw [withIter_some c _ h]
      dsimp only
      simp only [pure_eq, ok_bind]
      cases e with
      | some er => exact Emb.ok rfl
      | none =>
        show Emb emb (do
            let ks ← if xs.length ≤ 1 then pure [] else EvalLimits.keysL (fun x => lamVL evL C _ [x]) xs
            let t ← sortKeyedL c Lim.off false xs ks
            pure (ObjL.ordered t.1 t.2))
          (do
            let ks ← if xs.length ≤ 1 then pure [] else Eval.keysL (fun x => Eval.lamV ev C _ [x]) xs
            let s ← Eval.sortKeyed false xs ks
            pure (Obj.ordered s.1 s.2))
        by_cases hlen : xs.length ≤ 1
        · simp only [if_pos hlen, pure_bind]
          exact Emb.bind (sortKeyedL_emb c false xs []) (fun s => Emb.pure rfl)
        · simp only [if_neg hlen]
          apply Emb.bind (keysL_emb (fun x => lamVL_emb hev _ _ _) xs); intro ks
          exact Emb.bind (sortKeyedL_emb c false xs ks) (fun s => Emb.pure rfl)
  · -- any()
    cases h : Eval.toIter r with
    | none => rw [withIter_none c _ h]; exact Emb.err _
    | some s =>
      obtain ⟨xs, e⟩ := s
      rw [withIter_some c _ h]
      dsimp only
      simp only [pure_eq, ok_bind]
      exact Emb.bind (findL_emb (fun _ => Emb.ok rfl) xs 0 e) (fun s => Emb.pure rfl)
  · -- any(p)
    cases h : Eval.toIter r with
    | none => rw [withIter_none c _ h]; exact Emb.err _
    | some s =>
      obtain ⟨xs, e⟩ := s
      rw [withIter_some c _ h]
      dsimp only
      simp only [pure_eq, ok_bind]
      exact Emb.bind (findL_emb (fun x => lamBL_emb hev _ _ _) xs 0 e) (fun s => Emb.pure rfl)
  · -- all()
    cases h : Eval.toIter r with
    | none => rw [withIter_none c _ h]; exact Emb.err _
    | some s =>
      obtain ⟨xs, e⟩ := s
      rw [withIter_some c _ h]
      dsimp only
      simp only [pure_eq, ok_bind]
      exact Emb.bind (findL_emb (fun _ => Emb.ok rfl) xs 0 e) (fun s => Emb.pure rfl)
  · -- all(p)
    cases h : Eval.toIter r with
    | none => rw [withIter_none c _ h]; exact Emb.err _
    | some s =>
      obtain ⟨xs, e⟩ := s
      rw [withIter_some c _ h]
      dsimp only
      simp only [pure_eq, ok_bind]
      exact Emb.bind (findL_emb (fun x => lamNotBL_emb hev C _ [x]) xs 0 e) (fun s => Emb.pure rfl)
  · -- indexWhere
    cases h : Eval.toIter r with
    | none => rw [withIter_none c _ h]; exact Emb.err _
    | some s =>
      obtain ⟨xs, e⟩ := s
      rw [withIter_some c _ h]
      dsimp only
      simp only [pure_eq, ok_bind]
      exact Emb.bind (findL_emb (fun x => lamBL_emb hev _ _ _) xs 0 e) (fun s => Emb.pure rfl)
  · -- toDict(k)
    cases h : Eval.toIter r with
    | none => rw [withIter_none c _ h]; exact Emb.err _
    | some s =>
      obtain ⟨xs, e⟩ := s
      rw [withIter_some c _ h]
      dsimp only
      simp only [pure_eq, ok_bind]
      exact Emb.bind (toDictL_emb c (fun x => lamVL_emb hev _ _ _) (fun _ => Emb.ok rfl) xs [] e) (fun d => Emb.pure rfl)
  · -- toDict(k,v)
    cases h : Eval.toIter r with
    | none => rw [withIter_none c _ h]; exact Emb.err _
    | some s =>
      obtain ⟨xs, e⟩ := s
      rw [withIter_some c _ h]
      dsimp only
      simp only [pure_eq, ok_bind]
      exact Emb.bind (toDictL_emb c (fun x => lamVL_emb hev _ _ _) (fun x => lamVL_emb hev _ _ _) xs [] e) (fun d => Emb.pure rfl)
  · -- aggregate(f)
    cases h : Eval.toIter r with
    | none => rw [withIter_none c _ h]; exact Emb.err _
    | some s =>
      obtain ⟨xs, e⟩ := s
      rw [withIter_some c _ h]
      dsimp only
      simp only [pure_eq, ok_bind]
      cases xs with
      | nil => cases e <;> rfl
      | cons x xs => exact Emb.bind (foldL_emb (fun a b => lamVL_emb hev _ _ _) xs x e) (fun v => Emb.pure rfl)
  · -- aggregate(f,seed)
    cases h : Eval.toIter r with
    | none => rw [withIter_none c _ h]; exact Emb.err _
    | some s =>
      obtain ⟨xs, e⟩ := s
      rw [withIter_some c _ h]
      dsimp only
      simp only [bind_assoc]
      apply Emb.bind (hev C _); intro so
      apply Emb.bind (toVL_emb so); intro sd
      simp only [id, measure_off, ok_bind]
      exact Emb.bind (foldL_emb (fun a b => lamVL_emb hev _ _ _) xs sd e) (fun v => Emb.pure rfl)
  · -- sum()
    cases h : Eval.toIter r with
    | none => rw [withIter_none c _ h]; exact Emb.err _
    | some s =>
      obtain ⟨xs, e⟩ := s
      rw [withIter_some c _ h]
      dsimp only
      simp only [pure_eq, ok_bind]
      cases xs with
      | nil => cases e <;> rfl
      | cons x xs => exact Emb.bind (foldL_emb (fun a b => binCall_off c .add a b) xs x e) (fun v => Emb.pure rfl)
  · -- sum(init)
    cases h : Eval.toIter r with
    | none => rw [withIter_none c _ h]; exact Emb.err _
    | some s =>
      obtain ⟨xs, e⟩ := s
      rw [withIter_some c _ h]
      dsimp only
      simp only [bind_assoc]
      apply Emb.bind (hev C _); intro so
      apply Emb.bind (toVL_emb so); intro sd
      simp only [id, measure_off, ok_bind]
      exact Emb.bind (foldL_emb (fun a b => binCall_off c .add a b) xs sd e) (fun v => Emb.pure rfl)
  · -- first()
    cases h : Eval.toIter r with
    | none => rw [withIter_none c _ h]; exact Emb.err _
    | some s =>
      obtain ⟨xs, e⟩ := s
      rw [withIter_some c _ h]
      dsimp only
      simp only [pure_eq, ok_bind]
      cases xs with
      | nil => cases e <;> rfl
      | cons x xs => rfl
  · -- first(d)
    cases h : Eval.toIter r with
    | none => rw [withIter_none c _ h]; exact Emb.err _
    | some s =>
      obtain ⟨xs, e⟩ := s
      rw [withIter_some c _ h]
      dsimp only
      apply Emb.bind (hev C _); intro dobj
      simp only [measure_off, ok_bind]
      cases xs with
      | nil => cases e <;> rfl
      | cons x xs => rfl
  · -- toList
    cases h : Eval.toIter r with
    | none => rw [withIter_none c _ h]; exact Emb.err _
    | some s =>
      obtain ⟨xs, e⟩ := s
      rw [withIter_some c _ h]
      dsimp only
      simp only [pure_eq, ok_bind]
      exact Emb.bind (drain_emb (xs, e)) (fun l => Emb.pure rfl)
  · -- take
    cases h : Eval.toIter r with
    | none => rw [withIter_none c _ h]; exact Emb.err _
    | some s =>
      obtain ⟨xs, e⟩ := s
      rw [withIter_some c _ h]
      dsimp only
      simp only [bind_assoc]
      apply Emb.bind (hev C _); intro no
      refine Emb.of_eq (y := _) (Emb.bind (intArgE_emb bad no) (k := fun k =>
        if k < 0 then .error .value else pure (Obj.lazy (xs.take k.toNat) (if k.toNat ≤ xs.length then none else e))) (fun k => ?_)) ?_
      · simp only [id, measure_off, ok_bind]
        split
        · rfl
        · exact Emb.pure (by simp only [emb, embS]; congr 1; exact embT_ite _ e)
      · cases no with
        | val v => cases v <;> first | rfl | (simp only [intArgE]; split <;> rfl)
        | _ => rfl
  · -- skip
    cases h : Eval.toIter r with
    | none => rw [withIter_none c _ h]; exact Emb.err _
    | some s =>
      obtain ⟨xs, e⟩ := s
      rw [withIter_some c _ h]
      dsimp only
      simp only [bind_assoc]
      apply Emb.bind (hev C _); intro no
      refine Emb.of_eq (y := _) (Emb.bind (intArgE_emb bad no) (k := fun k =>
        if k < 0 then .error .value else pure (Obj.lazy (xs.drop k.toNat) e)) (fun k => ?_)) ?_
      · simp only [id, measure_off, ok_bind]
        split
        · rfl
        · exact Emb.pure (by simp only [emb, embS])
      · cases no with
        | val v => cases v <;> first | rfl | (simp only [intArgE]; split <;> rfl)
        | _ => rfl
  · -- len
    cases r with
    | val v =>
      cases v with
      | tuple l => simp only [emb, measure_off, ok_bind]; rfl
      | list l => simp only [emb, measure_off, ok_bind]; rfl
      | iter l =>
        rw [bindIter_off c (.val (.iter l)) (s := (l, none)) rfl]
        rfl
      | dict d => simp only [emb, measure_off, ok_bind]; rfl
      | str s => simp only [emb, measure_off, ok_bind]; rfl
      | _ => rfl
    | lazy xs e =>
      rw [bindIter_off c (.lazy xs e) (s := (xs, e)) rfl]
      simp only [ok_bind]
      exact Emb.bind (drain_emb (xs, e)) (fun l => Emb.pure rfl)
    | ordered xs e => rfl
    | ctx cx => rfl
  · -- get(k)
    cases r with
    | val v =>
      cases v with
      | dict d =>
        dsimp only [emb]
        apply Emb.bind (hev C _); intro ko
        apply Emb.bind (toVL_emb ko); intro kv
        simp only [id, measure_off, ok_bind]
        split <;> rfl
      | _ => rfl
    | _ => rfl
  · -- get(k, default)
    cases r with
    | val v =>
      cases v with
      | dict d =>
        dsimp only [emb]
        apply Emb.bind (hev C _); intro ko
        apply Emb.bind (toVL_emb ko); intro kv
        apply Emb.bind (hev C _); intro dobj
        apply Emb.bind (toVL_emb dobj); intro dv
        simp only [id, measure_off, ok_bind]
        split <;> rfl
      | _ => rfl
    | _ => rfl
  · -- unpack
    exact absurd rfl hf
  all_goals first
    | rfl
    | (split <;> first | rfl | (exfalso; simp_all))

/-! ## functions, nodes, the interpreter -/

theorem ite_emb {g : α → β} (p : Prop) [Decidable p] {xL yL : RL β} {x y : R α} (hx : Emb g xL x) (hy : Emb g yL y) :
    Emb g (if p then xL else yL) (if p then x else y) := by
  split <;> assumption

theorem fnAsMethod_emb (c : ECfg) {evL : EvL} {ev : Ev} (hev : EmbEv evL ev) (C : Ctx) (b : Bool) (recv : Expr) (f : Fn)
    (rest : List Expr) :
    Emb emb
      (if (!b) = true then .error (.base .noFunction)
        else do let r ← evL C recv; callMethodL c Lim.off evL C .noFunction r f rest)
      (if (!b) = true then .error .noFunction
        else do let r ← ev C recv; Eval.callMethod ev C .noFunction r f rest) := by
  cases b with
  | false => rfl
  | true =>
    simp only [Bool.not_true, Bool.false_eq_true, if_false]
    apply Emb.bind (hev C _); intro r
    exact callMethodL_emb c hev C _ r _ _

theorem dictItems_eq (xs : VL) :
    xs.mapM (fun it => match it with
      | .tuple (k :: v :: _) | .list (k :: v :: _) => (.ok (k, v) : R (Value × Value))
      | .tuple _ | .list _ => .error .stopIteration
      | _ => .error .outOfDomain) = xs.mapM pairOfE := rfl

theorem callFnL_emb (c : ECfg) {evL : EvL} {ev : Ev} (hev : EmbEv evL ev) (C : Ctx) (f : Fn) (args : List Expr)
    (kw : List (Expr × Expr)) : Emb emb (callFnL c Lim.off evL C f args kw) (Eval.callFn ev C f args kw) := by
  unfold callFnL Eval.callFn
  cases f with
  | let_ =>
    dsimp only
    apply Emb.bind (Emb.liftR _); intro names
    apply Emb.bind (evalListL_emb hev C _); intro vs
    apply Emb.bind (evalListL_emb hev C _); intro kvs
    simp only [id, measureEach_off, ok_bind]
    exact Emb.pure rfl
  | with_ =>
    dsimp only
    refine ite_emb _ ?_ ?_
    · exact Emb.bind (Emb.liftR _) (fun _ => Emb.err _)
    · apply Emb.bind (evalListL_emb hev C _); intro vs
      simp only [id, measureEach_off, ok_bind]
      exact Emb.pure rfl
  | def_ =>
    dsimp only
    refine ite_emb _ (Emb.err _) ?_
    match args with
    | [] => rfl
    | [_] => rfl
    | [nameE, body] =>
      dsimp only
      apply Emb.bind (hev C _); intro no
      cases no with
      | val v =>
        cases v with
        | str name => simp only [emb, measure_off, ok_bind]; rfl
        | _ => first | rfl | (show Emb emb (if isLazyL (emb (Obj.val _)) = true then _ else _) (if _ then _ else _); rw [isLazyL_emb]; split <;> rfl)
      | _ => rfl
    | _ :: _ :: _ :: _ => rfl
  | list =>
    dsimp only
    refine ite_emb _ (Emb.err _) ?_
    apply Emb.bind (evalObjsL_emb hev C _); intro os
    simp only [measureEach_off, measure_off, ok_bind, limitLazy_off]
    exact Emb.bind (listFn_emb os) (fun parts => Emb.pure rfl)
  | dict =>
    dsimp only
    match args, kw with
    | [], kw =>
      dsimp only
      apply Emb.bind (evalPairsL_emb hev C _); intro ps
      simp only [id, measureAll_off, ok_bind]
      exact mkDictL_emb ps
    | [e], [] =>
      dsimp only
      apply Emb.bind (hev C _); intro o
      rw [toIterL_emb]
      cases h : Eval.toIter o with
      | none => rfl
      | some s =>
        obtain ⟨xs, e⟩ := s
        simp only [Option.map_some, bindIter_off c o h, ok_bind]
        cases e with
        | some er => rfl
        | none =>
          show Emb emb (do let ps ← dictItemsL c Lim.off [] xs; mkDictL ps)
            (do let ps ← xs.mapM pairOfE; Eval.mkDict ps)
          exact Emb.bind (dictItemsL_off c xs []) (fun ps => mkDictL_emb ps)
    | [_], _ :: _ => rfl
    | _ :: _ :: _, _ => rfl
  | len =>
    dsimp only
    refine ite_emb _ (Emb.err _) ?_
    match args with
    | [] => rfl
    | recv :: rest => exact fnAsMethod_emb c hev C _ recv _ rest
  | any =>
    dsimp only
    refine ite_emb _ (Emb.err _) ?_
    match args with
    | [] => rfl
    | recv :: rest => exact fnAsMethod_emb c hev C _ recv _ rest
  | all =>
    dsimp only
    refine ite_emb _ (Emb.err _) ?_
    match args with
    | [] => rfl
    | recv :: rest => exact fnAsMethod_emb c hev C _ recv _ rest
  | _ => rfl

theorem readVarL_emb (C : Ctx) (x : Name) : Emb emb (readVarL C x) (Eval.readVar C x) := by
  unfold readVarL Eval.readVar
  cases C.get x with
  | none => rfl
  | some v =>
    dsimp only
    split <;> rfl

theorem rawL_emb (c : ECfg) {evL : EvL} {ev : Ev} (hev : EmbEv evL ev) (C : Ctx) (e : Expr) :
    Emb emb (rawL c Lim.off evL C e) (Eval.step ev C e) := by
  cases e with
  | lit v => rfl
  | kw s => rfl
  | var x => exact readVarL_emb C x
  | list es =>
    unfold rawL Eval.step
    dsimp only
    apply Emb.bind (evalListL_emb hev C es); intro vs
    simp only [id, measureEach_off, measureAll_off, ok_bind]
    exact Emb.pure rfl
  | map kvs =>
    unfold rawL Eval.step
    dsimp only
    apply Emb.bind (evalPairsL_emb hev C kvs); intro ps
    simp only [id, measureAll_off, ok_bind]
    exact mkDictL_emb ps
  | index e args =>
    unfold rawL Eval.step
    dsimp only
    refine ite_emb _ ?_ (Emb.err _)
    apply Emb.bind (hev C e); intro r
    apply Emb.bind (evalListL_emb hev C args); intro vs
    exact indexerL_emb c r vs
  | un op e =>
    unfold rawL Eval.step
    dsimp only
    apply Emb.bind (hev C e); intro r
    exact unopL_emb c op r
  | bin op a b =>
    cases op with
    | and =>
      unfold rawL Eval.step
      dsimp only
      apply Emb.bind (hev C a); intro x
      rw [truthyObjL_emb]
      exact ite_emb _ (hev C b) (Emb.pure rfl)
    | or =>
      unfold rawL Eval.step
      dsimp only
      apply Emb.bind (hev C a); intro x
      rw [truthyObjL_emb]
      exact ite_emb _ (Emb.pure rfl) (hev C b)
    | _ =>
      unfold rawL Eval.step
      dsimp only
      refine ite_emb _ ?_ (Emb.err _)
      apply Emb.bind (hev C a); intro x
      apply Emb.bind (hev C b); intro y
      exact binopL_emb c _ x y
  | arrow l r =>
    unfold rawL Eval.step
    dsimp only
    apply Emb.bind (hev C l); intro cx
    cases cx with
    | ctx C' =>
      simp only [emb, measure_off, ok_bind]
      exact hev C' r
    | _ => rfl
  | member e name =>
    unfold rawL Eval.step
    dsimp only
    apply Emb.bind (hev C e); intro r
    exact memberOfL_emb c r name
  | call f args kw => exact callFnL_emb c hev C f args kw
  | ucall f args kw =>
    unfold rawL Eval.step
    dsimp only
    cases C.getFun (Eval.fnKey f) with
    | none => rfl
    | some p =>
      obtain ⟨body, D⟩ := p
      apply Emb.bind (Emb.liftR _); intro names
      apply Emb.bind (evalListL_emb hev C _); intro vs
      apply Emb.bind (evalListL_emb hev C _); intro kvs
      simp only [id, measureEach_off, ok_bind]
      exact hev _ _
  | method e f args kw =>
    unfold rawL Eval.step
    dsimp only
    apply Emb.bind (hev C e); intro r
    refine ite_emb _ (Emb.err _) ?_
    simp only [measure_off, ok_bind]
    exact callMethodL_emb c hev C _ r f args
  | umethod e f =>
    unfold rawL Eval.step
    dsimp only
    apply Emb.bind (hev C e); intro r
    simp only [measure_off, ok_bind]
    rfl

theorem stepL_off (c : ECfg) (evL : EvL) (C : Ctx) (e : Expr) : stepL c Lim.off evL C e = rawL c Lim.off evL C e := by
  unfold stepL
  split
  · rfl
  · cases rawL c Lim.off evL C e with
    | ok o => simp only [ok_bind, measure_off]; rfl
    | error er => rfl

/-- **without limits the instrumented interpreter is the reference interpreter** -/
theorem evalL_off (c : ECfg) : ∀ (n : Nat), EmbEv (evalL c Lim.off n) (Eval.eval n)
  | 0 => fun _ _ => rfl
  | n + 1 => fun C e => by
    show Emb emb (stepL c Lim.off (evalL c Lim.off n) C e) (Eval.step (Eval.eval n) C e)
    rw [stepL_off]
    exact rawL_emb c (evalL_off c n) C e

/-! ## the finaliser without limits -/

mutual
theorem walkV_off (c : ECfg) : ∀ v : Value, walkV c Lim.off v = .ok ()
  | .tuple l => by unfold walkV; simp only [measure_off, limitLen_off, ok_bind]; exact walkL_off c l
  | .list l => by unfold walkV; simp only [measure_off, limitLen_off, ok_bind]; exact walkL_off c l
  | .set l => by unfold walkV; simp only [measure_off, limitLen_off, ok_bind]; exact walkL_off c l
  | .iter l => by unfold walkV; simp only [measure_off, ok_bind]; exact walkL_off c l
  | .dict kvs => by unfold walkV; simp only [limitLen_off, ok_bind]; exact walkP_off c kvs
  | .null => rfl
  | .bool _ => rfl
  | .int _ => rfl
  | .flt _ => rfl
  | .str _ => rfl
  | .host _ => rfl
theorem walkL_off (c : ECfg) : ∀ xs : VL, walkL c Lim.off none xs = .ok ()
  | [] => rfl
  | x :: xs => by
    rw [walkL_cons c Lim.off none (by intro h; cases h), walkV_off c x]
    exact walkL_off c xs
theorem walkP_off (c : ECfg) : ∀ kvs : List (Value × Value), walkP c Lim.off kvs = .ok ()
  | [] => rfl
  | (k, v) :: r => by
    unfold walkP
    rw [walkV_off c k, walkV_off c v]
    exact walkP_off c r
end

theorem finVal_off (c : ECfg) (v : Value) :
    Emb id (finVal c Lim.off v) (if Seq.finOk v = true then .ok (Final.data v) else .error .type) := by
  unfold finVal
  simp only [measure_off, walkV_off, afterWalk, ok_bind]
  split <;> rfl

theorem finaliseL_off (c : ECfg) (o : Obj) : Emb id (finaliseL c Lim.off (emb o)) (Eval.finalise o) := by
  have iter : ∀ (o : Obj) (s : VL × Option Err), Eval.toIter o = some s →
      Emb id (do EvalLimits.measure Lim.off (objSz c (emb o)); let s ← bindIter c Lim.off (emb o); finIter c Lim.off s)
        (do let xs ← Eval.drain s; if Seq.finOkL xs then pure (Final.data (.list xs)) else .error .type) := by
    intro o s h
    obtain ⟨xs, e⟩ := s
    rw [measure_off, bindIter_off c o h]
    simp only [ok_bind]
    cases e with
    | some er => rfl
    | none =>
      show Emb id (finIter c Lim.off (xs, none)) _
      unfold finIter
      simp only
      rw [walkL_off]
      show Emb id (do afterWalk (Seq.finOkL xs) (.ok ()); _) _
      simp only [afterWalk, ok_bind]
      show Emb id _ (if Seq.finOkL xs = true then pure (Final.data (.list xs)) else .error .type)
      split
      · simp only [measure_off, ok_bind]; rfl
      · rfl
  cases o with
  | ctx cx => show Emb id (do EvalLimits.measure Lim.off _; pure Final.context) _; rw [measure_off]; rfl
  | lazy xs e => exact iter (.lazy xs e) (xs, e) rfl
  | ordered xs e => exact iter (.ordered xs e) (xs, e) rfl
  | val v =>
    cases v with
    | tuple l => exact iter (.val (.tuple l)) (l, none) rfl
    | list l => exact iter (.val (.list l)) (l, none) rfl
    | iter l => exact iter (.val (.iter l)) (l, none) rfl
    | null => exact finVal_off c .null
    | bool b => exact finVal_off c (.bool b)
    | int i => exact finVal_off c (.int i)
    | flt b => exact finVal_off c (.flt b)
    | str s => exact finVal_off c (.str s)
    | dict d => exact finVal_off c (.dict d)
    | set l => exact finVal_off c (.set l)
    | host i => exact finVal_off c (.host i)

/-- the whole run: `runL` without limits is `Eval.run` -/
theorem runL_off (c : ECfg) (fuel : Nat) (doc : Value) (e : Expr) :
    Emb id (runL c Lim.off fuel doc e) (Eval.run fuel doc e) := by
  unfold runL Eval.run
  apply Emb.bind (evalL_off c fuel _ _); intro o
  exact finaliseL_off c o

end Yaql.Props.C08Eval
