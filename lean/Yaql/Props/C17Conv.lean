import Yaql.Props.C17
import Yaql.Model.ContextHist
import Yaql.Model.RegistryRow
/-!
C17, naming conventions and read purity.

* function collection WITH `use_convention`: every plain context reached converts the requested
  name by its own convention, and the result is again the layer-by-layer collection of the
  statement over the layer list (`collectU_refines`); with `use_convention=False`, without
  conventions, or on a chain with ONE convention the lookup is the literal lookup of the
  (converted) name (`collectU_off`, `collectU_no_convention`, `collectU_uniform`);
* function lookups are a function of what `register_function` / `delete_function` wrote and of
  the conventions - nothing else (`collectU_congr`, `data_writes_invisible`);
* READ PURITY over histories: a read leaves the state alone, so inserting or removing reads
  anywhere in a history changes neither the state nor the answer of any other read
  (`hrun_erase_reads`, `read_insertion_invisible`, `last_read_depends_on_writes`);
* the contrasting design - a layer that remembers how it resolved a requested name, keyed by the
  name alone - is NOT pure (`Ex.memo_reads_not_pure`).
-/
namespace Yaql.Props.C17Conv
open Yaql.Context Yaql.Props.C17

/-! ## the layer list under a convention flag -/

/-- the layer one plain context contributes when asked with `use_convention = uc` -/
def cellLayerU (cv : Convs) (uc : Bool) (c : Nat) (cell : Cell) : Layer :=
  { data := fun n => alookup n cell.data,
    funcs := fun n => cellFuncs cell (lookupName cv uc c n),
    excl := fun n => cell.excl.contains (lookupName cv uc c n) }

mutual
def ownLayerU (cs : Cells) (cv : Convs) (uc : Bool) : Shape → Layer
  | .plain c _ => cellLayerU cv uc c (cs.get c)
  | .multi ms _ => ownLayerUL cs cv uc ms
  | .linked t _ => ownLayerU cs cv uc t
def ownLayerUL (cs : Cells) (cv : Convs) (uc : Bool) : List Shape → Layer
  | [] => Layer.empty
  | m :: ms => (ownLayerU cs cv uc m).merge (ownLayerUL cs cv uc ms)
end

mutual
def layersU (cs : Cells) (cv : Convs) (uc : Bool) : Shape → List Layer
  | .plain c p => cellLayerU cv uc c (cs.get c) :: layersUO cs cv uc p
  | .multi ms p => ownLayerUL cs cv uc ms :: layersUO cs cv uc p
  | .linked t p => ownLayerU cs cv uc t :: layersUO cs cv uc p
def layersUO (cs : Cells) (cv : Convs) (uc : Bool) : Option Shape → List Layer
  | none => []
  | some s => layersU cs cv uc s
end

mutual
theorem getFunctionsU_own (cs : Cells) (cv : Convs) (uc : Bool) (n : Name) :
    ∀ s, getFunctionsU cs cv uc n s = ((ownLayerU cs cv uc s).funcs n, (ownLayerU cs cv uc s).excl n)
  | .plain c p => by simp [getFunctionsU, ownLayerU, cellLayerU]
  | .multi ms p => by simp [getFunctionsU, ownLayerU, getFunctionsUL_own cs cv uc n ms]
  | .linked t p => by simp [getFunctionsU, ownLayerU, getFunctionsU_own cs cv uc n t]
theorem getFunctionsUL_own (cs : Cells) (cv : Convs) (uc : Bool) (n : Name) :
    ∀ ms, getFunctionsUL cs cv uc n ms =
      ((ownLayerUL cs cv uc ms).funcs n, (ownLayerUL cs cv uc ms).excl n)
  | [] => by simp [getFunctionsUL, ownLayerUL, Layer.empty]
  | m :: ms => by
      simp [getFunctionsUL, ownLayerUL, Layer.merge, getFunctionsU_own cs cv uc n m,
        getFunctionsUL_own cs cv uc n ms]
end

mutual
theorem collectAtU_refines (cs : Cells) (cv : Convs) (uc : Bool) (n : Name) :
    ∀ s, collectAtU cs cv uc n s = collectSpec n (layersU cs cv uc s)
  | .plain c p => by
      simp [collectAtU, layersU, collectSpec, cellLayerU, collectFromU_refines cs cv uc n p]
  | .multi ms p => by
      simp [collectAtU, layersU, collectSpec, getFunctionsUL_own, collectFromU_refines cs cv uc n p]
  | .linked t p => by
      simp [collectAtU, layersU, collectSpec, getFunctionsU_own, collectFromU_refines cs cv uc n p]
theorem collectFromU_refines (cs : Cells) (cv : Convs) (uc : Bool) (n : Name) :
    ∀ o, collectFromU cs cv uc n o = collectSpec n (layersUO cs cv uc o)
  | none => by simp [collectFromU, layersUO, collectSpec]
  | some s => by simp [collectFromU, layersUO, collectAtU_refines cs cv uc n s]
end

/-- **function collection under a convention flag** is the collection of the statement (nearest
    layer first, empty layers dropped, stop after an exclusive layer) over the layer list in which
    every plain context answers under the name ITS OWN convention makes of the requested one -/
theorem collectU_refines (cs : Cells) (cv : Convs) (s : Shape) (name : Name) (uc : Bool) :
    collectFunctionsU cs cv s name uc = collectSpec (rstripUnderscore name) (layersU cs cv uc s) := by
  simp [collectFunctionsU, collectFromU, collectAtU_refines]

/-! ## when the convention lookup is a literal lookup -/

mutual
theorem getFunctionsU_key (cs : Cells) (cv : Convs) (uc : Bool) (n k : Name) :
    ∀ s, (∀ c ∈ delCells s, lookupName cv uc c n = k) →
      getFunctionsU cs cv uc n s = getFunctions cs k s
  | .plain c p, h => by
      have := h c (by simp [delCells])
      simp [getFunctionsU, getFunctions, this]
  | .multi ms p, h => by
      simpa [getFunctionsU, getFunctions] using getFunctionsUL_key cs cv uc n k ms (by simpa [delCells] using h)
  | .linked t p, h => by
      simpa [getFunctionsU, getFunctions] using getFunctionsU_key cs cv uc n k t (by simpa [delCells] using h)
theorem getFunctionsUL_key (cs : Cells) (cv : Convs) (uc : Bool) (n k : Name) :
    ∀ ms, (∀ c ∈ delCellsL ms, lookupName cv uc c n = k) →
      getFunctionsUL cs cv uc n ms = getFunctionsL cs k ms
  | [], _ => by simp [getFunctionsUL, getFunctionsL]
  | m :: ms, h => by
      have h1 := getFunctionsU_key cs cv uc n k m (fun c hc => h c (by simp [delCellsL, hc]))
      have h2 := getFunctionsUL_key cs cv uc n k ms (fun c hc => h c (by simp [delCellsL, hc]))
      simp [getFunctionsUL, getFunctionsL, h1, h2]
end

mutual
theorem collectAtU_key (cs : Cells) (cv : Convs) (uc : Bool) (n k : Name) :
    ∀ s, (∀ c ∈ cellsOf s, lookupName cv uc c n = k) → collectAtU cs cv uc n s = collectAt cs k s
  | .plain c p, h => by
      have h0 := h c (by simp [cellsOf])
      have hp := collectFromU_key cs cv uc n k p (fun c hc => h c (by simp [cellsOf, hc]))
      simp [collectAtU, collectAt, h0, hp]
  | .multi ms p, h => by
      have h0 := getFunctionsUL_key cs cv uc n k ms (fun c hc => h c (by simp [cellsOf, hc]))
      have hp := collectFromU_key cs cv uc n k p (fun c hc => h c (by simp [cellsOf, hc]))
      simp [collectAtU, collectAt, h0, hp]
  | .linked t p, h => by
      have h0 := getFunctionsU_key cs cv uc n k t (fun c hc => h c (by simp [cellsOf, hc]))
      have hp := collectFromU_key cs cv uc n k p (fun c hc => h c (by simp [cellsOf, hc]))
      simp [collectAtU, collectAt, h0, hp]
theorem collectFromU_key (cs : Cells) (cv : Convs) (uc : Bool) (n k : Name) :
    ∀ o, (∀ c ∈ cellsOfO o, lookupName cv uc c n = k) → collectFromU cs cv uc n o = collectFrom cs k o
  | none, _ => by simp [collectFromU, collectFrom]
  | some s, h => by
      simpa [collectFromU, collectFrom] using collectAtU_key cs cv uc n k s (by simpa [cellsOfO] using h)
end

/-- `use_convention=False`: conventions play no role, the lookup is the literal one of C17 -/
theorem collectU_off (cs : Cells) (cv : Convs) (s : Shape) (name : Name) :
    collectFunctionsU cs cv s name false = collectFunctions cs s name := by
  simpa [collectFunctionsU, collectFunctions, collectFromU, collectFrom] using
    collectAtU_key cs cv false _ _ s (fun c _ => by simp [lookupName])

theorem getFunctionsU_off (cs : Cells) (cv : Convs) (n : Name) (s : Shape) :
    getFunctionsU cs cv false n s = getFunctions cs n s :=
  getFunctionsU_key cs cv false n n s (fun c _ => by simp [lookupName])

/-- no reachable context has a convention: `use_convention` makes no difference -/
theorem collectU_no_convention (cs : Cells) (cv : Convs) (s : Shape) (name : Name) (uc : Bool)
    (h : ∀ c ∈ cellsOf s, cv.get c = none) :
    collectFunctionsU cs cv s name uc = collectFunctions cs s name := by
  simpa [collectFunctionsU, collectFunctions, collectFromU, collectFrom] using
    collectAtU_key cs cv uc _ _ s (fun c hc => by simp [lookupName, h c hc])

/-- every reachable context has the convention `f` (a tree made by `yaql.create_context()` and
    its children): the convention lookup of `name` is the literal lookup of `f(name.rstrip('_'))`
    - in EVERY layer, whatever was looked up before -/
theorem collectU_uniform (cs : Cells) (cv : Convs) (s : Shape) (name : Name) (f : Conv)
    (h : ∀ c ∈ cellsOf s, cv.get c = some f) :
    collectFunctionsU cs cv s name true = collectFrom cs (f (rstripUnderscore name)) (some s) := by
  simpa [collectFunctionsU, collectFromU, collectFrom] using
    collectAtU_key cs cv true _ _ s (fun c hc => by simp [lookupName, h c hc])

/-! ## function lookups depend on the registrations only -/

/-- two cell tables agree on what `register_function` / `delete_function` write -/
def SameFuncs (cs cs' : Cells) : Prop :=
  ∀ c, (cs'.get c).funcs = (cs.get c).funcs ∧ (cs'.get c).excl = (cs.get c).excl

mutual
theorem getFunctionsU_congr {cs cs' : Cells} (h : SameFuncs cs cs') (cv : Convs) (uc : Bool) (n : Name) :
    ∀ s, getFunctionsU cs' cv uc n s = getFunctionsU cs cv uc n s
  | .plain c p => by simp [getFunctionsU, cellFuncs, (h c).1, (h c).2]
  | .multi ms p => by simp [getFunctionsU, getFunctionsUL_congr h cv uc n ms]
  | .linked t p => by simp [getFunctionsU, getFunctionsU_congr h cv uc n t]
theorem getFunctionsUL_congr {cs cs' : Cells} (h : SameFuncs cs cs') (cv : Convs) (uc : Bool) (n : Name) :
    ∀ ms, getFunctionsUL cs' cv uc n ms = getFunctionsUL cs cv uc n ms
  | [] => by simp [getFunctionsUL]
  | m :: ms => by
      simp [getFunctionsUL, getFunctionsU_congr h cv uc n m, getFunctionsUL_congr h cv uc n ms]
end

mutual
theorem collectAtU_congr {cs cs' : Cells} (h : SameFuncs cs cs') (cv : Convs) (uc : Bool) (n : Name) :
    ∀ s, collectAtU cs' cv uc n s = collectAtU cs cv uc n s
  | .plain c p => by
      have hf : ∀ k, cellFuncs (cs'.get c) k = cellFuncs (cs.get c) k := fun k => by
        simp [cellFuncs, (h c).1]
      simp only [collectAtU, hf, (h c).2, collectFromU_congr h cv uc n p]
  | .multi ms p => by
      simp [collectAtU, getFunctionsUL_congr h cv uc n ms, collectFromU_congr h cv uc n p]
  | .linked t p => by
      simp [collectAtU, getFunctionsU_congr h cv uc n t, collectFromU_congr h cv uc n p]
theorem collectFromU_congr {cs cs' : Cells} (h : SameFuncs cs cs') (cv : Convs) (uc : Bool) (n : Name) :
    ∀ o, collectFromU cs' cv uc n o = collectFromU cs cv uc n o
  | none => by simp [collectFromU]
  | some s => by simp [collectFromU, collectAtU_congr h cv uc n s]
end

/-- **results depend only on registrations**: two states whose cells hold the same overload
    tables and exclusive names answer every function lookup alike, from every context, for both
    values of `use_convention` -/
theorem collectU_congr {cs cs' : Cells} (h : SameFuncs cs cs') (cv : Convs) (s : Shape) (name : Name)
    (uc : Bool) : collectFunctionsU cs' cv s name uc = collectFunctionsU cs cv s name uc := by
  simp [collectFunctionsU, collectFromU, collectAtU_congr h]

theorem modify_data_sameFuncs (cs : Cells) (c : Nat) (g : List (Name × Val) → List (Name × Val)) :
    SameFuncs cs (modifyCell cs c fun cell => { cell with data := g cell.data }) := by
  intro c'
  by_cases hc : c' = c
  · subst hc
    by_cases hl : c' < cs.length
    · simp [get_modify_eq _ _ _ hl]
    · simp [modifyCell, hl]
  · simp [get_modify_ne _ _ _ _ hc]

/-- assigning a variable changes no function lookup -/
theorem data_writes_invisible (cs : Cells) (cv : Convs) (s t : Shape) (v : Name) (x : Val)
    (name : Name) (uc : Bool) :
    collectFunctionsU (setData cs t v x) cv s name uc = collectFunctionsU cs cv s name uc := by
  apply collectU_congr
  unfold setData
  cases writeCell t with
  | none => intro c; simp
  | some c => exact modify_data_sameFuncs cs c _

/-! ## read purity over histories -/

theorem hstep_read (st : HSt) (q : Query) : hstep st (.read q) = (st, .ok) := rfl

/-- reads can be erased from a history: the state reached is that of the writes alone -/
theorem hrun_erase_reads : ∀ (ops : List HOp) (st : HSt),
    hrun st ops = hrun st (ops.filter fun o => !o.isRead)
  | [], _ => rfl
  | op :: r, st => by
      cases op <;>
        simp [hrun, List.foldl_cons, HOp.isRead, hstep_read] <;>
        exact hrun_erase_reads r _

theorem hrun_append (st : HSt) (a b : List HOp) : hrun st (a ++ b) = hrun (hrun st a) b := by
  simp [hrun, List.foldl_append]

theorem transcript_append : ∀ (a b : List HOp) (st : HSt),
    transcript st (a ++ b) = transcript st a ++ transcript (hrun st a) b
  | [], b, st => by simp [transcript, hrun]
  | op :: r, b, st => by
      cases op <;>
        simp [transcript, hrun, List.foldl_cons] <;>
        exact transcript_append r b _

/-- **a read inserted anywhere in a history is invisible to every other read**: the answers
    before it and after it are the ones the history without it gives -/
theorem read_insertion_invisible (st : HSt) (a b : List HOp) (q : Query) :
    transcript st (a ++ .read q :: b) =
      transcript st a ++ answer (hrun st a) q :: transcript (hrun st a) b ∧
    transcript st (a ++ b) = transcript st a ++ transcript (hrun st a) b := by
  refine ⟨?_, transcript_append a b st⟩
  rw [transcript_append]
  simp [transcript]

/-- **the answer of a read is a function of the writes before it**: whatever reads - of either
    `use_convention` value, in whatever order, from whatever contexts - came before -/
theorem last_read_depends_on_writes (st : HSt) (a : List HOp) (q : Query) :
    transcript st (a ++ [.read q]) =
      transcript st a ++ [answer (hrun st (a.filter fun o => !o.isRead)) q] := by
  rw [transcript_append, ← hrun_erase_reads]
  simp [transcript]

/-- two histories with the same writes (the reads may differ at will) end in the same state and
    answer every later read alike -/
theorem same_writes_same_answers (st : HSt) (a a' : List HOp) (q : Query)
    (h : (a.filter fun o => !o.isRead) = (a'.filter fun o => !o.isRead)) :
    hrun st a = hrun st a' ∧ answer (hrun st a) q = answer (hrun st a') q := by
  have : hrun st a = hrun st a' := by rw [hrun_erase_reads a, hrun_erase_reads a', h]
  exact ⟨this, by rw [this]⟩

/-! ## non-vacuity and the contrasting design -/

namespace Ex
open Yaql.Registry (toCamel)

def fooBar_ : Name := "foo_bar".toList
def fooBar : Name := "fooBar".toList

/-- a root with the CamelCase convention, a child of it, one overload under each spelling in the
    root, the camel one registered exclusively in the child -/
def setup : List HOp :=
  [.plain none (some toCamel), .child 0,
   .reg 0 fooBar 1 false, .reg 0 fooBar_ 2 false, .reg 1 fooBar 3 true]

def st : HSt := hrun {} setup

/-- literal and convention lookups of `foo_bar` answer from DIFFERENT tables, each layer under its
    own (here inherited) convention; the exclusive `fooBar` of the child stops the convention walk -/
example : answer st (.collect 1 fooBar_ false) = .layers [[2]] ∧
    answer st (.collect 1 fooBar_ true) = .layers [[3]] ∧
    answer st (.collect 0 fooBar_ true) = .layers [[1]] ∧
    answer st (.collect 0 ("foo_bar__".toList) true) = .layers [[1]] ∧
    answer st (.getFunctions 1 fooBar_ true) = .funcs [3] true ∧
    answer st (.getFunctions 1 fooBar_ false) = .funcs [] false := by decide +kernel

/-- a context without convention below a context with one: each layer converts for itself -/
example :
    let st := hrun {} [.plain none (some toCamel), .plain none none, .linked (some 0) 1 none,
                       .reg 0 fooBar 1 false, .reg 1 fooBar_ 2 false, .reg 1 fooBar 3 false]
    answer st (.collect 2 fooBar_ true) = .layers [[2], [1]] ∧
    answer st (.collect 2 fooBar_ false) = .layers [[2]] := by decide +kernel

def lookBoth : List HOp := [.read (.getFunctions 0 fooBar_ true), .read (.getFunctions 0 fooBar_ false)]

/-- the pure model: each read answers for itself, in both orders -/
example : transcript st lookBoth = [.funcs [1] false, .funcs [2] false] ∧
    transcript st lookBoth.reverse = [.funcs [2] false, .funcs [1] false] := by decide +kernel

/-- **the memoising design is not pure**: the first lookup of a name in a layer decides what every
    later lookup of that name returns there, so the same read gives different answers depending on
    the reads made before it - `read_insertion_invisible` fails for it -/
theorem memo_reads_not_pure :
    Memo.transcript { st := st } lookBoth = [.funcs [1] false, .funcs [1] false] ∧
    Memo.transcript { st := st } lookBoth.reverse = [.funcs [2] false, .funcs [2] false] ∧
    Memo.transcript { st := st } [.read (.getFunctions 0 fooBar_ false)] = [.funcs [2] false] := by
  decide +kernel

end Ex

end Yaql.Props.C17Conv
