import Yaql.Props.C02
import Yaql.Props.C02Gen
/-!
# C02, chains of ANY length

`x0 op1 x1 op2 x2 ... opn xn` where all operators sit on ONE ply level: the tree is left-deep when the level is a
'left' row and right-deep when it is a 'right' row - for every number of operands (there is no length from which on the
grouping may change), for every table, and with arbitrary operands that are closed against the level (`Fits`).
`no_right_nesting` / `no_left_nesting`: a tree that nests the other way anywhere is not `WF`, so a re-balanced chain is
never the dictated tree.
-/
namespace Yaql.Props.C02Chain
open Yaql.Syntax Yaql.OpTable Yaql.Props.C02

/-- one link of a chain: operator symbol, the alias the parser attaches, the operand that follows -/
abbrev Link := Str × Ast

/-- `((x0 op1 x1) op2 x2) ...` -/
def leftChain (c : Cfg) : Ast → List Link → Ast
  | acc, [] => acc
  | acc, (sym, x) :: xs =>
      leftChain c (.binary sym (match c.opRec sym with | some o => o.alias | none => none) acc x) xs

/-- `x0 op1 (x1 op2 (x2 ...))`; the chain is given as (operand, operator)* last -/
def rightChain (c : Cfg) : List (Ast × Str) → Ast → Ast
  | [], last => last
  | (x, sym) :: xs, last =>
      .binary sym (match c.opRec sym with | some o => o.alias | none => none) x (rightChain c xs last)

/-- the flat spelling -/
def leftToks (c : Cfg) (x0 : Ast) (xs : List Link) : List Token :=
  yield c x0 ++ xs.flatMap (fun l => tOp l.1 :: yield c l.2)

def rightToks (c : Cfg) (xs : List (Ast × Str)) (last : Ast) : List Token :=
  xs.flatMap (fun l => yield c l.1 ++ [tOp l.2]) ++ yield c last

/-- an operand that is closed against the level `p`: a value, itself as the table dictates, every operator open at its
right edge closes before a token of level `p`, and no postfix operation along its left edge is captured by a rule of
level `p` (leaves, parenthesised expressions, calls, lists, tighter operators) -/
def Fits (c : Cfg) (p : Prec) (x : Ast) : Prop :=
  isValue x = true ∧ WFn c x ∧ (∀ ρ ∈ rsr c x, reduceOver ρ p = true) ∧ (∀ q ∈ lsp c x, reduceOver p q = false)

/-- the operator is a binary operator of the table whose token has precedence `p` -/
def OnLevel (c : Cfg) (p : Prec) (sym : Str) : Prop :=
  ∃ o, c.opRec sym = some o ∧ o.bp ≠ 0 ∧ c.tokPrec o = p

theorem leftChain_yield (c : Cfg) : ∀ (xs : List Link) (acc : Ast),
    yield c (leftChain c acc xs) = leftToks c acc xs
  | [], acc => by simp [leftChain, leftToks]
  | (sym, x) :: xs, acc => by
      rw [leftChain, leftChain_yield c xs]
      simp [leftToks, yield, List.append_assoc]

theorem rightChain_yield (c : Cfg) : ∀ (xs : List (Ast × Str)) (last : Ast),
    yield c (rightChain c xs last) = rightToks c xs last
  | [], last => by simp [rightChain, rightToks]
  | (x, sym) :: xs, last => by
      rw [rightChain, yield, rightChain_yield c xs]
      simp [rightToks, List.append_assoc]

/-- a 'left' level: the left-deep tree is `WF`, whatever the length -/
theorem leftChain_wf (c : Cfg) (p : Prec) (hl : reduceOver p p = true) :
    ∀ (xs : List Link) (acc : Ast), isValue acc = true → WFn c acc → (∀ ρ ∈ rsr c acc, reduceOver ρ p = true) →
      (∀ l ∈ xs, OnLevel c p l.1 ∧ Fits c p l.2) → WF c (leftChain c acc xs)
  | [], acc, hv, hw, _, _ => ⟨hv, hw⟩
  | (sym, x) :: xs, acc, hv, hw, hr, hx => by
      obtain ⟨⟨o, ho, hb, hp⟩, hxv, hxw, hxr, hxl⟩ := hx (sym, x) (List.mem_cons_self ..)
      rw [leftChain]
      apply leftChain_wf c p hl xs
      · rfl
      · simp only [WFn, ho]
        exact ⟨o, rfl, hb, rfl, hv, hxv, hw, hxw, by rw [hp]; exact hr, by rw [hp]; exact hxl⟩
      · intro ρ hρ
        rw [rsr_binary ho, hp] at hρ
        rcases List.mem_cons.mp hρ with h | h
        · rw [h]; exact hl
        · exact hxr ρ h
      · intro l hlm
        exact hx l (List.mem_cons_of_mem _ hlm)

/-- a 'right' level: the right-deep tree is `WF`, whatever the length -/
theorem rightChain_wf (c : Cfg) (p : Prec) (hr : reduceOver p p = false) :
    ∀ (xs : List (Ast × Str)) (last : Ast), Fits c p last →
      (∀ l ∈ xs, OnLevel c p l.2 ∧ Fits c p l.1) →
      isValue (rightChain c xs last) = true ∧ WFn c (rightChain c xs last) ∧
        (∀ q ∈ lsp c (rightChain c xs last), reduceOver p q = false)
  | [], last, hlast, _ => ⟨hlast.1, hlast.2.1, hlast.2.2.2⟩
  | (x, sym) :: xs, last, hlast, hx => by
      obtain ⟨⟨o, ho, hb, hp⟩, hxv, hxw, hxr, hxl⟩ := hx (x, sym) (List.mem_cons_self ..)
      obtain ⟨tv, tw, tl⟩ := rightChain_wf c p hr xs last hlast (fun l hlm => hx l (List.mem_cons_of_mem _ hlm))
      refine ⟨rfl, ?_, ?_⟩
      · simp only [rightChain, WFn, ho]
        exact ⟨o, rfl, hb, rfl, hxv, tv, hxw, tw, by rw [hp]; exact hxr, by rw [hp]; exact tl⟩
      · intro q hq
        rw [rightChain, lsp_binary ho, hp] at hq
        rcases List.mem_cons.mp hq with h | h
        · rw [h]; exact hr
        · exact hxl q h

/-- **long chains, 'left' level**: for EVERY number of links the parser returns the left-deep tree -/
theorem parse_leftChain (c : Cfg) (hna : NoAmb c) (p : Prec) (hl : reduceOver p p = true) (x0 : Ast) (xs : List Link)
    (h0 : Fits c p x0) (hx : ∀ l ∈ xs, OnLevel c p l.1 ∧ Fits c p l.2) :
    parse c (leftToks c x0 xs) = .ok (leftChain c x0 xs) := by
  rw [← leftChain_yield]
  exact parse_roundtrip c hna _ (leftChain_wf c p hl xs x0 h0.1 h0.2.1 h0.2.2.1 hx)

/-- **long chains, 'right' level**: for EVERY number of links the parser returns the right-deep tree -/
theorem parse_rightChain (c : Cfg) (hna : NoAmb c) (p : Prec) (hr : reduceOver p p = false) (xs : List (Ast × Str))
    (last : Ast) (hlast : Fits c p last) (hx : ∀ l ∈ xs, OnLevel c p l.2 ∧ Fits c p l.1) :
    parse c (rightToks c xs last) = .ok (rightChain c xs last) := by
  rw [← rightChain_yield]
  obtain ⟨v, w, _⟩ := rightChain_wf c p hr xs last hlast hx
  exact parse_roundtrip c hna _ ⟨v, w⟩

/-- on a 'left' level no `WF` tree has an operator of the level as the root of a RIGHT operand of an operator of the
level (so no re-balanced chain, however long, is the dictated tree) -/
theorem no_right_nesting (c : Cfg) (p : Prec) (hl : reduceOver p p = true) {s1 s2 : Str} {a1 a2 : Option Str} {l r1 r2 : Ast}
    (h1 : OnLevel c p s1) (h2 : OnLevel c p s2) : ¬ WFn c (.binary s1 a1 l (.binary s2 a2 r1 r2)) := by
  intro h
  obtain ⟨o1, ho1, _, hp1⟩ := h1
  obtain ⟨o2, ho2, _, hp2⟩ := h2
  simp only [WFn] at h
  obtain ⟨o, ho, _, _, _, _, _, _, _, hlsp⟩ := h
  rw [ho1] at ho
  injection ho with ho
  subst ho
  have := hlsp p (by rw [lsp_binary ho2, hp2]; exact List.mem_cons_self ..)
  rw [hp1, hl] at this
  cases this

/-- on a 'right' level no `WF` tree has an operator of the level as the root of a LEFT operand of an operator of the level -/
theorem no_left_nesting (c : Cfg) (p : Prec) (hr : reduceOver p p = false) {s1 s2 : Str} {a1 a2 : Option Str} {l1 l2 r : Ast}
    (h1 : OnLevel c p s1) (h2 : OnLevel c p s2) : ¬ WFn c (.binary s1 a1 (.binary s2 a2 l1 l2) r) := by
  intro h
  obtain ⟨o1, ho1, _, hp1⟩ := h1
  obtain ⟨o2, ho2, _, hp2⟩ := h2
  simp only [WFn] at h
  obtain ⟨o, ho, _, _, _, _, _, _, hrsr, _⟩ := h
  rw [ho1] at ho
  injection ho with ho
  subst ho
  have := hrsr p (by rw [rsr_binary ho2, hp2]; exact List.mem_cons_self ..)
  rw [hp1, hr] at this
  cases this

/-! ## non-vacuity on the demo table (`+ -` share the 'left' level 3, `->` is the 'right' level 1) -/

theorem fits_leaf (c : Cfg) (p : Prec) (v : TokVal) : Fits c p (.getContextValue v) :=
  ⟨rfl, by simp [WFn], by simp [rsr], by simp [lsp]⟩

theorem fits_number (c : Cfg) (p : Prec) (v : TokVal) : Fits c p (.const .number v) :=
  ⟨rfl, by simp [WFn], by simp [rsr], by simp [lsp]⟩

def plusLevel : Prec := demoCfg.tokPrec ⟨0, 4, ['P'], none⟩
def arrowLevel : Prec := demoCfg.tokPrec ⟨0, -6, ['R'], none⟩

theorem plus_onLevel : OnLevel demoCfg plusLevel ['+'] := ⟨⟨0, 4, ['P'], none⟩, by decide, by decide, rfl⟩
theorem minus_onLevel : OnLevel demoCfg plusLevel ['-'] := ⟨⟨2, 4, ['M'], none⟩, by decide, by decide, by decide⟩
theorem arrow_onLevel : OnLevel demoCfg arrowLevel ['-', '>'] := ⟨⟨0, -6, ['R'], none⟩, by decide, by decide, rfl⟩

/-- a chain `$a + 1 - $a + 1 - ...` with 2n links parses left-deep, for every n -/
theorem demo_left (n : Nat) :
    parse demoCfg (leftToks demoCfg va ((List.replicate n [(['+'], n1), (['-'], va)]).flatten)) =
      .ok (leftChain demoCfg va ((List.replicate n [(['+'], n1), (['-'], va)]).flatten)) := by
  apply parse_leftChain demoCfg demo_noAmb plusLevel (by decide) va _ (fits_leaf ..)
  intro l hl
  obtain ⟨b, hb, hlb⟩ := List.mem_flatten.mp hl
  rw [List.eq_of_mem_replicate hb] at hlb
  rcases List.mem_cons.mp hlb with h | h
  · rw [h]; exact ⟨plus_onLevel, fits_number ..⟩
  · rw [List.mem_singleton.mp h]; exact ⟨minus_onLevel, fits_leaf ..⟩

/-- a chain `1 -> 1 -> ... -> $a` with n links parses right-deep, for every n -/
theorem demo_right (n : Nat) :
    parse demoCfg (rightToks demoCfg (List.replicate n (n1, ['-', '>'])) va) =
      .ok (rightChain demoCfg (List.replicate n (n1, ['-', '>'])) va) := by
  apply parse_rightChain demoCfg demo_noAmb arrowLevel (by decide) _ va (fits_leaf ..)
  intro l hl
  rw [List.eq_of_mem_replicate hl]
  exact ⟨arrow_onLevel, fits_number ..⟩

/-- the chain theorems talk about real trees: 9 operands give the 8-fold left-nested tree, and the balanced regrouping
of the same operands is not `WF` -/
example : leftChain demoCfg va ((List.replicate 1 [(['+'], n1), (['-'], va)]).flatten) =
    .binary ['-'] none (.binary ['+'] none va n1) va := by rfl

example : ¬ WF demoCfg (.binary ['+'] none (.binary ['+'] none va n1) (.binary ['+'] none va n1)) :=
  fun h => no_right_nesting demoCfg plusLevel (by decide) plus_onLevel plus_onLevel h.2

/-! ## one operator repeated; the live tables -/

theorem reduceOver_self (p : Prec) : reduceOver p p = p.left := by simp [reduceOver]

/-- `x0 op x1 op ... op xn` for a binary operator on a 'left' row: left-deep for every n -/
theorem parse_repeat_left (c : Cfg) (hna : NoAmb c) {sym : Str} {o : OpRec} (ho : c.opRec sym = some o) (hb : o.bp ≠ 0)
    (hl : (c.tokPrec o).left = true) (x0 : Ast) (xs : List Ast) (h0 : Fits c (c.tokPrec o) x0)
    (hx : ∀ x ∈ xs, Fits c (c.tokPrec o) x) :
    parse c (leftToks c x0 (xs.map fun x => (sym, x))) = .ok (leftChain c x0 (xs.map fun x => (sym, x))) := by
  apply parse_leftChain c hna (c.tokPrec o) (by rw [reduceOver_self]; exact hl) x0 _ h0
  intro l hlm
  obtain ⟨x, hxm, rfl⟩ := List.mem_map.mp hlm
  exact ⟨⟨o, ho, hb, rfl⟩, hx x hxm⟩

/-- ... and on a 'right' row: right-deep for every n -/
theorem parse_repeat_right (c : Cfg) (hna : NoAmb c) {sym : Str} {o : OpRec} (ho : c.opRec sym = some o) (hb : o.bp ≠ 0)
    (hr : (c.tokPrec o).left = false) (xs : List Ast) (last : Ast) (hlast : Fits c (c.tokPrec o) last)
    (hx : ∀ x ∈ xs, Fits c (c.tokPrec o) x) :
    parse c (rightToks c (xs.map fun x => (x, sym)) last) = .ok (rightChain c (xs.map fun x => (x, sym)) last) := by
  apply parse_rightChain c hna (c.tokPrec o) (by rw [reduceOver_self]; exact hr) _ last hlast
  intro l hlm
  obtain ⟨x, hxm, rfl⟩ := List.mem_map.mp hlm
  exact ⟨⟨o, ho, hb, rfl⟩, hx x hxm⟩

def leftBinaryB (c : Cfg) (sym : Str) : Bool :=
  match c.opRec sym with
  | some o => decide (o.bp ≠ 0) && (c.tokPrec o).left
  | none => false

theorem leftBinary_spec {c : Cfg} {sym : Str} (h : leftBinaryB c sym = true) :
    ∃ o, c.opRec sym = some o ∧ o.bp ≠ 0 ∧ (c.tokPrec o).left = true := by
  unfold leftBinaryB at h
  split at h
  · rename_i o ho
    simp only [Bool.and_eq_true, decide_eq_true_eq] at h
    exact ⟨o, ho, h.1, h.2⟩
  · cases h

section live
open Yaql.Gen.OpTables Yaql.Props.C02Gen

def sAnd : Str := ['a', 'n', 'd']
def sOr : Str := ['o', 'r']

/-- in the LIVE default and legacy tables `and` and `or` are binary operators on 'left' rows -/
theorem live_and_or_left :
    leftBinaryB (Cfg.ofTable defaultTable false) sAnd = true ∧ leftBinaryB (Cfg.ofTable defaultTable false) sOr = true ∧
    leftBinaryB (Cfg.ofTable legacyTable false) sAnd = true ∧ leftBinaryB (Cfg.ofTable legacyTable false) sOr = true := by
  decide +kernel

/-- the live default engine: `$x0 and $x1 and ... and $xn` is `((($x0 and $x1) and $x2) ...)` for EVERY n -/
theorem default_and_chain (x0 : TokVal) (xs : List TokVal) :
    parse (Cfg.ofTable defaultTable false)
        (leftToks (Cfg.ofTable defaultTable false) (.getContextValue x0) (xs.map fun v => (sAnd, .getContextValue v))) =
      .ok (leftChain (Cfg.ofTable defaultTable false) (.getContextValue x0) (xs.map fun v => (sAnd, .getContextValue v))) := by
  obtain ⟨o, ho, hb, hl⟩ := leftBinary_spec live_and_or_left.1
  have := parse_repeat_left _ live_no_amb.1 ho hb hl (.getContextValue x0) (xs.map .getContextValue) (fits_leaf ..)
    (by intro x hx; obtain ⟨v, _, rfl⟩ := List.mem_map.mp hx; exact fits_leaf ..)
  simpa [List.map_map, Function.comp_def] using this

theorem default_or_chain (x0 : TokVal) (xs : List TokVal) :
    parse (Cfg.ofTable defaultTable false)
        (leftToks (Cfg.ofTable defaultTable false) (.getContextValue x0) (xs.map fun v => (sOr, .getContextValue v))) =
      .ok (leftChain (Cfg.ofTable defaultTable false) (.getContextValue x0) (xs.map fun v => (sOr, .getContextValue v))) := by
  obtain ⟨o, ho, hb, hl⟩ := leftBinary_spec live_and_or_left.2.1
  have := parse_repeat_left _ live_no_amb.1 ho hb hl (.getContextValue x0) (xs.map .getContextValue) (fits_leaf ..)
    (by intro x hx; obtain ⟨v, _, rfl⟩ := List.mem_map.mp hx; exact fits_leaf ..)
  simpa [List.map_map, Function.comp_def] using this

end live

end Yaql.Props.C02Chain
