import Yaql.Props.C16
import Yaql.Gen.OpTables
import Yaql.Gen.RegistryConv
/-!
C12, "by keyword (using the convention-translated parameter names)": a keyword argument is WRITTEN as
`name => value` in expression text, so the name every registered parameter has under every naming
convention must come out of the lexer as a KEYWORD_STRING token carrying that name.  The lexer takes
words away from KEYWORD_STRING: the operator words of the engine's table (`and or not in mod ..`, and
whatever `insert_operator` added), `true` / `false` / `null`, words that start with `__`; words that
are not identifier-shaped never get there.

* `kwarg_name_token` (all configurations, all words, all continuations): an identifier-shaped word
  that does not start with `__`, followed by anything that is neither a word character nor `(`, is ONE
  token, classified by `classifyKeyword`;
* `classify_keyword_iff`: that token is the keyword token of the word iff the word is no operator word
  of the table and none of `true` / `false` / `null`;
* `spellable_sound`, `spellable_complete`: the decidable `spellable` = the first token of `w => ..` is
  the keyword token of `w`; `unspellable_dunder`: KEYWORD_STRING does not fire on `__..`;
* `keyword_names_spellable` (generated tables, `decide +kernel`): every keyword-passable parameter
  name of every registered definition, under each of the three conventions, is spellable under the
  operator tables of the default and of the legacy factory as `/repo` builds them now.
-/
namespace Yaql.Props.C12Spell
open Yaql.Lexer Yaql.Syntax Yaql.Props.C16 Yaql.Naming Yaql.Gen.RegistryConv

/-! ### one word in front of `=> value` -/

/-- what may follow the name of a keyword argument: the end of the text, or a character that is neither
    a word character (the word would go on) nor `(` (then FUNC fires first) -/
def TailOk (cc : CharCfg) : List Char → Prop
  | [] => True
  | x :: _ => cc.isWord x = false ∧ x ≠ '('

theorem ruleAt_word_tail (cfg : LexCfg) {c : Char} {r : List Char} (h : IdentShaped cfg.chars c r)
    (hdu : startsDunder (c :: r) = false) (tail : List Char) (ht : TailOk cfg.chars tail) :
    ruleAt cfg false (c :: (r ++ tail)) 0 = .tok (classifyKeyword cfg (c :: r) 0) (r.length + 1) := by
  cases tail with
  | nil => simpa using ruleAt_word cfg h hdu
  | cons x t =>
    obtain ⟨hx, hxp⟩ := ht
    obtain ⟨h1, _, h3, h4⟩ := ident_prelude cfg h (x :: t)
    have hall : ∀ y ∈ c :: r, cfg.chars.isWord y = true := by
      intro y hy
      rcases List.mem_cons.mp hy with rfl | hy
      · exact h.1
      · exact h.2.2 y hy
    have htk : (c :: (r ++ x :: t)).takeWhile cfg.chars.isWord = c :: r :=
      takeWhile_append_stop (l := c :: r) hall hx
    have hdr : (c :: (r ++ x :: t)).dropWhile cfg.chars.isWord = x :: t :=
      dropWhile_append_stop (l := c :: r) hall hx
    have hf : matchFunc cfg.chars false (c :: (r ++ x :: t)) = none := by
      simp only [matchFunc, h4, Bool.not_false, Bool.and_self, if_true, hdr, hxp, if_false]
    have hdu' : startsDunder (c :: (r ++ x :: t)) = false := by
      cases r with
      | nil =>
          -- `x` is no word character, `_` is one: not two underscores
          have hxu : (x == '_') = false := by
            cases hxu : (x == '_') with
            | false => rfl
            | true =>
                have : x = '_' := by simpa using hxu
                subst this
                rw [cfg.chars.underscore_word] at hx; cases hx
          simp [startsDunder, hxu]
      | cons b r' => simpa [startsDunder] using hdu
    have hk : matchKeyword cfg.chars false (c :: (r ++ x :: t)) = some (c :: r) := by
      simp only [matchKeyword, hdu', Bool.false_eq_true, if_false, h4, Bool.not_false, Bool.and_self, if_true, htk]
    simp only [ruleAt, h1, if_false, h3, hf, hk, List.length_cons]

/-- an identifier-shaped word that does not start with `__`, in front of `=> value` (or of anything that
    does not continue the word): one token, `classifyKeyword` of the word, ending right behind it -/
theorem kwarg_name_token (cfg : LexCfg) {c : Char} {r : List Char} (h : IdentShaped cfg.chars c r)
    (hdu : startsDunder (c :: r) = false) (tail : List Char) (ht : TailOk cfg.chars tail) :
    nextTok cfg (c :: (r ++ tail)) 0 = .tok (classifyKeyword cfg (c :: r) 0) (r.length + 1) := by
  have hi : isIgnored c = false := (ident_prelude cfg h tail).2.1
  have hr := ruleAt_word_tail cfg h hdu tail ht
  simp only [nextTok, prevWord, List.drop_zero, scanTok, hi, Bool.false_eq_true, if_false, hr]
  simp

/-- the words that `t_KEYWORD_STRING` leaves keywords -/
def wordFree (cfg : LexCfg) (w : List Char) : Bool :=
  !cfg.opWords.contains w && w != kwTrue && w != kwFalse && w != kwNull

theorem classify_keyword_iff (cfg : LexCfg) (w : List Char) (pos : Nat) :
    classifyKeyword cfg w pos = ⟨.keyword, .text w, pos⟩ ↔ wordFree cfg w = true := by
  simp only [classifyKeyword, wordFree, List.contains_iff_mem, Bool.and_eq_true, Bool.not_eq_true', decide_eq_false_iff_not,
    bne_iff_ne, ne_eq]
  by_cases ho : w ∈ cfg.opWords
  · simp [ho]
  · have n1 : kwFalse ≠ kwTrue := by decide
    have n2 : kwNull ≠ kwTrue := by decide
    have n3 : kwNull ≠ kwFalse := by decide
    by_cases h1 : w = kwTrue
    · subst h1; simp [ho]
    · by_cases h2 : w = kwFalse
      · subst h2; simp [ho, n1]
      · by_cases h3 : w = kwNull
        · subst h3; simp [ho, n2, n3]
        · simp [ho, h1, h2, h3]

/-- decidable: identifier-shaped under the character classes `cc` -/
def identShapedB (cc : CharCfg) : List Char → Bool
  | [] => false
  | c :: r => cc.isWord c && !cc.isDigit c && r.all cc.isWord

theorem identShapedB_spec (cc : CharCfg) (c : Char) (r : List Char) :
    identShapedB cc (c :: r) = true ↔ IdentShaped cc c r := by
  simp only [identShapedB, IdentShaped, Bool.and_eq_true, Bool.not_eq_true', List.all_eq_true]
  constructor
  · rintro ⟨⟨a, b⟩, d⟩; exact ⟨a, b, d⟩
  · rintro ⟨a, b, d⟩; exact ⟨⟨a, b⟩, d⟩

/-- **the name `w` can be written as the name of a keyword argument** under the lexer configuration `cfg` -/
def spellable (cfg : LexCfg) (w : List Char) : Bool :=
  identShapedB cfg.chars w && !startsDunder w && wordFree cfg w

/-- a spellable name in front of `=> value` IS the keyword token carrying that name -/
theorem spellable_sound (cfg : LexCfg) (w tail : List Char) (hs : spellable cfg w = true)
    (ht : TailOk cfg.chars tail) :
    nextTok cfg (w ++ tail) 0 = .tok ⟨.keyword, .text w, 0⟩ w.length := by
  cases w with
  | nil => simp [spellable, identShapedB] at hs
  | cons c r =>
    simp only [spellable, Bool.and_eq_true, Bool.not_eq_true'] at hs
    obtain ⟨⟨hid, hdu⟩, hfree⟩ := hs
    have h := (identShapedB_spec cfg.chars c r).mp hid
    have := kwarg_name_token cfg h hdu tail ht
    rw [(classify_keyword_iff cfg (c :: r) 0).mpr hfree] at this
    simpa using this

/-- for identifier-shaped words the test is exact: a word that is an operator word of the table, or
    `true` / `false` / `null`, in front of `=> value` is NOT the keyword token of that word (it is the operator /
    the constant), so `w => v` cannot be a keyword argument -/
theorem spellable_complete (cfg : LexCfg) {c : Char} {r : List Char} (h : IdentShaped cfg.chars c r)
    (hdu : startsDunder (c :: r) = false) (tail : List Char) (ht : TailOk cfg.chars tail) :
    nextTok cfg (c :: (r ++ tail)) 0 = .tok ⟨.keyword, .text (c :: r), 0⟩ (r.length + 1) ↔
      spellable cfg (c :: r) = true := by
  rw [kwarg_name_token cfg h hdu tail ht]
  have hid := (identShapedB_spec cfg.chars c r).mpr h
  simp only [spellable, hid, hdu, Bool.not_false, Bool.true_and, TokStep.tok.injEq, and_true]
  exact classify_keyword_iff cfg (c :: r) 0

/-- a word that starts with `__`: the KEYWORD_STRING rule does not fire at all (`(?!__)`) -/
theorem unspellable_dunder (cfg : LexCfg) (pw : Bool) (w tail : List Char) (hdu : startsDunder w = true) :
    matchKeyword cfg.chars pw (w ++ tail) = none ∧ spellable cfg w = false := by
  have : startsDunder (w ++ tail) = true := by
    match w, hdu with
    | a :: b :: _, hdu => simpa [startsDunder] using hdu
  constructor
  · simp [matchKeyword, this]
  · simp [spellable, hdu]

/-! ### the lexer configuration of an operator table (`Lexer(yaql_operators)`) -/

def sqBr : List Char := ['[', ']']
def cuBr : List Char := ['{', '}']

/-- the lexer configuration for the symbols `keys` of an operator table -/
def keysCfg (keys : List (List Char)) (nameValue : Option (List Char)) : LexCfg :=
  LexCfg.ofTable asciiChars (keys.filter fun s => s != sqBr && s != cuBr) (keys.contains sqBr) (keys.contains cuBr)
    nameValue (fun _ => none) 4300

/-- `YaqlFactory.create()`: the lexer gets the keys of the operator table -/
def tableCfg (t : Yaql.OpTable.Table) : LexCfg := keysCfg (t.ops.map (·.1)) t.nameValue

/-- `t.value in self._operators_table`: exactly the keys of the table -/
theorem keysCfg_opWords (keys : List (List Char)) (nv : Option (List Char)) (w : List Char) :
    w ∈ (keysCfg keys nv).opWords ↔ w ∈ keys := by
  simp only [keysCfg, LexCfg.ofTable, List.mem_append, List.mem_filter]
  constructor
  · rintro ((⟨h, _⟩ | h) | h)
    · exact h
    · by_cases hc : keys.contains sqBr = true
      · rw [if_pos hc] at h
        have : w = sqBr := List.mem_singleton.mp h
        subst this; exact List.contains_iff_mem.mp hc
      · rw [if_neg hc] at h; cases h
    · by_cases hc : keys.contains cuBr = true
      · rw [if_pos hc] at h
        have : w = cuBr := List.mem_singleton.mp h
        subst this; exact List.contains_iff_mem.mp hc
      · rw [if_neg hc] at h; cases h
  · intro h
    by_cases h1 : w = sqBr
    · subst h1; left; right; rw [if_pos (List.contains_iff_mem.mpr h)]; exact List.mem_singleton.mpr rfl
    · by_cases h2 : w = cuBr
      · subst h2; right; rw [if_pos (List.contains_iff_mem.mpr h)]; exact List.mem_singleton.mpr rfl
      · left; left; exact ⟨h, by simp [h1, h2]⟩

theorem tableCfg_opWords (t : Yaql.OpTable.Table) (w : List Char) :
    w ∈ (tableCfg t).opWords ↔ w ∈ t.ops.map (·.1) := keysCfg_opWords _ _ w

/-- spellable under the tables of BOTH factories yaql ships (default: `=>` is the name/value operator;
    legacy: `=>` is a binary operator) -/
def spellableEverywhere (w : List Char) : Bool :=
  spellable (tableCfg Yaql.Gen.OpTables.defaultTable) w && spellable (tableCfg Yaql.Gen.OpTables.legacyTable) w

/-- **every keyword-passable parameter of every registered definition, under each naming convention
    (contexts created in several orders), has a name that can be written as `name => value`** -/
theorem keyword_names_spellable :
    convRows.all (fun r => r.params.all fun p =>
      p.hidden || p.star || spellableEverywhere (keywordName r.conv p.declAlias p.name)) = true := by
  decide +kernel

/-- ... and so has the alias actually found in the definition (what `get_delegate` looks keywords up under) -/
theorem seen_aliases_spellable :
    convRows.all (fun r => r.params.all fun p =>
      p.hidden || p.star || spellableEverywhere (p.seenAlias.getD p.name)) = true := by
  decide +kernel

/-- non-vacuity: the tables do take words away (`mod`, `in`, `not`, `and`, `or` are operator words of both
    tables; `true`, `__x`, `1a` are not spellable either), ordinary names are spellable, and the rows do have
    keyword-passable parameters whose names the conventions rewrite -/
theorem spellable_kinds :
    spellableEverywhere ['m', 'o', 'd'] = false ∧ spellableEverywhere ['i', 'n'] = false ∧
    spellableEverywhere ['n', 'o', 't'] = false ∧ spellableEverywhere ['a', 'n', 'd'] = false ∧
    spellableEverywhere ['o', 'r'] = false ∧ spellableEverywhere ['t', 'r', 'u', 'e'] = false ∧
    spellableEverywhere ['n', 'u', 'l', 'l'] = false ∧ spellableEverywhere ['_', '_', 'x'] = false ∧
    spellableEverywhere ['1', 'a'] = false ∧ spellableEverywhere [] = false ∧
    spellableEverywhere ['m', 'o', 'd', 'u', 'l', 'o'] = true ∧ spellableEverywhere ['_', 'x'] = true ∧
    spellableEverywhere ['k', 'e', 'y', 'S', 'e', 'l', 'e', 'c', 't', 'o', 'r'] = true ∧
    convRows.any (fun r => r.params.any fun p => !p.hidden && !p.star &&
      keywordName r.conv p.declAlias p.name != p.name) = true ∧
    (convRows.map fun r => (r.params.filter fun p => !p.hidden && !p.star).length).sum > 1000 := by
  decide +kernel

-- `mod => 7`: the operator, not a keyword argument; `modulo => 7`: a keyword argument
example : nextTok (tableCfg Yaql.Gen.OpTables.defaultTable) ['m', 'o', 'd', ' ', '=', '>', ' ', '7'] 0 =
    .tok ⟨.op ['m', 'o', 'd'], .text ['m', 'o', 'd'], 0⟩ 3 := by decide +kernel
example : nextTok (tableCfg Yaql.Gen.OpTables.defaultTable) ['m', 'o', 'd', 'u', 'l', 'o', ' ', '=', '>', ' ', '7'] 0 =
    .tok ⟨.keyword, .text ['m', 'o', 'd', 'u', 'l', 'o'], 0⟩ 6 := by decide +kernel
example : TailOk asciiChars [' ', '=', '>', ' ', '7'] := ⟨by decide, by decide⟩

end Yaql.Props.C12Spell
