import Yaql.Model.OpTable
/-!
C02, table layer: where `insert_operator` puts a record, for every operator list.

The group of a record is the number of separators `()` before it (`_build_operator_table`
increments `precedence` at every separator), so the list is read through `splitGroups`.
-/
namespace Yaql.Props.C02Table
open Yaql.OpTable

/-- the operator list cut at its separators: `n` separators give `n + 1` groups, tightest first -/
def splitGroups : OpList → List (List Rec)
  | [] => [[]]
  | .sep :: rs => [] :: splitGroups rs
  | .op s t a :: rs =>
      match splitGroups rs with
      | g :: gs => (.op s t a :: g) :: gs
      | [] => [[.op s t a]]

def countSeps : OpList → Nat
  | [] => 0
  | .sep :: rs => countSeps rs + 1
  | .op .. :: rs => countSeps rs

/-- index (from 0) of the group that holds the record at position `i` -/
def groupIndex (ops : OpList) (i : Nat) : Nat := countSeps (ops.take i)

/-- no group is empty (no leading, trailing or doubled separator; the list is not empty) -/
def Tidy (ops : OpList) : Prop := ∀ g ∈ splitGroups ops, g ≠ []

theorem splitGroups_ne_nil : ∀ ops : OpList, splitGroups ops ≠ []
  | [] => by simp [splitGroups]
  | .sep :: rs => by simp [splitGroups]
  | .op s t a :: rs => by
    simp only [splitGroups]
    split <;> simp

theorem splitGroups_op (s : Str) (t : OpType) (a : Option Str) (rs : OpList) :
    ∃ g gs, splitGroups rs = g :: gs ∧ splitGroups (.op s t a :: rs) = (.op s t a :: g) :: gs := by
  cases h : splitGroups rs with
  | nil => exact absurd h (splitGroups_ne_nil rs)
  | cons g gs => exact ⟨g, gs, rfl, by simp [splitGroups, h]⟩

theorem length_splitGroups : ∀ ops : OpList, (splitGroups ops).length = countSeps ops + 1
  | [] => by simp [splitGroups, countSeps]
  | .sep :: rs => by simp [splitGroups, countSeps, length_splitGroups rs]
  | .op s t a :: rs => by
    obtain ⟨g, gs, h1, h2⟩ := splitGroups_op s t a rs
    have := length_splitGroups rs
    rw [h1] at this
    simp [h2, countSeps]; simpa using this

/-- inserting an operator record at the end of a group (in front of a separator or of the end of the
list) appends it to that group and changes nothing else -/
theorem splitGroups_insert_end (new : Rec) (hn : new.isOp = true) :
    ∀ (a b : OpList), (b = [] ∨ ∃ b', b = .sep :: b') →
      splitGroups (a ++ new :: b) = (splitGroups (a ++ b)).modify (countSeps a) (· ++ [new])
  | [], b, hb => by
    cases new with
    | sep => simp [Rec.isOp] at hn
    | op s t al =>
      rcases hb with rfl | ⟨b', rfl⟩
      · simp [splitGroups, countSeps]
      · simp [splitGroups, countSeps]
  | .sep :: a, b, hb => by
    simp [splitGroups, countSeps, splitGroups_insert_end new hn a b hb]
  | .op s t al :: a, b, hb => by
    have ih := splitGroups_insert_end new hn a b hb
    obtain ⟨g, gs, h1, h2⟩ := splitGroups_op s t al (a ++ b)
    obtain ⟨g', gs', h1', h2'⟩ := splitGroups_op s t al (a ++ new :: b)
    simp only [List.cons_append, h2, h2', countSeps]
    rw [ih, h1] at h1'
    cases hk : countSeps a with
    | zero =>
      rw [hk] at h1'
      simp at h1'
      obtain ⟨rfl, rfl⟩ := h1'
      simp
    | succ k =>
      rw [hk] at h1'
      simp at h1'
      obtain ⟨rfl, rfl⟩ := h1'
      simp

/-- inserting `new, ()` in front of a group start (after a separator, or at the very front) makes
`new` a group of its own in front of that group and changes nothing else -/
theorem splitGroups_insert_group (new : Rec) (hn : new.isOp = true) :
    ∀ (a b : OpList), (a = [] ∨ a.getLast? = some .sep) →
      splitGroups (a ++ new :: .sep :: b) = (splitGroups (a ++ b)).insertIdx (countSeps a) [new]
  | [], b, _ => by
    cases new with
    | sep => simp [Rec.isOp] at hn
    | op s t al => simp [splitGroups, countSeps]
  | .sep :: a, b, ha => by
    have ha' : a = [] ∨ a.getLast? = some .sep := by
      cases a with
      | nil => exact .inl rfl
      | cons x xs => right; rcases ha with h | h <;> simp_all [List.getLast?_cons_cons]
    simp [splitGroups, countSeps, splitGroups_insert_group new hn a b ha']
  | .op s t al :: a, b, ha => by
    have ha' : a ≠ [] ∧ a.getLast? = some .sep := by
      cases a with
      | nil => rcases ha with h | h <;> simp at h
      | cons x xs => rcases ha with h | h <;> simp_all [List.getLast?_cons_cons]
    have ih := splitGroups_insert_group new hn a b (.inr ha'.2)
    have hpos : 0 < countSeps a := by
      obtain ⟨hne, hl⟩ := ha'
      clear ih ha
      induction a with
      | nil => simp at hne
      | cons x xs ihx =>
        cases xs with
        | nil => simp at hl; subst hl; simp [countSeps]
        | cons y ys =>
          have := ihx (by simp) (by simpa [List.getLast?_cons_cons] using hl)
          cases x <;> simp [countSeps] <;> omega
    obtain ⟨g, gs, h1, h2⟩ := splitGroups_op s t al (a ++ b)
    obtain ⟨g', gs', h1', h2'⟩ := splitGroups_op s t al (a ++ new :: .sep :: b)
    simp only [List.cons_append, h2, h2', countSeps]
    rw [ih, h1] at h1'
    obtain ⟨k, hk⟩ : ∃ k, countSeps a = k + 1 := ⟨countSeps a - 1, by omega⟩
    rw [hk] at h1' ⊢
    simp at h1'
    obtain ⟨rfl, rfl⟩ := h1'
    simp


/-! ### the position search of `insert_operator` -/

theorem countSeps_append : ∀ (a b : OpList), countSeps (a ++ b) = countSeps a + countSeps b
  | [], b => by simp [countSeps]
  | .sep :: a, b => by simp [countSeps, countSeps_append a b]; omega
  | .op .. :: a, b => by simp [countSeps, countSeps_append a b]

theorem countSeps_allOps : ∀ (l : OpList), (∀ r ∈ l, r.isOp = true) → countSeps l = 0
  | [], _ => rfl
  | .sep :: l, h => by have := h .sep (List.mem_cons_self ..); simp [Rec.isOp] at this
  | .op .. :: l, h => by
    simp [countSeps]; exact countSeps_allOps l (fun r hr => h r (List.mem_cons_of_mem _ hr))

theorem countSeps_allSeps : ∀ (l : OpList), (∀ r ∈ l, r.isSep = true) → countSeps l = l.length
  | [], _ => rfl
  | .sep :: l, h => by
    simp [countSeps]; exact countSeps_allSeps l (fun r hr => h r (List.mem_cons_of_mem _ hr))
  | .op s t a :: l, h => by have := h (.op s t a) (List.mem_cons_self ..); simp [Rec.isSep, Rec.isOp] at this

theorem take_of_split {α} {l a b : List α} (h : l = a ++ b) : l.take a.length = a ∧ l.drop a.length = b := by
  subst h; simp

theorem takeWhile_all {α} (p : α → Bool) : ∀ (l : List α), ∀ r ∈ l.takeWhile p, p r = true
  | [], r, h => by simp at h
  | x :: xs, r, h => by
    by_cases hx : p x = true
    · simp [List.takeWhile, hx] at h
      rcases h with rfl | h
      · exact hx
      · exact takeWhile_all p xs r h
    · simp [List.takeWhile, hx] at h

/-- the three facts about `advance`: the list splits at the new position, the skipped records satisfy
`p`, and the record at the new position (if any) does not -/
theorem advance_spec (p : Rec → Bool) (ops : OpList) (i : Nat) (hi : i ≤ ops.length) :
    ops.take (advance p ops i) = ops.take i ++ (ops.drop i).takeWhile p ∧
    ops.drop (advance p ops i) = (ops.drop i).dropWhile p ∧
    advance p ops i ≤ ops.length := by
  have hsplit : ops = (ops.take i ++ (ops.drop i).takeWhile p) ++ (ops.drop i).dropWhile p := by
    rw [List.append_assoc, List.takeWhile_append_dropWhile, List.take_append_drop]
  have hlen : (ops.take i).length = i := by simp [List.length_take, hi]
  have hadv : advance p ops i = (ops.take i ++ (ops.drop i).takeWhile p).length := by
    simp [advance, hlen]
  obtain ⟨e1, e2⟩ := take_of_split hsplit
  refine ⟨by rw [hadv]; exact e1, by rw [hadv]; exact e2, ?_⟩
  have := congrArg List.length hsplit
  simp only [List.length_append] at this
  rw [hadv, List.length_append]; omega

theorem dropWhile_isOp_head (l : OpList) : l.dropWhile Rec.isOp = [] ∨ ∃ b', l.dropWhile Rec.isOp = .sep :: b' := by
  induction l with
  | nil => simp
  | cons x xs ih =>
    cases x with
    | sep => right; exact ⟨xs, by simp [List.dropWhile, Rec.isOp]⟩
    | op s t a => simpa [List.dropWhile, Rec.isOp] using ih

theorem findExisting_spec (ex : Str) (b : Bool) : ∀ (ops : OpList) (k i : Nat), findExisting ex b ops k = some i →
    k ≤ i ∧ i - k < ops.length ∧ ∃ r, ops[i - k]? = some r ∧ matchesExisting ex b r = true
  | [], k, i, h => by simp [findExisting] at h
  | r :: rs, k, i, h => by
    simp only [findExisting] at h
    split at h
    · rename_i hm
      have : k = i := by simpa using h
      subst this
      exact ⟨Nat.le_refl _, by simp, r, by simp, hm⟩
    · obtain ⟨h1, h2, r', h3, h4⟩ := findExisting_spec ex b rs (k + 1) i h
      refine ⟨by omega, by simp; omega, r', ?_, h4⟩
      have : i - k = (i - (k + 1)) + 1 := by omega
      rw [this]; simpa using h3

theorem insertAt_eq (ops : OpList) (pos : Nat) (x : Rec) : insertAt ops pos x = ops.take pos ++ x :: ops.drop pos := rfl

/-- **`insert_operator` without `create_group`, existing operator given**: the new record becomes the
last record of the existing operator's group; every group keeps its records and its place. -/
theorem insert_same_group (ops : OpList) (ex : Str) (bin : Bool) (sym : Str) (ty : OpType) (al : Option Str)
    (i : Nat) (r : OpList) (hf : findExisting ex bin ops 0 = some i)
    (h : insertOperator ops (some ex) bin sym ty false al = .ok r) :
    splitGroups r = (splitGroups ops).modify (groupIndex ops i) (· ++ [.op sym ty al]) := by
  obtain ⟨_, hi, _⟩ := findExisting_spec ex bin ops 0 i hf
  simp only [Nat.sub_zero] at hi
  obtain ⟨h1, h2, _⟩ := advance_spec Rec.isOp ops i (Nat.le_of_lt hi)
  simp only [insertOperator, hf, Bool.false_eq_true, ↓reduceIte] at h
  injection h with h
  subst h
  rw [insertAt_eq, splitGroups_insert_end _ (by simp [Rec.isOp]) _ _ (by rw [h2]; exact dropWhile_isOp_head _),
    List.take_append_drop, h1, countSeps_append,
    countSeps_allOps _ (takeWhile_all Rec.isOp _)]
  rfl


theorem splitGroups_append_sep_new (new : Rec) (hn : new.isOp = true) :
    ∀ (a : OpList), splitGroups (a ++ [.sep, new]) = splitGroups a ++ [[new]]
  | [] => by cases new <;> simp [Rec.isOp] at hn <;> simp [splitGroups]
  | .sep :: a => by simp [splitGroups, splitGroups_append_sep_new new hn a]
  | .op s t al :: a => by
    obtain ⟨g, gs, h1, h2⟩ := splitGroups_op s t al a
    obtain ⟨g', gs', h1', h2'⟩ := splitGroups_op s t al (a ++ [.sep, new])
    rw [splitGroups_append_sep_new new hn a, h1] at h1'
    simp only [List.cons_append, h2, h2']
    simp at h1'
    obtain ⟨rfl, rfl⟩ := h1'
    simp

/-- an empty group appears wherever a separator is first, last, or doubled -/
theorem nil_mem_leading (b : OpList) : [] ∈ splitGroups (.sep :: b) := by simp [splitGroups]

theorem nil_mem_tail : ∀ (a b : OpList), [] ∈ splitGroups b → [] ∈ (splitGroups (a ++ .sep :: b)).tail
  | [], b, hb => by simpa [splitGroups] using hb
  | .sep :: a, b, hb => by
    simp only [List.cons_append, splitGroups, List.tail_cons]
    exact List.mem_of_mem_tail (nil_mem_tail a b hb)
  | .op s t al :: a, b, hb => by
    have ih := nil_mem_tail a b hb
    obtain ⟨g, gs, h1, h2⟩ := splitGroups_op s t al (a ++ .sep :: b)
    simp only [List.cons_append, h2, List.tail_cons]
    rw [h1] at ih
    simpa using ih

theorem nil_mem_inner (a b : OpList) (hb : b = [] ∨ ∃ b', b = .sep :: b') : [] ∈ splitGroups (a ++ .sep :: b) := by
  apply List.mem_of_mem_tail
  apply nil_mem_tail
  rcases hb with rfl | ⟨b', rfl⟩ <;> simp [splitGroups]

/-- in a tidy list the separator after a group is single and is followed by an operator record -/
theorem tidy_single_sep {ops : OpList} (ht : Tidy ops) (a b : OpList) (h : ops = a ++ .sep :: b) :
    ∃ s t al b', b = .op s t al :: b' := by
  cases b with
  | nil => exact absurd (by rw [h]; exact nil_mem_inner a [] (.inl rfl)) (fun hm => ht [] hm rfl)
  | cons x b' =>
    cases x with
    | sep => exact absurd (by rw [h]; exact nil_mem_inner a (.sep :: b') (.inr ⟨b', rfl⟩)) (fun hm => ht [] hm rfl)
    | op s t al => exact ⟨s, t, al, b', rfl⟩

/-- **`insert_operator` with `create_group`, existing operator given, tidy list**: the new record
becomes a group of its own, immediately looser than the existing operator's group and tighter than
the next one; every other group keeps its records and its place. -/
theorem insert_new_group (ops : OpList) (ht : Tidy ops) (ex : Str) (bin : Bool) (sym : Str) (ty : OpType)
    (al : Option Str) (i : Nat) (r : OpList) (hf : findExisting ex bin ops 0 = some i)
    (h : insertOperator ops (some ex) bin sym ty true al = .ok r) :
    splitGroups r = (splitGroups ops).insertIdx (groupIndex ops i + 1) [.op sym ty al] := by
  obtain ⟨_, hi, _⟩ := findExisting_spec ex bin ops 0 i hf
  simp only [Nat.sub_zero] at hi
  obtain ⟨h1, h2, h3⟩ := advance_spec Rec.isOp ops i (Nat.le_of_lt hi)
  have hcount : countSeps (ops.take (advance Rec.isOp ops i)) = groupIndex ops i := by
    rw [h1, countSeps_append, countSeps_allOps _ (takeWhile_all Rec.isOp _)]; rfl
  simp only [insertOperator, hf, ↓reduceIte] at h
  split at h
  · -- the existing operator's group is the last one
    rename_i hend
    have hend : advance Rec.isOp ops i = ops.length := by simpa using hend
    injection h with h
    subst h
    have : insertAt (ops ++ [.sep]) (advance Rec.isOp ops i + 1) (.op sym ty al) = ops ++ [.sep, .op sym ty al] := by
      rw [insertAt_eq, hend]
      have hl : (ops ++ [Rec.sep]).length = ops.length + 1 := by simp
      rw [← hl, List.take_length, List.drop_length]; simp
    rw [this, splitGroups_append_sep_new _ (by simp [Rec.isOp])]
    have hidx : groupIndex ops i + 1 = (splitGroups ops).length := by
      rw [length_splitGroups, ← hcount, hend, List.take_length]
    rw [hidx, List.insertIdx_length_self]
  · rename_i hend
    have hlt : advance Rec.isOp ops i < ops.length := by
      have : advance Rec.isOp ops i ≠ ops.length := by simpa using hend
      omega
    injection h with h
    subst h
    -- the record at the group end is a separator, followed (tidy list) by an operator record
    have hsplit : ops = ops.take (advance Rec.isOp ops i) ++ ops.drop (advance Rec.isOp ops i) :=
      (List.take_append_drop _ _).symm
    obtain ⟨b', hb'⟩ : ∃ b', ops.drop (advance Rec.isOp ops i) = .sep :: b' := by
      rcases dropWhile_isOp_head (ops.drop i) with hnil | hsep
      · rw [← h2] at hnil
        have := congrArg List.length hnil
        simp at this; omega
      · rw [← h2] at hsep; exact hsep
    obtain ⟨s', t', a', b'', hb''⟩ := tidy_single_sep ht _ b' (by rw [← hb']; exact hsplit)
    generalize he : advance Rec.isOp ops i = e at *
    obtain ⟨k1, k2, k3⟩ := advance_spec Rec.isSep ops e (Nat.le_of_lt hlt)
    have htw : (ops.drop e).takeWhile Rec.isSep = [.sep] := by
      rw [hb', hb'']; simp [List.takeWhile, Rec.isSep, Rec.isOp]
    have hdw : (ops.drop e).dropWhile Rec.isSep = b' := by
      rw [hb', hb'']; simp [List.dropWhile, Rec.isSep, Rec.isOp]
    generalize he2 : advance Rec.isSep ops e = e2 at *
    rw [htw] at k1
    rw [hdw] at k2
    have hr : insertAt (insertAt ops e2 .sep) e2 (.op sym ty al) =
        ops.take e2 ++ .op sym ty al :: .sep :: ops.drop e2 := by
      rw [insertAt_eq, insertAt_eq]
      have hl : (ops.take e2).length = e2 := by simp [List.length_take, k3]
      have := take_of_split (l := ops.take e2 ++ .sep :: ops.drop e2) (a := ops.take e2) rfl
      rw [hl] at this
      rw [this.1, this.2]
    rw [hr, splitGroups_insert_group _ (by simp [Rec.isOp]) _ _ (by right; rw [k1]; simp),
      List.take_append_drop, k1, countSeps_append, hcount]
    rfl

/-- **`insert_operator` with `existing_operator=None`**: without `create_group` the new record is the
first record of the tightest group; with `create_group` (tidy list) it is a new tightest group. -/
theorem insert_front (ops : OpList) (bin : Bool) (sym : Str) (ty : OpType) (al : Option Str) :
    insertOperator ops none bin sym ty false al = .ok (.op sym ty al :: ops) ∧
    (Tidy ops → ∃ r, insertOperator ops none bin sym ty true al = .ok r ∧
      splitGroups r = [.op sym ty al] :: splitGroups ops) := by
  refine ⟨by simp [insertOperator, insertAt], fun ht => ?_⟩
  cases ops with
  | nil => exact absurd rfl (ht [] (by simp [splitGroups]))
  | cons x xs =>
    cases x with
    | sep => exact absurd rfl (ht [] (nil_mem_leading xs))
    | op s t a =>
      refine ⟨.op sym ty al :: .sep :: .op s t a :: xs, ?_, ?_⟩
      · simp [insertOperator, insertAt, advance, Rec.isSep, Rec.isOp]
      · simp [splitGroups]

end Yaql.Props.C02Table
